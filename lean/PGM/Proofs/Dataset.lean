import PGM.Model.Dataset
import PGM.Proofs.Domain
/-! helper lemmas for C15 -/
set_option linter.unusedVariables false
set_option linter.unusedSectionVars false
namespace PGM

namespace Dom
/-- assignment that gives the attributes `cols` the values `c` positionally (0 elsewhere) -/
def assign (cols : List Attr) (c : List Nat) : Attr → Nat :=
  fun a => if cols.contains a then c.getD (cols.idxOf a) 0 else 0
end Dom

namespace Dataset
variable {α : Type} [Scalar α]

/-- every record has one in-range value per attribute -/
def InDomain (D : Dataset α) : Prop :=
  ∀ r ∈ D.rows, r.length = D.dom.shape.length ∧
    ∀ i (hi : i < r.length), 0 ≤ r[i] ∧ (r[i]).toNat < D.dom.shape.getD i 0

/-- total weight of the records equal to cell `c` -/
def tableAt (D : Dataset α) (c : List Nat) : α :=
  (D.rows.zipIdx.map (fun (r, i) => (r, D.weightAt i))).foldl
    (fun acc (r, w) => if r = c.map (fun n : Nat => (n : Int)) then Scalar.add acc w else acc) Scalar.zero

/-! ### generic list / fold helpers -/

theorem foldl_congr_mem {β γ : Type} (f g : β → γ → β) (l : List γ) (a : β)
    (h : ∀ acc, ∀ x ∈ l, f acc x = g acc x) : l.foldl f a = l.foldl g a := by
  induction l generalizing a with
  | nil => rfl
  | cons x xs ih =>
    simp only [List.foldl_cons]
    rw [h a x (by simp)]
    exact ih _ (fun acc y hy => h acc y (by simp [hy]))

theorem map_getD_idxOf_self {β γ : Type} [BEq β] [LawfulBEq β] (l : List β) (hl : l.Nodup)
    (c : List γ) (d : γ) (hc : c.length = l.length) :
    l.map (fun a => c.getD (l.idxOf a) d) = c := by
  apply List.ext_getElem
  · simp [hc]
  · intro i h1 h2
    have hi : i < l.length := by simpa using h1
    simp only [List.getElem_map]
    rw [hl.idxOf_getElem i hi]
    simp [List.getD_eq_getElem?_getD, List.getElem?_eq_getElem h2]

theorem inRange_map_map {β : Type} (l : List β) (f g : β → Nat) :
    InRange (l.map f) (l.map g) ↔ ∀ a ∈ l, g a < f a := by
  induction l with
  | nil => simp [InRange]
  | cons x xs ih => simp [InRange, ih]

theorem map_cast_toNat (r : List Int) (h : ∀ x ∈ r, 0 ≤ x) :
    (r.map Int.toNat).map (fun n : Nat => (n : Int)) = r := by
  rw [List.map_map]
  conv => rhs; rw [← List.map_id r]
  apply List.map_congr_left
  intro x hx
  have := h x hx
  simp only [Function.comp, id]
  omega

theorem map_toNat_cast (c : List Nat) :
    (c.map (fun n : Nat => (n : Int))).map Int.toNat = c := by
  rw [List.map_map]
  conv => rhs; rw [← List.map_id c]
  apply List.map_congr_left
  intro x hx
  simp

/-! ### rows inside the domain -/

/-- positional form of "row `r` lies inside `shape`" -/
def RowIn (shape : List Nat) (r : List Int) : Prop :=
  r.length = shape.length ∧
    ∀ i (hi : i < r.length), 0 ≤ r[i] ∧ (r[i]).toNat < shape.getD i 0

theorem RowIn.nonneg {shape : List Nat} {r : List Int} (h : RowIn shape r) : ∀ x ∈ r, 0 ≤ x := by
  intro x hx
  obtain ⟨i, hi, rfl⟩ := List.getElem_of_mem hx
  exact (h.2 i hi).1

theorem RowIn.tail {n : Nat} {ns : List Nat} {v : Int} {vs : List Int}
    (h : RowIn (n :: ns) (v :: vs)) : RowIn ns vs := by
  refine ⟨by simpa using h.1, ?_⟩
  intro i hi
  have := h.2 (i+1) (by simpa using hi)
  simpa using this

theorem binOf_of_rowIn (shape : List Nat) (r : List Int) (h : RowIn shape r) :
    binOf shape r = some (r.map Int.toNat) := by
  induction shape generalizing r with
  | nil =>
    cases r with
    | nil => rfl
    | cons v vs => simp [RowIn] at h
  | cons n ns ih =>
    cases r with
    | nil => simp [RowIn] at h
    | cons v vs =>
      have h0 := h.2 0 (by simp)
      simp only [List.getElem_cons_zero, List.getD_cons_zero] at h0
      have hb : bin1 n v = some v.toNat := by
        unfold bin1
        rw [if_neg (by omega), if_pos h0.2]
      simp only [binOf, hb, ih vs h.tail, List.map_cons]
      rfl

theorem binOf_eq_iff (shape : List Nat) (r : List Int) (h : RowIn shape r) (c : List Nat) :
    binOf shape r = some c ↔ r = c.map (fun n : Nat => (n : Int)) := by
  rw [binOf_of_rowIn shape r h]
  constructor
  · intro hc
    have hc' : r.map Int.toNat = c := by simpa using hc
    rw [← hc', map_cast_toNat r h.nonneg]
  · intro hr
    rw [hr, map_toNat_cast]

/-- the (record, weight) pairs of a dataset -/
def pairs (D : Dataset α) : List (List Int × α) :=
  D.rows.zipIdx.map (fun (r, i) => (r, D.weightAt i))

theorem mem_pairs (D : Dataset α) (p : List Int × α) (h : p ∈ D.pairs) : p.1 ∈ D.rows := by
  simp only [pairs, List.mem_map] at h
  obtain ⟨⟨r, i⟩, hri, rfl⟩ := h
  exact (List.mem_zipIdx hri).2.2 ▸ List.getElem_mem _

theorem datavector_eq_count (D : Dataset α) (hin : D.InDomain) (c : List Nat)
    (hc : InRange D.dom.shape c) :
    D.datavector[ravel D.dom.shape c]? = some (D.tableAt c) := by
  unfold datavector
  simp only [List.getElem?_map, cells_getElem_ravel _ _ hc, Option.map_some]
  congr 1
  have hb : D.rows.zipIdx.map (fun (r, i) => (binOf D.dom.shape r, D.weightAt i))
      = D.pairs.map (fun p => (binOf D.dom.shape p.1, p.2)) := by
    simp [pairs, List.map_map, Function.comp_def]
  rw [hb, List.foldl_map]
  unfold tableAt
  show D.pairs.foldl _ _ = D.pairs.foldl _ _
  apply foldl_congr_mem
  intro acc p hp
  have hr : RowIn D.dom.shape p.1 := hin p.1 (mem_pairs D p hp)
  obtain ⟨r, w⟩ := p
  simp only [binOf_eq_iff _ _ hr c]

theorem datavector_length (D : Dataset α) : D.datavector.length = D.dom.size := by
  simp [datavector, length_cells, Dom.size]

theorem bin1_boundary (n : Nat) (hn : 0 < n) :
    bin1 n (n : Int) = some (n - 1) ∧ bin1 n ((n : Int) + 1) = none ∧ bin1 n (-1) = none := by
  refine ⟨?_, ?_, ?_⟩
  · unfold bin1
    rw [if_neg (by omega), if_neg (by simp), if_pos (by simp [hn])]
  · unfold bin1
    rw [if_neg (by omega), if_neg (by omega), if_neg (by omega)]
  · unfold bin1
    rw [if_pos (by omega)]

/-- attribute-keyed form of `RowIn` -/
theorem rowIn_attr (d : Dom) (hd : d.WF) (r : List Int) (h : RowIn d.shape r) :
    r.length = d.attrs.length ∧
      ∀ a ∈ d.attrs, 0 ≤ r.getD (d.attrs.idxOf a) 0 ∧ (r.getD (d.attrs.idxOf a) 0).toNat < d.cfg a := by
  have hlen : r.length = d.attrs.length := by rw [h.1, Dom.length_shape, Dom.length_attrs]
  refine ⟨hlen, ?_⟩
  intro a ha
  have hj : d.attrs.idxOf a < r.length := by
    rw [hlen]; exact List.idxOf_lt_length_iff.mpr ha
  have hg : r.getD (d.attrs.idxOf a) 0 = r[d.attrs.idxOf a] := by
    simp [List.getD_eq_getElem?_getD, List.getElem?_eq_getElem hj]
  have hs : d.shape.getD (d.attrs.idxOf a) 0 = d.cfg a := by
    rw [Dom.shape_eq_map_cfg d hd]
    exact getD_map_idxOf d.attrs d.cfg 0 a ha
  rw [hg, ← hs]
  exact h.2 _ hj

theorem project_inDomain (D : Dataset α) (cols : List Attr) (hD : D.dom.WF) (hin : D.InDomain)
    (hsub : ∀ a ∈ cols, a ∈ D.dom.attrs) : (D.project cols).InDomain := by
  intro r' hr'
  simp only [project, List.mem_map] at hr'
  obtain ⟨r, hr, rfl⟩ := hr'
  have hok := rowIn_attr D.dom hD r (hin r hr)
  simp only [project, Dom.shape_project, List.length_map, true_and]
  intro i hi
  have hmem : cols[i] ∈ D.dom.attrs := hsub _ (List.getElem_mem hi)
  have hs : (cols.map D.dom.cfg).getD i 0 = D.dom.cfg cols[i] := by
    simp [List.getD_eq_getElem?_getD, List.getElem?_eq_getElem hi]
  rw [List.getElem_map, hs]
  exact hok.2 _ hmem

/-! ### sums -/

section Sums
variable (hassoc : ∀ a b c : α, Scalar.add (Scalar.add a b) c = Scalar.add a (Scalar.add b c))
variable (hcomm : ∀ a b : α, Scalar.add a b = Scalar.add b a)
include hassoc hcomm

theorem foldl_add_acc (l : List α) (z x : α) :
    l.foldl Scalar.add (Scalar.add z x) = Scalar.add (l.foldl Scalar.add z) x := by
  induction l generalizing z with
  | nil => rfl
  | cons y ys ih =>
    simp only [List.foldl_cons]
    have : Scalar.add (Scalar.add z x) y = Scalar.add (Scalar.add z y) x := by
      rw [hassoc, hcomm x y, ← hassoc]
    rw [this, ih]

theorem sum_cons (x : α) (l : List α) :
    Scalar.sum (x :: l) = Scalar.add (Scalar.sum l) x := by
  unfold Scalar.sum
  rw [List.foldl_cons, foldl_add_acc hassoc hcomm]

/-- adding `w` to one summand (the one at `v0`) adds `w` to the sum -/
theorem sum_update {γ : Type} [DecidableEq γ] (vs : List γ) (hvs : vs.Nodup) (v0 : γ) (hv0 : v0 ∈ vs)
    (A : γ → α) (w : α) :
    Scalar.sum (vs.map (fun v => if v = v0 then Scalar.add (A v) w else A v))
      = Scalar.add (Scalar.sum (vs.map A)) w := by
  induction vs with
  | nil => simp at hv0
  | cons v vs ih =>
    rw [List.nodup_cons] at hvs
    simp only [List.map_cons]
    rw [sum_cons hassoc hcomm, sum_cons hassoc hcomm]
    by_cases hv : v = v0
    · subst hv
      have : vs.map (fun u => if u = v then Scalar.add (A u) w else A u) = vs.map A := by
        apply List.map_congr_left
        intro u hu
        have : u ≠ v := fun h => hvs.1 (h ▸ hu)
        simp [this]
      rw [this, if_pos rfl, hassoc]
    · have hmem : v0 ∈ vs := by
        rcases List.mem_cons.mp hv0 with h | h
        · exact absurd h.symm hv
        · exact h
      rw [ih hvs.2 hmem, if_neg hv, hassoc, hcomm w (A v), ← hassoc]

end Sums

theorem nodup_cells (s : List Nat) : (cells s).Nodup := by
  induction s with
  | nil => simp [cells]
  | cons n ns ih =>
    simp only [cells]
    unfold List.Nodup
    rw [List.pairwise_flatMap]
    refine ⟨?_, ?_⟩
    · intro i _
      exact nodup_map_of_inj_on _ _ ih (fun x _ y _ h => by simpa using h)
    · apply List.Pairwise.imp _ List.nodup_range
      intro i j hij x hx y hy hxy
      simp only [List.mem_map] at hx hy
      obtain ⟨x', _, rfl⟩ := hx
      obtain ⟨y', _, rfl⟩ := hy
      simp only [List.cons.injEq] at hxy
      exact hij hxy.1

/-- the full-domain cell assembled from a projected cell `c'` and values `v` of the dropped attributes -/
def cellOf (d : Dom) (cols : List Attr) (c' v : List Nat) : List Nat :=
  d.attrs.map (Dom.override (Dom.assign cols c') (d.invert cols) v)

/-- the projection of a record -/
def projRow (d : Dom) (cols : List Attr) (r : List Int) : List Int :=
  cols.map (fun a => r.getD (d.attrs.idxOf a) 0)

/-- the values of a record on the dropped attributes -/
def restOf (d : Dom) (cols : List Attr) (r : List Int) : List Nat :=
  (d.invert cols).map (fun a => (r.getD (d.attrs.idxOf a) 0).toNat)

theorem mem_invert (d : Dom) (cols : List Attr) (a : Attr) :
    a ∈ d.invert cols ↔ a ∈ d.attrs ∧ a ∉ cols := by
  simp [Dom.invert]

theorem nodup_invert (d : Dom) (hd : d.WF) (cols : List Attr) : (d.invert cols).Nodup :=
  List.Nodup.sublist List.filter_sublist hd

theorem getD_cellOf (d : Dom) (cols : List Attr) (c' v : List Nat) (a : Attr) (ha : a ∈ d.attrs) :
    ((cellOf d cols c' v).map (fun n : Nat => (n : Int))).getD (d.attrs.idxOf a) 0
      = ((Dom.override (Dom.assign cols c') (d.invert cols) v a : Nat) : Int) := by
  unfold cellOf
  rw [List.map_map]
  exact getD_map_idxOf d.attrs _ 0 a ha

theorem restOf_mem_cells (d : Dom) (hd : d.WF) (cols : List Attr) (r : List Int)
    (hr : RowIn d.shape r) : restOf d cols r ∈ cells ((d.invert cols).map d.cfg) := by
  rw [mem_cells_iff]
  unfold restOf
  rw [inRange_map_map]
  intro a ha
  exact ((rowIn_attr d hd r hr).2 a ((mem_invert d cols a).mp ha).1).2

/-- the assembled cell equals the record iff the record projects to `c'` and `v` is its rest -/
theorem eq_cellOf_iff (d : Dom) (hd : d.WF) (cols : List Attr) (hcols : cols.Nodup)
    (hsub : ∀ a ∈ cols, a ∈ d.attrs) (c' : List Nat) (hc' : c'.length = cols.length)
    (r : List Int) (hr : RowIn d.shape r) (v : List Nat) (hv : v.length = (d.invert cols).length) :
    r = (cellOf d cols c' v).map (fun n : Nat => (n : Int)) ↔
      (projRow d cols r = c'.map (fun n : Nat => (n : Int)) ∧ v = restOf d cols r) := by
  have hok := rowIn_attr d hd r hr
  constructor
  · intro h
    constructor
    · unfold projRow
      have h1 : cols.map (fun a => r.getD (d.attrs.idxOf a) 0)
          = cols.map (fun a => ((c'.getD (cols.idxOf a) 0 : Nat) : Int)) := by
        apply List.map_congr_left
        intro a ha
        rw [h, getD_cellOf d cols c' v a (hsub a ha)]
        have hni : a ∉ d.invert cols := fun hm => ((mem_invert d cols a).mp hm).2 ha
        simp [Dom.override, Dom.assign, hni, ha]
      rw [h1]
      have h2 := map_getD_idxOf_self cols hcols c' 0 hc'
      have h3 := congrArg (List.map (fun n : Nat => (n : Int))) h2
      rw [List.map_map] at h3
      exact h3
    · unfold restOf
      have h1 : (d.invert cols).map (fun a => (r.getD (d.attrs.idxOf a) 0).toNat)
          = (d.invert cols).map (fun a => v.getD ((d.invert cols).idxOf a) 0) := by
        apply List.map_congr_left
        intro a ha
        rw [h, getD_cellOf d cols c' v a ((mem_invert d cols a).mp ha).1]
        simp [Dom.override, ha]
      rw [h1]
      exact (map_getD_idxOf_self _ (nodup_invert d hd cols) v 0 hv).symm
  · intro ⟨hq, hv0⟩
    subst hv0
    have h1 : r = d.attrs.map (fun a => r.getD (d.attrs.idxOf a) 0) :=
      (map_getD_idxOf_self d.attrs hd r 0 hok.1).symm
    unfold cellOf
    rw [List.map_map]
    conv => lhs; rw [h1]
    apply List.map_congr_left
    intro a ha
    simp only [Function.comp]
    by_cases hc : a ∈ cols
    · have hni : a ∉ d.invert cols := fun hm => ((mem_invert d cols a).mp hm).2 hc
      have h2 := congrArg (fun l => l.getD (cols.idxOf a) 0) hq
      simp only [projRow] at h2
      rw [getD_map_idxOf cols _ 0 a hc] at h2
      rw [h2]
      have hlt : cols.idxOf a < c'.length := by
        rw [hc']; exact List.idxOf_lt_length_iff.mpr hc
      simp [Dom.override, Dom.assign, hni, hc, List.getD_eq_getElem?_getD,
        List.getElem?_eq_getElem hlt]
    · have hi : a ∈ d.invert cols := (mem_invert d cols a).mpr ⟨ha, hc⟩
      have h2 : (restOf d cols r).getD ((d.invert cols).idxOf a) 0
          = (r.getD (d.attrs.idxOf a) 0).toNat := getD_map_idxOf _ _ 0 a hi
      have h3 := (hok.2 a ha).1
      simp only [Dom.override, hi, List.contains_iff_mem, if_true, h2]
      omega

/-- fold of the table over explicit (record, weight) pairs -/
def tbl (L : List (List Int × α)) (c : List Nat) (z : α) : α :=
  L.foldl (fun acc (p : List Int × α) =>
    if p.1 = c.map (fun n : Nat => (n : Int)) then Scalar.add acc p.2 else acc) z

theorem tbl_project (d : Dom) (hd : d.WF) (cols : List Attr) (hcols : cols.Nodup)
    (hsub : ∀ a ∈ cols, a ∈ d.attrs) (c' : List Nat) (hc' : c'.length = cols.length)
    (hassoc : ∀ a b c : α, Scalar.add (Scalar.add a b) c = Scalar.add a (Scalar.add b c))
    (hcomm : ∀ a b : α, Scalar.add a b = Scalar.add b a)
    (L : List (List Int × α)) (hL : ∀ p ∈ L, RowIn d.shape p.1) (A : List Nat → α) :
    Scalar.sum ((cells ((d.invert cols).map d.cfg)).map (fun v => tbl L (cellOf d cols c' v) (A v)))
      = tbl (L.map (fun p => (projRow d cols p.1, p.2))) c'
          (Scalar.sum ((cells ((d.invert cols).map d.cfg)).map A)) := by
  induction L generalizing A with
  | nil => rfl
  | cons p L ih =>
    obtain ⟨r, w⟩ := p
    have hr : RowIn d.shape r := hL (r, w) (by simp)
    simp only [tbl, List.foldl_cons, List.map_cons]
    have ih' := ih (fun q hq => hL q (by simp [hq]))
      (fun v => if r = (cellOf d cols c' v).map (fun n : Nat => (n : Int)) then Scalar.add (A v) w else A v)
    simp only [tbl] at ih'
    rw [ih']
    congr 1
    by_cases hq : projRow d cols r = c'.map (fun n : Nat => (n : Int))
    · rw [if_pos hq]
      rw [← sum_update hassoc hcomm _ (nodup_cells _) (restOf d cols r)
        (restOf_mem_cells d hd cols r hr) A w]
      congr 1
      apply List.map_congr_left
      intro v hv
      have hvl : v.length = (d.invert cols).length := by
        have := ((mem_cells_iff _ _).mp hv).length_eq
        simpa using this
      have := eq_cellOf_iff d hd cols hcols hsub c' hc' r hr v hvl
      by_cases hv0 : v = restOf d cols r
      · rw [if_pos hv0, if_pos (this.mpr ⟨hq, hv0⟩)]
      · rw [if_neg hv0, if_neg (fun h => hv0 (this.mp h).2)]
    · rw [if_neg hq]
      congr 1
      apply List.map_congr_left
      intro v hv
      have hvl : v.length = (d.invert cols).length := by
        have := ((mem_cells_iff _ _).mp hv).length_eq
        simpa using this
      have := eq_cellOf_iff d hd cols hcols hsub c' hc' r hr v hvl
      rw [if_neg (fun h => hq (this.mp h).1)]

theorem sum_map_zero (hzero : ∀ a : α, Scalar.add Scalar.zero a = a) {γ : Type} (vs : List γ) :
    Scalar.sum (vs.map (fun _ => (Scalar.zero : α))) = Scalar.zero := by
  unfold Scalar.sum
  induction vs with
  | nil => rfl
  | cons v vs ih => simp only [List.map_cons, List.foldl_cons, hzero]; exact ih

theorem tableAt_eq_tbl (D : Dataset α) (c : List Nat) : D.tableAt c = tbl D.pairs c Scalar.zero := rfl

theorem pairs_project (D : Dataset α) (cols : List Attr) :
    (D.project cols).pairs = D.pairs.map (fun p => (projRow D.dom cols p.1, p.2)) := by
  simp only [pairs, project, List.zipIdx_map, List.map_map]
  apply List.map_congr_left
  intro ⟨r, i⟩ _
  rfl

theorem datavector_project_comm (D : Dataset α) (cols : List Attr)
    (hassoc : ∀ a b c : α, Scalar.add (Scalar.add a b) c = Scalar.add a (Scalar.add b c))
    (hcomm : ∀ a b : α, Scalar.add a b = Scalar.add b a)
    (hzero : ∀ a : α, Scalar.add Scalar.zero a = a)
    (hD : D.dom.WF) (hin : D.InDomain) (hcols : cols.Nodup) (hsub : ∀ a ∈ cols, a ∈ D.dom.attrs)
    (c' : List Nat) (hc' : InRange (D.dom.project cols).shape c') :
    (D.project cols).tableAt c' =
      Scalar.sum ((cells ((D.dom.invert cols).map D.dom.cfg)).map
        (fun v => D.tableAt (D.dom.attrs.map (Dom.override (Dom.assign cols c') (D.dom.invert cols) v)))) := by
  have hlen : c'.length = cols.length := by
    have := hc'.length_eq
    simpa using this
  have hL : ∀ p ∈ D.pairs, RowIn D.dom.shape p.1 := fun p hp => hin p.1 (mem_pairs D p hp)
  have key := tbl_project D.dom hD cols hcols hsub c' hlen hassoc hcomm D.pairs hL
    (fun _ => Scalar.zero)
  rw [sum_map_zero hzero] at key
  rw [tableAt_eq_tbl, pairs_project, ← key]
  rfl

end Dataset

namespace Dom

theorem project_project (d : Dom) (as bs : List Attr) (hd : d.WF) (has : as.Nodup)
    (hsub : ∀ b ∈ bs, b ∈ as) (hsub' : ∀ a ∈ as, a ∈ d.attrs) :
    (d.project as).project bs = d.project bs := by
  unfold project
  apply List.map_congr_left
  intro b hb
  have := cfg_project d as b (hsub b hb)
  unfold project at this
  rw [this]

theorem merge_attrs (d o : Dom) (ho : o.WF) :
    (d.merge o).attrs = d.attrs ++ o.attrs.filter (fun a => !d.attrs.contains a) :=
  attrs_merge d o

theorem size_append (s t : List Nat) : PGM.size (s ++ t) = PGM.size s * PGM.size t := by
  induction s with
  | nil => simp [PGM.size]
  | cons n ns ih => simp [PGM.size, ih, Nat.mul_assoc]

theorem size_merge (d o : Dom) : (d.merge o).size = d.size * (o.marginalize d.attrs).size := by
  simp only [size, merge, shape, List.map_append, size_append]

theorem size_filter_mul (l : List Attr) (f : Attr → Nat) (p : Attr → Bool) :
    PGM.size ((l.filter p).map f) * PGM.size ((l.filter (fun a => !p a)).map f)
      = PGM.size (l.map f) := by
  induction l with
  | nil => simp [PGM.size]
  | cons a as ih =>
    cases h : p a
    · simp only [List.filter_cons, h, Bool.not_false, List.map_cons, PGM.size, if_true]
      rw [← ih]
      simp only [Bool.false_eq_true, if_false]
      rw [Nat.mul_left_comm]
    · simp only [List.filter_cons, h, Bool.not_true, List.map_cons, PGM.size, if_true]
      rw [← ih]
      simp only [Bool.false_eq_true, if_false]
      rw [Nat.mul_assoc]

theorem size_project_mul_size_marginalize (d : Dom) (as : List Attr) (hd : d.WF) :
    (d.project (d.canonical as)).size * (d.marginalize as).size = d.size := by
  simp only [size, marginalize, shape_project, canonical, invert]
  rw [shape_eq_map_cfg d hd]
  exact size_filter_mul d.attrs d.cfg (fun a => as.contains a)

theorem canonical_sublist (d : Dom) (as : List Attr) : (d.canonical as).Sublist d.attrs :=
  List.filter_sublist

theorem invert_canonical_partition (d : Dom) (as : List Attr) :
    ∀ a ∈ d.attrs, (a ∈ d.canonical as ∧ a ∉ d.invert as) ∨ (a ∉ d.canonical as ∧ a ∈ d.invert as) := by
  intro a ha
  by_cases h : a ∈ as
  · left; simp [canonical, invert, ha, h]
  · right; simp [canonical, invert, ha, h]

theorem insertBy_perm {β : Type} (key : β → Nat) (x : β) (l : List β) :
    (insertBy key x l).Perm (x :: l) := by
  induction l with
  | nil => simp [insertBy]
  | cons y ys ih =>
    simp only [insertBy]
    split
    · exact List.Perm.refl _
    · exact (List.Perm.cons y ih).trans (List.Perm.swap x y ys)

theorem foldl_insertBy_perm {β : Type} (key : β → Nat) (l acc : List β) :
    (l.foldl (fun acc x => insertBy key x acc) acc).Perm (l ++ acc) := by
  induction l generalizing acc with
  | nil => simp
  | cons x xs ih =>
    simp only [List.foldl_cons]
    refine (ih _).trans ?_
    refine (List.Perm.append_left xs (insertBy_perm key x acc)).trans ?_
    simp only [List.cons_append]
    exact List.perm_middle

theorem sortBy_perm {β : Type} (key : β → Nat) (l : List β) : (sortBy key l).Perm l := by
  have := foldl_insertBy_perm key l []
  simpa [sortBy] using this

theorem insertBy_sorted {β : Type} (key : β → Nat) (x : β) (l : List β)
    (h : l.Pairwise (fun a b => key a ≤ key b)) :
    (insertBy key x l).Pairwise (fun a b => key a ≤ key b) := by
  induction l with
  | nil => simp [insertBy]
  | cons y ys ih =>
    simp only [insertBy]
    rw [List.pairwise_cons] at h
    split
    · rename_i hlt
      rw [List.pairwise_cons]
      refine ⟨?_, List.pairwise_cons.mpr h⟩
      intro b hb
      rcases List.mem_cons.mp hb with rfl | hb
      · omega
      · have := h.1 b hb; omega
    · rename_i hlt
      rw [List.pairwise_cons]
      refine ⟨?_, ih h.2⟩
      intro b hb
      have hb' := (insertBy_perm key x ys).mem_iff.mp hb
      rcases List.mem_cons.mp hb' with rfl | hb'
      · omega
      · exact h.1 b hb'

theorem sortBy_sorted {β : Type} (key : β → Nat) (l : List β) :
    (sortBy key l).Pairwise (fun a b => key a ≤ key b) := by
  unfold sortBy
  suffices ∀ acc : List β, acc.Pairwise (fun a b => key a ≤ key b) →
      (l.foldl (fun acc x => insertBy key x acc) acc).Pairwise (fun a b => key a ≤ key b) from
    this [] List.Pairwise.nil
  induction l with
  | nil => intro acc h; simpa using h
  | cons x xs ih => intro acc h; exact ih _ (insertBy_sorted key x acc h)

theorem project_attrs_self (d : Dom) (hd : d.WF) : d.project d.attrs = d := by
  unfold project attrs
  rw [List.map_map]
  conv => rhs; rw [← List.map_id d]
  apply List.map_congr_left
  intro p hp
  have := cfg_of_mem d hd p hp
  simp [this]

theorem sortSize_perm (d : Dom) (hd : d.WF) : d.sortSize.Perm d := by
  have h1 : (sortBy (fun a => d.cfg a) d.attrs).Perm d.attrs := sortBy_perm _ _
  have h2 := h1.map (fun a => (a, d.cfg a))
  have h3 := project_attrs_self d hd
  unfold project at h3
  rw [h3] at h2
  exact h2

theorem sortSize_sorted (d : Dom) (hd : d.WF) : d.sortSize.shape.Pairwise (· ≤ ·) := by
  unfold sortSize
  rw [shape_project, List.pairwise_map]
  exact sortBy_sorted (fun a => d.cfg a) d.attrs

theorem contains_iff_subset (d o : Dom) : d.contains o = true ↔ ∀ a ∈ o.attrs, a ∈ d.attrs :=
  contains_iff d o

theorem axes_index (d : Dom) (as : List Attr) (hsub : ∀ a ∈ as, a ∈ d.attrs) (i : Nat) (hi : i < as.length) :
    d.attrs[(d.axes as).getD i 0]? = as[i]? := by
  have h1 : (d.axes as).getD i 0 = d.attrs.idxOf as[i] := by
    simp [axes, List.getD_eq_getElem?_getD, List.getElem?_eq_getElem hi]
  have hlt : d.attrs.idxOf as[i] < d.attrs.length :=
    List.idxOf_lt_length_iff.mpr (hsub _ (List.getElem_mem hi))
  rw [h1, List.getElem?_eq_getElem hlt, List.getElem?_eq_getElem hi, List.getElem_idxOf hlt]

end Dom
end PGM
