import PGM.Generated.GraphicalModelQG
import PGM.Properties.C01G
import PGM.Properties.C02
/-!
# the generated `GraphicalModel.krondot` (`PGM/Generated/GraphicalModelQG.lean`) is the hand model `GM.krondot`

`matsOf d mats` are the query matrices as the numpy arrays the generated code receives.  `krondotG_eq_model` relates the
translated source to `GM.krondot` (the call of `variable_elimination` goes through `C01.GMG.gen_variableElimination`),
`krondotG_correct` is C02 `krondot_correct` for the translated source, `krondotPre_matsOf` the Python assertion.
-/
namespace PGM.GMQGen
open PGM PGM.JT PGM.Sem PGM.C01.GMG PGM.GMGen
set_option linter.unusedVariables false
set_option linter.unusedSectionVars false

/-- the matrices of the model (`(rows, flat row-major entries)` per attribute) as numpy arrays of shape `(rows, n)` -/
def matsOf {β : Type} (d : Dom) (mats : List (Nat × List β)) : List (NdArr β) :=
  (List.zip d mats).map (fun p => (⟨[p.2.1, p.1.2], p.2.2.toArray⟩ : NdArr β))

/-! ## lists -/

/-- a loop that appends one element per item -/
theorem foldl_append_map {σ ι : Type} (g : ι → σ) (l : List ι) (init : List σ) :
    l.foldl (fun st x => st ++ [g x]) init = init ++ l.map g := by
  induction l generalizing init with
  | nil => simp
  | cons x xs ih => rw [List.foldl_cons, ih, List.map_cons, List.append_assoc]; rfl

section
variable {β : Type} [Scalar β]

/-- the query factor the source builds from `(attr, Q)`: `Factor(Domain([attr + "-answer", attr], Q.shape), Q)` -/
def kronFactor (aQ : Attr × NdArr β) : Factor β :=
  Factor.mk' (List.zip [aQ.1 ++ "-answer", aQ.1] (NdArr.shape aQ.2)) aQ.2

/-- the query factors of the hand model (the `qf` of `GM.krondot`) -/
def qfOf (d : Dom) (mats : List (Nat × List β)) : List (Factor β) :=
  (List.zip d mats).map (fun (p : (Attr × Nat) × (Nat × List β)) =>
    let dd : Dom := [(p.1.1 ++ "-answer", p.2.1), (p.1.1, p.1.2)]
    (Factor.mk' dd ⟨dd.shape, p.2.2.toArray⟩ : Factor β))

/-- step (ii): with one matrix per attribute, the factors the source builds from `zip(domain.attrs, matrices)` are the model's -/
theorem map_kronFactor (d : Dom) (mats : List (Nat × List β)) (hlen : mats.length = d.length) :
    (List.zip (Dom.attrs d) (matsOf d mats)).map kronFactor = qfOf d mats := by
  induction d generalizing mats with
  | nil => rfl
  | cons a d ih =>
    cases mats with
    | nil => simp at hlen
    | cons m ms =>
      have h := ih ms (by simpa using hlen)
      unfold matsOf qfOf Dom.attrs at *
      simp only [List.zip_cons_cons, List.map_cons]
      rw [h]
      rfl

theorem length_matsOf (d : Dom) (mats : List (Nat × List β)) (hlen : mats.length = d.length) :
    (matsOf d mats).length = d.length := by
  unfold matsOf
  rw [List.length_map, List.length_zip, hlen, Nat.min_self]

theorem shaped_qfOf (d : Dom) (mats : List (Nat × List β)) : ∀ f ∈ qfOf d mats, Shaped f := by
  intro f hf
  obtain ⟨p, _, rfl⟩ := List.mem_map.mp hf
  exact shaped_mk' _ _

/-- every attribute of the domain occurs in its query factor: `preVE` of the factor list of `krondot` only asks for
a non-empty list -/
theorem preVE_kron (d : Dom) (mats : List (Nat × List β)) (fs : List (Factor β)) (hlen : mats.length = d.length)
    (hne : fs ≠ [] ∨ d ≠ []) : GM.preVE (fs ++ qfOf d mats) d.attrs = true := by
  unfold GM.preVE
  rw [Bool.and_eq_true]
  constructor
  · rw [List.all_eq_true]
    intro a ha
    rw [List.any_eq_true]
    obtain ⟨q, hq, rfl⟩ := List.mem_map.mp ha
    obtain ⟨i, hi, rfl⟩ := List.getElem_of_mem hq
    have hi2 : i < mats.length := by omega
    have hz : (d[i], mats[i]) ∈ List.zip d mats := by
      rw [List.mem_iff_getElem]
      exact ⟨i, by rw [List.length_zip]; omega, List.getElem_zip⟩
    refine ⟨_, List.mem_append_right _ (List.mem_map.mpr ⟨(d[i], mats[i]), hz, rfl⟩), ?_⟩
    simp [Factor.mk', Dom.attrs]
  · cases fs with
    | cons f fs => rfl
    | nil =>
      cases d with
      | nil => simp at hne
      | cons a d =>
        cases mats with
        | nil => simp at hlen
        | cons m ms => rfl

end

/-! ## the generated `krondot` -/
section gen
variable {α : Type} [Scalar α] {β : Type} [Scalar β]

/-- normal form of the generated definition (unfolding only): the loop is a fold of `kronFactor` -/
theorem krondotG_shape (toPlain : Factor α → Factor β) (plainS : α → β) (d : Dom) (cliques : List Clique)
    (order : List (Clique × Clique)) (pots : CliqueVec α) (total : β) (ms : List (NdArr β)) :
    GMQ.krondot toPlain plainS d cliques order pots total ms
      = NdArr.map (fun v => Scalar.div v (plainS (Scalar.exp (GMG.logZ cliques order pots))))
          (NdArr.map (fun v => Scalar.mul v total)
            (Factor.vals (Factor.transpose (GMG.PyVal.asFactor (GMG.variableElimination
              ((List.zip (Dom.attrs d) ms).foldl (fun st x => st ++ [kronFactor x])
                (cliques.map (fun cl => toPlain (Factor.exp (CliqueVec.get pots cl))))) (Dom.attrs d)))
              ((Dom.attrs d).map (fun a => a ++ "-answer"))))) := rfl

/-- step (iv): `(vals * total) / z` in two passes is the model's single pass -/
theorem map_div_map_mul (vals : NdArr β) (total z : β) :
    NdArr.map (fun v => Scalar.div v z) (NdArr.map (fun v => Scalar.mul v total) vals)
      = vals.map (fun v => Scalar.div (Scalar.mul v total) z) := by
  unfold NdArr.map
  simp only [Array.map_map]
  rfl

/-- **the translated `krondot` is the hand model**, with the exponentiated potentials read off the dictionary in `cliques`
order and `z = exp(logZ)` of the GENERATED belief propagation; hypotheses: the ones of `gen_variableElimination` on the
factor list the source builds (`hs`: the arrays of the exponentiated potentials have their domains' shapes — the query factors
do by construction; `hpre`: on the combined list, see `krondotG_eq_model'`) -/
theorem krondotG_eq_model (toPlain : Factor α → Factor β) (plainS : α → β) (ho : MulOneLaw β) (d : Dom)
    (cliques : List Clique) (order : List (Clique × Clique)) (pots : CliqueVec α) (total : β)
    (mats : List (Nat × List β)) (hlen : mats.length = d.length)
    (hs : ∀ cl ∈ cliques, Shaped (toPlain (Factor.exp (CliqueVec.get pots cl))))
    (hnd : d.attrs.Nodup)
    (hpre : GM.preVE (cliques.map (fun cl => toPlain (Factor.exp (CliqueVec.get pots cl))) ++ qfOf d mats) d.attrs = true) :
    GMQ.krondot toPlain plainS d cliques order pots total (matsOf d mats)
      = GM.krondot d (cliques.map (fun cl => toPlain (Factor.exp (CliqueVec.get pots cl)))) mats total
          (plainS (Scalar.exp (GMG.logZ cliques order pots))) := by
  rw [krondotG_shape, foldl_append_map, map_kronFactor d mats hlen, map_div_map_mul]
  have hsh : ∀ f ∈ cliques.map (fun cl => toPlain (Factor.exp (CliqueVec.get pots cl))) ++ qfOf d mats, Shaped f := by
    intro f hf
    rcases List.mem_append.mp hf with h | h
    · obtain ⟨cl, hcl, rfl⟩ := List.mem_map.mp h
      exact hs cl hcl
    · exact shaped_qfOf d mats f h
  rw [gen_variableElimination ho _ _ hsh hnd hpre]
  rfl

/-- … `preVE` holds as soon as there is a clique (or an attribute) -/
theorem krondotG_eq_model' (toPlain : Factor α → Factor β) (plainS : α → β) (ho : MulOneLaw β) (d : Dom)
    (cliques : List Clique) (order : List (Clique × Clique)) (pots : CliqueVec α) (total : β)
    (mats : List (Nat × List β)) (hlen : mats.length = d.length)
    (hs : ∀ cl ∈ cliques, Shaped (toPlain (Factor.exp (CliqueVec.get pots cl))))
    (hnd : d.attrs.Nodup) (hne : cliques ≠ [] ∨ d ≠ []) :
    GMQ.krondot toPlain plainS d cliques order pots total (matsOf d mats)
      = GM.krondot d (cliques.map (fun cl => toPlain (Factor.exp (CliqueVec.get pots cl)))) mats total
          (plainS (Scalar.exp (GMG.logZ cliques order pots))) :=
  krondotG_eq_model toPlain plainS ho d cliques order pots total mats hlen hs hnd
    (preVE_kron d mats _ hlen (hne.imp (fun h h' => h (List.map_eq_nil_iff.mp h')) id))

/-- the assertion of the source (`Q.shape[1] == n` for every matrix) holds for conforming matrices -/
theorem krondotPre_matsOf (d : Dom) (mats : List (Nat × List β)) (hlen : mats.length = d.length) :
    GMQ.krondotPre d (matsOf d mats) = true := by
  unfold GMQ.krondotPre
  induction d generalizing mats with
  | nil => rfl
  | cons a d ih =>
    cases mats with
    | nil => simp at hlen
    | cons m ms =>
      have h := ih ms (by simpa using hlen)
      unfold matsOf Dom.shape at *
      simp only [List.zip_cons_cons, List.map_cons, List.all_cons, h, Bool.and_true]
      simp

end gen

/-! ## C02 `krondot_correct` for the generated definition -/
section correct
variable {K : Type} [Field K] [LinearOrder K] [IsStrictOrderedRing K]

/-- the exponentiated potentials, looked up under the cliques, are the ones `krondot_correct` is about -/
theorem expPots_eq (cliques : List Clique) (pots : CliqueVec (LogOf K)) (hkeys : pots.map Prod.fst = cliques)
    (hnd : cliques.Nodup) :
    cliques.map (fun cl => toPlain (Factor.exp (CliqueVec.get pots cl))) = pots.map (fun p => toPlain p.2.exp) := by
  have h := map_get_eq_of_nodup pots (hkeys ▸ hnd)
  rw [hkeys] at h
  have h1 : cliques.map (fun cl => toPlain (Factor.exp (CliqueVec.get pots cl)))
      = (cliques.map pots.get).map (fun f => toPlain f.exp) := by rw [List.map_map]; rfl
  rw [h1, h, List.map_map]
  rfl

/-- **C02 `krondot_correct` for the GENERATED `krondot`**: on a valid junction tree with nonnegative potentials, entry
`(r₁,…,r_k)` of what the translated source returns for the matrices `matsOf d mats` is
`Σ_x (Π_i Qᵢ[rᵢ, xᵢ]) · total · joint(x) / Z`; the normaliser is the `exp(logZ)` the source computes itself (generated
belief propagation), `Shaped` / `preVE` / `FactorsOK` / coverage are derived from `ModelOK` -/
theorem krondotG_correct (d : Dom) (cliques : List Clique) (t : Tree) (order : List (Clique × Clique))
    (pots : CliqueVec (LogOf K)) (hok : ModelOK d cliques t order pots)
    (mats : List (Nat × List (PlainOf K))) (total : PlainOf K)
    (hfresh : ∀ a ∈ d.attrs, (a ++ "-answer") ∉ d.attrs)
    (hinj : ∀ a ∈ d.attrs, ∀ b ∈ d.attrs, a ++ "-answer" = b ++ "-answer" → a = b)
    (hlen : mats.length = d.length)
    (hshape : ∀ i (hi : i < mats.length), (mats[i]).2.length = (mats[i]).1 * (d.shape.getD i 0))
    (hsizes : ∀ p ∈ d, 0 < p.2)
    (ridx : List Nat) (hr : InRange (mats.map (·.1)) ridx) :
    ((GMQ.krondot (toPlain (K := K)) (fun x : LogOf K => (⟨x.v⟩ : PlainOf K)) d cliques order pots total
        (matsOf d mats)).get ridx).v
      = sumOver d d.attrs (fun _ => 0) (fun τ =>
          ((List.range d.length).map (fun i =>
            (((mats.getD i (0, [])).2).getD (ridx.getD i 0 * d.shape.getD i 0 + τ (d.attrs.getD i "")) ⟨0⟩).v)).prod
          * joint pots τ) * total.v / partition d pots := by
  obtain ⟨_, hcnd, _, _⟩ := modelOK_facts d cliques t order pots hok
  have htree := Sem.BP.isTree_of_check hok.jt
  have hcne : cliques ≠ [] := hok.nodes ▸ (treeFacts t htree).nodes_ne
  have hpne : pots ≠ [] := by
    intro h
    apply hcne
    rw [← hok.keys, h]
    rfl
  have hfs : FactorsOK d (pots.map Prod.snd) := by
    intro f hf
    obtain ⟨p, hp, rfl⟩ := List.mem_map.mp hf
    have hp1 : p.1 ∈ cliques := by rw [← hok.keys]; exact List.mem_map_of_mem hp
    exact ⟨(hok.pot_ok p hp).1, (hok.pot_ok p hp).2.2,
      fun a ha => (hok.clique_ok p.1 hp1).2 a ((hok.pot_ok p hp).2.1.mem_iff.mp ha)⟩
  have hcover : ∀ a ∈ d.attrs, ∃ p ∈ pots, a ∈ p.2.dom.attrs := by
    intro a ha
    obtain ⟨n, hn, han⟩ := (checkJT_sound d.attrs [] t order hok.jt).covers_domain a ha
    rw [hok.nodes, ← hok.keys] at hn
    obtain ⟨p, hp, rfl⟩ := List.mem_map.mp hn
    exact ⟨p, hp, (hok.pot_ok p hp).2.1.mem_iff.mpr han⟩
  rw [krondotG_eq_model' toPlain _ mulOne_PlainOf d cliques order pots total mats hlen
    (fun cl _ => rfl) hok.dom_wf (Or.inl hcne), expPots_eq cliques pots hok.keys hcnd]
  exact C02.krondot_correct d pots mats total _ hok.dom_wf hfs hpne hcover hfresh hinj hlen hshape hsizes
    (gen_logZ_correct d cliques t order pots hok) ridx hr

end correct

end PGM.GMQGen
