import PGM.Proofs.VECorrect
import PGM.Proofs.Dataset
/-! correctness of the remaining query paths: `datavector`, `krondot`, `calculate_many_marginals` -/
namespace PGM.Sem
open PGM PGM.JT PGM.GM
variable {K : Type} [Field K] [LinearOrder K] [IsStrictOrderedRing K]

/-- **`datavector`**: the materialised vector lists `total · joint / Z` over all cells of the
domain in row-major order (every attribute of the domain occurs in some clique) -/
theorem datavector_correct (d : Dom) (cliques : List Clique) (pots : CliqueVec (LogOf K))
    (total : LogOf K) (hd : d.WF) (hfs : FactorsOK d (pots.map Prod.snd)) (hkeys : pots.map Prod.fst = cliques)
    (hne : cliques ≠ []) (hcover : ∀ a ∈ d.attrs, ∃ p ∈ pots, a ∈ p.2.dom.attrs)
    (hsizes : ∀ p ∈ d, 0 < p.2) (hZ : partition d pots ≠ 0) (idx : List Nat) (hidx : InRange d.shape idx) :
    (datavectorScale ((datavectorCore d cliques pots).vals.data.toList.map (fun x => (⟨x.v⟩ : PlainOf K)))
        ⟨1⟩ ⟨total.v⟩)[ravel d.shape idx]?
      = some ⟨joint pots (Dom.assign d.attrs idx) / partition d pots * 1 * total.v⟩ := by
  sorry

/-- **`krondot`**: entry `(r₁,…,r_k)` of the answer is
`Σ_x (Π_i Qᵢ[rᵢ, xᵢ]) · total · joint(x) / Z` — the Kronecker-product query applied to the joint.
`expPots` are the exponentiated potentials, `mats[i] = (rows, flat entries)` for attribute `i`. -/
theorem krondot_correct (d : Dom) (pots : CliqueVec (LogOf K)) (mats : List (Nat × List (PlainOf K)))
    (total z : PlainOf K) (hd : d.WF) (hfs : FactorsOK d (pots.map Prod.snd)) (hne : pots ≠ [])
    (hcover : ∀ a ∈ d.attrs, ∃ p ∈ pots, a ∈ p.2.dom.attrs)
    (hfresh : ∀ a ∈ d.attrs, (a ++ "-answer") ∉ d.attrs)
    (hinj : ∀ a ∈ d.attrs, ∀ b ∈ d.attrs, a ++ "-answer" = b ++ "-answer" → a = b)
    (hlen : mats.length = d.length)
    (hshape : ∀ i (hi : i < mats.length), (mats[i]).2.length = (mats[i]).1 * (d.shape.getD i 0))
    (hsizes : ∀ p ∈ d, 0 < p.2) (hz : z.v = partition d pots)
    (ridx : List Nat) (hr : InRange (mats.map (·.1)) ridx) :
    ((krondot d (pots.map (fun p => toPlain p.2.exp)) mats total z).get ridx).v
      = sumOver d d.attrs (fun _ => 0) (fun τ =>
          ((List.range d.length).map (fun i =>
            (((mats.getD i (0, [])).2).getD (ridx.getD i 0 * d.shape.getD i 0 + τ (d.attrs.getD i "")) ⟨0⟩).v)).prod
          * joint pots τ) * total.v / partition d pots := by
  sorry

/-- **`calculate_many_marginals`** (Koller–Friedman §10.3 out-of-clique queries): on a valid
junction tree with calibrated clique marginals (`hcal`: each stored table is `s ·` the joint's
marginal — what `belief_propagation` returns, `s = total/Z`) and a correct fallback, every answer is
`s ·` the joint's marginal onto the requested tuple, laid out in the requested order. -/
theorem manyMarginals_correct (d : Dom) (cliques : List Clique) (t : Tree) (order : List (Clique × Clique))
    (pots : CliqueVec (LogOf K)) (marg : CliqueVec (PlainOf K)) (s : K)
    (fallback : List Attr → Factor (PlainOf K)) (projections : List (List Attr))
    (hok : ModelOK d cliques t order pots)
    (hkeys : marg.map Prod.fst = cliques)
    (hwf : ∀ p ∈ marg, p.2.WF ∧ p.2.dom.attrs.Perm p.1 ∧ p.2.dom.Agrees d)
    (hcal : ∀ c ∈ cliques, ∀ σ, d.Valid σ → ((marg.get c).sem σ).v = s * marginal d pots c σ)
    (hnonneg : ∀ p ∈ marg, ∀ x ∈ p.2.vals.data.toList, 0 ≤ x.v)
    (hfb : ∀ proj ∈ projections, ∀ σ, d.Valid σ →
      (fallback proj).dom.attrs = proj ∧ ((fallback proj).sem σ).v = s * marginal d pots proj σ)
    (hproj : ∀ proj ∈ projections, proj.Nodup ∧ ∀ a ∈ proj, a ∈ d.attrs)
    (e : List Attr × Factor (PlainOf K)) (he : e ∈ manyMarginals d cliques t marg fallback projections)
    (σ : Attr → Nat) (hσ : d.Valid σ) :
    e.2.dom.attrs = e.1 ∧ (e.2.sem σ).v = s * marginal d pots e.1 σ := by
  sorry

end PGM.Sem
