import PGM.Proofs.VECorrect
import PGM.Proofs.Dataset
import PGM.Proofs.QueryDV
import PGM.Proofs.QueryKron
import PGM.Proofs.QueryMM
/-! correctness of the remaining query paths: `datavector`, `krondot`, `calculate_many_marginals` -/
namespace PGM.Sem
open PGM PGM.JT PGM.GM
variable {K : Type} [Field K] [LinearOrder K] [IsStrictOrderedRing K]
set_option linter.unusedVariables false

/-- with duplicate-free keys, looking the keys up in order returns the stored tables in order -/
theorem map_get_eq_of_nodup {α : Type} [Scalar α] (pots : CliqueVec α) (h : (pots.map Prod.fst).Nodup) :
    (pots.map Prod.fst).map pots.get = pots.map Prod.snd := by
  rw [List.map_map]
  apply List.map_congr_left
  intro p hp
  simp only [Function.comp]
  induction pots with
  | nil => simp at hp
  | cons q qs ih =>
    obtain ⟨k, f⟩ := q
    rw [List.map_cons, List.nodup_cons] at h
    unfold CliqueVec.get
    rw [List.lookup_cons]
    rcases List.mem_cons.mp hp with rfl | hp'
    · simp
    · have hne : p.1 ≠ k := fun e => h.1 (by rw [← e]; exact List.mem_map.mpr ⟨p, hp', rfl⟩)
      have : (p.1 == k) = false := by simpa using hne
      rw [this]
      exact ih h.2 hp'

/-- **`datavector`**: the materialised vector lists `total · joint / Z` over all cells of the
domain in row-major order (every attribute of the domain occurs in some clique) -/
theorem datavector_correct (d : Dom) (cliques : List Clique) (pots : CliqueVec (LogOf K))
    (total : LogOf K) (hd : d.WF) (hfs : FactorsOK d (pots.map Prod.snd)) (hkeys : pots.map Prod.fst = cliques)
    (hnd : cliques.Nodup)
    (hne : cliques ≠ []) (hcover : ∀ a ∈ d.attrs, ∃ p ∈ pots, a ∈ p.2.dom.attrs)
    (hsizes : ∀ p ∈ d, 0 < p.2) (hZ : partition d pots ≠ 0) (idx : List Nat) (hidx : InRange d.shape idx) :
    (datavectorScale ((datavectorCore d cliques pots).vals.data.toList.map (fun x => (⟨x.v⟩ : PlainOf K)))
        ⟨1⟩ ⟨total.v⟩)[ravel d.shape idx]?
      = some ⟨joint pots (Dom.assign d.attrs idx) / partition d pots * 1 * total.v⟩ := by
  subst hkeys
  exact datavector_correct_gen d _ pots total hd hfs (map_get_eq_of_nodup pots hnd)
    (fun h => hne (by rw [h]; rfl)) hcover idx hidx

/-- **`krondot`**: entry `(r₁,…,r_k)` of the answer is
`Σ_x (Π_i Qᵢ[rᵢ, xᵢ]) · total · joint(x) / Z` — the Kronecker-product query applied to the joint.
`expPots` are the exponentiated potentials, `mats[i] = (rows, flat entries)` for attribute `i`. -/
theorem krondot_correct (d : Dom) (pots : CliqueVec (LogOf K)) (mats : List (Nat × List (PlainOf K)))
    (total z : PlainOf K) (hd : d.WF) (hfs : FactorsOK d (pots.map Prod.snd)) (hne : pots ≠ [])
    (hcover : ∀ a ∈ d.attrs, ∃ p ∈ pots, a ∈ p.2.dom.attrs)
    (hfresh : ∀ a ∈ d.attrs, (a ++ "-answer") ∉ d.attrs)
    (hinj : ∀ a ∈ d.attrs, ∀ b ∈ d.attrs, a ++ "-answer" = b ++ "-answer" → a = b)
    (hlen : mats.length = d.length)
    (hshape : ∀ i (hi : i < mats.length), (mats[i]).2.length = (mats[i]).1 * (d.shape.getD i 0))
    (hsizes : ∀ p ∈ d, 0 < p.2) (hz : z.v = partition d pots)
    (ridx : List Nat) (hr : InRange (mats.map (·.1)) ridx) :
    ((krondot d (pots.map (fun p => toPlain p.2.exp)) mats total z).get ridx).v
      = sumOver d d.attrs (fun _ => 0) (fun τ =>
          ((List.range d.length).map (fun i =>
            (((mats.getD i (0, [])).2).getD (ridx.getD i 0 * d.shape.getD i 0 + τ (d.attrs.getD i "")) ⟨0⟩).v)).prod
          * joint pots τ) * total.v / partition d pots :=
  krondot_correct_aux d pots mats total z hd hfs hne hcover hfresh hinj hlen hshape hsizes hz ridx hr

/-- **`calculate_many_marginals`** (Koller–Friedman §10.3 out-of-clique queries): on a valid
junction tree with calibrated clique marginals (`hcal`: each stored table is `s ·` the joint's
marginal — what `belief_propagation` returns, `s = total/Z`) and a correct fallback, every answer is
`s ·` the joint's marginal onto the requested tuple, laid out in the requested order. -/
theorem manyMarginals_correct (d : Dom) (cliques : List Clique) (t : Tree) (order : List (Clique × Clique))
    (pots : CliqueVec (LogOf K)) (marg : CliqueVec (PlainOf K)) (s : K)
    (fallback : List Attr → Factor (PlainOf K)) (projections : List (List Attr))
    (hok : ModelOK d cliques t order pots)
    (hkeys : marg.map Prod.fst = cliques)
    (hwf : ∀ p ∈ marg, p.2.WF ∧ p.2.dom.attrs.Perm p.1 ∧ p.2.dom.Agrees d)
    (hcal : ∀ c ∈ cliques, ∀ σ, d.Valid σ → ((marg.get c).sem σ).v = s * marginal d pots c σ)
    (hnonneg : ∀ p ∈ marg, ∀ x ∈ p.2.vals.data.toList, 0 ≤ x.v)
    (hfb : ∀ proj ∈ projections, ∀ σ, d.Valid σ →
      (fallback proj).dom.attrs = proj ∧ ((fallback proj).sem σ).v = s * marginal d pots proj σ)
    (hproj : ∀ proj ∈ projections, proj.Nodup ∧ ∀ a ∈ proj, a ∈ d.attrs)
    (e : List Attr × Factor (PlainOf K)) (he : e ∈ manyMarginals d cliques t marg fallback projections)
    (σ : Attr → Nat) (hσ : d.Valid σ) :
    e.2.dom.attrs = e.1 ∧ (e.2.sem σ).v = s * marginal d pots e.1 σ := by
  rw [manyMarginals_eq] at he
  obtain ⟨proj, hp, rfl⟩ := List.mem_map.mp he
  cases hfind : (mmResults2 d cliques t marg).find? (fun e => JT.subset proj e.1) with
  | none =>
    simp only
    exact hfb proj hp σ hσ
  | some e' =>
    simp only
    have hmem : e' ∈ mmResults2 d cliques t marg := List.mem_of_find?_eq_some hfind
    have hsub : JT.subset proj e'.1 = true :=
      List.find?_some (p := fun (e : List Attr × Factor (PlainOf K)) => JT.subset proj e.1) hfind
    rw [subset_iff] at hsub
    obtain ⟨hg, hattrs⟩ := mmResults2_good hok hkeys hwf hcal hnonneg e' hmem
    obtain ⟨hpg, hpattrs⟩ := good_project hok hkeys hwf e'.2 hg proj (hproj proj hp).1
      (fun a ha => (hattrs a).mp (hsub a ha))
    refine ⟨hpattrs, ?_⟩
    have := hpg.2 σ hσ
    rw [hpattrs] at this
    exact this

end PGM.Sem
