import PGM.Model.Scalar
import Mathlib.Analysis.SpecialFunctions.Log.Basic
/-! the real-number reading of `Scalar` (noncomputable): `exp`/`log` are the real functions,
`lse l = log Σ exp`, no IEEE special values -/
namespace PGM
open Classical in
noncomputable instance realScalar : Scalar ℝ where
  default := 0
  zero := 0
  one := 1
  add := (· + ·)
  neg := fun x => -x
  mul := (· * ·)
  div := (· / ·)
  isNegInf := fun _ => false
  gt0 := fun x => decide (0 < x)
  le0 := fun x => decide (x ≤ 0)
  max := fun x y => if x < y then y else x
  nanToNum := id
  exp := Real.exp
  log := Real.log
  lse := fun l => Real.log ((l.map Real.exp).sum)
  logaddexp := fun x y => Real.log (Real.exp x + Real.exp y)
  tiny := 0
  ofNat := fun n => (n : ℝ)
end PGM
