import PGM.Proofs.Semantics
/-! correctness of variable elimination (both spaces), `project` and `datavector` -/
namespace PGM.Sem
open PGM PGM.JT PGM.GM
variable {K : Type} [Field K] [LinearOrder K] [IsStrictOrderedRing K]

/-- factors usable with the domain `d` -/
def FactorsOK {α : Type} [Scalar α] (d : Dom) (fs : List (Factor α)) : Prop :=
  ∀ f ∈ fs, f.WF ∧ f.dom.Agrees d ∧ ∀ a ∈ f.dom.attrs, a ∈ d.attrs

/-- **variable elimination (exp-space) computes the sum-product**: for any list of factors and any
duplicate-free elimination list — in particular whatever order `greedy_order` picks — the result at
`σ` is the sum over the eliminated attributes of the product of all factors; its attributes are
those not eliminated. -/
theorem ve_correct (d : Dom) (fs : List (Factor (PlainOf K))) (elim : List Attr) (σ : Attr → Nat)
    (hd : d.WF) (hfs : FactorsOK d fs) (hpre : preVE fs elim = true) (hnd : elim.Nodup)
    (hsub : ∀ a ∈ elim, a ∈ d.attrs) (hσ : d.Valid σ) :
    ((variableElimination fs elim).sem σ).v
      = sumOver d elim σ (fun τ => (fs.map (fun f => (f.sem τ).v)).prod) ∧
    (∀ a, a ∈ (variableElimination fs elim).dom.attrs ↔ (a ∉ elim ∧ ∃ f ∈ fs, a ∈ f.dom.attrs)) := by
  sorry

/-- the log-space variant, normalised to `total` -/
theorem veLogspace_correct (d : Dom) (fs : List (Factor (LogOf K))) (elim : List Attr)
    (total : LogOf K) (σ : Attr → Nat)
    (hd : d.WF) (hfs : FactorsOK d fs) (hpre : preVE fs elim = true) (hnd : elim.Nodup)
    (hsub : ∀ a ∈ elim, a ∈ d.attrs) (hcover : ∀ a ∈ d.attrs, ∃ f ∈ fs, a ∈ f.dom.attrs) (hσ : d.Valid σ)
    (hZ : sumOver d d.attrs (fun _ => 0) (fun τ => (fs.map (fun f => (f.sem τ).v)).prod) ≠ 0) :
    ((veLogspace fs elim total).sem σ).v
      = total.v * sumOver d elim σ (fun τ => (fs.map (fun f => (f.sem τ).v)).prod)
        / sumOver d d.attrs (fun _ => 0) (fun τ => (fs.map (fun f => (f.sem τ).v)).prod) := by
  sorry

/-- **`project` without cached marginals** answers with `total · marginal / Z`, laid out in the
requested attribute order (any duplicate-free tuple of domain attributes, including empty and full) -/
theorem project_correct (d : Dom) (pots : CliqueVec (LogOf K)) (total : LogOf K) (attrs : List Attr)
    (σ : Attr → Nat) (hd : d.WF) (hfs : FactorsOK d (pots.map Prod.snd))
    (hne : pots ≠ []) (hcover : ∀ a ∈ d.attrs, ∃ p ∈ pots, a ∈ p.2.dom.attrs)
    (hnd : attrs.Nodup) (hsub : ∀ a ∈ attrs, a ∈ d.attrs) (hσ : d.Valid σ)
    (hZ : partition d pots ≠ 0) :
    (GMproject d pots total attrs).dom.attrs = attrs ∧
    ((GMproject d pots total attrs).sem σ).v = total.v * marginal d pots attrs σ / partition d pots := by
  sorry

/-- summing any answer over all its cells gives the total -/
theorem project_sums_to_total (d : Dom) (pots : CliqueVec (LogOf K)) (total : LogOf K) (attrs : List Attr)
    (hd : d.WF) (hnd : attrs.Nodup) (hsub : ∀ a ∈ attrs, a ∈ d.attrs) (hZ : partition d pots ≠ 0) :
    sumOver d attrs (fun _ => 0) (fun σ => total.v * marginal d pots attrs σ / partition d pots) = total.v := by
  sorry

/-- two answers agree on the attributes they share: marginalising the answer for `as` onto a
sub-tuple `bs` gives the answer for `bs` -/
theorem marginal_consistent (d : Dom) (pots : CliqueVec (LogOf K)) (as bs : List Attr) (σ : Attr → Nat)
    (hd : d.WF) (has : as.Nodup) (hbs : bs.Nodup) (hsub : ∀ a ∈ as, a ∈ d.attrs) (hbsub : ∀ b ∈ bs, b ∈ as)
    (hσ : d.Valid σ) :
    sumOver d (as.filter (fun a => !bs.contains a)) σ (marginal d pots as) = marginal d pots bs σ := by
  sorry

end PGM.Sem
