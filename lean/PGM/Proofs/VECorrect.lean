import PGM.Proofs.Semantics
import PGM.Proofs.VELogspace
/-! correctness of variable elimination (both spaces), `project` and `datavector` -/
namespace PGM.Sem
open PGM PGM.JT PGM.GM
variable {K : Type} [Field K] [LinearOrder K] [IsStrictOrderedRing K]
-- some hypotheses of the stated theorems are not needed by the proofs (kept as stated)
set_option linter.unusedVariables false
set_option linter.unusedSectionVars false

/-- factors usable with the domain `d` -/
def FactorsOK {α : Type} [Scalar α] (d : Dom) (fs : List (Factor α)) : Prop :=
  ∀ f ∈ fs, f.WF ∧ f.dom.Agrees d ∧ ∀ a ∈ f.dom.attrs, a ∈ d.attrs

theorem factorsOK_iff {α : Type} [Scalar α] (d : Dom) (fs : List (Factor α)) :
    FactorsOK d fs ↔ ∀ f ∈ fs, FactorOK d f := Iff.rfl

/-- **variable elimination (exp-space) computes the sum-product**: for any list of factors and any
duplicate-free elimination list — in particular whatever order `greedy_order` picks — the result at
`σ` is the sum over the eliminated attributes of the product of all factors; its attributes are
those not eliminated. -/
theorem ve_correct (d : Dom) (fs : List (Factor (PlainOf K))) (elim : List Attr) (σ : Attr → Nat)
    (hd : d.WF) (hfs : FactorsOK d fs) (hpre : preVE fs elim = true) (hnd : elim.Nodup)
    (hsub : ∀ a ∈ elim, a ∈ d.attrs) (hσ : d.Valid σ) :
    ((variableElimination fs elim).sem σ).v
      = sumOver d elim σ (fun τ => (fs.map (fun f => (f.sem τ).v)).prod) ∧
    (∀ a, a ∈ (variableElimination fs elim).dom.attrs ↔ (a ∉ elim ∧ ∃ f ∈ fs, a ∈ f.dom.attrs)) := by
  obtain ⟨hocc, hne⟩ := (preVE_iff fs elim).mp hpre
  obtain ⟨p, ps, hfold, hok, hattrs, hsem⟩ :=
    veLoop_final Scalar.mul Scalar.sum (fun x : PlainOf K => x.v) (fun _ _ => rfl) plain_sum_v
      d hd elim fs hfs hne hocc hnd hsub
  simp only [variableElimination_eq, hfold]
  exact ⟨hsem σ hσ, hattrs⟩

/-- the log-space variant, normalised to `total` -/
theorem veLogspace_correct (d : Dom) (fs : List (Factor (LogOf K))) (elim : List Attr)
    (total : LogOf K) (σ : Attr → Nat)
    (hd : d.WF) (hfs : FactorsOK d fs) (hpre : preVE fs elim = true) (hnd : elim.Nodup)
    (hsub : ∀ a ∈ elim, a ∈ d.attrs) (hcover : ∀ a ∈ d.attrs, ∃ f ∈ fs, a ∈ f.dom.attrs) (hσ : d.Valid σ)
    (hZ : sumOver d d.attrs (fun _ => 0) (fun τ => (fs.map (fun f => (f.sem τ).v)).prod) ≠ 0) :
    ((veLogspace fs elim total).sem σ).v
      = total.v * sumOver d elim σ (fun τ => (fs.map (fun f => (f.sem τ).v)).prod)
        / sumOver d d.attrs (fun _ => 0) (fun τ => (fs.map (fun f => (f.sem τ).v)).prod) := by
  exact (veLogspace_spec d fs elim total hd hfs hpre hnd hsub hcover).2.2 σ hσ

/-- the product over the potentials' tables is the joint -/
theorem prod_snd_eq_joint (pots : CliqueVec (LogOf K)) (τ : Attr → Nat) :
    ((pots.map Prod.snd).map (fun f => (f.sem τ).v)).prod = joint pots τ := by
  unfold joint
  rw [List.map_map]
  rfl

theorem invert_nodup (d : Dom) (hd : d.WF) (as : List Attr) : (d.invert as).Nodup :=
  List.Nodup.sublist List.filter_sublist hd

theorem mem_invert (d : Dom) (as : List Attr) (a : Attr) : a ∈ d.invert as ↔ a ∈ d.attrs ∧ a ∉ as := by
  simp [Dom.invert]

/-- `as` and `d.invert as` partition the domain -/
theorem append_invert_perm (d : Dom) (hd : d.WF) (as : List Attr) (has : as.Nodup)
    (hsub : ∀ a ∈ as, a ∈ d.attrs) :
    (as ++ d.invert as).Nodup ∧ (as ++ d.invert as).Perm d.attrs := by
  have hn : (as ++ d.invert as).Nodup := by
    rw [List.nodup_append]
    exact ⟨has, invert_nodup d hd as, fun a ha b hb hab =>
      ((mem_invert d as b).mp hb).2 (hab ▸ ha)⟩
  refine ⟨hn, ?_⟩
  rw [List.perm_ext_iff_of_nodup hn hd]
  intro a
  rw [List.mem_append, mem_invert]
  constructor
  · rintro (h | h)
    · exact hsub a h
    · exact h.1
  · intro h
    by_cases ha : a ∈ as
    · exact Or.inl ha
    · exact Or.inr ⟨h, ha⟩

/-- summing the marginal onto `as` over `as` gives the partition function (any base assignment) -/
theorem sumOver_marginal (d : Dom) (pots : CliqueVec (LogOf K)) (as : List Attr) (σ : Attr → Nat)
    (hd : d.WF) (has : as.Nodup) (hsub : ∀ a ∈ as, a ∈ d.attrs) :
    sumOver d as σ (marginal d pots as) = sumOver d d.attrs σ (joint pots) := by
  obtain ⟨hn, hp⟩ := append_invert_perm d hd as has hsub
  show sumOver d as σ (fun τ => sumOver d (d.invert as) τ (joint pots)) = _
  rw [← sumOver_append d as (d.invert as) σ _ has (fun a ha hm => ((mem_invert d as a).mp hm).2 ha)]
  exact sumOver_perm d _ _ σ _ hp hn

/-- **`project` without cached marginals** answers with `total · marginal / Z`, laid out in the
requested attribute order (any duplicate-free tuple of domain attributes, including empty and full) -/
theorem project_correct (d : Dom) (pots : CliqueVec (LogOf K)) (total : LogOf K) (attrs : List Attr)
    (σ : Attr → Nat) (hd : d.WF) (hfs : FactorsOK d (pots.map Prod.snd))
    (hne : pots ≠ []) (hcover : ∀ a ∈ d.attrs, ∃ p ∈ pots, a ∈ p.2.dom.attrs)
    (hnd : attrs.Nodup) (hsub : ∀ a ∈ attrs, a ∈ d.attrs) (hσ : d.Valid σ)
    (hZ : partition d pots ≠ 0) :
    (GMproject d pots total attrs).dom.attrs = attrs ∧
    ((GMproject d pots total attrs).sem σ).v = total.v * marginal d pots attrs σ / partition d pots := by
  have hcover' : ∀ a ∈ d.attrs, ∃ f ∈ pots.map Prod.snd, a ∈ f.dom.attrs := by
    intro a ha
    obtain ⟨p, hp, hap⟩ := hcover a ha
    exact ⟨p.2, List.mem_map_of_mem hp, hap⟩
  have hpre : preVE (pots.map Prod.snd) (d.invert attrs) = true := by
    rw [preVE_iff]
    refine ⟨fun z hz => hcover' z ((mem_invert d attrs z).mp hz).1, ?_⟩
    intro h
    exact hne (List.map_eq_nil_iff.mp h)
  obtain ⟨hR, hRattrs, hRsem⟩ := veLogspace_spec d (pots.map Prod.snd) (d.invert attrs) total hd hfs
    hpre (invert_nodup d hd attrs) (fun a ha => ((mem_invert d attrs a).mp ha).1) hcover'
  have hmem : ∀ a, a ∈ (veLogspace (pots.map Prod.snd) (d.invert attrs) total).dom.attrs ↔ a ∈ attrs := by
    intro a
    rw [hRattrs a, mem_invert]
    constructor
    · rintro ⟨h1, h2⟩
      by_contra h
      exact h1 ⟨h2, h⟩
    · intro h
      exact ⟨fun h' => h'.2 h, hsub a h⟩
  have hinv : (veLogspace (pots.map Prod.snd) (d.invert attrs) total).dom.invert attrs = [] := by
    unfold Dom.invert
    rw [List.filter_eq_nil_iff]
    intro a ha
    simpa using (hmem a).mp ha
  refine ⟨Factor.project_attrs _ _ _, ?_⟩
  show ((Factor.project Scalar.sum (veLogspace (pots.map Prod.snd) (d.invert attrs) total) attrs).sem σ).v = _
  rw [Factor.sem_project Scalar.sum _ attrs σ hR.1 hnd (fun a ha => (hmem a).mpr ha) (hR.valid hd hσ),
    hinv]
  simp only [List.map_nil, cells, List.map_cons, override_nil]
  rw [log_sum_singleton_v, hRsem σ hσ]
  simp only [prod_snd_eq_joint]
  rfl

/-- summing any answer over all its cells gives the total -/
theorem project_sums_to_total (d : Dom) (pots : CliqueVec (LogOf K)) (total : LogOf K) (attrs : List Attr)
    (hd : d.WF) (hnd : attrs.Nodup) (hsub : ∀ a ∈ attrs, a ∈ d.attrs) (hZ : partition d pots ≠ 0) :
    sumOver d attrs (fun _ => 0) (fun σ => total.v * marginal d pots attrs σ / partition d pots) = total.v := by
  rw [sumOver_div d attrs _ (partition d pots) (fun σ => total.v * marginal d pots attrs σ),
    sumOver_mul_left d attrs _ total.v (marginal d pots attrs),
    sumOver_marginal d pots attrs _ hd hnd hsub]
  exact mul_div_cancel_right₀ _ hZ

/-- two answers agree on the attributes they share: marginalising the answer for `as` onto a
sub-tuple `bs` gives the answer for `bs` -/
theorem marginal_consistent (d : Dom) (pots : CliqueVec (LogOf K)) (as bs : List Attr) (σ : Attr → Nat)
    (hd : d.WF) (has : as.Nodup) (hbs : bs.Nodup) (hsub : ∀ a ∈ as, a ∈ d.attrs) (hbsub : ∀ b ∈ bs, b ∈ as)
    (hσ : d.Valid σ) :
    sumOver d (as.filter (fun a => !bs.contains a)) σ (marginal d pots as) = marginal d pots bs σ := by
  have hmemf : ∀ a, a ∈ as.filter (fun a => !bs.contains a) ↔ a ∈ as ∧ a ∉ bs := by
    intro a; simp [List.mem_filter]
  have hn1 : (as.filter (fun a => !bs.contains a)).Nodup := has.sublist List.filter_sublist
  have hdis : ∀ a ∈ as.filter (fun a => !bs.contains a), a ∉ d.invert as :=
    fun a ha hm => ((mem_invert d as a).mp hm).2 ((hmemf a).mp ha).1
  have hn : (as.filter (fun a => !bs.contains a) ++ d.invert as).Nodup := by
    rw [List.nodup_append]
    exact ⟨hn1, invert_nodup d hd as, fun a ha b hb hab => hdis a ha (hab ▸ hb)⟩
  have hp : (as.filter (fun a => !bs.contains a) ++ d.invert as).Perm (d.invert bs) := by
    rw [List.perm_ext_iff_of_nodup hn (invert_nodup d hd bs)]
    intro a
    rw [List.mem_append, hmemf, mem_invert, mem_invert]
    constructor
    · rintro (h | h)
      · exact ⟨hsub a h.1, h.2⟩
      · exact ⟨h.1, fun hb => h.2 (hbsub a hb)⟩
    · rintro ⟨h1, h2⟩
      by_cases ha : a ∈ as
      · exact Or.inl ⟨ha, h2⟩
      · exact Or.inr ⟨h1, ha⟩
  show sumOver d _ σ (fun τ => sumOver d (d.invert as) τ (joint pots))
    = sumOver d (d.invert bs) σ (joint pots)
  rw [← sumOver_append d _ (d.invert as) σ _ hn1 hdis]
  exact sumOver_perm d _ _ σ _ hp hn

end PGM.Sem
