import PGM.Model.Flow
/-!
# Facts about label environments used by the soundness proof of the flow check
-/
namespace PGM.Flow

theorem Label.join_eq_L {a b : Label} : a.join b = .L ↔ a = .L ∧ b = .L := by
  cases a <;> cases b <;> simp [Label.join]

theorem lookup_filter_ne (Γ : Env) (x y : String) (h : y ≠ x) :
    (Γ.filter (fun p => p.1 != x)).lookup y = Γ.lookup y := by
  induction Γ with
  | nil => rfl
  | cons p Γ ih =>
    obtain ⟨a, l⟩ := p
    by_cases hax : a = x
    · subst hax
      have hya : (y == a) = false := by simpa using h
      simp [List.lookup_cons, hya, ih]
    · have : (a != x) = true := by simpa using hax
      simp [List.lookup_cons, this, ih]

theorem Env.get_set (Γ : Env) (x : String) (l : Label) (y : String) :
    (Γ.set x l).get y = if y = x then l else Γ.get y := by
  unfold Env.set Env.get
  by_cases h : y = x
  · subst h; simp
  · have hb : (y == x) = false := by simpa using h
    simp [List.lookup_cons, hb, h, lookup_filter_ne Γ x y h]

theorem lookup_map_self (f : String → Label) (keys : List String) (x : String) :
    (keys.map (fun y => (y, f y))).lookup x = if x ∈ keys then some (f x) else none := by
  induction keys with
  | nil => rfl
  | cons k ks ih =>
    by_cases h : x = k
    · subst h; simp
    · have hb : (x == k) = false := by simpa using h
      simp [List.lookup_cons, hb, h, ih]

/-- a variable that is `L` in a join is `L` in both components -/
theorem Env.get_join_L {Γ Δ : Env} {x : String} (h : (Γ.join Δ).get x = .L) :
    Γ.get x = .L ∧ Δ.get x = .L := by
  have e : (Γ.join Δ).get x = (if x ∈ (Γ.map Prod.fst ++ Δ.map Prod.fst).eraseDups then
      some ((Γ.get x).join (Δ.get x)) else none).getD .H := by
    rw [← lookup_map_self (fun x => (Γ.get x).join (Δ.get x))]; rfl
  rw [e] at h
  split at h
  · exact Label.join_eq_L.mp (by simpa using h)
  · simp at h

/-- a variable that is `L` is listed -/
theorem Env.mem_keys_of_get_L {Γ : Env} {x : String} (h : Γ.get x = .L) : x ∈ Γ.map Prod.fst := by
  induction Γ with
  | nil => simp [Env.get] at h
  | cons p Γ ih =>
    obtain ⟨a, l⟩ := p
    by_cases hxa : x = a
    · simp [hxa]
    · have hb : (x == a) = false := by simpa using hxa
      have : Env.get Γ x = .L := by simpa [Env.get, List.lookup_cons, hb] using h
      simp [ih this]

/-- `Γ ⊑ Δ` read pointwise -/
theorem Env.le_get_L {Γ Δ : Env} (hle : Γ.le Δ = true) {x : String} (h : Δ.get x = .L) :
    Γ.get x = .L := by
  unfold Env.le at hle
  rw [List.all_eq_true] at hle
  have := hle x (List.mem_append_right _ (Env.mem_keys_of_get_L h))
  simpa [h] using this

/-- what a successful fixpoint search returns: a post-fixpoint above the start -/
theorem fixLoop_spec {guard : Env → Label} {step : Env → Option Env} :
    ∀ (n : Nat) (Γ₀ Γ : Env), fixLoop guard step n Γ₀ = some Γ →
      guard Γ = .L ∧ (∀ x, Γ.get x = .L → Γ₀.get x = .L) ∧
      ∃ Γ', step Γ = some Γ' ∧ ∀ x, Γ.get x = .L → Γ'.get x = .L
  | 0, _, _, h => by simp [fixLoop] at h
  | n + 1, Γ₀, Γ, h => by
    unfold fixLoop at h
    split at h
    next hg =>
      split at h
      next Γ' hstep =>
        simp only [] at h
        split at h
        next hle =>
          cases h
          exact ⟨hg, fun _ hx => hx, Γ', hstep, fun x hx =>
            (Env.get_join_L (Env.le_get_L hle hx)).2⟩
        next =>
          obtain ⟨h1, h2, h3⟩ := fixLoop_spec n _ _ h
          exact ⟨h1, fun x hx => (Env.get_join_L (h2 x hx)).1, h3⟩
      next => cases h
    next => cases h

end PGM.Flow
