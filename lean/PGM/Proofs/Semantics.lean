import PGM.Model.GM
import PGM.Model.LogOf
import PGM.Proofs.Factor
import PGM.Proofs.JTree
import Mathlib.Algebra.Order.Field.Basic
import Mathlib.Algebra.BigOperators.Group.List.Basic
/-!
# The specification side of exact inference: joint, partition function, marginals

Everything is over an arbitrary linearly ordered field `K` (ℚ, ℝ); potentials live in exp-space
(`LogOf K` is the log-space reading used by the model code).
-/
namespace PGM.Sem
open PGM PGM.JT

variable {K : Type} [Field K] [LinearOrder K] [IsStrictOrderedRing K]

/-- sum of `f` over all settings of the attributes `as` (sizes from `d`), the others fixed by `σ` -/
def sumOver (d : Dom) (as : List Attr) (σ : Attr → Nat) (f : (Attr → Nat) → K) : K :=
  ((cells (as.map d.cfg)).map (fun v => f (Dom.override σ as v))).sum

/-- the unnormalised joint: product of all (exp-space) potentials at the assignment `τ` -/
def joint (pots : CliqueVec (LogOf K)) (τ : Attr → Nat) : K :=
  (pots.map (fun p => (p.2.sem τ).v)).prod

/-- partition function `Z` -/
def partition (d : Dom) (pots : CliqueVec (LogOf K)) : K :=
  sumOver d d.attrs (fun _ => 0) (joint pots)

/-- unnormalised marginal onto the attributes `as`, at the assignment `σ` -/
def marginal (d : Dom) (pots : CliqueVec (LogOf K)) (as : List Attr) (σ : Attr → Nat) : K :=
  sumOver d (d.invert as) σ (joint pots)

/-- a well-formed model: valid junction tree (accepted by the verified checker) with one
nonnegative potential table per node, each over exactly the node's attributes (in any order) -/
structure ModelOK (d : Dom) (cliques : List Clique) (t : Tree) (order : List (Clique × Clique))
    (pots : CliqueVec (LogOf K)) : Prop where
  dom_wf : d.WF
  nodes : t.nodes = cliques
  jt : checkJT d.attrs [] t order = true
  clique_ok : ∀ c ∈ cliques, c.Nodup ∧ ∀ a ∈ c, a ∈ d.attrs
  keys : pots.map Prod.fst = cliques
  pot_ok : ∀ p ∈ pots, p.2.WF ∧ p.2.dom.attrs.Perm p.1 ∧ p.2.dom.Agrees d
  nonneg : ∀ p ∈ pots, ∀ x ∈ p.2.vals.data.toList, 0 ≤ x.v

/-- carrier-preserving reinterpretation of an exponentiated log-space factor as a plain one -/
def toPlain (f : Factor (LogOf K)) : Factor (PlainOf K) :=
  ⟨f.dom, ⟨f.vals.shape, f.vals.data.map (fun x => ⟨x.v⟩)⟩⟩

end PGM.Sem
