import PGM.Proofs.JTExistsDefs
import PGM.Proofs.JTExistsBuilt
import PGM.Proofs.JTree
/-!
# Elementary facts about families of maximal cliques; transport of a leaf-built tree between two
families of the same graph
-/
namespace PGM.JT

theorem sameSet_iff (a b : Clique) :
    sameSet a b = true ↔ (∀ x ∈ a, x ∈ b) ∧ (∀ x ∈ b, x ∈ a) := by
  simp [sameSet, subset]

theorem sameSet_eq_false_iff (a b : Clique) :
    sameSet a b = false ↔ ¬ ((∀ x ∈ a, x ∈ b) ∧ (∀ x ∈ b, x ∈ a)) := by
  rw [← sameSet_iff]; simp

/-- a member of the family that is contained in a clique contains it -/
theorem IsMaxCliqueFamily.sub_max {g : Graph} {nodes : List Clique} (h : IsMaxCliqueFamily g nodes)
    {n c : Clique} (hn : n ∈ nodes) (hc : IsClique g c) (hsub : ∀ x ∈ n, x ∈ c) :
    ∀ x ∈ c, x ∈ n := by
  intro u hu
  by_contra hun
  obtain ⟨a, ha, hadj⟩ := h.maximal n hn u (hc.2.1 u hu) hun
  have hne : u ≠ a := by rintro rfl; exact hun ha
  rw [hc.2.2 u hu a (hsub a ha) hne] at hadj
  exact absurd hadj (by simp)

theorem IsMaxCliqueFamily.eq_of_sub {g : Graph} {nodes : List Clique}
    (h : IsMaxCliqueFamily g nodes) {n m : Clique} (hn : n ∈ nodes) (hm : m ∈ nodes)
    (hsub : ∀ x ∈ n, x ∈ m) : n = m := by
  by_contra hne
  have hsup := h.sub_max hn (h.clique m hm).1 hsub
  have hsym : Std.Symm (fun a b : Clique => sameSet a b = false) :=
    ⟨fun a b hab => by simpa [sameSet, Bool.and_comm] using hab⟩
  have := h.distinct.forall hn hm hne
  rw [sameSet_eq_false_iff] at this
  exact this ⟨hsub, hsup⟩

theorem IsMaxCliqueFamily.nodup {g : Graph} {nodes : List Clique}
    (h : IsMaxCliqueFamily g nodes) : nodes.Nodup := by
  refine h.distinct.imp ?_
  intro a b hab heq
  subst heq
  rw [sameSet_eq_false_iff] at hab
  exact hab ⟨fun _ hx => hx, fun _ hx => hx⟩

theorem IsMaxCliqueFamily.exists_same {g : Graph} {A B : List Clique}
    (hA : IsMaxCliqueFamily g A) (hB : IsMaxCliqueFamily g B) {a : Clique} (ha : a ∈ A) :
    ∃ b ∈ B, (∀ x ∈ a, x ∈ b) ∧ (∀ x ∈ b, x ∈ a) := by
  obtain ⟨b, hb, hab⟩ := hB.complete a (hA.clique a ha).1
  exact ⟨b, hb, hab, hA.sub_max ha (hB.clique b hb).1 hab⟩

/-- a leaf-built tree over one family of maximal cliques can be renamed to any other family of the
same graph -/
theorem Built.transport {g : Graph} {ns nodes : List Clique} {es : List (Clique × Clique)}
    (hb : Built ns es) (hns : IsMaxCliqueFamily g ns) (hnodes : IsMaxCliqueFamily g nodes) :
    ∃ ns' es', Built ns' es' ∧ ns'.Perm nodes := by
  classical
  have hex : ∀ n : Clique, ∃ m : Clique, n ∈ ns → m ∈ nodes ∧ (∀ x ∈ n, x ∈ m) ∧ (∀ x ∈ m, x ∈ n) := by
    intro n
    by_cases hn : n ∈ ns
    · obtain ⟨m, hm, h1, h2⟩ := hns.exists_same hnodes hn
      exact ⟨m, fun _ => ⟨hm, h1, h2⟩⟩
    · exact ⟨n, fun h => absurd h hn⟩
  choose φ hφ using hex
  have H3 : ∀ n ∈ ns, ∀ m ∈ ns, φ n = φ m → n = m := by
    intro n hn m hm heq
    apply hns.eq_of_sub hn hm
    intro x hx
    have := (hφ n hn).2.1 x hx
    rw [heq] at this
    exact (hφ m hm).2.2 x this
  refine ⟨ns.map φ, es.map (fun e => (φ e.1, φ e.2)), hb.map φ ?_ ?_ H3, ?_⟩
  · intro n hn a ha
    exact (hφ n hn).2.1 a ha
  · intro n hn m hm _ a h1 h2
    exact ⟨(hφ n hn).2.2 a h1, (hφ m hm).2.2 a h2⟩
  · rw [List.perm_ext_iff_of_nodup (hb.nodup.map_on H3) hnodes.nodup]
    intro m
    constructor
    · intro hm
      obtain ⟨n, hn, rfl⟩ := List.mem_map.mp hm
      exact (hφ n hn).1
    · intro hm
      obtain ⟨n, hn, h1, h2⟩ := hnodes.exists_same hns hm
      refine List.mem_map.mpr ⟨n, hn, ?_⟩
      apply hnodes.eq_of_sub (hφ n hn).1 hm
      intro x hx
      exact h2 x ((hφ n hn).2.2 x hx)

end PGM.JT
