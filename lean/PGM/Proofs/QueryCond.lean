import PGM.Proofs.QueryCI
import Mathlib.Tactic.FieldSimp
import Mathlib.Tactic.Tauto
/-! factor-level steps of `calculate_many_marginals`: projections, conditionals `μ_C / μ_S`,
the product `x · P(Cj | S)` and the summation of the attributes no longer needed -/
namespace PGM.Sem
open PGM PGM.JT PGM.GM
set_option linter.unusedVariables false
set_option linter.unusedSectionVars false

section generic
variable {α : Type} [Scalar α] {K : Type} [Field K]

theorem FactorOK.project {d : Dom} {f : Factor α} (r : List α → α) (as : List Attr)
    (hf : FactorOK d f) (has : as.Nodup) (hsub : ∀ a ∈ as, a ∈ f.dom.attrs) :
    FactorOK d (Factor.project r f as) := by
  have hR := FactorOK.reduce r (f.dom.invert as) hf
  have hmem : ∀ a, a ∈ (Factor.reduce r f (f.dom.invert as)).dom.attrs ↔ a ∈ as := by
    intro a
    rw [reduce_mem_attrs, mem_invert]
    constructor
    · rintro ⟨h1, h2⟩
      by_contra h
      exact h2 ⟨h1, h⟩
    · intro h
      exact ⟨hsub a h, fun h' => h'.2 h⟩
  have hperm : as.Perm (Factor.reduce r f (f.dom.invert as)).dom.attrs := by
    rw [List.perm_ext_iff_of_nodup has hR.1.1]
    intro a; exact (hmem a).symm
  have hM : (f.dom.marginalize as).attrs = f.dom.invert as := by
    rw [Dom.marginalize, Dom.attrs_project]
  show FactorOK d ((Factor.reduce r f (f.dom.marginalize as).attrs).transpose as)
  rw [hM]
  refine ⟨Factor.transpose_WF _ as hR.1 hperm, ?_, ?_⟩
  · rw [Factor.transpose_dom]
    exact agrees_project _ d hR.1.1 hR.2.1 as (fun a ha => (hmem a).mpr ha)
  · intro a ha
    rw [Factor.transpose_attrs] at ha
    exact hf.2.2 a (hsub a ha)

theorem val_sem_project {d : Dom} {f : Factor α} (r : List α → α) (val : α → K)
    (hr : ∀ l, val (r l) = (l.map val).sum) (hd : d.WF) (hf : FactorOK d f) (as : List Attr)
    (has : as.Nodup) (hsub : ∀ a ∈ as, a ∈ f.dom.attrs) {σ : Attr → Nat} (hσ : d.Valid σ) :
    val ((Factor.project r f as).sem σ) = sumOver d (f.dom.invert as) σ (fun τ => val (f.sem τ)) := by
  rw [Factor.sem_project r f as σ hf.1 has hsub (hf.valid hd hσ), hr, List.map_map]
  unfold sumOver
  have : (f.dom.invert as).map f.dom.cfg = (f.dom.invert as).map d.cfg := by
    apply List.map_congr_left
    intro a ha
    exact (hf.cfg_eq ((mem_invert _ _ _).mp ha).1).symm
  rw [this]
  rfl

theorem FactorOK.divF {d : Dom} {f g : Factor α} (hd : d.WF) (hf : FactorOK d f) (hg : FactorOK d g)
    (hsub : ∀ a ∈ g.dom.attrs, a ∈ f.dom.attrs) :
    FactorOK d (f.divF g) ∧ (f.divF g).dom = f.dom ∧
      ∀ σ, d.Valid σ → (f.divF g).sem σ = Factor.safeDiv (f.sem σ) (g.sem σ) := by
  have hc : f.dom.contains g.dom = true := (Dom.contains_iff _ _).mpr hsub
  have ha : g.dom.Agrees f.dom := by
    intro p hp
    have h1 := hg.2.1 p hp
    have h2 := hf.cfg_eq (hsub p.1 (List.mem_map_of_mem hp))
    rw [← h2]; exact h1
  have hE := Factor.expand_WF g f.dom hg.1 hf.1.1 hc ha
  refine ⟨⟨⟨hf.1.1, rfl, ?_⟩, hf.2.1, hf.2.2⟩, rfl, ?_⟩
  · have hw := NdArr.zipWith_WF Factor.safeDiv f.vals (g.expand f.dom).vals hf.1.2.2 hE.2.2
      (by rw [hf.1.2.1]; rfl)
    unfold NdArr.WF at hw ⊢
    show (NdArr.zipWith Factor.safeDiv f.vals (g.expand f.dom).vals).data.size = size f.dom.shape
    rw [hw]
    show size f.vals.shape = _
    rw [hf.1.2.1]
  · intro σ hσ
    exact Factor.sem_div f g σ hf.1 hg.1 hc ha (hf.valid hd hσ)

end generic

variable {K : Type} [Field K] [LinearOrder K] [IsStrictOrderedRing K]

theorem plain_safeDiv_v (x t : PlainOf K) :
    (Factor.safeDiv x t).v = if 0 < t.v then x.v / t.v else 0 := by
  unfold Factor.safeDiv
  by_cases h : 0 < t.v
  · have : Scalar.gt0 t = true := decide_eq_true h
    rw [if_pos this, if_pos h, div_eq_mul_inv]; rfl
  · have h1 : Scalar.gt0 t = false := decide_eq_false h
    have h2 : Scalar.le0 t = true := by
      show (!decide (0 < t.v)) = true
      simp [h]
    rw [h1, if_neg (by simp), if_pos h2, if_neg h]; rfl

/-- looking up a listed key returns a listed pair -/
theorem get_mem {α : Type} [Scalar α] (cv : CliqueVec α) (c : Clique) (hc : c ∈ cv.map Prod.fst) :
    (c, cv.get c) ∈ cv := by
  induction cv with
  | nil => simp at hc
  | cons p ps ih =>
    obtain ⟨k, f⟩ := p
    unfold CliqueVec.get
    rw [List.lookup_cons]
    by_cases hk : c = k
    · subst hk; simp
    · have : (c == k) = false := by simpa using hk
      rw [this]
      have hc' : c ∈ ps.map Prod.fst := by
        simp only [List.map_cons, List.mem_cons] at hc
        exact hc.resolve_left hk
      exact List.mem_cons_of_mem _ (ih hc')

section model
variable {d : Dom} {cliques : List Clique} {t : Tree} {order : List (Clique × Clique)}
  {pots : CliqueVec (LogOf K)} (hok : ModelOK d cliques t order pots)
  {marg : CliqueVec (PlainOf K)} {s : K}
  (hkeys : marg.map Prod.fst = cliques)
  (hwf : ∀ p ∈ marg, p.2.WF ∧ p.2.dom.attrs.Perm p.1 ∧ p.2.dom.Agrees d)
  (hcal : ∀ c ∈ cliques, ∀ σ, d.Valid σ → ((marg.get c).sem σ).v = s * marginal d pots c σ)
  (hnonneg : ∀ p ∈ marg, ∀ x ∈ p.2.vals.data.toList, 0 ≤ x.v)
include hok hkeys hwf

/-- the stored clique marginal is a usable factor over the clique's attributes -/
theorem marg_ok (c : Clique) (hc : c ∈ cliques) :
    FactorOK d (marg.get c) ∧ ∀ a, a ∈ (marg.get c).dom.attrs ↔ a ∈ c := by
  have hm := get_mem marg c (by rw [hkeys]; exact hc)
  obtain ⟨h1, h2, h3⟩ := hwf _ hm
  refine ⟨⟨h1, h3, ?_⟩, fun a => h2.mem_iff⟩
  intro a ha
  exact (hok.clique_ok c hc).2 a (h2.mem_iff.mp ha)

include hnonneg in
theorem marg_sem_nonneg (c : Clique) (hc : c ∈ cliques) (τ : Attr → Nat) :
    0 ≤ ((marg.get c).sem τ).v := by
  have hm := get_mem marg c (by rw [hkeys]; exact hc)
  unfold Factor.sem NdArr.get
  rw [Array.getD_eq_getD_getElem?]
  cases h : (marg.get c).vals.data[ravel (marg.get c).vals.shape (List.map τ (marg.get c).dom.attrs)]? with
  | none => show (0 : K) ≤ 0; exact le_refl _
  | some x =>
    have hx : x ∈ (marg.get c).vals.data.toList := by
      rw [Array.mem_toList_iff]
      exact Array.mem_of_getElem? h
    exact hnonneg _ hm x hx

/-- a good table: usable factor whose cells are `s ·` the marginal onto its own attributes -/
def Good (d : Dom) (pots : CliqueVec (LogOf K)) (s : K) (f : Factor (PlainOf K)) : Prop :=
  FactorOK d f ∧ ∀ σ, d.Valid σ → (f.sem σ).v = s * marginal d pots f.dom.attrs σ

include hcal in
theorem marg_good (c : Clique) (hc : c ∈ cliques) : Good d pots s (marg.get c) := by
  obtain ⟨h1, h2⟩ := marg_ok hok hkeys hwf c hc
  refine ⟨h1, fun σ hσ => ?_⟩
  rw [hcal c hc σ hσ, marginal_congr_set d pots _ _ h2 σ]

/-- projecting a good table gives a good table -/
theorem good_project (f : Factor (PlainOf K)) (hf : Good d pots s f) (as : List Attr) (has : as.Nodup)
    (hsub : ∀ a ∈ as, a ∈ f.dom.attrs) :
    Good d pots s (f.projectSum as) ∧ (f.projectSum as).dom.attrs = as := by
  have hd := hok.dom_wf
  have hP := FactorOK.project Scalar.sum as hf.1 has hsub
  have hattrs : (f.projectSum as).dom.attrs = as := Factor.project_attrs _ _ _
  refine ⟨⟨hP, fun σ hσ => ?_⟩, hattrs⟩
  show ((Factor.project Scalar.sum f as).sem σ).v = s * marginal d pots (Factor.project Scalar.sum f as).dom.attrs σ
  rw [val_sem_project Scalar.sum (fun x : PlainOf K => x.v) plain_sum_v hd hf.1 as has hsub hσ,
    sumOver_congr_valid d hd _ σ _ _ hσ (fun τ hτ => hf.2 τ hτ), sumOver_mul_left,
    Factor.project_attrs]
  congr 1
  exact marginal_consistent d pots f.dom.attrs as σ hd hf.1.1.1 has hf.1.2.2 hsub hσ

include hcal hnonneg in
/-- the conditional `P(Cj | Cj ∩ Cl)` -/
theorem conditional_spec (cj cl : Clique) (hcj : cj ∈ cliques) :
    FactorOK d ((marg.get cj).divF ((marg.get cj).projectSum (JT.inter cj cl))) ∧
    (∀ a, a ∈ ((marg.get cj).divF ((marg.get cj).projectSum (JT.inter cj cl))).dom.attrs ↔ a ∈ cj) ∧
    ∀ σ, d.Valid σ →
      0 ≤ s * marginal d pots (JT.inter cj cl) σ ∧
      (((marg.get cj).divF ((marg.get cj).projectSum (JT.inter cj cl))).sem σ).v
        = if 0 < s * marginal d pots (JT.inter cj cl) σ
          then s * marginal d pots cj σ / (s * marginal d pots (JT.inter cj cl) σ) else 0 := by
  have hd := hok.dom_wf
  obtain ⟨hz, hzattrs⟩ := marg_ok hok hkeys hwf cj hcj
  have hzgood := marg_good hok hkeys hwf hcal cj hcj
  have hSnd : (JT.inter cj cl).Nodup := (hok.clique_ok cj hcj).1.sublist List.filter_sublist
  have hSsub : ∀ a ∈ JT.inter cj cl, a ∈ (marg.get cj).dom.attrs :=
    fun a ha => (hzattrs a).mpr (List.mem_filter.mp ha).1
  obtain ⟨hPgood, hPattrs⟩ := good_project hok hkeys hwf _ hzgood _ hSnd hSsub
  obtain ⟨hD, hDdom, hDsem⟩ := FactorOK.divF hd hz hPgood.1 (by
    intro a ha; rw [hPattrs] at ha; exact hSsub a ha)
  refine ⟨hD, fun a => by rw [hDdom]; exact hzattrs a, fun σ hσ => ?_⟩
  have hP := hPgood.2 σ hσ
  rw [hPattrs] at hP
  have hPnn : 0 ≤ (((marg.get cj).projectSum (JT.inter cj cl)).sem σ).v := by
    show 0 ≤ ((Factor.project Scalar.sum (marg.get cj) (JT.inter cj cl)).sem σ).v
    rw [val_sem_project Scalar.sum (fun x : PlainOf K => x.v) plain_sum_v hd hz _ hSnd hSsub hσ]
    unfold sumOver
    apply List.sum_nonneg
    intro x hx
    obtain ⟨v, _, rfl⟩ := List.mem_map.mp hx
    exact marg_sem_nonneg hok hkeys hwf hnonneg cj hcj _
  rw [hP] at hPnn
  refine ⟨hPnn, ?_⟩
  rw [hDsem σ hσ, plain_safeDiv_v, hP, hcal cj hcj σ hσ]

include hcal hnonneg in
/-- **one step**: multiplying a good table on the far side of a separating cut by the conditional
of `Cj` given the separator gives a good table over the union -/
theorem mul_cond_good (x : Factor (PlainOf K)) (hx : Good d pots s x) (cj cl : Clique)
    (hcj : cj ∈ cliques) (r : Clique → Bool) (hrj : r cj = true)
    (hsep : ∀ a ∈ d.attrs, ∀ n ∈ cliques, ∀ m ∈ cliques, a ∈ n → a ∈ m → r n = true → r m = false →
      a ∈ cj ∧ a ∈ cl)
    (hxA : ∀ a ∈ x.dom.attrs, ∃ n ∈ cliques, r n = false ∧ a ∈ n)
    (hcl : ∀ a ∈ cl, a ∈ x.dom.attrs) :
    Good d pots s (x.mul ((marg.get cj).divF ((marg.get cj).projectSum (JT.inter cj cl)))) ∧
    ∀ a, a ∈ (x.mul ((marg.get cj).divF ((marg.get cj).projectSum (JT.inter cj cl)))).dom.attrs
      ↔ a ∈ x.dom.attrs ∨ a ∈ cj := by
  have hd := hok.dom_wf
  obtain ⟨hy, hyattrs, hysem⟩ := conditional_spec hok hkeys hwf hcal hnonneg cj cl hcj
  generalize (marg.get cj).divF ((marg.get cj).projectSum (JT.inter cj cl)) = y at hy hyattrs hysem
  have hxy : FactorOK d (x.mul y) := FactorOK.binop Scalar.mul hx.1 hy
  have hattrs : ∀ a, a ∈ (x.mul y).dom.attrs ↔ a ∈ x.dom.attrs ∨ a ∈ cj := by
    intro a
    show a ∈ (Factor.binop Scalar.mul x y).dom.attrs ↔ _
    rw [binop_mem_attrs, hyattrs a]
  refine ⟨⟨hxy, fun σ hσ => ?_⟩, hattrs⟩
  show ((Factor.binop Scalar.mul x y).sem σ).v = _
  rw [sem_binop_ok Scalar.mul hd hx.1 hy hσ, plain_mul_v, hx.2 σ hσ, (hysem σ hσ).2]
  have hset : marginal d pots (x.mul y).dom.attrs σ = marginal d pots (x.dom.attrs ++ cj) σ :=
    marginal_congr_set d pots _ _ (fun a => by rw [hattrs a, List.mem_append]) σ
  show _ = s * marginal d pots (x.mul y).dom.attrs σ
  have hSsubxy : ∀ b ∈ JT.inter cj cl, b ∈ (x.mul y).dom.attrs :=
    fun b hb => (hattrs b).mpr (Or.inr (List.mem_filter.mp hb).1)
  have hSnd : (JT.inter cj cl).Nodup := (hok.clique_ok cj hcj).1.sublist List.filter_sublist
  by_cases hpos : 0 < s * marginal d pots (JT.inter cj cl) σ
  · rw [if_pos hpos, hset]
    have hci := model_ci hok r (JT.inter cj cl) x.dom.attrs cj
      (fun a ha n hn m hm han ham hrn hrm => by
        obtain ⟨h1, h2⟩ := hsep a ha n hn m hm han ham hrn hrm
        exact List.mem_filter.mpr ⟨h1, by simpa using h2⟩)
      hxA (fun a ha => ⟨cj, hcj, hrj, ha⟩)
      (fun a ha => hcl a (by simpa using (List.mem_filter.mp ha).2))
      (fun a ha => (List.mem_filter.mp ha).1) σ
    have hne : s * marginal d pots (JT.inter cj cl) σ ≠ 0 := ne_of_gt hpos
    have hs : s ≠ 0 := left_ne_zero_of_mul hne
    have hm : marginal d pots (JT.inter cj cl) σ ≠ 0 := right_ne_zero_of_mul hne
    rw [eq_comm, ← sub_eq_zero]
    have : s * marginal d pots (x.dom.attrs ++ cj) σ -
        s * marginal d pots x.dom.attrs σ * (s * marginal d pots cj σ / (s * marginal d pots (JT.inter cj cl) σ))
        = s * (marginal d pots (x.dom.attrs ++ cj) σ * marginal d pots (JT.inter cj cl) σ
            - marginal d pots x.dom.attrs σ * marginal d pots cj σ) / marginal d pots (JT.inter cj cl) σ := by
      field_simp
    rw [this, hci, sub_self, mul_zero, zero_div]
  · rw [if_neg hpos, mul_zero]
    have h0 : s * marginal d pots (JT.inter cj cl) σ = 0 :=
      le_antisymm (not_lt.mp hpos) (hysem σ hσ).1
    rcases mul_eq_zero.mp h0 with h | h
    · rw [h, zero_mul]
    · rw [marginal_zero_of_sub hok (x.mul y).dom.attrs (JT.inter cj cl) hxy.1.1 hSnd hxy.2.2 hSsubxy σ hσ h,
        mul_zero]

/-- summing a good table over some of its attributes gives a good table -/
theorem good_sum (f : Factor (PlainOf K)) (hf : Good d pots s f) (as : List Attr) (has : as.Nodup)
    (hsub : ∀ a ∈ as, a ∈ f.dom.attrs) :
    Good d pots s (f.sum as) ∧ ∀ a, a ∈ (f.sum as).dom.attrs ↔ a ∈ f.dom.attrs ∧ a ∉ as := by
  have hd := hok.dom_wf
  have hR : FactorOK d (Factor.reduce Scalar.sum f as) := FactorOK.reduce Scalar.sum as hf.1
  have hattrs : ∀ a, a ∈ (Factor.reduce Scalar.sum f as).dom.attrs ↔ a ∈ f.dom.attrs ∧ a ∉ as :=
    fun a => reduce_mem_attrs Scalar.sum f as a
  refine ⟨⟨hR, fun σ hσ => ?_⟩, hattrs⟩
  show ((Factor.reduce Scalar.sum f as).sem σ).v = s * marginal d pots (Factor.reduce Scalar.sum f as).dom.attrs σ
  rw [val_sem_reduce_sub Scalar.sum (fun x : PlainOf K => x.v) plain_sum_v hd hf.1 as has hsub hσ,
    sumOver_congr_valid d hd _ σ _ _ hσ (fun τ hτ => hf.2 τ hτ), sumOver_mul_left]
  congr 1
  have hn1 : (f.dom.attrs.filter (fun a => !(Factor.reduce Scalar.sum f as).dom.attrs.contains a)).Nodup :=
    hf.1.1.1.sublist List.filter_sublist
  have hperm : (f.dom.attrs.filter (fun a => !(Factor.reduce Scalar.sum f as).dom.attrs.contains a)).Perm as := by
    rw [List.perm_ext_iff_of_nodup hn1 has]
    intro a
    simp only [List.mem_filter, Bool.not_eq_eq_eq_not, Bool.not_true, List.contains_eq_mem,
      decide_eq_false_iff_not, hattrs a]
    constructor
    · rintro ⟨h1, h2⟩
      by_contra h
      exact h2 ⟨h1, h⟩
    · intro h
      exact ⟨hsub a h, fun h' => h'.2 h⟩
  rw [← sumOver_perm d _ _ σ _ hperm hn1]
  exact marginal_consistent d pots f.dom.attrs _ σ hd hf.1.1.1 hR.1.1 hf.1.2.2
    (fun b hb => ((hattrs b).mp hb).1) hσ

end model

end PGM.Sem
