import PGM.Generated.GraphicalModelQG
import PGM.Model.SynthTable
import PGM.Proofs.SynthTableAux
import PGM.Proofs.SynthTable
import Mathlib.Data.List.GetD
import Mathlib.Data.List.Basic
import Mathlib.Data.List.Nodup
import Mathlib.Data.List.Perm.Basic
/-!
# The generated column loop of `synthetic_data` IS the model's loop `synthTable`

`GMQ.syntheticFrame` (machine translation of `GraphicalModel.synthetic_data`, the column loop over a
pandas-like frame, threading the generator state) is the hand model `Synth.synthTable` for the
explicitly constructed `genSpecs` (one `ColSpec` per step `(col, proj)` of the loop, `steps`) and
for outcomes `outs` that are, group by group, values returned by `GMQ.syntheticCol`.

Contents
* §1 `posOf`, `groupbySpec`, `GroupbyOK` (the group-by contract; `groupbyOK_spec`: it is satisfiable).
* §2 `setAt_rows` / `setCol_rows`: the pandas store `df.loc[labels, col] = vals` is the model's
  `assignGroup`.  Hypothesis: `groupSize proj k rows ≤ vals.length` (`assignGroup` leaves the
  remaining rows alone when `vals` runs out, `DF.setAt` writes `0`); `c ∉ proj` is NOT needed
  (`assignGroup` tests the key of the row before the store).
* §3 `fold_groups` (the inner loop over the groups, computed once from the frame at loop entry,
  is `foldGroups`), `colStep_spec` (one column of the generated loop is `genCol`).
* §4 `steps`, `specOf`, `genSpecs`, `shape_syntheticFrame` (the generated definition is the fold of
  the named step `loopStep`, by `rfl`), `loop_spec`, `specsWF_stepsFrom`.
* §5 `syntheticFrame_core`, `syntheticFrame_eq_synthTable`, `syntheticFrame_outsOK`.

Deviations from the requested statements (all of them strengthenings, no hypothesis added)
* the empty table: for a step with `proj = ()` the generated code calls `syntheticCol` ONCE for all
  rows, the model has one group (key `[]`) when the table is non-empty and none when it is empty.
  The model's outcome list for such a step is taken to be `(groupKeys [] rows).map (fun _ => r1)`,
  i.e. `[r1]` if `0 < N` and `[]` if `N = 0`; so no hypothesis `0 < N` is needed, for `outsOK` either.
* `domain.attrs.Nodup` is not used (kept, as `_hd`, for the requested signature).
* `syntheticFrame_eq_synthTable` has one more conjunct: `outs.length = genSpecs.length`.
* `syntheticFrame_outsOK`: `(sp.cond key).length = sp.size` is proved (`specOf_cond_length`), not
  assumed; the column-level hypothesis `hcol` has the two other conjuncts only.
* `syntheticFrame_core` gives the strongest form: the chain `OutsFact` (every outcome of a step is
  `syntheticCol (sp.cond key) (groupSize sp.proj key rows) g'` for the table `rows` the step sees).
-/
namespace PGM.GMQGen
open PGM PGM.Synth PGM.Synth.Table

/-! ## 1. the group-by contract -/

/-- positions of the labels `by` in the frame -/
def posOf (cols : List Attr) (by_ : List Attr) : List Nat := by_.map (fun a => cols.idxOf a)

/-- the ascending row labels of the rows with key `k` -/
def rowsWith (pos : List Nat) (k : List Nat) (rows : List Row) : List Nat :=
  (List.range rows.length).filter (fun i => Synth.key pos (rows.getD i []) == k)

/-- what `df.groupby(list(by))` iterates over: sorted distinct keys, each with the ascending row
labels carrying it -/
def groupbySpec (df : GMQ.DF) (by_ : List Attr) : List (List Nat × List Nat) :=
  (Synth.groupKeys (posOf df.cols by_) df.rows).map (fun k =>
    (k, (List.range df.rows.length).filter
      (fun i => Synth.key (posOf df.cols by_) (df.rows.getD i []) == k)))

def GroupbyOK (groupby : GMQ.DF → List Attr → List (List Nat × List Nat)) : Prop :=
  ∀ df by_, groupby df by_ = groupbySpec df by_

/-- the contract is satisfiable: the specification itself -/
theorem groupbyOK_spec : GroupbyOK groupbySpec := fun _ _ => rfl

theorem groupbySpec_eq (df : GMQ.DF) (by_ : List Attr) :
    groupbySpec df by_ = (Synth.groupKeys (posOf df.cols by_) df.rows).map
      (fun k => (k, rowsWith (posOf df.cols by_) k df.rows)) := rfl

/-! ## 2. the pandas store and the model's store -/

theorem idxOf_filter_range (q : Nat → Bool) (N i : Nat) (hi : i < N) (hq : q i = true) :
    ((List.range N).filter q).idxOf i = ((List.range i).filter q).length := by
  induction N with
  | zero => omega
  | succ N ih =>
    rw [List.range_succ, List.filter_append, List.idxOf_append]
    by_cases h : i < N
    · have hmem : i ∈ (List.range N).filter q := List.mem_filter.2 ⟨List.mem_range.2 h, hq⟩
      rw [if_pos hmem]; exact ih h
    · have : i = N := by omega
      subst this
      have hnm : i ∉ (List.range i).filter q := by
        intro hm; have := (List.mem_filter.1 hm).1; simp at this
      rw [if_neg hnm]
      simp [hq]

theorem groupSize_cons (pos k : List Nat) (r : Row) (rows : List Row) :
    groupSize pos k (r :: rows) = (if key pos r = k then 1 else 0) + groupSize pos k rows :=
  cellCount_cons pos k r rows

theorem setAt_aux (c : Nat) (proj k : List Nat) (vals : List Nat) (p : Nat → Bool) :
    ∀ (rows : List Row) (n : Nat),
      (∀ j (h : j < rows.length), p (n + j) = (key proj rows[j] == k)) →
      ((List.range n).filter p).length + groupSize proj k rows ≤ vals.length →
      (rows.zipIdx n).map (fun ri => if p ri.2 = true
          then ri.1.set c (vals.getD ((List.range ri.2).filter p).length 0) else ri.1)
        = assignGroup c proj k rows (vals.drop ((List.range n).filter p).length) := by
  intro rows
  induction rows with
  | nil => intro n _ _; rfl
  | cons r rs ih =>
    intro n hp hlen
    have hp0 : p n = (key proj r == k) := hp 0 (Nat.succ_pos _)
    have hp' : ∀ j (h : j < rs.length), p (n + 1 + j) = (key proj rs[j] == k) := by
      intro j h
      have := hp (j + 1) (by simp; omega)
      have e : n + 1 + j = n + (j + 1) := by omega
      rw [e]; simpa using this
    rw [groupSize_cons] at hlen
    rw [List.zipIdx_cons, List.map_cons]
    unfold assignGroup
    by_cases hk : key proj r = k
    · have hpn : p n = true := by rw [hp0]; simpa using hk
      have hm : ((List.range n).filter p).length < vals.length := by
        simp only [hk, if_true] at hlen; omega
      have hsucc : ((List.range (n + 1)).filter p).length = ((List.range n).filter p).length + 1 := by
        rw [List.range_succ, List.filter_append]; simp [hpn]
      rw [List.drop_eq_getElem_cons hm]
      simp only [hpn, if_true, hk, beq_self_eq_true]
      rw [List.getD_eq_getElem _ _ hm]
      congr 1
      rw [ih (n + 1) hp' (by rw [hsucc]; simp only [hk, if_true] at hlen; omega), hsucc]
    · have hpn : p n = false := by rw [hp0]; simpa using hk
      have hsucc : ((List.range (n + 1)).filter p).length = ((List.range n).filter p).length := by
        rw [List.range_succ, List.filter_append]; simp [hpn]
      have hk' : (key proj r == k) = false := by simpa using hk
      simp only [hpn, hk', Bool.false_eq_true, if_false]
      congr 1
      rw [ih (n + 1) hp' (by rw [hsucc]; simp only [hk, if_false] at hlen; omega), hsucc]

theorem rowsWith_length (pos k : List Nat) (rows : List Row) :
    (rowsWith pos k rows).length = groupSize pos k rows := by
  unfold rowsWith groupSize
  have hmap : (List.range rows.length).map (fun i => rows.getD i []) = rows := by
    apply List.ext_getElem
    · simp
    · intro i h1 h2
      simp [List.getElem?_eq_getElem h2]
  conv_rhs => rw [← hmap, List.filter_map, List.length_map]
  rfl

/-- KEY LEMMA: `df.loc[labels of the rows with key k, col] = vals` is the model's `assignGroup` -/
theorem setAt_rows (df : GMQ.DF) (col : Attr) (proj k : List Nat) (vals : List Nat)
    (hlen : groupSize proj k df.rows ≤ vals.length) :
    (GMQ.DF.setAt df ((List.range df.rows.length).filter
        (fun i => Synth.key proj (df.rows.getD i []) == k)) col vals).rows
      = assignGroup (df.cols.idxOf col) proj k df.rows vals := by
  have haux := setAt_aux (df.cols.idxOf col) proj k vals
    (fun i => Synth.key proj (df.rows.getD i []) == k) df.rows 0
    (by intro j h; simp [List.getElem?_eq_getElem h]) (by simpa using hlen)
  simp only [List.range_zero, List.filter_nil, List.length_nil, List.drop_zero] at haux
  rw [← haux]
  show List.map _ _ = _
  apply List.map_congr_left
  rintro ⟨r, i⟩ hmem
  have hi : i < df.rows.length := (List.mem_zipIdx' hmem).1
  by_cases hq : (Synth.key proj (df.rows.getD i []) == k) = true
  · have hmem' : i ∈ (List.range df.rows.length).filter
        (fun i => Synth.key proj (df.rows.getD i []) == k) :=
      List.mem_filter.2 ⟨List.mem_range.2 hi, hq⟩
    have hc : ((List.range df.rows.length).filter
        (fun i => Synth.key proj (df.rows.getD i []) == k)).contains i = true :=
      List.contains_iff_mem.2 hmem'
    simp only [hc, if_true, hq]
    rw [idxOf_filter_range _ _ _ hi hq]
  · have hc : ((List.range df.rows.length).filter
        (fun i => Synth.key proj (df.rows.getD i []) == k)).contains i = false := by
      cases h : ((List.range df.rows.length).filter
        (fun i => Synth.key proj (df.rows.getD i []) == k)).contains i
      · rfl
      · exact absurd (List.mem_filter.1 (List.contains_iff_mem.1 h)).2 hq
    simp only [hc, hq, Bool.false_eq_true, if_false]

theorem setAt_rowsWith (df : GMQ.DF) (col : Attr) (proj k : List Nat) (vals : List Nat)
    (hlen : groupSize proj k df.rows ≤ vals.length) :
    (GMQ.DF.setAt df (rowsWith proj k df.rows) col vals).rows
      = assignGroup (df.cols.idxOf col) proj k df.rows vals := setAt_rows df col proj k vals hlen

theorem setAt_cols (df : GMQ.DF) (index : List Nat) (col : Attr) (vals : List Nat) :
    (GMQ.DF.setAt df index col vals).cols = df.cols := rfl

theorem key_nil (r : Row) : key [] r = [] := rfl

theorem groupSize_nil (rows : List Row) : groupSize [] [] rows = rows.length := by
  unfold groupSize
  rw [List.filter_eq_self.2]
  intro r _; rfl

/-- `df.loc[:, col] = vals` is the model's store for the single group of the empty key -/
theorem setCol_rows (df : GMQ.DF) (col : Attr) (vals : List Nat) (hlen : df.rows.length ≤ vals.length) :
    (GMQ.DF.setCol df col vals).rows = assignGroup (df.cols.idxOf col) [] [] df.rows vals := by
  have h := setAt_rows df col [] [] vals (by rw [groupSize_nil]; exact hlen)
  rw [← h]
  unfold GMQ.DF.setCol
  congr 2
  symm
  apply List.filter_eq_self.2
  intro i _; rfl


/-! ## 3. one column step of the generated loop -/

theorem rowsWith_congr (pos k : List Nat) (a b : List Row) (h : a.map (key pos) = b.map (key pos)) :
    rowsWith pos k a = rowsWith pos k b := by
  unfold rowsWith
  have hl : a.length = b.length := by simpa using congrArg List.length h
  rw [hl]
  apply List.filter_congr
  intro i _
  have ha := List.getD_map (l := a) (d := ([] : Row)) (n := i) (key pos)
  have hb := List.getD_map (l := b) (d := ([] : Row)) (n := i) (key pos)
  rw [← ha, ← hb, h]

theorem groupSize_congr (pos k : List Nat) (a b : List Row) (h : a.map (key pos) = b.map (key pos)) :
    groupSize pos k a = groupSize pos k b := by
  rw [groupSize_eq_cellCount, groupSize_eq_cellCount, cellCount_eq_count, cellCount_eq_count, h]

variable {G : Type}

/-- the body of the generated inner loop `for idx, group in df.groupby(list(proj))` -/
def groupStep (sc : List Rat → Nat → G → List Nat × G) (marg : NdArr Rat) (col : Attr)
    (st : GMQ.DF × G) (ig : List Nat × List Nat) : GMQ.DF × G :=
  let r := sc (GMQ.NpQ.row marg ig.1) ig.2.length st.2
  (GMQ.DF.setAt st.1 ig.2 col r.1, r.2)

/-- the inner loop, the groups computed once from `rows0` (the frame at loop entry) -/
theorem fold_groups (sc : List Rat → Nat → G → List Nat × G)
    (hlen : ∀ counts n g, (sc counts n g).1.length = n) (marg : NdArr Rat) (col : Attr)
    (pos : List Nat) (rows0 : List Row) :
    ∀ (l : List (List Nat)) (df : GMQ.DF) (g : G), df.cols.idxOf col ∉ pos →
      df.rows.map (key pos) = rows0.map (key pos) →
      ((l.map (fun k => (k, rowsWith pos k rows0))).foldl (groupStep sc marg col) (df, g)).1.cols = df.cols ∧
      ∃ o : List (List Nat), o.length = l.length ∧
        ((l.map (fun k => (k, rowsWith pos k rows0))).foldl (groupStep sc marg col) (df, g)).1.rows
          = foldGroups (df.cols.idxOf col) pos (List.zip l o) df.rows ∧
        ∀ ko ∈ List.zip l o, ∃ g', ko.2 = (sc (GMQ.NpQ.row marg ko.1) (groupSize pos ko.1 rows0) g').1 := by
  intro l
  induction l with
  | nil => intro df g _ _; exact ⟨rfl, [], rfl, rfl, by simp⟩
  | cons k l ih =>
    intro df g hc hkey
    have hrl : (sc (GMQ.NpQ.row marg k) (rowsWith pos k rows0).length g).1.length
        = groupSize pos k df.rows := by
      rw [hlen, rowsWith_length]; exact (groupSize_congr pos k _ _ hkey).symm
    have hrows : (GMQ.DF.setAt df (rowsWith pos k rows0) col
          (sc (GMQ.NpQ.row marg k) (rowsWith pos k rows0).length g).1).rows
        = assignGroup (df.cols.idxOf col) pos k df.rows
          (sc (GMQ.NpQ.row marg k) (rowsWith pos k rows0).length g).1 := by
      rw [← rowsWith_congr pos k df.rows rows0 hkey]
      exact setAt_rowsWith df col pos k _ (by rw [rowsWith_congr pos k df.rows rows0 hkey, hrl])
    have hkey' : (GMQ.DF.setAt df (rowsWith pos k rows0) col
          (sc (GMQ.NpQ.row marg k) (rowsWith pos k rows0).length g).1).rows.map (key pos)
        = rows0.map (key pos) := by
      rw [hrows, ← hkey]
      exact ((agree_assignGroup (df.cols.idxOf col) pos k df.rows _).map_key pos
        (fun j hj e => hc (e ▸ hj))).symm
    obtain ⟨h1, o, ho, h2, h3⟩ := ih (GMQ.DF.setAt df (rowsWith pos k rows0) col
        (sc (GMQ.NpQ.row marg k) (rowsWith pos k rows0).length g).1)
      (sc (GMQ.NpQ.row marg k) (rowsWith pos k rows0).length g).2 hc hkey'
    refine ⟨h1, (sc (GMQ.NpQ.row marg k) (rowsWith pos k rows0).length g).1 :: o, by simp [ho], ?_, ?_⟩
    · rw [hrows] at h2
      exact h2
    · intro ko hko
      rw [List.zip_cons_cons] at hko
      rcases List.mem_cons.1 hko with rfl | hko
      · exact ⟨g, by rw [rowsWith_length]⟩
      · exact h3 ko hko

/-- one column of the generated loop on the pair (frame, generator state) -/
def colStep (project : List Attr → Factor Rat)
    (groupby : GMQ.DF → List Attr → List (List Nat × List Nat))
    (sc : List Rat → Nat → G → List Nat × G) (col : Attr) (proj : List Attr)
    (st : GMQ.DF × G) : GMQ.DF × G :=
  if (decide (proj.length ≥ 1)) then
    (groupby st.1 proj).foldl (groupStep sc (Factor.vals (project (proj ++ [col]))) col) st
  else
    let r := sc (GMQ.NpQ.row (Factor.vals (project (proj ++ [col]))) []) st.1.rows.length st.2
    (GMQ.DF.setCol st.1 col r.1, r.2)

/-- the model's step for the generated step `(col, proj)` -/
def specOf (project : List Attr → Factor Rat) (cols : List Attr) (col : Attr) (proj : List Attr) :
    Synth.ColSpec :=
  ⟨cols.idxOf col, posOf cols proj, ((project (proj ++ [col])).vals.shape.getLastD 0),
    fun key => GMQ.NpQ.row (project (proj ++ [col])).vals key⟩

theorem specOf_cond_length (project : List Attr → Factor Rat) (cols : List Attr) (col : Attr)
    (proj : List Attr) (key : List Nat) :
    ((specOf project cols col proj).cond key).length = (specOf project cols col proj).size := by
  simp [specOf, GMQ.NpQ.row]

/-- what is known of the outcomes of one step: one per group, each a value returned by the column
generator on the conditional slice of the group and the size of the group -/
def OutFact (sc : List Rat → Nat → G → List Nat × G) (sp : ColSpec) (rows : List Row)
    (o : List (List Nat)) : Prop :=
  o.length = (groupKeys sp.proj rows).length ∧
  ∀ ko ∈ List.zip (groupKeys sp.proj rows) o,
    ∃ g', ko.2 = (sc (sp.cond ko.1) (groupSize sp.proj ko.1 rows) g').1

theorem groupKeys_nil_cons (r : Row) (rs : List Row) : groupKeys [] (r :: rs) = [[]] := by
  unfold groupKeys
  rw [List.map_cons, List.eraseDups_cons]
  have hf : (rs.map (key [])).filter (fun b => !b == key [] r) = [] := by
    apply List.filter_eq_nil_iff.2
    intro a ha
    obtain ⟨x, _, rfl⟩ := List.mem_map.1 ha
    simp [key]
  rw [hf]
  simp [key]

theorem groupKeys_nil_nil : groupKeys [] ([] : List Row) = [] := by
  simp [groupKeys]

theorem genCol_nil_proj (sp : ColSpec) (hp : sp.proj = []) (rows : List Row) (v : List Nat) :
    genCol sp rows ((groupKeys [] rows).map (fun _ => v)) = assignGroup sp.col [] [] rows v := by
  rw [genCol_eq, hp]
  cases rows with
  | nil => rw [groupKeys_nil_nil]; rfl
  | cons r rs => rw [groupKeys_nil_cons]; rfl

/-- the unconditioned column (`proj = ()`): one call for all `n = len(df)` rows -/
theorem uncond_spec (project : List Attr → Factor Rat) (sc : List Rat → Nat → G → List Nat × G)
    (hlen : ∀ counts n g, (sc counts n g).1.length = n) (col : Attr) (df : GMQ.DF) (g : G) (n : Nat)
    (hn : n = df.rows.length) :
    ∃ o, (GMQ.DF.setCol df col (sc (GMQ.NpQ.row (project ([] ++ [col])).vals []) n g).1).rows
        = genCol (specOf project df.cols col []) df.rows o ∧
      OutFact sc (specOf project df.cols col []) df.rows o := by
  subst hn
  refine ⟨(groupKeys [] df.rows).map
    (fun _ => (sc (GMQ.NpQ.row (project ([] ++ [col])).vals []) df.rows.length g).1), ?_, ?_, ?_⟩
  · rw [genCol_nil_proj _ rfl]
    exact setCol_rows df col _ (by rw [hlen])
  · show _ = (groupKeys [] df.rows).length
    rw [List.length_map]
  · intro ko hko
    have h1 : ko.1 ∈ groupKeys [] df.rows := (List.of_mem_zip (a := ko.1) (b := ko.2) hko).1
    have h2 := (List.of_mem_zip (a := ko.1) (b := ko.2) hko).2
    have hk : ko.1 = [] := by
      rw [mem_groupKeys] at h1
      obtain ⟨x, _, e⟩ := List.mem_map.1 h1
      exact e.symm
    obtain ⟨_, _, e2⟩ := List.mem_map.1 h2
    refine ⟨g, ?_⟩
    rw [← e2, hk]
    show _ = (sc _ (groupSize [] [] df.rows) g).1
    rw [groupSize_nil]
    rfl

theorem colStep_spec (project : List Attr → Factor Rat)
    (groupby : GMQ.DF → List Attr → List (List Nat × List Nat)) (hgb : GroupbyOK groupby)
    (sc : List Rat → Nat → G → List Nat × G) (hlen : ∀ counts n g, (sc counts n g).1.length = n)
    (col : Attr) (proj : List Attr) (df : GMQ.DF) (g : G)
    (hc : df.cols.idxOf col ∉ posOf df.cols proj) :
    (colStep project groupby sc col proj (df, g)).1.cols = df.cols ∧
    ∃ o, (colStep project groupby sc col proj (df, g)).1.rows
        = genCol (specOf project df.cols col proj) df.rows o ∧
      OutFact sc (specOf project df.cols col proj) df.rows o := by
  by_cases hp : proj.length ≥ 1
  · unfold colStep
    rw [if_pos (by simpa using hp), hgb, groupbySpec_eq]
    obtain ⟨h1, o, ho, h2, h3⟩ := fold_groups sc hlen (project (proj ++ [col])).vals col
      (posOf df.cols proj) df.rows (groupKeys (posOf df.cols proj) df.rows) df g hc rfl
    exact ⟨h1, o, h2, ho, h3⟩
  · have hp' : proj = [] := List.length_eq_zero_iff.1 (by omega)
    subst hp'
    unfold colStep
    rw [if_neg (by simp)]
    exact ⟨rfl, uncond_spec project sc hlen col df g df.rows.length rfl⟩


/-! ## 4. the steps of the loop, and the loop -/

/-- `proj = tuple(set(used) & set.union(*relevant))` -/
def projOf (set_order : List Attr → List Attr) (cliques : List JT.Clique) (used : List Attr)
    (col : Attr) : List Attr :=
  set_order (JT.inter used ((cliques.filter (fun cl => (cl.contains col))).foldl JT.union []))

/-- the steps `(col, proj)` of `for col in order[1:]`, `used` accumulated as in the source -/
def stepsFrom (set_order : List Attr → List Attr) (cliques : List JT.Clique) :
    List Attr → List Attr → List (Attr × List Attr)
  | _, [] => []
  | used, col :: rest =>
    (col, projOf set_order cliques used col) :: stepsFrom set_order cliques (JT.union used [col]) rest

/-- all the steps, for `order = elimination_order[::-1]` -/
def stepsOrd (set_order : List Attr → List Attr) (cliques : List JT.Clique) (order : List Attr) :
    List (Attr × List Attr) :=
  (order.getD 0 "", []) :: stepsFrom set_order cliques [order.getD 0 ""] (order.drop 1)

def steps (set_order : List Attr → List Attr) (cliques : List JT.Clique)
    (elimination_order : List Attr) : List (Attr × List Attr) :=
  stepsOrd set_order cliques elimination_order.reverse

def genSpecs (project : List Attr → Factor Rat) (set_order : List Attr → List Attr) (domain : Dom)
    (cliques : List JT.Clique) (elimination_order : List Attr) : List Synth.ColSpec :=
  (steps set_order cliques elimination_order).map (fun s => specOf project domain.attrs s.1 s.2)

/-- the body of the generated loop `for col in order[1:]` -/
def loopStep (project : List Attr → Factor Rat) (set_order : List Attr → List Attr)
    (groupby : GMQ.DF → List Attr → List (List Nat × List Nat))
    (sc : List Rat → Nat → G → List Nat × G) (cliques : List JT.Clique)
    (st : List Attr × NdArr Rat × GMQ.DF × G) (col : Attr) : List Attr × NdArr Rat × GMQ.DF × G :=
  (JT.union st.1 [col], Factor.vals (project (projOf set_order cliques st.1 col ++ [col])),
    colStep project groupby sc col (projOf set_order cliques st.1 col) st.2.2)

/-- the generated `syntheticFrame` is the fold of `loopStep` after the first column -/
theorem shape_syntheticFrame (project : List Attr → Factor Rat) (set_order : List Attr → List Attr)
    (groupby : GMQ.DF → List Attr → List (List Nat × List Nat))
    (cr cnr : G → Nat → Nat → List Rat → List Nat × G) (sh : G → List Nat → List Nat × G)
    (domain : Dom) (cliques : List JT.Clique) (elimination_order : List Attr) (total : Rat)
    (rows : Option Nat) (method : String) (g : G) :
    GMQ.syntheticFrame project set_order groupby cr cnr sh domain cliques elimination_order total
        rows method g
      = ((elimination_order.reverse.drop 1).foldl
          (loopStep project set_order groupby (GMQ.syntheticCol cr cnr sh method) cliques)
          ([elimination_order.reverse.getD 0 ""],
            Factor.vals (project [elimination_order.reverse.getD 0 ""]),
            GMQ.DF.setCol
              (GMQ.DF.zeros (match rows with | none => (Rat.floor total).toNat | some r => r)
                domain.attrs)
              (elimination_order.reverse.getD 0 "")
              (GMQ.syntheticCol cr cnr sh method
                (GMQ.NpQ.row (Factor.vals (project [elimination_order.reverse.getD 0 ""])) [])
                (match rows with | none => (Rat.floor total).toNat | some r => r) g).1,
            (GMQ.syntheticCol cr cnr sh method
                (GMQ.NpQ.row (Factor.vals (project [elimination_order.reverse.getD 0 ""])) [])
                (match rows with | none => (Rat.floor total).toNat | some r => r) g).2)).2.2 := rfl


/-! ### facts about `used` and `proj` -/

theorem mem_union (u v : List Attr) (a : Attr) : a ∈ JT.union u v ↔ a ∈ u ∨ a ∈ v := by
  unfold JT.union
  rw [List.mem_append, List.mem_filter]
  constructor
  · rintro (h | h)
    · exact Or.inl h
    · exact Or.inr h.1
  · rintro (h | h)
    · exact Or.inl h
    · by_cases hu : a ∈ u
      · exact Or.inl hu
      · exact Or.inr ⟨h, by simpa using hu⟩

theorem union_singleton (u : List Attr) (a : Attr) (h : a ∉ u) : JT.union u [a] = u ++ [a] := by
  unfold JT.union
  simp [h]

theorem projOf_sub (set_order : List Attr → List Attr) (hso : ∀ s, (set_order s).Perm s)
    (cliques : List JT.Clique) (used : List Attr) (col : Attr) :
    ∀ a ∈ projOf set_order cliques used col, a ∈ used := by
  intro a ha
  unfold projOf at ha
  rw [(hso _).mem_iff] at ha
  unfold JT.inter at ha
  exact (List.mem_filter.1 ha).1

theorem projOf_nodup (set_order : List Attr → List Attr) (hso : ∀ s, (set_order s).Perm s)
    (cliques : List JT.Clique) (used : List Attr) (hu : used.Nodup) (col : Attr) :
    (projOf set_order cliques used col).Nodup := by
  unfold projOf
  rw [(hso _).nodup_iff]
  unfold JT.inter
  exact hu.filter _

theorem idxOf_notMem_posOf (cols : List Attr) (col : Attr) (hcol : col ∈ cols) (l : List Attr)
    (h : col ∉ l) : cols.idxOf col ∉ posOf cols l := by
  intro hm
  obtain ⟨a, ha, e⟩ := List.mem_map.1 hm
  have : col = a := (List.idxOf_inj hcol).1 e.symm
  exact h (this ▸ ha)

/-! ### the chain of outcome facts -/

/-- `OutFact` for every step, each judged on the table it actually sees -/
def OutsFact (sc : List Rat → Nat → G → List Nat × G) :
    List ColSpec → List (List (List Nat)) → List Row → Prop
  | [], [], _ => True
  | sp :: sps, o :: os, rows => OutFact sc sp rows o ∧ OutsFact sc sps os (genCol sp rows o)
  | _, _, _ => False

/-- the loop `for col in order[1:]` from an arbitrary state -/
theorem loop_spec (project : List Attr → Factor Rat) (set_order : List Attr → List Attr)
    (hso : ∀ s, (set_order s).Perm s)
    (groupby : GMQ.DF → List Attr → List (List Nat × List Nat)) (hgb : GroupbyOK groupby)
    (sc : List Rat → Nat → G → List Nat × G) (hlen : ∀ counts n g, (sc counts n g).1.length = n)
    (cliques : List JT.Clique) (cols : List Attr) :
    ∀ (rest : List Attr) (used : List Attr) (marg : NdArr Rat) (df : GMQ.DF) (g : G),
      df.cols = cols → (∀ a ∈ rest, a ∈ cols) → (∀ a ∈ rest, a ∉ used) → rest.Nodup →
      (rest.foldl (loopStep project set_order groupby sc cliques) (used, marg, df, g)).2.2.1.cols = cols ∧
      ∃ outs,
        (rest.foldl (loopStep project set_order groupby sc cliques) (used, marg, df, g)).2.2.1.rows
          = run ((stepsFrom set_order cliques used rest).map (fun s => specOf project cols s.1 s.2))
              outs df.rows ∧
        OutsFact sc ((stepsFrom set_order cliques used rest).map (fun s => specOf project cols s.1 s.2))
          outs df.rows := by
  intro rest
  induction rest with
  | nil =>
    intro used marg df g hcols _ _ _
    exact ⟨hcols, [], rfl, trivial⟩
  | cons col rest ih =>
    intro used marg df g hcols hin hdisj hnd
    have hcolin : col ∈ cols := hin col List.mem_cons_self
    have hcu : col ∉ used := hdisj col List.mem_cons_self
    have hcp : col ∉ projOf set_order cliques used col :=
      fun h => hcu (projOf_sub set_order hso cliques used col col h)
    have hc : df.cols.idxOf col ∉ posOf df.cols (projOf set_order cliques used col) := by
      rw [hcols]; exact idxOf_notMem_posOf cols col hcolin _ hcp
    obtain ⟨hcols', o, hrows, hfact⟩ := colStep_spec project groupby hgb sc hlen col
      (projOf set_order cliques used col) df g hc
    rw [hcols] at hcols' hrows hfact
    rw [List.nodup_cons] at hnd
    obtain ⟨h1, outs, h2, h3⟩ := ih (JT.union used [col])
      (Factor.vals (project (projOf set_order cliques used col ++ [col])))
      (colStep project groupby sc col (projOf set_order cliques used col) (df, g)).1
      (colStep project groupby sc col (projOf set_order cliques used col) (df, g)).2
      hcols' (fun a ha => hin a (List.mem_cons_of_mem _ ha))
      (by
        intro a ha hm
        rcases (mem_union used [col] a).1 hm with h | h
        · exact hdisj a (List.mem_cons_of_mem _ ha) h
        · rw [List.mem_singleton] at h
          exact hnd.1 (h ▸ ha))
      hnd.2
    refine ⟨h1, o :: outs, ?_, ?_⟩
    · rw [hrows] at h2
      exact h2
    · rw [hrows] at h3
      exact ⟨hfact, h3⟩

/-- the loop conditions only on columns generated earlier: `specsWF` -/
theorem specsWF_stepsFrom (project : List Attr → Factor Rat) (set_order : List Attr → List Attr)
    (hso : ∀ s, (set_order s).Perm s) (cliques : List JT.Clique) (cols : List Attr) :
    ∀ (rest used : List Attr), used.Nodup → (∀ a ∈ used, a ∈ cols) → (∀ a ∈ rest, a ∈ cols) →
      (∀ a ∈ rest, a ∉ used) → rest.Nodup →
      specsWF cols.length (posOf cols used)
        ((stepsFrom set_order cliques used rest).map (fun s => specOf project cols s.1 s.2)) = true := by
  intro rest
  induction rest with
  | nil => intro used _ _ _ _ _; rfl
  | cons col rest ih =>
    intro used hu huin hin hdisj hnd
    have hcolin : col ∈ cols := hin col List.mem_cons_self
    have hcu : col ∉ used := hdisj col List.mem_cons_self
    rw [List.nodup_cons] at hnd
    show specsWF cols.length (posOf cols used)
      (specOf project cols col (projOf set_order cliques used col) ::
        (stepsFrom set_order cliques (JT.union used [col]) rest).map
          (fun s => specOf project cols s.1 s.2)) = true
    rw [specsWF_cons]
    refine ⟨List.idxOf_lt_length_of_mem hcolin, idxOf_notMem_posOf cols col hcolin used hcu, ?_, ?_, ?_⟩
    · intro j hj
      obtain ⟨a, ha, rfl⟩ := List.mem_map.1 hj
      exact List.mem_map.2 ⟨a, projOf_sub set_order hso cliques used col a ha, rfl⟩
    · intro j _
      have hnd' : (posOf cols (projOf set_order cliques used col)).Nodup := by
        unfold posOf
        apply List.Nodup.map_on _ (projOf_nodup set_order hso cliques used hu col)
        intro x hx y _ e
        exact (List.idxOf_inj (huin x (projOf_sub set_order hso cliques used col x hx))).1 e
      exact List.nodup_iff_count_le_one.1 hnd' j
    · have hun : JT.union used [col] = used ++ [col] := union_singleton used col hcu
      have hpos : posOf cols used ++ [(specOf project cols col (projOf set_order cliques used col)).col]
          = posOf cols (JT.union used [col]) := by
        rw [hun]; simp [posOf, specOf]
      rw [hpos]
      apply ih
      · rw [hun]
        exact List.nodup_append.2 ⟨hu, List.nodup_singleton _, by
          intro a ha b hb; rw [List.mem_singleton] at hb; subst hb; exact fun e => hcu (e ▸ ha)⟩
      · intro a ha
        rcases (mem_union used [col] a).1 ha with h | h
        · exact huin a h
        · rw [List.mem_singleton] at h; exact h ▸ hcolin
      · exact fun a ha => hin a (List.mem_cons_of_mem _ ha)
      · intro a ha hm
        rcases (mem_union used [col] a).1 hm with h | h
        · exact hdisj a (List.mem_cons_of_mem _ ha) h
        · rw [List.mem_singleton] at h
          exact hnd.1 (h ▸ ha)
      · exact hnd.2


/-! ### the whole loop, for `order = elimination_order[::-1]` -/

theorem order_spec (project : List Attr → Factor Rat) (set_order : List Attr → List Attr)
    (hso : ∀ s, (set_order s).Perm s)
    (groupby : GMQ.DF → List Attr → List (List Nat × List Nat)) (hgb : GroupbyOK groupby)
    (sc : List Rat → Nat → G → List Nat × G) (hlen : ∀ counts n g, (sc counts n g).1.length = n)
    (cliques : List JT.Clique) (cols : List Attr) (N : Nat) (g : G) (order : List Attr)
    (hne : order ≠ []) (hnd : order.Nodup) (hin : ∀ a ∈ order, a ∈ cols) :
    ((order.drop 1).foldl (loopStep project set_order groupby sc cliques)
        ([order.getD 0 ""], Factor.vals (project [order.getD 0 ""]),
          GMQ.DF.setCol (GMQ.DF.zeros N cols) (order.getD 0 "")
            (sc (GMQ.NpQ.row (Factor.vals (project [order.getD 0 ""])) []) N g).1,
          (sc (GMQ.NpQ.row (Factor.vals (project [order.getD 0 ""])) []) N g).2)).2.2.1.cols = cols ∧
    ∃ outs,
      ((order.drop 1).foldl (loopStep project set_order groupby sc cliques)
        ([order.getD 0 ""], Factor.vals (project [order.getD 0 ""]),
          GMQ.DF.setCol (GMQ.DF.zeros N cols) (order.getD 0 "")
            (sc (GMQ.NpQ.row (Factor.vals (project [order.getD 0 ""])) []) N g).1,
          (sc (GMQ.NpQ.row (Factor.vals (project [order.getD 0 ""])) []) N g).2)).2.2.1.rows
        = run ((stepsOrd set_order cliques order).map (fun s => specOf project cols s.1 s.2)) outs
            (List.replicate N (List.replicate cols.length 0)) ∧
      OutsFact sc ((stepsOrd set_order cliques order).map (fun s => specOf project cols s.1 s.2)) outs
        (List.replicate N (List.replicate cols.length 0)) := by
  cases order with
  | nil => exact absurd rfl hne
  | cons a rest =>
    rw [List.nodup_cons] at hnd
    unfold stepsOrd
    simp only [List.getD_cons_zero, List.drop_succ_cons, List.drop_zero]
    obtain ⟨o0, hr0, hf0⟩ := uncond_spec project sc hlen a (GMQ.DF.zeros N cols) g N
      (by simp [GMQ.DF.zeros])
    have hr0' : (GMQ.DF.setCol (GMQ.DF.zeros N cols) a
          (sc (GMQ.NpQ.row (Factor.vals (project [a])) []) N g).1).rows
        = genCol (specOf project cols a []) (List.replicate N (List.replicate cols.length 0)) o0 := hr0
    have hf0' : OutFact sc (specOf project cols a [])
        (List.replicate N (List.replicate cols.length 0)) o0 := hf0
    obtain ⟨h1, outs, h2, h3⟩ := loop_spec project set_order hso groupby hgb sc hlen cliques cols rest [a]
      (Factor.vals (project [a]))
      (GMQ.DF.setCol (GMQ.DF.zeros N cols) a (sc (GMQ.NpQ.row (Factor.vals (project [a])) []) N g).1)
      (sc (GMQ.NpQ.row (Factor.vals (project [a])) []) N g).2 rfl
      (fun x hx => hin x (List.mem_cons_of_mem _ hx))
      (by intro x hx hm; rw [List.mem_singleton] at hm; exact hnd.1 (hm ▸ hx)) hnd.2
    refine ⟨h1, o0 :: outs, ?_, ?_⟩
    · rw [hr0'] at h2
      exact h2
    · rw [hr0'] at h3
      exact ⟨hf0', h3⟩

theorem specsWF_stepsOrd (project : List Attr → Factor Rat) (set_order : List Attr → List Attr)
    (hso : ∀ s, (set_order s).Perm s) (cliques : List JT.Clique) (cols : List Attr)
    (order : List Attr) (hne : order ≠ []) (hnd : order.Nodup) (hin : ∀ a ∈ order, a ∈ cols) :
    specsWF cols.length []
      ((stepsOrd set_order cliques order).map (fun s => specOf project cols s.1 s.2)) = true := by
  cases order with
  | nil => exact absurd rfl hne
  | cons a rest =>
    rw [List.nodup_cons] at hnd
    unfold stepsOrd
    simp only [List.getD_cons_zero, List.drop_succ_cons, List.drop_zero, List.map_cons]
    rw [specsWF_cons]
    have hain : a ∈ cols := hin a List.mem_cons_self
    refine ⟨List.idxOf_lt_length_of_mem hain, by simp, ?_, ?_, ?_⟩
    · intro j hj; cases hj
    · intro j _; show List.count j [] ≤ 1; simp
    · exact specsWF_stepsFrom project set_order hso cliques cols rest [a] (List.nodup_singleton _)
        (by intro x hx; rw [List.mem_singleton] at hx; exact hx ▸ hain)
        (fun x hx => hin x (List.mem_cons_of_mem _ hx))
        (by intro x hx hm; rw [List.mem_singleton] at hm; exact hnd.1 (hm ▸ hx)) hnd.2

/-! ### consequences of the chain of outcome facts -/

theorem exists_key_of_mem {α β : Type} (l : List α) (m : List β) (h : m.length = l.length) (b : β)
    (hb : b ∈ m) : ∃ a, (a, b) ∈ List.zip l m := by
  induction m generalizing l with
  | nil => cases hb
  | cons y m ih =>
    cases l with
    | nil => simp at h
    | cons x l =>
      rcases List.mem_cons.1 hb with rfl | hb
      · exact ⟨x, by simp⟩
      · obtain ⟨a, ha⟩ := ih l (by simpa using h) hb
        exact ⟨a, by rw [List.zip_cons_cons]; exact List.mem_cons_of_mem _ ha⟩

theorem OutsFact.zip_fact (sc : List Rat → Nat → G → List Nat × G)
    (hlen : ∀ counts n g, (sc counts n g).1.length = n) :
    ∀ (specs : List ColSpec) (outs : List (List (List Nat))) (rows : List Row),
      OutsFact sc specs outs rows → ∀ sp o, (sp, o) ∈ List.zip specs outs → ∀ og ∈ o,
        ∃ key g', og = (sc (sp.cond key) og.length g').1 := by
  intro specs
  induction specs with
  | nil => intro outs rows _ sp o hm; simp at hm
  | cons sp0 sps ih =>
    intro outs rows hf sp o hm og hog
    cases outs with
    | nil => simp at hm
    | cons o0 os =>
      obtain ⟨hf0, hfs⟩ := hf
      rw [List.zip_cons_cons] at hm
      rcases List.mem_cons.1 hm with e | hm
      · obtain ⟨rfl, rfl⟩ := Prod.mk.inj e
        obtain ⟨k, hk⟩ := exists_key_of_mem (groupKeys sp.proj rows) o hf0.1 og hog
        obtain ⟨g', e⟩ := hf0.2 (k, og) hk
        have hl := congrArg List.length e
        rw [hlen] at hl
        exact ⟨k, g', by rw [hl]; exact e⟩
      · exact ih os _ hfs sp o hm og hog

theorem OutsFact.length_eq (sc : List Rat → Nat → G → List Nat × G) :
    ∀ (specs : List ColSpec) (outs : List (List (List Nat))) (rows : List Row),
      OutsFact sc specs outs rows → outs.length = specs.length := by
  intro specs
  induction specs with
  | nil => intro outs rows hf; cases outs with
    | nil => rfl
    | cons _ _ => exact hf.elim
  | cons sp sps ih =>
    intro outs rows hf
    cases outs with
    | nil => exact hf.elim
    | cons o os => simp only [List.length_cons]; rw [ih os _ hf.2]

theorem OutsFact.outsOK (sc : List Rat → Nat → G → List Nat × G)
    (hlen : ∀ counts n g, (sc counts n g).1.length = n) (ncols total : Nat) :
    ∀ (specs : List ColSpec) (outs : List (List (List Nat))) (rows : List Row),
      OutsFact sc specs outs rows →
      (∀ sp ∈ specs, ∀ key n g', (∀ v ∈ (sc (sp.cond key) n g').1, v < sp.size) ∧
        (sp.cond key).length = sp.size ∧
        Synth.colOK (sp.cond key) n (Synth.hist sp.size (sc (sp.cond key) n g').1) = true) →
      outsOK ncols total specs outs rows = true := by
  intro specs
  induction specs with
  | nil =>
    intro outs rows hf _
    cases outs with
    | nil => rfl
    | cons _ _ => exact hf.elim
  | cons sp sps ih =>
    intro outs rows hf hcol
    cases outs with
    | nil => exact hf.elim
    | cons o os =>
      obtain ⟨hf0, hfs⟩ := hf
      rw [outsOK_cons]
      refine ⟨?_, ih os _ hfs (fun sp' hsp' => hcol sp' (List.mem_cons_of_mem _ hsp'))⟩
      rw [colOutsOK_unpack]
      refine ⟨hf0.1, ?_⟩
      intro k og hk
      obtain ⟨g', e⟩ := hf0.2 (k, og) hk
      obtain ⟨c1, c2, c3⟩ := hcol sp List.mem_cons_self k (groupSize sp.proj k rows) g'
      have e' : og = (sc (sp.cond k) (groupSize sp.proj k rows) g').1 := e
      rw [← groupSize_eq_cellCount]
      rw [e']
      exact ⟨hlen _ _ _, c1, c2, c3⟩

/-! ## 5. the main theorems -/

/-- everything at once: the frame after the generated loop, the model's loop, and the chain of
facts about the outcomes -/
theorem syntheticFrame_core (project : List Attr → Factor Rat) (set_order : List Attr → List Attr)
    (groupby : GMQ.DF → List Attr → List (List Nat × List Nat))
    (cr cnr : G → Nat → Nat → List Rat → List Nat × G) (sh : G → List Nat → List Nat × G)
    (domain : Dom) (cliques : List JT.Clique) (elimination_order : List Attr) (total : Rat)
    (rows : Option Nat) (method : String) (g : G)
    (hgb : GroupbyOK groupby)
    (hnd : elimination_order.Nodup) (hne : elimination_order ≠ [])
    (hsub : ∀ a ∈ elimination_order, a ∈ domain.attrs)
    (hso : ∀ s, (set_order s).Perm s)
    (hlen : ∀ counts n g, (GMQ.syntheticCol cr cnr sh method counts n g).1.length = n) :
    let N := match rows with | none => (Rat.floor total).toNat | some r => r
    let F := (GMQ.syntheticFrame project set_order groupby cr cnr sh domain cliques elimination_order
      total rows method g).1
    F.cols = domain.attrs ∧
    ∃ outs : List (List (List Nat)),
      F.rows = Synth.synthTable domain.attrs.length N
        (genSpecs project set_order domain cliques elimination_order) outs ∧
      OutsFact (GMQ.syntheticCol cr cnr sh method)
        (genSpecs project set_order domain cliques elimination_order) outs
        (List.replicate N (List.replicate domain.attrs.length 0)) := by
  intro N F
  have hF : F = ((elimination_order.reverse.drop 1).foldl
          (loopStep project set_order groupby (GMQ.syntheticCol cr cnr sh method) cliques)
          ([elimination_order.reverse.getD 0 ""],
            Factor.vals (project [elimination_order.reverse.getD 0 ""]),
            GMQ.DF.setCol (GMQ.DF.zeros N domain.attrs) (elimination_order.reverse.getD 0 "")
              (GMQ.syntheticCol cr cnr sh method
                (GMQ.NpQ.row (Factor.vals (project [elimination_order.reverse.getD 0 ""])) []) N g).1,
            (GMQ.syntheticCol cr cnr sh method
                (GMQ.NpQ.row (Factor.vals (project [elimination_order.reverse.getD 0 ""])) []) N g).2)).2.2.1 := by
    show (GMQ.syntheticFrame project set_order groupby cr cnr sh domain cliques elimination_order
      total rows method g).1 = _
    rw [shape_syntheticFrame]
  obtain ⟨h1, outs, h2, h3⟩ := order_spec project set_order hso groupby hgb
    (GMQ.syntheticCol cr cnr sh method) hlen cliques domain.attrs N g elimination_order.reverse
    (by simpa using hne) (List.nodup_reverse.2 hnd) (fun a ha => hsub a (List.mem_reverse.1 ha))
  rw [hF]
  exact ⟨h1, outs, h2, h3⟩

/-- MAIN THEOREM: the generated column loop is the model's `synthTable` on the explicit `genSpecs`,
which are well formed, and every outcome is a value returned by `syntheticCol` on the conditional
slice of its step, at the size of its group -/
theorem syntheticFrame_eq_synthTable (project : List Attr → Factor Rat)
    (set_order : List Attr → List Attr)
    (groupby : GMQ.DF → List Attr → List (List Nat × List Nat))
    (cr cnr : G → Nat → Nat → List Rat → List Nat × G) (sh : G → List Nat → List Nat × G)
    (domain : Dom) (cliques : List JT.Clique) (elimination_order : List Attr) (total : Rat)
    (rows : Option Nat) (method : String) (g : G)
    (hgb : GroupbyOK groupby)
    (_hd : domain.attrs.Nodup) (hnd : elimination_order.Nodup) (hne : elimination_order ≠ [])
    (hsub : ∀ a ∈ elimination_order, a ∈ domain.attrs)
    (hso : ∀ s, (set_order s).Perm s)
    (hlen : ∀ counts n g, (GMQ.syntheticCol cr cnr sh method counts n g).1.length = n) :
    let N := match rows with | none => (Rat.floor total).toNat | some r => r
    let F := (GMQ.syntheticFrame project set_order groupby cr cnr sh domain cliques elimination_order
      total rows method g).1
    F.cols = domain.attrs ∧
    ∃ outs : List (List (List Nat)),
      F.rows = Synth.synthTable domain.attrs.length N
        (genSpecs project set_order domain cliques elimination_order) outs ∧
      outs.length = (genSpecs project set_order domain cliques elimination_order).length ∧
      Synth.specsWF domain.attrs.length []
        (genSpecs project set_order domain cliques elimination_order) = true ∧
      (∀ sp o, (sp, o) ∈ List.zip (genSpecs project set_order domain cliques elimination_order) outs →
        ∀ og ∈ o, ∃ key g',
          og = (GMQ.syntheticCol cr cnr sh method (sp.cond key) og.length g').1) := by
  intro N F
  obtain ⟨h1, outs, h2, h3⟩ := syntheticFrame_core project set_order groupby cr cnr sh domain cliques
    elimination_order total rows method g hgb hnd hne hsub hso hlen
  refine ⟨h1, outs, h2, OutsFact.length_eq _ _ _ _ h3, ?_, OutsFact.zip_fact _ hlen _ _ _ h3⟩
  exact specsWF_stepsOrd project set_order hso cliques domain.attrs elimination_order.reverse
    (by simpa using hne) (List.nodup_reverse.2 hnd) (fun a ha => hsub a (List.mem_reverse.1 ha))

/-- the outcomes are admissible (`outsOK`) as soon as the column generator is, column by column -/
theorem syntheticFrame_outsOK (project : List Attr → Factor Rat)
    (set_order : List Attr → List Attr)
    (groupby : GMQ.DF → List Attr → List (List Nat × List Nat))
    (cr cnr : G → Nat → Nat → List Rat → List Nat × G) (sh : G → List Nat → List Nat × G)
    (domain : Dom) (cliques : List JT.Clique) (elimination_order : List Attr) (total : Rat)
    (rows : Option Nat) (method : String) (g : G)
    (hgb : GroupbyOK groupby)
    (_hd : domain.attrs.Nodup) (hnd : elimination_order.Nodup) (hne : elimination_order ≠ [])
    (hsub : ∀ a ∈ elimination_order, a ∈ domain.attrs)
    (hso : ∀ s, (set_order s).Perm s)
    (hlen : ∀ counts n g, (GMQ.syntheticCol cr cnr sh method counts n g).1.length = n)
    (hcol : ∀ sp ∈ genSpecs project set_order domain cliques elimination_order, ∀ key n g',
      (∀ v ∈ (GMQ.syntheticCol cr cnr sh method (sp.cond key) n g').1, v < sp.size) ∧
      Synth.colOK (sp.cond key) n
        (Synth.hist sp.size (GMQ.syntheticCol cr cnr sh method (sp.cond key) n g').1) = true) :
    let N := match rows with | none => (Rat.floor total).toNat | some r => r
    let F := (GMQ.syntheticFrame project set_order groupby cr cnr sh domain cliques elimination_order
      total rows method g).1
    ∃ outs : List (List (List Nat)),
      F.rows = Synth.synthTable domain.attrs.length N
        (genSpecs project set_order domain cliques elimination_order) outs ∧
      Synth.outsOK domain.attrs.length N
        (genSpecs project set_order domain cliques elimination_order) outs
        (List.replicate N (List.replicate domain.attrs.length 0)) = true := by
  intro N F
  obtain ⟨_, outs, h2, h3⟩ := syntheticFrame_core project set_order groupby cr cnr sh domain cliques
    elimination_order total rows method g hgb hnd hne hsub hso hlen
  refine ⟨outs, h2, OutsFact.outsOK _ hlen _ _ _ _ _ h3 ?_⟩
  intro sp hsp key n g'
  obtain ⟨c1, c3⟩ := hcol sp hsp key n g'
  refine ⟨c1, ?_, c3⟩
  obtain ⟨s, _, rfl⟩ := List.mem_map.1 hsp
  exact specOf_cond_length project domain.attrs s.1 s.2 key

end PGM.GMQGen
