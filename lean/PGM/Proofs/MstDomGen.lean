import PGM.Model.MstDom
/-!
# Lemmas about the substrate of `PGM/Model/MstDom.lean` (dicts, masks, `np.where`, `df.loc[...] = ...`)
used by `Properties/C06D.lean`.  Core Lean only.
-/
namespace PGM.MstDom
open PGM

/-! ## dicts -/
section dict
variable {K V : Type} [DecidableEq K]

theorem dictFind_dictSet_self (d : List (K × V)) (k : K) (v : V) : dictFind (dictSet d k v) k = some v := by
  induction d with
  | nil => simp [dictSet, dictFind]
  | cons p d ih =>
    obtain ⟨k', v'⟩ := p
    by_cases h : k' = k <;> simp [dictSet, dictFind, h, ih]

theorem dictFind_dictSet_ne (d : List (K × V)) (k k' : K) (v : V) (h : k' ≠ k) :
    dictFind (dictSet d k v) k' = dictFind d k' := by
  induction d with
  | nil => simp [dictSet, dictFind, Ne.symm h]
  | cons p d ih =>
    obtain ⟨k2, v2⟩ := p
    by_cases h2 : k2 = k
    · subst h2; simp [dictSet, dictFind, Ne.symm h]
    · by_cases h3 : k2 = k'
      · subst h3; simp [dictSet, dictFind, h2]
      · simp [dictSet, dictFind, h2, h3, ih]

theorem dictGet_dictSet_self [Inhabited V] (d : List (K × V)) (k : K) (v : V) : dictGet (dictSet d k v) k = v := by
  simp [dictGet, dictFind_dictSet_self]

theorem dictSet_dictSet (d : List (K × V)) (k : K) (v v' : V) : dictSet (dictSet d k v) k v' = dictSet d k v' := by
  induction d with
  | nil => simp [dictSet]
  | cons p d ih =>
    obtain ⟨k2, v2⟩ := p
    by_cases h2 : k2 = k <;> simp [dictSet, h2, ih]

theorem dictSet_not_mem (d : List (K × V)) (k : K) (v : V) (h : k ∉ dictKeys d) : dictSet d k v = d ++ [(k, v)] := by
  induction d with
  | nil => simp [dictSet]
  | cons p d ih =>
    obtain ⟨k2, v2⟩ := p
    simp only [dictKeys, List.map_cons, List.mem_cons, not_or] at h
    have h2 : k2 ≠ k := fun e => h.1 e.symm
    simp [dictSet, h2, ih (by simpa [dictKeys] using h.2)]

omit [DecidableEq K] in
theorem dictKeys_append (d e : List (K × V)) : dictKeys (d ++ e) = dictKeys d ++ dictKeys e := by
  simp [dictKeys]

/-- the dict built from a key list and a function of the key -/
theorem dictFind_map (l : List K) (f : K → V) (k : K) :
    dictFind (l.map (fun i => (i, f i))) k = if k ∈ l then some (f k) else none := by
  induction l with
  | nil => simp [dictFind]
  | cons a l ih =>
    by_cases h : a = k
    · subst h; simp [dictFind]
    · have h' : ¬ k = a := fun e => h e.symm
      simp [dictFind, h, h', ih]
end dict

/-! ## frames -/
namespace Frame

theorem labels_set (df : Frame) (c : Attr) (s : List Cell) : (df.set c s).labels = df.labels := by
  induction df with
  | nil => rfl
  | cons p df ih =>
    simp only [set, labels, List.map_cons] at ih ⊢
    by_cases h : p.1 = c <;> simp [h, ih]

theorem set_not_mem (df : Frame) (c : Attr) (s : List Cell) (h : c ∉ df.labels) : df.set c s = df := by
  induction df with
  | nil => rfl
  | cons p df ih =>
    simp only [labels, List.map_cons, List.mem_cons, not_or] at h
    have h2 : p.1 ≠ c := fun e => h.1 e.symm
    have := ih (by simpa [labels] using h.2)
    simp only [set] at this ⊢
    simp [h2, this]

theorem get_set_self (df : Frame) (c : Attr) (s : List Cell) (h : c ∈ df.labels) : (df.set c s).get c = s := by
  induction df with
  | nil => simp [labels] at h
  | cons p df ih =>
    obtain ⟨a, t⟩ := p
    by_cases h2 : a = c
    · simp [set, get, dictGet, dictFind, h2]
    · have : c ∈ labels df := by
        simp only [labels, List.map_cons, List.mem_cons] at h
        rcases h with h | h
        · exact absurd h.symm h2
        · exact h
      have ih' := ih this
      simp only [set, get, dictGet] at ih' ⊢
      simp [dictFind, h2, ih']

theorem get_set_ne (df : Frame) (c c' : Attr) (s : List Cell) (h : c' ≠ c) : (df.set c s).get c' = df.get c' := by
  induction df with
  | nil => rfl
  | cons p df ih =>
    obtain ⟨a, t⟩ := p
    simp only [set, get, dictGet] at ih ⊢
    by_cases h2 : a = c
    · subst h2
      have : ¬ a = c' := fun e => h e.symm
      simp [dictFind, this, ih]
    · by_cases h3 : a = c'
      · subst h3; simp [dictFind, h2]
      · simp [dictFind, h2, h3, ih]

theorem set_set (df : Frame) (c : Attr) (s t : List Cell) : (df.set c s).set c t = df.set c t := by
  simp only [set, List.map_map]
  apply List.map_congr_left
  intro p _
  by_cases h : p.1 = c <;> simp [h]

theorem locSet_locSet (df : Frame) (c : Attr) (m m' : List Bool) (v : List Cell) (w : List Cell → List Cell) :
    (df.locSet m c v).locSet m' c (w ((df.locSet m c v).locGet m' c))
      = df.set c (MstDom.locSet (MstDom.locSet (df.get c) m v) m' (w (maskSelect (MstDom.locSet (df.get c) m v) m'))) := by
  by_cases h : c ∈ df.labels
  · simp [locSet, locGet, get_set_self _ _ _ h, set_set]
  · simp [locSet, locGet, set_not_mem _ _ _ h]

theorem get_mk (as : List Attr) (h : Attr → List Cell) (c : Attr) (hc : c ∈ as) :
    get (as.map (fun a => (a, h a))) c = h c := by
  simp [get, dictGet, dictFind_map, hc]

end Frame

/-! ## masks and `np.where` -/

theorem maskSum_le (m : List Bool) : maskSum m ≤ m.length := List.count_le_length

theorem maskNot_length (m : List Bool) : (maskNot m).length = m.length := by simp [maskNot]

theorem maskSum_add_not (m : List Bool) : maskSum m + maskSum (maskNot m) = m.length := by
  induction m with
  | nil => rfl
  | cons b m ih =>
    simp only [maskSum, maskNot, List.map_cons, List.length_cons] at ih ⊢
    cases b <;> simp <;> omega

theorem maskAt_eq_true (m : List Bool) (i : Nat) : maskAt m i = true ↔ m[i]? = some true := by
  simp only [maskAt, List.getD_eq_getElem?_getD]
  cases h : m[i]? <;> simp

theorem maskNot_getElem? (m : List Bool) (i : Nat) : (maskNot m)[i]? = some true ↔ m[i]? = some false := by
  simp only [maskNot, List.getElem?_map]
  cases h : m[i]? with
  | none => simp
  | some b => cases b <;> simp

theorem length_whereFrom (off : Nat) (m : List Bool) : (whereFrom off m).length = maskSum m := by
  induction m generalizing off with
  | nil => rfl
  | cons b m ih => cases b <;> simp [whereFrom, maskSum, ih (off + 1)] <;> rfl

theorem mem_whereFrom (off : Nat) (m : List Bool) (w : Nat) :
    w ∈ whereFrom off m ↔ ∃ j, w = off + j ∧ m[j]? = some true := by
  induction m generalizing off with
  | nil => simp [whereFrom]
  | cons b m ih =>
    cases b
    · simp only [whereFrom, Bool.false_eq_true, if_false, ih (off + 1)]
      constructor
      · rintro ⟨j, rfl, hj⟩; exact ⟨j + 1, by omega, by simpa using hj⟩
      · rintro ⟨j, rfl, hj⟩
        cases j with
        | zero => simp at hj
        | succ j => exact ⟨j, by omega, by simpa using hj⟩
    · simp only [whereFrom, if_true, List.mem_cons, ih (off + 1)]
      constructor
      · rintro (rfl | ⟨j, rfl, hj⟩)
        · exact ⟨0, rfl, rfl⟩
        · exact ⟨j + 1, by omega, by simpa using hj⟩
      · rintro ⟨j, rfl, hj⟩
        cases j with
        | zero => left; rfl
        | succ j => right; exact ⟨j, by omega, by simpa using hj⟩

/-- the `k`-th supported value, `k` = number of supported values before `v`, is `v` -/
theorem whereFrom_rank (off : Nat) (m : List Bool) (v : Nat) (h : m[v]? = some true) :
    (whereFrom off m)[maskSum (m.take v)]? = some (off + v) := by
  induction m generalizing off v with
  | nil => simp at h
  | cons b m ih =>
    cases v with
    | zero =>
      simp only [List.getElem?_cons_zero, Option.some.injEq] at h
      subst h
      simp [whereFrom, maskSum]
    | succ v =>
      simp only [List.getElem?_cons_succ] at h
      have := ih (off + 1) v h
      cases b
      · simp only [whereFrom, Bool.false_eq_true, if_false, maskSum, List.take_succ_cons] at this ⊢
        rw [List.count_cons_of_ne (by decide)]
        rw [this]; congr 1; omega
      · simp only [whereFrom, if_true, maskSum, List.take_succ_cons, List.count_cons_self,
          List.getElem?_cons_succ] at this ⊢
        rw [this]; congr 1; omega

theorem maskSum_take_lt (m : List Bool) (v : Nat) (h : m[v]? = some true) : maskSum (m.take v) < maskSum m := by
  induction m generalizing v with
  | nil => simp at h
  | cons b m ih =>
    cases v with
    | zero =>
      simp only [List.getElem?_cons_zero, Option.some.injEq] at h
      subst h; simp [maskSum]
    | succ v =>
      simp only [List.getElem?_cons_succ] at h
      have := ih v h
      simp only [maskSum, List.take_succ_cons, List.count_cons] at this ⊢
      omega

theorem maskSum_take_succ (m : List Bool) (n : Nat) :
    maskSum (m.take (n + 1)) = maskSum (m.take n) + (if maskAt m n then 1 else 0) := by
  simp only [maskSum, maskAt, List.take_add_one, List.count_append, List.getD_eq_getElem?_getD]
  cases h : m[n]? with
  | none => simp
  | some b => cases b <;> simp

theorem maskSum_take_all (m : List Bool) : maskSum (m.take m.length) = maskSum m := by simp

/-! ## `df.loc[mask, c] = vals ; df.loc[~mask, c] = f(df.loc[~mask, c])` as one pass -/

/-- cells satisfying `p` receive the successive values, the others are mapped by `f` -/
def fillSpec (p : Cell → Bool) (f : Cell → Cell) : List Cell → List Cell → List Cell
  | [], _ => []
  | c :: s, vals =>
    if p c then
      (match vals with
       | v :: vs => v :: fillSpec p f s vs
       | [] => c :: fillSpec p f s [])
    else f c :: fillSpec p f s vals

theorem locSet_locSet_eq (p : Cell → Bool) (f : Cell → Cell) (s vals : List Cell) :
    locSet (locSet s (s.map p) vals) (maskNot (s.map p))
        ((maskSelect (locSet s (s.map p) vals) (maskNot (s.map p))).map f)
      = fillSpec p f s vals := by
  induction s generalizing vals with
  | nil => cases vals <;> simp [locSet, fillSpec, maskNot]
  | cons c s ih =>
    cases hp : p c
    · have := ih vals
      simp only [maskNot, List.map_map] at this
      simp [locSet, fillSpec, maskNot, maskSelect, hp, this]
    · cases vals with
      | nil =>
        have := ih []
        simp only [maskNot, List.map_map] at this
        simp [locSet, fillSpec, maskNot, maskSelect, hp, this]
      | cons v vs =>
        have := ih vs
        simp only [maskNot, List.map_map] at this
        simp [locSet, fillSpec, maskNot, maskSelect, hp, this]

theorem length_fillSpec (p : Cell → Bool) (f : Cell → Cell) (s vals : List Cell) :
    (fillSpec p f s vals).length = s.length := by
  induction s generalizing vals with
  | nil => rfl
  | cons c s ih =>
    cases hp : p c
    · simp [fillSpec, hp, ih]
    · cases vals <;> simp [fillSpec, hp, ih]

theorem fillSpec_all (p : Cell → Bool) (f : Cell → Cell) (Q : Cell → Prop) (s vals : List Cell)
    (hlen : (s.filter p).length ≤ vals.length) (hv : ∀ v ∈ vals, Q v) (hf : ∀ c ∈ s, p c = false → Q (f c)) :
    ∀ c' ∈ fillSpec p f s vals, Q c' := by
  induction s generalizing vals with
  | nil => simp [fillSpec]
  | cons c s ih =>
    cases hp : p c
    · simp only [fillSpec, hp, Bool.false_eq_true, if_false, List.mem_cons]
      rintro c' (rfl | h)
      · exact hf c (by simp) hp
      · exact ih vals (by simpa [List.filter_cons, hp] using hlen) hv (fun c hc => hf c (by simp [hc])) c' h
    · cases vals with
      | nil => simp [hp] at hlen
      | cons v vs =>
        simp only [fillSpec, hp, if_true, List.mem_cons]
        rintro c' (rfl | h)
        · exact hv _ (by simp)
        · exact ih vs (by simpa [List.filter_cons, hp] using hlen) (fun v hv' => hv v (by simp [hv']))
            (fun c hc => hf c (by simp [hc])) c' h

theorem fillSpec_keep (p : Cell → Bool) (f : Cell → Cell) (s vals : List Cell) (i : Nat) (c : Cell)
    (hi : s[i]? = some c) (hp : p c = false) : (fillSpec p f s vals)[i]? = some (f c) := by
  induction s generalizing vals i with
  | nil => simp at hi
  | cons c0 s ih =>
    cases i with
    | zero =>
      simp only [List.getElem?_cons_zero, Option.some.injEq] at hi
      subst hi; simp [fillSpec, hp]
    | succ i =>
      simp only [List.getElem?_cons_succ] at hi
      cases hp0 : p c0
      · simp [fillSpec, hp0, ih vals i hi]
      · cases vals <;> simp [fillSpec, hp0, ih _ i hi]

theorem fillSpec_fill (p : Cell → Bool) (f : Cell → Cell) (s vals : List Cell) (i : Nat) (c : Cell)
    (hi : s[i]? = some c) (hp : p c = true) (hlen : (s.filter p).length ≤ vals.length) :
    ∃ v ∈ vals, (fillSpec p f s vals)[i]? = some v := by
  induction s generalizing vals i with
  | nil => simp at hi
  | cons c0 s ih =>
    cases i with
    | zero =>
      simp only [List.getElem?_cons_zero, Option.some.injEq] at hi
      subst hi
      cases vals with
      | nil => simp [hp] at hlen
      | cons v vs => exact ⟨v, by simp, by simp [fillSpec, hp]⟩
    | succ i =>
      simp only [List.getElem?_cons_succ] at hi
      cases hp0 : p c0
      · obtain ⟨v, hv, h⟩ := ih vals i hi (by simpa [List.filter_cons, hp0] using hlen)
        exact ⟨v, hv, by simp [fillSpec, hp0, h]⟩
      · cases vals with
        | nil => simp [hp0] at hlen
        | cons v0 vs =>
          obtain ⟨v, hv, h⟩ := ih vs i hi (by simpa [List.filter_cons, hp0] using hlen)
          exact ⟨v, by simp [hv], by simp [fillSpec, hp0, h]⟩


/-! ## the per-column functions the three helpers compute -/

/-- the code `transform_data` gives the original value `i` (`size` = number of supported values) -/
def code (support : List Bool) (size i : Nat) : Nat :=
  if maskAt support i then maskSum (support.take i) else size

/-- the size of the compressed attribute: `#supported`, plus one bucket when something is merged -/
def newSize (support : List Bool) : Nat :=
  if maskSum support < support.length then maskSum support + 1 else maskSum support

/-- the loop body building `mapping` (hand copy of the generated inner step) -/
def mapStep (support : List Bool) (size : Nat) (st : List (Nat × Nat) × Nat) (i : Nat) : List (Nat × Nat) × Nat :=
  if maskAt support i then (dictSet (dictSet st.1 i size) i st.2, st.2 + 1) else (dictSet st.1 i size, st.2)

def mappingOf (support : List Bool) (size : Nat) : List (Nat × Nat) :=
  (List.range support.length).map (fun i => (i, code support size i))

def transformCol (support : List Bool) (s : List Cell) : List Cell :=
  seriesMap s (mappingOf support (maskSum support))

def reverseCol (choice : Nat → List Nat → Nat → List Nat) (n : Nat) (support : List Bool) (s : List Cell) : List Cell :=
  fillSpec (fun c => decide (c = some (maskSum support))) (fun c => c.bind (fun v => (npWhere support)[v]?)) s
    (if (npWhere (maskNot support)).length = 0 then []
     else natsToCells (choice n (npWhere (maskNot support)) (maskSum (seriesEq s (maskSum support)))))

theorem foldl_mapStep (support : List Bool) (size n : Nat) :
    (List.range n).foldl (mapStep support size) ([], 0)
      = ((List.range n).map (fun i => (i, code support size i)), maskSum (support.take n)) := by
  induction n with
  | zero => simp [maskSum]
  | succ n ih =>
    have hk : n ∉ dictKeys ((List.range n).map (fun i => (i, code support size i))) := by
      simp [dictKeys, List.map_map, Function.comp_def]
    rw [List.range_succ, List.foldl_append, ih]
    simp only [List.foldl_cons, List.foldl_nil, mapStep, List.map_append, List.map_cons, List.map_nil,
      maskSum_take_succ, dictSet_dictSet]
    rw [dictSet_not_mem _ _ _ hk, dictSet_not_mem _ _ _ hk]
    cases h : maskAt support n <;> simp [code, h]

theorem dictFind_mappingOf (support : List Bool) (size v : Nat) (hv : v < support.length) :
    dictFind (mappingOf support size) v = some (code support size v) := by
  simp [mappingOf, dictFind_map, hv]

theorem maskSum_lt_of_false (m : List Bool) (v : Nat) (h : m[v]? = some false) : maskSum m < m.length := by
  induction m generalizing v with
  | nil => simp at h
  | cons b m ih =>
    cases v with
    | zero =>
      simp only [List.getElem?_cons_zero, Option.some.injEq] at h
      subst h
      have := maskSum_le m
      simp only [maskSum, List.length_cons] at this ⊢
      rw [List.count_cons_of_ne (by decide)]; omega
    | succ v =>
      simp only [List.getElem?_cons_succ] at h
      have := ih v h
      simp only [maskSum, List.length_cons, List.count_cons] at this ⊢
      split <;> omega

theorem newSize_le (support : List Bool) : newSize support ≤ maskSum support + 1 := by
  unfold newSize; split <;> omega

theorem maskSum_le_newSize (support : List Bool) : maskSum support ≤ newSize support := by
  unfold newSize; split <;> omega

theorem code_lt (support : List Bool) (v : Nat) (hv : v < support.length) :
    code support (maskSum support) v < newSize support := by
  unfold code
  cases h : maskAt support v
  · have h1 : support[v]? = some false := by
      have : support[v]? = some support[v] := by simp [hv]
      rw [this]; congr 1
      simp only [maskAt, List.getD_eq_getElem?_getD, this, Option.getD_some] at h
      exact h
    have := maskSum_lt_of_false support v h1
    simp [newSize, this]
  · have h1 := (maskAt_eq_true support v).1 h
    have := maskSum_take_lt support v h1
    have := maskSum_le_newSize support
    simp only [if_true]; omega

theorem transformCol_length (support : List Bool) (s : List Cell) : (transformCol support s).length = s.length := by
  simp [transformCol, seriesMap]

theorem transformCol_get (support : List Bool) (s : List Cell) (i v : Nat) (hi : s[i]? = some (some v))
    (hv : v < support.length) : (transformCol support s)[i]? = some (some (code support (maskSum support) v)) := by
  simp [transformCol, seriesMap, hi, dictFind_mappingOf _ _ _ hv]

theorem transformCol_in (support : List Bool) (s : List Cell) (h : ColIn support.length s) :
    ColIn (newSize support) (transformCol support s) := by
  intro c hc
  simp only [transformCol, seriesMap, List.mem_map] at hc
  obtain ⟨c0, hc0, rfl⟩ := hc
  obtain ⟨v, rfl, hv⟩ := h c0 hc0
  exact ⟨code support (maskSum support) v, by simp [dictFind_mappingOf _ _ _ hv], code_lt support v hv⟩

theorem npWhere_get (m : List Bool) (k : Nat) (hk : k < maskSum m) :
    ∃ w, (npWhere m)[k]? = some w ∧ m[w]? = some true := by
  have hl : k < (npWhere m).length := by simpa [npWhere, length_whereFrom] using hk
  refine ⟨(npWhere m)[k], by simp [hl], ?_⟩
  have hmem : (npWhere m)[k] ∈ whereFrom 0 m := List.getElem_mem hl
  rw [mem_whereFrom] at hmem
  obtain ⟨j, hj, hm⟩ := hmem
  have hj' : (npWhere m)[k] = j := by omega
  rw [hj']; exact hm

theorem lt_of_getElem?_eq_some {β : Type} (l : List β) (i : Nat) (b : β) (h : l[i]? = some b) : i < l.length := by
  rcases List.getElem?_eq_some_iff.1 h with ⟨hl, _⟩
  exact hl

theorem count_map_true (p : Cell → Bool) (s : List Cell) : (s.map p).count true = (s.filter p).length := by
  induction s with
  | nil => rfl
  | cons c s ih => cases h : p c <;> simp [h, ih]

theorem reverseCol_length (choice : Nat → List Nat → Nat → List Nat) (n : Nat) (support : List Bool) (s : List Cell) :
    (reverseCol choice n support s).length = s.length := by
  simp [reverseCol, length_fillSpec]

/-- the values handed to the first `.loc` assignment of `reverse_data` are enough for the cells of the merged bucket -/
theorem reverse_vals_length (choice : Nat → List Nat → Nat → List Nat) (hadm : Admissible choice) (n : Nat)
    (support : List Bool) (s : List Cell) (hs : ColIn (newSize support) s) :
    (s.filter (fun c => decide (c = some (maskSum support)))).length ≤
      (if (npWhere (maskNot support)).length = 0 then ([] : List Cell)
       else natsToCells (choice n (npWhere (maskNot support)) (maskSum (seriesEq s (maskSum support))))).length := by
  split
  · rename_i h0
    have h1 : maskSum (maskNot support) = 0 := by simpa [npWhere, length_whereFrom] using h0
    have h2 := maskSum_add_not support
    have h3 : newSize support = maskSum support := by unfold newSize; split <;> omega
    have : s.filter (fun c => decide (c = some (maskSum support))) = [] := by
      rw [List.filter_eq_nil_iff]
      intro c hc
      obtain ⟨v, rfl, hv⟩ := hs c hc
      simp; omega
    simp [this]
  · rename_i h0
    have hne : npWhere (maskNot support) ≠ [] := by
      intro e; exact h0 (by simp [e])
    have := (hadm n (npWhere (maskNot support)) (maskSum (seriesEq s (maskSum support))) hne).1
    rw [natsToCells, List.length_map, this]
    simp [maskSum, seriesEq, count_map_true]

theorem reverse_vals_mem (choice : Nat → List Nat → Nat → List Nat) (hadm : Admissible choice) (n : Nat)
    (support : List Bool) (s : List Cell) :
    ∀ c ∈ (if (npWhere (maskNot support)).length = 0 then ([] : List Cell)
       else natsToCells (choice n (npWhere (maskNot support)) (maskSum (seriesEq s (maskSum support))))),
      ∃ w, c = some w ∧ w < support.length ∧ support[w]? = some false := by
  intro c hc
  split at hc
  · simp at hc
  · rename_i h0
    have hne : npWhere (maskNot support) ≠ [] := by
      intro e; exact h0 (by simp [e])
    have h2 := (hadm n (npWhere (maskNot support)) (maskSum (seriesEq s (maskSum support))) hne).2
    simp only [natsToCells, List.mem_map] at hc
    obtain ⟨w, hw, rfl⟩ := hc
    have := h2 w hw
    rw [npWhere, mem_whereFrom] at this
    obtain ⟨j, hj, hm⟩ := this
    have hjw : w = j := by omega
    subst hjw
    have hf := (maskNot_getElem? support w).1 hm
    exact ⟨w, rfl, lt_of_getElem?_eq_some _ _ _ hf, hf⟩

/-- a code below `#supported` goes back to the supported value with that rank -/
theorem reverseCol_supported (choice : Nat → List Nat → Nat → List Nat) (n : Nat) (support : List Bool) (s : List Cell)
    (i k : Nat) (hi : s[i]? = some (some k)) (hk : k < maskSum support) :
    ∃ w, (npWhere support)[k]? = some w ∧ (reverseCol choice n support s)[i]? = some (some w) ∧
      support[w]? = some true ∧ w < support.length := by
  obtain ⟨w, hw, hm⟩ := npWhere_get support k hk
  refine ⟨w, hw, ?_, hm, lt_of_getElem?_eq_some _ _ _ hm⟩
  have hp : (fun c : Cell => decide (c = some (maskSum support))) (some k) = false := by
    simp; omega
  have := fillSpec_keep (fun c : Cell => decide (c = some (maskSum support))) (fun c => c.bind (fun v => (npWhere support)[v]?)) s
    (if (npWhere (maskNot support)).length = 0 then []
     else natsToCells (choice n (npWhere (maskNot support)) (maskSum (seriesEq s (maskSum support))))) i (some k) hi hp
  simpa [reverseCol, hw] using this

/-- a cell of the merged bucket receives one of the merged (unsupported) original values -/
theorem reverseCol_merged (choice : Nat → List Nat → Nat → List Nat) (hadm : Admissible choice) (n : Nat)
    (support : List Bool) (s : List Cell) (hs : ColIn (newSize support) s)
    (i : Nat) (hi : s[i]? = some (some (maskSum support))) :
    ∃ w, (reverseCol choice n support s)[i]? = some (some w) ∧ w < support.length ∧ support[w]? = some false := by
  obtain ⟨c, hc, h⟩ := fillSpec_fill (fun c => decide (c = some (maskSum support)))
    (fun c => c.bind (fun v => (npWhere support)[v]?)) s _ i (some (maskSum support)) hi (by simp)
    (reverse_vals_length choice hadm n support s hs)
  obtain ⟨w, rfl, hw, hf⟩ := reverse_vals_mem choice hadm n support s c hc
  exact ⟨w, by simpa [reverseCol] using h, hw, hf⟩

theorem reverseCol_in (choice : Nat → List Nat → Nat → List Nat) (hadm : Admissible choice) (n : Nat)
    (support : List Bool) (s : List Cell) (hs : ColIn (newSize support) s) :
    ColIn support.length (reverseCol choice n support s) := by
  intro c hc
  refine fillSpec_all _ _ (fun c => ∃ v, c = some v ∧ v < support.length) s _
    (reverse_vals_length choice hadm n support s hs) ?_ ?_ c hc
  · intro c hc
    obtain ⟨w, rfl, hw, _⟩ := reverse_vals_mem choice hadm n support s c hc
    exact ⟨w, rfl, hw⟩
  · intro c hc hp
    obtain ⟨k, rfl, hk⟩ := hs c hc
    have hne : k ≠ maskSum support := by simpa using hp
    have hk' : k < maskSum support := by have := newSize_le support; omega
    obtain ⟨w, hw, hm⟩ := npWhere_get support k hk'
    exact ⟨w, by simp [hw], lt_of_getElem?_eq_some _ _ _ hm⟩

/-- `reverse ∘ transform` is the identity on supported values -/
theorem reverse_transform_supported (choice : Nat → List Nat → Nat → List Nat) (n : Nat) (support : List Bool)
    (s : List Cell) (i v : Nat) (hi : s[i]? = some (some v)) (hv : support[v]? = some true) :
    (reverseCol choice n support (transformCol support s))[i]? = some (some v) := by
  have hlt := lt_of_getElem?_eq_some _ _ _ hv
  have h1 := transformCol_get support s i v hi hlt
  have hc : code support (maskSum support) v = maskSum (support.take v) := by
    simp [code, (maskAt_eq_true support v).2 hv]
  rw [hc] at h1
  obtain ⟨w, hw, hr, _, _⟩ := reverseCol_supported choice n support _ i _ h1 (maskSum_take_lt support v hv)
  have := whereFrom_rank 0 support v hv
  rw [npWhere, this] at hw
  simp only [Nat.zero_add, Option.some.injEq] at hw
  subst hw; exact hr

theorem locSet_nil_vals (s : List Cell) (m : List Bool) : locSet s m [] = s := by
  induction s generalizing m with
  | nil => cases m <;> simp [locSet]
  | cons c s ih =>
    cases m with
    | nil => simp [locSet]
    | cons b m => cases b <;> simp [locSet, ih]

/-- the two `.loc` assignments of `reverse_data` on one column are `reverseCol` of that column -/
theorem locSet_pair_eq (choice : Nat → List Nat → Nat → List Nat) (n : Nat) (support : List Bool) (df : Frame) (col : Attr)
    (df1 : Frame)
    (h1 : df1 = if (npWhere (maskNot support)).length = 0 then df
      else Frame.locSet df (seriesEq (df.get col) (maskSum support)) col
        (natsToCells (choice n (npWhere (maskNot support)) (maskSum (seriesEq (df.get col) (maskSum support)))))) :
    Frame.locSet df1 (maskNot (seriesEq (df.get col) (maskSum support))) col
        (takeCells (npWhere support) (Frame.locGet df1 (maskNot (seriesEq (df.get col) (maskSum support))) col))
      = Frame.set df col (reverseCol choice n support (df.get col)) := by
  subst h1
  have key := fun vals => locSet_locSet_eq (fun c : Cell => decide (c = some (maskSum support)))
    (fun c => c.bind (fun v => (npWhere support)[v]?)) (df.get col) vals
  by_cases h0 : (npWhere (maskNot support)).length = 0
  · simp only [h0, if_true, reverseCol]
    rw [← key [], locSet_nil_vals]
    simp [Frame.locSet, Frame.locGet, takeCells, seriesEq]
  · simp only [h0, if_false, reverseCol]
    rw [← key]
    have := Frame.locSet_locSet df col (seriesEq (df.get col) (maskSum support))
      (maskNot (seriesEq (df.get col) (maskSum support)))
      (natsToCells (choice n (npWhere (maskNot support)) (maskSum (seriesEq (df.get col) (maskSum support)))))
      (takeCells (npWhere support))
    rw [this]
    simp [takeCells, seriesEq]

theorem length_maskSelect_map {β : Type} (y : List β) (p : β → Bool) :
    (maskSelect y (y.map p)).length = maskSum (y.map p) := by
  induction y with
  | nil => rfl
  | cons x y ih => cases h : p x <;> simp [maskSelect, maskSum, h] <;> simpa [maskSum] using ih

theorem updLast_append {β : Type} (l : List β) (x : β) (f : β → β) : updLast (l ++ [x]) f = l ++ [f x] := by
  simp [updLast]

theorem dictFind_map_pair {β K V : Type} [DecidableEq K] (l : List β) (key : β → K) (val : β → V)
    (hnd : (l.map key).Nodup) (x : β) (hx : x ∈ l) :
    dictFind (l.map (fun x => (key x, val x))) (key x) = some (val x) := by
  induction l with
  | nil => simp at hx
  | cons a l ih =>
    simp only [List.map_cons, List.nodup_cons] at hnd
    simp only [List.mem_cons] at hx
    rcases hx with rfl | hx
    · simp [dictFind]
    · have hne : key a ≠ key x := fun e => hnd.1 (e ▸ List.mem_map_of_mem hx)
      simp [dictFind, hne, ih hnd.2 hx]

/-! ## edge cases, per column -/

theorem maskAt_false_of_maskSum_zero (m : List Bool) (h : maskSum m = 0) (v : Nat) : maskAt m v = false := by
  cases hv : maskAt m v
  · rfl
  · have := maskSum_take_lt m v ((maskAt_eq_true m v).1 hv)
    omega

theorem all_true_of_maskSum_eq (m : List Bool) (h : maskSum m = m.length) (v : Nat) (hv : v < m.length) :
    m[v]? = some true := by
  have : m[v]? = some m[v] := by simp [hv]
  cases hb : m[v]
  · have := maskSum_lt_of_false m v (by rw [this, hb]); omega
  · rw [this, hb]

theorem maskSum_take_of_all (m : List Bool) (h : maskSum m = m.length) (v : Nat) (hv : v ≤ m.length) :
    maskSum (m.take v) = v := by
  have h1 : maskSum m = maskSum (m.take v) + maskSum (m.drop v) := by
    have := List.count_append (a := true) (l₁ := m.take v) (l₂ := m.drop v)
    rw [List.take_append_drop] at this
    exact this
  have h2 := maskSum_le (m.take v)
  have h3 := maskSum_le (m.drop v)
  simp only [List.length_take, List.length_drop] at h2 h3
  omega

/-- everything merged: one bucket, every original value is coded `0` -/
theorem code_fully_merged (m : List Bool) (h : maskSum m = 0) (v : Nat) : code m (maskSum m) v = 0 := by
  simp [code, maskAt_false_of_maskSum_zero m h v, h]

theorem newSize_fully_merged (m : List Bool) (h : maskSum m = 0) (hpos : 0 < m.length) : newSize m = 1 := by
  simp [newSize, h, hpos]

/-- everything supported: no extra bucket, codes are the values themselves -/
theorem newSize_all_supported (m : List Bool) (h : maskSum m = m.length) : newSize m = m.length := by
  simp [newSize, h]

theorem code_all_supported (m : List Bool) (h : maskSum m = m.length) (v : Nat) (hv : v < m.length) :
    code m (maskSum m) v = v := by
  simp [code, (maskAt_eq_true m v).2 (all_true_of_maskSum_eq m h v hv), maskSum_take_of_all m h v (Nat.le_of_lt hv)]

theorem npWhere_all_supported (m : List Bool) (h : maskSum m = m.length) (v : Nat) (hv : v < m.length) :
    (npWhere m)[v]? = some v := by
  have := whereFrom_rank 0 m v (all_true_of_maskSum_eq m h v hv)
  rw [maskSum_take_of_all m h v (Nat.le_of_lt hv)] at this
  simpa [npWhere] using this

/-- an attribute of original size 1 keeps size 1, supported or not -/
theorem newSize_size_one (b : Bool) : newSize [b] = 1 := by cases b <;> rfl

theorem newSize_size_zero : newSize [] = 0 := rfl

/-! ## a loop over the attributes that rewrites one column and one domain entry per step -/

theorem foldl_cols {S X : Type} (nd : S → Dom) (fr : S → Frame) (aux : S → X) (step : S → Attr → S) (g : Attr → Nat)
    (Fcol : X → Attr → List Cell → List Cell)
    (hnd : ∀ s a, nd (step s a) = dictSet (nd s) a (g a))
    (hfr : ∀ s a, fr (step s a) = Frame.set (fr s) a (Fcol (aux s) a (Frame.get (fr s) a))) :
    ∀ (as : List Attr) (s : S), as.Nodup → (∀ a ∈ as, a ∉ dictKeys (nd s)) →
      nd (as.foldl step s) = nd s ++ as.map (fun a => (a, g a)) ∧
      Frame.labels (fr (as.foldl step s)) = Frame.labels (fr s) ∧
      (∀ c, c ∉ as → Frame.get (fr (as.foldl step s)) c = Frame.get (fr s) c) ∧
      (∀ c ∈ as, c ∈ Frame.labels (fr s) → ∃ x, Frame.get (fr (as.foldl step s)) c = Fcol x c (Frame.get (fr s) c)) := by
  intro as
  induction as with
  | nil => intro s _ _; simp
  | cons a as ih =>
    intro s hnod hdis
    have hna : a ∉ as := (List.nodup_cons.1 hnod).1
    have hnod' : as.Nodup := (List.nodup_cons.1 hnod).2
    have hka : a ∉ dictKeys (nd s) := hdis a (by simp)
    have hdis' : ∀ b ∈ as, b ∉ dictKeys (nd (step s a)) := by
      intro b hb
      rw [hnd, dictSet_not_mem _ _ _ hka, dictKeys_append]
      simp only [dictKeys, List.map_cons, List.map_nil, List.mem_append, List.mem_singleton, not_or]
      exact ⟨hdis b (by simp [hb]), fun e => hna (e ▸ hb)⟩
    obtain ⟨h1, h2, h3, h4⟩ := ih (step s a) hnod' hdis'
    simp only [List.foldl_cons]
    refine ⟨?_, ?_, ?_, ?_⟩
    · rw [h1, hnd, dictSet_not_mem _ _ _ hka]; simp
    · rw [h2, hfr, Frame.labels_set]
    · intro c hc
      simp only [List.mem_cons, not_or] at hc
      rw [h3 c hc.2, hfr, Frame.get_set_ne _ _ _ _ hc.1]
    · intro c hc hl
      by_cases hca : c = a
      · subst hca
        exact ⟨aux s, by rw [h3 c hna, hfr, Frame.get_set_self _ _ _ hl]⟩
      · have hc' : c ∈ as := by
          simp only [List.mem_cons] at hc
          rcases hc with h | h
          · exact absurd h hca
          · exact h
        obtain ⟨x, hx⟩ := h4 c hc' (by rw [hfr, Frame.labels_set]; exact hl)
        exact ⟨x, by rw [hx, hfr, Frame.get_set_ne _ _ _ _ hca]⟩

end PGM.MstDom
