import PGM.Proofs.LossFactor
import PGM.Proofs.LossAlg
/-!
# Helpers for C04 (5): `marginalLoss` as a double sum; the per-measurement identities
-/
set_option linter.unusedSectionVars false
set_option linter.unusedVariables false
namespace PGM.LossAux
open PGM PGM.JT PGM.Loss PGM.Factor
variable {K : Type} [Field K] [LinearOrder K] [IsStrictOrderedRing K]

/-! ### mirror of the specification-side definitions of `LossSem` -/

def xOf (m : Meas (PlainOf K)) (f : Factor (PlainOf K)) : List K := vals (f.projectSum m.proj)
def qx (m : Meas (PlainOf K)) (x : List K) : List K := m.Q.map (fun row => vdot (row.map (·.v)) x)
def lossM (m : Meas (PlainOf K)) (f : Factor (PlainOf K)) : K :=
  (1 / 2) * ((List.zipWith (fun q y => (m.noise.v)⁻¹ * (q - y.v)) (qx m (xOf m f)) m.y).map (fun r => r * r)).sum
def quadM (m : Meas (PlainOf K)) (f : Factor (PlainOf K)) : K :=
  (1 / 2) * (((qx m (xOf m f)).map (fun q => (m.noise.v)⁻¹ * q)).map (fun r => r * r)).sum

structure MeasOK (d : Dom) (m : Meas (PlainOf K)) : Prop where
  proj_nodup : m.proj.Nodup
  proj_sub : ∀ a ∈ m.proj, a ∈ d.attrs
  rows : ∀ row ∈ m.Q, row.length = d.sizeOf m.proj
  ylen : m.y.length = m.Q.length
  noise_pos : 0 < m.noise.v

structure VecOK (d : Dom) (cliques : List Clique) (mu : CliqueVec (PlainOf K)) : Prop where
  dom_wf : d.WF
  cliques_nodup : cliques.Nodup
  clique_ok : ∀ c ∈ cliques, c.Nodup ∧ ∀ a ∈ c, a ∈ d.attrs
  keys : mu.map Prod.fst = cliques
  tables : ∀ p ∈ mu, p.2.WF ∧ p.2.dom = d.project p.1

def cvAdd (a b : CliqueVec (PlainOf K)) : CliqueVec (PlainOf K) := a.map (fun p => (p.1, p.2.add (b.get p.1)))
def cvDot (a b : CliqueVec (PlainOf K)) : K := (a.map (fun p => vdot (vals p.2) (vals (b.get p.1)))).sum
def cvNormSq (a : CliqueVec (PlainOf K)) : K := cvDot a a

/-! ### `marginalLoss` unfolded -/

/-- the model's loss of one measurement -/
def lossS (m : Meas (PlainOf K)) (f : Factor (PlainOf K)) : PlainOf K :=
  Scalar.mul (Scalar.div Scalar.one (Scalar.add Scalar.one Scalar.one)) (dot (residual m f) (residual m f))

/-- the model's gradient factor of one measurement -/
def gradF (m : Meas (PlainOf K)) (f : Factor (PlainOf K)) : Factor (PlainOf K) :=
  Factor.mk' (f.dom.project m.proj) ⟨(f.dom.project m.proj).shape,
    ((matTVec m.Q (f.dom.project m.proj).size (residual m f)).map
      (fun v => Scalar.mul (Scalar.div Scalar.one m.noise) v)).toArray⟩

def mineOf (d : Dom) (cliques : List Clique) (meas : List (Meas (PlainOf K))) (cl : Clique) :
    List (Meas (PlainOf K)) :=
  meas.filter (fun m => groupOf d cliques m.proj == some cl)

/-- accumulated gradient of a clique -/
def gradAcc (mine : List (Meas (PlainOf K))) (f g0 : Factor (PlainOf K)) : Factor (PlainOf K) :=
  mine.foldl (fun g m => g.iadd (gradF m f)) g0

theorem inner_fold (mine : List (Meas (PlainOf K))) (f : Factor (PlainOf K)) (a : PlainOf K)
    (g0 : Factor (PlainOf K)) :
    mine.foldl (fun (lg : PlainOf K × Factor (PlainOf K)) m =>
        (Scalar.add lg.1 (lossS m f), lg.2.iadd (gradF m f))) (a, g0)
      = (⟨a.v + (mine.map (fun m => (lossS m f).v)).sum⟩, gradAcc mine f g0) := by
  induction mine generalizing a g0 with
  | nil => simp [gradAcc]
  | cons m mine ih =>
    simp only [List.foldl_cons, ih, List.map_cons, List.sum_cons, gradAcc, add_v, add_assoc]

theorem marginalLoss_fold (d : Dom) (cliques : List Clique) (meas : List (Meas (PlainOf K)))
    (mu : CliqueVec (PlainOf K)) (a : PlainOf K) (L : CliqueVec (PlainOf K)) :
    mu.foldl (fun (acc : PlainOf K × CliqueVec (PlainOf K)) (e : Clique × Factor (PlainOf K)) =>
      let (cl, f) := e
      let mine := meas.filter (fun m => groupOf d cliques m.proj == some cl)
      let (loss, g) := mine.foldl (fun (lg : PlainOf K × Factor (PlainOf K)) m =>
        let c := Scalar.div Scalar.one m.noise
        let diff := residual m f
        let loss := Scalar.add lg.1 (Scalar.mul (Scalar.div Scalar.one (Scalar.add Scalar.one Scalar.one)) (dot diff diff))
        let mu2dom := f.dom.project m.proj
        let grad := (matTVec m.Q mu2dom.size diff).map (fun v => Scalar.mul c v)
        let gf : Factor (PlainOf K) := Factor.mk' mu2dom ⟨mu2dom.shape, grad.toArray⟩
        (loss, lg.2.iadd gf)) (acc.1, Factor.zeros f.dom)
      (loss, acc.2 ++ [(cl, g)])) (a, L)
    = (⟨a.v + (mu.map (fun e => ((mineOf d cliques meas e.1).map (fun m => (lossS m e.2).v)).sum)).sum⟩,
       L ++ mu.map (fun e => (e.1, gradAcc (mineOf d cliques meas e.1) e.2 (Factor.zeros e.2.dom)))) := by
  induction mu generalizing a L with
  | nil => simp
  | cons e mu ih =>
    obtain ⟨cl, f⟩ := e
    rw [List.foldl_cons]
    have hstep := inner_fold (mineOf d cliques meas cl) f a (Factor.zeros f.dom)
    simp only [lossS, gradF, mineOf] at hstep
    simp only [hstep]
    rw [ih]
    simp only [List.map_cons, List.sum_cons, add_assoc, List.append_assoc, List.singleton_append,
      lossS, mineOf]

theorem marginalLoss_eq (d : Dom) (cliques : List Clique) (meas : List (Meas (PlainOf K)))
    (mu : CliqueVec (PlainOf K)) :
    marginalLoss d cliques meas mu
      = (⟨(mu.map (fun e => ((mineOf d cliques meas e.1).map (fun m => (lossS m e.2).v)).sum)).sum⟩,
         mu.map (fun e => (e.1, gradAcc (mineOf d cliques meas e.1) e.2 (Factor.zeros e.2.dom)))) := by
  unfold marginalLoss
  rw [marginalLoss_fold]
  simp

end PGM.LossAux
