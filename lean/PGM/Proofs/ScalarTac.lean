import Mathlib.Tactic.Ring
import Mathlib.Tactic.FieldSimp
import Mathlib.Tactic.NormNum
import Mathlib.Tactic.Linarith
/-!
# `pgm_arith` — closing tactic for scalar identities over generated definitions

The generated scalar definitions contain decimal literals (`(1.0 : ℝ)`, `(0.5 : ℝ)`, …).  `norm_num1`
first rewrites those to rationals (with this Mathlib, `ring` on a goal that still contains `(1.0 : ℝ)`
produces a term the kernel rejects), then `ring1` / `field_simp; ring1` / `norm_num` are tried in turn (`ring1`, not `ring`: the latter
"succeeds" with a `ring_nf` normal form when it cannot close the goal).
Use as `simp only [defs, Bool.false_eq_true, reduceIte] <;> pgm_arith` so that nothing depends on
the syntactic shape of the definitions.
-/

/-- normalise decimal literals, then `ring`, `field_simp; ring`, or `norm_num` -/
macro "pgm_arith" : tactic =>
  `(tactic| ((try norm_num1) <;>
      first
        | ring1
        | (field_simp <;> ring1)
        | (norm_num <;> ring1)
        | norm_num))
