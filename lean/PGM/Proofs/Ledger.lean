import PGM.Generated.SlicesR
import PGM.Proofs.ScalarTac
import Mathlib.Tactic.Positivity
/-!
# Helper lemmas for the privacy ledgers of `PGM/Properties/C05.lean`

* list-sum and fold lemmas that mention no generated definition;
* "square" specifications of the generated noise scales / selection budgets
  (`mst_sigma rho ^ 2 = 3 / (2 rho)` …), each proved by
  `unfold …; simp (disch := positivity) only [mul_pow, div_pow, Real.sq_sqrt]; pgm_arith`
  so that only the mathematical value of the generated expression matters.
-/
set_option linter.unusedSimpArgs false
set_option linter.unnecessarySeqFocus false
set_option linter.unreachableTactic false
set_option linter.unusedTactic false
namespace PGM.Ledger
open PGM.Gen.R

/-! ### lists and folds -/

theorem sum_map_div_const (ws : List ℝ) (f : ℝ → ℝ) (c : ℝ) :
    (ws.map (fun w => f w / c)).sum = (ws.map f).sum / c := by
  induction ws with
  | nil => simp
  | cons w ws ih => simp only [List.map_cons, List.sum_cons, ih, add_div]

/-- if every term `g w` (for `w ∈ ws`) equals `w² / c`, the sum is `(Σ w²) / c` -/
theorem sum_map_eq_sq_div (ws : List ℝ) (g : ℝ → ℝ) (c : ℝ) (hg : ∀ w ∈ ws, g w = w ^ 2 / c) :
    (ws.map g).sum = (ws.map (· ^ 2)).sum / c := by
  rw [← sum_map_div_const ws (· ^ 2) c]
  exact congrArg List.sum (List.map_congr_left hg)

/-- loop invariant for `List.foldl` -/
theorem foldl_inv {σ β : Type} (P : σ → Prop) (f : σ → β → σ) (l : List β) (s0 : σ)
    (h0 : P s0) (hs : ∀ s b, P s → P (f s b)) : P (l.foldl f s0) := by
  induction l generalizing s0 with
  | nil => simpa using h0
  | cons b l ih => exact ih _ (hs _ _ h0)

theorem natCast_sub_one_pos (r : ℕ) (hr : 2 ≤ r) : (0 : ℝ) < (r : ℝ) - 1 := by
  have : (2 : ℝ) ≤ r := by exact_mod_cast hr
  linarith

/-! ### squares of the generated scales -/

/-- normalise `sqrt _ ^ 2` under positivity side conditions, then close by arithmetic -/
macro "pgm_sq" : tactic =>
  `(tactic| ((try norm_num1) <;>
      (try simp (disch := first | positivity | (norm_num1 <;> positivity)) only
        [mul_pow, div_pow, Real.sq_sqrt]) <;> pgm_arith))

theorem mst_sigma_pos (rho : ℝ) (hrho : 0 < rho) : 0 < mst_sigma rho := by
  unfold mst_sigma; positivity

theorem mst_sigma_sq (rho : ℝ) (hrho : 0 < rho) : mst_sigma rho ^ 2 = 3 / (2 * rho) := by
  unfold mst_sigma; pgm_sq

theorem mst_select_eps_sq (rho r : ℝ) (hrho : 0 < rho) (hr : 0 < r - 1) :
    mst_select_eps (mst_select_rho rho) r ^ 2 = 8 * (rho / 3) / (r - 1) := by
  unfold mst_select_eps mst_select_rho; pgm_sq

theorem ada_select_eps_sq (rho r : ℝ) (hrho : 0 < rho) (hr : 0 < r - 1) :
    ada_select_eps (ada_select_rho rho) r ^ 2 = 8 * rho / (r - 1) := by
  unfold ada_select_eps ada_select_rho; pgm_sq

theorem ada_step1_sigma_pos (rho n : ℝ) (hrho : 0 < rho) (hn : 0 < n) : 0 < ada_step1_sigma rho n := by
  unfold ada_step1_sigma; positivity

theorem ada_step1_sigma_sq (rho n : ℝ) (hrho : 0 < rho) (hn : 0 < n) :
    ada_step1_sigma rho n ^ 2 = n / (2 * rho) := by
  unfold ada_step1_sigma; pgm_sq

theorem ada_step3_sigma_pos (n rho : ℝ) (hrho : 0 < rho) (hn : 0 < n) : 0 < ada_step3_sigma n rho := by
  unfold ada_step3_sigma; positivity

theorem ada_step3_sigma_sq (n rho : ℝ) (hrho : 0 < rho) (hn : 0 < n) :
    ada_step3_sigma n rho ^ 2 = n / (2 * rho) := by
  unfold ada_step3_sigma; pgm_sq

theorem mwem_gau_sigma_pos (alpha rpr : ℝ) (ha : 0 < alpha) (hr : 0 < rpr) : 0 < mwem_gau_sigma alpha rpr := by
  unfold mwem_gau_sigma; positivity

theorem mwem_gau_sigma_sq (alpha rpr : ℝ) (ha : 0 < alpha) (hr : 0 < rpr) :
    mwem_gau_sigma alpha rpr ^ 2 = 1 / (2 * alpha * rpr) := by
  unfold mwem_gau_sigma; pgm_sq

theorem mwem_gau_exp_eps_sq (alpha rpr : ℝ) (ha : 0 < 1 - alpha) (hr : 0 < rpr) :
    mwem_gau_exp_eps alpha rpr ^ 2 = 8 * (1 - alpha) * rpr := by
  unfold mwem_gau_exp_eps; pgm_sq

theorem mwem_gau_msens_sq (bounded : Bool) :
    mwem_gau_msens bounded ^ 2 = if bounded then 2 else 1 := by
  cases bounded <;> simp only [mwem_gau_msens, Bool.false_eq_true, reduceIte] <;> pgm_sq

theorem mwem_gau_msens_pos (bounded : Bool) : 0 < mwem_gau_msens bounded := by
  cases bounded <;> simp only [mwem_gau_msens, Bool.false_eq_true, reduceIte] <;> positivity

theorem sqrt_two_sq : Real.sqrt 2 ^ 2 = 2 := Real.sq_sqrt (by norm_num)

theorem aim_sigma0_sq (rounds rho : ℝ) (hrho : 0 < rho) (hrounds : 0 < rounds) :
    aim_sigma0 rounds rho ^ 2 = rounds / (1.8 * rho) := by
  unfold aim_sigma0; pgm_sq

theorem aim_sigma_last_sq (rem : ℝ) (hrem : 0 ≤ rem) :
    aim_sigma_last rem ^ 2 = 1 / (1.8 * rem) := by
  unfold aim_sigma_last; pgm_sq

theorem aim_eps_last_sq (rem : ℝ) (hrem : 0 ≤ rem) :
    aim_eps_last rem ^ 2 = 0.8 * rem := by
  unfold aim_eps_last; pgm_sq

end PGM.Ledger
