import PGM.Proofs.Semantics
import PGM.Proofs.BPRefine
/-! correctness of `belief_propagation` on junction trees -/
namespace PGM.Sem.BP
open PGM PGM.JT PGM.GM
variable {K : Type} [Field K] [LinearOrder K] [IsStrictOrderedRing K]
set_option linter.unusedSectionVars false
set_option linter.unusedVariables false

/-! ### from `ModelOK` to the hypotheses of the refinement -/

theorem getD_nonneg (a : Array (LogOf K)) (h : ∀ x ∈ a.toList, 0 ≤ x.v) (n : Nat) :
    0 ≤ (a.getD n default).v := by
  rw [Array.getD_eq_getD_getElem?]
  cases hx : a[n]? with
  | none => show (0 : K) ≤ 1; exact zero_le_one
  | some x =>
    have : x ∈ a := Array.mem_of_getElem? hx
    exact h x (Array.mem_toList_iff.mpr this)

theorem get_of_lookup {α : Type} [Scalar α] (cv : CliqueVec α) (c : Clique) (f : Factor α)
    (h : cv.lookup c = some f) : cv.get c = f := by
  unfold CliqueVec.get; rw [h]

theorem lookup_of_nodup_keys {α : Type} (cv : CliqueVec α) (hnd : (cv.map Prod.fst).Nodup)
    (p : Clique × Factor α) (hp : p ∈ cv) : cv.lookup p.1 = some p.2 := by
  induction cv with
  | nil => simp at hp
  | cons q qs ih =>
    obtain ⟨k, v⟩ := q
    simp only [List.map_cons, List.nodup_cons] at hnd
    simp only [List.lookup_cons]
    rcases List.mem_cons.mp hp with h | h
    · subst h; simp
    · have hne : p.1 ≠ k := by
        intro e
        apply hnd.1
        rw [← e]; exact List.mem_map_of_mem h
      have : (p.1 == k) = false := by simpa using hne
      rw [this]
      exact ih hnd.2 h

theorem isTree_of_check {attrs : List Attr} {cl : List Clique} {t : Tree}
    {order : List (Clique × Clique)} (h : checkJT attrs cl t order = true) : isTree t = true := by
  simp only [checkJT, Bool.and_eq_true] at h
  exact h.1.1.1.2

theorem psi_depOn (pots : CliqueVec (LogOf K)) (c : Clique)
    (hp : (pots.get c).dom.attrs.Perm c) : DepOn (psi pots c) (fun a => a ∈ c) := by
  intro σ σ' h
  unfold psi Factor.sem
  congr 2
  apply List.map_congr_left
  intro a ha
  exact h a (hp.mem_iff.mp ha)

theorem mok_of_modelOK (d : Dom) (cliques : List Clique) (t : Tree) (order : List (Clique × Clique))
    (pots : CliqueVec (LogOf K)) (hok : ModelOK d cliques t order pots) : MOK d t order pots := by
  have hit := isTree_of_check hok.jt
  have valid := checkJT_sound d.attrs [] t order hok.jt
  have tok := treeOK_of_isTree t hit
  have tf := treeFacts t hit
  have hkeys : pots.map Prod.fst = t.nodes := hok.keys.trans hok.nodes.symm
  have hpot : ∀ c ∈ t.nodes, (pots.get c).WF ∧ (pots.get c).dom.attrs.Perm c ∧
      (pots.get c).dom.Agrees d ∧ ∀ x ∈ (pots.get c).vals.data.toList, 0 ≤ x.v := by
    intro c hc
    obtain ⟨f, hf, hmem⟩ := lookup_isSome_of_mem pots c (by rw [hkeys]; exact hc)
    rw [get_of_lookup pots c f hf]
    have := hok.pot_ok _ hmem
    exact ⟨this.1, this.2.1, this.2.2, hok.nonneg _ hmem⟩
  refine ⟨⟨tok, hok.dom_wf, ?_, valid.covers_domain, valid.rip, ?_, ?_⟩,
    schedOK_of_valid d.attrs [] t order tf valid, hkeys,
    fun c hc => ⟨(hpot c hc).1, (hpot c hc).2.1, (hpot c hc).2.2.1⟩⟩
  · intro c hc
    exact (hok.clique_ok c (by rw [← hok.nodes]; exact hc)).2
  · intro c hc
    exact psi_depOn pots c (hpot c hc).2.1
  · intro c hc τ
    exact getD_nonneg _ (hpot c hc).2.2.2 _

theorem joint_eq_F (d : Dom) (cliques : List Clique) (t : Tree) (order : List (Clique × Clique))
    (pots : CliqueVec (LogOf K)) (hok : ModelOK d cliques t order pots) :
    joint pots = F (psi pots) t.nodes := by
  have hit := isTree_of_check hok.jt
  have tf := treeFacts t hit
  have hkeys : pots.map Prod.fst = t.nodes := hok.keys.trans hok.nodes.symm
  funext τ
  unfold joint F
  rw [← hkeys, List.map_map]
  congr 1
  apply List.map_congr_left
  intro p hp
  have := lookup_of_nodup_keys pots (by rw [hkeys]; exact tf.nodes_nodup) p hp
  simp only [Function.comp, psi]
  rw [get_of_lookup pots p.1 p.2 this]

theorem invert_nodup (d : Dom) (hd : d.WF) (as : List Attr) : (d.invert as).Nodup :=
  List.Nodup.filter _ hd

theorem mem_invert (d : Dom) (as : List Attr) (a : Attr) : a ∈ d.invert as ↔ a ∈ d.attrs ∧ a ∉ as := by
  simp [Dom.invert]

theorem marginal_eq (d : Dom) (cliques : List Clique) (t : Tree) (order : List (Clique × Clique))
    (pots : CliqueVec (LogOf K)) (hok : ModelOK d cliques t order pots) (c : Clique)
    (τ : Attr → Nat) :
    marginal d pots c τ = nsum d (d.invert c) τ (F (psi pots) t.nodes) := by
  unfold marginal
  rw [sumOver_eq_nsum d _ (invert_nodup d hok.dom_wf c), joint_eq_F d cliques t order pots hok]

theorem head_mem (d : Dom) (cliques : List Clique) (t : Tree) (order : List (Clique × Clique))
    (pots : CliqueVec (LogOf K)) (hok : ModelOK d cliques t order pots) :
    cliques.headD [] ∈ t.nodes := by
  have tf := treeFacts t (isTree_of_check hok.jt)
  rw [hok.nodes]
  have hne : cliques ≠ [] := by rw [← hok.nodes]; exact tf.nodes_ne
  cases cliques with
  | nil => exact absurd rfl hne
  | cons c cs => simp

theorem lookup_map_self {β : Type} (l : List Clique) (g : Clique → β) (c : Clique) (hc : c ∈ l) :
    (l.map (fun x => (x, g x))).lookup c = some (g c) := by
  induction l with
  | nil => simp at hc
  | cons x xs ih =>
    simp only [List.map_cons, List.lookup_cons]
    by_cases h : c = x
    · subst h; simp
    · have : (c == x) = false := by simpa using h
      rw [this]
      rcases List.mem_cons.mp hc with h' | h'
      · exact absurd h' h
      · exact ih h'

/-- the final rescaling `exp(belief + log total − logZ)` -/
theorem out_sem (b : Factor (LogOf K)) (shift : LogOf K) (σ : Attr → Nat) (hb : b.WF)
    (hσ : b.dom.Valid σ) :
    ((b.iaddScalar shift).exp).dom = b.dom ∧
    (((b.iaddScalar shift).exp).sem σ).v = (b.sem σ).v * shift.v := by
  refine ⟨rfl, ?_⟩
  have hin := Factor.inRange_of_valid b.dom hb.1 σ hσ
  have e1 : ((b.iaddScalar shift).exp).vals
      = ((b.vals.map (fun v => Scalar.add v shift)).map Scalar.exp).reshape b.dom.shape := rfl
  have e2 : ((b.iaddScalar shift).exp).dom = b.dom := rfl
  unfold Factor.sem
  rw [e1, e2, Factor.get_reshape_of_shape_eq _ _ (by show b.vals.shape = _; exact hb.2.1),
    NdArr.get_map _ _ _ (NdArr.map_WF _ _ hb.2.2) (by show InRange b.vals.shape _; rw [hb.2.1]; exact hin),
    NdArr.get_map _ _ _ hb.2.2 (by rw [hb.2.1]; exact hin)]
  rfl

/-- the log-partition value computed from the first clique's belief is the partition function -/
theorem logZ_correct (d : Dom) (cliques : List Clique) (t : Tree) (order : List (Clique × Clique))
    (pots : CliqueVec (LogOf K)) (hok : ModelOK d cliques t order pots) :
    (logZ cliques order pots).v = partition d pots := by
  have mk := mok_of_modelOK d cliques t order pots hok
  have hc0 := head_mem d cliques t order pots hok
  obtain ⟨hbw, hbd, hbs⟩ := final_belief mk _ hc0
  obtain ⟨hpw, hpp, hpa⟩ := mk.pot _ hc0
  have hsub := mk.cx.node_sub _ hc0
  have hlz : logZ cliques order pots
      = ((bpLoop order pots).1.get (cliques.headD [])).logsumexpAll := rfl
  rw [hlz, logsumexpAll_v d _ (fun _ => 0) hbw (by rw [hbd]; exact hpa), hbd]
  have h1 : nsum d (pots.get (cliques.headD [])).dom.attrs (fun _ => 0)
        (fun τ => (((bpLoop order pots).1.get (cliques.headD [])).sem τ).v)
      = nsum d (pots.get (cliques.headD [])).dom.attrs (fun _ => 0)
        (fun τ => nsum d (d.invert (cliques.headD [])) τ (F (psi pots) t.nodes)) := by
    apply nsum_congr_fun
    intro τ _ h2
    apply hbs
    rw [Dom.valid_iff _ hpw.1]
    intro a ha
    rw [← agrees_cfg hpw.1 hpa ha]; exact h2 a ha
  have hperm : ((pots.get (cliques.headD [])).dom.attrs ++ d.invert (cliques.headD [])).Perm d.attrs := by
    rw [List.perm_ext_iff_of_nodup _ hok.dom_wf]
    · intro a
      rw [List.mem_append, mem_invert, hpp.mem_iff]
      constructor
      · rintro (h | h)
        · exact hsub a h
        · exact h.1
      · intro h
        by_cases hac : a ∈ cliques.headD []
        · exact Or.inl hac
        · exact Or.inr ⟨h, hac⟩
    · rw [List.nodup_append]
      refine ⟨hpw.1, invert_nodup d hok.dom_wf _, ?_⟩
      intro a ha b hb hab
      subst hab
      exact ((mem_invert _ _ _).mp hb).2 (hpp.mem_iff.mp ha)
  rw [h1, ← nsum_append, nsum_perm d _ d.attrs hperm]
  unfold partition
  rw [sumOver_eq_nsum d _ hok.dom_wf, joint_eq_F d cliques t order pots hok]

/-- **exact inference is exact**: every returned clique table is `total · marginal / Z`, laid out
over the attributes of that clique's potential -/
theorem bp_marginals (d : Dom) (cliques : List Clique) (t : Tree) (order : List (Clique × Clique))
    (pots : CliqueVec (LogOf K)) (hok : ModelOK d cliques t order pots) (total : LogOf K)
    (hZ : partition d pots ≠ 0) (c : Clique) (hc : c ∈ cliques) (σ : Attr → Nat) (hσ : d.Valid σ) :
    ((beliefPropagation cliques order pots total).get c).dom.attrs = (pots.get c).dom.attrs ∧
    (((beliefPropagation cliques order pots total).get c).sem σ).v
      = total.v * marginal d pots c σ / partition d pots := by
  have mk := mok_of_modelOK d cliques t order pots hok
  have hcn : c ∈ t.nodes := by rw [hok.nodes]; exact hc
  obtain ⟨hbw, hbd, hbs⟩ := final_belief mk c hcn
  obtain ⟨hpw, hpp, hpa⟩ := mk.pot c hcn
  have hget : (beliefPropagation cliques order pots total).get c
      = (((bpLoop order pots).1.get c).iaddScalar
          (Scalar.sub (Scalar.log total) (logZ cliques order pots))).exp := by
    unfold beliefPropagation CliqueVec.get
    dsimp only
    rw [lookup_map_self cliques _ c hc]
    rfl
  have hσc : (pots.get c).dom.Valid σ := by
    rw [Dom.valid_iff _ hpw.1]
    intro a ha
    rw [← agrees_cfg hpw.1 hpa ha]
    exact (Dom.valid_iff d hok.dom_wf σ).mp hσ a (mk.cx.node_sub c hcn a (hpp.mem_iff.mp ha))
  obtain ⟨ho1, ho2⟩ := out_sem ((bpLoop order pots).1.get c)
    (Scalar.sub (Scalar.log total) (logZ cliques order pots)) σ hbw (by rw [hbd]; exact hσc)
  rw [hget]
  refine ⟨by rw [ho1, hbd], ?_⟩
  rw [ho2, hbs σ hσc, ← marginal_eq d cliques t order pots hok c σ]
  have hs : (Scalar.sub (Scalar.log total) (logZ cliques order pots)).v
      = total.v * ((logZ cliques order pots).v)⁻¹ := rfl
  rw [hs, logZ_correct d cliques t order pots hok]
  rw [div_eq_mul_inv]
  ring

end PGM.Sem.BP
