import PGM.Proofs.Semantics
/-! correctness of `belief_propagation` on junction trees -/
namespace PGM.Sem
open PGM PGM.JT PGM.GM
variable {K : Type} [Field K] [LinearOrder K] [IsStrictOrderedRing K]

/-- the log-partition value computed from the first clique's belief is the partition function -/
theorem logZ_correct (d : Dom) (cliques : List Clique) (t : Tree) (order : List (Clique × Clique))
    (pots : CliqueVec (LogOf K)) (hok : ModelOK d cliques t order pots) :
    (logZ cliques order pots).v = partition d pots := by
  sorry

/-- **exact inference is exact**: every returned clique table is `total · marginal / Z`, laid out
over the attributes of that clique's potential -/
theorem bp_marginals (d : Dom) (cliques : List Clique) (t : Tree) (order : List (Clique × Clique))
    (pots : CliqueVec (LogOf K)) (hok : ModelOK d cliques t order pots) (total : LogOf K)
    (hZ : partition d pots ≠ 0) (c : Clique) (hc : c ∈ cliques) (σ : Attr → Nat) (hσ : d.Valid σ) :
    ((beliefPropagation cliques order pots total).get c).dom.attrs = (pots.get c).dom.attrs ∧
    (((beliefPropagation cliques order pots total).get c).sem σ).v
      = total.v * marginal d pots c σ / partition d pots := by
  sorry

end PGM.Sem
