import PGM.Generated.TotalG
import Mathlib.Algebra.Field.Defs
import Mathlib.Order.Defs.LinearOrder
/-!
# Helper lemmas for `PGM/Properties/C09G.lean`

The generated reading of the "estimate the total" block (`PGM/Generated/TotalG.lean`) is a loop with two
`np.append` accumulators followed by element-wise array arithmetic; the hand model `PGM/Model/Total.lean`
is a `filterMap` to `(estimate, variance)` pairs followed by `combine`.  These lemmas bridge the two:

* `foldl_two_acc`    the two-accumulator fold is `filter` + two `map`s (i.e. `unzip` of the `filterMap`);
* `block_core`       the whole block, for an arbitrary test `c` and arbitrary per-item variance `g` / estimate `h`;
* `LsmrOK`           the numerical contract on `lsmr` / `np.allclose` (minimum-norm solution on consistent systems,
                     test fails on inconsistent ones, `allclose(ones, ones)`);
* `estimates_eq_filter`  under `LsmrOK` the filtered list is `Total.estimates`.

`K` is a field with a linear order (no compatibility between the two is needed here).
-/
namespace PGM.Total
open PGM PGM.TotalG

/-- the model's measurement record of the Python tuple `(Q, y, noise, proj)` -/
def toMeas {K P : Type} (t : List (List K) × List K × K × P) : Meas K := ⟨t.1, t.2.1, t.2.2.1⟩

/-- the minimum-norm least-squares solution of `Qᵀ v = 1` as the model computes it -/
def minNormSol {K : Type} [Add K] [Sub K] [Mul K] [Div K] [Zero K] [One K] [DecidableEq K]
    (Q : List (List K)) : List K :=
  matVec Q (solve (gram Q) (List.replicate (ncols Q) (1 : K)))

/-! ## lists -/

/-- a loop that appends to two arrays under a test is `filter` followed by the two `map`s -/
theorem foldl_two_acc {α β : Type} (c : α → Prop) [DecidablePred c] (g h : α → β) (l : List α)
    (vs es : List β) :
    l.foldl (fun (st : List β × List β) x => if c x then (st.1 ++ [g x], st.2 ++ [h x]) else (st.1, st.2)) (vs, es)
      = (vs ++ (l.filter (fun x => decide (c x))).map g, es ++ (l.filter (fun x => decide (c x))).map h) := by
  induction l generalizing vs es with
  | nil => simp
  | cons a l ih =>
    simp only [List.foldl_cons]
    by_cases hc : c a
    · simp only [hc, if_true]; rw [ih]; simp [hc]
    · simp only [hc, if_false]; rw [ih]; simp [hc]

/-- … stated through `filterMap` / `unzip`, the shape of `Total.estimates` -/
theorem foldl_two_acc_unzip {α β : Type} (c : α → Prop) [DecidablePred c] (g h : α → β) (l : List α) :
    l.foldl (fun (st : List β × List β) x => if c x then (st.1 ++ [g x], st.2 ++ [h x]) else (st.1, st.2)) ([], [])
      = (l.filterMap (fun x => if c x then some (g x, h x) else none)).unzip := by
  rw [foldl_two_acc]
  induction l with
  | nil => simp
  | cons a l ih =>
    by_cases hc : c a
    · simp only [List.filter_cons, hc, decide_true, if_true, List.map_cons, List.nil_append,
        List.filterMap_cons, List.unzip_cons] at ih ⊢
      rw [← ih]
    · simp only [List.filter_cons, hc, decide_false, if_false, List.nil_append,
        List.filterMap_cons, Bool.false_eq_true] at ih ⊢
      exact ih

theorem zipWith_map_map {α β γ δ : Type} (f : β → γ → δ) (h : α → β) (g : α → γ) (l : List α) :
    List.zipWith f (l.map h) (l.map g) = l.map (fun x => f (h x) (g x)) := by
  induction l with
  | nil => rfl
  | cons a l ih => simp [ih]

section field
variable {K : Type} [Field K] [LinearOrder K]

/-- Python's `max(1, e)` is the model's `if e < 1 then 1 else e` -/
theorem pyMax_one (e : K) : pyMax 1 e = if e < 1 then 1 else e := by
  unfold pyMax
  rcases lt_trichotomy e 1 with h | h | h
  · rw [if_neg (lt_asymm h), if_pos h]
  · subst h; simp
  · rw [if_pos h, if_neg (lt_asymm h)]

omit [LinearOrder K] in
/-- `noise ** 2` is `noise * noise` -/
theorem powNat_two (x : K) : powNat x 2 = x * x := by
  simp [powNat]

/-- **the block, abstractly**: for any test `c`, per-item variance `g` and estimate `h`, the loop with the two
accumulators followed by `1 / Σ 1/var`, `var · Σ est/var`, `max(1, ·)` is `combine` of the `(estimate, variance)`
pairs of the items passing the test, clamped below by 1 — and `1` if no item passes -/
theorem block_core {α : Type} (c : α → Prop) [DecidablePred c] (g h : α → K) (ms : List α) :
    (let st := ms.foldl (fun (st : List K × List K) x =>
        if c x then (st.1 ++ [g x], st.2 ++ [h x]) else (st.1, st.2)) ([], [])
     if (st.2.length == 0) = true then (1 : K)
     else pyMax 1 ((1 / npSum (st.1.map (fun x => 1 / x))) * npSum (List.zipWith (fun a b => a / b) st.2 st.1)))
    = (let ev := (ms.filter (fun x => decide (c x))).map (fun x => (h x, g x))
       if ev.isEmpty then 1 else
         let e := combine ev
         if e < 1 then 1 else e) := by
  simp only [foldl_two_acc, List.nil_append, zipWith_map_map, List.map_map, Function.comp_def, pyMax_one,
    npSum, combine, List.length_map, List.isEmpty_map, beq_iff_eq, List.length_eq_zero_iff,
    List.isEmpty_iff]

omit [LinearOrder K] in
theorem unbiasedVec_eq [DecidableEq K] (Q : List (List K)) :
    unbiasedVec Q = if matTVec Q (minNormSol Q) = List.replicate (ncols Q) (1 : K) then some (minNormSol Q) else none :=
  rfl

theorem estimates_cons (m : Meas K) (ms : List (Meas K)) :
    estimates (m :: ms)
      = ((unbiasedVec m.Q).map (fun v => (dot v m.y, m.noise * m.noise * dot v v))).toList ++ estimates ms := by
  unfold estimates
  rw [List.filterMap_cons]
  cases unbiasedVec m.Q <;> rfl

omit [LinearOrder K] in
/-- **the system `Qᵀ v = 1` is consistent**, as the model decides it: the certified minimum-norm vector exists.
For a rectangular non-empty `Q` over an ordered field this is exactly "the ones vector is in the row space of `Q`"
(`qualifies_iff_rowspace`, Proofs/TotalSem.lean; restated as `C09G.qualifies_iff_consistent`) -/
def qualifies [DecidableEq K] (Q : List (List K)) : Bool := (unbiasedVec Q).isSome

omit [LinearOrder K] in
theorem qualifies_iff [DecidableEq K] (Q : List (List K)) :
    qualifies Q = true ↔ matTVec Q (minNormSol Q) = List.replicate (ncols Q) (1 : K) := by
  unfold qualifies
  rw [unbiasedVec_eq]
  split <;> simp_all

/-- **the numerical contract on `lsmr` / `np.allclose`**, for the measurement tuples `(Q, y, noise, proj)` of a list —
what scipy guarantees in exact arithmetic and what the block needs, no more:

* `consistent`: if `Qᵀ v = 1` has a solution, `lsmr(Q.T, ones, atol=0, btol=0)[0]` is its minimum-norm solution, as the
  model computes it (`minNormSol Q = Q (QᵀQ)⁺ 1`);
* `inconsistent`: if it has none, then whatever `lsmr` returns (scipy: the least-squares solution, e.g. `0.6` for
  `Q = [[1, 2]]`, NOT `minNormSol Q = 1`) fails the test `np.allclose(Q.T.dot(v), ones)` — nothing is assumed about
  the returned vector itself;
* `accepts_ones`: the test accepts the exact right-hand side, `np.allclose(ones, ones)` (true of the tolerance test).

Nothing else about `allclose` is used. -/
structure LsmrOK {P : Type} (lsmrSolve : List (List K) → List K) (allclose : List K → List K → Bool)
    (ms : List (List (List K) × List K × K × P)) : Prop where
  consistent : ∀ t ∈ ms, qualifies t.1 = true → lsmrSolve t.1 = minNormSol t.1
  inconsistent : ∀ t ∈ ms, qualifies t.1 = false →
    allclose (matTVec t.1 (lsmrSolve t.1)) (List.replicate (ncols t.1) (1 : K)) = false
  accepts_ones : ∀ t ∈ ms, qualifies t.1 = true →
    allclose (List.replicate (ncols t.1) (1 : K)) (List.replicate (ncols t.1) (1 : K)) = true

theorem LsmrOK.tail {P : Type} {lsmrSolve : List (List K) → List K} {allclose : List K → List K → Bool}
    {t : List (List K) × List K × K × P} {ms : List (List (List K) × List K × K × P)}
    (h : LsmrOK lsmrSolve allclose (t :: ms)) : LsmrOK lsmrSolve allclose ms :=
  ⟨fun s hs => h.consistent s (List.mem_cons_of_mem _ hs), fun s hs => h.inconsistent s (List.mem_cons_of_mem _ hs),
    fun s hs => h.accepts_ones s (List.mem_cons_of_mem _ hs)⟩

/-- the former, stronger reading (`lsmr` = the model's formula on EVERY matrix of the list, `allclose` = exact equality)
implies the contract — it is satisfiable only by an `lsmr` that returns `Q (QᵀQ)⁺ 1` on inconsistent systems too, which
scipy's does not; kept as a sufficient condition (the model's own solver satisfies it) -/
theorem LsmrOK.of_exact {P : Type} (lsmrSolve : List (List K) → List K) (allclose : List K → List K → Bool)
    (ms : List (List (List K) × List K × K × P))
    (hl : ∀ t ∈ ms, lsmrSolve t.1 = minNormSol t.1)
    (ha : ∀ a b, allclose a b = decide (a = b)) : LsmrOK lsmrSolve allclose ms := by
  refine ⟨fun t ht _ => hl t ht, fun t ht hq => ?_, fun t _ _ => by rw [ha]; simp⟩
  rw [ha, hl t ht, decide_eq_false_iff_not, ← qualifies_iff, hq]
  simp

/-- under the contract `LsmrOK` the items kept by the loop, with their `(estimate, variance)`, are `Total.estimates` -/
theorem estimates_eq_filter {P : Type} (lsmrSolve : List (List K) → List K) (allclose : List K → List K → Bool)
    (ms : List (List (List K) × List K × K × P)) (hl : LsmrOK lsmrSolve allclose ms) :
    (ms.filter (fun t => decide (allclose (matTVec t.1 (lsmrSolve t.1)) (List.replicate (ncols t.1) (1 : K)) = true))).map
        (fun t => (dot (lsmrSolve t.1) t.2.1, powNat t.2.2.1 2 * dot (lsmrSolve t.1) (lsmrSolve t.1)))
      = estimates (ms.map toMeas) := by
  induction ms with
  | nil => rfl
  | cons t ms ih =>
    have ih' := ih hl.tail
    rw [List.map_cons, estimates_cons, ← ih', unbiasedVec_eq, show (toMeas t).Q = t.1 from rfl, List.filter_cons]
    by_cases hq : matTVec t.1 (minNormSol t.1) = List.replicate (ncols t.1) (1 : K)
    · have hq' := (qualifies_iff t.1).mpr hq
      have ht := hl.consistent t List.mem_cons_self hq'
      have hc := hl.accepts_ones t List.mem_cons_self hq'
      rw [if_pos hq, ht, hq, hc]
      simp only [decide_true, if_true, List.map_cons, Option.map_some, powNat_two, toMeas, List.cons_append,
        List.nil_append, Option.toList_some, ht]
    · have hq' : qualifies t.1 = false := by
        rw [← Bool.not_eq_true, qualifies_iff]; exact hq
      have hc := hl.inconsistent t List.mem_cons_self hq'
      rw [if_neg hq, hc]
      simp only [Bool.false_eq_true, decide_false, if_false, Option.map_none, Option.toList_none, List.nil_append]

/-- the shape of the source block: a loop over the measurements `(Q, y, noise, proj)` appending
`noise² ⟨v,v⟩` / `⟨v,y⟩` for `v = lsmrSolve Q` when `allclose (Qᵀ v) 1`, then the inverse-variance combination -/
def blockOf {P : Type} (lsmrSolve : List (List K) → List K) (allclose : List K → List K → Bool)
    (ms : List (List (List K) × List K × K × P)) : K :=
  let st := ms.foldl (fun (st : List K × List K) (t : List (List K) × List K × K × P) =>
      if allclose (matTVec t.1 (lsmrSolve t.1)) (List.replicate (ncols t.1) (1 : K)) = true
      then (st.1 ++ [powNat t.2.2.1 2 * dot (lsmrSolve t.1) (lsmrSolve t.1)], st.2 ++ [dot (lsmrSolve t.1) t.2.1])
      else (st.1, st.2)) ([], [])
  if (st.2.length == 0) = true then (1 : K)
  else pyMax 1 ((1 / npSum (st.1.map (fun x => 1 / x))) * npSum (List.zipWith (fun a b => a / b) st.2 st.1))

/-- **the block is the model**: under the contract `LsmrOK`, `blockOf` is `Total.totalEstimate` -/
theorem blockOf_eq_totalEstimate {P : Type} (lsmrSolve : List (List K) → List K) (allclose : List K → List K → Bool)
    (ms : List (List (List K) × List K × K × P)) (hl : LsmrOK lsmrSolve allclose ms) :
    blockOf lsmrSolve allclose ms = totalEstimate (ms.map toMeas) := by
  unfold blockOf totalEstimate
  rw [← estimates_eq_filter lsmrSolve allclose ms hl]
  exact block_core _ _ _ ms

/-- read from the model's side: model records with any `proj` attached, contracts instantiated by the model's own
solver and the exact test -/
theorem blockOf_of_meas {P : Type} (meas : List (Meas K)) (proj : Meas K → P) :
    blockOf minNormSol (fun a b => decide (a = b)) (meas.map (fun m => (m.Q, m.y, m.noise, proj m)))
      = totalOf none meas := by
  have hm : (meas.map (fun m => (m.Q, m.y, m.noise, proj m))).map toMeas = meas := by
    simp only [List.map_map]
    exact List.map_id' meas
  have h := blockOf_eq_totalEstimate minNormSol (fun a b => decide (a = b))
    (meas.map (fun m => (m.Q, m.y, m.noise, proj m))) (LsmrOK.of_exact _ _ _ (fun _ _ => rfl) (fun _ _ => rfl))
  rw [hm] at h
  exact h

end field
end PGM.Total
