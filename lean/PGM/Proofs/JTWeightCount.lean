import PGM.Model.JTree
import Mathlib.Data.List.Perm.Basic
import Mathlib.Data.List.Nodup
import Mathlib.Algebra.BigOperators.Group.List.Basic
/-! double counting: `weight t = Σ_a #{e | a ∈ e.1 ∧ a ∈ e.2}`, plus elementary list-sum lemmas -/
namespace PGM.JT

/-- number of tree edges both of whose end points contain `a` -/
def edgeCount (t : Tree) (a : Attr) : Nat :=
  (t.edges.filter (fun e => e.1.contains a && e.2.contains a)).length

theorem nodup_iffW {β : Type} [BEq β] [LawfulBEq β] (l : List β) : nodup l = true ↔ l.Nodup := by
  induction l with
  | nil => simp [nodup]
  | cons x xs ih => simp [nodup, ih]

theorem inter_length (attrs : List Attr) (x y : Clique) (hattrs : attrs.Nodup) (hx : x.Nodup)
    (hsub : ∀ a ∈ x, a ∈ attrs) :
    (inter x y).length = attrs.countP (fun a => x.contains a && y.contains a) := by
  rw [List.countP_eq_length_filter]
  apply List.Perm.length_eq
  unfold inter
  rw [List.perm_ext_iff_of_nodup (hx.filter _) (hattrs.filter _)]
  intro a
  simp only [List.mem_filter, List.contains_iff_mem, Bool.and_eq_true]
  constructor
  · rintro ⟨h1, h2⟩; exact ⟨hsub a h1, h1, h2⟩
  · rintro ⟨-, h1, h2⟩; exact ⟨h1, h2⟩

theorem countP_eq_sum_ite {β : Type} (m : List β) (p : β → Bool) :
    m.countP p = (m.map (fun a => if p a = true then 1 else 0)).sum := by
  induction m with
  | nil => simp
  | cons a as ih => simp [List.countP_cons, ih]; omega

theorem sum_countP_comm {α β : Type} (l : List α) (m : List β) (f : α → β → Bool) :
    (l.map (fun e => m.countP (f e))).sum = (m.map (fun a => l.countP (fun e => f e a))).sum := by
  induction l with
  | nil => simp
  | cons e es ih =>
    simp only [List.map_cons, List.sum_cons, ih, List.countP_cons]
    rw [List.sum_map_add, ← countP_eq_sum_ite, Nat.add_comm]

theorem weight_eq_sum_edgeCount (attrs : List Attr) (t : Tree) (hattrs : attrs.Nodup)
    (h1 : ∀ e ∈ t.edges, e.1.Nodup ∧ ∀ a ∈ e.1, a ∈ attrs) :
    weight t = (attrs.map (edgeCount t)).sum := by
  unfold weight
  have : t.edges.map (fun e => (inter e.1 e.2).length)
      = t.edges.map (fun e => attrs.countP (fun a => e.1.contains a && e.2.contains a)) := by
    apply List.map_congr_left
    intro e he
    exact inter_length attrs e.1 e.2 hattrs (h1 e he).1 (h1 e he).2
  rw [this, sum_countP_comm t.edges attrs (fun e a => e.1.contains a && e.2.contains a)]
  simp only [List.countP_eq_length_filter]
  rfl

theorem sum_le_sum_of_le {α : Type} (l : List α) (f g : α → Nat) (h : ∀ a ∈ l, f a ≤ g a) :
    (l.map f).sum ≤ (l.map g).sum := by
  induction l with
  | nil => simp
  | cons a as ih =>
    have h1 := h a (by simp)
    have h2 := ih (fun b hb => h b (by simp [hb]))
    simp only [List.map_cons, List.sum_cons]; omega

theorem sum_eq_sum_iff_of_le {α : Type} (l : List α) (f g : α → Nat) (h : ∀ a ∈ l, f a ≤ g a) :
    (l.map f).sum = (l.map g).sum ↔ ∀ a ∈ l, f a = g a := by
  induction l with
  | nil => simp
  | cons a as ih =>
    have h1 := h a (by simp)
    have hh : ∀ b ∈ as, f b ≤ g b := fun b hb => h b (by simp [hb])
    have h2 := sum_le_sum_of_le as f g hh
    have ih := ih hh
    simp only [List.map_cons, List.sum_cons, List.forall_mem_cons]
    constructor
    · intro heq
      have : (as.map f).sum = (as.map g).sum := by omega
      exact ⟨by omega, ih.mp this⟩
    · rintro ⟨ha, hr⟩
      rw [ha, ih.mpr hr]

end PGM.JT
