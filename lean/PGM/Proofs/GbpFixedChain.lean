import PGM.Proofs.GbpFixedExact
/-!
# Fixed points on two-level chains: the junction-tree recursion

On a two-level region graph (maximal cliques and disjoint separators) `D` is empty and `N[C,S]` holds the messages
entering `C` from its other separators, so a fixed point satisfies `m[C→S] = log Σ_{C∖S} exp(θ_C + Σ_N m) − c`.

* `Fwd e q Θ` — a derivation that the message of edge `e` is fed by a path of cliques: `q` marks the attributes of the
  cliques behind `e`, `Θ` is the sum of their potentials (`base`: `N = D = ∅`; `step`: `N = {e'}`, `D = ∅`, the previous
  separator lies in the new clique and the running-intersection condition holds);
* `behind_of_fwd` — the invariant `Σ_{q∖S} exp(Θ) = K · exp(m[e])`, `K > 0`, by induction on the derivation;
* `peel` — summing out the attributes behind one incoming message replaces `Θ` by that message;
* `chain_end_claim` / `chain_mid_claim` — the exact unnormalised marginal of a clique with one / two incoming messages
  is a constant multiple of `exp(belief)`.
-/
namespace PGM.GbpFixed
open PGM PGM.JT PGM.RG PGM.Convex PGM.Sem
set_option linter.unusedSectionVars false
set_option linter.unusedVariables false

/-- `Θ` only reads the attributes marked by `q` -/
def DepOn (q : Attr → Bool) (Θ : (Attr → Nat) → ℝ) : Prop :=
  ∀ σ τ : Attr → Nat, (∀ a, q a = true → σ a = τ a) → Θ σ = Θ τ

/-- `Σ_{q∖S} exp(Θ) = K · exp(m[e])` -/
def SumClaim (dom : Dom) (m : Msgs ℝ) (e : Edge) (q : Attr → Bool) (Θ : (Attr → Nat) → ℝ) : Prop :=
  ∃ K : ℝ, 0 < K ∧ ∀ σ, dom.Valid σ →
    sumOver dom (dom.attrs.filter (fun a => q a && !e.2.contains a)) σ (fun τ => Real.exp (Θ τ))
      = K * Real.exp ((m.get e).sem σ)

theorem filter_attrs_perm (A c : List Attr) (hA : A.Nodup) (hc : c.Nodup) (hsub : ∀ a ∈ c, a ∈ A) (p : Attr → Bool) :
    (A.filter (fun a => c.contains a && p a)).Perm (c.filter p) := by
  rw [List.perm_ext_iff_of_nodup (hA.filter _) (hc.filter _)]
  intro a
  simp only [List.mem_filter, Bool.and_eq_true, List.contains_iff_mem]
  constructor
  · rintro ⟨_, h1, h2⟩; exact ⟨h1, h2⟩
  · rintro ⟨h1, h2⟩; exact ⟨hsub a h1, h1, h2⟩

theorem filter_congr_mem {A : List Attr} {p q : Attr → Bool} (h : ∀ a ∈ A, p a = q a) : A.filter p = A.filter q :=
  List.filter_congr h

section
variable {dom : Dom} {g : RG.Graph} {pot : Region → Factor ℝ} {m : Msgs ℝ}

/-- the fixed-point equation of an edge with empty `D`, as a sum over `dom.attrs.filter` -/
theorem edgeSum (h : Hyp dom g pot m) (hfix : SemFixed dom g pot m) {e : Edge} (he : e ∈ g.messageOrder)
    (hD : look g.D e = []) :
    ∃ c0 : ℝ, ∀ σ, dom.Valid σ →
      sumOver dom (dom.attrs.filter (fun a => e.1.contains a && !e.2.contains a)) σ
          (fun τ => Real.exp (numVal g pot m e τ))
        = Real.exp ((m.get e).sem σ + c0) := by
  have hd := h.gok.dom_wf
  have hp := (h.order_sound e he).1
  have hrp := h.gok.region_ok e.1 hp
  obtain ⟨c0, hc⟩ := edge_equation h hfix he
  refine ⟨c0, ?_⟩
  intro σ hσ
  rw [sumOver_perm dom _ _ σ _ (filter_attrs_perm dom.attrs e.1 hd hrp.1 hrp.2 (fun a => !e.2.contains a))
    (hd.filter _)]
  have h1 := hc σ hσ
  simp only [hD, sumMsgs, List.map_nil, List.sum_nil, sub_zero] at h1
  have hpos : 0 < sumOver dom (e.1.filter (fun a => !e.2.contains a)) σ
      (fun τ => Real.exp (numVal g pot m e τ)) := by
    apply LbpTree.sumOver_pos
    · intro a ha
      exact cfg_ne_zero_of_pos dom hd h.pos a (hrp.2 a (List.mem_filter.mp ha).1)
    · intro ρ; exact Real.exp_pos _
  rw [← Real.exp_log hpos]
  congr 1
  linarith

/-- derivations "the message of `e` is fed by a path of cliques" -/
inductive Fwd (g : RG.Graph) (pot : Region → Factor ℝ) : Edge → (Attr → Bool) → ((Attr → Nat) → ℝ) → Prop
  | base (e : Edge) (he : e ∈ g.messageOrder) (hN : look g.N e = []) (hD : look g.D e = []) :
      Fwd g pot e (fun a => e.1.contains a) (fun τ => (pot e.1).sem τ)
  | step (e e' : Edge) (q' : Attr → Bool) (Θ' : (Attr → Nat) → ℝ) (h' : Fwd g pot e' q' Θ')
      (he : e ∈ g.messageOrder) (hN : look g.N e = [e']) (hD : look g.D e = [])
      (hs : ∀ a ∈ e'.2, a ∈ e.1) (hrip : ∀ a, q' a = true → a ∈ e.1 → a ∈ e'.2) :
      Fwd g pot e (fun a => q' a || e.1.contains a) (fun τ => Θ' τ + (pot e.1).sem τ)

theorem fwd_mem {e : Edge} {q : Attr → Bool} {Θ : (Attr → Nat) → ℝ} (hf : Fwd g pot e q Θ) : e ∈ g.messageOrder := by
  cases hf with
  | base _ he _ _ => exact he
  | step _ _ _ _ _ he _ _ _ _ => exact he

/-- **the invariant carried along a chain** -/
theorem behind_of_fwd (h : Hyp dom g pot m) (hfix : SemFixed dom g pot m) {e : Edge} {q : Attr → Bool}
    {Θ : (Attr → Nat) → ℝ} (hf : Fwd g pot e q Θ) : DepOn q Θ ∧ SumClaim dom m e q Θ := by
  have hd := h.gok.dom_wf
  induction hf with
  | base e he hN hD =>
    have hp := (h.order_sound e he).1
    have hattrs : (pot e.1).dom.attrs = e.1 := (h.gok.pot_ok e.1 hp).attrs
    constructor
    · intro σ τ hst
      apply sem_congr
      intro a ha
      rw [hattrs] at ha
      exact hst a (List.contains_iff_mem.mpr ha)
    · obtain ⟨c0, hc⟩ := edgeSum h hfix he hD
      refine ⟨Real.exp c0, Real.exp_pos _, ?_⟩
      intro σ hσ
      have := hc σ hσ
      have hnum : (fun τ => Real.exp (numVal g pot m e τ)) = (fun τ => Real.exp ((pot e.1).sem τ)) := by
        funext ρ
        unfold numVal sumMsgs
        rw [hN]; simp
      rw [hnum] at this
      rw [this, Real.exp_add, mul_comm]
  | step e e' q' Θ' h' he hN hD hs hrip ih =>
    obtain ⟨hdep', K', hK', hcl'⟩ := ih
    have hp := (h.order_sound e he).1
    obtain ⟨hr, hsub⟩ := h.child_mem he
    have hattrs : (pot e.1).dom.attrs = e.1 := (h.gok.pot_ok e.1 hp).attrs
    constructor
    · intro σ τ hst
      have h1 := hdep' σ τ (fun a ha => hst a (by simp [ha]))
      have h2 : (pot e.1).sem σ = (pot e.1).sem τ := by
        apply sem_congr
        intro a ha
        rw [hattrs] at ha
        exact hst a (by simp [ha])
      show Θ' σ + _ = Θ' τ + _
      rw [h1, h2]
    · obtain ⟨c0, hc⟩ := edgeSum h hfix he hD
      refine ⟨K' * Real.exp c0, mul_pos hK' (Real.exp_pos _), ?_⟩
      intro σ hσ
      have hnd : (dom.attrs.filter (fun a => (q' a || e.1.contains a) && !e.2.contains a)).Nodup := hd.filter _
      rw [← sumOver_split dom _ (fun a => e.1.contains a) σ _ hnd]
      have hl1 : (dom.attrs.filter (fun a => (q' a || e.1.contains a) && !e.2.contains a)).filter
            (fun a => e.1.contains a)
          = dom.attrs.filter (fun a => e.1.contains a && !e.2.contains a) := by
        rw [List.filter_filter]
        apply List.filter_congr
        intro a _
        cases q' a <;> cases e.1.contains a <;> cases e.2.contains a <;> rfl
      have hl2 : (dom.attrs.filter (fun a => (q' a || e.1.contains a) && !e.2.contains a)).filter
            (fun a => !e.1.contains a)
          = dom.attrs.filter (fun a => q' a && !e'.2.contains a) := by
        rw [List.filter_filter]
        apply List.filter_congr
        intro a _
        by_cases hq : q' a = true
        · by_cases hc1 : a ∈ e.1
          · have h2 : a ∈ e'.2 := hrip a hq hc1
            simp [hq, hc1, h2]
          · have h2 : a ∉ e'.2 := fun h2 => hc1 (hs a h2)
            have h3 : a ∉ e.2 := fun h3 => hc1 (hsub a h3)
            simp [hq, hc1, h2, h3]
        · have hq' : q' a = false := by simpa using hq
          by_cases hc1 : a ∈ e.1 <;> simp [hq', hc1]
      rw [hl1, hl2]
      have hinner : ∀ τ, dom.Valid τ →
          sumOver dom (dom.attrs.filter (fun a => q' a && !e'.2.contains a)) τ
              (fun ρ => Real.exp (Θ' ρ + (pot e.1).sem ρ))
            = K' * Real.exp (numVal g pot m e τ) := by
        intro τ hτ
        have hconst : ∀ v, (pot e.1).sem (Dom.override τ (dom.attrs.filter (fun a => q' a && !e'.2.contains a)) v)
            = (pot e.1).sem τ := by
          intro v
          apply sem_override_of_disjoint
          intro a ha hmem
          rw [hattrs] at hmem
          have hh := (List.mem_filter.mp ha).2
          simp only [Bool.and_eq_true, Bool.not_eq_eq_eq_not, Bool.not_true] at hh
          have : a ∈ e'.2 := hrip a hh.1 hmem
          simp [this] at hh
        have e1 : sumOver dom (dom.attrs.filter (fun a => q' a && !e'.2.contains a)) τ
              (fun ρ => Real.exp (Θ' ρ + (pot e.1).sem ρ))
            = sumOver dom (dom.attrs.filter (fun a => q' a && !e'.2.contains a)) τ
              (fun ρ => Real.exp (Θ' ρ)) * Real.exp ((pot e.1).sem τ) := by
          rw [← sumOver_mul_right]
          apply sumOver_congr
          intro v _
          show Real.exp (Θ' _ + (pot e.1).sem _) = Real.exp (Θ' _) * _
          rw [hconst v, Real.exp_add]
        rw [e1, hcl' τ hτ]
        unfold numVal sumMsgs
        rw [hN]
        simp only [List.map_cons, List.map_nil, List.sum_cons, List.sum_nil, add_zero]
        rw [Real.exp_add]
        ring
      rw [sumOver_congr_valid dom hd _ σ _ (fun τ => K' * Real.exp (numVal g pot m e τ)) hσ hinner,
        sumOver_mul_left, hc σ hσ, Real.exp_add]
      ring

/-! ### summing out what is behind an incoming message -/

/-- **peeling**: over a set `W` (outside `c0`) that contains `q1 ∖ c0`, the sum of `exp(L0 + Θ1)` with `L0` constant
along `q1 ∖ s1` is `K1 ·` the sum over `W ∖ q1` of `exp(L0 + m[e1])` -/
theorem peel (hd : dom.WF) (e1 : Edge) (q1 : Attr → Bool) (Θ1 : (Attr → Nat) → ℝ) (c0 : Region)
    (K1 : ℝ) (hcl : ∀ σ, dom.Valid σ →
      sumOver dom (dom.attrs.filter (fun a => q1 a && !e1.2.contains a)) σ (fun τ => Real.exp (Θ1 τ))
        = K1 * Real.exp ((m.get e1).sem σ))
    (hs1 : ∀ a ∈ e1.2, a ∈ c0) (hrip : ∀ a, q1 a = true → a ∈ c0 → a ∈ e1.2)
    (w : Attr → Bool) (hw : ∀ a, q1 a = true → a ∉ c0 → w a = true)
    (L0 : (Attr → Nat) → ℝ)
    (hL : ∀ τ v, L0 (Dom.override τ (dom.attrs.filter (fun a => q1 a && !e1.2.contains a)) v) = L0 τ)
    (σ : Attr → Nat) (hσ : dom.Valid σ) :
    sumOver dom (dom.attrs.filter (fun a => w a && !c0.contains a)) σ (fun τ => Real.exp (L0 τ + Θ1 τ))
      = K1 * sumOver dom (dom.attrs.filter (fun a => (w a && !q1 a) && !c0.contains a)) σ
          (fun τ => Real.exp (L0 τ + (m.get e1).sem τ)) := by
  have hnd : (dom.attrs.filter (fun a => w a && !c0.contains a)).Nodup := hd.filter _
  rw [← sumOver_split dom _ (fun a => !q1 a) σ _ hnd]
  have hl1 : (dom.attrs.filter (fun a => w a && !c0.contains a)).filter (fun a => !q1 a)
      = dom.attrs.filter (fun a => (w a && !q1 a) && !c0.contains a) := by
    rw [List.filter_filter]
    apply List.filter_congr
    intro a _
    cases q1 a <;> cases w a <;> cases c0.contains a <;> rfl
  have hl2 : (dom.attrs.filter (fun a => w a && !c0.contains a)).filter (fun a => !!q1 a)
      = dom.attrs.filter (fun a => q1 a && !e1.2.contains a) := by
    rw [List.filter_filter]
    apply List.filter_congr
    intro a _
    by_cases hq : q1 a = true
    · by_cases hc1 : a ∈ c0
      · have h2 : a ∈ e1.2 := hrip a hq hc1
        simp [hq, hc1, h2]
      · have h2 : a ∉ e1.2 := fun h2 => hc1 (hs1 a h2)
        simp [hq, hc1, h2, hw a hq hc1]
    · have hq' : q1 a = false := by simpa using hq
      simp [hq']
  rw [hl1, hl2, ← sumOver_mul_left]
  apply sumOver_congr_valid dom hd _ σ _ _ hσ
  intro τ hτ
  have e1' : sumOver dom (dom.attrs.filter (fun a => q1 a && !e1.2.contains a)) τ
        (fun ρ => Real.exp (L0 ρ + Θ1 ρ))
      = Real.exp (L0 τ) * sumOver dom (dom.attrs.filter (fun a => q1 a && !e1.2.contains a)) τ
        (fun ρ => Real.exp (Θ1 ρ)) := by
    rw [← sumOver_mul_left]
    apply sumOver_congr
    intro v _
    show Real.exp (L0 _ + Θ1 _) = Real.exp (L0 τ) * _
    rw [hL τ v, Real.exp_add]
  rw [e1', hcl τ hτ, Real.exp_add]
  ring

/-- the belief of `c0` does not see attributes outside `c0` -/
theorem belVal_override (h : Hyp dom g pot m) {c0 : Region} (hc0 : c0 ∈ g.regions) (σ : Attr → Nat)
    (L : List Attr) (v : List Nat) (hL : ∀ a ∈ L, a ∉ c0) :
    belVal g pot m c0 (Dom.override σ L v) = belVal g pot m c0 σ := by
  unfold belVal
  have hattrs : (pot c0).dom.attrs = c0 := (h.gok.pot_ok c0 hc0).attrs
  rw [sem_override_of_disjoint (pot c0) σ L v (fun a ha hmem => hL a ha (hattrs ▸ hmem)),
    sumMsgs_override m (look g.B c0) c0 (fun k hk => h.B_msg_sub hc0 hk) σ L v hL]

theorem belief_const_out (h : Hyp dom g pot m) {c0 : Region} (hc0 : c0 ∈ g.regions) (w : Attr → Bool)
    (σ : Attr → Nat) :
    sumOver dom (dom.attrs.filter (fun a => w a && !c0.contains a)) σ (fun τ => Real.exp (belVal g pot m c0 τ))
      = Real.exp (belVal g pot m c0 σ)
        * sumOver dom (dom.attrs.filter (fun a => w a && !c0.contains a)) (fun _ => 0) (fun _ => (1 : ℝ)) := by
  rw [sumOver_one_indep dom _ (fun _ => 0) σ, ← sumOver_mul_left]
  apply sumOver_congr
  intro v _
  show Real.exp (belVal g pot m c0 _) = _ * 1
  rw [belVal_override h hc0 σ _ v (fun a ha => by
    have := (List.mem_filter.mp ha).2
    simp only [Bool.and_eq_true, Bool.not_eq_eq_eq_not, Bool.not_true] at this
    simpa using this.2), mul_one]

theorem msg_override (h : Hyp dom g pot m) {e : Edge} (he : e ∈ g.messageOrder) {c0 : Region}
    (hs : ∀ a ∈ e.2, a ∈ c0) (σ : Attr → Nat) (L : List Attr) (v : List Nat) (hL : ∀ a ∈ L, a ∉ c0) :
    (m.get e).sem (Dom.override σ L v) = (m.get e).sem σ :=
  sem_override_of_disjoint _ σ L v (fun a ha hmem => hL a ha (hs a ((h.msg_sub he).2 a hmem)))

theorem invert_eq (dom : Dom) (c0 : Region) :
    dom.invert c0 = dom.attrs.filter (fun a => true && !c0.contains a) := by
  unfold Dom.invert
  apply List.filter_congr
  intro a _
  simp

theorem filt_not_c0 {dom : Dom} {q : Attr → Bool} {s c0 : Region} (hrip : ∀ a, q a = true → a ∈ c0 → a ∈ s)
    (a : Attr) (ha : a ∈ dom.attrs.filter (fun a => q a && !s.contains a)) : a ∉ c0 := by
  have hh := (List.mem_filter.mp ha).2
  simp only [Bool.and_eq_true, Bool.not_eq_eq_eq_not, Bool.not_true] at hh
  intro hc
  have : a ∈ s := hrip a hh.1 hc
  simp [this] at hh

/-- **an end clique of a chain**: one incoming message -/
theorem chain_end_claim (h : Hyp dom g pot m) (hfix : SemFixed dom g pot m) {c0 : Region} (hc0 : c0 ∈ g.regions)
    {e1 : Edge} {q1 : Attr → Bool} {Θ1 : (Attr → Nat) → ℝ} (hf : Fwd g pot e1 q1 Θ1)
    (hB : look g.B c0 = [e1]) (hs1 : ∀ a ∈ e1.2, a ∈ c0) (hrip : ∀ a, q1 a = true → a ∈ c0 → a ∈ e1.2) :
    ∃ K : ℝ, ∀ σ, dom.Valid σ →
      sumOver dom (dom.invert c0) σ (fun τ => Real.exp ((pot c0).sem τ + Θ1 τ))
        = K * Real.exp (belVal g pot m c0 σ) := by
  have hd := h.gok.dom_wf
  obtain ⟨_, K1, _, hcl⟩ := behind_of_fwd h hfix hf
  have hattrs : (pot c0).dom.attrs = c0 := (h.gok.pot_ok c0 hc0).attrs
  have hbel : ∀ τ, belVal g pot m c0 τ = (pot c0).sem τ + (m.get e1).sem τ := by
    intro τ; unfold belVal sumMsgs; rw [hB]; simp
  refine ⟨K1 * sumOver dom (dom.attrs.filter (fun a => (true && !q1 a) && !c0.contains a)) (fun _ => 0)
    (fun _ => (1 : ℝ)), ?_⟩
  intro σ hσ
  rw [invert_eq, peel hd e1 q1 Θ1 c0 K1 hcl hs1 hrip (fun _ => true) (fun _ _ _ => rfl)
    (fun τ => (pot c0).sem τ)
    (fun τ v => sem_override_of_disjoint _ τ _ v (fun a ha hmem => filt_not_c0 hrip a ha (hattrs ▸ hmem))) σ hσ]
  have : (fun τ => Real.exp ((pot c0).sem τ + (m.get e1).sem τ)) = (fun τ => Real.exp (belVal g pot m c0 τ)) := by
    funext τ; rw [hbel]
  rw [this, belief_const_out h hc0 (fun a => true && !q1 a) σ]
  ring

/-- **an interior clique of a chain**: two incoming messages whose back-sets only meet inside the clique -/
theorem chain_mid_claim (h : Hyp dom g pot m) (hfix : SemFixed dom g pot m) {c0 : Region} (hc0 : c0 ∈ g.regions)
    {e1 e2 : Edge} {q1 q2 : Attr → Bool} {Θ1 Θ2 : (Attr → Nat) → ℝ}
    (hf1 : Fwd g pot e1 q1 Θ1) (hf2 : Fwd g pot e2 q2 Θ2)
    (hB : (look g.B c0).Perm [e1, e2])
    (hs1 : ∀ a ∈ e1.2, a ∈ c0) (hrip1 : ∀ a, q1 a = true → a ∈ c0 → a ∈ e1.2)
    (hs2 : ∀ a ∈ e2.2, a ∈ c0) (hrip2 : ∀ a, q2 a = true → a ∈ c0 → a ∈ e2.2)
    (hdisj : ∀ a, q1 a = true → q2 a = true → a ∈ c0) :
    ∃ K : ℝ, ∀ σ, dom.Valid σ →
      sumOver dom (dom.invert c0) σ (fun τ => Real.exp ((pot c0).sem τ + Θ1 τ + Θ2 τ))
        = K * Real.exp (belVal g pot m c0 σ) := by
  have hd := h.gok.dom_wf
  obtain ⟨hdep1, K1, _, hcl1⟩ := behind_of_fwd h hfix hf1
  obtain ⟨_, K2, _, hcl2⟩ := behind_of_fwd h hfix hf2
  have he2 := fwd_mem hf2
  have hattrs : (pot c0).dom.attrs = c0 := (h.gok.pot_ok c0 hc0).attrs
  have hbel : ∀ τ, belVal g pot m c0 τ = (pot c0).sem τ + (m.get e2).sem τ + (m.get e1).sem τ := by
    intro τ
    unfold belVal
    rw [sumMsgs_perm m hB τ]
    simp [sumMsgs]
    ring
  refine ⟨K2 * (K1 * sumOver dom (dom.attrs.filter (fun a => ((true && !q2 a) && !q1 a) && !c0.contains a))
    (fun _ => 0) (fun _ => (1 : ℝ))), ?_⟩
  intro σ hσ
  -- first the attributes behind `e2`
  have hL2 : ∀ τ v, (pot c0).sem (Dom.override τ (dom.attrs.filter (fun a => q2 a && !e2.2.contains a)) v)
        + Θ1 (Dom.override τ (dom.attrs.filter (fun a => q2 a && !e2.2.contains a)) v)
      = (pot c0).sem τ + Θ1 τ := by
    intro τ v
    rw [sem_override_of_disjoint _ τ _ v (fun a ha hmem => filt_not_c0 hrip2 a ha (hattrs ▸ hmem))]
    congr 1
    apply hdep1
    intro a hq1
    apply Sem.override_of_not_mem
    intro ha
    have hh := (List.mem_filter.mp ha).2
    simp only [Bool.and_eq_true] at hh
    exact filt_not_c0 hrip2 a ha (hdisj a hq1 hh.1)
  rw [invert_eq, peel hd e2 q2 Θ2 c0 K2 hcl2 hs2 hrip2 (fun _ => true) (fun _ _ _ => rfl)
    (fun τ => (pot c0).sem τ + Θ1 τ) hL2 σ hσ]
  -- then the attributes behind `e1`
  have hre : (fun τ => Real.exp ((pot c0).sem τ + Θ1 τ + (m.get e2).sem τ))
      = (fun τ => Real.exp (((pot c0).sem τ + (m.get e2).sem τ) + Θ1 τ)) := by
    funext τ; congr 1; ring
  rw [hre, peel hd e1 q1 Θ1 c0 K1 hcl1 hs1 hrip1 (fun a => true && !q2 a)
    (fun a hq1 hnc => by
      by_cases hq2 : q2 a = true
      · exact absurd (hdisj a hq1 hq2) hnc
      · simp [hq2])
    (fun τ => (pot c0).sem τ + (m.get e2).sem τ)
    (fun τ v => by
      rw [sem_override_of_disjoint _ τ _ v (fun a ha hmem => filt_not_c0 hrip1 a ha (hattrs ▸ hmem)),
        msg_override h he2 hs2 τ _ v (fun a ha => filt_not_c0 hrip1 a ha)]) σ hσ]
  have : (fun τ => Real.exp ((pot c0).sem τ + (m.get e2).sem τ + (m.get e1).sem τ))
      = (fun τ => Real.exp (belVal g pot m c0 τ)) := by
    funext τ; rw [hbel]
  rw [this, belief_const_out h hc0 (fun a => (true && !q2 a) && !q1 a) σ]
  ring

/-! ### fixed points by the junction-tree recursion -/

theorem newDict_congr (g : RG.Graph) (pot : Region → Factor ℝ) (M M' : Msgs ℝ)
    (hM : ∀ e ∈ g.messageOrder, ∀ k ∈ look g.N e, M.get k = M'.get k) : newDict g pot M = newDict g pot M' := by
  unfold newDict
  apply List.foldl_ext
  intro new e he
  unfold newMsg
  have : (look g.N e).map M.get = (look g.N e).map M'.get := List.map_congr_left (hM e he)
  simp only [this]

theorem newMsg_indep (g : RG.Graph) (pot : Region → Factor ℝ) (M new : Msgs ℝ) (e : Edge)
    (hN : look g.N e = []) (hD : look g.D e = []) : newMsg g pot M new e = newMsg g pot [] [] e := by
  unfold newMsg
  rw [hN, hD]
  rfl

/-- if one more un-damped update does not change the messages that the updates read, the updated state is a
(cell-wise) fixed point of the damped sweep -/
theorem fixed_of_stable {M1 : Msgs ℝ} (h1 : Hyp dom g pot M1)
    (hstab : ∀ e ∈ g.messageOrder, ∀ k ∈ look g.N e, (newDict g pot M1).get k = M1.get k) :
    Hyp dom g pot (newDict g pot M1) ∧ SemFixed dom g pot (newDict g pot M1) := by
  have hsub := newDict_sub h1
  have hH : Hyp dom g pot (newDict g pot M1) := ⟨h1.gok, h1.pos, h1.shape, hsub⟩
  have hfix : newDict g pot (newDict g pot M1) = newDict g pot M1 := newDict_congr g pot _ _ hstab
  refine ⟨hH, ?_⟩
  intro e he σ hσ
  rw [gbpSweep_get g pot _ hH.order_nodup e, if_pos he, hfix,
    damp2_sem h1.gok.dom_wf (hsub e he) (hsub e he) hσ]
  ring

/-- region graphs of message depth two (every message read by an update reads nothing itself — e.g. the chain
`AB – BC – CD`): two un-damped updates from the empty state give a fixed point -/
theorem depth2_fixed (hg : GraphOK dom g pot) (hpos : ∀ p ∈ dom, 0 < p.2) (hs : Shape g)
    (hdepth : ∀ e ∈ g.messageOrder, ∀ k ∈ look g.N e, k ∈ g.messageOrder ∧ look g.N k = [] ∧ look g.D k = []) :
    Hyp dom g pot (newDict g pot (newDict g pot [])) ∧ SemFixed dom g pot (newDict g pot (newDict g pot [])) := by
  have h0 := hyp_nil hg hpos hs
  have h1 : Hyp dom g pot (newDict g pot []) := ⟨hg, hpos, hs, newDict_sub h0⟩
  apply fixed_of_stable h1
  intro e he k hk
  obtain ⟨hko, hN, hD⟩ := hdepth e he k hk
  rw [newDict_get g pot _ h1.order_nodup h1.D_before k hko, newDict_get g pot _ h1.order_nodup h1.D_before k hko,
    newMsg_indep g pot _ _ k hN hD]
  exact (newMsg_indep g pot _ _ k hN hD).symm

end
end PGM.GbpFixed
