import PGM.Proofs.QueryCI
/-! general `sumOver` facts used by the refit round-trip (`CoherentSem`) -/
namespace PGM.Coherent
open PGM PGM.Sem
set_option linter.unusedSectionVars false
set_option linter.unusedVariables false

section field
variable {K : Type} [Field K]

/-- `sumOver` only depends on the *set* of summed attributes (duplicate-free lists) -/
theorem sumOver_set_congr (d : Dom) (as bs : List Attr) (σ : Attr → Nat) (f : (Attr → Nat) → K)
    (has : as.Nodup) (hbs : bs.Nodup) (h : ∀ a, a ∈ as ↔ a ∈ bs) :
    sumOver d as σ f = sumOver d bs σ f :=
  sumOver_perm d as bs σ f ((List.perm_ext_iff_of_nodup has hbs).mpr h) has

/-- a two-level sum over disjoint sets is the sum over the union -/
theorem sumOver_merge (d : Dom) (D E F : List Attr) (σ : Attr → Nat) (f : (Attr → Nat) → K)
    (hD : D.Nodup) (hE : E.Nodup) (hF : F.Nodup)
    (hdis : ∀ a ∈ D, a ∉ E) (hmem : ∀ a, a ∈ F ↔ a ∈ D ∨ a ∈ E) :
    sumOver d D σ (fun τ => sumOver d E τ f) = sumOver d F σ f := by
  rw [← sumOver_append d D E σ f hD hdis]
  apply sumOver_set_congr
  · rw [List.nodup_append]
    exact ⟨hD, hE, fun a ha b hb hab => hdis a ha (hab ▸ hb)⟩
  · exact hF
  · intro a; rw [List.mem_append, hmem]

/-- marginalising a marginal: sum the attributes `D ⊆ B` out of the marginal onto `B` -/
theorem marg_merge (d : Dom) (hd : d.WF) (P : (Attr → Nat) → K) (B A D : List Attr) (hD : D.Nodup)
    (hDB : ∀ a ∈ D, a ∈ B) (hDd : ∀ a ∈ D, a ∈ d.attrs)
    (hA : ∀ a, a ∈ d.attrs → (a ∈ A ↔ a ∈ B ∧ a ∉ D)) (σ : Attr → Nat) :
    sumOver d D σ (fun τ => sumOver d (d.invert B) τ P) = sumOver d (d.invert A) σ P := by
  apply sumOver_merge d D (d.invert B) (d.invert A) σ P hD (invert_nodup d hd B) (invert_nodup d hd A)
  · intro a ha hm
    exact ((mem_invert d B a).mp hm).2 (hDB a ha)
  · intro a
    rw [mem_invert, mem_invert]
    constructor
    · rintro ⟨h1, h2⟩
      by_cases haD : a ∈ D
      · exact Or.inl haD
      · refine Or.inr ⟨h1, fun hb => h2 ((hA a h1).mpr ⟨hb, haD⟩)⟩
    · rintro (h | ⟨h1, h2⟩)
      · exact ⟨hDd a h, fun ha => ((hA a (hDd a h)).mp ha).2 h⟩
      · exact ⟨h1, fun ha => h2 ((hA a h1).mp ha).1⟩

end field

variable {K : Type} [Field K] [LinearOrder K] [IsStrictOrderedRing K]

theorem sumOver_nonneg (d : Dom) (as : List Attr) (σ : Attr → Nat) (f : (Attr → Nat) → K)
    (h : ∀ v ∈ cells (as.map d.cfg), 0 ≤ f (Dom.override σ as v)) : 0 ≤ sumOver d as σ f := by
  unfold sumOver
  apply List.sum_nonneg
  intro x hx
  obtain ⟨v, hv, rfl⟩ := List.mem_map.mp hx
  exact h v hv

theorem sumOver_nonneg_valid (d : Dom) (hd : d.WF) (as : List Attr) (σ : Attr → Nat)
    (f : (Attr → Nat) → K) (hσ : d.Valid σ) (h : ∀ τ, d.Valid τ → 0 ≤ f τ) :
    0 ≤ sumOver d as σ f :=
  sumOver_nonneg d as σ f (fun v hv => h _ (valid_override d hd σ as v hσ hv))

/-- no cancellation: a vanishing sum of nonnegative terms has every visited term zero, in
particular the one at the base assignment -/
theorem term_zero_of_sumOver_zero (d : Dom) (hd : d.WF) (as : List Attr)
    (hsub : ∀ a ∈ as, a ∈ d.attrs) (σ : Attr → Nat) (hσ : d.Valid σ) (f : (Attr → Nat) → K)
    (h : ∀ τ, d.Valid τ → 0 ≤ f τ) (h0 : sumOver d as σ f = 0) : f σ = 0 := by
  unfold sumOver at h0
  have hmem : f σ ∈ (cells (as.map d.cfg)).map (fun v => f (Dom.override σ as v)) := by
    refine List.mem_map.mpr ⟨as.map σ, ?_, ?_⟩
    · rw [mem_cells_iff]
      apply NdArr.inRange_map
      intro a ha
      exact (Dom.valid_iff d hd σ).mp hσ a (hsub a ha)
    · rw [override_map_self]
  exact List.all_zero_of_le_zero_le_of_sum_eq_zero
    (fun x hx => by
      obtain ⟨v, hv, rfl⟩ := List.mem_map.mp hx
      exact h _ (valid_override d hd σ as v hσ hv)) h0 hmem

end PGM.Coherent
