import PGM.Proofs.GMQSupportDefs
import PGM.Proofs.SynthTableMarg
import PGM.Properties.C11B
/-!
# the support induction for the generated `synthetic_data` (rounding mode)

`OutsCond` (what is known of the outcomes before the induction: an outcome is admissible PROVIDED the
group's conditional slice is `CountsOK`) implies, under the chain hypotheses (`specsWF`, `chainWF`,
`margConsistent` with positive mass `S`, nonnegative tables), that the run is `outsOK` and that every
slice the run actually uses is `CountsOK` (`UsedGood CountsOK`).

The induction runs along the loop, generalised over the already processed prefix `pre`
(`specs = pre ++ rest`, the current table is `run pre outsPre rows0`, and the prefix is already known
to be `outsOK`).  The single step is `slice_countsOK`: a key occurring in the table built by the prefix
comes from a row lying in a cell of the parent's clique which the (admissible) prefix run left
nonempty, hence of positive mass (`synthTable_support`); `margConsistent` writes the mass of the
child's slice as a sum of nonnegative masses containing that one.

No deviation from the requested statement of `outsOK_of_outsCond`.
-/
namespace PGM.GMQGen
open PGM PGM.Synth PGM.Synth.Table

/-! ### prefix / snoc lemmas -/

theorem specsWF_append_left (ncols : Nat) (done : List Nat) (a b : List ColSpec)
    (h : specsWF ncols done (a ++ b) = true) : specsWF ncols done a = true := by
  induction a generalizing done with
  | nil => simp [specsWF]
  | cons sp a ih =>
    rw [List.cons_append, specsWF_cons] at h
    rw [specsWF_cons]
    exact ⟨h.1, h.2.1, h.2.2.1, h.2.2.2.1, ih _ h.2.2.2.2⟩

theorem run_snoc (pre : List ColSpec) (outsPre : List (List (List Nat))) (sp : ColSpec)
    (o : List (List Nat)) (rows : List Row) (hlen : outsPre.length = pre.length) :
    run (pre ++ [sp]) (outsPre ++ [o]) rows = genCol sp (run pre outsPre rows) o := by
  induction pre generalizing outsPre rows with
  | nil =>
    cases outsPre with
    | nil => rfl
    | cons o0 os => simp at hlen
  | cons sp0 pre ih =>
    cases outsPre with
    | nil => simp at hlen
    | cons o0 os =>
      rw [List.cons_append, List.cons_append, run_cons, run_cons]
      exact ih os _ (by simpa using hlen)

theorem outsOK_snoc (ncols total : Nat) (pre : List ColSpec) (outsPre : List (List (List Nat)))
    (sp : ColSpec) (o : List (List Nat)) (rows : List Row)
    (h : outsOK ncols total pre outsPre rows = true)
    (hc : colOutsOK sp (run pre outsPre rows) o = true) :
    outsOK ncols total (pre ++ [sp]) (outsPre ++ [o]) rows = true := by
  induction pre generalizing outsPre rows with
  | nil =>
    cases outsPre with
    | nil =>
      rw [List.nil_append, List.nil_append, outsOK_cons]
      rw [run_nil_left] at hc
      exact ⟨hc, by simp [outsOK]⟩
    | cons o0 os => simp [outsOK] at h
  | cons sp0 pre ih =>
    cases outsPre with
    | nil => simp [outsOK] at h
    | cons o0 os =>
      rw [outsOK_cons] at h
      rw [List.cons_append, List.cons_append, outsOK_cons]
      rw [run_cons] at hc
      exact ⟨h.1, ih os _ h.2 hc⟩

theorem attrSize_append_left (pre rest : List ColSpec) (a : Nat) (h : ∃ sp' ∈ pre, sp'.col = a) :
    attrSize (pre ++ rest) a = attrSize pre a := by
  unfold attrSize
  rw [List.find?_append]
  cases hf : pre.find? (fun sp => sp.col == a) with
  | none =>
    obtain ⟨sp', hsp', e⟩ := h
    have := List.find?_eq_none.1 hf sp' hsp'
    simp [e] at this
  | some s => rfl

theorem specAt_append_left (pre rest : List ColSpec) (j : Nat) (hj : j < pre.length) :
    specAt (pre ++ rest) j = specAt pre j := by
  unfold specAt
  rw [List.getD_eq_getElem?_getD, List.getD_eq_getElem?_getD, List.getElem?_append_left hj]

theorem specAt_append_length (pre : List ColSpec) (sp : ColSpec) (sps : List ColSpec) :
    specAt (pre ++ sp :: sps) pre.length = sp := by
  unfold specAt
  rw [List.getD_eq_getElem?_getD, List.getElem?_append_right (Nat.le_refl _), Nat.sub_self]
  rfl

/-! ### nonnegativity -/

theorem getD_nonneg (l : List Rat) (h : ∀ c ∈ l, (0 : Rat) ≤ c) (i : Nat) : 0 ≤ l.getD i 0 := by
  by_cases hi : i < l.length
  · rw [List.getD_eq_getElem?_getD, List.getElem?_eq_getElem hi, Option.getD_some]
    exact h _ (List.getElem_mem hi)
  · rw [List.getD_eq_getElem?_getD, List.getElem?_eq_none (not_lt.1 hi), Option.getD_none]

theorem mu_nonneg (specs : List ColSpec) (hnn : ∀ sp ∈ specs, ∀ g, ∀ c ∈ sp.cond g, (0 : Rat) ≤ c)
    (j : Nat) (hj : j < specs.length) (g : List Nat) (v : Nat) : 0 ≤ mu specs j g v := by
  unfold mu
  exact getD_nonneg _ (hnn _ (specAt_mem specs j hj) g) v

/-- a sum of nonnegative masses over a fibre containing a cell of positive mass is positive -/
theorem fiber_sum_pos (specs : List ColSpec)
    (hnn : ∀ sp ∈ specs, ∀ g, ∀ c ∈ sp.cond g, (0 : Rat) ≤ c) (j : Nat) (hj : j < specs.length)
    (cells : List (List Nat)) (c : List Nat) (hc : c ∈ cells)
    (hpos : 0 < mu specs j c.dropLast (c.getLastD 0)) :
    0 < (cells.map (fun c => mu specs j c.dropLast (c.getLastD 0))).sum := by
  refine lt_of_lt_of_le hpos (List.single_le_sum ?_ _ (List.mem_map.2 ⟨c, hc, rfl⟩))
  intro x hx
  obtain ⟨c', _, rfl⟩ := List.mem_map.1 hx
  exact mu_nonneg specs hnn j hj _ _

/-! ### the single step -/

/-- the cell of the clique of an earlier step in which a row of an admissible prefix run lies has
positive mass -/
theorem row_cell_pos (ncols total : Nat) (pre : List ColSpec) (outsPre : List (List (List Nat)))
    (hwf : specsWF ncols [] pre = true)
    (hok : outsOK ncols total pre outsPre (List.replicate total (List.replicate ncols 0)) = true)
    (hnn : ∀ sp ∈ pre, ∀ g, ∀ c ∈ sp.cond g, (0 : Rat) ≤ c)
    (sj : ColSpec) (hsj : sj ∈ pre) (r : Row)
    (hr : r ∈ run pre outsPre (List.replicate total (List.replicate ncols 0))) :
    0 < (sj.cond (key sj.pos r).dropLast).getD ((key sj.pos r).getLastD 0) 0 := by
  have hkey : key sj.pos r = key sj.proj r ++ [r.getD sj.col 0] := by
    unfold ColSpec.pos; rw [key_append, key_singleton]
  rw [hkey, List.dropLast_concat, List.getLastD_concat]
  refine lt_of_le_of_ne (getD_nonneg _ (hnn sj hsj _) _) (Ne.symm ?_)
  intro hz
  have h0 := synthTable_support ncols total pre outsPre hwf hok sj hsj (key sj.proj r)
    (r.getD sj.col 0) hz
  rw [synthTable_eq_run] at h0
  have hp := cellCount_pos_of_mem (sj.proj ++ [sj.col]) (key sj.proj r ++ [r.getD sj.col 0]) _
    (List.mem_map.2 ⟨r, hr, hkey⟩)
  omega

/-- **single step**: if the first `k = pre.length` steps are `outsOK`, every key of step `k`
occurring in the table built by the prefix has a `CountsOK` slice (and so has `[]` when the step is
unconditional) -/
theorem slice_countsOK (ncols total : Nat) (specs : List ColSpec) (parent : Nat → Nat) (S : Rat)
    (hS : 0 < S) (hwf : specsWF ncols [] specs = true) (hch : chainWF specs parent = true)
    (hcons : margConsistent specs parent S = true)
    (hnn : ∀ sp ∈ specs, ∀ g, ∀ c ∈ sp.cond g, (0 : Rat) ≤ c)
    (pre : List ColSpec) (sp : ColSpec) (sps : List ColSpec) (outsPre : List (List (List Nat)))
    (hsplit : specs = pre ++ sp :: sps)
    (hok : outsOK ncols total pre outsPre (List.replicate total (List.replicate ncols 0)) = true) :
    (∀ g ∈ groupKeys sp.proj (run pre outsPre (List.replicate total (List.replicate ncols 0))),
      CountsOK (sp.cond g)) ∧ (sp.proj = [] → CountsOK (sp.cond [])) := by
  have hk : pre.length < specs.length := by rw [hsplit]; simp
  have hsp : specAt specs pre.length = sp := by rw [hsplit]; exact specAt_append_length pre sp sps
  have hmem : sp ∈ specs := by rw [hsplit]; simp
  have hnnsp : ∀ g, ∀ c ∈ sp.cond g, (0 : Rat) ≤ c := hnn sp hmem
  by_cases hroot : sp.proj = []
  · have hs := margConsistent_root specs parent S hcons pre.length hk (by rw [hsp]; exact hroot)
    rw [hsp] at hs
    have hC : CountsOK (sp.cond []) := ⟨hnnsp [], by rw [hs]; exact hS⟩
    refine ⟨fun g hg => ?_, fun _ => hC⟩
    rw [mem_groupKeys] at hg
    obtain ⟨r, _, rfl⟩ := List.mem_map.1 hg
    have : key sp.proj r = [] := by rw [hroot]; rfl
    rw [this]; exact hC
  · refine ⟨fun g hg => ⟨hnnsp g, ?_⟩, fun h => absurd h hroot⟩
    have hroot' : (specAt specs pre.length).proj ≠ [] := by rw [hsp]; exact hroot
    obtain ⟨hj, hsub⟩ := chainWF_step specs parent hch pre.length hk hroot'
    rw [hsp] at hsub
    have hjs : parent pre.length < specs.length := Nat.lt_trans hj hk
    have hsj : specAt specs (parent pre.length) = specAt pre (parent pre.length) := by
      rw [hsplit]; exact specAt_append_left pre _ _ hj
    have hsjmem : specAt pre (parent pre.length) ∈ pre := specAt_mem pre _ hj
    have hwfpre : specsWF ncols [] pre = true :=
      specsWF_append_left ncols [] pre (sp :: sps) (hsplit ▸ hwf)
    have hnnpre : ∀ s ∈ pre, ∀ g, ∀ c ∈ s.cond g, (0 : Rat) ≤ c := by
      intro s hs; exact hnn s (by rw [hsplit]; exact List.mem_append_left _ hs)
    rw [mem_groupKeys] at hg
    obtain ⟨r, hr, rfl⟩ := List.mem_map.1 hg
    -- the row lies in the domain of the parent's clique
    have hdom : ∀ a ∈ (specAt specs (parent pre.length)).pos, r.getD a 0 < attrSize specs a := by
      intro a ha
      rw [hsj] at ha
      have hgen := pos_generated ncols pre hwfpre _ hsjmem a ha
      have hsz : attrSize specs a = attrSize pre a := by
        rw [hsplit]; exact attrSize_append_left pre _ a hgen
      rw [hsz]
      exact attrSize_dom ncols total pre outsPre hwfpre hok _ hsjmem r
        (by rw [synthTable_eq_run]; exact hr) a ha
    have hg_mem : key sp.proj r ∈ tuplesOver (attrSize specs) (specAt specs pre.length).proj := by
      rw [hsp]
      exact key_mem_tuplesOver _ _ r (fun a ha => hdom a (hsub a ha))
    have hfib : key (specAt specs (parent pre.length)).pos r ∈
        fiber specs (specAt specs (parent pre.length)) sp (key sp.proj r) := by
      unfold fiber
      rw [List.mem_filter]
      refine ⟨key_mem_tuplesOver _ _ r hdom, ?_⟩
      rw [restrict_key _ _ r hsub]
      exact beq_self_eq_true _
    have heq := margConsistent_step specs parent S hcons pre.length hk hroot' (key sp.proj r) hg_mem
    rw [hsp] at heq
    rw [heq]
    refine fiber_sum_pos specs hnn _ hjs _ _ hfib ?_
    unfold mu
    rw [hsj]
    exact row_cell_pos ncols total pre outsPre hwfpre hok hnnpre _ hsjmem r hr

/-! ### from the conditional admissibility of a step to `colOutsOK` -/

theorem colOutsOK_of_cond (sp : ColSpec) (rows : List Row) (o : List (List Nat))
    (hlen : o.length = (groupKeys sp.proj rows).length)
    (h : ∀ ko ∈ List.zip (groupKeys sp.proj rows) o, CountsOK (sp.cond ko.1) →
      ColGood sp ko.1 (groupSize sp.proj ko.1 rows) ko.2)
    (hgood : ∀ g ∈ groupKeys sp.proj rows, CountsOK (sp.cond g)) : colOutsOK sp rows o = true := by
  rw [colOutsOK_unpack]
  refine ⟨hlen, fun g og hm => ?_⟩
  have hg : g ∈ groupKeys sp.proj rows := (List.of_mem_zip hm).1
  obtain ⟨a, b, c, d⟩ := h (g, og) hm (hgood g hg)
  exact ⟨a, b, c, d⟩

/-! ### the induction along the run -/

theorem outsOK_of_outsCond_aux (ncols total : Nat) (specs : List ColSpec) (parent : Nat → Nat) (S : Rat)
    (hS : 0 < S) (hwf : specsWF ncols [] specs = true) (hch : chainWF specs parent = true)
    (hcons : margConsistent specs parent S = true)
    (hnn : ∀ sp ∈ specs, ∀ g, ∀ c ∈ sp.cond g, (0 : Rat) ≤ c) (rest : List ColSpec) :
    ∀ (pre : List ColSpec) (outsPre outsRest : List (List (List Nat))), specs = pre ++ rest →
      outsOK ncols total pre outsPre (List.replicate total (List.replicate ncols 0)) = true →
      OutsCond rest outsRest (run pre outsPre (List.replicate total (List.replicate ncols 0))) →
      outsOK ncols total rest outsRest
          (run pre outsPre (List.replicate total (List.replicate ncols 0))) = true ∧
        UsedGood CountsOK rest outsRest
          (run pre outsPre (List.replicate total (List.replicate ncols 0))) := by
  induction rest with
  | nil =>
    intro pre outsPre outsRest _ _ hc
    cases outsRest with
    | nil => exact ⟨by simp [outsOK], by simp [UsedGood]⟩
    | cons o os => simp [OutsCond] at hc
  | cons sp sps ih =>
    intro pre outsPre outsRest hs hok hc
    cases outsRest with
    | nil => simp [OutsCond] at hc
    | cons o os =>
      simp only [OutsCond] at hc
      obtain ⟨⟨hlen, hgood⟩, hrest⟩ := hc
      obtain ⟨h1, h2⟩ := slice_countsOK ncols total specs parent S hS hwf hch hcons hnn pre sp sps
        outsPre hs hok
      have hcol := colOutsOK_of_cond sp _ o hlen hgood h1
      have hlenpre := outsOK_length _ _ _ _ _ hok
      have hok' := outsOK_snoc ncols total pre outsPre sp o _ hok hcol
      have hrun := run_snoc pre outsPre sp o (List.replicate total (List.replicate ncols 0)) hlenpre
      have hnext := ih (pre ++ [sp]) (outsPre ++ [o]) os (by rw [hs, List.append_assoc]; rfl) hok'
        (by rw [hrun]; exact hrest)
      rw [hrun] at hnext
      refine ⟨(outsOK_cons _ _ _ _ _ _ _).2 ⟨hcol, hnext.1⟩, ?_⟩
      simp only [UsedGood]
      exact ⟨⟨h1, h2⟩, hnext.2⟩

/-- **the support induction** -/
theorem outsOK_of_outsCond (ncols total : Nat) (specs : List ColSpec) (outs : List (List (List Nat)))
    (parent : Nat → Nat) (S : Rat) (hS : 0 < S)
    (hwf : specsWF ncols [] specs = true) (hch : chainWF specs parent = true)
    (hcons : margConsistent specs parent S = true)
    (hnn : ∀ sp ∈ specs, ∀ g, ∀ c ∈ sp.cond g, (0 : Rat) ≤ c)
    (hc : OutsCond specs outs (List.replicate total (List.replicate ncols 0))) :
    outsOK ncols total specs outs (List.replicate total (List.replicate ncols 0)) = true ∧
    UsedGood CountsOK specs outs (List.replicate total (List.replicate ncols 0)) := by
  have := outsOK_of_outsCond_aux ncols total specs parent S hS hwf hch hcons hnn specs [] [] outs
    (List.nil_append _).symm (by simp [outsOK]) (by rw [run_nil_left]; exact hc)
  rw [run_nil_left] at this
  exact this

/-! ### the converse direction on outcomes: `outsOK` implies `OutsCond` -/

theorem outsCond_of_outsOK (ncols total : Nat) (specs : List ColSpec) (outs : List (List (List Nat)))
    (rows : List Row) (h : outsOK ncols total specs outs rows = true) : OutsCond specs outs rows := by
  induction specs generalizing outs rows with
  | nil =>
    cases outs with
    | nil => simp [OutsCond]
    | cons o os => simp [outsOK] at h
  | cons sp sps ih =>
    cases outs with
    | nil => simp [outsOK] at h
    | cons o os =>
      rw [outsOK_cons] at h
      obtain ⟨hcol, hrest⟩ := h
      rw [colOutsOK_unpack] at hcol
      simp only [OutsCond]
      refine ⟨⟨hcol.1, fun ko hm _ => ?_⟩, ih os _ hrest⟩
      obtain ⟨a, b, c, d⟩ := hcol.2 ko.1 ko.2 hm
      exact ⟨a, b, c, d⟩

/-! ### sanity: the hypotheses are satisfiable on the concrete chain of `Properties/C11B.lean` -/

example :
    outsOK 3 5 C11.exSpecs C11.exOuts (List.replicate 5 (List.replicate 3 0)) = true ∧
    UsedGood CountsOK C11.exSpecs C11.exOuts (List.replicate 5 (List.replicate 3 0)) :=
  outsOK_of_outsCond 3 5 C11.exSpecs C11.exOuts C11.exParent 4 (by norm_num) C11.exSpecsWF
    C11.exChainWF C11.exMargConsistent C11.exNonneg
    (outsCond_of_outsOK 3 5 C11.exSpecs C11.exOuts _ C11.exOutsOK)

end PGM.GMQGen
