import PGM.Proofs.Semantics
import PGM.Proofs.VECorrect
import PGM.Proofs.BPCorrect
import PGM.Model.Solvers
/-! statements for C08 (the returned model is one coherent distribution) -/
namespace PGM.Coherent
open PGM PGM.JT PGM.GM PGM.Sem PGM.Solvers

section solvers
variable {α : Type} [Scalar α]

/-- **mirror descent hands back a matching pair**: at every exit — any iteration count (0 included),
accepted or forced (25th) step, or the early `loss == 0` return — either the marginals are left
unset, or they are exactly `bp` of the returned parameters; for every oracle `bp` and every loss -/
theorem md_exit_pair (bp : CliqueVec α → CliqueVec α) (lossgrad : CliqueVec α → α × CliqueVec α)
    (iters : Nat) (theta0 : CliqueVec α) (alpha0 : α) :
    let r := mirrorDescent bp lossgrad iters theta0 alpha0
    r.marginals = none ∨ r.marginals = some (bp r.potentials) := by
  sorry

/-- dual averaging / interior gradient return the refit of the marginals they return (or leave the
marginals unset on the early return) -/
theorem rda_exit (bp : CliqueVec α → CliqueVec α) (grad mleF : CliqueVec α → CliqueVec α) (d : Dom)
    (cliques : List Clique) (zeros : CliqueVec α) (iters : Nat) (theta0 : CliqueVec α) (L total : α) :
    let r := dualAveraging bp grad mleF d cliques zeros iters theta0 L total
    r.marginals = none ∨ ∃ w, r.marginals = some w ∧ r.potentials = mleF w := by
  sorry

theorem ig_exit (bp : CliqueVec α → CliqueVec α) (grad mleF : CliqueVec α → CliqueVec α)
    (iters : Nat) (theta0 : CliqueVec α) (L total : α) :
    let r := interiorGradient bp grad mleF iters theta0 L total
    ∃ w, r.marginals = some w ∧ r.potentials = mleF w := by
  sorry
end solvers

variable {K : Type} [Field K] [LinearOrder K] [IsStrictOrderedRing K]

/-- `w` is the vector of clique marginals of one explicit nonnegative table `P` over the domain -/
def Realisable (d : Dom) (cliques : List Clique) (w : CliqueVec (PlainOf K)) : Prop :=
  w.map Prod.fst = cliques ∧ (∀ p ∈ w, p.2.WF ∧ p.2.dom = d.project p.1) ∧
  ∃ P : (Attr → Nat) → K, (∀ τ, 0 ≤ P τ) ∧
    (∀ τ τ', (∀ a ∈ d.attrs, τ a = τ' a) → P τ = P τ') ∧
    ∀ c ∈ cliques, ∀ σ, d.Valid σ → ((w.get c).sem σ).v = sumOver d (d.invert c) σ P

/-- the cliques are listed so that each one meets the union of the earlier ones inside a single
earlier clique (what DFS preorder of a junction tree gives; checked on the implementation's list) -/
def RIPOrder (cliques : List Clique) : Prop :=
  ∀ i (hi : i < cliques.length), 0 < i → ∃ j, j < i ∧
    ∀ a ∈ cliques[i], (∃ k, k < i ∧ a ∈ cliques.getD k []) → a ∈ cliques.getD j []

/-- carrier re-interpretation used as `logf` in `mle` at the exact instances (`tau = 0`) -/
def toLog (f : Factor (PlainOf K)) : Factor (LogOf K) := ⟨f.dom, ⟨f.vals.shape, f.vals.data.map (fun x => ⟨x.v⟩)⟩⟩

/-- what `belief_propagation` returns is realisable (by `total · joint / Z`) -/
theorem bp_realisable (d : Dom) (cliques : List Clique) (t : Tree) (order : List (Clique × Clique))
    (pots : CliqueVec (LogOf K)) (hok : ModelOK d cliques t order pots) (total : LogOf K)
    (hcanon : ∀ p ∈ pots, p.2.dom = d.project p.1) (htot : 0 ≤ total.v) (hZ : partition d pots ≠ 0) :
    Realisable d cliques ((beliefPropagation cliques order pots total).map (fun p => (p.1, toPlain p.2))) := by
  sorry

/-- nonnegative combinations of realisable vectors are realisable (the averaged iterates of RDA/IG) -/
theorem realisable_combination (d : Dom) (cliques : List Clique) (x y : CliqueVec (PlainOf K)) (a b : K)
    (hd : d.WF) (hcl : ∀ c ∈ cliques, c.Nodup ∧ ∀ a ∈ c, a ∈ d.attrs) (hcn : cliques.Nodup)
    (ha : 0 ≤ a) (hb : 0 ≤ b) (hx : Realisable d cliques x) (hy : Realisable d cliques y) :
    Realisable d cliques (CliqueVec.addV (CliqueVec.smul ⟨a⟩ x) (CliqueVec.smul ⟨b⟩ y)) := by
  sorry

/-- total mass of a marginal vector, read off a clique table -/
def mass (d : Dom) (w : CliqueVec (PlainOf K)) (c : Clique) : K :=
  sumOver d c (fun _ => 0) (fun τ => ((w.get c).sem τ).v)

/-- **refit round trip**: for a junction tree whose cliques are listed in a running-intersection
order and any realisable marginal vector `w` of positive total mass `T`, the parameters `mle w`
(`tau = 0`, `0/0 = 0`) define a *normalised* distribution (`Z = 1`) whose clique marginals are
`w / T`; hence `belief_propagation(mle w)` with the model total `T` returns exactly `w` again: the
stored marginals equal the marginals implied by the stored parameters -/
theorem mle_roundtrip (d : Dom) (cliques : List Clique) (w : CliqueVec (PlainOf K))
    (hd : d.WF) (hcl : ∀ c ∈ cliques, c.Nodup ∧ ∀ a ∈ c, a ∈ d.attrs) (hcn : cliques.Nodup)
    (hcover : ∀ a ∈ d.attrs, ∃ c ∈ cliques, a ∈ c) (hsizes : ∀ p ∈ d, 0 < p.2)
    (hrip : RIPOrder cliques) (hw : Realisable d cliques w) (hT : 0 < mass d w (cliques.headD []))
    (c : Clique) (hc : c ∈ cliques) (σ : Attr → Nat) (hσ : d.Valid σ) :
    partition d (mle toLog cliques w) = 1 ∧
    marginal d (mle toLog cliques w) c σ = ((w.get c).sem σ).v / mass d w (cliques.headD []) := by
  sorry

end PGM.Coherent
