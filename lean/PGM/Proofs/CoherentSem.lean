import PGM.Proofs.Semantics
import PGM.Proofs.VECorrect
import PGM.Proofs.BPCorrect
import PGM.Model.Solvers
import PGM.Proofs.CoherentSolvers
import PGM.Proofs.CoherentFactor
import Mathlib.Data.List.GetD
/-! statements for C08 (the returned model is one coherent distribution) -/
namespace PGM.Coherent
open PGM PGM.JT PGM.GM PGM.Sem PGM.Solvers
set_option linter.unusedSectionVars false
set_option linter.unusedVariables false

section solvers
variable {α : Type} [Scalar α]

/-- **mirror descent hands back a matching pair**: at every exit — any iteration count (0 included),
accepted or forced (25th) step, or the early `loss == 0` return — either the marginals are left
unset, or they are exactly `bp` of the returned parameters; for every oracle `bp` and every loss -/
theorem md_exit_pair (bp : CliqueVec α → CliqueVec α) (lossgrad : CliqueVec α → α × CliqueVec α)
    (iters : Nat) (theta0 : CliqueVec α) (alpha0 : α) :
    let r := mirrorDescent bp lossgrad iters theta0 alpha0
    r.marginals = none ∨ r.marginals = some (bp r.potentials) :=
  md_exit_pair_aux bp lossgrad iters theta0 alpha0

/-- dual averaging / interior gradient return the refit of the marginals they return (or leave the
marginals unset on the early return) -/
theorem rda_exit (bp : CliqueVec α → CliqueVec α) (grad mleF : CliqueVec α → CliqueVec α) (d : Dom)
    (cliques : List Clique) (zeros : CliqueVec α) (iters : Nat) (theta0 : CliqueVec α) (L total : α) :
    let r := dualAveraging bp grad mleF d cliques zeros iters theta0 L total
    r.marginals = none ∨ ∃ w, r.marginals = some w ∧ r.potentials = mleF w :=
  rda_exit_aux bp grad mleF d cliques zeros iters theta0 L total

theorem ig_exit (bp : CliqueVec α → CliqueVec α) (grad mleF : CliqueVec α → CliqueVec α)
    (iters : Nat) (theta0 : CliqueVec α) (L total : α) :
    let r := interiorGradient bp grad mleF iters theta0 L total
    ∃ w, r.marginals = some w ∧ r.potentials = mleF w :=
  ig_exit_aux bp grad mleF iters theta0 L total
end solvers

variable {K : Type} [Field K] [LinearOrder K] [IsStrictOrderedRing K]

/-- `w` is the vector of clique marginals of one explicit nonnegative table `P` over the domain -/
def Realisable (d : Dom) (cliques : List Clique) (w : CliqueVec (PlainOf K)) : Prop :=
  w.map Prod.fst = cliques ∧ (∀ p ∈ w, p.2.WF ∧ p.2.dom = d.project p.1) ∧
  ∃ P : (Attr → Nat) → K, (∀ τ, 0 ≤ P τ) ∧
    (∀ τ τ', (∀ a ∈ d.attrs, τ a = τ' a) → P τ = P τ') ∧
    ∀ c ∈ cliques, ∀ σ, d.Valid σ → ((w.get c).sem σ).v = sumOver d (d.invert c) σ P

/-- the cliques are listed so that each one meets the union of the earlier ones inside a single
earlier clique (what DFS preorder of a junction tree gives; checked on the implementation's list) -/
def RIPOrder (cliques : List Clique) : Prop :=
  ∀ i (hi : i < cliques.length), 0 < i → ∃ j, j < i ∧
    ∀ a ∈ cliques[i], (∃ k, k < i ∧ a ∈ cliques.getD k []) → a ∈ cliques.getD j []

/-- carrier re-interpretation used as `logf` in `mle` at the exact instances (`tau = 0`) -/
def toLog (f : Factor (PlainOf K)) : Factor (LogOf K) := ⟨f.dom, ⟨f.vals.shape, f.vals.data.map (fun x => ⟨x.v⟩)⟩⟩

/-- what `belief_propagation` returns is realisable (by `total · joint / Z`) -/
theorem bp_realisable (d : Dom) (cliques : List Clique) (t : Tree) (order : List (Clique × Clique))
    (pots : CliqueVec (LogOf K)) (hok : ModelOK d cliques t order pots) (total : LogOf K)
    (hcanon : ∀ p ∈ pots, p.2.dom = d.project p.1) (htot : 0 ≤ total.v) (hZ : partition d pots ≠ 0) :
    Realisable d cliques ((beliefPropagation cliques order pots total).map (fun p => (p.1, toPlain p.2))) := by
  have hd := hok.dom_wf
  have mk := BP.mok_of_modelOK d cliques t order pots hok
  have hbpkeys : (beliefPropagation cliques order pots total).map Prod.fst = cliques := by
    unfold beliefPropagation
    dsimp only
    rw [List.map_map]
    exact List.map_id' _
  -- the table returned for a clique
  have hget : ∀ c ∈ cliques, (beliefPropagation cliques order pots total).get c
      = (((bpLoop order pots).1.get c).iaddScalar
          (Scalar.sub (Scalar.log total) (logZ cliques order pots))).exp := by
    intro c hc
    unfold beliefPropagation CliqueVec.get
    dsimp only
    rw [BP.lookup_map_self cliques _ c hc]
    rfl
  have htab : ∀ c ∈ cliques, ((beliefPropagation cliques order pots total).get c).WF ∧
      ((beliefPropagation cliques order pots total).get c).dom = d.project c := by
    intro c hc
    have hcn : c ∈ t.nodes := by rw [hok.nodes]; exact hc
    obtain ⟨hbw, hbd, _⟩ := BP.final_belief mk c hcn
    rw [hget c hc]
    refine ⟨iaddScalar_exp_WF _ _ hbw, ?_⟩
    show ((bpLoop order pots).1.get c).dom = _
    rw [hbd]
    exact hcanon _ (get_mem pots c (by rw [hok.keys]; exact hc))
  have hwget : ∀ c ∈ cliques,
      CliqueVec.get ((beliefPropagation cliques order pots total).map (fun p => (p.1, toPlain p.2))) c
        = toPlain ((beliefPropagation cliques order pots total).get c) := by
    intro c hc
    exact get_map_of_mem (beliefPropagation cliques order pots total) (fun _ f => toPlain f) c
      (by rw [hbpkeys]; exact hc)
  refine ⟨?_, ?_, fun τ => total.v * joint pots τ / partition d pots, ?_, ?_, ?_⟩
  · rw [keys_map _ (fun _ f => toPlain f)]
    exact hbpkeys
  · intro p hp
    have hp1 : p.1 ∈ cliques := by
      rw [← hbpkeys, ← keys_map _ (fun _ f => toPlain f)]
      exact List.mem_map_of_mem hp
    obtain ⟨q, hq, rfl⟩ := List.mem_map.mp hp
    have hq1 : q.1 ∈ cliques := hp1
    have hq2 : q.2 = (beliefPropagation cliques order pots total).get q.1 := by
      have hnd : ((beliefPropagation cliques order pots total).map Prod.fst).Nodup := by
        rw [hbpkeys, ← hok.nodes]
        exact (treeFacts t (BP.isTree_of_check hok.jt)).nodes_nodup
      exact (BP.get_of_lookup _ _ _ (BP.lookup_of_nodup_keys _ hnd q hq)).symm
    obtain ⟨h1, h2⟩ := htab q.1 hq1
    show (toPlain q.2).WF ∧ (toPlain q.2).dom = d.project q.1
    rw [hq2]
    exact ⟨toPlain_WF _ h1, h2⟩
  · intro τ
    apply div_nonneg (mul_nonneg htot (joint_nonneg hok τ))
    exact sumOver_nonneg d _ _ _ (fun _ _ => joint_nonneg hok _)
  · intro τ τ' hττ
    have hdep : DependsOn (joint pots) d.attrs := by
      have := dependsOn_prod (fun x : LogOf K => x.v) (pots.map Prod.snd) d.attrs (by
        intro f hf a ha
        obtain ⟨p, hp, rfl⟩ := List.mem_map.mp hf
        have hp1 : p.1 ∈ cliques := by rw [← hok.keys]; exact List.mem_map_of_mem hp
        exact (hok.clique_ok p.1 hp1).2 a ((hok.pot_ok p hp).2.1.mem_iff.mp ha))
      intro σ σ' h
      rw [← prod_snd_eq_joint, ← prod_snd_eq_joint]
      exact this σ σ' h
    show total.v * joint pots τ / partition d pots = total.v * joint pots τ' / partition d pots
    rw [hdep τ τ' hττ]
  · intro c hc σ hσ
    obtain ⟨h1, h2⟩ := htab c hc
    obtain ⟨hOK, _⟩ := factorOK_of_dom d _ c h1 h2 (hok.clique_ok c hc).2
    rw [hwget c hc, toPlain_sem _ h1 σ (hOK.valid hd hσ),
      (BP.bp_marginals d cliques t order pots hok total hZ c hc σ hσ).2]
    show _ = sumOver d (d.invert c) σ (fun τ => total.v * joint pots τ / partition d pots)
    rw [sumOver_div, sumOver_mul_left]
    rfl

/-- nonnegative combinations of realisable vectors are realisable (the averaged iterates of RDA/IG) -/
theorem realisable_combination (d : Dom) (cliques : List Clique) (x y : CliqueVec (PlainOf K)) (a b : K)
    (hd : d.WF) (hcl : ∀ c ∈ cliques, c.Nodup ∧ ∀ a ∈ c, a ∈ d.attrs) (hcn : cliques.Nodup)
    (ha : 0 ≤ a) (hb : 0 ≤ b) (hx : Realisable d cliques x) (hy : Realisable d cliques y) :
    Realisable d cliques (CliqueVec.addV (CliqueVec.smul ⟨a⟩ x) (CliqueVec.smul ⟨b⟩ y)) := by
  obtain ⟨hxk, hxw, Px, hPx0, hPxd, hPx⟩ := hx
  obtain ⟨hyk, hyw, Py, hPy0, hPyd, hPy⟩ := hy
  -- the scaled tables
  have hsm : ∀ (s : K) (z : CliqueVec (PlainOf K)), z.map Prod.fst = cliques →
      (∀ p ∈ z, p.2.WF ∧ p.2.dom = d.project p.1) → ∀ c ∈ cliques,
      (CliqueVec.smul ⟨s⟩ z).get c = (z.get c).mulScalar ⟨s⟩ ∧
      ((z.get c).mulScalar ⟨s⟩).WF ∧ ((z.get c).mulScalar ⟨s⟩).dom = d.project c ∧
      ∀ σ, d.Valid σ → ((((z.get c).mulScalar ⟨s⟩)).sem σ).v = s * ((z.get c).sem σ).v := by
    intro s z hzk hzw c hc
    have hm := get_mem z c (by rw [hzk]; exact hc)
    obtain ⟨h1, h2⟩ := hzw _ hm
    obtain ⟨hOK, _⟩ := factorOK_of_dom d _ c h1 h2 (hcl c hc).2
    refine ⟨get_map_of_mem z (fun _ f => f.mulScalar (⟨s⟩ : PlainOf K)) c (by rw [hzk]; exact hc),
      mapVals_WF _ _ h1, h2, fun σ hσ => ?_⟩
    show ((Factor.mk' (z.get c).dom ((z.get c).vals.map
      (fun v => Scalar.nanToNum (Scalar.mul ⟨s⟩ v)))).sem σ).v = _
    rw [sem_mapVals _ _ σ h1 (hOK.valid hd hσ)]
    rfl
  have hkeys1 : (CliqueVec.smul (⟨a⟩ : PlainOf K) x).map Prod.fst = cliques := by
    rw [← hxk]; exact keys_map x (fun _ f => f.mulScalar (⟨a⟩ : PlainOf K))
  have hzget : ∀ c ∈ cliques,
      (CliqueVec.addV (CliqueVec.smul ⟨a⟩ x) (CliqueVec.smul ⟨b⟩ y)).get c
        = ((x.get c).mulScalar ⟨a⟩).add ((y.get c).mulScalar ⟨b⟩) := by
    intro c hc
    have := get_map_of_mem (CliqueVec.smul (⟨a⟩ : PlainOf K) x)
      (fun k f => f.add ((CliqueVec.smul (⟨b⟩ : PlainOf K) y).get k)) c (by rw [hkeys1]; exact hc)
    show CliqueVec.get (List.map _ _) c = _
    rw [this, (hsm a x hxk hxw c hc).1, (hsm b y hyk hyw c hc).1]
  have hztab : ∀ c ∈ cliques,
      (((x.get c).mulScalar ⟨a⟩).add ((y.get c).mulScalar ⟨b⟩)).WF ∧
      (((x.get c).mulScalar ⟨a⟩).add ((y.get c).mulScalar ⟨b⟩)).dom = d.project c := by
    intro c hc
    obtain ⟨_, h1, h2, _⟩ := hsm a x hxk hxw c hc
    obtain ⟨_, h3, h4, _⟩ := hsm b y hyk hyw c hc
    obtain ⟨h5, h6⟩ := binop_same_dom Scalar.add _ _ h1 h3 (h4.trans h2.symm)
    exact ⟨h5, h6.trans h2⟩
  refine ⟨?_, ?_, fun τ => a * Px τ + b * Py τ, ?_, ?_, ?_⟩
  · rw [← hkeys1]
    exact keys_map _ (fun k f => f.add ((CliqueVec.smul (⟨b⟩ : PlainOf K) y).get k))
  · intro p hp
    unfold CliqueVec.addV at hp
    obtain ⟨q, hq, rfl⟩ := List.mem_map.mp hp
    have hq1 : q.1 ∈ cliques := by rw [← hkeys1]; exact List.mem_map_of_mem hq
    unfold CliqueVec.smul at hq
    obtain ⟨r, hr, rfl⟩ := List.mem_map.mp hq
    have hr1 : r.1 ∈ cliques := hq1
    have hr2 : r.2 = x.get r.1 := by
      have hnd : (x.map Prod.fst).Nodup := by rw [hxk]; exact hcn
      exact (BP.get_of_lookup _ _ _ (BP.lookup_of_nodup_keys _ hnd r hr)).symm
    dsimp only
    rw [(hsm b y hyk hyw r.1 hr1).1, hr2]
    exact hztab r.1 hr1
  · intro τ
    exact add_nonneg (mul_nonneg ha (hPx0 τ)) (mul_nonneg hb (hPy0 τ))
  · intro τ τ' h
    show a * Px τ + b * Py τ = a * Px τ' + b * Py τ'
    rw [hPxd τ τ' h, hPyd τ τ' h]
  · intro c hc σ hσ
    obtain ⟨_, h1, h2, h3⟩ := hsm a x hxk hxw c hc
    obtain ⟨_, h4, h5, h6⟩ := hsm b y hyk hyw c hc
    obtain ⟨hOK1, _⟩ := factorOK_of_dom d _ c h1 h2 (hcl c hc).2
    obtain ⟨hOK2, _⟩ := factorOK_of_dom d _ c h4 h5 (hcl c hc).2
    rw [hzget c hc]
    show ((Factor.binop Scalar.add ((x.get c).mulScalar (⟨a⟩ : PlainOf K)) ((y.get c).mulScalar ⟨b⟩)).sem σ).v = _
    rw [sem_binop_ok Scalar.add hd hOK1 hOK2 hσ, plain_add_v, h3 σ hσ, h6 σ hσ, hPx c hc σ hσ,
      hPy c hc σ hσ, ← sumOver_mul_left, ← sumOver_mul_left, ← sumOver_add]

/-- total mass of a marginal vector, read off a clique table -/
def mass (d : Dom) (w : CliqueVec (PlainOf K)) (c : Clique) : K :=
  sumOver d c (fun _ => 0) (fun τ => ((w.get c).sem τ).v)

/-! ### helpers for the round trip -/

theorem toLog_WF (f : Factor (PlainOf K)) (hf : f.WF) : (toLog f).WF :=
  ⟨hf.1, hf.2.1, NdArr.map_WF (fun x : PlainOf K => (⟨x.v⟩ : LogOf K)) f.vals hf.2.2⟩

theorem toLog_sem (f : Factor (PlainOf K)) (hf : f.WF) (σ : Attr → Nat) (hσ : f.dom.Valid σ) :
    ((toLog f).sem σ).v = (f.sem σ).v := by
  unfold Factor.sem
  show ((f.vals.map (fun x : PlainOf K => (⟨x.v⟩ : LogOf K))).get (f.dom.attrs.map σ)).v = _
  rw [NdArr.get_map _ _ _ hf.2.2 (by rw [hf.2.1]; exact Factor.inRange_of_valid _ hf.1 σ hσ)]

theorem toLog_OK {d : Dom} (f : Factor (PlainOf K)) (hf : FactorOK d f) : FactorOK d (toLog f) :=
  ⟨toLog_WF f hf.1, hf.2.1, hf.2.2⟩

/-- the clique tables read as functions of the assignment -/
def Wof (w : CliqueVec (PlainOf K)) : Clique → (Attr → Nat) → K := fun c τ => ((w.get c).sem τ).v

/-- one step of `mle` -/
def mleStep (w : CliqueVec (PlainOf K)) (st : List Attr × CliqueVec (LogOf K)) (cl : Clique) :
    List Attr × CliqueVec (LogOf K) :=
  (JT.union st.1 cl, st.2 ++ [(cl, (toLog (w.get cl)).sub
    (toLog ((w.get cl).projectSum (cl.filter (fun a => st.1.contains a)))))])

theorem mle_eq (cliques : List Clique) (w : CliqueVec (PlainOf K)) :
    mle toLog cliques w = (cliques.foldl (mleStep w) ([], [])).2 := rfl

/-- exp-space value of one refit potential -/
theorem pot_sem (d : Dom) (hd : d.WF) (m : Factor (PlainOf K)) (c : Clique) (hm : m.WF)
    (hdom : m.dom = d.project c) (hcn : c.Nodup) (hsub : ∀ a ∈ c, a ∈ d.attrs) (vars : List Attr)
    (τ : Attr → Nat) (hτ : d.Valid τ) :
    (((toLog m).sub (toLog (m.projectSum (sepOf vars c)))).sem τ).v
      = (m.sem τ).v * inv' (sumOver d (restOf vars c) τ (fun ρ => (m.sem ρ).v)) := by
  obtain ⟨hOK, hattrs⟩ := factorOK_of_dom d m c hm hdom hsub
  have hnd : (sepOf vars c).Nodup := List.Nodup.sublist List.filter_sublist hcn
  have hsub' : ∀ a ∈ sepOf vars c, a ∈ m.dom.attrs := by
    intro a ha; rw [hattrs]; exact ((mem_sepOf vars c a).mp ha).1
  have hP : FactorOK d (m.projectSum (sepOf vars c)) :=
    FactorOK.project Scalar.sum (sepOf vars c) hOK hnd hsub'
  have h1 := toLog_OK m hOK
  have h2 := toLog_OK _ hP
  have hv : ((toLog m).dom.merge (toLog (m.projectSum (sepOf vars c))).dom).Valid τ := by
    have := (FactorOK.binop Scalar.add h1 h2).valid hd hτ
    rwa [Factor.binop_dom] at this
  rw [Factor.sem_sub _ _ τ h1.1 h2.1 (h1.compatible h2) hv, log_add_v, negInfAware_v,
    toLog_sem m hm τ (hOK.valid hd hτ), toLog_sem _ hP.1 τ (hP.valid hd hτ)]
  congr 2
  show ((Factor.project Scalar.sum m (sepOf vars c)).sem τ).v = _
  rw [val_sem_project Scalar.sum (fun x : PlainOf K => x.v) plain_sum_v hd hOK _ hnd hsub' hτ]
  have : m.dom.invert (sepOf vars c) = restOf vars c := by
    unfold Dom.invert restOf
    rw [hattrs]
  rw [this]

/-- the running-intersection order, read latest clique first -/
theorem ripr_of_prefix (cliques : List Clique) (hrip : RIPOrder cliques) :
    ∀ rl : List Clique, rl.reverse <+: cliques → RIPr rl := by
  intro rl
  induction rl with
  | nil => intro _; trivial
  | cons c r ih =>
    intro hpre
    obtain ⟨t, ht⟩ := hpre
    have hpre' : r.reverse <+: cliques := ⟨[c] ++ t, by rw [← ht]; simp⟩
    refine ⟨?_, ih hpre'⟩
    by_cases hr : r = []
    · exact Or.inl hr
    · right
      have hlen : r.length < cliques.length := by rw [← ht]; simp
      have hpos : 0 < r.length := List.length_pos_iff.mpr hr
      have hci : cliques[r.length] = c := by
        subst ht
        simp
      have hgetD : ∀ k, k < r.length → cliques.getD k [] = r.reverse.getD k [] := by
        intro k hk
        rw [← ht, List.reverse_cons, List.append_assoc]
        exact List.getD_append _ _ _ _ (by simpa using hk)
      obtain ⟨j, hj, hprop⟩ := hrip r.length hlen hpos
      have hjl : j < r.reverse.length := by simpa using hj
      refine ⟨r.reverse[j], List.mem_reverse.mp (List.getElem_mem hjl), ?_⟩
      intro a ha hex
      obtain ⟨ck, hck, hack⟩ := hex
      obtain ⟨k, hk, hkeq⟩ := List.getElem_of_mem (List.mem_reverse.mpr hck)
      have hk' : k < r.length := by simpa using hk
      have := hprop a (by rw [hci]; exact ha)
        ⟨k, hk', by rw [hgetD k hk', List.getD_eq_getElem _ _ hk, hkeq]; exact hack⟩
      rwa [hgetD j hj, List.getD_eq_getElem _ _ hjl] at this

/-- **refit round trip**: for a junction tree whose cliques are listed in a running-intersection
order and any realisable marginal vector `w` of positive total mass `T`, the parameters `mle w`
(`tau = 0`, `0/0 = 0`) define a *normalised* distribution (`Z = 1`) whose clique marginals are
`w / T`; hence `belief_propagation(mle w)` with the model total `T` returns exactly `w` again: the
stored marginals equal the marginals implied by the stored parameters -/
theorem mle_roundtrip (d : Dom) (cliques : List Clique) (w : CliqueVec (PlainOf K))
    (hd : d.WF) (hcl : ∀ c ∈ cliques, c.Nodup ∧ ∀ a ∈ c, a ∈ d.attrs) (hcn : cliques.Nodup)
    (hcover : ∀ a ∈ d.attrs, ∃ c ∈ cliques, a ∈ c) (hsizes : ∀ p ∈ d, 0 < p.2)
    (hrip : RIPOrder cliques) (hw : Realisable d cliques w) (hT : 0 < mass d w (cliques.headD []))
    (c : Clique) (hc : c ∈ cliques) (σ : Attr → Nat) (hσ : d.Valid σ) :
    partition d (mle toLog cliques w) = 1 ∧
    marginal d (mle toLog cliques w) c σ = ((w.get c).sem σ).v / mass d w (cliques.headD []) := by
  obtain ⟨hk, hwf, P, hP0, hPd, hPr⟩ := hw
  let σ0 : Attr → Nat := fun _ => 0
  have hσ0 : d.Valid σ0 := fun p hp => hsizes p hp
  have hne : cliques ≠ [] := List.ne_nil_of_mem hc
  have hhead : cliques.headD [] ∈ cliques := by
    cases cliques with
    | nil => exact absurd rfl hne
    | cons c0 cs => simp
  -- facts about the stored tables
  have htab : ∀ c ∈ cliques, (w.get c).WF ∧ (w.get c).dom = d.project c := by
    intro c hc
    exact hwf _ (get_mem w c (by rw [hk]; exact hc))
  -- every clique table has the same total mass
  have hinv0 : d.invert [] = d.attrs := by unfold Dom.invert; simp
  have hmass : ∀ c ∈ cliques, mass d w c = sumOver d d.attrs σ0 P := by
    intro c hc
    show sumOver d c σ0 (fun τ => ((w.get c).sem τ).v) = _
    rw [sumOver_congr_valid d hd _ σ0 _ _ hσ0 (fun τ hτ => hPr c hc τ hτ),
      marg_merge d hd P c [] c (hcl c hc).1 (fun _ h => h) (hcl c hc).2
        (fun a _ => by simp) σ0, hinv0]
  set T := mass d w (cliques.headD []) with hTdef
  have hT0 : T ≠ 0 := ne_of_gt hT
  have hyp : TreeHyp d (Wof w) P T cliques.reverse := by
    refine ⟨hd, hP0, hT0, ?_, ?_, ?_, ?_⟩
    · intro σ hσ
      rw [hTdef, hmass _ hhead]
      exact sumOver_base_congr_of_dependsOn d d.attrs d.attrs σ σ0 P hPd
        (fun a ha hn => absurd ha hn)
    · intro c hc; exact hcl c (List.mem_reverse.mp hc)
    · intro c hc σ τ h
      have hc' := List.mem_reverse.mp hc
      obtain ⟨h1, h2⟩ := htab c hc'
      show ((w.get c).sem σ).v = ((w.get c).sem τ).v
      rw [sem_congr (w.get c) σ τ (by rw [h2, Dom.attrs_project]; exact h)]
    · intro c hc σ hσ
      exact hPr c (List.mem_reverse.mp hc) σ hσ
  have hripr : RIPr cliques.reverse :=
    ripr_of_prefix cliques hrip cliques.reverse (by rw [List.reverse_reverse])
  -- the joint of the refit is the product of conditionals
  have hfold : ∀ rl : List Clique, (∀ c ∈ rl, c ∈ cliques) →
      (∀ a, a ∈ (rl.reverse.foldl (mleStep w) ([], [])).1 ↔ a ∈ rl.flatten) ∧
      ∀ τ, d.Valid τ → joint (rl.reverse.foldl (mleStep w) ([], [])).2 τ = Qr d (Wof w) rl τ := by
    intro rl
    induction rl with
    | nil =>
      intro _
      refine ⟨fun a => by simp, fun τ _ => ?_⟩
      simp [joint, Qr]
    | cons c r ih =>
      intro hsub
      obtain ⟨ih1, ih2⟩ := ih (fun c' hc' => hsub c' (List.mem_cons_of_mem _ hc'))
      have hcc : c ∈ cliques := hsub c (by simp)
      rw [List.reverse_cons, List.foldl_append]
      simp only [List.foldl_cons, List.foldl_nil]
      generalize (r.reverse.foldl (mleStep w) ([], [])) = st at ih1 ih2
      refine ⟨fun a => ?_, fun τ hτ => ?_⟩
      · show a ∈ JT.union st.1 c ↔ _
        rw [mem_union, ih1 a, List.flatten_cons, List.mem_append]
        tauto
      · show joint (st.2 ++ [(c, (toLog (w.get c)).sub
          (toLog ((w.get c).projectSum (sepOf st.1 c))))]) τ = Qr d (Wof w) r τ * potF d (Wof w) r.flatten c τ
        rw [joint_append, joint_single, ih2 τ hτ, sepOf_congr st.1 r.flatten c ih1,
          pot_sem d hd (w.get c) c (htab c hcc).1 (htab c hcc).2 (hcl c hcc).1 (hcl c hcc).2 _ τ hτ]
        rfl
  have hjoint : ∀ τ, d.Valid τ → joint (mle toLog cliques w) τ = Qr d (Wof w) cliques.reverse τ := by
    intro τ hτ
    have := (hfold cliques.reverse (fun c hc => List.mem_reverse.mp hc)).2 τ hτ
    rw [List.reverse_reverse] at this
    rw [mle_eq]
    exact this
  -- with every attribute covered, the attributes outside `c` are all the others
  have hU : ∀ c ∈ cliques, Uminus d cliques.reverse c = d.invert c := by
    intro c hc
    unfold Uminus Dom.invert
    apply List.filter_congr
    intro a ha
    obtain ⟨c', hc', hac'⟩ := hcover a ha
    have : (cliques.reverse.any fun c' => c'.contains a) = true := by
      rw [List.any_eq_true]
      exact ⟨c', List.mem_reverse.mpr hc', by simpa using hac'⟩
    rw [this, Bool.true_and]
  have hmarg : ∀ c ∈ cliques, ∀ σ, d.Valid σ →
      marginal d (mle toLog cliques w) c σ = ((w.get c).sem σ).v / T := by
    intro c hc σ hσ
    unfold marginal
    rw [sumOver_congr_valid d hd _ σ _ _ hσ hjoint, ← hU c hc]
    exact tree_marginals hyp hripr c (List.mem_reverse.mpr hc) σ hσ
  refine ⟨?_, hmarg c hc σ hσ⟩
  unfold partition
  have hsplit := sumOver_merge d c (d.invert c) d.attrs σ0 (joint (mle toLog cliques w))
    (hcl c hc).1 (invert_nodup d hd c) hd
    (fun a ha hm => ((mem_invert d c a).mp hm).2 ha)
    (fun a => by
      rw [mem_invert]
      constructor
      · intro h
        by_cases hac : a ∈ c
        · exact Or.inl hac
        · exact Or.inr ⟨h, hac⟩
      · rintro (h | h)
        · exact (hcl c hc).2 a h
        · exact h.1)
  rw [← hsplit]
  show sumOver d c σ0 (marginal d (mle toLog cliques w) c) = 1
  rw [sumOver_congr_valid d hd _ σ0 _ _ hσ0 (fun τ hτ => hmarg c hc τ hτ), sumOver_div]
  have : sumOver d c σ0 (fun τ => ((w.get c).sem τ).v) = T := by
    rw [hTdef, hmass _ hhead, ← hmass c hc]
    rfl
  rw [this, div_self hT0]

end PGM.Coherent
