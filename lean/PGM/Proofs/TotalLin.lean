import PGM.Model.Total
import Mathlib.Algebra.Order.Field.Basic
import Mathlib.Algebra.BigOperators.Group.List.Basic
import Mathlib.Algebra.BigOperators.Ring.Finset
import Mathlib.Algebra.BigOperators.Intervals
/-!
# Index-level (Finset-sum) semantics of the list linear algebra in `PGM/Model/Total.lean`
-/
namespace PGM.Total
open Finset
set_option linter.unusedSectionVars false
variable {K : Type} [Field K] [LinearOrder K] [IsStrictOrderedRing K]

theorem foldl_add_eq_sum (l : List K) : l.foldl (· + ·) 0 = l.sum := by
  rw [List.sum_eq_foldl]

theorem dot_eq_sum (x y : List K) : dot x y = (List.zipWith (· * ·) x y).sum := by
  unfold dot; rw [foldl_add_eq_sum]

@[simp] theorem dot_nil_left (y : List K) : dot ([] : List K) y = 0 := by simp [dot_eq_sum]
@[simp] theorem dot_nil_right (x : List K) : dot x ([] : List K) = 0 := by simp [dot_eq_sum]
theorem dot_cons (a b : K) (x y : List K) : dot (a :: x) (b :: y) = a * b + dot x y := by
  simp [dot_eq_sum]

/-- `dot` as a finite sum of entry products, over any index range covering the shorter list -/
theorem dot_eq_sum_range (x y : List K) (n : Nat) (h : min x.length y.length ≤ n) :
    dot x y = ∑ i ∈ range n, x.getD i 0 * y.getD i 0 := by
  induction x generalizing y n with
  | nil => simp
  | cons a x ih =>
    cases y with
    | nil => simp
    | cons b y =>
      cases n with
      | zero => simp at h
      | succ n =>
        rw [dot_cons, Finset.sum_range_succ', ih y n (by simpa using h)]
        simp [add_comm]

/-- matrix entry -/
def ent (Q : List (List K)) (i j : Nat) : K := (Q.getD i []).getD j 0

theorem col_length (Q : List (List K)) (j : Nat) : (col Q j).length = Q.length := by simp [col]

theorem col_getD (Q : List (List K)) (i j : Nat) : (col Q j).getD i 0 = ent Q i j := by
  unfold col ent
  by_cases h : i < Q.length
  · simp [List.getD_eq_getElem?_getD, h]
  · simp [List.getD_eq_getElem?_getD, not_lt.mp h]

theorem matVec_length (Q : List (List K)) (x : List K) : (matVec Q x).length = Q.length := by
  simp [matVec]

theorem matTVec_length (Q : List (List K)) (v : List K) : (matTVec Q v).length = ncols Q := by
  simp [matTVec]

/-- `(Q x)ᵢ = Σⱼ Qᵢⱼ xⱼ` for a rectangular `Q` -/
theorem matVec_getD (Q : List (List K)) (hQ : ∀ r ∈ Q, r.length = ncols Q) (x : List K) (i : Nat) :
    (matVec Q x).getD i 0 = ∑ j ∈ range (ncols Q), ent Q i j * x.getD j 0 := by
  unfold matVec ent
  by_cases h : i < Q.length
  · have hr : (Q[i]).length = ncols Q := hQ _ (List.getElem_mem h)
    simp only [List.getD_eq_getElem?_getD, List.getElem?_map, List.getElem?_eq_getElem h,
      Option.map_some, Option.getD_some]
    rw [dot_eq_sum_range _ _ (ncols Q) (by rw [hr]; exact min_le_left _ _)]
    simp [List.getD_eq_getElem?_getD]
  · simp [List.getD_eq_getElem?_getD, not_lt.mp h]

/-- `(Qᵀ v)ⱼ = Σᵢ Qᵢⱼ vᵢ` -/
theorem matTVec_getD (Q : List (List K)) (v : List K) (j : Nat) (hj : j < ncols Q) :
    (matTVec Q v).getD j 0 = ∑ i ∈ range Q.length, ent Q i j * v.getD i 0 := by
  unfold matTVec
  simp only [List.getD_eq_getElem?_getD, List.getElem?_map, List.getElem?_range hj,
    Option.map_some, Option.getD_some]
  rw [dot_eq_sum_range _ _ Q.length (by rw [col_length]; exact min_le_left _ _)]
  simp [← List.getD_eq_getElem?_getD, col_getD]

theorem matTVec_eq_ones_iff (Q : List (List K)) (v : List K) :
    matTVec Q v = List.replicate (ncols Q) 1 ↔
      ∀ j < ncols Q, ∑ i ∈ range Q.length, ent Q i j * v.getD i 0 = 1 := by
  constructor
  · intro h j hj
    rw [← matTVec_getD Q v j hj, h]
    simp [List.getD_eq_getElem?_getD, hj]
  · intro h
    apply List.ext_getElem (by simp [matTVec_length])
    intro j h1 h2
    have hj : j < ncols Q := by simpa [matTVec_length] using h1
    have := matTVec_getD Q v j hj
    rw [List.getD_eq_getElem?_getD, List.getElem?_eq_getElem h1, Option.getD_some, h j hj] at this
    simp [this]

/-- `⟨x, y⟩` for lists of the same length `m` -/
theorem dot_eq_sum_of_length (x y : List K) (m : Nat) (hx : x.length = m) :
    dot x y = ∑ i ∈ range m, x.getD i 0 * y.getD i 0 :=
  dot_eq_sum_range x y m (by rw [hx]; exact min_le_left _ _)

theorem list_sum_eq_sum_range (x : List K) : x.sum = ∑ i ∈ range x.length, x.getD i 0 := by
  induction x with
  | nil => simp
  | cons a x ih => rw [List.sum_cons, List.length_cons, Finset.sum_range_succ', ih]; simp [add_comm]

end PGM.Total
