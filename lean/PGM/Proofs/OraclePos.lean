import PGM.Model.RegionGraph
import PGM.Model.FactorGraph
import PGM.Proofs.Domain
import PGM.Proofs.OracleFold
/-!
# Non-emptiness of the belief tables

A table built by `Factor.add`/`sub`/`logsumexp` has `size (dom.shape)` cells, so it is non-empty as
soon as its *domain* has no attribute of extent 0 (`PosDom`).  Every factor operation used by the
sweeps keeps that property of the domain, whatever the data is; hence it is an invariant of the
message dictionaries, and the beliefs are non-empty.
-/
namespace PGM.Oracle
open PGM PGM.JT PGM.RG
set_option linter.unusedSectionVars false

/-- no attribute of extent 0 -/
def PosDom (d : Dom) : Prop := ∀ p ∈ d, p.2 ≠ 0

theorem posDom_nil : PosDom [] := by intro p hp; simp at hp

theorem size_ne_zero_of_pos (s : List Nat) (h : ∀ n ∈ s, n ≠ 0) : PGM.size s ≠ 0 := by
  induction s with
  | nil => simp [PGM.size]
  | cons n ns ih =>
    simp only [PGM.size]
    exact Nat.mul_ne_zero (h n (by simp)) (ih (fun m hm => h m (by simp [hm])))

theorem PosDom.size_ne_zero {d : Dom} (h : PosDom d) : PGM.size d.shape ≠ 0 := by
  apply size_ne_zero_of_pos
  intro n hn
  simp only [Dom.shape, List.mem_map] at hn
  obtain ⟨p, hp, rfl⟩ := hn
  exact h p hp

theorem lookup_mem {κ β : Type} [BEq κ] (d : List (κ × β)) (k : κ) (v : β) (h : d.lookup k = some v) :
    ∃ k', (k', v) ∈ d := by
  induction d with
  | nil => simp at h
  | cons a d ih =>
    obtain ⟨a, w⟩ := a
    simp only [List.lookup_cons] at h
    cases hk : k == a
    · rw [hk] at h
      obtain ⟨k', hk'⟩ := ih h
      exact ⟨k', by simp [hk']⟩
    · rw [hk] at h
      simp only [Option.some.injEq] at h
      subst h
      exact ⟨a, by simp⟩

theorem PosDom.cfg_ne_zero {d : Dom} (h : PosDom d) (a : Attr) (ha : a ∈ d.attrs) : d.cfg a ≠ 0 := by
  have h1 := Dom.lookup_of_mem_attrs d a ha
  obtain ⟨k', hk'⟩ := lookup_mem d a _ h1
  exact h _ hk'

theorem PosDom.project {d : Dom} (h : PosDom d) (as : List Attr) (hsub : ∀ a ∈ as, a ∈ d.attrs) :
    PosDom (d.project as) := by
  intro p hp
  simp only [Dom.project, List.mem_map] at hp
  obtain ⟨a, ha, rfl⟩ := hp
  exact h.cfg_ne_zero a (hsub a ha)

theorem PosDom.marginalize {d : Dom} (h : PosDom d) (as : List Attr) : PosDom (d.marginalize as) := by
  apply h.project
  intro a ha
  exact (List.mem_filter.mp ha).1

theorem PosDom.merge {d o : Dom} (h : PosDom d) (ho : PosDom o) : PosDom (d.merge o) := by
  intro p hp
  rcases List.mem_append.mp hp with h1 | h1
  · exact h p h1
  · exact ho.marginalize _ p h1

/-! ### factor operations -/
section factor
variable {α : Type} [Scalar α]

theorem binop_size (op : α → α → α) (f g : Factor α) :
    (Factor.binop op f g).vals.data.size = PGM.size (f.dom.merge g.dom).shape := by
  simp [Factor.binop, Factor.expand, Factor.mk', NdArr.reshape, NdArr.zipWith, NdArr.broadcastTo,
    NdArr.ofFn, length_cells]

theorem posDom_binop (op : α → α → α) (f g : Factor α) (hf : PosDom f.dom) (hg : PosDom g.dom) :
    PosDom (Factor.binop op f g).dom := hf.merge hg

theorem posDom_add (f g : Factor α) (hf : PosDom f.dom) (hg : PosDom g.dom) : PosDom (f.add g).dom :=
  hf.merge hg

theorem posDom_sub (f g : Factor α) (hf : PosDom f.dom) (hg : PosDom g.dom) : PosDom (f.sub g).dom :=
  hf.merge hg

theorem posDom_logsumexp (f : Factor α) (as : List Attr) (hf : PosDom f.dom) : PosDom (f.logsumexp as).dom :=
  hf.marginalize as

theorem posDom_zeros_nil : PosDom (Factor.zeros [] : Factor α).dom := posDom_nil

theorem zeros_size (d : Dom) : (Factor.zeros d : Factor α).vals.data.size = PGM.size d.shape := by
  simp [Factor.zeros, Factor.mk', NdArr.reshape, NdArr.const]

/-- `PySum` with a domain without empty extents -/
def PosSum : PySum α → Prop
  | .zero => True
  | .fac g => PosDom g.dom

theorem posSum_pySum (l : List (Factor α)) (h : ∀ f ∈ l, PosDom f.dom) : PosSum (pySum l) := by
  unfold pySum
  suffices ∀ (acc : PySum α), PosSum acc → PosSum (l.foldl (fun acc f => match acc with
      | .zero => .fac (f.addScalar Scalar.zero)
      | .fac g => .fac (g.add f)) acc) from this .zero trivial
  induction l with
  | nil => intro acc ha; exact ha
  | cons x xs ih =>
    intro acc ha
    rw [List.foldl_cons]
    apply ih (fun f hf => h f (by simp [hf]))
    cases acc with
    | zero => exact h x (by simp)
    | fac g => exact posDom_add g x ha (h x (by simp))

theorem posDom_addSum (x : Factor α) (s : PySum α) (hx : PosDom x.dom) (hs : PosSum s) :
    PosDom (addSum x s).dom := by
  cases s with
  | zero => exact hx
  | fac g => exact posDom_add x g hx hs

theorem posDom_subSum (x : Factor α) (s : PySum α) (hx : PosDom x.dom) (hs : PosSum s) :
    PosDom (subSum x s).dom := by
  cases s with
  | zero => exact hx
  | fac g => exact posDom_sub x g hx hs

theorem addSum_size_ne_zero (x : Factor α) (s : PySum α) (hx : PosDom x.dom) (hsz : x.vals.data.size ≠ 0)
    (hs : PosSum s) : (addSum x s).vals.data.size ≠ 0 := by
  cases s with
  | zero =>
    show (x.vals.data.map _).size ≠ 0
    simpa using hsz
  | fac g =>
    show (Factor.binop Scalar.add x g).vals.data.size ≠ 0
    rw [binop_size]
    exact (hx.merge hs).size_ne_zero

theorem subSum_size_ne_zero (x : Factor α) (s : PySum α) (hx : PosDom x.dom) (hsz : x.vals.data.size ≠ 0)
    (hs : PosSum s) : (subSum x s).vals.data.size ≠ 0 := by
  cases s with
  | zero =>
    show (x.vals.data.map _).size ≠ 0
    simpa using hsz
  | fac g =>
    show (Factor.binop Scalar.add x _).vals.data.size ≠ 0
    rw [binop_size]
    exact (PosDom.merge hx hs).size_ne_zero

theorem divScalar_size (x : Factor α) (c : α) : (x.divScalar c).vals.data.size = x.vals.data.size := by
  simp [Factor.divScalar, Factor.mk', NdArr.reshape, NdArr.map]

/-! ### message dictionaries -/

def PosMsgs {κ : Type} (m : List (κ × Factor α)) : Prop := ∀ p ∈ m, PosDom p.2.dom

theorem posMsgs_nil {κ : Type} : PosMsgs ([] : List (κ × Factor α)) := by intro p hp; simp at hp

theorem PosMsgs.dictSet {κ : Type} [BEq κ] {m : List (κ × Factor α)} (hm : PosMsgs m) (k : κ) (f : Factor α)
    (hf : PosDom f.dom) : PosMsgs (GM.dictSet m k f) := by
  intro p hp
  rcases mem_dictSet m k f p hp with h | h
  · exact hm p h
  · subst h; exact hf

theorem PosMsgs.get {m : Msgs α} (hm : PosMsgs m) (e : Edge) : PosDom (Msgs.get m e).dom := by
  unfold Msgs.get
  cases h : m.lookup e with
  | none => exact posDom_nil
  | some f =>
    obtain ⟨k', hk'⟩ := lookup_mem m e f h
    exact hm _ hk'

theorem foldl_inv {γ δ : Type} (P : γ → Prop) (f : γ → δ → γ) (l : List δ) (a : γ) (ha : P a)
    (h : ∀ a x, x ∈ l → P a → P (f a x)) : P (l.foldl f a) := by
  induction l generalizing a with
  | nil => exact ha
  | cons x xs ih =>
    rw [List.foldl_cons]
    exact ih _ (h a x (by simp) ha) (fun a y hy => h a y (by simp [hy]))

theorem iterate_inv {γ : Type} (P : γ → Prop) (f : γ → γ) (h : ∀ a, P a → P (f a)) (n : Nat) (a : γ)
    (ha : P a) : P (iterate f n a) := by
  induction n generalizing a with
  | zero => exact ha
  | succ n ih => exact ih _ (h a ha)

/-! ### the sweeps keep the invariant -/

theorem gbpSweep_pos (g : RG.Graph) (pot : Region → Factor α) (msgs : Msgs α)
    (hpot : ∀ e ∈ g.messageOrder, PosDom (pot e.1).dom) (hm : PosMsgs msgs) :
    PosMsgs (gbpSweep g pot msgs) := by
  unfold gbpSweep
  have hnew : PosMsgs (g.messageOrder.foldl (fun (new : Msgs α) (e : Edge) =>
      let (ru, rd) := e
      let num := pot ru
      let num := addSum num (pySum (((g.N.lookup e).getD []).map msgs.get))
      let denom := pySum (((g.D.lookup e).getD []).map (Msgs.get new))
      let m := subSum (num.logsumexp (diff ru rd)) denom
      let m := m.subScalar m.logsumexpAll
      GM.dictSet new e m) []) := by
    apply foldl_inv PosMsgs _ _ _ posMsgs_nil
    intro new e he hnew
    obtain ⟨ru, rd⟩ := e
    apply hnew.dictSet
    show PosDom (subSum ((addSum (pot ru) _).logsumexp (diff ru rd)) _).dom
    apply posDom_subSum
    · apply posDom_logsumexp
      apply posDom_addSum _ _ (hpot _ he)
      apply posSum_pySum
      intro f hf
      obtain ⟨e', _, rfl⟩ := List.mem_map.mp hf
      exact hm.get e'
    · apply posSum_pySum
      intro f hf
      obtain ⟨e', _, rfl⟩ := List.mem_map.mp hf
      exact hnew.get e'
  apply foldl_inv PosMsgs _ _ _ hm
  intro m e _ hm'
  apply hm'.dictSet
  exact posDom_add _ _ (hm'.get e) (hnew.get e)

/-! the three message passes of `hpsSweep`, named -/

def hpsDown (g : RG.Graph) (pot : Region → Factor α) (c0 : Region → α) (msgs : Msgs α) : Msgs α :=
  g.regions.foldl (fun (new : Msgs α) r =>
    (look g.parents r).foldl (fun (new : Msgs α) p =>
      let s1 := pySum (((look g.children p).filter (fun c => c != r)).map (fun c => msgs.get (c, p)))
      let s2 := pySum ((look g.parents p).map (fun p1 => msgs.get (p, p1)))
      let m := (subSum (addSum (pot p) s1) s2).divScalar (c0 p)
      let m := Factor.mulScalar (c0 p) (m.logsumexp (diff p r))
      let m := m.subScalar m.logsumexpAll
      GM.dictSet new (p, r) m) new) []

def hpsUp (g : RG.Graph) (pot : Region → Factor α) (c0 : Region → α) (msgs down : Msgs α) : Msgs α :=
  g.regions.foldl (fun (new : Msgs α) r =>
    (look g.parents r).foldl (fun (new : Msgs α) p =>
      let s1 := pySum ((look g.children r).map (fun c => msgs.get (c, r)))
      let s2 := pySum ((look g.parents r).map (fun p1 => msgs.get (p1, r)))
      let m := (Factor.mulScalar (ccOf g c0 p r) (addSum (addSum (pot r) s1) s2)).sub (msgs.get (p, r))
      let m := m.subScalar m.logsumexpAll
      GM.dictSet new (r, p) m) new) down

def hpsDamp (g : RG.Graph) (rho : α) (msgs new : Msgs α) : Msgs α :=
  g.regions.foldl (fun (msgs : Msgs α) p =>
    (look g.children p).foldl (fun (msgs : Msgs α) r =>
      let msgs : Msgs α := GM.dictSet msgs (p, r) ((Factor.mulScalar rho (msgs.get (p, r))).add (Factor.mulScalar (Scalar.sub Scalar.one rho) (Msgs.get new (p, r))))
      GM.dictSet msgs (r, p) ((Factor.mulScalar rho (msgs.get (r, p))).add (Factor.mulScalar (Scalar.sub Scalar.one rho) (Msgs.get new (r, p))))) msgs) msgs

def hpsBelief (g : RG.Graph) (pot : Region → Factor α) (c0 : Region → α) (msgs : Msgs α) (r : Region) : Factor α :=
  (subSum (addSum (pot r) (pySum ((look g.children r).map (fun c => msgs.get (c, r)))))
    (pySum ((look g.parents r).map (fun p => msgs.get (r, p))))).divScalar (c0 r)

theorem hpsSweep_fst (g : RG.Graph) (pot : Region → Factor α) (c0 : Region → α) (total rho : α) (msgs : Msgs α) :
    (hpsSweep g pot c0 total rho msgs).1 = hpsDamp g rho msgs (hpsUp g pot c0 msgs (hpsDown g pot c0 msgs)) := rfl

theorem hpsSweep_snd_eq (g : RG.Graph) (pot : Region → Factor α) (c0 : Region → α) (total rho : α) (msgs : Msgs α) :
    (hpsSweep g pot c0 total rho msgs).2 =
      fill (fun r => normalise total (hpsBelief g pot c0 (hpsSweep g pot c0 total rho msgs).1 r)) g.regions [] := rfl

theorem hpsDown_pos (g : RG.Graph) (pot : Region → Factor α) (c0 : Region → α) (msgs : Msgs α)
    (hpot : ∀ r ∈ g.regions, ∀ p ∈ look g.parents r, PosDom (pot p).dom)
    (hm : PosMsgs msgs) : PosMsgs (hpsDown g pot c0 msgs) := by
  unfold hpsDown
  apply foldl_inv PosMsgs _ _ _ posMsgs_nil
  intro new r hr hnew
  apply foldl_inv PosMsgs _ _ _ hnew
  intro new p hp hnew
  apply hnew.dictSet
  show PosDom (((subSum (addSum (pot p) _) _).divScalar (c0 p)).logsumexp (diff p r)).dom
  apply posDom_logsumexp
  show PosDom (subSum (addSum (pot p) _) _).dom
  apply posDom_subSum
  · apply posDom_addSum _ _ (hpot r hr p hp)
    apply posSum_pySum
    intro f hf
    obtain ⟨e', _, rfl⟩ := List.mem_map.mp hf
    exact hm.get _
  · apply posSum_pySum
    intro f hf
    obtain ⟨e', _, rfl⟩ := List.mem_map.mp hf
    exact hm.get _

theorem hpsUp_pos (g : RG.Graph) (pot : Region → Factor α) (c0 : Region → α) (msgs down : Msgs α)
    (hpot : ∀ r ∈ g.regions, PosDom (pot r).dom)
    (hm : PosMsgs msgs) (hd : PosMsgs down) : PosMsgs (hpsUp g pot c0 msgs down) := by
  unfold hpsUp
  apply foldl_inv PosMsgs _ _ _ hd
  intro new r hr hnew
  apply foldl_inv PosMsgs _ _ _ hnew
  intro new p hp hnew
  apply hnew.dictSet
  show PosDom ((Factor.mulScalar (ccOf g c0 p r) (addSum (addSum (pot r) _) _)).sub (msgs.get (p, r))).dom
  apply posDom_sub _ _ _ (hm.get _)
  show PosDom (addSum (addSum (pot r) _) _).dom
  apply posDom_addSum
  · apply posDom_addSum _ _ (hpot r hr)
    apply posSum_pySum
    intro f hf
    obtain ⟨e', _, rfl⟩ := List.mem_map.mp hf
    exact hm.get _
  · apply posSum_pySum
    intro f hf
    obtain ⟨e', _, rfl⟩ := List.mem_map.mp hf
    exact hm.get _

theorem hpsDamp_pos (g : RG.Graph) (rho : α) (msgs new : Msgs α)
    (hm : PosMsgs msgs) (hnew : PosMsgs new) : PosMsgs (hpsDamp g rho msgs new) := by
  unfold hpsDamp
  apply foldl_inv PosMsgs _ _ _ hm
  intro m p _ hm1
  apply foldl_inv PosMsgs _ _ _ hm1
  intro m r _ hm2
  have h1 : PosMsgs (GM.dictSet m (p, r) ((Factor.mulScalar rho (Msgs.get m (p, r))).add
      (Factor.mulScalar (Scalar.sub Scalar.one rho) (Msgs.get new (p, r))))) :=
    hm2.dictSet _ _ (posDom_add _ _ (hm2.get _) (hnew.get _))
  exact h1.dictSet _ _ (posDom_add _ _ (h1.get _) (hnew.get _))

/-- the messages written by one sweep of the convex oracle -/
theorem hpsSweep_pos (g : RG.Graph) (pot : Region → Factor α) (c0 : Region → α) (total rho : α) (msgs : Msgs α)
    (hpot : ∀ r ∈ g.regions, PosDom (pot r).dom ∧ ∀ p ∈ look g.parents r, PosDom (pot p).dom)
    (hm : PosMsgs msgs) :
    PosMsgs (hpsSweep g pot c0 total rho msgs).1 := by
  rw [hpsSweep_fst]
  apply hpsDamp_pos _ _ _ _ hm
  apply hpsUp_pos _ _ _ _ _ (fun r hr => (hpot r hr).1) hm
  exact hpsDown_pos _ _ _ _ (fun r hr => (hpot r hr).2) hm

/-- the beliefs computed by one sweep of the convex oracle are non-empty -/
theorem hpsBelief_size (g : RG.Graph) (pot : Region → Factor α) (c0 : Region → α) (msgs : Msgs α) (r : Region)
    (hpot : PosDom (pot r).dom) (hsz : (pot r).vals.data.size ≠ 0) (hm : PosMsgs msgs) :
    (hpsBelief g pot c0 msgs r).vals.data.size ≠ 0 := by
  unfold hpsBelief
  rw [divScalar_size]
  have hs1 : PosSum (pySum ((look g.children r).map (fun c => Msgs.get msgs (c, r)))) := by
    apply posSum_pySum
    intro f hf
    obtain ⟨e', _, rfl⟩ := List.mem_map.mp hf
    exact hm.get _
  have hs2 : PosSum (pySum ((look g.parents r).map (fun p => Msgs.get msgs (r, p)))) := by
    apply posSum_pySum
    intro f hf
    obtain ⟨e', _, rfl⟩ := List.mem_map.mp hf
    exact hm.get _
  exact subSum_size_ne_zero _ _ (posDom_addSum _ _ hpot hs1)
    (addSum_size_ne_zero _ _ hpot hsz hs1) hs2

/-! ### potentials and initial messages -/

theorem potOf_pos (dom : Dom) (g : RG.Graph) (pots : CliqueVec α) (r : Region) (hdom : PosDom dom)
    (hr : ∀ a ∈ r, a ∈ dom.attrs)
    (hp : g.cliques.contains r = true → PosDom (pots.get r).dom ∧ (pots.get r).vals.data.size ≠ 0) :
    PosDom (potOf dom g pots r).dom ∧ (potOf dom g pots r).vals.data.size ≠ 0 := by
  unfold potOf
  split
  · rename_i h; exact hp h
  · refine ⟨hdom.project r hr, ?_⟩
    rw [zeros_size]
    exact (hdom.project r hr).size_ne_zero

theorem initMessages_pos (dom : Dom) (order : List Edge) (hdom : PosDom dom)
    (ho : ∀ e ∈ order, ∀ a ∈ e.2, a ∈ dom.attrs) : PosMsgs (RG.initMessages dom order : Msgs α) := by
  intro p hp
  simp only [RG.initMessages, List.mem_flatMap] at hp
  obtain ⟨e, he, hp⟩ := hp
  have : p.2 = Factor.zeros (dom.project e.2) := by
    rcases List.mem_cons.mp hp with h | h
    · rw [h]
    · rcases List.mem_cons.mp h with h | h
      · rw [h]
      · simp at h
  rw [this]
  exact hdom.project e.2 (ho e he)

/-! ### the factor graph -/

def PosState (s : FG.State α) : Prop := PosMsgs s.muN ∧ PosMsgs s.muF

theorem PosState.getN {s : FG.State α} (hs : PosState s) (v : Attr) (cl : Clique) : PosDom (FG.getN s v cl).dom := by
  unfold FG.getN
  cases h : s.muN.lookup (v, cl) with
  | none => exact posDom_nil
  | some f =>
    obtain ⟨k', hk'⟩ := lookup_mem s.muN _ f h
    exact hs.1 _ hk'

theorem PosState.getF {s : FG.State α} (hs : PosState s) (cl : Clique) (v : Attr) : PosDom (FG.getF s cl v).dom := by
  unfold FG.getF
  cases h : s.muF.lookup (cl, v) with
  | none => exact posDom_nil
  | some f =>
    obtain ⟨k', hk'⟩ := lookup_mem s.muF _ f h
    exact hs.2 _ hk'

theorem lbpSweep_pos (dom : Dom) (cliques : List Clique) (pots : CliqueVec α) (s : FG.State α)
    (hp : ∀ cl ∈ cliques, PosDom (pots.get cl).dom) (hs : PosState s) :
    PosState (FG.lbpSweep dom cliques pots s) := by
  unfold FG.lbpSweep
  apply foldl_inv PosState
  · -- factor to variable
    apply foldl_inv PosState _ _ _ hs
    intro s cl hcl hs
    have hpre : PosSum (pySum (cl.map (fun c => FG.getN s c cl))) := by
      apply posSum_pySum
      intro f hf
      obtain ⟨e', _, rfl⟩ := List.mem_map.mp hf
      exact hs.getN _ _
    apply foldl_inv PosState _ _ _ hs
    intro s' v _ hs'
    refine ⟨hs'.1, ?_⟩
    apply PosMsgs.dictSet hs'.2
    show PosDom (((addSum (pots.get cl) _).sub (FG.getN s' v cl)).logsumexp _).dom
    apply posDom_logsumexp
    exact posDom_sub _ _ (posDom_addSum _ _ (hp cl hcl) hpre) (hs'.getN _ _)
  · -- variable to factor
    intro s v _ hs
    have hpre : PosSum (pySum ((cliques.filter (fun cl => cl.contains v)).map (fun cl => FG.getF s cl v))) := by
      apply posSum_pySum
      intro f hf
      obtain ⟨e', _, rfl⟩ := List.mem_map.mp hf
      exact hs.getF _ _
    simp only
    cases hcase : pySum ((cliques.filter (fun cl => cl.contains v)).map (fun cl => FG.getF s cl v)) with
    | zero => exact hs
    | fac pre =>
      rw [hcase] at hpre
      simp only
      apply foldl_inv PosState _ _ _ hs
      intro s' f _ hs'
      refine ⟨?_, hs'.2⟩
      apply PosMsgs.dictSet hs'.1
      exact posDom_sub _ _ hpre (hs'.getF _ _)

theorem fg_initMessages_pos (dom : Dom) (cliques : List Clique) (hdom : PosDom dom)
    (hc : ∀ cl ∈ cliques, ∀ v ∈ cl, v ∈ dom.attrs) : PosState (FG.initMessages dom cliques : FG.State α) := by
  unfold FG.initMessages
  apply foldl_inv PosState _ _ _ ⟨posMsgs_nil, posMsgs_nil⟩
  intro s cl hcl hs
  apply foldl_inv PosState _ _ _ hs
  intro s v hv hs
  have hz : PosDom (Factor.zeros (dom.project [v]) : Factor α).dom :=
    hdom.project [v] (by intro a ha; rw [List.mem_singleton.mp ha]; exact hc cl hcl v hv)
  exact ⟨hs.1.dictSet _ _ hz, hs.2.dictSet _ _ hz⟩

end factor

end PGM.Oracle
