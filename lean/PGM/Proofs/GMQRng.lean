import PGM.Proofs.GMQSynth
/-!
# a concrete generator satisfying the numpy contracts `RngOK` (deterministic, no state)

`detNR` hands the extras to the FIRST `k` indices of positive probability, `detR` repeats the first index of positive probability,
`detSh` is the identity permutation.  `detRngOK : RngOK detR detNR detSh` makes every theorem with the hypothesis `RngOK` non-vacuous.
-/
namespace PGM.GMQGen
open PGM PGM.Synth

/-- the indices `i < n` with `p[i] > 0`, ascending -/
def posIdx (n : Nat) (p : List Rat) : List Nat :=
  ((p.take n).zipIdx.filter (fun xi => decide (0 < xi.1))).map Prod.snd

def detNR (_ : Unit) (n k : Nat) (p : List Rat) : List Nat × Unit := ((posIdx n p).take k, ())
def detR (_ : Unit) (n k : Nat) (p : List Rat) : List Nat × Unit := (List.replicate k ((posIdx n p).headD 0), ())
def detSh (_ : Unit) (l : List Nat) : List Nat × Unit := (l, ())

theorem length_posIdx (n : Nat) (p : List Rat) : (posIdx n p).length = posCount n p := by
  unfold posIdx posCount
  rw [List.length_map]
  have h : ((p.take n).zipIdx.filter (fun xi => decide (0 < xi.1))).map Prod.fst
      = (p.take n).filter (fun x => decide (0 < x)) := by
    have : (fun xi : Rat × Nat => decide (0 < xi.1)) = (fun x => decide (0 < x)) ∘ Prod.fst := rfl
    rw [this, ← List.filter_map, List.zipIdx_map_fst]
  rw [← h, List.length_map]

theorem nodup_posIdx (n : Nat) (p : List Rat) : (posIdx n p).Nodup := by
  unfold posIdx
  have hs : (((p.take n).zipIdx.filter (fun xi => decide (0 < xi.1))).map Prod.snd).Sublist ((p.take n).zipIdx.map Prod.snd) :=
    List.Sublist.map _ List.filter_sublist
  refine hs.nodup ?_
  rw [List.zipIdx_map_snd]
  exact List.nodup_range'

theorem mem_posIdx (n : Nat) (p : List Rat) (i : Nat) (hi : i ∈ posIdx n p) : i < n ∧ 0 < p.getD i 0 := by
  unfold posIdx at hi
  obtain ⟨⟨x, j⟩, hm, rfl⟩ := List.mem_map.1 hi
  obtain ⟨hz, hx⟩ := List.mem_filter.1 hm
  have hget : (p.take n)[j]? = some x := by
    have := List.mem_zipIdx_iff_getElem?.1 hz
    simpa using this
  rw [List.getElem?_take] at hget
  by_cases hj : j < n
  · rw [if_pos hj] at hget
    refine ⟨hj, ?_⟩
    rw [List.getD_eq_getElem?_getD, hget, Option.getD_some]
    simpa using hx
  · rw [if_neg hj] at hget
    cases hget

theorem detRngOK : RngOK detR detNR detSh where
  noreplace := by
    intro g n k p hk
    have hk' : k ≤ (posIdx n p).length := by rw [length_posIdx]; exact hk
    refine ⟨?_, ?_, ?_⟩
    · show ((posIdx n p).take k).length = k
      rw [List.length_take]; omega
    · exact (nodup_posIdx n p).sublist (List.take_sublist _ _)
    · intro i hi
      exact mem_posIdx n p i (List.mem_of_mem_take hi)
  replace := by
    intro g n k p
    refine ⟨by simp [detR], ?_⟩
    intro hpos i hi
    have : i = (posIdx n p).headD 0 := by
      simp only [detR] at hi
      exact (List.mem_replicate.1 hi).2
    have hne : posIdx n p ≠ [] := by
      intro he
      rw [← length_posIdx, he] at hpos
      exact absurd hpos (by simp)
    obtain ⟨a, l, hal⟩ := List.exists_cons_of_ne_nil hne
    rw [this, hal, List.headD_cons]
    exact mem_posIdx n p a (by rw [hal]; exact List.mem_cons_self)
  shuffle := fun _ l => List.Perm.refl l

end PGM.GMQGen
