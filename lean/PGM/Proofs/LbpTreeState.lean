import PGM.Proofs.LbpTreeMsg
/-!
# The invariant of the message state, and stabilisation of the messages on a forest

`StateOK`: every message is a well-formed one-attribute table and
`n_{v→cl} = Σ_{g ∋ v, g ≠ cl} f_{g→v}` (true initially — all zero — and after every sweep).

`Forest cliques h`: `h` ranks the directed edges `cl → v` so that every message `g → u` that enters
the computation of `cl → v` (`u ∈ cl`, `u ≠ v`, `u ∈ g ≠ cl`) has a smaller rank.  Such a ranking exists
iff the bipartite attribute–clique graph has no cycle.  `stable`: from sweep `h cl v + 1` on, the
message `cl → v` does not change any more.
-/
namespace PGM.LbpTree
open PGM PGM.JT PGM.RG PGM.Oracle
set_option linter.unusedSectionVars false
set_option linter.unusedVariables false

/-- `Σ_{g ∋ u, g ≠ cl} F g u x` -/
noncomputable def nOf (cliques : List Clique) (F : Clique → Attr → Nat → ℝ) (u : Attr) (cl : Clique) (x : Nat) : ℝ :=
  (cliques.map (fun g => if u ∈ g ∧ g ≠ cl then F g u x else 0)).sum

theorem sum_map_filter_ind (cs : List Clique) (u : Attr) (ψ : Clique → ℝ) :
    ((cs.filter (fun cl => cl.contains u)).map ψ).sum = (cs.map (fun g => if u ∈ g then ψ g else 0)).sum := by
  induction cs with
  | nil => rfl
  | cons d ds ih =>
    by_cases hd : d.contains u = true
    · rw [List.filter_cons_of_pos (p := fun cl : Clique => cl.contains u) (a := d) hd]
      have h1 : u ∈ d := List.contains_iff_mem.mp hd
      simp only [List.map_cons, List.sum_cons, ih, h1, if_true]
    · rw [List.filter_cons_of_neg (p := fun cl : Clique => cl.contains u) (a := d) hd]
      have h1 : ¬ u ∈ d := fun h => hd (List.contains_iff_mem.mpr h)
      simp only [List.map_cons, List.sum_cons, ih, h1, if_false, zero_add]

theorem sum_facOf_sub (cliques : List Clique) (hnd : cliques.Nodup) (cl : Clique) (hcl : cl ∈ cliques)
    (u : Attr) (hu : u ∈ cl) (φ : Clique → ℝ) :
    ((facOf cliques u).map φ).sum - φ cl = (cliques.map (fun g => if u ∈ g ∧ g ≠ cl then φ g else 0)).sum := by
  induction cliques with
  | nil => simp at hcl
  | cons c cs ih =>
    rw [List.nodup_cons] at hnd
    unfold facOf at ih ⊢
    by_cases hc : c = cl
    · subst hc
      have hcu : c.contains u = true := List.contains_iff_mem.mpr hu
      rw [List.filter_cons_of_pos (p := fun cl : Clique => cl.contains u) (a := c) hcu]
      simp only [List.map_cons, List.sum_cons, ne_eq, not_true_eq_false, and_false, if_false, zero_add]
      rw [add_sub_cancel_left, sum_map_filter_ind]
      congr 1
      apply List.map_congr_left
      intro g hg
      have h2 : g ≠ c := fun h => hnd.1 (h ▸ hg)
      simp [h2]
    · have hcl' : cl ∈ cs := by
        rcases List.mem_cons.mp hcl with h | h
        · exact absurd h.symm hc
        · exact h
      simp only [List.map_cons, List.sum_cons]
      rw [← ih hnd.2 hcl']
      by_cases hcu : c.contains u = true
      · rw [List.filter_cons_of_pos (p := fun cl : Clique => cl.contains u) (a := c) hcu]
        have h1 : u ∈ c := List.contains_iff_mem.mp hcu
        simp only [List.map_cons, List.sum_cons, h1, ne_eq, hc, not_false_eq_true, and_self, if_true]
        ring
      · rw [List.filter_cons_of_neg (p := fun cl : Clique => cl.contains u) (a := c) hcu]
        have h1 : ¬ u ∈ c := fun h => hcu (List.contains_iff_mem.mpr h)
        simp [h1]

/-- the invariant of the message state -/
def StateOK (dom : Dom) (cliques : List Clique) (s : FG.State ℝ) : Prop :=
  ∀ cl ∈ cliques, ∀ v ∈ cl,
    FOK dom v (FG.getN s v cl) ∧ FOK dom v (FG.getF s cl v) ∧
    ∀ x, x < dom.cfg v → Nsem s v cl x = nOf cliques (Fsem s) v cl x

/-! ### `init_messages` -/

theorem zeros_val1 (dom : Dom) (v : Attr) (x : Nat) : val1 (Factor.zeros (dom.project [v]) : Factor ℝ) x = 0 := by
  show (Array.replicate (size (dom.project [v]).shape) (0 : ℝ)).getD _ (0 : ℝ) = 0
  simp only [Array.getD_eq_getD_getElem?, Array.getElem?_replicate]
  split <;> rfl

theorem initMessages_zero (dom : Dom) (cliques : List Clique) (cl : Clique) (hcl : cl ∈ cliques)
    (v : Attr) (hv : v ∈ cl) :
    FG.getN (FG.initMessages dom cliques : FG.State ℝ) v cl = Factor.zeros (dom.project [v]) ∧
    FG.getF (FG.initMessages dom cliques : FG.State ℝ) cl v = Factor.zeros (dom.project [v]) := by
  let P : FG.State ℝ → Prop := fun s =>
    FG.getN s v cl = Factor.zeros (dom.project [v]) ∧ FG.getF s cl v = Factor.zeros (dom.project [v])
  have hstep_keep : ∀ (s : FG.State ℝ) (cl' : Clique) (v' : Attr), P s →
      P { muN := GM.dictSet s.muN (v', cl') (Factor.zeros (dom.project [v'])),
          muF := GM.dictSet s.muF (cl', v') (Factor.zeros (dom.project [v'])) } := by
    intro s cl' v' hp
    constructor
    · show FG.getN ⟨GM.dictSet s.muN (v', cl') (Factor.zeros (dom.project [v'])), _⟩ v cl = _
      rw [getN_mk]
      split
      · rename_i heq
        have : (v, cl) = (v', cl') := eq_of_beq heq
        obtain ⟨rfl, rfl⟩ := Prod.mk.inj this
        rfl
      · exact hp.1
    · show FG.getF ⟨_, GM.dictSet s.muF (cl', v') (Factor.zeros (dom.project [v']))⟩ cl v = _
      rw [getF_mk]
      split
      · rename_i heq
        have : (cl, v) = (cl', v') := eq_of_beq heq
        obtain ⟨rfl, rfl⟩ := Prod.mk.inj this
        rfl
      · exact hp.2
  have hstep_set : ∀ (s : FG.State ℝ),
      P { muN := GM.dictSet s.muN (v, cl) (Factor.zeros (dom.project [v])),
          muF := GM.dictSet s.muF (cl, v) (Factor.zeros (dom.project [v])) } := by
    intro s
    constructor
    · show FG.getN ⟨GM.dictSet s.muN (v, cl) (Factor.zeros (dom.project [v])), _⟩ v cl = _
      rw [getN_mk]; simp
    · show FG.getF ⟨_, GM.dictSet s.muF (cl, v) (Factor.zeros (dom.project [v]))⟩ cl v = _
      rw [getF_mk]; simp
  show P (FG.initMessages dom cliques)
  unfold FG.initMessages
  apply foldl_establish P _ cliques cl hcl
  · intro s cl' hp
    exact foldl_inv P _ _ _ hp (fun s v' _ hp => hstep_keep s cl' v' hp)
  · intro s
    exact foldl_establish P _ cl v hv (fun s v' hp => hstep_keep s cl v' hp) hstep_set s

theorem initMessages_ok (dom : Dom) (cliques : List Clique) :
    StateOK dom cliques (FG.initMessages dom cliques) := by
  intro cl hcl v hv
  obtain ⟨h1, h2⟩ := initMessages_zero dom cliques cl hcl v hv
  have hz := zeros_NOK dom v
  refine ⟨by rw [h1]; exact ⟨hz.1, hz.2.1⟩, by rw [h2]; exact ⟨hz.1, hz.2.1⟩, ?_⟩
  intro x _
  unfold Nsem nOf
  rw [h1, zeros_val1]
  symm
  apply List.sum_eq_zero
  intro y hy
  obtain ⟨g, hg, rfl⟩ := List.mem_map.mp hy
  split
  · rename_i hc
    unfold Fsem
    rw [(initMessages_zero dom cliques g hg v hc.1).2, zeros_val1]
  · rfl

/-! ### one sweep -/

theorem mem_facOf (cliques : List Clique) (v : Attr) (g : Clique) :
    g ∈ facOf cliques v ↔ g ∈ cliques ∧ v ∈ g := by
  unfold facOf
  rw [List.mem_filter, List.contains_iff_mem]

/-- **Stage 1**: a sweep keeps the invariant and the new factor-to-variable messages have the
closed form `normMsg (lsePre …)` in terms of the old variable-to-factor messages -/
theorem sweep_ok (dom : Dom) (cliques : List Clique) (pots : CliqueVec ℝ) (h : GraphOK dom cliques pots)
    (s : FG.State ℝ) (hs : StateOK dom cliques s) :
    StateOK dom cliques (FG.lbpSweep dom cliques pots s) ∧
    ∀ cl ∈ cliques, ∀ v ∈ cl, ∀ σ, dom.Valid σ →
      Fsem (FG.lbpSweep dom cliques pots s) cl v (σ v)
        = normMsg dom v (lsePre dom pots cl v (fun u => Nsem s u cl)) σ := by
  have hF : ∀ cl ∈ cliques, ∀ v ∈ cl,
      FOK dom v (FG.getF (FG.lbpSweep dom cliques pots s) cl v) ∧
      ∀ σ, dom.Valid σ → Fsem (FG.lbpSweep dom cliques pots s) cl v (σ v)
        = normMsg dom v (lsePre dom pots cl v (fun u => Nsem s u cl)) σ := by
    intro cl hcl v hv
    unfold Fsem
    rw [sweep_getF dom cliques pots s cl v hcl hv]
    exact facMsg_sem dom cliques pots h s cl hcl v hv (fun u hu => (hs cl hcl u hu).1)
  refine ⟨?_, fun cl hcl v hv => (hF cl hcl v hv).2⟩
  intro cl hcl v hv
  have hvd := h.attrs cl hcl v hv
  have hmem : cl ∈ facOf cliques v := (mem_facOf cliques v cl).mpr ⟨hcl, hv⟩
  have hFall : ∀ g ∈ facOf cliques v, FOK dom v (FG.getF (FG.lbpSweep dom cliques pots s) g v) := by
    intro g hg
    obtain ⟨hg1, hg2⟩ := (mem_facOf cliques v g).mp hg
    exact (hF g hg1 v hg2).1
  obtain ⟨hNok, hNval⟩ := varMsg_sem dom cliques (FG.lbpSweep dom cliques pots s) v cl hmem hFall
  refine ⟨?_, (hF cl hcl v hv).1, ?_⟩
  · rw [sweep_getN dom cliques pots s v cl hvd hcl hv]; exact hNok
  · intro x hx
    unfold Nsem nOf
    rw [sweep_getN dom cliques pots s v cl hvd hcl hv, hNval x hx]
    exact sum_facOf_sub cliques h.nodup cl hcl v hv (fun g => Fsem (FG.lbpSweep dom cliques pots s) g v x)

/-! ### the sequence of states -/

/-- the state after `n` sweeps from the initial messages -/
noncomputable def st (dom : Dom) (cliques : List Clique) (pots : CliqueVec ℝ) (n : Nat) : FG.State ℝ :=
  iterate (FG.lbpSweep dom cliques pots) n (FG.initMessages dom cliques)

theorem iterate_succ' {β : Type} (f : β → β) (n : Nat) (x : β) : iterate f (n + 1) x = f (iterate f n x) := by
  induction n generalizing x with
  | zero => rfl
  | succ n ih =>
    show iterate f (n + 1) (f x) = f (iterate f n (f x))
    exact ih (f x)

theorem st_succ (dom : Dom) (cliques : List Clique) (pots : CliqueVec ℝ) (n : Nat) :
    st dom cliques pots (n + 1) = FG.lbpSweep dom cliques pots (st dom cliques pots n) :=
  iterate_succ' _ n _

theorem st_ok (dom : Dom) (cliques : List Clique) (pots : CliqueVec ℝ) (h : GraphOK dom cliques pots) (n : Nat) :
    StateOK dom cliques (st dom cliques pots n) := by
  induction n with
  | zero => exact initMessages_ok dom cliques
  | succ n ih => rw [st_succ]; exact (sweep_ok dom cliques pots h _ ih).1

/-! ### congruence of the closed form -/

theorem lsePre_congr (dom : Dom) (hd : dom.WF) (pots : CliqueVec ℝ) (cl : Clique) (hsub : ∀ a ∈ cl, a ∈ dom.attrs)
    (v : Attr) (nu nu' : Attr → Nat → ℝ)
    (hnu : ∀ u ∈ cl, u ≠ v → ∀ y, y < dom.cfg u → nu u y = nu' u y) (σ : Attr → Nat) (hσ : dom.Valid σ) :
    lsePre dom pots cl v nu σ = lsePre dom pots cl v nu' σ := by
  unfold lsePre
  congr 1
  apply Sem.sumOver_congr_valid dom hd _ σ _ _ hσ
  intro τ hτ
  have e : (cl.filter (fun var => var != v)).map (fun u => nu u (τ u))
      = (cl.filter (fun var => var != v)).map (fun u => nu' u (τ u)) := by
    apply List.map_congr_left
    intro u hu
    obtain ⟨hu1, hu2⟩ := List.mem_filter.mp hu
    exact hnu u hu1 (by simpa using hu2) _ ((Dom.valid_iff dom hd τ).mp hτ u (hsub u hu1))
  rw [e]

theorem normMsg_congr (dom : Dom) (hd : dom.WF) (v : Attr) (G G' : (Attr → Nat) → ℝ)
    (hG : ∀ σ, dom.Valid σ → G σ = G' σ) (σ : Attr → Nat) (hσ : dom.Valid σ) :
    normMsg dom v G σ = normMsg dom v G' σ := by
  unfold normMsg
  rw [hG σ hσ]
  congr 2
  apply Sem.sumOver_congr_valid dom hd _ σ _ _ hσ
  intro τ hτ
  rw [hG τ hτ]

/-! ### valid assignments with a prescribed value -/

theorem valid_zero (dom : Dom) (hd : dom.WF) (hpos : PosDom dom) : dom.Valid (fun _ => 0) := by
  rw [Dom.valid_iff dom hd]
  intro a ha
  exact Nat.pos_of_ne_zero (hpos.cfg_ne_zero a ha)

theorem exists_valid (dom : Dom) (hd : dom.WF) (hpos : PosDom dom) (v : Attr) (x : Nat) (hx : x < dom.cfg v) :
    ∃ σ, dom.Valid σ ∧ σ v = x := by
  refine ⟨Dom.override (fun _ => 0) [v] [x], ?_, ?_⟩
  · apply Sem.valid_override dom hd _ [v] [x] (valid_zero dom hd hpos)
    rw [mem_cells_iff]
    exact ⟨hx, trivial⟩
  · rw [Sem.override_of_mem _ _ _ _ (by simp)]
    simp

/-! ### forests and stabilisation -/

/-- `h` ranks the directed edges clique → attribute compatibly with the message dependencies -/
def Forest (cliques : List Clique) (h : Clique → Attr → Nat) : Prop :=
  ∀ cl ∈ cliques, ∀ v ∈ cl, ∀ u ∈ cl, u ≠ v → ∀ g ∈ cliques, g ≠ cl → u ∈ g → h g u < h cl v

/-- **stabilisation**: the message `cl → v` is the same after every sweep `n > h cl v` -/
theorem stable (dom : Dom) (cliques : List Clique) (pots : CliqueVec ℝ) (hG : GraphOK dom cliques pots)
    (hpos : PosDom dom) (h : Clique → Attr → Nat) (hF : Forest cliques h) :
    ∀ k, ∀ cl ∈ cliques, ∀ v ∈ cl, h cl v = k → ∀ n, k < n → ∀ x, x < dom.cfg v →
      Fsem (st dom cliques pots (n + 1)) cl v x = Fsem (st dom cliques pots n) cl v x := by
  intro k
  induction k using Nat.strong_induction_on with
  | _ k ih =>
    intro cl hcl v hv hk n hn x hx
    obtain ⟨m, rfl⟩ : ∃ m, n = m + 1 := ⟨n - 1, by omega⟩
    obtain ⟨σ, hσ, hσv⟩ := exists_valid dom hG.domWF hpos v x hx
    have e1 := (sweep_ok dom cliques pots hG _ (st_ok dom cliques pots hG (m + 1))).2 cl hcl v hv σ hσ
    have e2 := (sweep_ok dom cliques pots hG _ (st_ok dom cliques pots hG m)).2 cl hcl v hv σ hσ
    rw [← st_succ, hσv] at e1 e2
    rw [e1, e2]
    apply normMsg_congr dom hG.domWF v _ _ _ σ hσ
    intro τ hτ
    apply lsePre_congr dom hG.domWF pots cl (hG.attrs cl hcl) v _ _ _ τ hτ
    intro u hu huv y hy
    rw [(st_ok dom cliques pots hG (m + 1) cl hcl u hu).2.2 y hy,
      (st_ok dom cliques pots hG m cl hcl u hu).2.2 y hy]
    unfold nOf
    congr 1
    apply List.map_congr_left
    intro g hg
    split
    · rename_i hc
      have hlt := hF cl hcl v hv u hu huv g hg hc.2 hc.1
      exact ih (h g u) (by omega) g hg u hc.1 rfl m (by omega) y hy
    · rfl

end PGM.LbpTree
