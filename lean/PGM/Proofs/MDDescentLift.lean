import PGM.Proofs.ConvexFactor
import PGM.Proofs.MDDescentSolver
/-!
# Lifting the monotonicity of the mean map to clique marginals

For clique vectors laid out on the model's cliques (`VecOn`), read cell-wise over `ℝ`:

* `smul`, `addV`, `subV` act cell-wise (`smul_sem`, `addV_sem`, `subV_sem`) and keep the layout;
* `dotV a b = Σ_c Σ_{x_c} a_c(x_c) · b_c(x_c)` (`dotV_eq`);
* if `μ_c(x_c) = T · Σ_{x ∖ c} W(x) / Z` for every clique (`μ` = `T ·` the clique marginals of the
  table `W / Z`), then `dotV g μ = T · Σ_x G(x) · W(x) / Z` with `G(x) = Σ_c g_c(x_c)`
  (`dotV_exact`: the clique-to-joint lifting).

With `W = h · exp(E_θ)`, `E_θ(x) = Σ_c θ_c(x_c)`, and `E_{ω − α g} = E_ω − α G`, the inequality
`0 ≤ dotV dL (subV (bp ω) (bp (ω − α dL)))` is `T ·` the list inequality
`MD.expfam_mean_monotone_ratio` over the cells of the joint domain.
-/
namespace PGM.MD
open PGM PGM.JT PGM.RG PGM.Sem PGM.Convex PGM.CliqueVec
set_option linter.unusedSectionVars false
set_option linter.unusedVariables false

/-! ### association lists -/

section assoc
variable {α : Type} [Scalar α]

theorem get_of_mem' (l : CliqueVec α) (hn : (l.map Prod.fst).Nodup)
    (p : Clique × Factor α) (hp : p ∈ l) : l.get p.1 = p.2 := by
  unfold CliqueVec.get
  induction l with
  | nil => simp at hp
  | cons q l ih =>
    obtain ⟨k, v⟩ := q
    simp only [List.map_cons, List.nodup_cons] at hn
    rcases List.mem_cons.mp hp with rfl | h
    · simp [List.lookup]
    · have hne : p.1 ≠ k := by
        intro he
        exact hn.1 (he ▸ List.mem_map_of_mem h)
      have hb : (p.1 == k) = false := by simpa using hne
      simp only [List.lookup, hb]
      exact ih hn.2 h

theorem get_mem' (l : CliqueVec α) (c : Clique) (hc : c ∈ l.map Prod.fst) : (c, l.get c) ∈ l := by
  unfold CliqueVec.get
  induction l with
  | nil => simp at hc
  | cons q l ih =>
    obtain ⟨k, v⟩ := q
    by_cases hk : c = k
    · subst hk; simp [List.lookup]
    · have hb : (c == k) = false := by simpa using hk
      have hc' : c ∈ l.map Prod.fst := by
        simp only [List.map_cons, List.mem_cons] at hc
        rcases hc with h | h
        · exact absurd h hk
        · exact h
      simp only [List.lookup, hb]
      exact List.mem_cons_of_mem _ (ih hc')

/-- a key-preserving map acts on `get` -/
theorem get_map_val (v : CliqueVec α) (F : Clique → Factor α → Factor α) (k : Clique)
    (hk : k ∈ v.map Prod.fst) :
    CliqueVec.get (v.map (fun p => (p.1, F p.1 p.2))) k = F k (v.get k) := by
  unfold CliqueVec.get
  induction v with
  | nil => simp at hk
  | cons q v ih =>
    obtain ⟨c, f⟩ := q
    by_cases hc : k = c
    · subst hc; simp [List.lookup]
    · have hb : (k == c) = false := by simpa using hc
      have hk' : k ∈ v.map Prod.fst := by
        simp only [List.map_cons, List.mem_cons] at hk
        rcases hk with h | h
        · exact absurd h hc
        · exact h
      simp only [List.map_cons, List.lookup, hb]
      exact ih hk'

theorem keys_map_val (v : CliqueVec α) (F : Clique → Factor α → Factor α) :
    (v.map (fun p => (p.1, F p.1 p.2))).map Prod.fst = v.map Prod.fst := by
  rw [List.map_map]; rfl

/-- with duplicate-free keys, a map over the entries is a map over the keys -/
theorem map_eq_map_keys {β : Type} (v : CliqueVec α) (hn : (v.map Prod.fst).Nodup)
    (H : Clique → Factor α → β) :
    v.map (fun p => H p.1 p.2) = (v.map Prod.fst).map (fun c => H c (v.get c)) := by
  rw [List.map_map]
  apply List.map_congr_left
  intro p hp
  simp only [Function.comp, get_of_mem' v hn p hp]

end assoc

/-! ### layouts -/

/-- the model's shape: a well-formed domain with positive sizes, duplicate-free cliques, each a
duplicate-free list of attributes of the domain -/
structure Layout (d : Dom) (cliques : List Clique) : Prop where
  dom_wf : d.WF
  sizes : ∀ p ∈ d, 0 < p.2
  nodup : cliques.Nodup
  reg : ∀ c ∈ cliques, RegOK d c

/-- a clique vector over the model's cliques, each table laid out as `domain.project(clique)` -/
structure VecOn (d : Dom) (cliques : List Clique) (v : CliqueVec ℝ) : Prop where
  keys : v.map Prod.fst = cliques
  tables : ∀ p ∈ v, On d p.1 p.2

variable {d : Dom} {cliques : List Clique}

theorem VecOn.get_on {v : CliqueVec ℝ} (hv : VecOn d cliques v) {c : Clique} (hc : c ∈ cliques) :
    On d c (v.get c) :=
  hv.tables (c, v.get c) (get_mem' v c (by rw [hv.keys]; exact hc))

theorem smul_on (x : ℝ) {v : CliqueVec ℝ} (hv : VecOn d cliques v) : VecOn d cliques (smul x v) := by
  constructor
  · exact (keys_map_val v (fun _ f => Factor.mulScalar x f)).trans hv.keys
  · intro p hp
    obtain ⟨q, hq, rfl⟩ := List.mem_map.mp hp
    exact mapVals_on _ (hv.tables q hq)

theorem addV_on (L : Layout d cliques) {a b : CliqueVec ℝ} (ha : VecOn d cliques a)
    (hb : VecOn d cliques b) : VecOn d cliques (addV a b) := by
  constructor
  · exact (keys_map_val a (fun k f => Factor.add f (b.get k))).trans ha.keys
  · intro p hp
    obtain ⟨q, hq, rfl⟩ := List.mem_map.mp hp
    have hqc : q.1 ∈ cliques := by rw [← ha.keys]; exact List.mem_map_of_mem hq
    have hr := L.reg q.1 hqc
    exact binop_on _ hr (ha.tables q hq) ((hb.get_on hqc).sub hr)

theorem subV_on (L : Layout d cliques) {a b : CliqueVec ℝ} (ha : VecOn d cliques a)
    (hb : VecOn d cliques b) : VecOn d cliques (subV a b) :=
  addV_on L ha (smul_on _ hb)

/-! ### cell-wise readings -/

theorem smul_sem (L : Layout d cliques) (x : ℝ) {v : CliqueVec ℝ} (hv : VecOn d cliques v)
    {c : Clique} (hc : c ∈ cliques) {σ : Attr → Nat} (hσ : d.Valid σ) :
    ((smul x v).get c).sem σ = x * (v.get c).sem σ := by
  have e : (smul x v).get c = Factor.mulScalar x (v.get c) :=
    get_map_val v (fun _ f => Factor.mulScalar x f) c (by rw [hv.keys]; exact hc)
  rw [e]
  exact sem_mapVals_ok _ L.dom_wf ((hv.get_on hc).factorOK (L.reg c hc)) hσ

theorem addV_sem (L : Layout d cliques) {a b : CliqueVec ℝ} (ha : VecOn d cliques a)
    (hb : VecOn d cliques b) {c : Clique} (hc : c ∈ cliques) {σ : Attr → Nat} (hσ : d.Valid σ) :
    ((addV a b).get c).sem σ = (a.get c).sem σ + (b.get c).sem σ := by
  have e : (addV a b).get c = Factor.add (a.get c) (b.get c) :=
    get_map_val a (fun k f => Factor.add f (b.get k)) c (by rw [ha.keys]; exact hc)
  rw [e]
  have hr := L.reg c hc
  exact sem_binop_ok Scalar.add L.dom_wf ((ha.get_on hc).factorOK hr) ((hb.get_on hc).factorOK hr) hσ

theorem subV_sem (L : Layout d cliques) {a b : CliqueVec ℝ} (ha : VecOn d cliques a)
    (hb : VecOn d cliques b) {c : Clique} (hc : c ∈ cliques) {σ : Attr → Nat} (hσ : d.Valid σ) :
    ((subV a b).get c).sem σ = (a.get c).sem σ - (b.get c).sem σ := by
  unfold subV
  rw [addV_sem L ha (smul_on _ hb) hc hσ, smul_sem L _ hb hc hσ]
  show _ + (-(1:ℝ)) * _ = _
  ring

/-- `a.dot(b)` as a sum over cliques of sums over the clique's cells -/
theorem dotV_eq (L : Layout d cliques) {a b : CliqueVec ℝ} (ha : VecOn d cliques a)
    (hb : VecOn d cliques b) :
    dotV a b = (cliques.map (fun c => S d c (fun τ => (a.get c).sem τ * (b.get c).sem τ))).sum := by
  unfold dotV
  rw [rsum_eq, map_eq_map_keys a (by rw [ha.keys]; exact L.nodup)
    (fun c f => (f.mul (b.get c)).sumAll), ha.keys]
  congr 1
  apply List.map_congr_left
  intro c hc
  exact mul_sumAll_eq L.dom_wf L.sizes (L.reg c hc) (ha.get_on hc) (hb.get_on hc)

/-- `⟨g, μ − μ'⟩ = ⟨g, μ⟩ − ⟨g, μ'⟩` -/
theorem dotV_sub_right (L : Layout d cliques) {g a b : CliqueVec ℝ} (hg : VecOn d cliques g)
    (ha : VecOn d cliques a) (hb : VecOn d cliques b) :
    dotV g (subV a b) = dotV g a - dotV g b := by
  rw [dotV_eq L hg (subV_on L ha hb), dotV_eq L hg ha, dotV_eq L hg hb, ← sum_map_sub']
  congr 1
  apply List.map_congr_left
  intro c hc
  rw [← S_sub]
  apply S_congr d L.dom_wf L.sizes
  intro τ hτ
  rw [subV_sem L ha hb hc hτ]
  ring

/-! ### from cliques to the joint table -/

theorem mem_invert_iff (c : Clique) (a : Attr) : a ∈ d.invert c ↔ a ∈ d.attrs ∧ a ∉ c := by
  unfold Dom.invert
  simp [List.mem_filter]

theorem perm_append_invert (hd : d.WF) {c : Clique} (hc : RegOK d c) :
    (c ++ d.invert c).Perm d.attrs := by
  have hn : (c ++ d.invert c).Nodup := by
    rw [List.nodup_append]
    refine ⟨hc.1, hd.sublist List.filter_sublist, ?_⟩
    intro a ha b hb hab
    subst hab
    exact ((mem_invert_iff c a).mp hb).2 ha
  rw [List.perm_ext_iff_of_nodup hn hd]
  intro a
  rw [List.mem_append, mem_invert_iff]
  constructor
  · rintro (h | h)
    · exact hc.2 a h
    · exact h.1
  · intro h
    by_cases hm : a ∈ c
    · exact Or.inl hm
    · exact Or.inr ⟨h, hm⟩

/-- **clique-to-joint lifting**: for `F` reading only the attributes of `c`,
`Σ_{x_c} F(x_c) · Σ_{x ∖ c} W(x) = Σ_x F(x) · W(x)` -/
theorem S_clique_lift (hd : d.WF) {c : Clique} (hc : RegOK d c) (F W : (Attr → Nat) → ℝ)
    (hF : DependsOn F c) :
    S d c (fun τ => F τ * sumOver d (d.invert c) τ W) = S d d.attrs (fun τ => F τ * W τ) := by
  unfold S
  have e : (fun τ => F τ * sumOver d (d.invert c) τ W)
      = fun τ => sumOver d (d.invert c) τ (fun ρ => F ρ * W ρ) := by
    funext τ
    rw [sumOver_factor_left]
    intro v _
    exact hF.override τ _ v (fun a ha => ((mem_invert_iff c a).mp ha).2)
  rw [e, ← sumOver_append d c (d.invert c) _ _ hc.1
    (fun a ha hb => ((mem_invert_iff c a).mp hb).2 ha)]
  have hp := perm_append_invert hd hc
  exact sumOver_perm d _ _ _ _ hp (hp.nodup_iff.mpr hd)

theorem dependsOn_on {c : Clique} {f : Factor ℝ} (hf : On d c f) : DependsOn f.sem c := by
  intro σ τ h
  apply sem_congr
  rw [hf.attrs]
  exact h

/-- `G(x) = Σ_c g_c(x_c)`: the joint-level function of a clique vector -/
noncomputable def energy (cliques : List Clique) (g : CliqueVec ℝ) (σ : Attr → Nat) : ℝ :=
  (cliques.map (fun c => (g.get c).sem σ)).sum

/-- **`⟨g, μ⟩` for exact marginals**: if every `μ_c` is `T ·` the clique marginal of `W / Z`, then
`⟨g, μ⟩ = T · Σ_x G(x) · W(x) / Z` -/
theorem dotV_exact (L : Layout d cliques) {g mu : CliqueVec ℝ} (hg : VecOn d cliques g)
    (hmu : VecOn d cliques mu) (W : (Attr → Nat) → ℝ) (T Z : ℝ)
    (hex : ∀ c ∈ cliques, ∀ σ, d.Valid σ →
      (mu.get c).sem σ = T * sumOver d (d.invert c) σ W / Z) :
    dotV g mu = T * S d d.attrs (fun τ => energy cliques g τ * W τ) / Z := by
  rw [dotV_eq L hg hmu]
  have e1 : (fun τ => energy cliques g τ * W τ)
      = fun τ => (cliques.map (fun c => (g.get c).sem τ * W τ)).sum := by
    funext τ
    unfold energy
    rw [← List.sum_map_mul_right]
  rw [e1, S_sum]
  have e2 : ∀ c ∈ cliques, S d c (fun τ => (g.get c).sem τ * (mu.get c).sem τ)
      = S d d.attrs (fun τ => (g.get c).sem τ * W τ) * (T / Z) := by
    intro c hc
    rw [← S_clique_lift L.dom_wf (L.reg c hc) _ W (dependsOn_on (hg.get_on hc))]
    unfold S
    rw [← sumOver_mul_right]
    apply sumOver_congr_valid d L.dom_wf c _ _ _ (valid_zero d L.sizes)
    intro τ hτ
    rw [hex c hc τ hτ]
    ring
  rw [List.map_congr_left e2, List.sum_map_mul_right]
  ring

/-! ### the exact oracle -/

/-- the un-normalised table `h(x) · exp(Σ_c θ_c(x_c))` -/
noncomputable def weight (cliques : List Clique) (h : (Attr → Nat) → ℝ) (θ : CliqueVec ℝ)
    (σ : Attr → Nat) : ℝ := h σ * Real.exp (energy cliques θ σ)

/-- the partition function `Σ_x h(x) · exp(Σ_c θ_c(x_c))` -/
noncomputable def partitionFn (d : Dom) (cliques : List Clique) (h : (Attr → Nat) → ℝ)
    (θ : CliqueVec ℝ) : ℝ := S d d.attrs (weight cliques h θ)

/-- **exact marginal oracle** with base measure `h` and total `T`: on every parameter vector laid
out on the cliques, `bp θ` is laid out on the cliques and its table at `c` is
`T · Σ_{x ∖ c} h(x) exp(Σ_c θ_c(x_c)) / Z(θ)` -/
def ExactOracle (d : Dom) (cliques : List Clique) (h : (Attr → Nat) → ℝ) (T : ℝ)
    (bp : CliqueVec ℝ → CliqueVec ℝ) : Prop :=
  ∀ θ, VecOn d cliques θ →
    VecOn d cliques (bp θ) ∧
    ∀ c ∈ cliques, ∀ σ, d.Valid σ →
      ((bp θ).get c).sem σ
        = T * sumOver d (d.invert c) σ (weight cliques h θ) / partitionFn d cliques h θ

/-- the parameters `ω − α g` have energy `E_ω − α G` -/
theorem energy_step (L : Layout d cliques) {ω g : CliqueVec ℝ} (hω : VecOn d cliques ω)
    (hg : VecOn d cliques g) (α : ℝ) {σ : Attr → Nat} (hσ : d.Valid σ) :
    energy cliques (subV ω (smul α g)) σ = energy cliques ω σ - α * energy cliques g σ := by
  unfold energy
  rw [← List.sum_map_mul_left, ← sum_map_sub']
  congr 1
  apply List.map_congr_left
  intro c hc
  rw [subV_sem L hω (smul_on α hg) hc hσ, smul_sem L α hg hc hσ]

/-- `S` over the whole domain as a list sum over its cells -/
theorem S_attrs_eq (F : (Attr → Nat) → ℝ) :
    S d d.attrs F = ((cells (d.attrs.map d.cfg)).map (fun v => F (asg d.attrs v))).sum := rfl

theorem partitionFn_pos (L : Layout d cliques) (h : (Attr → Nat) → ℝ) (hh : ∀ σ, 0 ≤ h σ)
    (hpos : 0 < S d d.attrs h) (θ : CliqueVec ℝ) : 0 < partitionFn d cliques h θ := by
  unfold partitionFn weight
  rw [S_attrs_eq]
  rw [S_attrs_eq] at hpos
  exact sum_mul_pos_of_sum_pos _ (fun v => h (asg d.attrs v)) _ (fun v _ => hh _)
    (fun v _ => Real.exp_pos _) hpos

/-- **the direction term of an exact oracle, at the level of the joint table**: with `l` the cells
of the joint domain, `h_v`, `E_v`, `G_v` the base measure, the energy of `ω` and the joint-level
direction at the cell `v`,
`⟨dL, bp ω − bp (ω − α dL)⟩ = T · (Σ h e^{E} G / Σ h e^{E} − Σ h e^{E − αG} G / Σ h e^{E − αG})` -/
theorem exact_step_eq (L : Layout d cliques) (h : (Attr → Nat) → ℝ) (T : ℝ)
    (bp : CliqueVec ℝ → CliqueVec ℝ)
    (hbp : ExactOracle d cliques h T bp) (omega dL : CliqueVec ℝ) (hω : VecOn d cliques omega)
    (hg : VecOn d cliques dL) (alpha : ℝ) :
    dotV dL (subV (bp omega) (bp (subV omega (smul alpha dL))))
      = T * (((cells (d.attrs.map d.cfg)).map (fun v => h (asg d.attrs v)
              * Real.exp (energy cliques omega (asg d.attrs v)) * energy cliques dL (asg d.attrs v))).sum
            / ((cells (d.attrs.map d.cfg)).map (fun v => h (asg d.attrs v)
              * Real.exp (energy cliques omega (asg d.attrs v)))).sum
          - ((cells (d.attrs.map d.cfg)).map (fun v => h (asg d.attrs v)
              * Real.exp (energy cliques omega (asg d.attrs v)
                  - alpha * energy cliques dL (asg d.attrs v)) * energy cliques dL (asg d.attrs v))).sum
            / ((cells (d.attrs.map d.cfg)).map (fun v => h (asg d.attrs v)
              * Real.exp (energy cliques omega (asg d.attrs v)
                  - alpha * energy cliques dL (asg d.attrs v)))).sum) := by
  have hω' : VecOn d cliques (subV omega (smul alpha dL)) := subV_on L hω (smul_on alpha hg)
  obtain ⟨hmu, hex⟩ := hbp omega hω
  obtain ⟨hmu', hex'⟩ := hbp _ hω'
  rw [dotV_sub_right L hg hmu hmu', dotV_exact L hg hmu _ T _ hex, dotV_exact L hg hmu' _ T _ hex']
  unfold partitionFn weight
  simp only [S_attrs_eq]
  set l := cells (d.attrs.map d.cfg) with hl
  have hstep : ∀ v ∈ l, energy cliques (subV omega (smul alpha dL)) (asg d.attrs v)
      = energy cliques omega (asg d.attrs v) - alpha * energy cliques dL (asg d.attrs v) :=
    fun v hv => energy_step L hω hg alpha (valid_asg d L.dom_wf L.sizes d.attrs v hv)
  have e1 : l.map (fun v => energy cliques dL (asg d.attrs v) *
        (h (asg d.attrs v) * Real.exp (energy cliques (subV omega (smul alpha dL)) (asg d.attrs v))))
      = l.map (fun v => h (asg d.attrs v) * Real.exp (energy cliques omega (asg d.attrs v)
          - alpha * energy cliques dL (asg d.attrs v)) * energy cliques dL (asg d.attrs v)) := by
    apply List.map_congr_left
    intro v hv
    rw [hstep v hv]; ring
  have e2 : l.map (fun v => h (asg d.attrs v)
        * Real.exp (energy cliques (subV omega (smul alpha dL)) (asg d.attrs v)))
      = l.map (fun v => h (asg d.attrs v) * Real.exp (energy cliques omega (asg d.attrs v)
          - alpha * energy cliques dL (asg d.attrs v))) := by
    apply List.map_congr_left
    intro v hv
    rw [hstep v hv]
  have e3 : l.map (fun v => energy cliques dL (asg d.attrs v) *
        (h (asg d.attrs v) * Real.exp (energy cliques omega (asg d.attrs v))))
      = l.map (fun v => h (asg d.attrs v) * Real.exp (energy cliques omega (asg d.attrs v))
          * energy cliques dL (asg d.attrs v)) := by
    apply List.map_congr_left
    intro v _
    ring
  rw [e1, e2, e3]
  ring

theorem partitionFn_pos_list (L : Layout d cliques) (h : (Attr → Nat) → ℝ) (hh : ∀ σ, 0 ≤ h σ)
    (hpos : 0 < S d d.attrs h) (θ : CliqueVec ℝ) :
    0 < ((cells (d.attrs.map d.cfg)).map (fun v => h (asg d.attrs v)
        * Real.exp (energy cliques θ (asg d.attrs v)))).sum := by
  have hZ := partitionFn_pos L h hh hpos θ
  unfold partitionFn weight at hZ
  rw [S_attrs_eq] at hZ
  exact hZ

/-- **an exact oracle is monotone along every step** (deliverable 3) -/
theorem exact_step_monotone (L : Layout d cliques) (h : (Attr → Nat) → ℝ) (hh : ∀ σ, 0 ≤ h σ)
    (hpos : 0 < S d d.attrs h) (T : ℝ) (hT : 0 < T) (bp : CliqueVec ℝ → CliqueVec ℝ)
    (hbp : ExactOracle d cliques h T bp) (omega dL : CliqueVec ℝ) (hω : VecOn d cliques omega)
    (hg : VecOn d cliques dL) (alpha : ℝ) (hα : 0 ≤ alpha) :
    0 ≤ dotV dL (subV (bp omega) (bp (subV omega (smul alpha dL)))) := by
  rw [exact_step_eq L h T bp hbp omega dL hω hg alpha]
  have key := expfam_mean_monotone_ratio (cells (d.attrs.map d.cfg)) (fun v => h (asg d.attrs v))
    (fun v => energy cliques omega (asg d.attrs v)) (fun v => energy cliques dL (asg d.attrs v))
    alpha (fun v _ => hh _) (partitionFn_pos_list L h hh hpos omega) hα
  exact mul_nonneg hT.le (by linarith)

/-- the signed form, for **every** real step: `0 ≤ α · ⟨dL, bp ω − bp (ω − α dL)⟩` -/
theorem exact_step_monotone_signed (L : Layout d cliques) (h : (Attr → Nat) → ℝ) (hh : ∀ σ, 0 ≤ h σ)
    (hpos : 0 < S d d.attrs h) (T : ℝ) (hT : 0 < T) (bp : CliqueVec ℝ → CliqueVec ℝ)
    (hbp : ExactOracle d cliques h T bp) (omega dL : CliqueVec ℝ) (hω : VecOn d cliques omega)
    (hg : VecOn d cliques dL) (alpha : ℝ) :
    0 ≤ alpha * dotV dL (subV (bp omega) (bp (subV omega (smul alpha dL)))) := by
  rw [exact_step_eq L h T bp hbp omega dL hω hg alpha]
  have key := expfam_mean_signed_ratio (cells (d.attrs.map d.cfg)) (fun v => h (asg d.attrs v))
    (fun v => energy cliques omega (asg d.attrs v)) (fun v => energy cliques dL (asg d.attrs v))
    alpha (fun v _ => hh _) (partitionFn_pos_list L h hh hpos omega)
  have : ∀ X Y : ℝ, alpha * (Y - X) ≤ 0 → 0 ≤ alpha * (T * (X - Y)) := by
    intro X Y hxy
    have : alpha * (T * (X - Y)) = T * (-(alpha * (Y - X))) := by ring
    rw [this]
    exact mul_nonneg hT.le (by linarith)
  exact this _ _ key

/-- an exact oracle is `MonotoneOn` the vectors laid out on the cliques -/
theorem exact_monotoneOn (L : Layout d cliques) (h : (Attr → Nat) → ℝ) (hh : ∀ σ, 0 ≤ h σ)
    (hpos : 0 < S d d.attrs h) (T : ℝ) (hT : 0 < T) (bp : CliqueVec ℝ → CliqueVec ℝ)
    (hbp : ExactOracle d cliques h T bp) : MonotoneOn (VecOn d cliques) bp :=
  fun ω g α hω hg hα => exact_step_monotone L h hh hpos T hT bp hbp ω g hω hg α hα

theorem exact_closedUnder (L : Layout d cliques) (h : (Attr → Nat) → ℝ) (T : ℝ)
    (bp : CliqueVec ℝ → CliqueVec ℝ) (hbp : ExactOracle d cliques h T bp)
    (lossgrad : CliqueVec ℝ → ℝ × CliqueVec ℝ)
    (hgrad : ∀ μ, VecOn d cliques μ → VecOn d cliques (lossgrad μ).2) :
    ClosedUnder (VecOn d cliques) bp lossgrad :=
  ⟨fun ω g α hω hg => subV_on L hω (smul_on α hg), fun θ hθ => hgrad _ (hbp θ hθ).1⟩

/-- an exact oracle is `StepMonotone` for every real step size -/
theorem exact_stepMonotone (L : Layout d cliques) (h : (Attr → Nat) → ℝ) (hh : ∀ σ, 0 ≤ h σ)
    (hpos : 0 < S d d.attrs h) (T : ℝ) (hT : 0 < T) (bp : CliqueVec ℝ → CliqueVec ℝ)
    (hbp : ExactOracle d cliques h T bp) : StepMonotone (VecOn d cliques) (fun _ => True) bp :=
  fun ω g α hω hg _ => exact_step_monotone_signed L h hh hpos T hT bp hbp ω g hω hg α

/-- **mirror descent with an exact oracle**: the returned loss is at most the initial loss, or some
line search was forced; for any loss whose gradient is laid out on the cliques, and any real
initial step `alpha0` -/
theorem md_no_forced_descent_exact_aux (L : Layout d cliques) (h : (Attr → Nat) → ℝ)
    (hh : ∀ σ, 0 ≤ h σ) (hpos : 0 < S d d.attrs h) (T : ℝ) (hT : 0 < T)
    (bp : CliqueVec ℝ → CliqueVec ℝ) (hbp : ExactOracle d cliques h T bp)
    (lossgrad : CliqueVec ℝ → ℝ × CliqueVec ℝ)
    (hgrad : ∀ μ, VecOn d cliques μ → VecOn d cliques (lossgrad μ).2)
    (iters : Nat) (theta0 : CliqueVec ℝ) (h0 : VecOn d cliques theta0) (alpha0 : ℝ) :
    ∃ Lv, (Solvers.mirrorDescent bp lossgrad iters theta0 alpha0).loss = some Lv ∧
      (Lv ≤ (lossgrad (bp theta0)).1 ∨ mdForced bp lossgrad iters theta0 alpha0 = true) :=
  md_no_forced_descent_on (VecOn d cliques) (fun _ => True) bp lossgrad
    (exact_stepMonotone L h hh hpos T hT bp hbp) stepClosed_true
    (exact_closedUnder L h T bp hbp lossgrad hgrad) iters theta0 h0 alpha0 trivial

/-- iteration by iteration, for an exact oracle -/
theorem md_step_descends_exact_aux (L : Layout d cliques) (h : (Attr → Nat) → ℝ)
    (hh : ∀ σ, 0 ≤ h σ) (hpos : 0 < S d d.attrs h) (T : ℝ) (hT : 0 < T)
    (bp : CliqueVec ℝ → CliqueVec ℝ) (hbp : ExactOracle d cliques h T bp)
    (lossgrad : CliqueVec ℝ → ℝ × CliqueVec ℝ)
    (hgrad : ∀ μ, VecOn d cliques μ → VecOn d cliques (lossgrad μ).2)
    (k : Nat) (theta0 : CliqueVec ℝ) (h0 : VecOn d cliques theta0) (alpha0 : ℝ) :
    (mdState bp lossgrad (k + 1) theta0 alpha0).2.2.1.1 ≤ (mdState bp lossgrad k theta0 alpha0).2.2.1.1
      ∨ forcedAt bp lossgrad (mdState bp lossgrad k theta0 alpha0) = true :=
  mdState_step_descends (VecOn d cliques) (fun _ => True) bp lossgrad
    (exact_stepMonotone L h hh hpos T hT bp hbp) stepClosed_true
    (exact_closedUnder L h T bp hbp lossgrad hgrad) k theta0 h0 alpha0 trivial

end PGM.MD
