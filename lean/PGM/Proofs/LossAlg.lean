import PGM.Proofs.LossBasic
import Mathlib.Tactic.LinearCombination
/-!
# Helpers for C04 (4): list algebra of one measurement — residual, expansion of the square,
`⟨Qᵀ r, x⟩ = ⟨r, Q x⟩`
-/
set_option linter.unusedSectionVars false
set_option linter.unusedVariables false
namespace PGM.LossAux
open PGM PGM.Loss
variable {K : Type} [Field K] [LinearOrder K] [IsStrictOrderedRing K]

/-- `Q x` over `K` -/
def qxL (Q : List (List (PlainOf K))) (x : List K) : List K :=
  Q.map (fun row => vdot (row.map (·.v)) x)
/-- `c (Q x − y)` over `K` -/
def residL (c : K) (Q : List (List (PlainOf K))) (y : List (PlainOf K)) (x : List K) : List K :=
  List.zipWith (fun q y => c * (q - y.v)) (qxL Q x) y

def sqsum (l : List K) : K := (l.map (fun r => r * r)).sum

theorem vdot_self (x : List K) : vdot x x = sqsum x := by
  induction x with
  | nil => simp [vdot, sqsum]
  | cons a x ih => rw [vdot_cons, ih]; simp [sqsum]

theorem qxL_length (Q : List (List (PlainOf K))) (x : List K) : (qxL Q x).length = Q.length := by
  simp [qxL]

theorem matVec_v (Q : List (List (PlainOf K))) (x : List (PlainOf K)) :
    (matVec Q x).map (·.v) = qxL Q (x.map (·.v)) := by
  unfold matVec qxL
  rw [List.map_map]
  apply List.map_congr_left
  intro row _
  exact dot_v row x

theorem residual_v (m : Meas (PlainOf K)) (f : Factor (PlainOf K)) :
    (residual m f).map (·.v)
      = residL (m.noise.v)⁻¹ m.Q m.y ((f.projectSum m.proj).datavector.map (·.v)) := by
  unfold residual residL
  simp only []
  rw [← matVec_v, List.map_zipWith, List.zipWith_map_left]
  congr 1
  funext q y
  simp

/-- the exact expansion of the squared residual -/
theorem expansion_core (c : K) (Q : List (List (PlainOf K))) (y : List (PlainOf K)) (x x' : List K)
    (hx : x.length = x'.length) (hy : y.length = Q.length) :
    sqsum (residL c Q y (List.zipWith (· + ·) x x'))
      = sqsum (residL c Q y x) + 2 * vdot (residL c Q y x) ((qxL Q x').map (fun t => c * t))
        + sqsum ((qxL Q x').map (fun t => c * t)) := by
  induction Q generalizing y with
  | nil => simp [residL, qxL, sqsum, vdot]
  | cons row Q ih =>
    cases y with
    | nil => simp at hy
    | cons yi y =>
      have ih' := ih y (by simpa using hy)
      simp only [residL, qxL, sqsum, List.map_cons, List.zipWith_cons_cons, List.sum_cons, vdot_cons]
        at ih' ⊢
      rw [vdot_add_right _ x x' hx]
      linear_combination ih'

/-- column sums of `Qᵀ v` -/
def colS (Q : List (List (PlainOf K))) (v : List (PlainOf K)) (j : Nat) : K :=
  ((List.zipWith (fun row vi => Scalar.mul (row.getD j Scalar.zero) vi) Q v).map (·.v)).sum

theorem matTVec_v (Q : List (List (PlainOf K))) (n : Nat) (v : List (PlainOf K)) (c : PlainOf K) :
    ((matTVec Q n v).map (fun t => Scalar.mul c t)).map (·.v)
      = (List.range n).map (fun j => c.v * colS Q v j) := by
  unfold matTVec
  rw [List.map_map, List.map_map]
  apply List.map_congr_left
  intro j _
  simp [colS]

theorem vdot_range (n : Nat) (F : Nat → K) (x : List K) (hx : x.length = n) :
    vdot ((List.range n).map F) x = ((List.range n).map (fun j => F j * x.getD j 0)).sum := by
  have : x = (List.range n).map (fun j => x.getD j 0) := by
    rw [← hx]; exact (map_getD_range x 0).symm
  conv => lhs; rw [this]
  rw [vdot_map_map]

theorem vdot_eq_range (n : Nat) (r x : List K) (hr : r.length = n) (hx : x.length = n) :
    vdot r x = ((List.range n).map (fun j => r.getD j 0 * x.getD j 0)).sum := by
  have : r = (List.range n).map (fun j => r.getD j 0) := by
    rw [← hr]; exact (map_getD_range r 0).symm
  conv => lhs; rw [this]
  rw [vdot_range n _ x hx]

/-- `⟨c Qᵀ r, x⟩ = c ⟨r, Q x⟩` -/
theorem transpose_adjoint (c : K) (Q : List (List (PlainOf K))) (v : List (PlainOf K)) (n : Nat)
    (x : List K) (hx : x.length = n) (hrows : ∀ row ∈ Q, row.length = n) :
    ((List.range n).map (fun j => (c * colS Q v j) * x.getD j 0)).sum
      = c * vdot (v.map (·.v)) (qxL Q x) := by
  induction Q generalizing v with
  | nil => simp [colS, qxL, vdot]
  | cons row Q ih =>
    cases v with
    | nil => simp [colS, qxL, vdot]
    | cons v0 v =>
      have ih' := ih v (fun r hr => hrows r (by simp [hr]))
      have hrow : (row.map (·.v)).length = n := by simpa using hrows row (by simp)
      have e : ∀ j, (row.getD j Scalar.zero).v = (row.map (·.v)).getD j 0 := by
        intro j
        simp only [List.getD_eq_getElem?_getD, List.getElem?_map]
        cases row[j]? <;> rfl
      simp only [qxL, List.map_cons, vdot_cons] at ih' ⊢
      rw [vdot_eq_range n _ x hrow hx]
      have key : ((List.range n).map (fun j => (c * colS (row :: Q) (v0 :: v) j) * x.getD j 0)).sum
          = (c * v0.v) * ((List.range n).map (fun j => (row.map (·.v)).getD j 0 * x.getD j 0)).sum
            + ((List.range n).map (fun j => (c * colS Q v j) * x.getD j 0)).sum := by
        rw [← list_sum_map_mul_left, ← list_sum_map_add]
        apply congrArg
        apply List.map_congr_left
        intro j _
        simp only [colS, List.zipWith_cons_cons, List.map_cons, List.sum_cons, mul_v, e]
        ring
      rw [key, ih']
      ring

end PGM.LossAux
