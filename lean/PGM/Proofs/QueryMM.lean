import PGM.Proofs.QueryFold
/-! `calculate_many_marginals`: the fold invariant and the final answer -/
namespace PGM.Sem
open PGM PGM.JT PGM.GM
set_option linter.unusedVariables false
set_option linter.unusedSectionVars false
variable {K : Type} [Field K] [LinearOrder K] [IsStrictOrderedRing K]

/-- a stored pairwise result: a good table over the union of the two cliques -/
def GoodEntry (d : Dom) (pots : CliqueVec (LogOf K)) (s : K)
    (e : (Clique × Clique) × Factor (PlainOf K)) : Prop :=
  Good d pots s e.2 ∧ ∀ a, a ∈ e.2.dom.attrs ↔ a ∈ e.1.1 ∨ a ∈ e.1.2

section model
variable {d : Dom} {cliques : List Clique} {t : Tree} {order : List (Clique × Clique)}
  {pots : CliqueVec (LogOf K)} (hok : ModelOK d cliques t order pots)
include hok

theorem isTree_of_ok : isTree t = true := by
  have h := hok.jt
  simp only [checkJT, Bool.and_eq_true] at h
  exact h.1.1.1.2

theorem valid_of_ok : JT.Valid d.attrs [] t order := checkJT_sound _ _ _ _ hok.jt

/-- running intersection across a cut whose only crossing edge is `(cj, cl)` -/
theorem rip_sep (r : Clique → Bool) (cj cl : Clique)
    (hside : ∀ n ∈ t.nodes, ∀ m ∈ t.nodes, t.adj n m = true → r n = true → r m = false →
      n = cj ∧ m = cl) :
    ∀ a ∈ d.attrs, ∀ n ∈ cliques, ∀ m ∈ cliques, a ∈ n → a ∈ m → r n = true → r m = false →
      a ∈ cj ∧ a ∈ cl := by
  intro a ha n hn m hm han ham hrn hrm
  have hnodes := hok.nodes
  rw [← hnodes] at hn hm
  have hc := (valid_of_ok hok).rip a ha n hn m hm han ham
  have key : ∀ x, Conn t (t.nodes.filter (fun k => k.contains a)) x m →
      x ∈ t.nodes → a ∈ x → r x = true → a ∈ cj ∧ a ∈ cl := by
    intro x hx
    induction hx using Relation.ReflTransGen.head_induction_on with
    | refl =>
      intro _ _ h
      rw [h] at hrm
      exact absurd hrm (by simp)
    | @head x c h' _ ih =>
      intro hxn hax hrx
      obtain ⟨hadj, hcmem⟩ := h'
      obtain ⟨hcn, hac⟩ := List.mem_filter.mp hcmem
      have hac' : a ∈ c := by simpa using hac
      by_cases hrc : r c = true
      · exact ih hcn hac' hrc
      · have hrc' : r c = false := by simpa using hrc
        obtain ⟨h1, h2⟩ := hside x hxn c hcn hadj hrx hrc'
        exact ⟨h1 ▸ hax, h2 ▸ hac'⟩
  exact key n hc hn han hrn

variable {marg : CliqueVec (PlainOf K)} {s : K}
  (hkeys : marg.map Prod.fst = cliques)
  (hwf : ∀ p ∈ marg, p.2.WF ∧ p.2.dom.attrs.Perm p.1 ∧ p.2.dom.Agrees d)
  (hcal : ∀ c ∈ cliques, ∀ σ, d.Valid σ → ((marg.get c).sem σ).v = s * marginal d pots c σ)
  (hnonneg : ∀ p ∈ marg, ∀ x ∈ p.2.vals.data.toList, 0 ≤ x.v)
include hkeys hwf hcal hnonneg

/-- the table computed for the pair `(ci, cj)` is good, provided the table for `(ci, pred cj)` is
already stored -/
theorem mmNew_good (res : List ((Clique × Clique) × Factor (PlainOf K)))
    (hres : ∀ e ∈ res, GoodEntry d pots s e) (ci cj : Clique) (hi : ci ∈ cliques) (hj : cj ∈ cliques)
    (hne : cj ≠ ci)
    (hkey : predOf (bfs t ci) cj ≠ ci → ∃ e ∈ res, e.1 = (ci, predOf (bfs t ci) cj)) :
    Good d pots s (mmNew cliques t marg res ci cj) ∧
      ∀ a, a ∈ (mmNew cliques t marg res ci cj).dom.attrs ↔ a ∈ ci ∨ a ∈ cj := by
  have hnodes := hok.nodes
  have f := treeFacts t (isTree_of_ok hok)
  have V := valid_of_ok hok
  have hi' : ci ∈ t.nodes := hnodes ▸ hi
  have hj' : cj ∈ t.nodes := hnodes ▸ hj
  obtain ⟨r, hrj, hrl, hri, hside⟩ := exists_side t f V.connected ci cj hi' hj' hne
  have hsep := rip_sep hok r cj _ hside
  obtain ⟨hl', hadj, hdist⟩ := bfs_pred t f.nodes_nodup V.connected ci cj hi' hj' hne
  have hl : predOf (bfs t ci) cj ∈ cliques := hnodes ▸ hl'
  unfold mmNew
  rw [mmTbl_eq cliques t ci hi]
  generalize predOf (bfs t ci) cj = cl at *
  unfold mmCond
  by_cases hcl : cl = ci
  · rw [if_pos (by simpa using hcl)]
    obtain ⟨hx, hxattrs⟩ := marg_ok hok hkeys hwf ci hi
    have hxg := marg_good hok hkeys hwf hcal ci hi
    obtain ⟨hg, hattrs⟩ := mul_cond_good hok hkeys hwf hcal hnonneg (marg.get ci) hxg cj cl hj r hrj hsep
      (fun a ha => ⟨ci, hi, hri, (hxattrs a).mp ha⟩)
      (fun a ha => (hxattrs a).mpr (hcl ▸ ha))
    refine ⟨hg, fun a => ?_⟩
    rw [hattrs a, hxattrs a]
  · rw [if_neg (by simpa using hcl)]
    obtain ⟨x, hlook, hxmem⟩ := lookup_of_hasKey res (ci, cl) (hkey hcl)
    rw [hlook]
    simp only [Option.getD_some]
    obtain ⟨hxg, hxattrs⟩ := hres _ hxmem
    simp only at hxattrs
    obtain ⟨hg, hattrs⟩ := mul_cond_good hok hkeys hwf hcal hnonneg x hxg cj cl hj r hrj hsep
      (fun a ha => by
        rcases (hxattrs a).mp ha with h | h
        · exact ⟨ci, hi, hri, h⟩
        · exact ⟨cl, hl, hrl, h⟩)
      (fun a ha => (hxattrs a).mpr (Or.inr ha))
    have hsnd : (cl.filter (fun a => !ci.contains a && !cj.contains a)).Nodup :=
      (hok.clique_ok cl hl).1.sublist List.filter_sublist
    obtain ⟨hg2, hattrs2⟩ := good_sum hok hkeys hwf _ hg
      (cl.filter (fun a => !ci.contains a && !cj.contains a)) hsnd
      (fun a ha => (hattrs a).mpr (Or.inl ((hxattrs a).mpr (Or.inr (List.mem_filter.mp ha).1))))
    refine ⟨hg2, fun a => ?_⟩
    rw [hattrs2 a, hattrs a, hxattrs a]
    simp only [List.mem_filter, Bool.and_eq_true, Bool.not_eq_eq_eq_not, Bool.not_true,
      List.contains_eq_mem, decide_eq_false_iff_not]
    tauto

/-- the loop invariant of the first fold -/
theorem mmResults_good : ∀ e ∈ mmResults cliques t marg, GoodEntry d pots s e := by
  have hnodes := hok.nodes
  have f := treeFacts t (isTree_of_ok hok)
  have V := valid_of_ok hok
  have hcnd : cliques.Nodup := hnodes ▸ f.nodes_nodup
  unfold mmResults
  have hperm := Dom.sortBy_perm (fun (p : Clique × Clique) => distOf (mmTbl cliques t p.1) p.2) (combos2 cliques)
  have hsorted := Dom.sortBy_sorted (fun (p : Clique × Clique) => distOf (mmTbl cliques t p.1) p.2) (combos2 cliques)
  generalize Dom.sortBy (fun (p : Clique × Clique) => distOf (mmTbl cliques t p.1) p.2) (combos2 cliques)
    = prs at hperm hsorted
  have inv := foldl_prefix_inv prs (mmStep cliques t marg) []
    (fun pre res => (∀ e ∈ res, GoodEntry d pots s e) ∧
      ∀ p ∈ pre, (∃ e ∈ res, e.1 = p) ∧ (∃ e ∈ res, e.1 = (p.2, p.1)))
    ⟨by simp, by simp⟩
    (by
      intro pre p post res hl ⟨hres, hkeysP⟩
      have hp : p ∈ combos2 cliques := hperm.mem_iff.mp (by rw [hl]; simp)
      obtain ⟨hi, hj, hne⟩ := mem_combos2 cliques p.1 p.2 hp
      have hne' := hne hcnd
      have hi' : p.1 ∈ t.nodes := hnodes ▸ hi
      have hj' : p.2 ∈ t.nodes := hnodes ▸ hj
      obtain ⟨hl', hadj, hdist⟩ := bfs_pred t f.nodes_nodup V.connected p.1 p.2 hi' hj' (Ne.symm hne')
      have hlc : predOf (bfs t p.1) p.2 ∈ cliques := hnodes ▸ hl'
      have hkey : predOf (bfs t p.1) p.2 ≠ p.1 → ∃ e ∈ res, e.1 = (p.1, predOf (bfs t p.1) p.2) := by
        intro hcl
        have hkx : distOf (mmTbl cliques t p.1) p.2 = distOf (bfs t p.1) (predOf (bfs t p.1) p.2) + 1 := by
          rw [mmTbl_eq cliques t p.1 hi]; exact hdist
        rcases combos2_complete cliques p.1 (predOf (bfs t p.1) p.2) hi hlc (Ne.symm hcl) with hq | hq
        · have hq' : (p.1, predOf (bfs t p.1) p.2) ∈ pre ++ p :: post := by
            rw [← hl]; exact hperm.mem_iff.mpr hq
          have := sorted_prefix _ pre post p _ (hl ▸ hsorted) hq' (by
            show distOf (mmTbl cliques t p.1) (predOf (bfs t p.1) p.2) < distOf (mmTbl cliques t p.1) p.2
            rw [hkx, mmTbl_eq cliques t p.1 hi]; omega)
          exact (hkeysP _ this).1
        · have hq' : (predOf (bfs t p.1) p.2, p.1) ∈ pre ++ p :: post := by
            rw [← hl]; exact hperm.mem_iff.mpr hq
          have := sorted_prefix _ pre post p _ (hl ▸ hsorted) hq' (by
            show distOf (mmTbl cliques t (predOf (bfs t p.1) p.2)) p.1 < distOf (mmTbl cliques t p.1) p.2
            rw [hkx, mmTbl_eq cliques t _ hlc,
              bfs_dist_symm t f.nodes_nodup V.connected _ _ hl' hi']
            omega)
          exact (hkeysP _ this).2
      obtain ⟨hg, hattrs⟩ := mmNew_good hok hkeys hwf hcal hnonneg res hres p.1 p.2 hi hj (Ne.symm hne') hkey
      refine ⟨?_, ?_⟩
      · intro e he
        unfold mmStep at he
        rcases mem_dictSet _ _ _ _ he with h | rfl
        · rcases mem_dictSet _ _ _ _ h with h' | rfl
          · exact hres e h'
          · exact ⟨hg, hattrs⟩
        · exact ⟨hg, fun a => by rw [hattrs a]; exact Or.comm⟩
      · intro q hq
        unfold mmStep
        rcases List.mem_append.mp hq with h | h
        · obtain ⟨h1, h2⟩ := hkeysP q h
          exact ⟨hasKey_dictSet_of _ _ _ _ (hasKey_dictSet_of _ _ _ _ h1),
            hasKey_dictSet_of _ _ _ _ (hasKey_dictSet_of _ _ _ _ h2)⟩
        · rw [List.mem_singleton.mp h]
          exact ⟨hasKey_dictSet_of _ _ _ _ (hasKey_dictSet_self _ _ _), hasKey_dictSet_self _ _ _⟩)
  exact inv.1

/-- the second fold re-keys the tables by their canonical attribute set -/
theorem mmResults2_good : ∀ e ∈ mmResults2 d cliques t marg,
    Good d pots s e.2 ∧ ∀ a, a ∈ e.1 ↔ a ∈ e.2.dom.attrs := by
  have h1 := mmResults_good hok hkeys hwf hcal hnonneg
  unfold mmResults2
  generalize mmResults cliques t marg = rs at h1
  have key : ∀ (l : List ((Clique × Clique) × Factor (PlainOf K))) (acc : List (List Attr × Factor (PlainOf K))),
      (∀ e ∈ l, GoodEntry d pots s e) →
      (∀ e ∈ acc, Good d pots s e.2 ∧ ∀ a, a ∈ e.1 ↔ a ∈ e.2.dom.attrs) →
      ∀ e ∈ l.foldl (fun (dd : List (List Attr × Factor (PlainOf K))) (e : (Clique × Clique) × Factor (PlainOf K)) =>
        dictSet dd (d.canonical (e.1.1 ++ e.1.2)) e.2) acc,
        Good d pots s e.2 ∧ ∀ a, a ∈ e.1 ↔ a ∈ e.2.dom.attrs := by
    intro l
    induction l with
    | nil => intro acc _ hacc; exact hacc
    | cons x xs ih =>
      intro acc hl hacc
      rw [List.foldl_cons]
      apply ih _ (fun e he => hl e (by simp [he]))
      intro e he
      rcases mem_dictSet _ _ _ _ he with h | rfl
      · exact hacc e h
      · obtain ⟨hg, hattrs⟩ := hl x (by simp)
        refine ⟨hg, fun a => ?_⟩
        simp only [Dom.canonical, List.mem_filter, List.contains_eq_mem, List.mem_append,
          decide_eq_true_eq]
        rw [hattrs a]
        constructor
        · exact fun h => h.2
        · exact fun h => ⟨hg.1.2.2 a ((hattrs a).mpr h), h⟩
  exact key rs [] h1 (by simp)

end model

end PGM.Sem
