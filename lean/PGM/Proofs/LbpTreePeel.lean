import PGM.Proofs.LbpTreeMath
/-!
# Removing a leaf clique

`c` is a clique of `cliques`, `rest = cliques.erase c`, `P = privA` the attributes of `c` that belong
to no other clique, `A' = keepA = A ∖ P`, `PA = dropA = A ∩ P` (a permutation of `P`).
Summing `exp(logW cliques A e)` over `P` leaves `C · exp(logW rest A' e')` where `e' = eAdd f e c`
has absorbed the message of `c` (`peel_iso`, `peel_sep`).
-/
namespace PGM.LbpTree
open PGM PGM.JT PGM.Oracle
set_option linter.unusedSectionVars false
set_option linter.unusedVariables false

def inRest (rest : List Clique) (u : Attr) : Bool := rest.any (fun g => g.contains u)

theorem inRest_iff (rest : List Clique) (u : Attr) : inRest rest u = true ↔ ∃ g ∈ rest, u ∈ g := by
  unfold inRest
  simp only [List.any_eq_true, List.contains_iff_mem]

/-- the attributes of `c` that belong to no other clique -/
def privA (cliques : List Clique) (c : Clique) : List Attr := c.filter (fun u => !inRest (cliques.erase c) u)
def keepA (cliques : List Clique) (A : List Attr) (c : Clique) : List Attr :=
  A.filter (fun a => !(privA cliques c).contains a)
def dropA (cliques : List Clique) (A : List Attr) (c : Clique) : List Attr :=
  A.filter (fun a => (privA cliques c).contains a)

/-- the standing assumptions on the lists -/
structure Lists (cliques : List Clique) (A : List Attr) : Prop where
  aNodup : A.Nodup
  cNodup : cliques.Nodup
  clNodup : ∀ cl ∈ cliques, cl.Nodup
  clSub : ∀ cl ∈ cliques, ∀ a ∈ cl, a ∈ A

section leaf
variable {cliques : List Clique} {A : List Attr} {c : Clique}

theorem mem_rest (hL : Lists cliques A) (g : Clique) : g ∈ cliques.erase c ↔ g ≠ c ∧ g ∈ cliques :=
  List.Nodup.mem_erase_iff hL.cNodup

theorem shared_iff (hL : Lists cliques A) (u : Attr) :
    Shared cliques c u ↔ inRest (cliques.erase c) u = true := by
  rw [inRest_iff]
  constructor
  · rintro ⟨g, hg, hgc, hug⟩
    exact ⟨g, (mem_rest hL g).mpr ⟨hgc, hg⟩, hug⟩
  · rintro ⟨g, hg, hug⟩
    obtain ⟨h1, h2⟩ := (mem_rest hL g).mp hg
    exact ⟨g, h2, h1, hug⟩

theorem mem_privA (hL : Lists cliques A) (u : Attr) :
    u ∈ privA cliques c ↔ u ∈ c ∧ ¬ Shared cliques c u := by
  unfold privA
  rw [List.mem_filter, shared_iff hL]
  simp

theorem privA_not_mem_rest (hL : Lists cliques A) (u : Attr) (hu : u ∈ privA cliques c) (g : Clique)
    (hg : g ∈ cliques.erase c) : u ∉ g := by
  intro hug
  obtain ⟨h1, h2⟩ := (mem_rest hL g).mp hg
  exact ((mem_privA hL u).mp hu).2 ⟨g, h2, h1, hug⟩

theorem mem_keepA (a : Attr) : a ∈ keepA cliques A c ↔ a ∈ A ∧ a ∉ privA cliques c := by
  unfold keepA
  rw [List.mem_filter]
  simp

theorem mem_dropA (hL : Lists cliques A) (hc : c ∈ cliques) (a : Attr) :
    a ∈ dropA cliques A c ↔ a ∈ privA cliques c := by
  unfold dropA
  rw [List.mem_filter, List.contains_iff_mem]
  constructor
  · exact fun h => h.2
  · intro h
    exact ⟨hL.clSub c hc a ((mem_privA hL a).mp h).1, h⟩

theorem privA_nodup (hL : Lists cliques A) (hc : c ∈ cliques) : (privA cliques c).Nodup :=
  (hL.clNodup c hc).sublist List.filter_sublist

theorem dropA_nodup (hL : Lists cliques A) : (dropA cliques A c).Nodup :=
  hL.aNodup.sublist List.filter_sublist

theorem keepA_nodup (hL : Lists cliques A) : (keepA cliques A c).Nodup :=
  hL.aNodup.sublist List.filter_sublist

theorem dropA_perm (hL : Lists cliques A) (hc : c ∈ cliques) : (dropA cliques A c).Perm (privA cliques c) := by
  rw [List.perm_ext_iff_of_nodup (dropA_nodup hL) (privA_nodup hL hc)]
  exact mem_dropA hL hc

theorem rest_sub_keepA (hL : Lists cliques A) (g : Clique) (hg : g ∈ cliques.erase c) (a : Attr) (ha : a ∈ g) :
    a ∈ keepA cliques A c := by
  rw [mem_keepA]
  refine ⟨hL.clSub g (List.mem_of_mem_erase hg) a ha, ?_⟩
  intro hp
  exact privA_not_mem_rest hL a hp g hg ha

/-- the reduced lists satisfy the standing assumptions -/
theorem Lists.erase (hL : Lists cliques A) (c : Clique) : Lists (cliques.erase c) (keepA cliques A c) where
  aNodup := keepA_nodup hL
  cNodup := hL.cNodup.erase c
  clNodup := fun cl hcl => hL.clNodup cl (List.mem_of_mem_erase hcl)
  clSub := fun cl hcl a ha => rest_sub_keepA hL cl hcl a ha

/-- **the log-weight splits** into the reduced system and the part of the leaf -/
theorem logW_peel (hL : Lists cliques A) (hc : c ∈ cliques) (θ : Clique → (Attr → Nat) → ℝ)
    (e : Attr → Nat → ℝ) (τ : Attr → Nat) :
    logW cliques A θ e τ = logW (cliques.erase c) (keepA cliques A c) θ e τ
      + (θ c τ + ((dropA cliques A c).map (fun u => e u (τ u))).sum) := by
  unfold logW
  have h1 := ((List.perm_cons_erase hc).map (fun k => θ k τ)).sum_eq
  rw [List.map_cons, List.sum_cons] at h1
  have h2 := sum_map_split A (fun a => (privA cliques c).contains a) (fun v => e v (τ v))
  rw [h1, h2]
  unfold keepA dropA
  ring

/-- the absorbed field only differs on the attributes of `c` that remain -/
theorem logW_eAdd (L : List Clique) (B : List Attr) (θ : Clique → (Attr → Nat) → ℝ)
    (e : Attr → Nat → ℝ) (f : Clique → Attr → Nat → ℝ) (c : Clique) (τ : Attr → Nat) :
    logW L B θ (eAdd f e c) τ = logW L B θ e τ + (B.map (fun v => if v ∈ c then f c v (τ v) else 0)).sum := by
  unfold logW eAdd
  rw [List.sum_map_add]
  ring


/-- the leaf part of the weight, summed over the private attributes -/
noncomputable def leafSum (d : Dom) (cliques : List Clique) (A : List Attr) (c : Clique)
    (θ : Clique → (Attr → Nat) → ℝ) (e : Attr → Nat → ℝ) (τ : Attr → Nat) : ℝ :=
  Sem.sumOver d (dropA cliques A c) τ (fun ρ =>
    Real.exp (θ c ρ + ((dropA cliques A c).map (fun u => e u (ρ u))).sum))

theorem dropA_not_keepA (a : Attr) (ha : a ∈ dropA cliques A c) : a ∉ keepA cliques A c := by
  intro hk
  unfold dropA at ha
  have h1 := (List.mem_filter.mp ha).2
  exact ((mem_keepA a).mp hk).2 (List.contains_iff_mem.mp h1)

/-- summing the weight over the private attributes of the leaf -/
theorem inner_factor (hL : Lists cliques A) (hc : c ∈ cliques) (d : Dom)
    (θ : Clique → (Attr → Nat) → ℝ) (hθ : ∀ k ∈ cliques, Sem.DependsOn (θ k) k)
    (e : Attr → Nat → ℝ) (τ : Attr → Nat) :
    Sem.sumOver d (dropA cliques A c) τ (fun ρ => Real.exp (logW cliques A θ e ρ))
      = Real.exp (logW (cliques.erase c) (keepA cliques A c) θ e τ) * leafSum d cliques A c θ e τ := by
  have hfun : (fun ρ => Real.exp (logW cliques A θ e ρ)) = (fun ρ =>
      Real.exp (logW (cliques.erase c) (keepA cliques A c) θ e ρ) *
        Real.exp (θ c ρ + ((dropA cliques A c).map (fun u => e u (ρ u))).sum)) := by
    funext ρ
    rw [logW_peel hL hc θ e ρ, Real.exp_add]
  rw [hfun]
  unfold leafSum
  apply Sem.sumOver_factor_left
  intro v _
  have hdep := dependsOn_logW (cliques.erase c) (keepA cliques A c) θ e
    (fun k hk => hθ k (List.mem_of_mem_erase hk)) (fun k hk a ha => rest_sub_keepA hL k hk a ha)
  rw [hdep.override τ (dropA cliques A c) v (fun a ha => dropA_not_keepA a ha)]

/-- with no other clique containing `u`, nothing flows into `u → c` but the field -/
theorem nOf_zero_of_not_shared (f : Clique → Attr → Nat → ℝ) (u : Attr) (hns : ¬ Shared cliques c u) (x : Nat) :
    nOf cliques f u c x = 0 := by
  unfold nOf
  apply List.sum_eq_zero
  intro y hy
  obtain ⟨g, hg, rfl⟩ := List.mem_map.mp hy
  split
  · rename_i h; exact absurd ⟨g, hg, h.2, h.1⟩ hns
  · rfl

/-! #### a leaf with exactly one shared attribute `s` -/

/-- `c` shares exactly the attribute `s` with the other cliques -/
def SepLeaf (cliques : List Clique) (c : Clique) (s : Attr) : Prop :=
  s ∈ c ∧ Shared cliques c s ∧ ∀ u ∈ c, u ≠ s → ¬ Shared cliques c u

theorem privA_sep (hL : Lists cliques A) (s : Attr) (hs : SepLeaf cliques c s) :
    privA cliques c = c.filter (fun var => var != s) := by
  unfold privA
  apply List.filter_congr
  intro u hu
  by_cases hus : u = s
  · subst hus
    have := (shared_iff hL u).mp hs.2.1
    rw [this]; simp
  · have : inRest (cliques.erase c) u = false := by
      rw [Bool.eq_false_iff]
      intro h
      exact hs.2.2 u hu hus ((shared_iff hL u).mpr h)
    rw [this]; simp [hus]

theorem leafSum_sep (hL : Lists cliques A) (hc : c ∈ cliques) (d : Dom)
    (θ : Clique → (Attr → Nat) → ℝ) (e : Attr → Nat → ℝ) (f : Clique → Attr → Nat → ℝ)
    (s : Attr) (hs : SepLeaf cliques c s) (hm : MsgEq d cliques θ e f c s) :
    ∃ κ : ℝ, ∀ τ, d.Valid τ → leafSum d cliques A c θ e τ = Real.exp (f c s (τ s) + κ) := by
  obtain ⟨κ, hκ⟩ := hm
  refine ⟨κ, fun τ hτ => ?_⟩
  rw [← hκ τ hτ]
  unfold leafSum
  have hperm := dropA_perm hL hc
  rw [Sem.sumOver_perm d _ _ τ _ hperm (dropA_nodup hL), privA_sep hL s hs]
  apply Sem.sumOver_congr
  intro v _
  congr 2
  rw [(hperm.map _).sum_eq, privA_sep hL s hs]
  congr 1
  apply List.map_congr_left
  intro u hu
  obtain ⟨hu1, hu2⟩ := List.mem_filter.mp hu
  have hus : u ≠ s := by simpa using hu2
  unfold nmsg
  rw [nOf_zero_of_not_shared f u (hs.2.2 u hu1 hus), add_zero]

theorem keep_sum_sep (hL : Lists cliques A) (hc : c ∈ cliques) (s : Attr) (hs : SepLeaf cliques c s)
    (g : Attr → ℝ) :
    ((keepA cliques A c).map (fun v => if v ∈ c then g v else 0)).sum = g s := by
  apply sum_ind_single _ (keepA_nodup hL) s
  · rw [mem_keepA]
    exact ⟨hL.clSub c hc s hs.1, fun h => ((mem_privA hL s).mp h).2 hs.2.1⟩
  · intro v hv
    constructor
    · intro hvc
      by_contra hne
      exact ((mem_keepA v).mp hv).2 ((mem_privA hL v).mpr ⟨hvc, hs.2.2 v hvc hne⟩)
    · intro h; rw [h]; exact hs.1

/-- **peeling a leaf with a separator** -/
theorem peel_sep (hL : Lists cliques A) (hc : c ∈ cliques) (d : Dom)
    (θ : Clique → (Attr → Nat) → ℝ) (hθ : ∀ k ∈ cliques, Sem.DependsOn (θ k) k)
    (e : Attr → Nat → ℝ) (f : Clique → Attr → Nat → ℝ)
    (s : Attr) (hs : SepLeaf cliques c s) (hm : MsgEq d cliques θ e f c s) :
    ∃ C : ℝ, ∀ τ, d.Valid τ →
      Sem.sumOver d (dropA cliques A c) τ (fun ρ => Real.exp (logW cliques A θ e ρ))
        = C * Real.exp (logW (cliques.erase c) (keepA cliques A c) θ (eAdd f e c) τ) := by
  obtain ⟨κ, hκ⟩ := leafSum_sep hL hc d θ e f s hs hm
  refine ⟨Real.exp κ, fun τ hτ => ?_⟩
  rw [inner_factor hL hc d θ hθ e τ, hκ τ hτ, logW_eAdd,
    keep_sum_sep hL hc s hs (fun v => f c v (τ v)), ← Real.exp_add, ← Real.exp_add]
  congr 1
  ring

/-! #### a leaf with no shared attribute -/

theorem privA_iso (hL : Lists cliques A) (hs : ∀ u ∈ c, ¬ Shared cliques c u) : privA cliques c = c := by
  unfold privA
  apply List.filter_eq_self.mpr
  intro u hu
  have : inRest (cliques.erase c) u = false := by
    rw [Bool.eq_false_iff]
    intro h
    exact hs u hu ((shared_iff hL u).mpr h)
  rw [this]; rfl

theorem leafSum_iso (hL : Lists cliques A) (hc : c ∈ cliques) (d : Dom)
    (θ : Clique → (Attr → Nat) → ℝ) (hθ : ∀ k ∈ cliques, Sem.DependsOn (θ k) k) (e : Attr → Nat → ℝ)
    (hs : ∀ u ∈ c, ¬ Shared cliques c u) (τ τ' : Attr → Nat) :
    leafSum d cliques A c θ e τ = leafSum d cliques A c θ e τ' := by
  unfold leafSum
  have hmem : ∀ a, a ∈ c ↔ a ∈ dropA cliques A c := by
    intro a
    rw [mem_dropA hL hc, privA_iso hL hs]
  apply sumOver_const_of_dependsOn d _ c
  · intro σ σ' h
    show Real.exp _ = Real.exp _
    rw [hθ c hc σ σ' h]
    have := dependsOn_field_sum (dropA cliques A c) e c (fun v hv => (hmem v).mpr hv) σ σ' h
    simp only at this
    rw [this]
  · intro a ha
    exact (hmem a).mp ha

theorem keep_sum_iso (hL : Lists cliques A) (hs : ∀ u ∈ c, ¬ Shared cliques c u) (g : Attr → ℝ) :
    ((keepA cliques A c).map (fun v => if v ∈ c then g v else 0)).sum = 0 := by
  apply sum_ind_none
  intro v hv hvc
  exact ((mem_keepA v).mp hv).2 ((mem_privA hL v).mpr ⟨hvc, hs v hvc⟩)

/-- **peeling an isolated clique** -/
theorem peel_iso (hL : Lists cliques A) (hc : c ∈ cliques) (d : Dom)
    (θ : Clique → (Attr → Nat) → ℝ) (hθ : ∀ k ∈ cliques, Sem.DependsOn (θ k) k)
    (e : Attr → Nat → ℝ) (f : Clique → Attr → Nat → ℝ)
    (hs : ∀ u ∈ c, ¬ Shared cliques c u) :
    ∃ C : ℝ, ∀ τ, d.Valid τ →
      Sem.sumOver d (dropA cliques A c) τ (fun ρ => Real.exp (logW cliques A θ e ρ))
        = C * Real.exp (logW (cliques.erase c) (keepA cliques A c) θ (eAdd f e c) τ) := by
  refine ⟨leafSum d cliques A c θ e (fun _ => 0), fun τ hτ => ?_⟩
  rw [inner_factor hL hc d θ hθ e τ, leafSum_iso hL hc d θ hθ e hs τ (fun _ => 0), logW_eAdd,
    keep_sum_iso hL hs (fun v => f c v (τ v)), add_zero, mul_comm]

end leaf

end PGM.LbpTree
