import PGM.Model.Certificate
import PGM.Model.LogOf
import Mathlib.Algebra.Order.Field.Basic
import Mathlib.Algebra.BigOperators.Group.List.Basic
import Mathlib.Tactic.Ring
import Mathlib.Tactic.Linarith
import Mathlib.Tactic.NormNum
/-!
# Helpers for C03: value-level readings of `dot`, `matVec`, `matTVec`, `resid`, `grad`, `minL`
-/
set_option linter.unusedSectionVars false
set_option linter.unusedVariables false
namespace PGM.Cert
variable {K : Type} [Field K] [LinearOrder K] [IsStrictOrderedRing K]

/-! ### `PlainOf K` arithmetic -/

@[simp] theorem add_v (x y : PlainOf K) : (Scalar.add x y).v = x.v + y.v := rfl
@[simp] theorem mul_v (x y : PlainOf K) : (Scalar.mul x y).v = x.v * y.v := rfl
@[simp] theorem div_v (x y : PlainOf K) : (Scalar.div x y).v = x.v * (y.v)⁻¹ := rfl
@[simp] theorem neg_v (x : PlainOf K) : (Scalar.neg x).v = - x.v := rfl
@[simp] theorem sub_v (x y : PlainOf K) : (Scalar.sub x y).v = x.v - y.v := by
  show x.v + - y.v = _; ring
@[simp] theorem zero_v : (Scalar.zero : PlainOf K).v = 0 := rfl
@[simp] theorem one_v : (Scalar.one : PlainOf K).v = 1 := rfl
@[simp] theorem default_v : (default : PlainOf K).v = 0 := rfl
theorem gt0_iff (x : PlainOf K) : Scalar.gt0 x = true ↔ 0 < x.v := by
  show decide (0 < x.v) = true ↔ _
  simp

theorem half_v : (half : PlainOf K).v = 1 / 2 := by
  unfold half
  simp only [div_v, add_v, one_v]
  norm_num

theorem foldl_add_v (l : List (PlainOf K)) (z : PlainOf K) :
    (l.foldl Scalar.add z).v = z.v + (l.map (·.v)).sum := by
  induction l generalizing z with
  | nil => simp
  | cons x xs ih => simp [ih, add_assoc]

/-- the value of a `Scalar.sum` is the `List.sum` of the values -/
theorem sum_v (l : List (PlainOf K)) : (Scalar.sum l).v = (l.map (·.v)).sum := by
  unfold Scalar.sum
  rw [foldl_add_v]; simp

/-- values of a list of plain scalars -/
def vl (l : List (PlainOf K)) : List K := l.map (·.v)

@[simp] theorem vl_nil : vl ([] : List (PlainOf K)) = [] := rfl
@[simp] theorem vl_cons (a : PlainOf K) (l : List (PlainOf K)) : vl (a :: l) = a.v :: vl l := rfl
@[simp] theorem vl_length (l : List (PlainOf K)) : (vl l).length = l.length := by simp [vl]

theorem vl_zipWith_add (a b : List (PlainOf K)) :
    vl (List.zipWith Scalar.add a b) = List.zipWith (· + ·) (vl a) (vl b) := by
  induction a generalizing b with
  | nil => simp
  | cons x a ih => cases b with
    | nil => simp
    | cons y b => simp [ih]

theorem vl_zipWith_sub (a b : List (PlainOf K)) :
    vl (List.zipWith Scalar.sub a b) = List.zipWith (· - ·) (vl a) (vl b) := by
  induction a generalizing b with
  | nil => simp
  | cons x a ih => cases b with
    | nil => simp
    | cons y b => simp [ih]

/-! ### `vdot` -/

def vdot (x y : List K) : K := (List.zipWith (· * ·) x y).sum

@[simp] theorem vdot_nil_left (y : List K) : vdot [] y = 0 := by simp [vdot]
@[simp] theorem vdot_nil_right (x : List K) : vdot x [] = 0 := by simp [vdot]
@[simp] theorem vdot_cons (a b : K) (x y : List K) : vdot (a :: x) (b :: y) = a * b + vdot x y := by
  simp [vdot]

theorem vdot_comm (x y : List K) : vdot x y = vdot y x := by
  induction x generalizing y with
  | nil => simp
  | cons a x ih => cases y with
    | nil => simp
    | cons b y => rw [vdot_cons, vdot_cons, ih, mul_comm]

theorem vdot_add_left (a b x : List K) (h : a.length = b.length) :
    vdot (List.zipWith (· + ·) a b) x = vdot a x + vdot b x := by
  induction x generalizing a b with
  | nil => simp
  | cons c x ih =>
    cases a with
    | nil => cases b with
      | nil => simp
      | cons b0 b => simp at h
    | cons a0 a => cases b with
      | nil => simp at h
      | cons b0 b =>
        simp only [List.zipWith_cons_cons, vdot_cons]
        rw [ih a b (by simpa using h)]; ring

theorem vdot_sub_right (r a b : List K) (h : a.length = b.length) :
    vdot r (List.zipWith (· - ·) a b) = vdot r a - vdot r b := by
  induction r generalizing a b with
  | nil => simp
  | cons c r ih =>
    cases a with
    | nil => cases b with
      | nil => simp
      | cons b0 b => simp at h
    | cons a0 a => cases b with
      | nil => simp at h
      | cons b0 b =>
        simp only [List.zipWith_cons_cons, vdot_cons]
        rw [ih a b (by simpa using h)]; ring

theorem vdot_map_mul_left (c : K) (r x : List K) :
    vdot (r.map (fun t => t * c)) x = c * vdot r x := by
  induction r generalizing x with
  | nil => simp
  | cons a r ih => cases x with
    | nil => simp
    | cons b x => simp only [List.map_cons, vdot_cons, ih]; ring

theorem vdot_self_nonneg (x : List K) : 0 ≤ vdot x x := by
  induction x with
  | nil => simp
  | cons a x ih => rw [vdot_cons]; nlinarith [mul_self_nonneg a]

theorem vdot_zeros (l x : List K) (h : ∀ a ∈ l, a = 0) : vdot l x = 0 := by
  induction l generalizing x with
  | nil => simp
  | cons a l ih => cases x with
    | nil => simp
    | cons b x =>
      rw [vdot_cons, ih x (fun a ha => h a (List.mem_cons_of_mem _ ha)), h a List.mem_cons_self]
      simp

/-- Young / Cauchy–Schwarz in the form used for convexity of `½‖·‖²` (any lengths) -/
theorem two_vdot_le (a b : List K) : 2 * vdot a b ≤ vdot a a + vdot b b := by
  induction a generalizing b with
  | nil => simpa using vdot_self_nonneg b
  | cons x a ih => cases b with
    | nil => simpa using vdot_self_nonneg (x :: a)
    | cons y b =>
      simp only [vdot_cons]
      nlinarith [ih b, mul_self_nonneg (x - y)]

/-- `c ≤ g_j` for all `j`, `q ≥ 0`, equal lengths: `c · Σ q ≤ ⟨g, q⟩` -/
theorem mul_sum_le_vdot (c : K) (g q : List K) (h : g.length = q.length)
    (hg : ∀ a ∈ g, c ≤ a) (hq : ∀ a ∈ q, 0 ≤ a) : c * q.sum ≤ vdot g q := by
  induction g generalizing q with
  | nil => cases q with
    | nil => simp
    | cons b q => simp at h
  | cons a g ih => cases q with
    | nil => simp
    | cons b q =>
      have h1 := ih q (by simpa using h) (fun a ha => hg a (List.mem_cons_of_mem _ ha))
        (fun a ha => hq a (List.mem_cons_of_mem _ ha))
      have h2 : c ≤ a := hg a List.mem_cons_self
      have h3 : 0 ≤ b := hq b List.mem_cons_self
      simp only [List.sum_cons, vdot_cons]
      nlinarith [mul_le_mul_of_nonneg_right h2 h3]

/-! ### readings of the model functions -/

theorem dot_v (x y : List (PlainOf K)) : (dot x y).v = vdot (vl x) (vl y) := by
  unfold dot
  rw [sum_v]
  induction x generalizing y with
  | nil => simp
  | cons a x ih => cases y with
    | nil => simp
    | cons b y =>
      simp only [List.zipWith_cons_cons, List.map_cons, List.sum_cons, vl_cons, vdot_cons, ← ih, mul_v]

theorem vl_matVec (A : List (List (PlainOf K))) (x : List (PlainOf K)) :
    vl (matVec A x) = A.map (fun r => vdot (vl r) (vl x)) := by
  simp [vl, matVec, dot_v]

theorem matVec_length (A : List (List (PlainOf K))) (x : List (PlainOf K)) :
    (matVec A x).length = A.length := by simp [matVec]

theorem vl_resid (A : List (List (PlainOf K))) (y p : List (PlainOf K)) :
    vl (resid A y p) = List.zipWith (· - ·) (vl (matVec A p)) (vl y) := by
  unfold resid; rw [vl_zipWith_sub]

theorem matTVec_length (A : List (List (PlainOf K))) (n : Nat) (v : List (PlainOf K)) :
    (matTVec A n v).length = n := by simp [matTVec]

theorem range_map_getD (l : List (PlainOf K)) (d : PlainOf K) :
    (List.range l.length).map (fun j => l.getD j d) = l := by
  apply List.ext_getElem
  · simp
  · intro i h1 h2
    simp [List.getElem?_eq_getElem h2]

theorem zipWith_map_map {ι β γ δ : Type} (h : β → γ → δ) (f : ι → β) (g : ι → γ) (l : List ι) :
    List.zipWith h (l.map f) (l.map g) = l.map (fun i => h (f i) (g i)) := by
  induction l with
  | nil => simp
  | cons a l ih => simp [ih]

theorem vl_matTVec_nil_left (n : Nat) (v : List (PlainOf K)) :
    ∀ a ∈ vl (matTVec ([] : List (List (PlainOf K))) n v), a = 0 := by
  intro a ha
  simp only [vl, matTVec, List.zipWith_nil_left, List.map_map, List.mem_map] at ha
  obtain ⟨j, _, rfl⟩ := ha
  simp [Scalar.sum]

theorem vl_matTVec_nil_right (A : List (List (PlainOf K))) (n : Nat) :
    ∀ a ∈ vl (matTVec A n ([] : List (PlainOf K))), a = 0 := by
  intro a ha
  simp only [vl, matTVec, List.zipWith_nil_right, List.map_map, List.mem_map] at ha
  obtain ⟨j, _, rfl⟩ := ha
  simp [Scalar.sum]

theorem vl_matTVec_cons (row : List (PlainOf K)) (A : List (List (PlainOf K))) (v0 : PlainOf K)
    (v : List (PlainOf K)) (h : row.length = n) :
    vl (matTVec (row :: A) n (v0 :: v))
      = List.zipWith (· + ·) ((vl row).map (fun t => t * v0.v)) (vl (matTVec A n v)) := by
  subst h
  have hrow : (vl row).map (fun t => t * v0.v)
      = (List.range row.length).map (fun j => (row.getD j Scalar.zero).v * v0.v) := by
    conv_lhs => rw [← range_map_getD row Scalar.zero]
    simp [vl]
  rw [hrow]
  unfold matTVec vl
  rw [List.map_map, List.map_map, zipWith_map_map]
  apply List.map_congr_left
  intro j _
  simp only [Function.comp, List.zipWith_cons_cons, sum_v, List.map_cons, List.sum_cons, mul_v]

/-- `⟨Aᵀ v, x⟩ = ⟨v, A x⟩` for a rectangular `A` -/
theorem adjoint (A : List (List (PlainOf K))) (n : Nat) (v x : List (PlainOf K))
    (hA : ∀ r ∈ A, r.length = n) :
    vdot (vl (matTVec A n v)) (vl x) = vdot (vl v) (vl (matVec A x)) := by
  induction A generalizing v with
  | nil =>
    rw [vdot_zeros _ _ (vl_matTVec_nil_left n v)]
    simp [matVec]
  | cons row A ih =>
    cases v with
    | nil =>
      rw [vdot_zeros _ _ (vl_matTVec_nil_right _ n)]
      simp
    | cons v0 v =>
      rw [vl_matTVec_cons row A v0 v (hA row List.mem_cons_self), vdot_add_left _ _ _ (by
        simp [matTVec_length, hA row List.mem_cons_self]), vdot_map_mul_left,
        ih v (fun r hr => hA r (List.mem_cons_of_mem _ hr))]
      simp [matVec, dot_v]

/-! ### gradient -/

theorem foldl_grad_length (n : Nat) (F : List (List (PlainOf K)) × List (PlainOf K) → List (PlainOf K))
    (ms : List (List (List (PlainOf K)) × List (PlainOf K))) (g : List (PlainOf K)) (hg : g.length = n) :
    (ms.foldl (fun g m => List.zipWith Scalar.add g (matTVec m.1 n (F m))) g).length = n := by
  induction ms generalizing g with
  | nil => simpa using hg
  | cons m ms ih =>
    rw [List.foldl_cons]
    exact ih _ (by simp [matTVec_length, hg])

theorem foldl_grad_vdot (n : Nat) (F : List (List (PlainOf K)) × List (PlainOf K) → List (PlainOf K))
    (ms : List (List (List (PlainOf K)) × List (PlainOf K))) (g : List (PlainOf K)) (hg : g.length = n)
    (X : List K) :
    vdot (vl (ms.foldl (fun g m => List.zipWith Scalar.add g (matTVec m.1 n (F m))) g)) X
      = vdot (vl g) X + (ms.map (fun m => vdot (vl (matTVec m.1 n (F m))) X)).sum := by
  induction ms generalizing g with
  | nil => simp
  | cons m ms ih =>
    rw [List.foldl_cons, ih _ (by simp [matTVec_length, hg]), vl_zipWith_add,
      vdot_add_left _ _ _ (by simp [matTVec_length, hg])]
    simp [add_assoc]

theorem grad_length (ms : List (List (List (PlainOf K)) × List (PlainOf K))) (p : List (PlainOf K)) :
    (grad ms p).length = p.length := by
  unfold grad
  exact foldl_grad_length p.length (fun m => resid m.1 m.2 p) ms _ (by simp)

theorem grad_vdot (ms : List (List (List (PlainOf K)) × List (PlainOf K))) (p : List (PlainOf K))
    (X : List K) :
    vdot (vl (grad ms p)) X
      = (ms.map (fun m => vdot (vl (matTVec m.1 p.length (resid m.1 m.2 p))) X)).sum := by
  unfold grad
  rw [foldl_grad_vdot p.length (fun m => resid m.1 m.2 p) ms _ (by simp)]
  rw [vdot_zeros]
  · simp
  · intro a ha
    simp only [vl, List.map_map, List.mem_map] at ha
    obtain ⟨_, _, rfl⟩ := ha
    rfl

/-! ### `minL` -/

theorem foldl_min_le (l : List (PlainOf K)) (a : PlainOf K) :
    (l.foldl (fun a b => if Scalar.gt0 (Scalar.sub a b) then b else a) a).v ≤ a.v ∧
    ∀ x ∈ l, (l.foldl (fun a b => if Scalar.gt0 (Scalar.sub a b) then b else a) a).v ≤ x.v := by
  induction l generalizing a with
  | nil => simp
  | cons b l ih =>
    simp only [List.foldl_cons, List.mem_cons]
    obtain ⟨h1, h2⟩ := ih (if Scalar.gt0 (Scalar.sub a b) then b else a)
    have hstep : (if Scalar.gt0 (Scalar.sub a b) then b else a).v ≤ a.v ∧
        (if Scalar.gt0 (Scalar.sub a b) then b else a).v ≤ b.v := by
      by_cases hc : Scalar.gt0 (Scalar.sub a b) = true
      · have := (gt0_iff _).mp hc
        rw [sub_v] at this
        rw [if_pos hc]
        exact ⟨by linarith, le_rfl⟩
      · have hc' : ¬ (0 < (Scalar.sub a b).v) := fun h => hc ((gt0_iff _).mpr h)
        rw [sub_v] at hc'
        rw [if_neg hc]
        exact ⟨le_rfl, by linarith [not_lt.mp hc']⟩
    refine ⟨le_trans h1 hstep.1, ?_⟩
    rintro x (rfl | hx)
    · exact le_trans h1 hstep.2
    · exact h2 x hx

theorem minL_le (l : List (PlainOf K)) (x : PlainOf K) (hx : x ∈ l) : (minL l).v ≤ x.v := by
  cases l with
  | nil => simp at hx
  | cons a l =>
    show (l.foldl (fun a b => if Scalar.gt0 (Scalar.sub a b) then b else a) a).v ≤ x.v
    rcases List.mem_cons.mp hx with rfl | h
    · exact (foldl_min_le l x).1
    · exact (foldl_min_le l a).2 x h

/-! ### loss -/

theorem loss_v (ms : List (List (List (PlainOf K)) × List (PlainOf K))) (p : List (PlainOf K)) :
    (loss ms p).v
      = (ms.map (fun m => 1 / 2 * vdot (vl (resid m.1 m.2 p)) (vl (resid m.1 m.2 p)))).sum := by
  unfold loss
  rw [sum_v, List.map_map]
  congr 1
  apply List.map_congr_left
  intro m _
  simp [half_v, dot_v]

theorem sum_diff_le {ι : Type} (l : List ι) (a b c d : ι → K)
    (h : ∀ m ∈ l, a m - b m ≤ c m - d m) :
    (l.map a).sum - (l.map b).sum ≤ (l.map c).sum - (l.map d).sum := by
  induction l with
  | nil => simp
  | cons m l ih =>
    have h1 := h m List.mem_cons_self
    have h2 := ih (fun m hm => h m (List.mem_cons_of_mem _ hm))
    simp only [List.map_cons, List.sum_cons]
    linarith

/-- per-measurement first-order convexity inequality -/
theorem meas_convex (A : List (List (PlainOf K))) (y p q : List (PlainOf K)) (n : Nat)
    (hA : ∀ r ∈ A, r.length = n) (hy : y.length = A.length) :
    vdot (vl (matTVec A n (resid A y p))) (vl q) - vdot (vl (matTVec A n (resid A y p))) (vl p)
      ≤ 1 / 2 * vdot (vl (resid A y q)) (vl (resid A y q))
        - 1 / 2 * vdot (vl (resid A y p)) (vl (resid A y p)) := by
  rw [adjoint A n _ q hA, adjoint A n _ p hA]
  have hlen : ∀ x : List (PlainOf K), (vl (matVec A x)).length = (vl y).length := by
    intro x; simp [matVec_length, hy]
  have e : ∀ x : List (PlainOf K), vdot (vl (resid A y p)) (vl (resid A y x))
      = vdot (vl (resid A y p)) (vl (matVec A x)) - vdot (vl (resid A y p)) (vl y) := by
    intro x
    conv_lhs => rw [vl_resid A y x]
    exact vdot_sub_right _ _ _ (hlen x)
  have hq := e q
  have hp := e p
  have hy := two_vdot_le (vl (resid A y p)) (vl (resid A y q))
  linarith

end PGM.Cert
