import PGM.Model.JTreeNx
import Mathlib.Algebra.Order.Field.Rat
import Mathlib.Algebra.Order.BigOperators.Group.List
import Mathlib.Tactic.Linarith
import Mathlib.Tactic.Ring
/-!
# Helper lemmas for `Properties/C12G.lean` (5): the probabilities handed to `np.random.choice` are admissible
-/
namespace PGM.JT

/-! ## the probabilities handed to `np.random.choice` are admissible -/

theorem le_ratMax (l : List Rat) : ∀ x ∈ l, x ≤ ratMax l := by
  cases l with
  | nil => intro x hx; simp at hx
  | cons y ys =>
    unfold ratMax
    have key : ∀ (zs : List Rat) (m : Rat), m ≤ zs.foldl (fun m y => if m < y then y else m) m ∧
        ∀ z ∈ zs, z ≤ zs.foldl (fun m y => if m < y then y else m) m := by
      intro zs
      induction zs with
      | nil => intro m; simp
      | cons z zs ih =>
        intro m
        simp only [List.foldl_cons]
        by_cases hlt : m < z
        · simp only [hlt, if_true]
          refine ⟨le_trans (le_of_lt hlt) (ih z).1, ?_⟩
          intro w hw
          rcases List.mem_cons.1 hw with rfl | hw
          · exact (ih w).1
          · exact (ih z).2 w hw
        · simp only [hlt, if_false]
          refine ⟨(ih m).1, ?_⟩
          intro w hw
          rcases List.mem_cons.1 hw with rfl | hw
          · exact le_trans (not_lt.1 hlt) (ih m).1
          · exact (ih m).2 w hw
    intro x hx
    rcases List.mem_cons.1 hx with rfl | hx
    · exact (key ys x).1
    · exact (key ys y).2 x hx

theorem ratSum_eq_sum (l : List Rat) : ratSum l = l.sum := by
  unfold ratSum
  have : ∀ (l : List Rat) (s : Rat), l.foldl (fun s x => s + x) s = s + l.sum := by
    intro l
    induction l with
    | nil => intro s; simp
    | cons x xs ih => intro s; simp only [List.foldl_cons, List.sum_cons, ih]; ring
  rw [this]; simp

/-- every entry of `max − cost + 1` is at least one -/
theorem probas_raw_pos (costs : List Rat) :
    ∀ p ∈ (costs.map (fun x => ratMax costs - x)).map (fun x => x + (1 : Rat)), 1 ≤ p := by
  intro p hp
  simp only [List.mem_map, exists_exists_and_eq_and] at hp
  obtain ⟨x, hx, rfl⟩ := hp
  have := le_ratMax costs x hx
  linarith

theorem sum_pos_of_ge_one (l : List Rat) (hne : l ≠ []) (h : ∀ p ∈ l, 1 ≤ p) : 0 < l.sum := by
  cases l with
  | nil => exact absurd rfl hne
  | cons x xs =>
    have hx := h x (by simp)
    have hxs : 0 ≤ xs.sum := List.sum_nonneg (fun p hp => by have := h p (by simp [hp]); linarith)
    simp only [List.sum_cons]
    linarith

/-- **every selection probability is positive** (each unmarked attribute can be drawn) … -/
theorem probas_pos (costs : List Rat) (hne : costs ≠ []) : ∀ p ∈ probas costs, 0 < p := by
  intro p hp
  unfold probas at hp
  simp only [List.mem_map] at hp
  obtain ⟨q, hq, rfl⟩ := hp
  have hq1 := probas_raw_pos costs q (by simpa [List.mem_map] using hq)
  have hs := sum_pos_of_ge_one _ (by simpa using hne) (probas_raw_pos costs)
  rw [ratSum_eq_sum]
  exact div_pos (by linarith) hs

theorem sum_map_div (l : List Rat) (c : Rat) : (l.map (fun x => x / c)).sum = l.sum / c := by
  induction l with
  | nil => simp
  | cons x xs ih => simp only [List.map_cons, List.sum_cons, ih, add_div]

/-- … **and they sum to one** (numpy accepts the vector) -/
theorem probas_sum (costs : List Rat) (hne : costs ≠ []) : (probas costs).sum = 1 := by
  have hs := sum_pos_of_ge_one _ (by simpa using hne) (probas_raw_pos costs)
  unfold probas
  simp only [ratSum_eq_sum]
  rw [sum_map_div, div_self (ne_of_gt hs)]

theorem probas_length (costs : List Rat) : (probas costs).length = costs.length := by
  simp [probas]

end PGM.JT
