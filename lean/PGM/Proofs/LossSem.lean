import PGM.Proofs.Semantics
import PGM.Model.Loss
import PGM.Proofs.LossHess
/-!
# The estimation objective: each measurement once, exact second-order expansion, smoothness bound
(statements for C04; `K` any linearly ordered field, plain arithmetic `PlainOf K`)
-/
namespace PGM.Loss
open PGM PGM.JT
variable {K : Type} [Field K] [LinearOrder K] [IsStrictOrderedRing K]

def vdot (x y : List K) : K := (List.zipWith (· * ·) x y).sum
def vals (f : Factor (PlainOf K)) : List K := f.datavector.map (·.v)

/-- the marginal vector a measurement sees: `mu.project(proj).datavector()` -/
def xOf (m : Meas (PlainOf K)) (f : Factor (PlainOf K)) : List K := vals (f.projectSum m.proj)
def qx (m : Meas (PlainOf K)) (x : List K) : List K := m.Q.map (fun row => vdot (row.map (·.v)) x)

/-- squared-error loss of one measurement at a clique marginal -/
def lossM (m : Meas (PlainOf K)) (f : Factor (PlainOf K)) : K :=
  (1 / 2) * ((List.zipWith (fun q y => (m.noise.v)⁻¹ * (q - y.v)) (qx m (xOf m f)) m.y).map (fun r => r * r)).sum
/-- the quadratic form of one measurement: `½ ‖c Q π h‖²` -/
def quadM (m : Meas (PlainOf K)) (f : Factor (PlainOf K)) : K :=
  (1 / 2) * (((qx m (xOf m f)).map (fun q => (m.noise.v)⁻¹ * q)).map (fun r => r * r)).sum

/-- measurement well-formedness (the asserts of `fix_measurements`, positive noise) -/
structure MeasOK (d : Dom) (m : Meas (PlainOf K)) : Prop where
  proj_nodup : m.proj.Nodup
  proj_sub : ∀ a ∈ m.proj, a ∈ d.attrs
  rows : ∀ row ∈ m.Q, row.length = d.sizeOf m.proj
  ylen : m.y.length = m.Q.length
  noise_pos : 0 < m.noise.v

/-- a clique vector over the model's cliques, each table laid out as `domain.project(clique)` -/
structure VecOK (d : Dom) (cliques : List Clique) (mu : CliqueVec (PlainOf K)) : Prop where
  dom_wf : d.WF
  cliques_nodup : cliques.Nodup
  clique_ok : ∀ c ∈ cliques, c.Nodup ∧ ∀ a ∈ c, a ∈ d.attrs
  keys : mu.map Prod.fst = cliques
  tables : ∀ p ∈ mu, p.2.WF ∧ p.2.dom = d.project p.1

/-- clique-wise sum of two vectors and their inner product -/
def cvAdd (a b : CliqueVec (PlainOf K)) : CliqueVec (PlainOf K) := a.map (fun p => (p.1, p.2.add (b.get p.1)))
def cvDot (a b : CliqueVec (PlainOf K)) : K := (a.map (fun p => vdot (vals p.2) (vals (b.get p.1)))).sum
def cvNormSq (a : CliqueVec (PlainOf K)) : K := cvDot a a

-- the well-formedness predicates in the form used by the helper files (`PGM.LossAux`)
set_option linter.unusedSectionVars false in
theorem MeasOK.aux {d : Dom} {m : Meas (PlainOf K)} (h : MeasOK d m) : LossAux.MeasOK d m :=
  ⟨h.proj_nodup, h.proj_sub, h.rows, h.ylen, h.noise_pos⟩
set_option linter.unusedSectionVars false in
theorem VecOK.aux {d : Dom} {cliques : List Clique} {mu : CliqueVec (PlainOf K)}
    (h : VecOK d cliques mu) : LossAux.VecOK d cliques mu :=
  ⟨h.dom_wf, h.cliques_nodup, h.clique_ok, h.keys, h.tables⟩

/-- the clique a measurement is charged to, if any -/
theorem groupOf_spec (d : Dom) (cliques : List Clique) (proj : List Attr) :
    (∀ c, groupOf d cliques proj = some c → c ∈ cliques ∧ JT.subset proj c = true) ∧
    ((∃ c ∈ cliques, JT.subset proj c = true) → ∃ c, groupOf d cliques proj = some c) := by
  exact ⟨fun c h => LossAux.groupOf_some_mem d cliques proj c h, LossAux.groupOf_exists d cliques proj⟩

/-- **each measurement is counted exactly once**, however the cliques overlap or repeat: the loss
is the sum over the supplied measurements of the measurement's own loss at its clique -/
theorem loss_each_once (d : Dom) (cliques : List Clique) (meas : List (Meas (PlainOf K)))
    (mu : CliqueVec (PlainOf K)) (hmu : VecOK d cliques mu) (hm : ∀ m ∈ meas, MeasOK d m)
    (hcov : ∀ m ∈ meas, ∃ c ∈ cliques, JT.subset m.proj c = true) :
    (marginalLoss d cliques meas mu).1.v
      = (meas.map (fun m => lossM m (mu.get ((groupOf d cliques m.proj).getD [])))).sum := by
  exact LossAux.loss_each_once d cliques meas mu hmu.aux (fun m h => (hm m h).aux) hcov

/-- **exact second-order expansion**: `L(μ+h) = L(μ) + ⟨∇L(μ), h⟩ + Σ_m ½‖c_m Q_m π_m h‖²`, which
pins the returned gradient as the derivative of the loss -/
theorem loss_expansion (d : Dom) (cliques : List Clique) (meas : List (Meas (PlainOf K)))
    (mu h : CliqueVec (PlainOf K)) (hmu : VecOK d cliques mu) (hh : VecOK d cliques h)
    (hm : ∀ m ∈ meas, MeasOK d m) (hcov : ∀ m ∈ meas, ∃ c ∈ cliques, JT.subset m.proj c = true) :
    (marginalLoss d cliques meas (cvAdd mu h)).1.v
      = (marginalLoss d cliques meas mu).1.v + cvDot (marginalLoss d cliques meas mu).2 h
        + (meas.map (fun m => quadM m (h.get ((groupOf d cliques m.proj).getD [])))).sum := by
  exact LossAux.loss_expansion d cliques meas mu h hmu.aux hh.aux (fun m h => (hm m h).aux) hcov

/-- **smoothness bound**: with `eigs[m]` an upper bound on the largest eigenvalue of `QₘᵀQₘ`
(the `eigsh` contract), the quadratic term is at most `½ · lipschitz · ‖h‖²` -/
theorem hessian_bound (d : Dom) (cliques : List Clique) (meas : List (Meas (PlainOf K)))
    (eigs : List (PlainOf K)) (h : CliqueVec (PlainOf K)) (hh : VecOK d cliques h)
    (hm : ∀ m ∈ meas, MeasOK d m) (hcov : ∀ m ∈ meas, ∃ c ∈ cliques, JT.subset m.proj c = true)
    (hlen : eigs.length = meas.length) (hsizes : ∀ p ∈ d, 0 < p.2) (hne : cliques ≠ [])
    (heig : ∀ i (hi : i < meas.length) (x : List K), x.length = d.sizeOf (meas[i]).proj →
      vdot (qx meas[i] x) (qx meas[i] x) ≤ (eigs.getD i ⟨0⟩).v * vdot x x) :
    (meas.map (fun m => quadM m (h.get ((groupOf d cliques m.proj).getD [])))).sum
      ≤ (1 / 2) * (lipschitz d cliques meas eigs).v * cvNormSq h := by
  exact LossAux.hessian_bound d cliques meas eigs h hh.aux (fun m h => (hm m h).aux) hcov hlen hsizes hne heig

end PGM.Loss
