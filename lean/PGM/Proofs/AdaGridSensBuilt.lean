import PGM.Proofs.AdaGridSens
/-!
# Adaptive Grid: the induction over the mechanism's history

`matrices[cl] = Q` is filled clique by clique; each `Q` is `query n sel coef children` where the
children are matrices stored earlier, `sel` comes from the (noisy, data-dependent) plausibility
factors and `coef = 1/sqrt(#children)`.  Two formulations:
* `Built Q`   — inductive predicate (tree of constructions);
* `History h` — the dictionary `matrices` as the list of its values in insertion order, children
  drawn from the prefix built so far.
In both, `sel` and the projections `σ` are arbitrary.
-/
namespace PGM.AdaGridSens
open PGM PGM.AdaGrid

/-- a query matrix built by adagrid from earlier built ones -/
inductive Built : Mat ℝ → Prop
  | mk (n : ℕ) (sel : List ℕ) (coef : ℝ) (children : List (Mat ℝ × List ℕ))
      (hch : ∀ c ∈ children, Built c.1)
      (hσ : ∀ c ∈ children, c.2.length = n)
      (hcoef : coef ^ 2 * (children.length : ℝ) ≤ 1) :
      Built (query n sel coef children)

/-- **6.** every matrix built by adagrid has all column norms ≤ 1, whatever the selections were -/
theorem built_colSq_le_one {Q : Mat ℝ} (h : Built Q) : ∀ j, colSq Q j ≤ 1 := by
  induction h with
  | mk n sel coef children hch hσ hcoef ih =>
    intro j
    exact query_colSq_le_one n sel coef children (fun c hc i => ih c hc i) hcoef j

/-- the step with the mechanism's own coefficient `1/sqrt(#children)` -/
theorem Built.step (n : ℕ) (sel : List ℕ) (children : List (Mat ℝ × List ℕ))
    (hch : ∀ c ∈ children, Built c.1) (hσ : ∀ c ∈ children, c.2.length = n) :
    Built (query n sel (1 / Real.sqrt children.length) children) :=
  Built.mk n sel _ children hch hσ (coef_inv_sqrt children.length)

/-- a clique without measured children (`coef` is irrelevant, the aggregate is empty) -/
theorem Built.leaf (n : ℕ) (sel : List ℕ) (coef : ℝ) : Built (query n sel coef []) :=
  Built.mk n sel coef [] (fun _ h => by simp at h) (fun _ h => by simp at h) (by simp)

/-- the values of the dictionary `matrices`, in insertion order -/
inductive History : List (Mat ℝ) → Prop
  | nil : History []
  | snoc (hist : List (Mat ℝ)) (n : ℕ) (sel : List ℕ) (coef : ℝ)
      (children : List (Mat ℝ × List ℕ))
      (hprev : History hist)
      (hch : ∀ c ∈ children, c.1 ∈ hist ∧ c.2.length = n)
      (hcoef : coef ^ 2 * (children.length : ℝ) ≤ 1) :
      History (hist ++ [query n sel coef children])

theorem history_built {hist : List (Mat ℝ)} (h : History hist) : ∀ Q ∈ hist, Built Q := by
  induction h with
  | nil => intro Q hQ; simp at hQ
  | snoc hist n sel coef children hprev hch hcoef ih =>
    intro Q hQ
    rcases List.mem_append.mp hQ with hQ | hQ
    · exact ih Q hQ
    · rw [List.mem_singleton] at hQ
      subst hQ
      exact Built.mk n sel coef children (fun c hc => ih c.1 (hch c hc).1)
        (fun c hc => (hch c hc).2) hcoef

/-- **6'.** every matrix ever stored (and measured) has all column norms ≤ 1 -/
theorem history_colSq_le_one {hist : List (Mat ℝ)} (h : History hist) :
    ∀ Q ∈ hist, ∀ j, colSq Q j ≤ 1 :=
  fun Q hQ => built_colSq_le_one (history_built h Q hQ)

/-! ### a 2-level instance: attributes `a`, `b` with 2 values each, cliques `(a)`, `(b)`, `(a,b)` -/

/-- `(a)`: cell 0 found plausible -/
noncomputable def exA : Mat ℝ := query 2 [0] 1 []
/-- `(b)`: both cells found plausible -/
noncomputable def exB : Mat ℝ := query 2 [0, 1] 1 []
/-- `(a,b)` (cells `00,01,10,11`): cell `00` selected; children `(a)` via `x ↦ x_a`, `(b)` via `x ↦ x_b` -/
noncomputable def exAB : Mat ℝ :=
  query 4 [0] (1 / Real.sqrt ((2 : ℕ) : ℝ)) [(exA, [0, 0, 1, 1]), (exB, [0, 1, 0, 1])]

theorem exA_built : Built exA := Built.leaf 2 [0] 1
theorem exB_built : Built exB := Built.leaf 2 [0, 1] 1

theorem exAB_built : Built exAB := by
  apply Built.step 4 [0] [(exA, [0, 0, 1, 1]), (exB, [0, 1, 0, 1])]
  · intro c hc
    simp only [List.mem_cons, List.not_mem_nil, or_false] at hc
    rcases hc with rfl | rfl
    · exact exA_built
    · exact exB_built
  · intro c hc
    simp only [List.mem_cons, List.not_mem_nil, or_false] at hc
    rcases hc with rfl | rfl <;> rfl

theorem ex_history : History [exA, exB, exAB] := by
  have h0 : History ([] ++ [exA]) :=
    History.snoc [] 2 [0] 1 [] History.nil (fun _ h => by simp at h) (by simp)
  have h1 : History (([] ++ [exA]) ++ [exB]) :=
    History.snoc _ 2 [0, 1] 1 [] h0 (fun _ h => by simp at h) (by simp)
  have h2 : History ((([] ++ [exA]) ++ [exB]) ++ [exAB]) := by
    apply History.snoc _ 4 [0] (1 / Real.sqrt ((2 : ℕ) : ℝ))
      [(exA, [0, 0, 1, 1]), (exB, [0, 1, 0, 1])] h1
    · intro c hc
      simp only [List.mem_cons, List.not_mem_nil, or_false] at hc
      rcases hc with rfl | rfl
      · exact ⟨by simp, rfl⟩
      · exact ⟨by simp, rfl⟩
    · exact coef_inv_sqrt 2
  simpa using h2

/-- column `11` of the two-way query: not selected, its `a`-part is masked in `(a)` (cell 1 of `a`
was not plausible, so `(a)` has a zero column there) and its `b`-part is the unit column of `(b)`,
scaled by `1/√2`: squared norm `1/2` -/
theorem exAB_col3 : colSq exAB 3 = 1 / 2 := by
  unfold exAB
  rw [colSq_query _ _ _ _ _ (by norm_num), if_neg (by simp),
    colSq_aggregate _ _ _ (by simp)]
  have hA : colSq exA 1 = 0 := by
    unfold exA
    rw [colSq_query _ _ _ _ _ (by norm_num), if_neg (by simp), colSq_aggregate _ _ _ (by simp)]
    simp
  have hB : colSq exB 1 = 1 := by
    unfold exB
    rw [colSq_query _ _ _ _ _ (by norm_num), if_pos (by simp)]
  have h2 : (1 / Real.sqrt ((2 : ℕ) : ℝ)) ^ 2 = 1 / 2 := by
    rw [div_pow, Real.sq_sqrt (by norm_num)]; norm_num
  rw [h2]
  simp [hA, hB]

end PGM.AdaGridSens
