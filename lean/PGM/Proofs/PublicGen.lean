import PGM.Generated.PublicG
import PGM.Model.Public
import Mathlib.Data.List.Nodup
/-! helper lemmas for C19G: the generated loop state (a tuple) against the hand model's `EmdState`, fold simulation -/
namespace PGM.Public
variable {α : Type} [Scalar α]

/-- the loop state of the generated `entropic_mirror_descent` — the tuple `(logP, loss, dL, alpha, begun)` — as the
hand model's record -/
def toState (st : List α × α × List α × α × Bool) : EmdState α :=
  ⟨st.1, st.2.1, st.2.2.1, st.2.2.2.1, st.2.2.2.2⟩

/-- two folds whose states are related by `φ` stay related -/
theorem foldl_sim {σ τ β : Type} (φ : σ → τ) (f : σ → β → σ) (g : τ → β → τ)
    (h : ∀ s b, φ (f s b) = g (φ s) b) (l : List β) (s : σ) :
    φ (l.foldl f s) = l.foldl g (φ s) := by
  induction l generalizing s with
  | nil => rfl
  | cons b l ih => simp only [List.foldl_cons]; rw [ih, h]

theorem zipWith_map_right' {β γ δ ε : Type} (f : β → δ → ε) (g : γ → δ) (a : List β) (b : List γ) :
    List.zipWith f a (List.map g b) = List.zipWith (fun x y => f x (g y)) a b := by
  induction a generalizing b with
  | nil => simp
  | cons x a ih => cases b with
    | nil => simp
    | cons y b => simp [ih]

/-- `logP - alpha*dL` (numpy: scale, then subtract) is the model's fused zip -/
theorem tilt_eq (alpha : α) (logP d : List α) :
    List.zipWith Scalar.sub logP (List.map (fun v => Scalar.mul alpha v) d)
      = List.zipWith (fun lp x => Scalar.sub lp (Scalar.mul alpha x)) logP d :=
  zipWith_map_right' _ _ _ _

/-- `np.log(x0+eps) + np.log(total) - np.log(x0.sum())`: three broadcasts are one map -/
theorem init_logP_eq (x0 : List α) (eps0 b c : α) :
    List.map (fun v => Scalar.sub v c) (List.map (fun v => Scalar.add v b)
        (List.map Scalar.log (List.map (fun v => Scalar.add v eps0) x0)))
      = x0.map (fun x => Scalar.sub (Scalar.add (Scalar.log (Scalar.add x eps0)) b) c) := by
  simp only [List.map_map, Function.comp_def]

/-- `x0 * total / x0.sum()` -/
theorem init_P_eq (x0 : List α) (t S : α) :
    List.map (fun v => Scalar.div v S) (List.map (fun v => Scalar.mul v t) x0)
      = x0.map (fun x => Scalar.div (Scalar.mul x t) S) := by
  simp only [List.map_map, Function.comp_def]

/-- accumulating vectors of length `n` into a vector of length `n` (`dweights += …`) keeps the length -/
theorem foldl_zipWith_length {β : Type} (f : α → α → α) (g : β → List α) (n : Nat) (l : List β) (dw : List α)
    (h0 : dw.length = n) (hg : ∀ b, (g b).length = n) :
    (l.foldl (fun dw b => List.zipWith f dw (g b)) dw).length = n := by
  induction l generalizing dw with
  | nil => exact h0
  | cons b l ih =>
    simp only [List.foldl_cons]
    apply ih
    simp [List.length_zipWith, h0, hg b]

/-- every record collects one gradient entry per measured clique: the gradient handed back by `loss_and_grad` has
one entry per public record — for ANY `_marginal_loss` (metric L2, L1 or a callable) -/
theorem lossAndGrad_length (mloss : List (Loss.Meas α) → CliqueVec α → α × CliqueVec α) (pub : Dataset α)
    (meas : List (Loss.Meas α)) (w : List α) (hw : w.length = pub.rows.length) :
    (lossAndGrad mloss pub meas w).2.length = pub.rows.length := by
  unfold lossAndGrad
  apply foldl_zipWith_length
  · simp [hw]
  · intro cl
    simp [gather, Dataset.project, reweight, Dataset.ofTable, Dataset.Table.select]

/-- re-selecting the columns a dataset already has (distinct attribute names, rows of the right width) returns its
rows: `Dataset(pub.df, pub.domain, w)` is over the unchanged records -/
theorem reweight_rows (pub : Dataset α) (w : List α) (hnd : pub.dom.attrs.Nodup)
    (hw : ∀ r ∈ pub.rows, r.length = pub.dom.attrs.length) : (reweight pub w).rows = pub.rows := by
  simp only [reweight, Dataset.ofTable, Dataset.Table.select]
  conv => rhs; rw [← List.map_id pub.rows]
  apply List.map_congr_left
  intro r hr
  have hl := hw r hr
  apply List.ext_getElem
  · simp [hl]
  · intro i h1 h2
    have hi : i < pub.dom.attrs.length := by simpa using h1
    simp only [List.getElem_map, id]
    have hidx : List.idxOf pub.dom.attrs[i] pub.dom.attrs = i := by
      have := List.get_idxOf hnd ⟨i, hi⟩
      simpa using this
    have h3 : i < r.length := h2
    rw [hidx, List.getD_eq_getElem?_getD, List.getElem?_eq_getElem h3]
    rfl

end PGM.Public
