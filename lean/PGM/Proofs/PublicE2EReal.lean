import PGM.Proofs.PublicE2E
import PGM.Proofs.PublicSem
import Mathlib.Algebra.BigOperators.Group.List.Basic
import Mathlib.Tactic.Ring
import Mathlib.Tactic.Linarith
/-!
# Helpers for C19E, part 2 (real numbers): the property's objective, written out

`table pub w cl` is the weighted contingency vector of the public records on the clique `cl`
(`Dataset.datavector` of the reweighted, projected data — the C15 semantics: `table_eq_count`).  `measLossL2` /
`measLossL1` are the measurement losses the property speaks of, in plain real notation; `measGrad` is their
gradient with respect to the record weights by the chain rule (the entry of `∂loss/∂table` at the record's cell,
summed over the measurements).
-/
set_option linter.unusedVariables false
set_option linter.unusedSectionVars false
namespace PGM.Public
open PGM PGM.JT

/-! ### the objects of the statement -/

/-- `μ_cl(w)`: the weighted contingency vector of the public records on the clique `cl` -/
def table {α : Type} [Scalar α] (pub : Dataset α) (w : List α) (cl : Clique) : List α :=
  ((reweight pub w).project cl).datavector

/-- the noise-scaled residual `(Q x − y)/noise` of a measurement at the table `x` -/
noncomputable def resid (m : Loss.Meas ℝ) (x : List ℝ) : List ℝ :=
  (List.zipWith (· - ·) (m.Q.map (fun row => (List.zipWith (· * ·) row x).sum)) m.y).map (fun v => v / m.noise)

/-- **the L2 objective of the property**: `Σ_measurements ½‖(Q·μ_cl(w) − y)/noise‖²` -/
noncomputable def measLossL2 (pub : Dataset ℝ) (ms : List (Loss.Meas ℝ)) (w : List ℝ) : ℝ :=
  (ms.map (fun m => 1 / 2 * ((resid m (table pub w m.proj)).map (fun d => d ^ 2)).sum)).sum

/-- **the L1 objective of the property**: `Σ_measurements ‖(Q·μ_cl(w) − y)/noise‖₁` -/
noncomputable def measLossL1 (pub : Dataset ℝ) (ms : List (Loss.Meas ℝ)) (w : List ℝ) : ℝ :=
  (ms.map (fun m => ((resid m (table pub w m.proj)).map (fun d => |d|)).sum)).sum

/-- `np.sign` on the reals -/
noncomputable def sgn (x : ℝ) : ℝ := if 0 < x then 1 else if x < 0 then -1 else 0

/-- `∂(loss of m)/∂table`: `Qᵀ dir(residual) / noise`, one entry per cell (`dir` = the residual itself for L2, its
signs for L1) -/
noncomputable def tabGrad (dir : List ℝ → List ℝ) (m : Loss.Meas ℝ) (x : List ℝ) : List ℝ :=
  (List.range x.length).map (fun j =>
    (List.zipWith (fun (row : List ℝ) d => row.getD j 0 * d) m.Q (dir (resid m x))).sum / m.noise)

/-- the cell of the record `r` on the clique `cl` -/
def cellOn (d : Dom) (cl : Clique) (r : List Int) : List Nat :=
  cl.map (fun a => (r.getD (d.attrs.idxOf a) 0).toNat)

/-- the gradient of the measurement loss with respect to the record weights: record `r` collects, for every
measurement, the entry of `∂loss/∂table` at the cell `r` falls in -/
noncomputable def measGrad (dir : List ℝ → List ℝ) (pub : Dataset ℝ) (ms : List (Loss.Meas ℝ)) (w : List ℝ) : List ℝ :=
  pub.rows.map (fun r => (ms.map (fun m =>
    (tabGrad dir m (table pub w m.proj)).getD (ravel (pub.dom.project m.proj).shape (cellOn pub.dom m.proj r)) 0)).sum)

/-! ### scalar-class expressions in real notation -/

theorem foldl_add_map {β : Type} (f : β → ℝ) (l : List β) :
    l.foldl (fun a m => Scalar.add a (f m)) (Scalar.zero : ℝ) = (l.map f).sum := by
  have := foldl_add_eq (l.map f) 0
  rw [List.foldl_map] at this
  simpa using this

theorem zipWith_mul_self (d : List ℝ) : List.zipWith (· * ·) d d = d.map (fun x => x ^ 2) := by
  induction d with
  | nil => rfl
  | cons x xs ih => simp [ih, sq]

theorem absS_real (x : ℝ) : Loss.absS x = |x| := by
  unfold Loss.absS
  simp only [r_gt0, decide_eq_true_eq, r_neg]
  split
  · rename_i h; rw [abs_of_pos h]
  · rename_i h; rw [abs_of_nonpos (not_lt.mp h)]

theorem signS_real (x : ℝ) : Loss.signS x = sgn x := by
  unfold Loss.signS sgn
  simp only [r_gt0, decide_eq_true_eq, r_neg, r_one, r_zero, Left.neg_pos_iff]

theorem residual_real (m : Loss.Meas ℝ) (mu : Factor ℝ) : residual m mu = resid m mu.datavector := by
  unfold residual resid Loss.matVec Loss.dot
  simp only [r_sub_fun, r_mul, r_div, r_one, r_sum]
  apply List.map_congr_left
  intro v _
  ring_nf


/-! ### the loss component -/

theorem get_tabulate_of_mem (est : Dataset ℝ) (ms : List (Loss.Meas ℝ)) (m : Loss.Meas ℝ) (hm : m ∈ ms) :
    (tabulate est (ms.map (·.proj))).get m.proj = tabF est m.proj :=
  tabulate_get est _ _ (List.mem_map_of_mem hm)

/-- the loss handed back by `loss_and_grad`, for any residual loss: the sum over the measurements of the loss of the
residual at the weighted contingency table of the measurement's own clique.  No hypothesis. -/
theorem lossAndGrad_loss_with (lossOf : List ℝ → ℝ) (dirOf : List ℝ → List ℝ) (pub : Dataset ℝ)
    (ms : List (Loss.Meas ℝ)) (w : List ℝ) :
    (lossAndGrad (marginalLossWith lossOf dirOf) pub ms w).1
      = (ms.map (fun m => lossOf (resid m (table pub w m.proj)))).sum := by
  show (marginalLossWith lossOf dirOf ms (tabulate (reweight pub w) (ms.map (·.proj)))).1 = _
  rw [marginalLossWith_loss, ← foldl_add_map]
  apply Dataset.foldl_congr_mem
  intro acc m hm
  rw [get_tabulate_of_mem _ ms m hm, residual_real, tabF_datavector]
  rfl

theorem lossAndGrad_loss_L2 (pub : Dataset ℝ) (ms : List (Loss.Meas ℝ)) (w : List ℝ) :
    (lossAndGrad marginalLoss pub ms w).1 = measLossL2 pub ms w := by
  unfold marginalLoss measLossL2
  rw [lossAndGrad_loss_with]
  congr 1
  apply List.map_congr_left
  intro m _
  simp only [Loss.dot, r_sum, r_mul, r_div, r_one, r_add]
  rw [show (List.zipWith Scalar.mul (resid m (table pub w m.proj)) (resid m (table pub w m.proj)))
      = List.zipWith (· * ·) (resid m (table pub w m.proj)) (resid m (table pub w m.proj)) from rfl,
    zipWith_mul_self]
  norm_num

theorem lossAndGrad_loss_L1 (pub : Dataset ℝ) (ms : List (Loss.Meas ℝ)) (w : List ℝ) :
    (lossAndGrad marginalLossL1 pub ms w).1 = measLossL1 pub ms w := by
  unfold marginalLossL1 measLossL1
  rw [lossAndGrad_loss_with]
  congr 1
  apply List.map_congr_left
  intro m _
  simp only [r_sum]
  congr 1
  apply List.map_congr_left
  intro d _
  exact absS_real d


/-! ### records inside the domain; the C15 reading of `table` -/

/-- the hypothesis of the gradient statement: distinct attribute names, every public record has one in-range value
per attribute (`0 ≤ v < size`), every measured clique lists distinct attributes of the domain -/
structure InDom {α : Type} [Scalar α] (pub : Dataset α) (ms : List (Loss.Meas α)) : Prop where
  wf : pub.dom.WF
  rows : pub.InDomain
  cl : ∀ m ∈ ms, m.proj.Nodup ∧ ∀ a ∈ m.proj, a ∈ pub.dom.attrs

theorem reweight_rows_inDomain {α : Type} [Scalar α] (pub : Dataset α) (w : List α) (hD : pub.dom.WF)
    (hin : pub.InDomain) : (reweight pub w).rows = pub.rows ∧ (reweight pub w).InDomain := by
  have hr : (reweight pub w).rows = pub.rows := by
    apply reweight_rows pub w hD
    intro r hr
    rw [(hin r hr).1, Dom.length_shape, Dom.length_attrs]
  refine ⟨hr, ?_⟩
  intro r h
  rw [hr] at h
  exact hin r h

/-- **`table` is the weighted contingency table (C15)**: its entry at the cell `c` is the total weight of the public
records whose values on `cl` are `c` -/
theorem table_eq_count {α : Type} [Scalar α] (pub : Dataset α) (w : List α) (cl : Clique) (hD : pub.dom.WF)
    (hin : pub.InDomain) (hsub : ∀ a ∈ cl, a ∈ pub.dom.attrs) (c : List Nat)
    (hc : InRange (pub.dom.project cl).shape c) :
    (table pub w cl)[ravel (pub.dom.project cl).shape c]? = some (((reweight pub w).project cl).tableAt c) :=
  Dataset.datavector_eq_count ((reweight pub w).project cl)
    (Dataset.project_inDomain (reweight pub w) cl hD (reweight_rows_inDomain pub w hD hin).2 hsub) c hc

/-! ### the gradient component -/

theorem list_ext_getD (a b : List ℝ) (n : Nat) (ha : a.length = n) (hb : b.length = n)
    (h : ∀ i, i < n → a.getD i 0 = b.getD i 0) : a = b := by
  apply List.ext_getElem (by rw [ha, hb])
  intro i h1 h2
  have := h i (by omega)
  simpa [List.getD_eq_getElem?_getD, List.getElem?_eq_getElem, h1, h2] using this

theorem sum_map_ite_nodup {κ : Type} [DecidableEq κ] (K : List κ) (hK : K.Nodup) (a : κ) (v : ℝ) :
    (K.map (fun k => if a = k then v else 0)).sum = if a ∈ K then v else 0 := by
  induction K with
  | nil => simp
  | cons k ks ih =>
    rw [List.nodup_cons] at hK
    simp only [List.map_cons, List.sum_cons, ih hK.2, List.mem_cons]
    by_cases e : a = k
    · subst e; simp [hK.1]
    · simp [e]

/-- summing clique by clique over the measurements of that clique is summing over the measurements -/
theorem sum_regroup {β κ : Type} [BEq κ] [LawfulBEq κ] [DecidableEq κ] (K : List κ) (hK : K.Nodup) (key : β → κ) (F : β → ℝ)
    (ms : List β) (hcov : ∀ m ∈ ms, key m ∈ K) :
    (K.map (fun k => ((ms.filter (fun m => key m == k)).map F).sum)).sum = (ms.map F).sum := by
  induction ms with
  | nil => simp
  | cons m ms ih =>
    have h1 : ∀ k, (((m :: ms).filter (fun m => key m == k)).map F).sum
        = (if key m = k then F m else 0) + ((ms.filter (fun m => key m == k)).map F).sum := by
      intro k
      by_cases e : key m = k
      · simp [List.filter_cons, e]
      · simp [List.filter_cons, e]
    simp only [h1, List.sum_map_add, List.map_cons, List.sum_cons]
    rw [ih (fun m' h' => hcov m' (List.mem_cons_of_mem _ h')), sum_map_ite_nodup K hK,
      if_pos (hcov m (by simp))]

theorem gradVec_real (dirOf : List ℝ → List ℝ) (m : Loss.Meas ℝ) (mu : Factor ℝ) :
    gradVec dirOf m mu = tabGrad dirOf m mu.datavector := by
  unfold gradVec tabGrad Loss.matTVec
  rw [residual_real, List.map_map]
  apply List.map_congr_left
  intro j _
  simp only [Function.comp, r_sum, r_mul, r_div, r_one, r_zero]
  ring

theorem gradF_sem (dirOf : List ℝ → List ℝ) (marg : CliqueVec ℝ) (m : Loss.Meas ℝ) (σ : Attr → Nat) :
    (gradF dirOf marg m).sem σ
      = (gradVec dirOf m (marg.get m.proj)).getD
          (ravel (marg.get m.proj).dom.shape ((marg.get m.proj).dom.attrs.map σ)) 0 := by
  show ((gradVec dirOf m (marg.get m.proj)).toArray).getD _ default = _
  simp [Array.getD_eq_getD_getElem?, List.getD_eq_getElem?_getD]
  rfl


theorem foldl_add_sum (l : List ℝ) : List.foldl Scalar.add (Scalar.zero : ℝ) l = l.sum := by
  have := foldl_add_eq l 0
  simpa using this

/-- the entry of one measurement's gradient table at the cell of a record -/
theorem gradF_at_record (dirOf : List ℝ → List ℝ) (pub : Dataset ℝ) (w : List ℝ) (ms : List (Loss.Meas ℝ))
    (m : Loss.Meas ℝ) (hm : m ∈ ms) (r : List Int) :
    (gradF dirOf (tabulate (reweight pub w) (ms.map (·.proj))) m).sem
        (fun a => (r.getD (pub.dom.attrs.idxOf a) 0).toNat)
      = (tabGrad dirOf m (table pub w m.proj)).getD
          (ravel (pub.dom.project m.proj).shape (cellOn pub.dom m.proj r)) 0 := by
  rw [gradF_sem, get_tabulate_of_mem _ ms m hm, gradVec_real, tabF_datavector, tabF_dom, Dom.attrs_project]
  rfl

/-- **the gradient handed back by `loss_and_grad`**, for any residual loss and direction: record by record, the sum
over the measurements of the entry of `∂loss/∂table` at the record's cell -/
theorem lossAndGrad_grad_with (lossOf : List ℝ → ℝ) (dirOf : List ℝ → List ℝ) (pub : Dataset ℝ)
    (ms : List (Loss.Meas ℝ)) (w : List ℝ) (H : InDom pub ms) (hw : w.length = pub.records) :
    (lossAndGrad (marginalLossWith lossOf dirOf) pub ms w).2 = measGrad dirOf pub ms w := by
  obtain ⟨hrows, hein⟩ := reweight_rows_inDomain pub w H.wf H.rows
  obtain ⟨hknd, hkmem⟩ := tabulate_keys (reweight pub w) (ms.map (·.proj))
  have hK : ∀ m ∈ ms, m.proj ∈ (tabulate (reweight pub w) (ms.map (·.proj))).map Prod.fst :=
    fun m hm => (hkmem _).mpr (List.mem_map_of_mem hm)
  have hget : ∀ cl ∈ (tabulate (reweight pub w) (ms.map (·.proj))).map Prod.fst,
      (tabulate (reweight pub w) (ms.map (·.proj))).get cl = tabF (reweight pub w) cl ∧ cl.Nodup ∧
        ∀ a ∈ cl, a ∈ pub.dom.attrs := by
    intro cl hcl
    have h1 := (hkmem cl).mp hcl
    obtain ⟨m, hm, rfl⟩ := List.mem_map.mp h1
    exact ⟨tabulate_get _ _ _ h1, (H.cl m hm).1, (H.cl m hm).2⟩
  have hW : ∀ cl ∈ (tabulate (reweight pub w) (ms.map (·.proj))).map Prod.fst,
      ((tabulate (reweight pub w) (ms.map (·.proj))).get cl).WF := by
    intro cl hcl
    obtain ⟨h1, h2, _⟩ := hget cl hcl
    rw [h1]; exact tabF_WF _ cl h2
  obtain ⟨hk, hcl⟩ := marginalLossWith_grad lossOf dirOf _ hW ms hK
  apply list_ext_getD _ _ pub.rows.length (lossAndGrad_length _ pub ms w hw) (by simp [measGrad])
  intro i hi
  show (List.foldl (fun (dw : List ℝ) cl => List.zipWith Scalar.add dw
      (gather ((marginalLossWith lossOf dirOf ms (tabulate (reweight pub w) (ms.map (·.proj)))).2.get cl).vals
        ((reweight pub w).project cl).rows)) (List.replicate w.length Scalar.zero)
      ((marginalLossWith lossOf dirOf ms (tabulate (reweight pub w) (ms.map (·.proj)))).2.map Prod.fst)).getD i
        (Scalar.zero : ℝ) = _
  rw [hk, foldl_zipWith_getD _ pub.rows.length _ _ (by simp; exact hw)
    (by intro cl; simp [gather, Dataset.project, hrows]) i hi]
  have h0 : (List.replicate w.length (Scalar.zero : ℝ)).getD i Scalar.zero = Scalar.zero := by
    have hiw : i < w.length := by rw [hw]; exact hi
    simp [List.getD_eq_getElem?_getD, hiw]
  rw [h0, foldl_add_map]
  have hr : pub.rows.getD i [] ∈ pub.rows := by
    simp only [List.getD_eq_getElem?_getD, List.getElem?_eq_getElem hi, Option.getD_some]
    exact List.getElem_mem hi
  have hterm : ∀ cl ∈ (tabulate (reweight pub w) (ms.map (·.proj))).map Prod.fst,
      (gather ((marginalLossWith lossOf dirOf ms (tabulate (reweight pub w) (ms.map (·.proj)))).2.get cl).vals
        ((reweight pub w).project cl).rows).getD i Scalar.zero
      = ((ms.filter (fun m => m.proj == cl)).map (fun m =>
          (tabGrad dirOf m (table pub w m.proj)).getD
            (ravel (pub.dom.project m.proj).shape (cellOn pub.dom m.proj (pub.rows.getD i []))) 0)).sum := by
    intro cl hclK
    obtain ⟨hg1, hg2, hg3⟩ := hget cl hclK
    obtain ⟨hd, hsem⟩ := hcl cl hclK
    have hlen : i < ((reweight pub w).project cl).rows.length := by
      simp [Dataset.project, hrows]; exact hi
    rw [gather_getD _ _ i hlen]
    have hidx : (((reweight pub w).project cl).rows.getD i []).map Int.toNat
        = cl.map (fun a => ((pub.rows.getD i []).getD (pub.dom.attrs.idxOf a) 0).toNat) := by
      have : ((reweight pub w).project cl).rows
          = pub.rows.map (fun r => cl.map (fun a => r.getD (pub.dom.attrs.idxOf a) 0)) := by
        show (reweight pub w).rows.map _ = _
        rw [hrows]; rfl
      rw [this]
      simp [List.getD_eq_getElem?_getD, List.getElem?_map, List.getElem?_eq_getElem hi]
    have hattrs : ((marginalLossWith lossOf dirOf ms (tabulate (reweight pub w) (ms.map (·.proj)))).2.get cl).dom.attrs
        = cl := by
      rw [hd, hg1, tabF_dom, Dom.attrs_project]
    have hσ : ((tabulate (reweight pub w) (ms.map (·.proj))).get cl).dom.Valid
        (fun a => ((pub.rows.getD i []).getD (pub.dom.attrs.idxOf a) 0).toNat) := by
      rw [hg1, tabF_dom]
      intro p hp
      simp only [Dom.project, List.mem_map] at hp
      obtain ⟨a, ha, rfl⟩ := hp
      exact ((Dataset.rowIn_attr pub.dom H.wf _ (H.rows _ hr)).2 a (hg3 a ha)).2
    have hs := hsem _ hσ
    unfold Factor.sem at hs
    rw [hattrs] at hs
    rw [hidx, hs, foldl_add_sum]
    congr 1
    apply List.map_congr_left
    intro m hm
    obtain ⟨hm1, hm2⟩ := List.mem_filter.mp hm
    exact gradF_at_record dirOf pub w ms m hm1 _
  rw [List.map_congr_left hterm]
  refine (sum_regroup _ hknd (fun m : Loss.Meas ℝ => m.proj) _ ms hK).trans ?_
  simp [measGrad, List.getD_eq_getElem?_getD, List.getElem?_map, List.getElem?_eq_getElem hi]


/-! ### the objective as a quadratic form in the weights (`Public.lossgradQuad`, the driver's objective) -/

/-- the record → cell incidence matrix of the clique `cl`: one row per cell (row-major), one column per public record,
entry 1 where the record falls in the cell -/
noncomputable def incidence (pub : Dataset ℝ) (cl : Clique) : List (List ℝ) :=
  (cells (pub.dom.project cl).shape).map (fun c =>
    pub.rows.map (fun r => if cellOn pub.dom cl r = c then (1 : ℝ) else 0))

/-- the measurements as the harness hands them to the driver: `A = (Q · Inc) / noise`, `y / noise` -/
noncomputable def quadMs (pub : Dataset ℝ) (ms : List (Loss.Meas ℝ)) : List (List (List ℝ) × List ℝ) :=
  ms.map (fun m =>
    (m.Q.map (fun q => (Loss.matTVec (incidence pub m.proj) pub.records q).map (fun v => v / m.noise)),
     m.y.map (fun v => v / m.noise)))

theorem fold_zipIdx_ind (p : List Int → Prop) [DecidablePred p] (w : List ℝ) (rows : List (List Int)) (k : Nat)
    (hk : k + rows.length ≤ w.length) (acc : ℝ) :
    (rows.zipIdx k).foldl (fun acc (ri : List Int × Nat) => if p ri.1 then acc + w.getD ri.2 0 else acc) acc
      = acc + (List.zipWith (· * ·) (rows.map (fun r => if p r then (1 : ℝ) else 0)) (w.drop k)).sum := by
  induction rows generalizing k acc with
  | nil => simp
  | cons r rs ih =>
    have hk' : k < w.length := by simp at hk; omega
    rw [List.zipIdx_cons, List.foldl_cons, ih (k + 1) (by simp at hk ⊢; omega), List.drop_eq_getElem_cons hk']
    have hg : w.getD k 0 = w[k] := by simp [List.getD_eq_getElem?_getD, List.getElem?_eq_getElem hk']
    simp only [List.map_cons, List.zipWith_cons_cons, List.sum_cons, hg]
    split <;> ring

/-- **the table is linear in the weights**: `μ_cl(w) = Inc · w` (records inside the domain) -/
theorem table_linear (pub : Dataset ℝ) (w : List ℝ) (cl : Clique) (hD : pub.dom.WF) (hin : pub.InDomain)
    (hsub : ∀ a ∈ cl, a ∈ pub.dom.attrs) (hw : w.length = pub.records) :
    table pub w cl = (incidence pub cl).map (fun row => (List.zipWith (· * ·) row w).sum) := by
  obtain ⟨hrows, hein⟩ := reweight_rows_inDomain pub w hD hin
  have hpin := Dataset.project_inDomain (reweight pub w) cl hD hein hsub
  unfold table incidence Dataset.datavector
  rw [List.map_map]
  apply List.map_congr_left
  intro c hc
  have hprows : ((reweight pub w).project cl).rows
      = pub.rows.map (fun r => cl.map (fun a => r.getD (pub.dom.attrs.idxOf a) 0)) := by
    show (reweight pub w).rows.map _ = _
    rw [hrows]; rfl
  simp only [Function.comp]
  rw [List.foldl_map]
  have hfun : ∀ (acc : ℝ), ∀ ri ∈ ((reweight pub w).project cl).rows.zipIdx,
      (if Dataset.binOf ((reweight pub w).project cl).dom.shape ri.1 = some c
        then Scalar.add acc (((reweight pub w).project cl).weightAt ri.2) else acc)
      = (if ri.1.map Int.toNat = c then acc + w.getD ri.2 0 else acc) := by
    intro acc ri hri
    have hmem : ri.1 ∈ ((reweight pub w).project cl).rows := by
      obtain ⟨r, i⟩ := ri
      exact (List.mem_zipIdx hri).2.2 ▸ List.getElem_mem _
    rw [Dataset.binOf_of_rowIn _ _ (hpin ri.1 hmem)]
    simp only [Option.some.injEq]
    rfl
  rw [Dataset.foldl_congr_mem _ _ _ _ hfun]
  have := fold_zipIdx_ind (fun r => r.map Int.toNat = c) w ((reweight pub w).project cl).rows 0
    (by rw [hprows]; simp; exact le_of_eq hw.symm) 0
  simp only [List.drop_zero, zero_add] at this
  rw [show (Scalar.zero : ℝ) = 0 from rfl, this, hprows, List.map_map]
  congr 2
  apply List.map_congr_left
  intro r _
  simp only [cellOn, Function.comp, List.map_map]
  rfl

end PGM.Public
