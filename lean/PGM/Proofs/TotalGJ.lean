import PGM.Model.Total
import PGM.Proofs.TotalLin
import Mathlib.Tactic.Ring
import Mathlib.Algebra.BigOperators.Field
import Mathlib.Tactic.FieldSimp
/-!
# Correctness of the Gauss–Jordan elimination of `PGM/Model/Total.lean`

If `A z = b` is solvable then `solve A b` is a solution.
-/
namespace PGM.Total
open Finset
set_option linter.unusedSectionVars false

section Generic
variable {K : Type} [Add K] [Sub K] [Mul K] [Div K] [Zero K] [One K] [DecidableEq K]

/-- the row update of one elimination step with pivot row `pi` and column `c` -/
def newRows (rows : List (List K × K)) (pi c : Nat) : List (List K × K) :=
  let prow := rows.getD pi ([], 0)
  let pv := prow.1.getD c 0
  let prow' : List K × K := (prow.1.map (· / pv), prow.2 / pv)
  (List.range rows.length).map (fun i =>
    if i = pi then prow'
    else
      let r := rows.getD i ([], 0)
      let f := r.1.getD c 0
      (List.zipWith (fun a b => a - f * b) r.1 prow'.1, r.2 - f * prow'.2))

/-- one iteration of the loop of `gaussJordan` -/
def gjStep (st : List (List K × K) × List (Nat × Nat)) (c : Nat) :
    List (List K × K) × List (Nat × Nat) :=
  match (List.range st.1.length).find?
      (fun i => !(st.2.map (·.1)).contains i && (st.1.getD i ([], 0)).1.getD c 0 ≠ 0) with
  | none => st
  | some pi => (newRows st.1 pi c, st.2 ++ [(pi, c)])

theorem gaussJordan_eq (n : Nat) (rows : List (List K × K)) :
    gaussJordan n rows = (List.range n).foldl gjStep (rows, []) := by
  rfl

/-- the solution read off the reduced rows: pivot variables take the rhs, free variables are 0 -/
def zsol (rows : List (List K × K)) (pivots : List (Nat × Nat)) (c : Nat) : K :=
  match pivots.find? (fun p => p.2 = c) with
  | some p => (rows.getD p.1 ([], 0)).2
  | none => 0

theorem solve_eq (A : List (List K)) (b : List K) :
    solve A b = (List.range (ncols A)).map
      (zsol (gaussJordan (ncols A) (List.zip A b)).1 (gaussJordan (ncols A) (List.zip A b)).2) := by
  rfl

end Generic

variable {K : Type} [Field K] [LinearOrder K] [IsStrictOrderedRing K]

abbrev Rows (K : Type) := List (List K × K)

def rowAt (rows : Rows K) (i : Nat) : List K × K := rows.getD i ([], 0)
/-- coefficient `(i, j)` of the augmented system -/
def C (rows : Rows K) (i j : Nat) : K := (rowAt rows i).1.getD j 0
/-- right-hand side of row `i` -/
def B (rows : Rows K) (i : Nat) : K := (rowAt rows i).2
/-- `z` satisfies row `i` -/
def sat (n : Nat) (z : Nat → K) (rows : Rows K) (i : Nat) : Prop :=
  ∑ j ∈ range n, C rows i j * z j = B rows i

theorem getD_map_range {α : Type} (f : Nat → α) (R i : Nat) (d : α) (hi : i < R) :
    ((List.range R).map f).getD i d = f i := by
  simp [List.getD_eq_getElem?_getD, hi]

theorem getD_map_div (l : List K) (pv : K) (j : Nat) :
    (l.map (· / pv)).getD j 0 = l.getD j 0 / pv := by
  by_cases h : j < l.length
  · simp [List.getD_eq_getElem?_getD, h]
  · simp [List.getD_eq_getElem?_getD, not_lt.mp h]

theorem getD_zipWith_sub (l1 l2 : List K) (f : K) (j : Nat) (hl : l1.length = l2.length) :
    (List.zipWith (fun a b => a - f * b) l1 l2).getD j 0 = l1.getD j 0 - f * l2.getD j 0 := by
  by_cases h : j < l1.length
  · have h2 : j < l2.length := hl ▸ h
    simp [List.getD_eq_getElem?_getD, h, h2]
  · have h2 : l2.length ≤ j := hl ▸ not_lt.mp h
    simp [List.getD_eq_getElem?_getD, not_lt.mp h, h2]

theorem newRows_length (rows : Rows K) (pi c : Nat) : (newRows rows pi c).length = rows.length := by
  simp [newRows]

theorem rowAt_newRows (rows : Rows K) (pi c i : Nat) (hi : i < rows.length) :
    rowAt (newRows rows pi c) i =
      if i = pi then ((rowAt rows pi).1.map (· / C rows pi c), B rows pi / C rows pi c)
      else (List.zipWith (fun a b => a - C rows i c * b) (rowAt rows i).1
              ((rowAt rows pi).1.map (· / C rows pi c)),
            B rows i - C rows i c * (B rows pi / C rows pi c)) := by
  unfold rowAt newRows
  rw [getD_map_range _ _ _ _ hi]
  rfl

theorem C_newRows (rows : Rows K) (pi c i j : Nat) (hi : i < rows.length)
    (hl : (rowAt rows i).1.length = (rowAt rows pi).1.length) :
    C (newRows rows pi c) i j =
      if i = pi then C rows pi j / C rows pi c
      else C rows i j - C rows i c * (C rows pi j / C rows pi c) := by
  rw [C, rowAt_newRows rows pi c i hi]
  split_ifs with h
  · simp only [getD_map_div]; rfl
  · simp only
    rw [getD_zipWith_sub _ _ _ _ (by simpa using hl), getD_map_div]
    rfl

theorem B_newRows (rows : Rows K) (pi c i : Nat) (hi : i < rows.length) :
    B (newRows rows pi c) i =
      if i = pi then B rows pi / C rows pi c
      else B rows i - C rows i c * (B rows pi / C rows pi c) := by
  rw [B, rowAt_newRows rows pi c i hi]
  split_ifs with h <;> rfl

theorem rowlen_newRows (rows : Rows K) (pi c i n : Nat) (hi : i < rows.length)
    (hl : (rowAt rows i).1.length = n) (hp : (rowAt rows pi).1.length = n) :
    (rowAt (newRows rows pi c) i).1.length = n := by
  rw [rowAt_newRows rows pi c i hi]
  split_ifs with h
  · simpa using hp
  · simp [hl, hp]

/-- the loop invariant after processing columns `< c` -/
structure Inv (n R : Nat) (rows0 : Rows K) (c : Nat) (st : Rows K × List (Nat × Nat)) : Prop where
  len : st.1.length = R
  rowlen : ∀ i < R, (rowAt st.1 i).1.length = n
  sol : ∀ z : Nat → K, (∀ i < R, sat n z st.1 i) ↔ (∀ i < R, sat n z rows0 i)
  plt : ∀ p ∈ st.2, p.1 < R ∧ p.2 < c
  inj1 : ∀ p ∈ st.2, ∀ q ∈ st.2, p.1 = q.1 → p = q
  inj2 : ∀ p ∈ st.2, ∀ q ∈ st.2, p.2 = q.2 → p = q
  one : ∀ p ∈ st.2, C st.1 p.1 p.2 = 1
  zero : ∀ p ∈ st.2, ∀ i < R, i ≠ p.1 → C st.1 i p.2 = 0
  nonpiv : ∀ i < R, i ∉ st.2.map (·.1) → ∀ j < c, C st.1 i j = 0

theorem Inv.init (n R : Nat) (rows0 : Rows K) (hlen : rows0.length = R)
    (hrow : ∀ i < R, (rowAt rows0 i).1.length = n) : Inv n R rows0 0 (rows0, []) where
  len := hlen
  rowlen := hrow
  sol := fun _ => Iff.rfl
  plt := by simp
  inj1 := by simp
  inj2 := by simp
  one := by simp
  zero := by simp
  nonpiv := by simp

theorem Inv.step_none {n R : Nat} {rows0 rows : Rows K} {piv : List (Nat × Nat)} {c : Nat}
    (h : Inv n R rows0 c (rows, piv))
    (hnone : ∀ i < R, i ∉ piv.map (·.1) → C rows i c = 0) : Inv n R rows0 (c + 1) (rows, piv) where
  len := h.len
  rowlen := h.rowlen
  sol := h.sol
  plt := fun p hp => ⟨(h.plt p hp).1, Nat.lt_succ_of_lt (h.plt p hp).2⟩
  inj1 := h.inj1
  inj2 := h.inj2
  one := h.one
  zero := h.zero
  nonpiv := by
    intro i hi hnp j hj
    rcases Nat.lt_succ_iff_lt_or_eq.mp hj with hj | rfl
    · exact h.nonpiv i hi hnp j hj
    · exact hnone i hi hnp

theorem sat_new_pi (n : Nat) (z : Nat → K) (rows : Rows K) (pi c : Nat) (hpi : pi < rows.length)
    (hpv : C rows pi c ≠ 0) : sat n z (newRows rows pi c) pi ↔ sat n z rows pi := by
  unfold sat
  rw [B_newRows rows pi c pi hpi, if_pos rfl]
  have e : ∀ j ∈ range n, C (newRows rows pi c) pi j * z j = C rows pi j * z j / C rows pi c := by
    intro j _
    rw [C_newRows rows pi c pi j hpi rfl, if_pos rfl]; ring
  rw [Finset.sum_congr rfl e, ← Finset.sum_div, div_left_inj' hpv]

theorem sat_new_other (n : Nat) (z : Nat → K) (rows : Rows K) (pi c i : Nat) (hpi : pi < rows.length)
    (hi : i < rows.length) (hne : i ≠ pi)
    (hl : (rowAt rows i).1.length = (rowAt rows pi).1.length)
    (hs : sat n z (newRows rows pi c) pi) :
    sat n z (newRows rows pi c) i ↔ sat n z rows i := by
  unfold sat at hs ⊢
  rw [B_newRows rows pi c pi hpi, if_pos rfl] at hs
  rw [B_newRows rows pi c i hi, if_neg hne]
  have e : ∀ j ∈ range n, C (newRows rows pi c) i j * z j
      = C rows i j * z j - C rows i c * (C (newRows rows pi c) pi j * z j) := by
    intro j _
    rw [C_newRows rows pi c i j hi hl, if_neg hne, C_newRows rows pi c pi j hpi rfl, if_pos rfl]
    ring
  rw [Finset.sum_congr rfl e, Finset.sum_sub_distrib, ← Finset.mul_sum, hs, sub_left_inj]

theorem Inv.step_some {n R : Nat} {rows0 rows : Rows K} {piv : List (Nat × Nat)} {c : Nat}
    (h : Inv n R rows0 c (rows, piv)) (pi : Nat) (hpi : pi < R)
    (hun : pi ∉ piv.map (·.1)) (hpv : C rows pi c ≠ 0) :
    Inv n R rows0 (c + 1) (newRows rows pi c, piv ++ [(pi, c)]) := by
  have hlen : rows.length = R := h.len
  have hrl : ∀ i < R, (rowAt rows i).1.length = n := h.rowlen
  have hCn : ∀ i < R, ∀ j, C (newRows rows pi c) i j =
      if i = pi then C rows pi j / C rows pi c
      else C rows i j - C rows i c * (C rows pi j / C rows pi c) := by
    intro i hi j
    exact C_newRows rows pi c i j (hlen ▸ hi) (by rw [hrl i hi, hrl pi hpi])
  have hpi_ne : ∀ p ∈ piv, pi ≠ p.1 := by
    intro p hp he
    exact hun (List.mem_map.mpr ⟨p, hp, he.symm⟩)
  -- the pivot row is zero in all earlier pivot columns and all earlier columns
  have hpz : ∀ p ∈ piv, C rows pi p.2 = 0 := fun p hp => h.zero p hp pi hpi (hpi_ne p hp)
  refine
    { len := by show (newRows rows pi c).length = R; rw [newRows_length, hlen]
      rowlen := ?_, sol := ?_, plt := ?_, inj1 := ?_, inj2 := ?_, one := ?_, zero := ?_,
      nonpiv := ?_ }
  · intro i hi
    exact rowlen_newRows rows pi c i n (hlen ▸ hi) (hrl i hi) (hrl pi hpi)
  · intro z
    rw [← h.sol z]
    show (∀ i < R, sat n z (newRows rows pi c) i) ↔ (∀ i < R, sat n z rows i)
    have hpi' : pi < rows.length := hlen ▸ hpi
    constructor
    · intro hs i hi
      by_cases hne : i = pi
      · subst hne; exact (sat_new_pi n z rows i c hpi' hpv).mp (hs i hi)
      · exact (sat_new_other n z rows pi c i hpi' (hlen ▸ hi) hne
          (by rw [hrl i hi, hrl pi hpi]) (hs pi hpi)).mp (hs i hi)
    · intro hs
      have hp : sat n z (newRows rows pi c) pi := (sat_new_pi n z rows pi c hpi' hpv).mpr (hs pi hpi)
      intro i hi
      by_cases hne : i = pi
      · subst hne; exact hp
      · exact (sat_new_other n z rows pi c i hpi' (hlen ▸ hi) hne
          (by rw [hrl i hi, hrl pi hpi]) hp).mpr (hs i hi)
  · intro p hp
    rcases List.mem_append.mp hp with hp | hp
    · exact ⟨(h.plt p hp).1, Nat.lt_succ_of_lt (h.plt p hp).2⟩
    · rw [List.mem_singleton] at hp; subst hp; exact ⟨hpi, Nat.lt_succ_self c⟩
  · intro p hp q hq he
    rcases List.mem_append.mp hp with hp | hp <;> rcases List.mem_append.mp hq with hq | hq
    · exact h.inj1 p hp q hq he
    · rw [List.mem_singleton] at hq; subst hq
      exact absurd he.symm (hpi_ne p hp)
    · rw [List.mem_singleton] at hp; subst hp
      exact absurd he (hpi_ne q hq)
    · rw [List.mem_singleton] at hp hq; rw [hp, hq]
  · intro p hp q hq he
    rcases List.mem_append.mp hp with hp | hp <;> rcases List.mem_append.mp hq with hq | hq
    · exact h.inj2 p hp q hq he
    · rw [List.mem_singleton] at hq; subst hq
      exact absurd he (Nat.ne_of_lt (h.plt p hp).2)
    · rw [List.mem_singleton] at hp; subst hp
      exact absurd he.symm (Nat.ne_of_lt (h.plt q hq).2)
    · rw [List.mem_singleton] at hp hq; rw [hp, hq]
  · intro p hp
    show C (newRows rows pi c) p.1 p.2 = 1
    rcases List.mem_append.mp hp with hp | hp
    · rw [hCn p.1 (h.plt p hp).1, if_neg (Ne.symm (hpi_ne p hp)), hpz p hp, h.one p hp]
      simp
    · rw [List.mem_singleton] at hp; subst hp
      rw [hCn pi hpi, if_pos rfl]
      exact div_self hpv
  · intro p hp i hi hne
    show C (newRows rows pi c) i p.2 = 0
    rcases List.mem_append.mp hp with hp | hp
    · rw [hCn i hi, hpz p hp]
      split_ifs with hip
      · simp
      · rw [h.zero p hp i hi hne]; simp
    · rw [List.mem_singleton] at hp; subst hp
      rw [hCn i hi, if_neg hne, div_self hpv]; ring
  · intro i hi hnp j hj
    show C (newRows rows pi c) i j = 0
    have hnp' : i ∉ piv.map (·.1) ∧ i ≠ pi := by
      simp only [List.map_append, List.mem_append, List.map_cons, List.map_nil,
        List.mem_singleton, not_or] at hnp
      exact hnp
    rw [hCn i hi, if_neg hnp'.2]
    rcases Nat.lt_succ_iff_lt_or_eq.mp hj with hj | rfl
    · rw [h.nonpiv i hi hnp'.1 j hj, h.nonpiv pi hpi hun j hj]; simp
    · rw [div_self hpv]; ring

theorem Inv.step {n R : Nat} {rows0 : Rows K} {st : Rows K × List (Nat × Nat)} {c : Nat}
    (h : Inv n R rows0 c st) : Inv n R rows0 (c + 1) (gjStep st c) := by
  rcases st with ⟨rows, piv⟩
  have hlen : rows.length = R := h.len
  unfold gjStep
  split
  · rename_i hnone
    apply h.step_none
    intro i hi hnp
    have := List.find?_eq_none.mp hnone i (List.mem_range.mpr (hlen ▸ hi))
    by_contra hc
    apply this
    simp only [Bool.and_eq_true, Bool.not_eq_eq_eq_not, Bool.not_true, decide_eq_true_eq]
    refine ⟨?_, hc⟩
    simpa using hnp
  · rename_i pi hsome
    have hmem := List.mem_of_find?_eq_some hsome
    have hp := List.find?_some hsome
    simp only [Bool.and_eq_true, Bool.not_eq_eq_eq_not, Bool.not_true, decide_eq_true_eq] at hp
    apply h.step_some pi (hlen ▸ List.mem_range.mp hmem) (by simpa using hp.1) hp.2

theorem Inv.fold {n R : Nat} {rows0 : Rows K} (h0 : Inv n R rows0 0 (rows0, [])) (c : Nat) :
    Inv n R rows0 c ((List.range c).foldl gjStep (rows0, [])) := by
  induction c with
  | zero => simpa using h0
  | succ c ih => rw [List.range_succ, List.foldl_append]; exact ih.step

/-- value of `zsol` at a pivot column -/
theorem zsol_pivot {rows : Rows K} {piv : List (Nat × Nat)}
    (hinj2 : ∀ p ∈ piv, ∀ q ∈ piv, p.2 = q.2 → p = q) (p : Nat × Nat) (hp : p ∈ piv) :
    zsol rows piv p.2 = B rows p.1 := by
  unfold zsol
  split
  · rename_i q hq
    have hq2 := List.find?_some hq
    have hqm := List.mem_of_find?_eq_some hq
    simp only [decide_eq_true_eq] at hq2
    rw [hinj2 q hqm p hp hq2]; rfl
  · rename_i hn
    have := List.find?_eq_none.mp hn p hp
    simp at this

theorem zsol_nonpivot {rows : Rows K} {piv : List (Nat × Nat)} (j : Nat)
    (hj : ∀ p ∈ piv, p.2 ≠ j) : zsol rows piv j = 0 := by
  unfold zsol
  split
  · rename_i q hq
    have hq2 := List.find?_some hq
    have hqm := List.mem_of_find?_eq_some hq
    simp only [decide_eq_true_eq] at hq2
    exact absurd hq2 (hj q hqm)
  · rfl

/-- at the end of the loop, a consistent system is solved by `zsol` -/
theorem Inv.final {n R : Nat} {rows0 rows : Rows K} {piv : List (Nat × Nat)}
    (h : Inv n R rows0 n (rows, piv)) (hsolv : ∃ z0 : Nat → K, ∀ i < R, sat n z0 rows0 i) :
    ∀ i < R, sat n (zsol rows piv) rows0 i := by
  obtain ⟨z0, hz0⟩ := hsolv
  have hz0' := (h.sol z0).mpr hz0
  apply (h.sol _).mp
  intro i hi
  show ∑ j ∈ range n, C rows i j * zsol rows piv j = B rows i
  by_cases hip : i ∈ piv.map (·.1)
  · obtain ⟨p, hp, rfl⟩ := List.mem_map.mp hip
    have e : ∀ j ∈ range n, C rows p.1 j * zsol rows piv j = if j = p.2 then B rows p.1 else 0 := by
      intro j _
      by_cases hjp : ∃ q ∈ piv, q.2 = j
      · obtain ⟨q, hq, rfl⟩ := hjp
        rw [zsol_pivot h.inj2 q hq]
        by_cases hpq : p.1 = q.1
        · have := h.inj1 p hp q hq hpq
          subst this
          rw [h.one p hp, if_pos rfl, one_mul]
        · have hne : q.2 ≠ p.2 := fun he => hpq (congrArg Prod.fst (h.inj2 q hq p hp he)).symm
          rw [h.zero q hq p.1 hi hpq, if_neg hne, zero_mul]
      · have hj' : ∀ q ∈ piv, q.2 ≠ j := fun q hq he => hjp ⟨q, hq, he⟩
        rw [zsol_nonpivot j hj', mul_zero, if_neg (fun he => hj' p hp he.symm)]
    rw [Finset.sum_congr rfl e, Finset.sum_ite_eq' , if_pos (Finset.mem_range.mpr (h.plt p hp).2)]
  · have hz : ∀ j ∈ range n, C rows i j = 0 := fun j hj => h.nonpiv i hi hip j (Finset.mem_range.mp hj)
    have h0 := hz0' i hi
    unfold sat at h0
    rw [Finset.sum_eq_zero (fun j hj => by rw [hz j hj, zero_mul])] at h0
    rw [← h0]
    exact Finset.sum_eq_zero (fun j hj => by rw [hz j hj, zero_mul])

/-- **correctness of `solve`**: if `A z = b` has a solution then `solve A b` is one -/
theorem solve_correct (A : List (List K)) (b : List K) (R : Nat)
    (hA : A.length = R) (hb : b.length = R) (hrow : ∀ r ∈ A, r.length = ncols A)
    (hsolv : ∃ z0 : Nat → K, ∀ i < R, ∑ j ∈ range (ncols A), ent A i j * z0 j = b.getD i 0) :
    ∀ i < R, ∑ j ∈ range (ncols A), ent A i j * (solve A b).getD j 0 = b.getD i 0 := by
  have hzl : (List.zip A b).length = R := by simp [hA, hb]
  have hrowAt : ∀ i < R, rowAt (List.zip A b) i = (A.getD i [], b.getD i 0) := by
    intro i hi
    unfold rowAt
    simp [List.getD_eq_getElem?_getD, hA, hb, hi]
  have hC : ∀ i < R, ∀ j, C (List.zip A b) i j = ent A i j := by
    intro i hi j; rw [C, hrowAt i hi]; rfl
  have hB : ∀ i < R, B (List.zip A b) i = b.getD i 0 := by
    intro i hi; rw [B, hrowAt i hi]
  have hsat : ∀ z : Nat → K, ∀ i < R,
      (sat (ncols A) z (List.zip A b) i ↔ ∑ j ∈ range (ncols A), ent A i j * z j = b.getD i 0) := by
    intro z i hi
    unfold sat
    rw [hB i hi, Finset.sum_congr rfl (fun j _ => by rw [hC i hi j])]
  have h0 : Inv (ncols A) R (List.zip A b) 0 (List.zip A b, []) := by
    apply Inv.init _ _ _ hzl
    intro i hi
    rw [hrowAt i hi]
    have : i < A.length := hA ▸ hi
    simp only [List.getD_eq_getElem?_getD, List.getElem?_eq_getElem this, Option.getD_some]
    exact hrow _ (List.getElem_mem this)
  have hfin := Inv.fold h0 (ncols A)
  rw [← gaussJordan_eq] at hfin
  obtain ⟨z0, hz0⟩ := hsolv
  have hres := Inv.final (rows := (gaussJordan (ncols A) (List.zip A b)).1)
    (piv := (gaussJordan (ncols A) (List.zip A b)).2) hfin
    ⟨z0, fun i hi => (hsat z0 i hi).mpr (hz0 i hi)⟩
  intro i hi
  have := (hsat _ i hi).mp (hres i hi)
  rw [← this]
  apply Finset.sum_congr rfl
  intro j hj
  rw [solve_eq, getD_map_range _ _ _ _ (Finset.mem_range.mp hj)]

end PGM.Total
