import PGM.Proofs.LossMain
import PGM.Proofs.LossL1Alg
/-!
# Helpers for C04B (2): the common fold of `_marginal_loss` (any per-measurement loss term and
gradient factor), `marginalLossL1` as a double sum, the accumulated gradient of a clique
-/
set_option linter.unusedSectionVars false
set_option linter.unusedVariables false
namespace PGM.LossAux
open PGM PGM.JT PGM.Loss PGM.Factor
variable {K : Type} [Field K] [LinearOrder K] [IsStrictOrderedRing K]

/-! ### the fold, for an arbitrary per-measurement loss `ls` and gradient factor `gf` -/

section Generic
variable (ls : Meas (PlainOf K) → Factor (PlainOf K) → PlainOf K)
  (gf : Meas (PlainOf K) → Factor (PlainOf K) → Factor (PlainOf K))

/-- accumulated gradient of a clique -/
def gradAccG (mine : List (Meas (PlainOf K))) (f g0 : Factor (PlainOf K)) : Factor (PlainOf K) :=
  mine.foldl (fun g m => g.iadd (gf m f)) g0

theorem inner_foldG (mine : List (Meas (PlainOf K))) (f : Factor (PlainOf K)) (a : PlainOf K)
    (g0 : Factor (PlainOf K)) :
    mine.foldl (fun (lg : PlainOf K × Factor (PlainOf K)) m =>
        (Scalar.add lg.1 (ls m f), lg.2.iadd (gf m f))) (a, g0)
      = (⟨a.v + (mine.map (fun m => (ls m f).v)).sum⟩, gradAccG gf mine f g0) := by
  induction mine generalizing a g0 with
  | nil => simp [gradAccG]
  | cons m mine ih =>
    simp only [List.foldl_cons, ih, List.map_cons, List.sum_cons, gradAccG, add_v, add_assoc]

/-- the two nested folds of `_marginal_loss` -/
def foldG (d : Dom) (cliques : List Clique) (meas : List (Meas (PlainOf K)))
    (mu : CliqueVec (PlainOf K)) (a : PlainOf K) (L : CliqueVec (PlainOf K)) :
    PlainOf K × CliqueVec (PlainOf K) :=
  mu.foldl (fun (acc : PlainOf K × CliqueVec (PlainOf K)) (e : Clique × Factor (PlainOf K)) =>
    let (cl, f) := e
    let mine := meas.filter (fun m => groupOf d cliques m.proj == some cl)
    let (loss, g) := mine.foldl (fun (lg : PlainOf K × Factor (PlainOf K)) m =>
      (Scalar.add lg.1 (ls m f), lg.2.iadd (gf m f))) (acc.1, Factor.zeros f.dom)
    (loss, acc.2 ++ [(cl, g)])) (a, L)

theorem foldG_eq (d : Dom) (cliques : List Clique) (meas : List (Meas (PlainOf K)))
    (mu : CliqueVec (PlainOf K)) (a : PlainOf K) (L : CliqueVec (PlainOf K)) :
    foldG ls gf d cliques meas mu a L
    = (⟨a.v + (mu.map (fun e => ((mineOf d cliques meas e.1).map (fun m => (ls m e.2).v)).sum)).sum⟩,
       L ++ mu.map (fun e => (e.1, gradAccG gf (mineOf d cliques meas e.1) e.2 (Factor.zeros e.2.dom)))) := by
  unfold foldG
  induction mu generalizing a L with
  | nil => simp
  | cons e mu ih =>
    obtain ⟨cl, f⟩ := e
    rw [List.foldl_cons]
    have hstep := inner_foldG ls gf (mineOf d cliques meas cl) f a (Factor.zeros f.dom)
    simp only [mineOf] at hstep
    simp only [hstep]
    rw [ih]
    simp only [List.map_cons, List.sum_cons, add_assoc, List.append_assoc, List.singleton_append,
      mineOf]

/-- the accumulated gradient: well-formed, on the clique's domain, cell by cell the sum of the
measurements' gradient factors -/
theorem gradAccG_spec (mine : List (Meas (PlainOf K))) (f g0 : Factor (PlainOf K))
    (hfd : f.dom.WF) (hg0 : g0.WF) (hd0 : g0.dom = f.dom)
    (hgf : ∀ m ∈ mine, (gf m f).WF ∧ (gf m f).dom = f.dom.project m.proj)
    (hok : ∀ m ∈ mine, m.proj.Nodup ∧ ∀ a ∈ m.proj, a ∈ f.dom.attrs) :
    (gradAccG gf mine f g0).WF ∧ (gradAccG gf mine f g0).dom = f.dom ∧
      ∀ cell ∈ cells f.dom.shape, tab (gradAccG gf mine f g0) cell
        = tab g0 cell + (mine.map (fun m => ((gf m f).sem (Dom.assign f.dom.attrs cell)).v)).sum := by
  induction mine generalizing g0 with
  | nil => exact ⟨hg0, hd0, fun cell _ => by simp [gradAccG]⟩
  | cons m mine ih =>
    obtain ⟨hP, hsub⟩ := hok m (by simp)
    obtain ⟨hgW, hgd⟩ := hgf m (by simp)
    have hc : g0.dom.contains (gf m f).dom = true := by
      rw [hd0, hgd, Dom.contains_iff, Dom.attrs_project]; exact hsub
    have ha : (gf m f).dom.Agrees g0.dom := by
      rw [hd0, hgd]
      intro p hp
      simp only [Dom.project, List.mem_map] at hp
      obtain ⟨a, _, rfl⟩ := hp
      rfl
    have hw1 : (g0.iadd (gf m f)).WF := iop_WF _ g0 _ hg0 hgW hc ha
    have hd1 : (g0.iadd (gf m f)).dom = f.dom := hd0
    obtain ⟨h1, h2, h3⟩ := ih (g0.iadd (gf m f)) hw1 hd1 (fun m' hm' => hgf m' (by simp [hm']))
      (fun m' hm' => hok m' (by simp [hm']))
    refine ⟨h1, h2, ?_⟩
    intro cell hcell
    have := h3 cell hcell
    show tab (gradAccG gf mine f (g0.iadd (gf m f))) cell = _
    rw [this, tab_iadd g0 _ hg0 hgW hc ha cell (by rw [hd0]; exact hcell), hd0]
    simp only [List.map_cons, List.sum_cons]
    ring

/-- pairing of a clique's accumulated gradient with a direction -/
theorem gradAccG_pair (mine : List (Meas (PlainOf K))) (f hc : Factor (PlainOf K))
    (hf : f.WF) (hh : hc.WF) (hd : hc.dom = f.dom)
    (hgf : ∀ m ∈ mine, (gf m f).WF ∧ (gf m f).dom = f.dom.project m.proj)
    (hok : ∀ m ∈ mine, m.proj.Nodup ∧ ∀ a ∈ m.proj, a ∈ f.dom.attrs) :
    vdot (vals (gradAccG gf mine f (Factor.zeros f.dom))) (vals hc)
      = (mine.map (fun m => vdot (vals (gf m f)) (xOf m hc))).sum := by
  obtain ⟨h1, h2, h3⟩ := gradAccG_spec gf mine f (Factor.zeros f.dom) hf.1 (zeros_WF _ hf.1) rfl hgf hok
  rw [vals_eq _ h1, vals_eq hc hh, h2, hd, vdot_map_map]
  have e1 : (cells f.dom.shape).map (fun cell => tab (gradAccG gf mine f (Factor.zeros f.dom)) cell * tab hc cell)
      = (cells f.dom.shape).map (fun cell =>
          (mine.map (fun m => ((gf m f).sem (Dom.assign f.dom.attrs cell)).v * tab hc cell)).sum) := by
    apply List.map_congr_left
    intro cell hcell
    rw [h3 cell hcell, tab_zeros, zero_add, mul_comm, ← list_sum_map_mul_left]
    apply congrArg
    apply List.map_congr_left
    intro m _
    ring
  rw [e1, list_sum_comm]
  apply congrArg
  apply List.map_congr_left
  intro m hm
  obtain ⟨hP, hsub⟩ := hok m hm
  obtain ⟨hgW, hgd⟩ := hgf m hm
  have := adjoint (gf m f) hc hgW hh m.proj hP (by rw [hd]; exact hsub) (by rw [hd]; exact hgd)
  rw [hd] at this
  exact this

end Generic

/-! ### the L1 instance -/

/-- the model's L1 loss of one measurement -/
def lossS1 (m : Meas (PlainOf K)) (f : Factor (PlainOf K)) : PlainOf K :=
  Scalar.sum ((residual m f).map absS)

/-- the model's L1 gradient factor of one measurement -/
def gradF1 (m : Meas (PlainOf K)) (f : Factor (PlainOf K)) : Factor (PlainOf K) :=
  Factor.mk' (f.dom.project m.proj) ⟨(f.dom.project m.proj).shape,
    ((matTVec m.Q (f.dom.project m.proj).size ((residual m f).map signS)).map
      (fun v => Scalar.mul (Scalar.div Scalar.one m.noise) v)).toArray⟩

theorem marginalLossL1_foldG (d : Dom) (cliques : List Clique) (meas : List (Meas (PlainOf K)))
    (mu : CliqueVec (PlainOf K)) :
    marginalLossL1 d cliques meas mu = foldG lossS1 gradF1 d cliques meas mu Scalar.zero [] := rfl

theorem marginalLossL1_eq (d : Dom) (cliques : List Clique) (meas : List (Meas (PlainOf K)))
    (mu : CliqueVec (PlainOf K)) :
    marginalLossL1 d cliques meas mu
      = (⟨(mu.map (fun e => ((mineOf d cliques meas e.1).map (fun m => (lossS1 m e.2).v)).sum)).sum⟩,
         mu.map (fun e => (e.1, gradAccG gradF1 (mineOf d cliques meas e.1) e.2 (Factor.zeros e.2.dom)))) := by
  rw [marginalLossL1_foldG, foldG_eq]
  simp

/-- the L2 objective is the same fold with the L2 terms (the regrouping argument is shared) -/
theorem marginalLoss_foldG (d : Dom) (cliques : List Clique) (meas : List (Meas (PlainOf K)))
    (mu : CliqueVec (PlainOf K)) :
    marginalLoss d cliques meas mu = foldG lossS gradF d cliques meas mu Scalar.zero [] := rfl

theorem gradF1_dom (m : Meas (PlainOf K)) (f : Factor (PlainOf K)) :
    (gradF1 m f).dom = f.dom.project m.proj := rfl

theorem gradF1_WF (m : Meas (PlainOf K)) (f : Factor (PlainOf K)) (hP : m.proj.Nodup) : (gradF1 m f).WF := by
  refine ⟨?_, rfl, ?_⟩
  · show (f.dom.project m.proj).attrs.Nodup
    rw [Dom.attrs_project]; exact hP
  · show (((matTVec m.Q (f.dom.project m.proj).size ((residual m f).map signS)).map _).toArray).size
      = size (f.dom.project m.proj).shape
    simp [matTVec, Dom.size]

theorem vals_gradF1 (m : Meas (PlainOf K)) (f : Factor (PlainOf K)) :
    vals (gradF1 m f) = (List.range (f.dom.project m.proj).size).map
      (fun j => (1 * (m.noise.v)⁻¹) * colS m.Q ((residual m f).map signS) j) := by
  unfold vals gradF1 Factor.datavector Factor.mk' NdArr.reshape
  simp only
  exact matTVec_v m.Q _ ((residual m f).map signS) (Scalar.div Scalar.one m.noise)

end PGM.LossAux
