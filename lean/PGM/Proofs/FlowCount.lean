import PGM.Proofs.FlowSound
/-!
# Counting the primitives a `Flow.Stmt` executes (helpers of `Properties/C05L.lean`)

`exec` (`Proofs/FlowSound.lean`) already records every `release` / `select` in `State.trace`, in execution order, with the
outcomes of the primitives supplied by the oracle and the iterated lists by `Interp.elems`.  This file counts them.

* `Kind`, `State.kinds`, `countReleases`, `countSelects` — the observable shape of a trace;
* `shape p = some sh` — a syntactic analysis: every path through `p` (no event-bearing loop, no `ret`) performs exactly the
  kinds `sh`, in this order (`ite` needs the same shape on both branches; loops are accepted when their body is silent);
  `shape_sound`;
* `forIn_fold_gen`, `forIn_kinds`, `forIn_counts` — a `forIn` over a list of length `n` whose body makes exactly `k`
  releases and `j` selects on every path makes `n·k` releases and `n·j` selects;
* `ite_counts`; `WhileIters`, `while_kinds`, `while_counts` — a `while` under a stated iteration count;
* `writes`, `exec_env_not_writes` — variables a statement does not assign keep their value;
* `flat`, `RunL` — a (right-nested) sequence as the list of its statements, with the intermediate states.
-/
namespace PGM.Flow

variable {Val : Type}

inductive Kind where
  | rel | sel
  deriving DecidableEq, Repr

def Event.kind : Event Val → Kind
  | .rel _ => .rel
  | .sel _ => .sel

def kindsOf (t : List (Event Val)) : List Kind := t.map Event.kind

/-- the kinds of the primitives performed so far, in execution order -/
def State.kinds (s : State Val) : List Kind := kindsOf s.trace

def countReleases (t : List (Event Val)) : Nat := (kindsOf t).count .rel
def countSelects (t : List (Event Val)) : Nat := (kindsOf t).count .sel

theorem kindsOf_append (a b : List (Event Val)) : kindsOf (a ++ b) = kindsOf a ++ kindsOf b := by
  simp [kindsOf]

@[simp] theorem State.kinds_setVar (s : State Val) (x : String) (v : Val) : (s.setVar x v).kinds = s.kinds := rfl
@[simp] theorem State.ret_setVar (s : State Val) (x : String) (v : Val) : (s.setVar x v).ret = s.ret := rfl
@[simp] theorem State.env_setVar (s : State Val) (x : String) (v : Val) (y : String) :
    (s.setVar x v).env y = if y = x then v else s.env y := rfl

theorem count_flatten_replicate (n : Nat) (sh : List Kind) (k : Kind) :
    ((List.replicate n sh).flatten).count k = n * sh.count k := by
  induction n with
  | zero => simp
  | succ n ih => simp [List.replicate_succ, List.count_append, ih, Nat.succ_mul, Nat.add_comm]

theorem flatMap_const_eq (vs : List Val) (sh : List Kind) :
    vs.flatMap (fun _ => sh) = (List.replicate vs.length sh).flatten := by
  induction vs with
  | nil => rfl
  | cons v vs ih => simp [List.flatMap_cons, List.replicate_succ, ih]

/-! ## the syntactic analysis -/

/-- `some sh`: every complete path through the statement performs exactly the primitives `sh` (and does not return);
`none`: the analysis does not apply (an event-bearing loop, a `ret`, or branches of different shape) -/
def shape : Stmt → Option (List Kind)
  | .skip => some []
  | .assign _ _ => some []
  | .release _ _ _ => some [.rel]
  | .select _ _ _ => some [.sel]
  | .seq a b =>
    match shape a, shape b with
    | some x, some y => some (x ++ y)
    | _, _ => none
  | .ite _ a b =>
    match shape a, shape b with
    | some x, some y => if x = y then some x else none
    | _, _ => none
  | .forIn _ _ b =>
    match shape b with
    | some [] => some []
    | _ => none
  | .while _ b =>
    match shape b with
    | some [] => some []
    | _ => none
  | .ret _ => none

def shapeL : List Stmt → Option (List Kind)
  | [] => some []
  | a :: as =>
    match shape a, shapeL as with
    | some x, some y => some (x ++ y)
    | _, _ => none

/-- the variables a statement may assign -/
def writes : Stmt → List String
  | .assign x _ => [x]
  | .release x _ _ => [x]
  | .select x _ _ => [x]
  | .seq a b => writes a ++ writes b
  | .ite _ a b => writes a ++ writes b
  | .forIn x _ b => x :: writes b
  | .while _ b => writes b
  | _ => []

/-- a right-nested sequence as the list of its statements -/
def flat : Stmt → List Stmt
  | .seq a b => flat a ++ flat b
  | s => [s]

section
variable (I : Interp Val) (oracle : Nat → Val)

/-! ## unfolding -/

theorem exec_pos {f : Nat} {p : Stmt} {s t : State Val} (h : exec I oracle f p s = some t) : ∃ f', f = f' + 1 := by
  cases f with
  | zero => simp [exec] at h
  | succ f => exact ⟨f, rfl⟩

theorem exec_one_of_ret (p : Stmt) {s : State Val} (hr : s.ret.isSome = true) : exec I oracle 1 p s = some s := by
  simp only [exec, hr, if_true]

theorem exec_seq_inv {f : Nat} {a b : Stmt} {s t : State Val} (hs : s.ret = none)
    (h : exec I oracle (f + 1) (.seq a b) s = some t) :
    ∃ m, exec I oracle f a s = some m ∧ exec I oracle f b m = some t := by
  rw [exec_succ I oracle hs] at h
  simp only [] at h
  cases e : exec I oracle f a s with
  | none => rw [e] at h; cases h
  | some m => rw [e, Option.bind_some] at h; exact ⟨m, rfl, h⟩

theorem exec_assign_inv {f : Nat} {x : String} {e : Expr} {s t : State Val} (hs : s.ret = none)
    (h : exec I oracle f (.assign x e) s = some t) : t = s.setVar x (evalE I s.env e) := by
  obtain ⟨f', rfl⟩ := exec_pos I oracle h
  rw [exec_succ I oracle hs] at h
  exact (Option.some.inj h).symm

/-! ## loops: one general fold lemma -/

/-- the general `forIn` lemma: `Q done s` is maintained, where `done` is the list of elements already processed -/
theorem forIn_fold_gen {f : Nat} {x : String} {body : Stmt} (Q : List Val → State Val → Prop)
    (hbody : ∀ done v s t, Q done s → s.ret = none → exec I oracle f body (s.setVar x v) = some t → Q (done ++ [v]) t)
    (hskip : ∀ done v s, Q done s → s.ret.isSome = true → Q (done ++ [v]) s) :
    ∀ (vs done : List Val) (s t : State Val), Q done s →
      vs.foldl (fun acc v => acc.bind (fun s' =>
        if s'.ret.isSome then some s' else exec I oracle f body (s'.setVar x v))) (some s) = some t →
      Q (done ++ vs) t
  | [], done, s, t, hq, h => by
    simp only [List.foldl_nil, Option.some.injEq] at h
    subst h; simpa using hq
  | v :: vs, done, s, t, hq, h => by
    simp only [List.foldl_cons, Option.bind_some] at h
    have e : done ++ v :: vs = (done ++ [v]) ++ vs := by simp
    rw [e]
    by_cases hr : s.ret.isSome = true
    · simp only [hr, if_true] at h
      exact forIn_fold_gen Q hbody hskip vs (done ++ [v]) s t (hskip done v s hq hr) h
    · have hr' : s.ret = none := by simpa using hr
      simp only [hr', Option.isSome_none, Bool.false_eq_true, if_false] at h
      cases e₁ : exec I oracle f body (s.setVar x v) with
      | none => rw [e₁, foldl_bind_none] at h; cases h
      | some b =>
        rw [e₁] at h
        exact forIn_fold_gen Q hbody hskip vs (done ++ [v]) b t (hbody done v s b hq hr' e₁) h

/-- `forIn` whose body, started in a state satisfying `Inv`, performs the kinds `g v` for the element `v` -/
theorem forIn_kinds {f : Nat} {x : String} {e : Expr} {body : Stmt} (Inv : State Val → Prop) (g : Val → List Kind)
    (hbody : ∀ v s t, Inv s → s.ret = none → exec I oracle f body (s.setVar x v) = some t →
      Inv t ∧ t.ret = none ∧ t.kinds = s.kinds ++ g v)
    {s t : State Val} (hInv : Inv s) (hs : s.ret = none) (h : exec I oracle (f + 1) (.forIn x e body) s = some t) :
    Inv t ∧ t.ret = none ∧ t.kinds = s.kinds ++ (I.elems (evalE I s.env e)).flatMap g := by
  rw [exec_succ I oracle hs] at h
  simp only [] at h
  have := forIn_fold_gen I oracle (f := f) (x := x) (body := body)
    (fun (done : List Val) (s' : State Val) => Inv s' ∧ s'.ret = none ∧ s'.kinds = s.kinds ++ done.flatMap g)
    (by
      intro done v a b ⟨hi, _, hk⟩ ha hb
      obtain ⟨hi', hr', hk'⟩ := hbody v a b hi ha hb
      exact ⟨hi', hr', by rw [hk', hk]; simp [List.flatMap_append]⟩)
    (by
      intro done v a ⟨_, hr, _⟩ hr'
      rw [hr] at hr'; cases hr')
    (I.elems (evalE I s.env e)) [] s t ⟨hInv, hs, by simp⟩ h
  simpa using this

/-- **`forIn` over a list of length `n` whose body makes exactly `k` releases and `j` selects on every path makes `n·k`
releases and `n·j` selects** -/
theorem forIn_counts {f : Nat} {x : String} {e : Expr} {body : Stmt} (k j : Nat)
    (hbody : ∀ (v : Val) (s t : State Val), s.ret = none → exec I oracle f body (s.setVar x v) = some t →
      t.ret = none ∧ countReleases t.trace = countReleases s.trace + k ∧ countSelects t.trace = countSelects s.trace + j)
    {s t : State Val} (hs : s.ret = none) (h : exec I oracle (f + 1) (.forIn x e body) s = some t) :
    t.ret = none ∧
    countReleases t.trace = countReleases s.trace + (I.elems (evalE I s.env e)).length * k ∧
    countSelects t.trace = countSelects s.trace + (I.elems (evalE I s.env e)).length * j := by
  rw [exec_succ I oracle hs] at h
  simp only [] at h
  have := forIn_fold_gen I oracle (f := f) (x := x) (body := body)
    (fun (done : List Val) (s' : State Val) => s'.ret = none ∧
      countReleases s'.trace = countReleases s.trace + done.length * k ∧
      countSelects s'.trace = countSelects s.trace + done.length * j)
    (by
      intro done v a b ⟨_, h1, h2⟩ ha hb
      obtain ⟨hr', h1', h2'⟩ := hbody v a b ha hb
      refine ⟨hr', ?_, ?_⟩
      · rw [h1', h1]; simp only [List.length_append, List.length_cons, List.length_nil, Nat.add_mul]; omega
      · rw [h2', h2]; simp only [List.length_append, List.length_cons, List.length_nil, Nat.add_mul]; omega)
    (by
      intro done v a ⟨hr, _, _⟩ hr'
      rw [hr] at hr'; cases hr')
    (I.elems (evalE I s.env e)) [] s t ⟨hs, by simp, by simp⟩ h
  simpa using this

/-- `ite` with equal counts on both branches -/
theorem ite_counts {f : Nat} {c : Expr} {a b : Stmt} (P : State Val → State Val → Prop)
    (ha : ∀ s t, s.ret = none → exec I oracle f a s = some t → P s t)
    (hb : ∀ s t, s.ret = none → exec I oracle f b s = some t → P s t)
    {s t : State Val} (hs : s.ret = none) (h : exec I oracle (f + 1) (.ite c a b) s = some t) : P s t := by
  rw [exec_succ I oracle hs] at h
  simp only [] at h
  by_cases hc : I.truthy (evalE I s.env c) = true
  · simp only [hc, if_true] at h; exact ha s t hs h
  · simp only [hc, Bool.false_eq_true, if_false] at h; exact hb s t hs h

/-- the `while` loop ran exactly `n` iterations from `s` to `t` (guard true `n` times, then false) -/
inductive WhileIters (c : Expr) (body : Stmt) : Nat → State Val → State Val → Prop
  | stop (s : State Val) : I.truthy (evalE I s.env c) = false → WhileIters c body 0 s s
  | step {n : Nat} {s m t : State Val} (f : Nat) : I.truthy (evalE I s.env c) = true →
      exec I oracle f body s = some m → m.ret = none → WhileIters c body n m t → WhileIters c body (n + 1) s t

/-- `while` whose body performs the kinds `sh` on every path: some number `n` of iterations, `n` copies of `sh` -/
theorem while_kinds {c : Expr} {body : Stmt} (Inv : State Val → Prop) (sh : List Kind)
    (hbody : ∀ f s t, Inv s → s.ret = none → I.truthy (evalE I s.env c) = true → exec I oracle f body s = some t →
      Inv t ∧ t.ret = none ∧ t.kinds = s.kinds ++ sh) :
    ∀ (f : Nat) (s t : State Val), Inv s → s.ret = none → exec I oracle f (.while c body) s = some t →
      ∃ n, WhileIters I oracle c body n s t ∧ Inv t ∧ t.ret = none ∧ t.kinds = s.kinds ++ (List.replicate n sh).flatten
  | 0, _, _, _, _, h => by simp [exec] at h
  | f + 1, s, t, hInv, hs, h => by
    rw [exec_succ I oracle hs] at h
    simp only [] at h
    by_cases hc : I.truthy (evalE I s.env c) = true
    · simp only [hc, if_true] at h
      cases e₁ : exec I oracle f body s with
      | none => rw [e₁] at h; cases h
      | some m =>
        rw [e₁, Option.bind_some] at h
        obtain ⟨hi, hr, hk⟩ := hbody f s m hInv hs hc e₁
        obtain ⟨n, hw, hi', hr', hk'⟩ := while_kinds Inv sh hbody f m t hi hr h
        exact ⟨n + 1, .step f hc e₁ hr hw, hi', hr', by rw [hk', hk]; simp [List.replicate_succ]⟩
    · have hc' : I.truthy (evalE I s.env c) = false := by simpa using hc
      simp only [hc', Bool.false_eq_true, if_false, Option.some.injEq] at h
      subst h
      exact ⟨0, .stop s hc', hInv, hs, by simp⟩

/-- **`while` under a stated iteration count**: `n` iterations of a body that makes exactly `k` releases and `j` selects -/
theorem while_counts {c : Expr} {body : Stmt} (k j : Nat)
    (hbody : ∀ f s t, s.ret = none → exec I oracle f body s = some t →
      countReleases t.trace = countReleases s.trace + k ∧ countSelects t.trace = countSelects s.trace + j)
    {n : Nat} {s t : State Val} (hs : s.ret = none) (h : WhileIters I oracle c body n s t) :
    countReleases t.trace = countReleases s.trace + n * k ∧ countSelects t.trace = countSelects s.trace + n * j := by
  induction h with
  | stop s _ => simp
  | step f hc hb hr _ ih =>
    obtain ⟨h1, h2⟩ := hbody f _ _ hs hb
    obtain ⟨i1, i2⟩ := ih hr
    refine ⟨?_, ?_⟩
    · rw [i1, h1, Nat.succ_mul]; omega
    · rw [i2, h2, Nat.succ_mul]; omega

/-! ## soundness of `shape` -/

/-- every run of `p` from a state that has not returned performs exactly `sh` and does not return -/
def Performs (p : Stmt) (sh : List Kind) : Prop :=
  ∀ (f : Nat) (s t : State Val), s.ret = none → exec I oracle f p s = some t → t.ret = none ∧ t.kinds = s.kinds ++ sh

theorem shape_sound : ∀ (p : Stmt) (sh : List Kind), shape p = some sh → Performs I oracle p sh := by
  intro p
  induction p with
  | skip =>
    intro sh hsh f s t hs h
    obtain ⟨f, rfl⟩ := exec_pos I oracle h
    rw [exec_succ I oracle hs] at h
    simp only [shape, Option.some.injEq] at hsh
    cases Option.some.inj h; subst hsh; exact ⟨hs, by simp⟩
  | assign x e =>
    intro sh hsh f s t hs h
    obtain ⟨f, rfl⟩ := exec_pos I oracle h
    rw [exec_succ I oracle hs] at h
    simp only [shape, Option.some.injEq] at hsh
    cases Option.some.inj h; subst hsh; exact ⟨hs, by simp⟩
  | release x operand scale =>
    intro sh hsh f s t hs h
    obtain ⟨f, rfl⟩ := exec_pos I oracle h
    rw [exec_succ I oracle hs] at h
    simp only [shape, Option.some.injEq] at hsh
    cases Option.some.inj h; subst hsh
    exact ⟨hs, by simp [State.kinds, kindsOf, Event.kind]⟩
  | select x scores params =>
    intro sh hsh f s t hs h
    obtain ⟨f, rfl⟩ := exec_pos I oracle h
    rw [exec_succ I oracle hs] at h
    simp only [shape, Option.some.injEq] at hsh
    cases Option.some.inj h; subst hsh
    exact ⟨hs, by simp [State.kinds, kindsOf, Event.kind]⟩
  | seq a b iha ihb =>
    intro sh hsh f s t hs h
    obtain ⟨f, rfl⟩ := exec_pos I oracle h
    simp only [shape] at hsh
    cases ha : shape a with
    | none => simp [ha] at hsh
    | some x =>
      cases hb : shape b with
      | none => simp [ha, hb] at hsh
      | some y =>
        simp only [ha, hb, Option.some.injEq] at hsh
        subst hsh
        obtain ⟨m, h1, h2⟩ := exec_seq_inv I oracle hs h
        obtain ⟨hr1, hk1⟩ := iha x ha f s m hs h1
        obtain ⟨hr2, hk2⟩ := ihb y hb f m t hr1 h2
        exact ⟨hr2, by rw [hk2, hk1, List.append_assoc]⟩
  | ite c a b iha ihb =>
    intro sh hsh f s t hs h
    obtain ⟨f, rfl⟩ := exec_pos I oracle h
    simp only [shape] at hsh
    cases ha : shape a with
    | none => simp [ha] at hsh
    | some x =>
      cases hb : shape b with
      | none => simp [ha, hb] at hsh
      | some y =>
        simp only [ha, hb] at hsh
        by_cases hxy : x = y
        · subst hxy
          simp only [if_true, Option.some.injEq] at hsh
          subst hsh
          exact ite_counts I oracle (fun s t => t.ret = none ∧ t.kinds = s.kinds ++ x)
            (fun s t hs h => iha x ha f s t hs h) (fun s t hs h => ihb x hb f s t hs h) hs h
        · simp [hxy] at hsh
  | forIn x e body ih =>
    intro sh hsh f s t hs h
    obtain ⟨f, rfl⟩ := exec_pos I oracle h
    simp only [shape] at hsh
    cases hb : shape body with
    | none => simp [hb] at hsh
    | some l =>
      cases l with
      | cons k l => simp [hb] at hsh
      | nil =>
        simp only [hb, Option.some.injEq] at hsh
        subst hsh
        have := forIn_kinds I oracle (fun _ => True) (fun _ => [])
          (fun v a b _ ha hab => ⟨trivial, ih [] hb f _ b (by simpa using ha) hab |>.1,
            by simpa using (ih [] hb f _ b (by simpa using ha) hab).2⟩) trivial hs h
        have e0 : ∀ l : List Val, l.flatMap (fun _ => ([] : List Kind)) = [] := by
          intro l; induction l with
          | nil => rfl
          | cons v l ihl => simp [List.flatMap_cons, ihl]
        exact ⟨this.2.1, by simpa [e0] using this.2.2⟩
  | «while» c body ih =>
    intro sh hsh f s t hs h
    simp only [shape] at hsh
    cases hb : shape body with
    | none => simp [hb] at hsh
    | some l =>
      cases l with
      | cons k l => simp [hb] at hsh
      | nil =>
        simp only [hb, Option.some.injEq] at hsh
        subst hsh
        obtain ⟨n, _, _, hr, hk⟩ := while_kinds I oracle (fun _ => True) []
          (fun f a b _ ha _ hab => ⟨trivial, ih [] hb f a b ha hab⟩) f s t trivial hs h
        refine ⟨hr, ?_⟩
        rw [hk]
        have : ((List.replicate n ([] : List Kind)).flatten) = [] := by
          induction n with
          | zero => rfl
          | succ n ihn => simp [List.replicate_succ]
        rw [this]
  | ret e =>
    intro sh hsh
    simp [shape] at hsh

/-- counts of a statement with a shape -/
theorem shape_counts {p : Stmt} {sh : List Kind} (hsh : shape p = some sh) {f : Nat} {s t : State Val}
    (hs : s.ret = none) (h : exec I oracle f p s = some t) :
    t.ret = none ∧ countReleases t.trace = countReleases s.trace + sh.count .rel ∧
      countSelects t.trace = countSelects s.trace + sh.count .sel := by
  obtain ⟨hr, hk⟩ := shape_sound I oracle p sh hsh f s t hs h
  refine ⟨hr, ?_, ?_⟩
  · show t.kinds.count .rel = s.kinds.count .rel + _
    rw [hk, List.count_append]
  · show t.kinds.count .sel = s.kinds.count .sel + _
    rw [hk, List.count_append]

/-! ## unassigned variables -/

theorem exec_env_not_writes (x : String) : ∀ (p : Stmt), x ∉ writes p → ∀ (f : Nat) (s t : State Val),
    exec I oracle f p s = some t → t.env x = s.env x := by
  intro p
  induction p with
  | skip =>
    intro _ f s t h
    by_cases hr : s.ret.isSome = true
    · rw [exec_of_ret I oracle h hr]
    · have hs : s.ret = none := by simpa using hr
      obtain ⟨f, rfl⟩ := exec_pos I oracle h
      rw [exec_succ I oracle hs] at h
      cases Option.some.inj h; rfl
  | assign y e =>
    intro hx f s t h
    by_cases hr : s.ret.isSome = true
    · rw [exec_of_ret I oracle h hr]
    · have hs : s.ret = none := by simpa using hr
      obtain ⟨f, rfl⟩ := exec_pos I oracle h
      rw [exec_succ I oracle hs] at h
      cases Option.some.inj h
      have : x ≠ y := by simpa [writes] using hx
      simp [this]
  | release y operand scale =>
    intro hx f s t h
    by_cases hr : s.ret.isSome = true
    · rw [exec_of_ret I oracle h hr]
    · have hs : s.ret = none := by simpa using hr
      obtain ⟨f, rfl⟩ := exec_pos I oracle h
      rw [exec_succ I oracle hs] at h
      cases Option.some.inj h
      have : x ≠ y := by simpa [writes] using hx
      simp [State.setVar, this]
  | select y scores params =>
    intro hx f s t h
    by_cases hr : s.ret.isSome = true
    · rw [exec_of_ret I oracle h hr]
    · have hs : s.ret = none := by simpa using hr
      obtain ⟨f, rfl⟩ := exec_pos I oracle h
      rw [exec_succ I oracle hs] at h
      cases Option.some.inj h
      have : x ≠ y := by simpa [writes] using hx
      simp [State.setVar, this]
  | seq a b iha ihb =>
    intro hx f s t h
    by_cases hr : s.ret.isSome = true
    · rw [exec_of_ret I oracle h hr]
    · have hs : s.ret = none := by simpa using hr
      obtain ⟨f, rfl⟩ := exec_pos I oracle h
      obtain ⟨m, h1, h2⟩ := exec_seq_inv I oracle hs h
      simp only [writes, List.mem_append, not_or] at hx
      rw [ihb hx.2 f m t h2, iha hx.1 f s m h1]
  | ite c a b iha ihb =>
    intro hx f s t h
    by_cases hr : s.ret.isSome = true
    · rw [exec_of_ret I oracle h hr]
    · have hs : s.ret = none := by simpa using hr
      obtain ⟨f, rfl⟩ := exec_pos I oracle h
      simp only [writes, List.mem_append, not_or] at hx
      exact ite_counts I oracle (fun s t => t.env x = s.env x)
        (fun s t _ h => iha hx.1 f s t h) (fun s t _ h => ihb hx.2 f s t h) hs h
  | forIn y e body ih =>
    intro hx f s t h
    by_cases hr : s.ret.isSome = true
    · rw [exec_of_ret I oracle h hr]
    · have hs : s.ret = none := by simpa using hr
      obtain ⟨f, rfl⟩ := exec_pos I oracle h
      simp only [writes, List.mem_cons, not_or] at hx
      rw [exec_succ I oracle hs] at h
      simp only [] at h
      exact forIn_fold_gen I oracle (f := f) (x := y) (body := body) (fun _ s' => s'.env x = s.env x)
        (by
          intro done v a b ha _ hab
          rw [ih hx.2 f _ b hab]
          simp [hx.1, ha])
        (fun _ _ _ ha _ => ha) (I.elems (evalE I s.env e)) [] s t rfl h
  | «while» c body ih =>
    intro hx f
    induction f with
    | zero => intro s t h; simp [exec] at h
    | succ f ihf =>
      intro s t h
      by_cases hr : s.ret.isSome = true
      · rw [exec_of_ret I oracle h hr]
      · have hs : s.ret = none := by simpa using hr
        rw [exec_succ I oracle hs] at h
        simp only [] at h
        by_cases hc : I.truthy (evalE I s.env c) = true
        · simp only [hc, if_true] at h
          cases e₁ : exec I oracle f body s with
          | none => rw [e₁] at h; cases h
          | some m =>
            rw [e₁, Option.bind_some] at h
            rw [ihf m t h, ih (by simpa [writes] using hx) f s m e₁]
        · simp only [hc, Bool.false_eq_true, if_false, Option.some.injEq] at h
          subst h; rfl
  | ret e =>
    intro _ f s t h
    by_cases hr : s.ret.isSome = true
    · rw [exec_of_ret I oracle h hr]
    · have hs : s.ret = none := by simpa using hr
      obtain ⟨f, rfl⟩ := exec_pos I oracle h
      rw [exec_succ I oracle hs] at h
      cases Option.some.inj h; rfl

/-! ## a sequence as a list of statements -/

/-- the statements of the list run one after the other (each with some fuel), from `s` to `t` -/
inductive RunL : List Stmt → State Val → State Val → Prop
  | nil (s : State Val) : RunL [] s s
  | cons {a : Stmt} {as : List Stmt} {s m t : State Val} (f : Nat) :
      exec I oracle f a s = some m → RunL as m t → RunL (a :: as) s t

theorem RunL.append {as bs : List Stmt} {s m t : State Val} (h₁ : RunL I oracle as s m) (h₂ : RunL I oracle bs m t) :
    RunL I oracle (as ++ bs) s t := by
  induction h₁ with
  | nil s => exact h₂
  | cons f he _ ih => exact .cons f he (ih h₂)

theorem RunL.of_append : ∀ {as bs : List Stmt} {s t : State Val}, RunL I oracle (as ++ bs) s t →
    ∃ m, RunL I oracle as s m ∧ RunL I oracle bs m t
  | [], _, s, _, h => ⟨s, .nil s, h⟩
  | a :: as, bs, s, t, h => by
    cases h with
    | cons f he hr =>
      obtain ⟨m, h1, h2⟩ := RunL.of_append hr
      exact ⟨m, .cons f he h1, h2⟩

theorem RunL.of_ret {s : State Val} (hr : s.ret.isSome = true) : ∀ l : List Stmt, RunL I oracle l s s
  | [] => .nil s
  | a :: as => .cons 1 (exec_one_of_ret I oracle a hr) (RunL.of_ret hr as)

theorem RunL.single {a : Stmt} {s t : State Val} (h : RunL I oracle [a] s t) : ∃ f, exec I oracle f a s = some t := by
  cases h with
  | cons f he hr => cases hr; exact ⟨f, he⟩

theorem RunL.cons_inv {a : Stmt} {as : List Stmt} {s t : State Val} (h : RunL I oracle (a :: as) s t) :
    ∃ f m, exec I oracle f a s = some m ∧ RunL I oracle as m t := by
  cases h with
  | cons f he hr => exact ⟨f, _, he, hr⟩

theorem runL_of_exec : ∀ (p : Stmt) (f : Nat) (s t : State Val), exec I oracle f p s = some t → RunL I oracle (flat p) s t := by
  intro p
  induction p with
  | seq a b iha ihb =>
    intro f s t h
    by_cases hr : s.ret.isSome = true
    · rw [exec_of_ret I oracle h hr]; exact RunL.of_ret I oracle hr _
    · have hs : s.ret = none := by simpa using hr
      obtain ⟨f, rfl⟩ := exec_pos I oracle h
      obtain ⟨m, h1, h2⟩ := exec_seq_inv I oracle hs h
      exact RunL.append I oracle (iha f s m h1) (ihb f m t h2)
  | skip => intro f s t h; exact .cons f h (.nil _)
  | assign x e => intro f s t h; exact .cons f h (.nil _)
  | release x o sc => intro f s t h; exact .cons f h (.nil _)
  | select x o ps => intro f s t h; exact .cons f h (.nil _)
  | ite c a b _ _ => intro f s t h; exact .cons f h (.nil _)
  | forIn x e b _ => intro f s t h; exact .cons f h (.nil _)
  | «while» c b _ => intro f s t h; exact .cons f h (.nil _)
  | ret e => intro f s t h; exact .cons f h (.nil _)

theorem RunL.shape : ∀ {l : List Stmt} {sh : List Kind} {s t : State Val}, shapeL l = some sh → s.ret = none →
    RunL I oracle l s t → t.ret = none ∧ t.kinds = s.kinds ++ sh
  | [], sh, s, t, hsh, hs, h => by
    cases h
    simp only [shapeL, Option.some.injEq] at hsh
    subst hsh; exact ⟨hs, by simp⟩
  | a :: as, sh, s, t, hsh, hs, h => by
    obtain ⟨f, m, he, hr⟩ := RunL.cons_inv I oracle h
    simp only [shapeL] at hsh
    cases ha : Flow.shape a with
    | none => simp [ha] at hsh
    | some x =>
      cases hb : shapeL as with
      | none => simp [ha, hb] at hsh
      | some y =>
        simp only [ha, hb, Option.some.injEq] at hsh
        subst hsh
        obtain ⟨hr1, hk1⟩ := shape_sound I oracle a x ha f s m hs he
        obtain ⟨hr2, hk2⟩ := RunL.shape hb hr1 hr
        exact ⟨hr2, by rw [hk2, hk1, List.append_assoc]⟩

theorem RunL.env (x : String) : ∀ {l : List Stmt} {s t : State Val}, x ∉ l.flatMap writes →
    RunL I oracle l s t → t.env x = s.env x
  | [], s, t, _, h => by cases h; rfl
  | a :: as, s, t, hx, h => by
    obtain ⟨f, m, he, hr⟩ := RunL.cons_inv I oracle h
    simp only [List.flatMap_cons, List.mem_append, not_or] at hx
    rw [RunL.env x hx.2 hr, exec_env_not_writes I oracle x a hx.1 f s m he]

/-- a trailing `ret` performs no primitive -/
theorem exec_ret_kinds {f : Nat} {e : Expr} {s t : State Val} (h : exec I oracle f (.ret e) s = some t) :
    t.kinds = s.kinds := by
  by_cases hr : s.ret.isSome = true
  · rw [exec_of_ret I oracle h hr]
  · have hs : s.ret = none := by simpa using hr
    obtain ⟨f, rfl⟩ := exec_pos I oracle h
    rw [exec_succ I oracle hs] at h
    cases Option.some.inj h; rfl

/-! ## event-bearing loops inside a statement list -/

/-- a `forIn` whose body has the shape `sh`: as many copies of `sh` as the iterated list (evaluated at loop entry) has elements -/
theorem RunL.forIn_shape {x : String} {e : Expr} {body : Stmt} {sh : List Kind} (hsh : Flow.shape body = some sh)
    {s t : State Val} (hs : s.ret = none) (h : RunL I oracle [.forIn x e body] s t) :
    t.ret = none ∧ t.kinds = s.kinds ++ (List.replicate (I.elems (evalE I s.env e)).length sh).flatten := by
  obtain ⟨f, he⟩ := RunL.single I oracle h
  obtain ⟨f, rfl⟩ := exec_pos I oracle he
  have := forIn_kinds I oracle (fun _ => True) (fun _ => sh)
    (fun v a b _ ha hab => ⟨trivial, shape_sound I oracle body sh hsh f (a.setVar x v) b ha hab⟩) trivial hs he
  exact ⟨this.2.1, by rw [this.2.2, flatMap_const_eq]⟩

/-- a `while` whose body has the shape `sh`: `n` copies of `sh`, where `n` is the number of iterations of this run -/
theorem RunL.while_shape {c : Expr} {body : Stmt} {sh : List Kind} (hsh : Flow.shape body = some sh)
    {s t : State Val} (hs : s.ret = none) (h : RunL I oracle [.while c body] s t) :
    ∃ n, WhileIters I oracle c body n s t ∧ t.ret = none ∧ t.kinds = s.kinds ++ (List.replicate n sh).flatten := by
  obtain ⟨f, he⟩ := RunL.single I oracle h
  obtain ⟨n, hw, _, hr, hk⟩ := while_kinds I oracle (fun _ => True) sh
    (fun f a b _ ha _ hab => ⟨trivial, shape_sound I oracle body sh hsh f a b ha hab⟩) f s t trivial hs he
  exact ⟨n, hw, hr, hk⟩

/-- a `forIn` whose body, run from a state satisfying `Inv` with the loop variable bound to `v`, performs `g v` -/
theorem RunL.forIn_gen {x : String} {e : Expr} {body : Stmt} (Inv : State Val → Prop) (g : Val → List Kind)
    (hbody : ∀ v s t, Inv s → s.ret = none → RunL I oracle (flat body) (s.setVar x v) t →
      Inv t ∧ t.ret = none ∧ t.kinds = s.kinds ++ g v)
    {s t : State Val} (hInv : Inv s) (hs : s.ret = none) (h : RunL I oracle [.forIn x e body] s t) :
    Inv t ∧ t.ret = none ∧ t.kinds = s.kinds ++ (I.elems (evalE I s.env e)).flatMap g := by
  obtain ⟨f, he⟩ := RunL.single I oracle h
  obtain ⟨f, rfl⟩ := exec_pos I oracle he
  exact forIn_kinds I oracle Inv g
    (fun v a b hi ha hab => hbody v a b hi ha (runL_of_exec I oracle body f _ b hab)) hInv hs he

/-- a quiet block followed by an assignment: the state after it -/
theorem RunL.pre_assign {pre0 : List Stmt} {x : String} {e : Expr} (hq : shapeL pre0 = some [])
    {s t : State Val} (hs : s.ret = none) (h : RunL I oracle (pre0 ++ [.assign x e]) s t) :
    ∃ sP, RunL I oracle pre0 s sP ∧ t = sP.setVar x (evalE I sP.env e) ∧ t.ret = none ∧ t.kinds = s.kinds := by
  obtain ⟨sP, h0, h1⟩ := RunL.of_append I oracle h
  obtain ⟨hrP, hkP⟩ := RunL.shape I oracle hq hs h0
  obtain ⟨f, he⟩ := RunL.single I oracle h1
  have ht := exec_assign_inv I oracle hrP he
  exact ⟨sP, h0, ht, by rw [ht]; exact hrP, by rw [ht]; simpa using hkP⟩

/-- `A ; x := e ; B` with `A`, `B` quiet and `x` not assigned in `B`: at the end `x` holds the value of `e` in the state after
`A`, and every variable `B` does not assign (other than `x`) still has the value it had there -/
theorem RunL.assign_then_quiet {A B : List Stmt} {x : String} {e : Expr} (hA : shapeL A = some [])
    (hx : x ∉ B.flatMap writes) {s t : State Val} (hs : s.ret = none)
    (h : RunL I oracle (A ++ .assign x e :: B) s t) :
    ∃ sX, RunL I oracle A s sX ∧ sX.ret = none ∧ t.env x = evalE I sX.env e ∧
      ∀ y, y ∉ B.flatMap writes → y ≠ x → t.env y = sX.env y := by
  obtain ⟨sX, hA', hrest⟩ := RunL.of_append I oracle h
  obtain ⟨hrX, _⟩ := RunL.shape I oracle hA hs hA'
  obtain ⟨f, m, he, hB⟩ := RunL.cons_inv I oracle hrest
  have hm := exec_assign_inv I oracle hrX he
  refine ⟨sX, hA', hrX, ?_, ?_⟩
  · rw [RunL.env I oracle x hx hB, hm]; simp
  · intro y hy hyx
    rw [RunL.env I oracle y hy hB, hm]; simp [hyx]

theorem RunL.ret_kinds {e : Expr} {s t : State Val} (h : RunL I oracle [.ret e] s t) : t.kinds = s.kinds := by
  obtain ⟨f, he⟩ := RunL.single I oracle h
  exact exec_ret_kinds I oracle he

theorem RunL.assign_inv {x : String} {e : Expr} {s t : State Val} (hs : s.ret = none) (h : RunL I oracle [.assign x e] s t) :
    t = s.setVar x (evalE I s.env e) := by
  obtain ⟨f, he⟩ := RunL.single I oracle h
  exact exec_assign_inv I oracle hs he

end

/-! ## contracts for the numeric builtins that determine loop lengths -/

/-- how the opaque functions `len`, `range`, `+`, `-` and the literals `1`, `2` act on the number `num v` a value denotes and
on the list `I.elems v` it iterates as (the assumed behaviour of Python's builtins; hypotheses of the count theorems) -/
structure NumLaws (I : Interp Val) (num : Val → Nat) : Prop where
  one : num (I.lit "1") = 1
  two : num (I.lit "2") = 2
  add : ∀ a b, num (I.call "op:Add" [a, b]) = num a + num b
  sub : ∀ a b, num (I.call "op:Sub" [a, b]) = num a - num b
  len : ∀ v, num (I.call "fn:len" [v]) = (I.elems v).length
  range1 : ∀ b, (I.elems (I.call "fn:range" [b])).length = num b
  range2 : ∀ a b, (I.elems (I.call "fn:range" [a, b])).length = num b - num a

/-- leading releases of a trace shape: `replicate a rel ++ X = replicate b rel ++ Y` with `X`, `Y` not starting with a release
forces `a = b` and `X = Y` -/
theorem replicate_rel_prefix_unique : ∀ (a b : Nat) (X Y : List Kind), X.head? ≠ some .rel → Y.head? ≠ some .rel →
    List.replicate a Kind.rel ++ X = List.replicate b Kind.rel ++ Y → a = b ∧ X = Y
  | 0, 0, X, Y, _, _, h => ⟨rfl, by simpa using h⟩
  | 0, b + 1, X, Y, hX, _, h => by
    simp only [List.replicate_zero, List.nil_append, List.replicate_succ, List.cons_append] at h
    subst h; simp at hX
  | a + 1, 0, X, Y, _, hY, h => by
    simp only [List.replicate_zero, List.nil_append, List.replicate_succ, List.cons_append] at h
    subst h; simp at hY
  | a + 1, b + 1, X, Y, hX, hY, h => by
    simp only [List.replicate_succ, List.cons_append, List.cons.injEq, true_and] at h
    obtain ⟨h1, h2⟩ := replicate_rel_prefix_unique a b X Y hX hY h
    exact ⟨by rw [h1], h2⟩

theorem flatMap_replicate_eq (vs : List Val) (cnt : Val → Nat) (k : Kind) :
    vs.flatMap (fun v => List.replicate (cnt v) k) = List.replicate ((vs.map cnt).sum) k := by
  induction vs with
  | nil => rfl
  | cons v vs ih => simp [List.flatMap_cons, ih, List.replicate_append_replicate]

/-- three blocks `rel* sel+ rel*` are determined by the list -/
theorem three_blocks_unique {a b c a' b' c' : Nat} (hb : 0 < b)
    (h : List.replicate a Kind.rel ++ List.replicate b Kind.sel ++ List.replicate c Kind.rel
      = List.replicate a' Kind.rel ++ List.replicate b' Kind.sel ++ List.replicate c' Kind.rel) :
    a = a' ∧ b = b' ∧ c = c' := by
  have hbb : b = b' := by
    have := congrArg (List.count Kind.sel) h
    simpa [List.count_append, List.count_replicate] using this
  subst hbb
  rw [List.append_assoc, List.append_assoc] at h
  have hX : (List.replicate b Kind.sel ++ List.replicate c Kind.rel).head? ≠ some Kind.rel := by
    cases b with
    | zero => omega
    | succ b => simp [List.replicate_succ]
  have hY : (List.replicate b Kind.sel ++ List.replicate c' Kind.rel).head? ≠ some Kind.rel := by
    cases b with
    | zero => omega
    | succ b => simp [List.replicate_succ]
  obtain ⟨h1, h2⟩ := replicate_rel_prefix_unique a a' _ _ hX hY h
  have h3 := List.append_cancel_left h2
  have := congrArg List.length h3
  simp at this
  exact ⟨h1, rfl, this⟩

theorem length_flatten_replicate (n : Nat) (sh : List Kind) : ((List.replicate n sh).flatten).length = n * sh.length := by
  induction n with
  | zero => simp
  | succ n ih => simp [List.replicate_succ, ih, Nat.succ_mul, Nat.add_comm]

end PGM.Flow
