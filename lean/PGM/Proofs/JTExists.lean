import PGM.Proofs.JTWeight
import PGM.Proofs.JTree
import PGM.Proofs.JTExistsDefs
import PGM.Proofs.JTExistsStep
/-!
# Existence of junction trees for chordal graphs, and the full maximum-weight theorem

The definitions `IsPEO`, `IsClique`, `IsMaxCliqueFamily` live in `JTExistsDefs.lean` (moved there
verbatim so that the helper files can use them).  Proof outline:

* `JTExistsBuilt.lean` — trees built by successively attaching leaves subject to the sequential
  running-intersection condition (`Built`) pass `isTree` and `rip`, for any order of the node list;
  they can be renamed along maps that only enlarge nodes without creating new overlaps.
* `JTExistsFam.lean` — two families of maximal cliques of one graph correspond by set equality; a
  `Built` tree over one is transported to the other.
* `JTExistsStep.lean` — induction along the perfect elimination order: remove the first vertex `v`
  with neighbourhood `N`; from a `Built` tree over the maximal cliques of `g.removeNode v` obtain
  one for `g` by attaching the leaf `v :: N` (when `N` lies strictly inside a member) or by
  enlarging the member set-equal to `N` by `v`.
-/
namespace PGM.JT

/-- **chordal graphs have junction trees**: the maximal cliques of a graph with a perfect
elimination order can be arranged in a tree with the running-intersection property -/
theorem chordal_has_jt (g : Graph) (order : List Attr) (nodes : List Clique)
    (hne : g.nodes ≠ []) (hnd : g.nodes.Nodup) (hpeo : IsPEO g order) (hfam : IsMaxCliqueFamily g nodes) :
    ∃ t : Tree, t.nodes = nodes ∧ isTree t = true ∧ rip g.nodes t = true := by
  have hord : order ≠ [] := by
    obtain ⟨a, ha⟩ := List.exists_mem_of_ne_nil _ hne
    exact List.ne_nil_of_mem ((hpeo.2.1 a).mp ha)
  obtain ⟨ns, es, hb, hns⟩ := exists_built order g hnd hpeo hord
  obtain ⟨ns', es', hb', hperm⟩ := hb.transport hns hfam
  obtain ⟨h1, h2⟩ := hb'.isTree_rip g.nodes nodes hperm
  exact ⟨⟨nodes, es'⟩, rfl, h1, h2⟩

/-- **every maximum-weight spanning tree over the maximal cliques of a chordal graph is a junction
tree** — full strength: `t` is any tree over `nodes` whose weight is at least that of every other
spanning tree (the contract of `minimum_spanning_tree` on weights `−|Cᵢ ∩ Cⱼ|`) -/
theorem max_weight_tree_is_jt (g : Graph) (order : List Attr) (t : Tree)
    (hne : g.nodes ≠ []) (hnd : g.nodes.Nodup) (hpeo : IsPEO g order) (hfam : IsMaxCliqueFamily g t.nodes)
    (ht : isTree t = true)
    (hmax : ∀ t' : Tree, t'.nodes = t.nodes → isTree t' = true → weight t' ≤ weight t) :
    rip g.nodes t = true := by
  obtain ⟨t', hn, ht', hrip⟩ := chordal_has_jt g order t.nodes hne hnd hpeo hfam
  have h : TreeHyp g.nodes t :=
    ⟨hnd, fun n hn => (hfam.clique n hn).1.1, fun n hn => (hfam.clique n hn).1.2.1, ht⟩
  have h' : TreeHyp g.nodes t' :=
    ⟨hnd, fun n hn' => (hfam.clique n (hn ▸ hn')).1.1,
      fun n hn' => (hfam.clique n (hn ▸ hn')).1.2.1, ht'⟩
  exact max_weight_tree_is_jt_partial g.nodes t t' h h' hn hrip (hmax t' hn ht')

end PGM.JT
