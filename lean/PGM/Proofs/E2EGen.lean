import PGM.Generated.InferenceG
/-!
# Invariants of the GENERATED solvers (`PGM/Generated/InferenceG.lean`, tools/py2inf.py)

Fold invariants proved directly on the regenerated text of `mirror_descent`, `dual_averaging`, `interior_gradient`, for
every scalar type, every marginal oracle `bp`, every loss/gradient function `lossgrad`, every refit `mle`, every iteration
count (0 included) and every exit of the source (`ans[0] == 0`, `L == 0`, exhausted line search, normal end):

* `md_inv` — which exit is taken, that the stored pair is `(θ, bp θ)`, and that any property `Q` of parameter vectors that
  the update `θ − α·dL` preserves holds of the returned parameters;
* `rda_inv` / `ig_inv` — which exit is taken, that the stored pair is `(mle w, w)`, and that any property `R` of marginal
  vectors which the oracle's answers have and which the averaging step preserves holds of the returned `w`; for `Q` a
  property of the parameter vectors handed to the oracle (RDA: every query after the first is at `combine b zeros`;
  IG: every query is at `θ − k·g`).

Core Lean only.  Used by `Properties/C08E.lean`, `Properties/C10E.lean`.
-/
namespace PGM.E2EGen
open PGM
variable {α : Type} [Scalar α]

theorem foldl_inv_mem {σ ι : Type} (P : σ → Prop) (f : σ → ι → σ) (l : List ι) (s : σ)
    (h0 : P s) (hstep : ∀ s x, x ∈ l → P s → P (f s x)) : P (l.foldl f s) := by
  induction l generalizing s with
  | nil => exact h0
  | cons x xs ih =>
    exact ih _ (hstep s x (List.mem_cons_self ..) h0) (fun s y hy => hstep s y (List.mem_cons_of_mem _ hy))

/-- a fold invariant indexed by the number of steps taken -/
theorem foldl_inv_idx {σ ι : Type} (P : Nat → σ → Prop) (f : σ → ι → σ) (l : List ι) (s : σ) (n0 : Nat)
    (h0 : P n0 s) (hstep : ∀ j s x, n0 ≤ j → j < n0 + l.length → P j s → P (j + 1) (f s x)) :
    P (n0 + l.length) (l.foldl f s) := by
  induction l generalizing s n0 with
  | nil => exact h0
  | cons x xs ih =>
    have h1 : P (n0 + 1) (f s x) := hstep n0 s x (Nat.le_refl _) (by simp) h0
    have := ih (f s x) (n0 + 1) h1 (fun j s y hj hlt => hstep j s y (by omega) (by simp only [List.length_cons]; omega))
    simpa [Nat.add_assoc, Nat.add_comm 1] using this

/-! ## `mirror_descent` -/

/-- **mirror descent, generated text**: for any property `Q` of parameter vectors preserved by the update
`omega - alpha*dL` (`dL` a gradient returned by `lossgrad`): `Q` holds of the returned parameters; the early return
`ans[0] == 0` leaves the parameters as `_setup` stored them and the marginals unset; on every other exit (any iteration
count, accepted or exhausted line search) the stored marginals are `bp` of the stored parameters -/
theorem md_inv_bp (Q : CliqueVec α → Prop) (bp : CliqueVec α → CliqueVec α) (lossgrad : CliqueVec α → α × CliqueVec α)
    (iters : Nat) (theta0 : CliqueVec α) (total : α) (hQ0 : Q theta0)
    (hstep : ∀ omega al, Q omega → Q (CliqueVec.subV omega (CliqueVec.smul al (lossgrad (bp omega)).2))) :
    Q (InfG.mirrorDescent bp lossgrad iters theta0 total).potentials ∧
    (InfG.eq0 (lossgrad (bp theta0)).1 = true →
      (InfG.mirrorDescent bp lossgrad iters theta0 total).potentials = theta0 ∧
      (InfG.mirrorDescent bp lossgrad iters theta0 total).marginals = none) ∧
    (InfG.eq0 (lossgrad (bp theta0)).1 = false →
      (InfG.mirrorDescent bp lossgrad iters theta0 total).marginals
        = some (bp (InfG.mirrorDescent bp lossgrad iters theta0 total).potentials)) := by
  unfold InfG.mirrorDescent
  dsimp only
  split
  · rename_i h
    exact ⟨hQ0, fun _ => ⟨rfl, rfl⟩, fun h' => by rw [h] at h'; cases h'⟩
  · rename_i h
    have key := foldl_inv_mem
      (fun st : CliqueVec α × CliqueVec α × (α × CliqueVec α) × α => Q st.1 ∧ st.2.1 = bp st.1 ∧ st.2.2.1 = lossgrad st.2.1)
      (fun (st : CliqueVec α × CliqueVec α × (α × CliqueVec α) × α) (t : Nat) =>
        let theta : CliqueVec α := st.1
        let mu : CliqueVec α := st.2.1
        let ans : α × CliqueVec α := st.2.2.1
        let alpha : α := st.2.2.2
        let omega : CliqueVec α := theta
        let nu : CliqueVec α := mu
        let curr_loss : α := ans.1
        let dL : CliqueVec α := ans.2
        let alpha : α := ((fun (t : Nat) => (Scalar.mul (Scalar.add Scalar.one Scalar.one) alpha)) t)
        let out : CliqueVec α × CliqueVec α × (α × CliqueVec α) × α × Bool := List.foldl (fun (st : CliqueVec α × CliqueVec α × (α × CliqueVec α) × α × Bool) (i : Nat) =>
            let theta : CliqueVec α := st.1
            let mu : CliqueVec α := st.2.1
            let ans : α × CliqueVec α := st.2.2.1
            let alpha : α := st.2.2.2.1
            let done : Bool := st.2.2.2.2
            if done then st else
            let theta : CliqueVec α := (CliqueVec.subV omega (CliqueVec.smul alpha dL))
            let mu : CliqueVec α := (bp theta)
            let ans : α × CliqueVec α := (lossgrad mu)
            (if (false || (InfG.geG (Scalar.sub curr_loss ans.1) (Scalar.mul (Scalar.mul (Scalar.div Scalar.one (Scalar.add Scalar.one Scalar.one)) alpha) (CliqueVec.dotV dL (CliqueVec.subV nu mu))))) then
              (theta, mu, ans, alpha, true)
            else
              let alpha : α := (Scalar.mul alpha (Scalar.div Scalar.one (Scalar.add Scalar.one Scalar.one)))
              (theta, mu, ans, alpha, false))) (theta, mu, ans, alpha, false) (List.range 25)
        let theta : CliqueVec α := out.1
        let mu : CliqueVec α := out.2.1
        let ans : α × CliqueVec α := out.2.2.1
        let alpha : α := out.2.2.2.1
        (theta, mu, ans, alpha))
      (List.range' 1 ((iters + 1) - 1))
      (theta0, bp theta0, lossgrad (bp theta0), Scalar.div Scalar.one (Scalar.mul total total))
      ⟨hQ0, rfl, rfl⟩
      (by
        intro st t _ hst
        obtain ⟨theta, mu, ans, alpha⟩ := st
        obtain ⟨h1, h2, h3⟩ := hst
        dsimp only at h1 h2 h3 ⊢
        apply foldl_inv_mem
          (fun tr : CliqueVec α × CliqueVec α × (α × CliqueVec α) × α × Bool => Q tr.1 ∧ tr.2.1 = bp tr.1 ∧ tr.2.2.1 = lossgrad tr.2.1)
        · exact ⟨h1, h2, h3⟩
        · intro tr _ _ htr
          obtain ⟨th, m, a, al, done⟩ := tr
          dsimp only at htr ⊢
          cases done with
          | true => simpa using htr
          | false =>
            simp only [Bool.false_eq_true, if_false]
            have hq : Q (CliqueVec.subV theta (CliqueVec.smul al ans.2)) := by
              rw [h3, h2]; exact hstep theta al h1
            split <;> exact ⟨hq, rfl, rfl⟩)
    refine ⟨key.1, fun h' => by rw [h'] at h; exact absurd rfl h, fun _ => ?_⟩
    exact congrArg some key.2.1

/-- the same with the step hypothesis asked for EVERY argument of `lossgrad` (the form used before `md_inv_bp`) -/
theorem md_inv (Q : CliqueVec α → Prop) (bp : CliqueVec α → CliqueVec α) (lossgrad : CliqueVec α → α × CliqueVec α)
    (iters : Nat) (theta0 : CliqueVec α) (total : α) (hQ0 : Q theta0)
    (hstep : ∀ omega al m, Q omega → Q (CliqueVec.subV omega (CliqueVec.smul al (lossgrad m).2))) :
    Q (InfG.mirrorDescent bp lossgrad iters theta0 total).potentials ∧
    (InfG.eq0 (lossgrad (bp theta0)).1 = true →
      (InfG.mirrorDescent bp lossgrad iters theta0 total).potentials = theta0 ∧
      (InfG.mirrorDescent bp lossgrad iters theta0 total).marginals = none) ∧
    (InfG.eq0 (lossgrad (bp theta0)).1 = false →
      (InfG.mirrorDescent bp lossgrad iters theta0 total).marginals
        = some (bp (InfG.mirrorDescent bp lossgrad iters theta0 total).potentials)) :=
  md_inv_bp Q bp lossgrad iters theta0 total hQ0 (fun omega al h => hstep omega al (bp omega) h)

/-! ## `dual_averaging` -/

/-- the averaging weight `c = 2.0 / (t + 1)` of iteration `t` -/
def rdaC (t : Nat) : α := Scalar.div (Scalar.add Scalar.one Scalar.one) (Scalar.ofNat (t + 1))

/-- **dual averaging, generated text**: `L == 0` returns at once (parameters as `_setup` stored them, marginals unset);
otherwise the stored pair is `(mle w, w)` where `w` has every property `R` that (i) `bp` of the initial parameters has,
(ii) `bp (combine b zeros)` has for every `b` — all later queries are of this form — and (iii) the averaging step
`(1-c)*w + c*v` with `c = 2/(t+1)`, `1 ≤ t ≤ iters`, preserves -/
theorem rda_inv (R : CliqueVec α → Prop) (bp : CliqueVec α → CliqueVec α) (lossgrad : CliqueVec α → α × CliqueVec α)
    (mle : CliqueVec α → CliqueVec α) (domain : Dom) (cliques : List JT.Clique) (zeros : CliqueVec α) (iters : Nat)
    (theta0 : CliqueVec α) (L total : α) (h0 : R (bp theta0)) (hbp : ∀ b, R (bp (CliqueVec.combine b zeros)))
    (havg : ∀ t, 1 ≤ t → t ≤ iters → ∀ w v, R w → R v →
      R (CliqueVec.addV (CliqueVec.smul (Scalar.sub Scalar.one (rdaC t)) w) (CliqueVec.smul (rdaC t) v))) :
    (InfG.eq0 L = true →
      InfG.dualAveraging bp lossgrad mle domain cliques zeros iters theta0 L total = ⟨theta0, none, none⟩) ∧
    (InfG.eq0 L = false → ∃ w, R w ∧
      InfG.dualAveraging bp lossgrad mle domain cliques zeros iters theta0 L total = ⟨mle w, some w, none⟩) := by
  unfold InfG.dualAveraging
  dsimp only
  split
  · rename_i h
    exact ⟨fun _ => rfl, fun h' => by rw [h] at h'; cases h'⟩
  · rename_i h
    refine ⟨fun h' => absurd h' h, fun _ => ⟨_, ?_, rfl⟩⟩
    refine (foldl_inv_mem (fun st : CliqueVec α × CliqueVec α × CliqueVec α => R st.2.1 ∧ R st.2.2) _ _ _ ⟨h0, h0⟩ ?_).1
    intro st t ht hst
    obtain ⟨gbar, w, v⟩ := st
    obtain ⟨hw, hv⟩ := hst
    have ht' := List.mem_range'_1.mp ht
    dsimp only at hw hv ⊢
    exact ⟨havg t ht'.1 (by omega) _ _ hw (hbp _), hbp _⟩

/-! ## `interior_gradient` -/

/-- the step weight `a = 2*c*l / (np.sqrt((c*l)**2 + 4*c*l) + l*c)` -/
def igA (l c : α) : α :=
  (Scalar.div (Scalar.mul (Scalar.mul (Scalar.add Scalar.one Scalar.one) c) l) (Scalar.add (InfG.npSqrt (Scalar.add (Scalar.mul (Scalar.mul c l) (Scalar.mul c l)) (Scalar.mul (Scalar.mul (Scalar.add (Scalar.add Scalar.one Scalar.one) (Scalar.add Scalar.one Scalar.one)) c) l))) (Scalar.mul l c)))

/-- the value of `c` after `k` iterations (`c = 1` initially, `c *= (1-a)`); it does not depend on the data -/
def igC (l : α) : Nat → α
  | 0 => Scalar.one
  | k + 1 => Scalar.mul (igC l k) (Scalar.sub Scalar.one (igA l (igC l k)))

/-- **interior gradient, generated text**: `L == 0` returns at once (marginals unset); otherwise the stored pair is
`(mle x, x)` where `x` has every property `R` such that `bp θ` has `R` whenever the parameter vector `θ` has `Q`, `Q` holds
initially and is preserved by `θ − k·g` (`g` a gradient returned by `lossgrad`), and `R` is preserved by the averaging step
`(1-a)*x + a*z` with the weight `a` of the iteration (`igA`, `igC`: a function of `L` and the iteration number only) -/
theorem ig_inv (Q R : CliqueVec α → Prop) (bp : CliqueVec α → CliqueVec α) (lossgrad : CliqueVec α → α × CliqueVec α)
    (mle : CliqueVec α → CliqueVec α) (iters : Nat) (theta0 : CliqueVec α) (L total : α) (hQ0 : Q theta0)
    (hQ : ∀ theta k y, Q theta → Q (CliqueVec.subV theta (CliqueVec.smul k (lossgrad y).2)))
    (hbp : ∀ theta, Q theta → R (bp theta))
    (havg : ∀ j, j < iters → ∀ x z, R x → R z →
      R (CliqueVec.addV (CliqueVec.smul (Scalar.sub Scalar.one (igA (Scalar.div Scalar.one L) (igC (Scalar.div Scalar.one L) j))) x)
        (CliqueVec.smul (igA (Scalar.div Scalar.one L) (igC (Scalar.div Scalar.one L) j)) z))) :
    (InfG.eq0 L = true →
      InfG.interiorGradient bp lossgrad mle iters theta0 L total = ⟨theta0, none, none⟩) ∧
    (InfG.eq0 L = false → ∃ w, R w ∧
      InfG.interiorGradient bp lossgrad mle iters theta0 L total = ⟨mle w, some w, none⟩) := by
  unfold InfG.interiorGradient
  dsimp only
  split
  · rename_i h
    exact ⟨fun _ => rfl, fun h' => by rw [h] at h'; cases h'⟩
  · rename_i h
    refine ⟨fun h' => absurd h' h, fun _ => ⟨_, ?_, rfl⟩⟩
    refine (foldl_inv_idx
      (fun (j : Nat) (st : CliqueVec α × CliqueVec α × CliqueVec α × α) =>
        Q st.1 ∧ R st.2.1 ∧ R st.2.2.1 ∧ st.2.2.2 = igC (Scalar.div Scalar.one L) j)
      _ (List.range' 1 ((iters + 1) - 1)) (theta0, bp theta0, bp theta0, Scalar.one) 0
      ⟨hQ0, hbp _ hQ0, hbp _ hQ0, rfl⟩ ?_).2.1
    intro j st k _ hj hst
    obtain ⟨theta, x, z, c⟩ := st
    obtain ⟨h1, h2, h3, h4⟩ := hst
    dsimp only at h1 h2 h3 h4 ⊢
    have hj' : j < iters := by simpa using hj
    subst h4
    have hq := hQ theta (Scalar.div (Scalar.div (igA (Scalar.div Scalar.one L) (igC (Scalar.div Scalar.one L) j))
      (Scalar.mul (igC (Scalar.div Scalar.one L) j) (Scalar.sub Scalar.one (igA (Scalar.div Scalar.one L) (igC (Scalar.div Scalar.one L) j))))) total)
      (CliqueVec.addV (CliqueVec.smul (Scalar.sub Scalar.one (igA (Scalar.div Scalar.one L) (igC (Scalar.div Scalar.one L) j))) x)
        (CliqueVec.smul (igA (Scalar.div Scalar.one L) (igC (Scalar.div Scalar.one L) j)) z)) h1
    exact ⟨hq, havg j hj' _ _ h2 (hbp _ hq), hbp _ hq, rfl⟩

end PGM.E2EGen
