import PGM.Proofs.QueryDV
/-! `krondot`: Kronecker-product queries answered by variable elimination over the domain extended
with one `-answer` attribute per attribute -/
namespace PGM.Sem
open PGM PGM.JT PGM.GM
variable {K : Type} [Field K] [LinearOrder K] [IsStrictOrderedRing K]
set_option linter.unusedVariables false
set_option linter.unusedSectionVars false

/-! ### `toPlain` -/

theorem toPlain_dom (f : Factor (LogOf K)) : (toPlain f).dom = f.dom := rfl

theorem toPlain_vals (f : Factor (LogOf K)) :
    (toPlain f).vals = f.vals.map (fun x => (⟨x.v⟩ : PlainOf K)) := rfl

theorem toPlain_WF (f : Factor (LogOf K)) (hf : f.WF) : (toPlain f).WF := by
  refine ⟨hf.1, hf.2.1, ?_⟩
  rw [toPlain_vals]
  exact NdArr.map_WF _ _ hf.2.2

theorem toPlain_sem (f : Factor (LogOf K)) (hf : f.WF) (σ : Attr → Nat) (hσ : f.dom.Valid σ) :
    ((toPlain f).sem σ).v = (f.sem σ).v := by
  unfold Factor.sem
  rw [toPlain_vals, toPlain_dom, NdArr.get_map _ _ _ hf.2.2
    (by rw [hf.2.1]; exact Factor.inRange_of_valid _ hf.1 σ hσ)]

theorem exp_WF (f : Factor (LogOf K)) (hf : f.WF) : f.exp.WF := mapVals_WF Scalar.exp f hf

theorem toPlain_exp_sem (f : Factor (LogOf K)) (hf : f.WF) (σ : Attr → Nat) (hσ : f.dom.Valid σ) :
    ((toPlain f.exp).sem σ).v = (f.sem σ).v := by
  rw [toPlain_sem _ (exp_WF f hf) σ hσ]
  show ((Factor.mk' f.dom (f.vals.map Scalar.exp)).sem σ).v = _
  rw [sem_mapVals Scalar.exp f σ hf hσ, log_exp]

/-! ### the extended domain -/

/-- the `-answer` attributes with their row counts -/
def ansDom (d : Dom) (mats : List (Nat × List (PlainOf K))) : Dom :=
  (List.zip d mats).map (fun p => (p.1.1 ++ "-answer", p.2.1))

/-- the query factor of one attribute -/
def qFactor (p : (Attr × Nat) × (Nat × List (PlainOf K))) : Factor (PlainOf K) :=
  Factor.mk' [(p.1.1 ++ "-answer", p.2.1), (p.1.1, p.1.2)]
    ⟨Dom.shape [(p.1.1 ++ "-answer", p.2.1), (p.1.1, p.1.2)], p.2.2.toArray⟩

theorem krondot_eq (d : Dom) (expPots : List (Factor (PlainOf K))) (mats : List (Nat × List (PlainOf K)))
    (total z : PlainOf K) :
    krondot d expPots mats total z =
      (((variableElimination (expPots ++ (List.zip d mats).map qFactor) d.attrs).transpose
        (d.attrs.map (· ++ "-answer"))).vals.map (fun v => Scalar.div (Scalar.mul v total) z)) := rfl

section
variable (d : Dom) (mats : List (Nat × List (PlainOf K))) (hd : d.WF)
  (hfresh : ∀ a ∈ d.attrs, (a ++ "-answer") ∉ d.attrs)
  (hinj : ∀ a ∈ d.attrs, ∀ b ∈ d.attrs, a ++ "-answer" = b ++ "-answer" → a = b)
  (hlen : mats.length = d.length)

include hlen in
theorem ansDom_attrs : (ansDom d mats).attrs = d.attrs.map (· ++ "-answer") := by
  unfold ansDom Dom.attrs
  rw [List.map_map]
  have : (fun p : (Attr × Nat) × (Nat × List (PlainOf K)) => p.1.1 ++ "-answer")
      = (fun a : Attr × Nat => a.1 ++ "-answer") ∘ Prod.fst := rfl
  show List.map (fun p : (Attr × Nat) × (Nat × List (PlainOf K)) => p.1.1 ++ "-answer") _ = _
  rw [this, ← List.map_map, List.map_fst_zip (by omega), List.map_map]
  rfl

include hlen in
theorem ansDom_shape : (ansDom d mats).shape = mats.map (·.1) := by
  unfold ansDom Dom.shape
  rw [List.map_map]
  have : (fun p : (Attr × Nat) × (Nat × List (PlainOf K)) => p.2.1)
      = (fun a : Nat × List (PlainOf K) => a.1) ∘ Prod.snd := rfl
  show List.map (fun p : (Attr × Nat) × (Nat × List (PlainOf K)) => p.2.1) _ = _
  rw [this, ← List.map_map, List.map_snd_zip (by omega)]

include hd hinj in
theorem ansAttrs_nodup : (d.attrs.map (· ++ "-answer")).Nodup :=
  nodup_map_of_inj_on d.attrs _ hd hinj

include hd hfresh hinj hlen in
theorem extDom_WF : Dom.WF (d ++ ansDom d mats) := by
  unfold Dom.WF
  rw [Dom.attrs_append, ansDom_attrs d mats hlen, List.nodup_append]
  refine ⟨hd, ansAttrs_nodup d hd hinj, ?_⟩
  intro a ha b hb hab
  obtain ⟨x, hx, rfl⟩ := List.mem_map.mp hb
  exact hfresh x hx (hab ▸ ha)

theorem extDom_cfg_left (a : Attr) (ha : a ∈ d.attrs) : Dom.cfg (d ++ ansDom d mats) a = d.cfg a := by
  unfold Dom.cfg
  rw [List.lookup_append, Dom.lookup_of_mem_attrs d a ha]
  rfl

theorem qFactor_sem (p : (Attr × Nat) × (Nat × List (PlainOf K))) (τ : Attr → Nat) :
    (qFactor p).sem τ = p.2.2.getD (τ (p.1.1 ++ "-answer") * p.1.2 + τ p.1.1) ⟨0⟩ := by
  simp only [qFactor, Factor.sem, Factor.mk', NdArr.reshape, NdArr.get, Dom.shape, Dom.attrs,
    List.map_cons, List.map_nil, ravel, size, Nat.mul_one, Nat.add_zero]
  rw [Array.getD_eq_getD_getElem?, List.getElem?_toArray, List.getD_eq_getElem?_getD]
  rfl

theorem mem_zip_iff (p : (Attr × Nat) × (Nat × List (PlainOf K))) :
    p ∈ List.zip d mats ↔ ∃ i, ∃ (h1 : i < d.length) (h2 : i < mats.length), p = (d[i], mats[i]) := by
  rw [List.mem_iff_getElem]
  constructor
  · rintro ⟨i, hi, rfl⟩
    have h := hi
    rw [List.length_zip] at h
    exact ⟨i, by omega, by omega, List.getElem_zip⟩
  · rintro ⟨i, h1, h2, rfl⟩
    exact ⟨i, by rw [List.length_zip]; omega, List.getElem_zip⟩

include hd hfresh hinj hlen in
theorem qFactor_ok (hshape : ∀ i (hi : i < mats.length), (mats[i]).2.length = (mats[i]).1 * (d.shape.getD i 0))
    (p : (Attr × Nat) × (Nat × List (PlainOf K))) (hp : p ∈ List.zip d mats) :
    FactorOK (d ++ ansDom d mats) (qFactor p) := by
  have hD := extDom_WF d mats hd hfresh hinj hlen
  obtain ⟨i, h1, h2, rfl⟩ := (mem_zip_iff d mats p).mp hp
  have hmem : d[i] ∈ d := List.getElem_mem h1
  have hattr : (d[i]).1 ∈ d.attrs := List.mem_map_of_mem hmem
  have hne : (d[i]).1 ++ "-answer" ≠ (d[i]).1 := fun h => hfresh _ hattr (by rw [h]; exact hattr)
  have hsh : d.shape.getD i 0 = (d[i]).2 := by
    simp [Dom.shape, List.getD_eq_getElem?_getD, h1]
  have hmemA : ((d[i]).1 ++ "-answer", (mats[i]).1) ∈ d ++ ansDom d mats := by
    apply List.mem_append_right
    exact List.mem_map.mpr ⟨(d[i], mats[i]), hp, rfl⟩
  have hmemB : ((d[i]).1, (d[i]).2) ∈ d ++ ansDom d mats := List.mem_append_left _ hmem
  refine ⟨⟨?_, rfl, ?_⟩, ?_, ?_⟩
  · show List.Nodup [(d[i]).1 ++ "-answer", (d[i]).1]
    simp [hne]
  · show (mats[i]).2.toArray.size = size [(mats[i]).1, (d[i]).2]
    simp only [List.size_toArray, size, Nat.mul_one]
    rw [hshape i h2, hsh]
  · intro q hq
    simp only [qFactor, Factor.mk', List.mem_cons, List.not_mem_nil, or_false] at hq
    rcases hq with rfl | rfl
    · exact Dom.cfg_of_mem _ hD _ hmemA
    · exact Dom.cfg_of_mem _ hD _ hmemB
  · intro a ha
    simp only [qFactor, Factor.mk', Dom.attrs, List.map_cons, List.map_nil, List.mem_cons,
      List.not_mem_nil, or_false] at ha
    rcases ha with rfl | rfl
    · exact List.mem_map_of_mem hmemA
    · exact List.mem_map_of_mem hmemB

theorem expPot_ok (f : Factor (LogOf K)) (hf : FactorOK d f) :
    FactorOK (d ++ ansDom d mats) (toPlain f.exp) := by
  refine ⟨toPlain_WF _ (exp_WF f hf.1), ?_, ?_⟩
  · intro p hp
    have hp' : p ∈ f.dom := hp
    rw [extDom_cfg_left d mats p.1 (hf.2.2 _ (List.mem_map_of_mem hp'))]
    exact hf.2.1 p hp'
  · intro a ha
    rw [Dom.attrs_append]
    exact List.mem_append_left _ (hf.2.2 a ha)

end

/-- **`krondot`** -/
theorem krondot_correct_aux (d : Dom) (pots : CliqueVec (LogOf K)) (mats : List (Nat × List (PlainOf K)))
    (total z : PlainOf K) (hd : d.WF) (hfs : FactorsOK d (pots.map Prod.snd)) (hne : pots ≠ [])
    (hcover : ∀ a ∈ d.attrs, ∃ p ∈ pots, a ∈ p.2.dom.attrs)
    (hfresh : ∀ a ∈ d.attrs, (a ++ "-answer") ∉ d.attrs)
    (hinj : ∀ a ∈ d.attrs, ∀ b ∈ d.attrs, a ++ "-answer" = b ++ "-answer" → a = b)
    (hlen : mats.length = d.length)
    (hshape : ∀ i (hi : i < mats.length), (mats[i]).2.length = (mats[i]).1 * (d.shape.getD i 0))
    (hsizes : ∀ p ∈ d, 0 < p.2) (hz : z.v = partition d pots)
    (ridx : List Nat) (hr : InRange (mats.map (·.1)) ridx) :
    ((krondot d (pots.map (fun p => toPlain p.2.exp)) mats total z).get ridx).v
      = sumOver d d.attrs (fun _ => 0) (fun τ =>
          ((List.range d.length).map (fun i =>
            (((mats.getD i (0, [])).2).getD (ridx.getD i 0 * d.shape.getD i 0 + τ (d.attrs.getD i "")) ⟨0⟩).v)).prod
          * joint pots τ) * total.v / partition d pots := by
  have hD : Dom.WF (d ++ ansDom d mats) := extDom_WF d mats hd hfresh hinj hlen
  have hansnd := ansAttrs_nodup d hd hinj
  have hDattrs : Dom.attrs (d ++ ansDom d mats) = d.attrs ++ d.attrs.map (· ++ "-answer") := by
    rw [Dom.attrs_append, ansDom_attrs d mats hlen]
  have hfsOK : ∀ f ∈ pots.map (fun p => toPlain p.2.exp) ++ (List.zip d mats).map qFactor,
      FactorOK (d ++ ansDom d mats) f := by
    intro f hf
    rcases List.mem_append.mp hf with h | h
    · obtain ⟨p, hp, rfl⟩ := List.mem_map.mp h
      exact expPot_ok d mats p.2 (hfs p.2 (List.mem_map_of_mem hp))
    · obtain ⟨p, hp, rfl⟩ := List.mem_map.mp h
      exact qFactor_ok d mats hd hfresh hinj hlen hshape p hp
  have hfsne : pots.map (fun p => toPlain p.2.exp) ++ (List.zip d mats).map qFactor ≠ [] := by
    intro h
    have := (List.append_eq_nil_iff.mp h).1
    exact hne (List.map_eq_nil_iff.mp this)
  have hocc : ∀ a ∈ d.attrs, ∃ f ∈ pots.map (fun p => toPlain p.2.exp) ++ (List.zip d mats).map qFactor,
      a ∈ f.dom.attrs := by
    intro a ha
    obtain ⟨p, hp, hap⟩ := hcover a ha
    exact ⟨toPlain p.2.exp, List.mem_append_left _ (List.mem_map.mpr ⟨p, hp, rfl⟩), hap⟩
  have hsubD : ∀ a ∈ d.attrs, a ∈ Dom.attrs (d ++ ansDom d mats) := by
    intro a ha; rw [hDattrs]; exact List.mem_append_left _ ha
  obtain ⟨p0, ps0, hfold, hok, hattrs, hsem⟩ :=
    veLoop_final Scalar.mul Scalar.sum (fun x : PlainOf K => x.v) (fun _ _ => rfl) plain_sum_v
      (d ++ ansDom d mats) hD d.attrs _ hfsOK hfsne hocc hd hsubD
  rw [krondot_eq]
  simp only [variableElimination_eq, hfold]
  generalize ps0.foldl (Factor.binop Scalar.mul) p0 = res at hok hattrs hsem
  -- attributes of the result
  have hres : ∀ a, a ∈ res.dom.attrs ↔ a ∈ d.attrs.map (· ++ "-answer") := by
    intro a
    rw [hattrs a]
    constructor
    · rintro ⟨hna, f, hf, haf⟩
      rcases List.mem_append.mp hf with h | h
      · obtain ⟨p, hp, rfl⟩ := List.mem_map.mp h
        exact absurd ((hfs p.2 (List.mem_map_of_mem hp)).2.2 a haf) hna
      · obtain ⟨p, hp, rfl⟩ := List.mem_map.mp h
        have hp1 : p.1 ∈ d := (List.of_mem_zip hp).1
        simp only [qFactor, Factor.mk', Dom.attrs, List.map_cons, List.map_nil, List.mem_cons,
          List.not_mem_nil, or_false] at haf
        rcases haf with rfl | rfl
        · exact List.mem_map.mpr ⟨p.1.1, List.mem_map_of_mem hp1, rfl⟩
        · exact absurd (List.mem_map_of_mem hp1) hna
    · intro ha
      obtain ⟨x, hx, rfl⟩ := List.mem_map.mp ha
      refine ⟨hfresh x hx, ?_⟩
      obtain ⟨q, hq, rfl⟩ := List.mem_map.mp hx
      obtain ⟨i, hi, rfl⟩ := List.getElem_of_mem hq
      have hi2 : i < mats.length := by omega
      refine ⟨qFactor (d[i], mats[i]), List.mem_append_right _ (List.mem_map.mpr
        ⟨(d[i], mats[i]), (mem_zip_iff d mats _).mpr ⟨i, hi, hi2, rfl⟩, rfl⟩), ?_⟩
      simp [qFactor, Factor.mk', Dom.attrs]
  have hperm : (d.attrs.map (· ++ "-answer")).Perm res.dom.attrs := by
    rw [List.perm_ext_iff_of_nodup hansnd hok.1.1]
    intro a; exact (hres a).symm
  have hTWF := Factor.transpose_WF res _ hok.1 hperm
  -- the shape of the answer
  have hcfgs : (d.attrs.map (· ++ "-answer")).map (Dom.cfg (d ++ ansDom d mats)) = mats.map (·.1) := by
    have h1 := Dom.shape_eq_map_cfg _ hD
    rw [hDattrs, List.map_append] at h1
    have h2 : Dom.shape (d ++ ansDom d mats) = d.shape ++ mats.map (·.1) := by
      rw [← ansDom_shape d mats hlen]; simp [Dom.shape]
    rw [h2] at h1
    exact (List.append_inj h1 (by simp [Dom.shape, Dom.attrs])).2.symm
  have hTshape : (res.transpose (d.attrs.map (· ++ "-answer"))).vals.shape = mats.map (·.1) := by
    rw [hTWF.2.1, Factor.transpose_dom, Dom.shape_project, ← hcfgs]
    apply List.map_congr_left
    intro a ha
    exact (hok.cfg_eq ((hres a).mpr ha)).symm
  have hrlen : ridx.length = (d.attrs.map (· ++ "-answer")).length := by
    rw [hr.length_eq]; simp [hlen, Dom.length_attrs]
  -- the assignment reading the answer cell
  have hσ : Dom.Valid (d ++ ansDom d mats)
      (Dom.override (fun _ => 0) (d.attrs.map (· ++ "-answer")) ridx) := by
    rw [Dom.valid_iff _ hD]
    intro a ha
    rw [hDattrs] at ha
    rcases List.mem_append.mp ha with h | h
    · have hna : a ∉ d.attrs.map (· ++ "-answer") := by
        intro hm
        obtain ⟨x, hx, rfl⟩ := List.mem_map.mp hm
        exact hfresh x hx h
      rw [override_of_not_mem _ _ _ _ hna, extDom_cfg_left d mats a h]
      have := hsizes _ (Dom.mem_of_mem_attrs d hd a h)
      exact this
    · rw [override_of_mem _ _ _ _ h]
      have hr' := hr
      rw [← hcfgs] at hr'
      have hrr := (NdArr.inRange_iff _ _).mp hr'
      have hlt : (d.attrs.map (· ++ "-answer")).idxOf a
          < ((d.attrs.map (· ++ "-answer")).map (Dom.cfg (d ++ ansDom d mats))).length := by
        simpa using List.idxOf_lt_length_iff.mpr h
      have := hrr.2 _ hlt
      rwa [getD_map_idxOf _ _ 0 a h] at this
  rw [NdArr.get_map _ _ _ hTWF.2.2 (by rw [hTshape]; exact hr)]
  have hget : (res.transpose (d.attrs.map (· ++ "-answer"))).vals.get ridx
      = (res.transpose (d.attrs.map (· ++ "-answer"))).sem
          (Dom.override (fun _ => 0) (d.attrs.map (· ++ "-answer")) ridx) := by
    unfold Factor.sem
    rw [Factor.transpose_attrs, map_override_self _ _ _ hansnd hrlen]
  rw [hget, Factor.sem_transpose res _ _ hok.1 hperm (hok.valid hD hσ)]
  show (res.sem _).v * total.v * z.v⁻¹ = _
  rw [hsem _ hσ, hz, div_eq_mul_inv]
  congr 2
  -- the two sums
  unfold sumOver
  have hcells : d.attrs.map (Dom.cfg (d ++ ansDom d mats)) = d.attrs.map d.cfg :=
    List.map_congr_left (fun a ha => extDom_cfg_left d mats a ha)
  rw [hcells]
  congr 1
  apply List.map_congr_left
  intro v hv
  have hτ : Dom.Valid (d ++ ansDom d mats) (Dom.override (Dom.override (fun _ => 0)
      (d.attrs.map (· ++ "-answer")) ridx) d.attrs v) :=
    valid_override _ hD _ _ _ hσ (by rw [hcells]; exact hv)
  have hagree : ∀ a ∈ d.attrs, Dom.override (Dom.override (fun _ => 0)
      (d.attrs.map (· ++ "-answer")) ridx) d.attrs v a = Dom.override (fun _ => 0) d.attrs v a := by
    intro a ha
    rw [override_of_mem _ _ _ _ ha, override_of_mem _ _ _ _ ha]
  show (List.map _ (_ ++ _)).prod = (List.map _ _).prod * joint pots _
  rw [List.map_append, List.prod_append, mul_comm]
  congr 1
  · -- the query matrices
    rw [List.map_map]
    congr 1
    apply List.ext_getElem
    · simp [List.length_zip, hlen]
    · intro i h1 h2
      have hi : i < d.length := by simpa using h2
      have hi2 : i < mats.length := by omega
      have hia : i < d.attrs.length := by rw [Dom.length_attrs]; exact hi
      simp only [List.getElem_map, List.getElem_zip, List.getElem_range, Function.comp]
      rw [qFactor_sem]
      have e1 : mats.getD i (0, []) = mats[i] := by
        rw [List.getD_eq_getElem?_getD, List.getElem?_eq_getElem hi2]; rfl
      have e2 : d.shape.getD i 0 = (d[i]).2 := by
        simp [Dom.shape, List.getD_eq_getElem?_getD, hi]
      have e3 : d.attrs.getD i "" = (d[i]).1 := by
        simp [Dom.attrs, List.getD_eq_getElem?_getD, hi]
      have hmem : (d[i]).1 ∈ d.attrs := List.mem_map_of_mem (List.getElem_mem hi)
      have hna : (d[i]).1 ++ "-answer" ∉ d.attrs := hfresh _ hmem
      have e4 : (d.attrs.map (· ++ "-answer")).idxOf ((d[i]).1 ++ "-answer") = i := by
        rw [idxOf_map_of_inj d.attrs (· ++ "-answer") (d[i]).1 (fun x hx h => hinj x hx _ hmem h)]
        have : (d[i]).1 = d.attrs[i] := by simp [Dom.attrs]
        rw [this]
        exact hd.idxOf_getElem i hia
      rw [e1, e2, e3, ← hagree _ hmem]
      congr 3
      rw [override_of_not_mem _ _ _ _ hna, override_of_mem _ _ _ _
        (List.mem_map.mpr ⟨_, hmem, rfl⟩), e4]
  · -- the potentials
    unfold joint
    rw [List.map_map]
    congr 1
    apply List.map_congr_left
    intro p hp
    have hpOK := hfs p.2 (List.mem_map_of_mem hp)
    simp only [Function.comp]
    rw [toPlain_exp_sem p.2 hpOK.1 _ ((expPot_ok d mats p.2 hpOK).valid hD hτ)]
    congr 1
    exact sem_congr _ _ _ (fun a ha => hagree a (hpOK.2.2 a ha))

end PGM.Sem
