import PGM.Proofs.LbpTreePeel
/-!
# The induction over the forest: consistent messages give the marginals

`Claim d cliques A θ e f t`: `Σ_{A ∖ t} exp(logW) = K · exp(bel t)` for a constant `K`.
-/
namespace PGM.LbpTree
open PGM PGM.JT PGM.Oracle
set_option linter.unusedSectionVars false
set_option linter.unusedVariables false

def Claim (d : Dom) (cliques : List Clique) (A : List Attr) (θ : Clique → (Attr → Nat) → ℝ)
    (e : Attr → Nat → ℝ) (f : Clique → Attr → Nat → ℝ) (t : Clique) : Prop :=
  ∃ K : ℝ, ∀ σ, d.Valid σ →
    Sem.sumOver d (A.filter (fun a => !t.contains a)) σ (fun τ => Real.exp (logW cliques A θ e τ))
      = K * Real.exp (bel cliques θ e f t σ)

section
variable {cliques : List Clique} {A : List Attr} {c : Clique}

/-! ### the update equations survive the removal of a clique -/

theorem msgEq_erase (hL : Lists cliques A) (hc : c ∈ cliques) (d : Dom)
    (θ : Clique → (Attr → Nat) → ℝ) (e : Attr → Nat → ℝ) (f : Clique → Attr → Nat → ℝ)
    (cl : Clique) (hcl : cl ∈ cliques.erase c) (v : Attr) (hm : MsgEq d cliques θ e f cl v) :
    MsgEq d (cliques.erase c) θ (eAdd f e c) f cl v := by
  obtain ⟨κ, hκ⟩ := hm
  refine ⟨κ, fun σ hσ => ?_⟩
  rw [← hκ σ hσ]
  apply Sem.sumOver_congr
  intro w _
  congr 2
  congr 1
  apply List.map_congr_left
  intro u _
  exact (nmsg_erase cliques hL.cNodup c hc e f u cl hcl _).symm

/-! ### case A: the target is not the removed leaf -/

theorem caseA (hL : Lists cliques A) (hc : c ∈ cliques) (d : Dom) (hd : d.WF)
    (θ : Clique → (Attr → Nat) → ℝ) (e : Attr → Nat → ℝ) (f : Clique → Attr → Nat → ℝ)
    (t : Clique) (ht : t ∈ cliques.erase c)
    (hpeel : ∃ C : ℝ, ∀ τ, d.Valid τ →
      Sem.sumOver d (dropA cliques A c) τ (fun ρ => Real.exp (logW cliques A θ e ρ))
        = C * Real.exp (logW (cliques.erase c) (keepA cliques A c) θ (eAdd f e c) τ))
    (hIH : Claim d (cliques.erase c) (keepA cliques A c) θ (eAdd f e c) f t) :
    Claim d cliques A θ e f t := by
  obtain ⟨C, hC⟩ := hpeel
  obtain ⟨K, hK⟩ := hIH
  refine ⟨C * K, fun σ hσ => ?_⟩
  have hl1 : (A.filter (fun a => !t.contains a)).filter (fun a => !(privA cliques c).contains a)
      = (keepA cliques A c).filter (fun a => !t.contains a) := by
    unfold keepA
    rw [List.filter_filter, List.filter_filter]
    apply List.filter_congr
    intro a _
    exact Bool.and_comm _ _
  have hl2 : (A.filter (fun a => !t.contains a)).filter (fun a => (privA cliques c).contains a)
      = dropA cliques A c := by
    unfold dropA
    rw [List.filter_filter]
    apply List.filter_congr
    intro a _
    by_cases hq : (privA cliques c).contains a = true
    · have hnt : a ∉ t := privA_not_mem_rest hL a (List.contains_iff_mem.mp hq) t ht
      have : t.contains a = false := by
        rw [Bool.eq_false_iff]; exact fun h => hnt (List.contains_iff_mem.mp h)
      rw [hq, this]; rfl
    · have : (privA cliques c).contains a = false := Bool.eq_false_iff.mpr hq
      rw [this]; rfl
  rw [← sumOver_split' d (A.filter (fun a => !t.contains a)) (fun a => (privA cliques c).contains a) σ _
    (hL.aNodup.sublist List.filter_sublist), hl1, hl2]
  rw [Sem.sumOver_congr_valid d hd _ σ _ (fun τ =>
    C * Real.exp (logW (cliques.erase c) (keepA cliques A c) θ (eAdd f e c) τ)) hσ hC,
    Sem.sumOver_mul_left, hK σ hσ, bel_erase cliques hL.cNodup c hc θ e f t ht σ]
  ring

/-! ### the marginal of a single attribute -/

theorem nOf_add_self (hnd : cliques.Nodup) (f : Clique → Attr → Nat → ℝ) (g : Clique) (hg : g ∈ cliques)
    (s : Attr) (hs : s ∈ g) (x : Nat) :
    nOf cliques f s g x + f g s x = (cliques.map (fun k => if s ∈ k then f k s x else 0)).sum := by
  have h1 := sum_facOf_sub cliques hnd g hg s hs (fun k => f k s x)
  have h2 := sum_map_filter_ind cliques s (fun k => f k s x)
  unfold nOf
  unfold facOf at h1
  rw [← h1, ← h2]
  ring

theorem var_marginal (hL : Lists cliques A) (d : Dom) (hd : d.WF)
    (θ : Clique → (Attr → Nat) → ℝ) (e : Attr → Nat → ℝ) (f : Clique → Attr → Nat → ℝ)
    (g : Clique) (hg : g ∈ cliques) (s : Attr) (hs : s ∈ g)
    (hm : MsgEq d cliques θ e f g s) (hcl : Claim d cliques A θ e f g) :
    ∃ K' : ℝ, ∀ σ, d.Valid σ →
      Sem.sumOver d (A.filter (fun a => a != s)) σ (fun τ => Real.exp (logW cliques A θ e τ))
        = K' * Real.exp (e s (σ s) + (cliques.map (fun k => if s ∈ k then f k s (σ s) else 0)).sum) := by
  obtain ⟨K, hK⟩ := hcl
  obtain ⟨κ, hκ⟩ := hm
  refine ⟨K * Real.exp κ, fun σ hσ => ?_⟩
  have hgn := hL.clNodup g hg
  have hl1 : (A.filter (fun a => a != s)).filter (fun a => !g.contains a)
      = A.filter (fun a => !g.contains a) := by
    rw [List.filter_filter]
    apply List.filter_congr
    intro a _
    by_cases hq : g.contains a = true
    · rw [hq]; rfl
    · have hq' : g.contains a = false := Bool.eq_false_iff.mpr hq
      have : a ≠ s := fun h => hq (List.contains_iff_mem.mpr (h ▸ hs))
      rw [hq']; simp [this]
  have hperm : ((A.filter (fun a => a != s)).filter (fun a => g.contains a)).Perm
      (g.filter (fun var => var != s)) := by
    rw [List.perm_ext_iff_of_nodup ((hL.aNodup.sublist List.filter_sublist).sublist List.filter_sublist)
      (hgn.sublist List.filter_sublist)]
    intro a
    simp only [List.mem_filter, List.contains_iff_mem]
    constructor
    · rintro ⟨⟨_, h2⟩, h3⟩; exact ⟨h3, h2⟩
    · rintro ⟨h1, h2⟩; exact ⟨⟨hL.clSub g hg a h1, h2⟩, h1⟩
  rw [← Sem.sumOver_split d (A.filter (fun a => a != s)) (fun a => g.contains a) σ _
    (hL.aNodup.sublist List.filter_sublist), hl1]
  rw [Sem.sumOver_congr_valid d hd _ σ _ (fun τ => K * Real.exp (bel cliques θ e f g τ)) hσ hK,
    Sem.sumOver_mul_left,
    Sem.sumOver_perm d _ _ σ _ hperm ((hL.aNodup.sublist List.filter_sublist).sublist List.filter_sublist)]
  have hfun : (fun τ => Real.exp (bel cliques θ e f g τ)) = (fun τ =>
      Real.exp (nmsg cliques e f s g (τ s)) *
        Real.exp (θ g τ + ((g.filter (fun var => var != s)).map (fun u => nmsg cliques e f u g (τ u))).sum)) := by
    funext τ
    rw [← Real.exp_add]
    congr 1
    unfold bel
    have := sum_map_filter_ne g hgn s hs (fun u => nmsg cliques e f u g (τ u))
    linarith
  rw [hfun, Sem.sumOver_factor_left d _ σ (fun τ => Real.exp (nmsg cliques e f s g (τ s))) _ (by
    intro w _
    rw [Sem.override_of_not_mem _ _ _ _ (by simp)]), hκ σ hσ]
  rw [← Real.exp_add, mul_assoc, ← Real.exp_add]
  congr 2
  have := nOf_add_self hL.cNodup f g hg s hs (σ s)
  unfold nmsg
  linarith

/-! ### case B: the target is the removed leaf -/

/-- the part of the log-weight that belongs to the leaf depends on the leaf only -/
theorem leaf_part_const (hL : Lists cliques A) (hc : c ∈ cliques)
    (θ : Clique → (Attr → Nat) → ℝ) (hθ : ∀ k ∈ cliques, Sem.DependsOn (θ k) k) (e : Attr → Nat → ℝ)
    (σ : Attr → Nat) (w : List Nat) :
    (fun ρ => Real.exp (θ c ρ + ((dropA cliques A c).map (fun u => e u (ρ u))).sum))
        (Dom.override σ (A.filter (fun a => !c.contains a)) w)
      = Real.exp (θ c σ + ((dropA cliques A c).map (fun u => e u (σ u))).sum) := by
  have hdep : Sem.DependsOn (fun ρ => Real.exp (θ c ρ + ((dropA cliques A c).map (fun u => e u (ρ u))).sum)) c := by
    intro σ σ' h
    show Real.exp _ = Real.exp _
    rw [hθ c hc σ σ' h]
    have := dependsOn_field_sum (dropA cliques A c) e c
      (fun v hv => ((mem_privA hL v).mp ((mem_dropA hL hc v).mp hv)).1) σ σ' h
    simp only at this
    rw [this]
  apply hdep.override
  intro a ha hac
  have := (List.mem_filter.mp ha).2
  simp [hac] at this

theorem caseB_factor (hL : Lists cliques A) (hc : c ∈ cliques) (d : Dom)
    (θ : Clique → (Attr → Nat) → ℝ) (hθ : ∀ k ∈ cliques, Sem.DependsOn (θ k) k) (e : Attr → Nat → ℝ)
    (σ : Attr → Nat) :
    Sem.sumOver d (A.filter (fun a => !c.contains a)) σ (fun τ => Real.exp (logW cliques A θ e τ))
      = Sem.sumOver d (A.filter (fun a => !c.contains a)) σ
          (fun τ => Real.exp (logW (cliques.erase c) (keepA cliques A c) θ e τ))
        * Real.exp (θ c σ + ((dropA cliques A c).map (fun u => e u (σ u))).sum) := by
  have hfun : (fun ρ => Real.exp (logW cliques A θ e ρ)) = (fun ρ =>
      Real.exp (logW (cliques.erase c) (keepA cliques A c) θ e ρ) *
        Real.exp (θ c ρ + ((dropA cliques A c).map (fun u => e u (ρ u))).sum)) := by
    funext ρ
    rw [logW_peel hL hc θ e ρ, Real.exp_add]
  rw [hfun]
  exact Sem.sumOver_factor_right d _ σ _ _ (fun w _ => leaf_part_const hL hc θ hθ e σ w)

theorem caseB_iso (hL : Lists cliques A) (hc : c ∈ cliques) (d : Dom)
    (θ : Clique → (Attr → Nat) → ℝ) (hθ : ∀ k ∈ cliques, Sem.DependsOn (θ k) k)
    (e : Attr → Nat → ℝ) (f : Clique → Attr → Nat → ℝ)
    (hs : ∀ u ∈ c, ¬ Shared cliques c u) :
    Claim d cliques A θ e f c := by
  refine ⟨Sem.sumOver d (A.filter (fun a => !c.contains a)) (fun _ => 0)
    (fun τ => Real.exp (logW (cliques.erase c) (keepA cliques A c) θ e τ)), fun σ hσ => ?_⟩
  rw [caseB_factor hL hc d θ hθ e σ]
  have hdep := dependsOn_logW (cliques.erase c) (keepA cliques A c) θ e
    (fun k hk => hθ k (List.mem_of_mem_erase hk)) (fun k hk a ha => rest_sub_keepA hL k hk a ha)
  have hdep' : Sem.DependsOn (fun τ => Real.exp (logW (cliques.erase c) (keepA cliques A c) θ e τ))
      (keepA cliques A c) := fun σ τ h => by
    show Real.exp _ = Real.exp _
    rw [hdep σ τ h]
  rw [sumOver_const_of_dependsOn d _ (keepA cliques A c) _ hdep' (by
    intro a ha
    obtain ⟨h1, h2⟩ := (mem_keepA a).mp ha
    rw [privA_iso hL hs] at h2
    exact List.mem_filter.mpr ⟨h1, by simpa using h2⟩) σ (fun _ => 0)]
  congr 2
  unfold bel
  congr 1
  rw [((dropA_perm hL hc).map _).sum_eq, privA_iso hL hs]
  congr 1
  apply List.map_congr_left
  intro u hu
  unfold nmsg
  rw [nOf_zero_of_not_shared f u (hs u hu), add_zero]

theorem caseB_sep (hL : Lists cliques A) (hc : c ∈ cliques) (d : Dom) (hd : d.WF)
    (θ : Clique → (Attr → Nat) → ℝ) (hθ : ∀ k ∈ cliques, Sem.DependsOn (θ k) k)
    (e : Attr → Nat → ℝ) (f : Clique → Attr → Nat → ℝ)
    (s : Attr) (hs : SepLeaf cliques c s)
    (hvar : ∃ K' : ℝ, ∀ σ, d.Valid σ →
      Sem.sumOver d ((keepA cliques A c).filter (fun a => a != s)) σ
          (fun τ => Real.exp (logW (cliques.erase c) (keepA cliques A c) θ (eAdd f e c) τ))
        = K' * Real.exp (eAdd f e c s (σ s)
            + ((cliques.erase c).map (fun k => if s ∈ k then f k s (σ s) else 0)).sum)) :
    Claim d cliques A θ e f c := by
  obtain ⟨K', hK'⟩ := hvar
  refine ⟨K', fun σ hσ => ?_⟩
  rw [caseB_factor hL hc d θ hθ e σ]
  have hl : A.filter (fun a => !c.contains a) = (keepA cliques A c).filter (fun a => a != s) := by
    unfold keepA
    rw [List.filter_filter]
    apply List.filter_congr
    intro a _
    rw [Bool.eq_iff_iff]
    simp only [Bool.not_eq_eq_eq_not, Bool.not_true, Bool.and_eq_true, bne_iff_ne, ne_eq]
    rw [Bool.eq_false_iff, Bool.eq_false_iff, ne_eq, ne_eq, List.contains_iff_mem, List.contains_iff_mem,
      mem_privA hL a]
    constructor
    · intro hac
      exact ⟨fun h => hac (h ▸ hs.1), fun h => hac h.1⟩
    · rintro ⟨h1, h2⟩ hac
      exact h2 ⟨hac, hs.2.2 a hac h1⟩
  have hfun : (fun τ => Real.exp (logW (cliques.erase c) (keepA cliques A c) θ e τ)) = (fun τ =>
      Real.exp (logW (cliques.erase c) (keepA cliques A c) θ (eAdd f e c) τ) * Real.exp (-(f c s (τ s)))) := by
    funext τ
    rw [logW_eAdd, keep_sum_sep hL hc s hs (fun v => f c v (τ v)), ← Real.exp_add]
    congr 1
    ring
  rw [hl, hfun, Sem.sumOver_factor_right d _ σ _ (fun τ => Real.exp (-(f c s (τ s)))) (by
    intro w _
    rw [Sem.override_of_not_mem _ _ _ _ (by simp)]), hK' σ hσ]
  rw [mul_assoc, mul_assoc, ← Real.exp_add, ← Real.exp_add]
  congr 2
  -- the exponents agree
  have hcn := hL.clNodup c hc
  unfold bel
  have h1 := sum_map_filter_ne c hcn s hs.1 (fun u => nmsg cliques e f u c (σ u))
  have h2 : ((c.filter (fun var => var != s)).map (fun u => nmsg cliques e f u c (σ u))).sum
      = ((dropA cliques A c).map (fun u => e u (σ u))).sum := by
    rw [((dropA_perm hL hc).map _).sum_eq, privA_sep hL s hs]
    congr 1
    apply List.map_congr_left
    intro u hu
    obtain ⟨hu1, hu2⟩ := List.mem_filter.mp hu
    have hus : u ≠ s := by simpa using hu2
    unfold nmsg
    rw [nOf_zero_of_not_shared f u (hs.2.2 u hu1 hus), add_zero]
  have h3 : nmsg cliques e f s c (σ s)
      = e s (σ s) + ((cliques.erase c).map (fun k => if s ∈ k then f k s (σ s) else 0)).sum := by
    unfold nmsg
    rw [nOf_erase cliques c hc]
    simp only [ne_eq, not_true_eq_false, and_false, if_false, zero_add]
    congr 1
    unfold nOf
    congr 1
    apply List.map_congr_left
    intro k hk
    have hkc : k ≠ c := ((mem_rest hL k).mp hk).1
    simp [hkc]
  have h4 : eAdd f e c s (σ s) = e s (σ s) + f c s (σ s) := by
    unfold eAdd
    simp [hs.1]
  rw [h4]
  linarith

end

/-! ### the theorem -/

/-- **consistent messages on a forest give the marginals** -/
theorem marginal_of_consistent (d : Dom) (hd : d.WF) (θ : Clique → (Attr → Nat) → ℝ)
    (f : Clique → Attr → Nat → ℝ) (h : Clique → Attr → Nat) (Sh : Clique → Attr → Prop) :
    ∀ n, ∀ (cliques : List Clique) (A : List Attr) (e : Attr → Nat → ℝ) (t : Clique),
      cliques.length = n → Lists cliques A → (∀ k ∈ cliques, Sem.DependsOn (θ k) k) →
      Forest cliques h → (∀ cl ∈ cliques, ∀ v ∈ cl, Shared cliques cl v → Sh cl v) →
      (∀ cl ∈ cliques, ∀ v ∈ cl, Sh cl v → MsgEq d cliques θ e f cl v) →
      t ∈ cliques → Claim d cliques A θ e f t := by
  intro n
  induction n with
  | zero =>
    intro cliques A e t hlen _ _ _ _ _ ht
    rw [List.length_eq_zero_iff.mp hlen] at ht
    simp at ht
  | succ n ih =>
    intro cliques A e t hlen hL hθ hF hSh hcons ht
    have hne : cliques ≠ [] := by intro h0; rw [h0] at ht; simp at ht
    obtain ⟨c, hc, hleaf⟩ := exists_leaf cliques hne h hF
    -- the reduced system
    have hlen' : (cliques.erase c).length = n := by
      rw [List.length_erase_of_mem hc, hlen]; rfl
    have hL' := hL.erase c
    have hθ' : ∀ k ∈ cliques.erase c, Sem.DependsOn (θ k) k := fun k hk => hθ k (List.mem_of_mem_erase hk)
    have hF' := hF.erase c
    have hSh' : ∀ cl ∈ cliques.erase c, ∀ v ∈ cl, Shared (cliques.erase c) cl v → Sh cl v := by
      intro cl hcl v hv hsh
      obtain ⟨g, hg, hgc, hvg⟩ := hsh
      exact hSh cl (List.mem_of_mem_erase hcl) v hv ⟨g, List.mem_of_mem_erase hg, hgc, hvg⟩
    have hcons' : ∀ cl ∈ cliques.erase c, ∀ v ∈ cl, Sh cl v →
        MsgEq d (cliques.erase c) θ (eAdd f e c) f cl v := by
      intro cl hcl v hv hsh
      exact msgEq_erase hL hc d θ e f cl hcl v (hcons cl (List.mem_of_mem_erase hcl) v hv hsh)
    have IH : ∀ t' ∈ cliques.erase c, Claim d (cliques.erase c) (keepA cliques A c) θ (eAdd f e c) f t' :=
      fun t' ht' => ih (cliques.erase c) (keepA cliques A c) (eAdd f e c) t' hlen' hL' hθ' hF' hSh' hcons' ht'
    by_cases htc : t = c
    · subst htc
      rcases hleaf with hiso | ⟨s, hs1, hs2, hs3⟩
      · exact caseB_iso hL hc d θ hθ e f hiso
      · have hsep : SepLeaf cliques t s := ⟨hs1, hs2, hs3⟩
        obtain ⟨g, hg, hgt, hsg⟩ := hs2
        have hg' : g ∈ cliques.erase t := (mem_rest hL g).mpr ⟨hgt, hg⟩
        have hm : MsgEq d (cliques.erase t) θ (eAdd f e t) f g s :=
          hcons' g hg' s hsg (hSh g hg s hsg ⟨t, hc, fun h => hgt h.symm, hs1⟩)
        exact caseB_sep hL hc d hd θ hθ e f s hsep
          (var_marginal hL' d hd θ (eAdd f e t) f g hg' s hsg hm (IH g hg'))
    · have ht' : t ∈ cliques.erase c := (mem_rest hL t).mpr ⟨htc, ht⟩
      rcases hleaf with hiso | ⟨s, hs1, hs2, hs3⟩
      · exact caseA hL hc d hd θ e f t ht' (peel_iso hL hc d θ hθ e f hiso) (IH t ht')
      · have hsep : SepLeaf cliques c s := ⟨hs1, hs2, hs3⟩
        exact caseA hL hc d hd θ e f t ht'
          (peel_sep hL hc d θ hθ e f s hsep (hcons c hc s hs1 (hSh c hc s hs1 hs2))) (IH t ht')

end PGM.LbpTree
