import PGM.Proofs.SynthTableHist
import PGM.Model.SynthChain
import Mathlib.Algebra.BigOperators.Group.List.Basic
import Mathlib.Algebra.Order.BigOperators.Group.List
import Mathlib.Data.Rat.BigOperators
import Mathlib.Tactic.Ring
import Mathlib.Tactic.Linarith
/-!
# Synthetic records, the whole table: chain-rule targets (C11, part 2, definitions and counting)

The cells of a step (value tuples over `proj ++ [col]`), the cells of a parent step that project
onto one key of a child step, the chain-rule targets and the error bound; the counting facts:
the rows with a given key on `pos' ⊆ pos` are partitioned by their cells over `pos`, and at most
`∏ sizes (pos \ pos')` cells over `pos` project onto one key over `pos'`.
-/
namespace PGM.Synth

namespace Table

/-! ### `tuplesOver` -/

theorem length_of_mem_tuplesOver (size : Nat → Nat) (pos : List Nat) (t : List Nat)
    (h : t ∈ tuplesOver size pos) : t.length = pos.length := by
  induction pos generalizing t with
  | nil => simp only [tuplesOver, List.mem_singleton] at h; subst h; rfl
  | cons a pos ih =>
    simp only [tuplesOver, List.mem_flatMap, List.mem_range, List.mem_map] at h
    obtain ⟨x, _, t', ht', rfl⟩ := h
    simp [ih t' ht']

theorem key_mem_tuplesOver (size : Nat → Nat) (pos : List Nat) (r : Row)
    (h : ∀ a ∈ pos, r.getD a 0 < size a) : key pos r ∈ tuplesOver size pos := by
  induction pos with
  | nil => simp [key, tuplesOver]
  | cons a pos ih =>
    simp only [tuplesOver, List.mem_flatMap, List.mem_range, List.mem_map]
    refine ⟨r.getD a 0, h a List.mem_cons_self, key pos r,
      ih (fun b hb => h b (List.mem_cons_of_mem _ hb)), rfl⟩

theorem nodup_tuplesOver (size : Nat → Nat) (pos : List Nat) : (tuplesOver size pos).Nodup := by
  induction pos with
  | nil => simp [tuplesOver]
  | cons a pos ih =>
    unfold tuplesOver
    rw [List.nodup_flatMap]
    refine ⟨fun x _ => ih.map (fun t t' e => (List.cons.inj e).2), ?_⟩
    apply (List.nodup_range (n := size a)).imp
    intro x y hxy t h1 h2
    simp only [List.mem_map] at h1 h2
    obtain ⟨t1, _, rfl⟩ := h1
    obtain ⟨t2, _, e⟩ := h2
    exact hxy (List.cons.inj e).1.symm

/-! ### reading a cell at fewer positions -/

theorem key_getD_idxOf (pos : List Nat) (r : Row) (a : Nat) (ha : a ∈ pos) :
    (key pos r).getD (pos.idxOf a) 0 = r.getD a 0 := by
  have hlt : pos.idxOf a < pos.length := List.idxOf_lt_length_iff.2 ha
  unfold key
  rw [List.getD_eq_getElem?_getD, List.getElem?_map, List.getElem?_eq_getElem hlt, Option.map_some,
    Option.getD_some, List.getElem_idxOf]

theorem restrict_key (pos pos' : List Nat) (r : Row) (h : ∀ a ∈ pos', a ∈ pos) :
    restrict pos pos' (key pos r) = key pos' r := by
  unfold restrict
  conv_rhs => unfold key
  apply List.map_congr_left
  intro a ha
  exact key_getD_idxOf pos r a (h a ha)

/-! ### partition of a projected cell into the cells above it -/

theorem sum_map_ite_eq {α : Type} [BEq α] [LawfulBEq α] (l : List α) (hnd : l.Nodup) (x : α) :
    (l.map (fun c => if x == c then 1 else 0)).sum = if x ∈ l then 1 else 0 := by
  induction l with
  | nil => rfl
  | cons c l ih =>
    rw [List.nodup_cons] at hnd
    rw [List.map_cons, List.sum_cons, ih hnd.2]
    by_cases hx : x = c
    · subst hx; simp [hnd.1]
    · have : x ∈ c :: l ↔ x ∈ l := by simp [hx]
      have hb : (x == c) = false := by simpa using hx
      simp only [hb, Bool.false_eq_true, if_false, Nat.zero_add, this]

theorem count_partition {α : Type} [BEq α] [LawfulBEq α] (cells : List α) (hnd : cells.Nodup)
    (cellOf : Row → α) (P : α → Bool) (rows : List Row) (hmem : ∀ r ∈ rows, cellOf r ∈ cells) :
    ((cells.filter P).map (fun c => (rows.filter (fun r => cellOf r == c)).length)).sum
      = (rows.filter (fun r => P (cellOf r))).length := by
  induction rows with
  | nil => simp
  | cons r rows ih =>
    have ih' := ih (fun r hr => hmem r (List.mem_cons_of_mem _ hr))
    have h1 : ∀ c, ((r :: rows).filter (fun r => cellOf r == c)).length
        = (if cellOf r == c then 1 else 0) + (rows.filter (fun r => cellOf r == c)).length := by
      intro c
      rw [List.filter_cons]
      by_cases h : (cellOf r == c) = true
      · simp only [h, if_true, List.length_cons]; omega
      · simp [h]
    simp only [h1]
    rw [List.sum_map_add, ih', sum_map_ite_eq _ (hnd.filter _), List.filter_cons]
    have hm : cellOf r ∈ cells.filter P ↔ P (cellOf r) = true := by
      rw [List.mem_filter]
      exact ⟨fun h => h.2, fun h => ⟨hmem r List.mem_cons_self, h⟩⟩
    by_cases hp : P (cellOf r) = true
    · simp only [hm, hp, if_true, List.length_cons]; omega
    · simp [hm, hp]

/-- the rows with key `g` on `pos'` are partitioned by their cells over `pos ⊇ pos'` -/
theorem cellCount_partition (size : Nat → Nat) (pos pos' g : List Nat) (rows : List Row)
    (hsub : ∀ a ∈ pos', a ∈ pos) (hdom : ∀ r ∈ rows, ∀ a ∈ pos, r.getD a 0 < size a) :
    cellCount pos' g rows
      = (((tuplesOver size pos).filter (fun c => restrict pos pos' c == g)).map
          (fun c => cellCount pos c rows)).sum := by
  have := count_partition (tuplesOver size pos) (nodup_tuplesOver size pos) (key pos)
    (fun c => restrict pos pos' c == g) rows (fun r hr => key_mem_tuplesOver size pos r (hdom r hr))
  unfold cellCount
  rw [this]
  congr 1
  apply List.filter_congr
  intro r _
  rw [restrict_key pos pos' r hsub]

/-! ### how many cells project onto one key -/

/-- the value `x` is admissible at position `a` -/
def chk (want : Nat → Option Nat) (a x : Nat) : Bool :=
  match want a with
  | some y => x == y
  | none => true

/-- the tuple has the wanted value at every constrained position (walking `pos` and the tuple) -/
def okTuple (want : Nat → Option Nat) : List Nat → List Nat → Bool
  | a :: pos, x :: t => chk want a x && okTuple want pos t
  | _, _ => true

theorem sum_map_ite_le (l : List Nat) (hnd : l.Nodup) (y c : Nat) :
    (l.map (fun x => if x = y then c else 0)).sum ≤ c := by
  induction l with
  | nil => simp
  | cons x l ih =>
    rw [List.nodup_cons] at hnd
    rw [List.map_cons, List.sum_cons]
    by_cases hx : x = y
    · subst hx
      have : (l.map (fun x' => if x' = x then c else 0)).sum = 0 := by
        apply List.sum_eq_zero
        intro z hz
        obtain ⟨w, hw, rfl⟩ := List.mem_map.1 hz
        have : w ≠ x := fun e => hnd.1 (e ▸ hw)
        simp [this]
      simp [this]
    · simp only [hx, if_false, Nat.zero_add]; exact ih hnd.2

theorem okTuple_count (size : Nat → Nat) (want : Nat → Option Nat) (pos : List Nat) :
    ((tuplesOver size pos).filter (okTuple want pos)).length
      ≤ ((pos.filter (fun a => (want a).isNone)).map size).prod := by
  induction pos with
  | nil => simp [tuplesOver, okTuple]
  | cons a pos ih =>
    unfold tuplesOver
    rw [List.filter_flatMap, List.length_flatMap]
    have hterm : ∀ x, (((tuplesOver size pos).map (fun t => x :: t)).filter (okTuple want (a :: pos))).length
        = if chk want a x = true
          then ((tuplesOver size pos).filter (okTuple want pos)).length else 0 := by
      intro x
      rw [List.filter_map, List.length_map]
      cases h : chk want a x
      · have : ∀ t ∈ tuplesOver size pos, (okTuple want (a :: pos) ∘ fun t => x :: t) t = false := by
          intro t _
          simp only [Function.comp, okTuple, h, Bool.false_and]
        rw [List.filter_congr (q := fun _ => false) this]
        simp
      · simp only [if_true]
        congr 1
        apply List.filter_congr
        intro t _
        simp only [Function.comp, okTuple, h, Bool.true_and]
    simp only [hterm]
    cases hw : want a with
    | none =>
      have hc : ∀ x, chk want a x = true := fun x => by simp [chk, hw]
      have hf : ((a :: pos).filter (fun a => (want a).isNone)) = a :: pos.filter (fun a => (want a).isNone) := by
        rw [List.filter_cons]; simp [hw]
      simp only [hc, if_true]
      rw [hf, List.map_cons, List.prod_cons, List.map_const', List.sum_replicate_nat, List.length_range]
      exact Nat.mul_le_mul_left _ ih
    | some y =>
      have hc : ∀ x, chk want a x = (x == y) := fun x => by simp [chk, hw]
      have : (pos.filter (fun a => (want a).isNone)) = ((a :: pos).filter (fun a => (want a).isNone)) := by
        rw [List.filter_cons]; simp [hw]
      rw [← this]
      refine Nat.le_trans ?_ ih
      have := sum_map_ite_le (List.range (size a)) List.nodup_range y
        ((tuplesOver size pos).filter (okTuple want pos)).length
      simpa [hc, beq_iff_eq] using this

theorem okTuple_iff (want : Nat → Option Nat) (pos t : List Nat) (hlen : t.length = pos.length) :
    okTuple want pos t = true ↔
      ∀ i (hi : i < pos.length) y, want pos[i] = some y → t.getD i 0 = y := by
  induction pos generalizing t with
  | nil => simp [okTuple]
  | cons a pos ih =>
    cases t with
    | nil => simp at hlen
    | cons x t =>
      have hl : t.length = pos.length := by simpa using hlen
      simp only [okTuple, Bool.and_eq_true, ih t hl]
      constructor
      · rintro ⟨h0, hrest⟩ i hi y hy
        cases i with
        | zero =>
          simp only [List.getElem_cons_zero] at hy
          simp only [chk, hy, beq_iff_eq] at h0
          simpa using h0
        | succ i =>
          simp only [List.getElem_cons_succ] at hy
          have := hrest i (by simpa using hi) y hy
          simpa using this
      · intro h
        refine ⟨?_, fun i hi y hy => ?_⟩
        · cases hw : want a with
          | none => simp [chk, hw]
          | some y =>
            have := h 0 (by simp) y (by simpa using hw)
            simp only [chk, hw, beq_iff_eq]
            simpa using this
        · have := h (i + 1) (by simpa using hi) y (by simpa using hy)
          simpa using this

/-- at most `∏ size (pos \ pos')` cells over `pos` project onto one key over `pos'` -/
theorem fiber_length_le (size : Nat → Nat) (pos pos' g : List Nat) (hnd : pos.Nodup) :
    ((tuplesOver size pos).filter (fun c => restrict pos pos' c == g)).length
      ≤ ((pos.filter (fun a => !pos'.contains a)).map size).prod := by
  let want : Nat → Option Nat := fun a => if a ∈ pos' then some (g.getD (pos'.idxOf a) 0) else none
  have hfil : (pos.filter (fun a => !pos'.contains a)) = pos.filter (fun a => (want a).isNone) := by
    apply List.filter_congr
    intro a _
    by_cases ha : a ∈ pos'
    · simp [want, ha]
    · simp [want, ha]
  rw [hfil]
  refine Nat.le_trans ?_ (okTuple_count size want pos)
  rw [← List.countP_eq_length_filter, ← List.countP_eq_length_filter]
  apply List.countP_mono_left
  intro c hc hr
  have hlen := length_of_mem_tuplesOver size pos c hc
  rw [okTuple_iff want pos c hlen]
  intro i hi y hy
  have hg : restrict pos pos' c = g := by simpa using hr
  by_cases ha : pos[i] ∈ pos'
  · simp only [want, ha, if_true, Option.some.injEq] at hy
    rw [← hy, ← hg]
    have hlt : pos'.idxOf pos[i] < pos'.length := List.idxOf_lt_length_iff.2 ha
    unfold restrict
    rw [List.getD_eq_getElem?_getD (l := List.map _ _), List.getElem?_map,
      List.getElem?_eq_getElem hlt, Option.map_some, Option.getD_some, List.getElem_idxOf,
      hnd.idxOf_getElem]
  · simp [want, ha] at hy

end Table
end PGM.Synth
