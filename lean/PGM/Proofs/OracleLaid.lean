import PGM.Proofs.OracleLbp
import PGM.Proofs.OracleSem
import PGM.Proofs.LocalE2EShape
/-!
# The DOMAIN invariant of the three local oracles (helpers for `Properties/C18H.lean`)

`TablesOn` / `PosMsgs` / `PosState` speak of cell values and of extents only.  Here: the DOMAINS.  If the potentials are laid
out on the cliques (`Laid`) and the persisted messages are well-formed tables over their single-attribute (LBP) / separator
(GBP, HPS) domains, one oracle call returns marginals laid out on the cliques and messages with the same layout.  Beliefs are
`Factor.add` (domain merge with a table on a sub-domain: the domain is unchanged), messages are `logsumexp` onto a sub-domain.
-/
namespace PGM.OracleLaid
open PGM PGM.JT PGM.RG PGM.Oracle PGM.LocalE2E

/-! ### tables on a sub-domain -/

/-- a well-formed table over part of `P`, with `P`'s extents (`Oracle.ZeroSub` without the values) -/
def SubOf (P : Dom) (f : Factor ℝ) : Prop := f.WF ∧ P.contains f.dom = true ∧ f.dom.Agrees P

theorem SubOf.addScalar {P : Dom} {f : Factor ℝ} (h : SubOf P f) (c : ℝ) : SubOf P (f.addScalar c) :=
  ⟨addScalar_WF f h.1 c, h.2.1, h.2.2⟩

theorem SubOf.add {P : Dom} {f g : Factor ℝ} (hf : SubOf P f) (hg : SubOf P g) : SubOf P (f.add g) := by
  obtain ⟨hfw, hfc, hfa⟩ := hf
  obtain ⟨hgw, hgc, hga⟩ := hg
  have hcompat : f.dom.Compatible g.dom := compatible_of_agrees_both hfa hga
  have hM := Dom.merge_WF f.dom g.dom hfw.1 hgw.1
  refine ⟨Factor.binop_WF Scalar.add f g hfw hgw hcompat, ?_, ?_⟩
  · show P.contains (f.dom.merge g.dom) = true
    rw [Dom.contains_iff] at hfc hgc ⊢
    intro a ha
    rw [Dom.attrs_merge] at ha
    rcases List.mem_append.mp ha with h | h
    · exact hfc a h
    · exact hgc a (List.mem_filter.mp h).1
  · show (f.dom.merge g.dom).Agrees P
    rw [Dom.agrees_iff _ _ hM]
    intro a ha
    by_cases h : a ∈ f.dom.attrs
    · rw [Dom.cfg_merge_left _ _ a h]
      exact (Dom.agrees_iff _ _ hfw.1).mp hfa a h
    · rw [Dom.attrs_merge] at ha
      have hag : a ∈ g.dom.attrs := by
        rcases List.mem_append.mp ha with h' | h'
        · exact absurd h' h
        · exact (List.mem_filter.mp h').1
      rw [Dom.cfg_merge_right _ _ a h hag]
      exact (Dom.agrees_iff _ _ hgw.1).mp hga a hag

def SubSum (P : Dom) : PySum ℝ → Prop
  | .zero => True
  | .fac g => SubOf P g

theorem subSum_pySum (P : Dom) (l : List (Factor ℝ)) (h : ∀ f ∈ l, SubOf P f) : SubSum P (pySum l) := by
  unfold pySum
  apply foldl_inv (SubSum P) _ _ PySum.zero (show SubSum P PySum.zero from trivial)
  intro acc x hx ha
  cases acc with
  | zero => exact (h x hx).addScalar _
  | fac g => exact SubOf.add ha (h x hx)

/-- adding a table on a sub-domain keeps the domain -/
theorem add_subOf (pot z : Factor ℝ) (hp : pot.WF) (hz : SubOf pot.dom z) :
    (pot.add z).WF ∧ (pot.add z).dom = pot.dom := by
  obtain ⟨hzw, hzc, hza⟩ := hz
  have hcompat : pot.dom.Compatible z.dom := Dom.compatible_of_agrees _ _ hp.1 hza
  exact ⟨Factor.binop_WF Scalar.add pot z hp hzw hcompat, Dom.merge_eq_self_of_contains _ _ hzc⟩

theorem sub_subOf (pot z : Factor ℝ) (hp : pot.WF) (hz : SubOf pot.dom z) :
    (pot.sub z).WF ∧ (pot.sub z).dom = pot.dom := by
  obtain ⟨hzw, hzc, hza⟩ := hz
  have hcompat : pot.dom.Compatible z.dom := Dom.compatible_of_agrees _ _ hp.1 hza
  exact ⟨sub_WF pot z hp hzw hcompat, Dom.merge_eq_self_of_contains _ _ hzc⟩

theorem addSum_subSum (pot : Factor ℝ) (s : PySum ℝ) (hp : pot.WF) (hs : SubSum pot.dom s) :
    (addSum pot s).WF ∧ (addSum pot s).dom = pot.dom := by
  cases s with
  | zero => exact ⟨addScalar_WF pot hp _, rfl⟩
  | fac z => exact add_subOf pot z hp hs

theorem subSum_subSum (pot : Factor ℝ) (s : PySum ℝ) (hp : pot.WF) (hs : SubSum pot.dom s) :
    (subSum pot s).WF ∧ (subSum pot s).dom = pot.dom := by
  cases s with
  | zero => exact ⟨subScalar_WF pot hp _, rfl⟩
  | fac z => exact sub_subOf pot z hp hs

/-- a well-formed table over `dom.project c` -/
def On (dom : Dom) (c : Clique) (f : Factor ℝ) : Prop := f.WF ∧ f.dom = dom.project c

theorem contains_project (dom : Dom) (c r : Clique) (h : ∀ a ∈ c, a ∈ r) :
    (dom.project r).contains (dom.project c) = true := by
  rw [Dom.contains_iff, Dom.attrs_project, Dom.attrs_project]
  exact h

theorem agrees_project (dom : Dom) (c r : Clique) (h : ∀ a ∈ c, a ∈ r) : (dom.project c).Agrees (dom.project r) := by
  intro p hp
  simp only [Dom.project, List.mem_map] at hp
  obtain ⟨a, ha, rfl⟩ := hp
  exact Dom.cfg_project dom r a (h a ha)

/-- a table over `c ⊆ r` is a table on a sub-domain of `dom.project r` -/
theorem On.subOf {dom : Dom} {c : Clique} {f : Factor ℝ} (h : On dom c f) (r : Clique) (hcr : ∀ a ∈ c, a ∈ r) :
    SubOf (dom.project r) f := by
  obtain ⟨hw, hd⟩ := h
  refine ⟨hw, ?_, ?_⟩
  · rw [hd]; exact contains_project dom c r hcr
  · rw [hd]; exact agrees_project dom c r hcr

theorem on_zeros (dom : Dom) (c : Clique) (hc : c.Nodup) : On dom c (Factor.zeros (dom.project c)) :=
  ⟨CVSem.const_WF _ (project_WF dom c hc) _, rfl⟩

/-- `normalise` keeps well-formedness and the domain -/
theorem normalise_on (T : ℝ) (b : Factor ℝ) (hb : b.WF) : (normalise T b).WF ∧ (normalise T b).dom = b.dom := by
  have h1 : (b.iaddScalar (Scalar.sub (Scalar.log T) b.logsumexpAll)).WF := by
    refine ⟨hb.1, hb.2.1, ?_⟩
    exact NdArr.map_WF _ b.vals hb.2.2
  exact ⟨mapF_WF _ h1 _, rfl⟩

/-! ### loopy belief propagation -/

/-- the persisted messages of a `FactorGraph`: both `mu_n[v][cl]` and `mu_f[cl][v]` are well-formed tables over `[v]` -/
def MsgsLaidFG (dom : Dom) (cliques : List Clique) (s : FG.State ℝ) : Prop :=
  ∀ cl ∈ cliques, ∀ v ∈ cl, On dom [v] (FG.getN s v cl) ∧ On dom [v] (FG.getF s cl v)

theorem singleton_sub (cl : Clique) (v : Attr) (hv : v ∈ cl) : ∀ a ∈ [v], a ∈ cl := by
  intro a ha; rw [List.mem_singleton.mp ha]; exact hv

theorem pre_subSum (dom : Dom) (cliques : List Clique) (s : FG.State ℝ) (hs : MsgsLaidFG dom cliques s)
    (cl : Clique) (hcl : cl ∈ cliques) :
    SubSum (dom.project cl) (pySum (cl.map (fun c => FG.getN s c cl))) := by
  apply subSum_pySum
  intro f hf
  obtain ⟨v, hv, rfl⟩ := List.mem_map.mp hf
  exact (hs cl hcl v hv).1.subOf cl (singleton_sub cl v hv)

/-- the belief of a clique is a table over the clique -/
theorem belief_on (dom : Dom) (cliques : List Clique) (pots : CliqueVec ℝ) (hp : Laid dom cliques pots)
    (s : FG.State ℝ) (hs : MsgsLaidFG dom cliques s) (cl : Clique) (hcl : cl ∈ cliques) :
    On dom cl (addSum (pots.get cl) (pySum (cl.map (fun c => FG.getN s c cl)))) := by
  obtain ⟨hw, hd⟩ := hp.get cl hcl
  obtain ⟨h1, h2⟩ := addSum_subSum (pots.get cl) _ hw (hd ▸ pre_subSum dom cliques s hs cl hcl)
  exact ⟨h1, h2.trans hd⟩

/-- the factor-to-variable message is a well-formed table over `[v]` -/
theorem facMsg_on (dom : Dom) (cl : Clique) (hn : cl.Nodup) (v : Attr) (hv : v ∈ cl) (pot : Factor ℝ)
    (hp : pot.WF) (hpd : pot.dom = dom.project cl) (pre : PySum ℝ) (hpre : SubSum (dom.project cl) pre)
    (N : Factor ℝ) (hN : On dom [v] N) (c : ℝ) :
    On dom [v] ((((addSum pot pre).sub N).logsumexp (cl.filter (fun var => var != v))).subScalar c) := by
  obtain ⟨hA, hAd⟩ := addSum_subSum pot pre hp (hpd ▸ hpre)
  have hNz : SubOf (addSum pot pre).dom N := by rw [hAd, hpd]; exact hN.subOf cl (singleton_sub cl v hv)
  obtain ⟨hB, hBd⟩ := sub_subOf _ N hA hNz
  have hC := Factor.reduce_WF Scalar.lse ((addSum pot pre).sub N) (cl.filter (fun var => var != v)) hB
  refine ⟨subScalar_WF _ hC c, ?_⟩
  show ((addSum pot pre).sub N).dom.marginalize (cl.filter (fun var => var != v)) = _
  rw [hBd, hAd, hpd, marginalize_complement dom cl hn v hv]

theorem on_self_subOf {dom : Dom} {c : Clique} {f g : Factor ℝ} (hf : On dom c f) (hg : On dom c g) : SubOf f.dom g := by
  rw [hf.2]; exact hg.subOf c (fun _ h => h)

/-- a Python `sum` of tables over `c` is `0` or a table over `c` -/
def OnSum (dom : Dom) (c : Clique) : PySum ℝ → Prop
  | .zero => True
  | .fac g => On dom c g

theorem onSum_pySum (dom : Dom) (c : Clique) (l : List (Factor ℝ)) (h : ∀ f ∈ l, On dom c f) : OnSum dom c (pySum l) := by
  unfold pySum
  apply foldl_inv (OnSum dom c) _ _ PySum.zero (show OnSum dom c PySum.zero from trivial)
  intro acc x hx ha
  cases acc with
  | zero => exact ⟨addScalar_WF x (h x hx).1 _, (h x hx).2⟩
  | fac g =>
    obtain ⟨h1, h2⟩ := add_subOf g x ha.1 (on_self_subOf ha (h x hx))
    exact ⟨h1, h2.trans ha.2⟩

theorem lbpSweep_laid (dom : Dom) (cliques : List Clique) (pots : CliqueVec ℝ) (hp : Laid dom cliques pots)
    (hcl : ∀ cl ∈ cliques, cl.Nodup)
    (s : FG.State ℝ) (hs : MsgsLaidFG dom cliques s) : MsgsLaidFG dom cliques (FG.lbpSweep dom cliques pots s) := by
  unfold FG.lbpSweep
  apply foldl_inv (MsgsLaidFG dom cliques)
  · -- factor to variable
    apply foldl_inv (MsgsLaidFG dom cliques) _ _ _ hs
    intro s cl hcl' hs
    have hpre := pre_subSum dom cliques s hs cl hcl'
    apply foldl_inv (MsgsLaidFG dom cliques) _ _ _ hs
    intro s' v hv hs' cl' hcl'' v' hv'
    simp only
    rw [getN_setF, getF_setF]
    refine ⟨(hs' cl' hcl'' v' hv').1, ?_⟩
    split
    · rename_i heq
      have : (cl', v') = (cl, v) := eq_of_beq heq
      obtain ⟨rfl, rfl⟩ := Prod.mk.inj this
      exact facMsg_on dom cl' (hcl cl' hcl'') v' hv' _ (hp.get cl' hcl'').1 (hp.get cl' hcl'').2 _ hpre _
        (hs' cl' hcl'' v' hv').1 _
    · exact (hs' cl' hcl'' v' hv').2
  · -- variable to factor
    intro s v _ hs
    dsimp only
    have hsum : OnSum dom [v] (pySum ((cliques.filter (fun cl => cl.contains v)).map (fun cl => FG.getF s cl v))) := by
      apply onSum_pySum
      intro f hf
      obtain ⟨cl, hc, rfl⟩ := List.mem_map.mp hf
      obtain ⟨hc1, hc2⟩ := List.mem_filter.mp hc
      exact (hs cl hc1 v (List.contains_iff_mem.mp hc2)).2
    generalize pySum ((cliques.filter (fun cl => cl.contains v)).map (fun cl => FG.getF s cl v)) = ps at hsum
    cases ps with
    | zero => exact hs
    | fac pre =>
      dsimp only
      apply foldl_inv (MsgsLaidFG dom cliques) _ _ _ hs
      intro s' f hf hs' cl' hcl' v' hv'
      obtain ⟨hf1, hf2⟩ := List.mem_filter.mp hf
      rw [getN_setN, getF_setN]
      refine ⟨?_, (hs' cl' hcl' v' hv').2⟩
      split
      · rename_i heq
        have : (v', cl') = (v, f) := eq_of_beq heq
        obtain ⟨rfl, rfl⟩ := Prod.mk.inj this
        obtain ⟨h1, h2⟩ := sub_subOf pre _ hsum.1 (on_self_subOf hsum (hs' cl' hcl' v' hv').2)
        exact ⟨h1, h2.trans hsum.2⟩
      · exact (hs' cl' hcl' v' hv').1

theorem initMessages_laidFG (dom : Dom) (cliques : List Clique) : MsgsLaidFG dom cliques (FG.initMessages dom cliques) := by
  intro cl hcl v hv
  obtain ⟨h1, h2⟩ := initMessages_inv dom cliques cl hcl v hv
  exact ⟨⟨h1.1, h1.2.1⟩, h2⟩

/-- **LBP, the domain invariant**: potentials laid out on the (duplicate-free) cliques and messages over their single-attribute
domains give marginals laid out on the cliques and messages with the same layout, for any number of sweeps -/
theorem lbp_laid (dom : Dom) (cliques : List Clique) (pots : CliqueVec ℝ) (T : ℝ) (iters : Nat) (s : FG.State ℝ)
    (hnd : cliques.Nodup) (hcl : ∀ cl ∈ cliques, cl.Nodup) (hp : Laid dom cliques pots) (hs : MsgsLaidFG dom cliques s) :
    Laid dom cliques (FG.lbp dom cliques pots T iters s).1 ∧ MsgsLaidFG dom cliques (FG.lbp dom cliques pots T iters s).2 := by
  have hit : MsgsLaidFG dom cliques (RG.iterate (FG.lbpSweep dom cliques pots) iters s) :=
    iterate_inv (MsgsLaidFG dom cliques) _ (fun m hm => lbpSweep_laid dom cliques pots hp hcl m hm) iters s hs
  refine ⟨⟨lbp_keys dom cliques pots T iters s hnd, ?_⟩, hit⟩
  intro p hpm
  rw [lbp_eq_fill] at hpm
  rcases mem_fill _ _ _ p hpm with h | h
  · simp at h
  · rw [h.2]
    obtain ⟨b1, b2⟩ := belief_on dom cliques pots hp _ hit p.1 h.1
    obtain ⟨n1, n2⟩ := normalise_on T _ b1
    exact ⟨n1, n2.trans b2⟩

end PGM.OracleLaid
