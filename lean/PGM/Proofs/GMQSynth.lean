import PGM.Generated.GraphicalModelQG
import PGM.Proofs.SynthSem
import PGM.Model.SynthTable
/-!
# helper lemmas for `Properties/C11G.lean`: the generated `synthetic_col` against `Model/Synth.lean`

`GMQ.syntheticCol` is the statement-level translation of the inner function of `synthetic_data`; the draws
(`np.random.choice`, `np.random.shuffle`) are contract parameters threading the generator state.  `RngOK` states what numpy
guarantees about them; under it the rounding branch returns a permutation of the model's `Synth.column counts total pick`, where
`pick` is what `np.random.choice(n, extra, False, frac/frac.sum())` returned — an admissible outcome (`pickOK`).
-/
namespace PGM.GMQGen
open PGM PGM.Synth
set_option linter.unusedVariables false

/-- number of positive entries among the first `n` probabilities -/
def posCount (n : Nat) (p : List Rat) : Nat := ((p.take n).filter (fun x => decide (0 < x))).length

/-- what numpy guarantees about the draws (for every generator state): sampling WITHOUT replacement returns `size` distinct indices
below `n`, each of positive probability — when at least `size` probabilities are positive (numpy raises otherwise); sampling WITH
replacement returns `size` values, which are indices below `n` of positive probability when some probability is positive (numpy raises
otherwise; the contract functions are total, as everywhere in the model); `shuffle` permutes -/
structure RngOK {G : Type} (cr cnr : G → Nat → Nat → List Rat → List Nat × G) (sh : G → List Nat → List Nat × G) : Prop where
  noreplace : ∀ g n k p, k ≤ posCount n p →
    (cnr g n k p).1.length = k ∧ (cnr g n k p).1.Nodup ∧ ∀ i ∈ (cnr g n k p).1, i < n ∧ 0 < p.getD i 0
  replace : ∀ g n k p, (cr g n k p).1.length = k ∧ (0 < posCount n p → ∀ i ∈ (cr g n k p).1, i < n ∧ 0 < p.getD i 0)
  shuffle : ∀ g l, ((sh g l).1).Perm l

/-! ### the numpy contracts against the model's arithmetic -/

theorem npsum_eq (l : List Rat) : GMQ.NpQ.sum l = sumQ l := rfl

theorem scaled_gen (counts : List Rat) (total : Nat) :
    counts.map (fun v => v * ((total : Rat) / GMQ.NpQ.sum counts)) = scaled counts total := by
  unfold scaled
  apply List.map_congr_left
  intro c _
  rw [npsum_eq, mul_div_assoc]

theorem trunc_nonneg {x : Rat} (hx : 0 ≤ x) : GMQ.NpQ.trunc x = x.floor := by
  unfold GMQ.NpQ.trunc
  rw [if_pos hx]

theorem trunc_intCast (k : Int) : GMQ.NpQ.trunc (k : Rat) = k := by
  unfold GMQ.NpQ.trunc
  split
  · rw [Aux.floor_eq]; exact Int.floor_intCast k
  · have : (-(k : Rat)) = ((-k : Int) : Rat) := by push_cast; ring
    rw [this, Aux.floor_eq, Int.floor_intCast]; ring

theorem frac_gen (xs : List Rat) (h : ∀ x ∈ xs, 0 ≤ x) : (GMQ.NpQ.modf xs).1 = fracs xs := by
  unfold GMQ.NpQ.modf fracs
  apply List.map_congr_left
  intro x hx
  rw [trunc_nonneg (h x hx)]

theorem integ_gen (xs : List Rat) (h : ∀ x ∈ xs, 0 ≤ x) :
    GMQ.NpQ.astypeInt (GMQ.NpQ.modf xs).2 = (floors xs).map Int.ofNat := by
  unfold GMQ.NpQ.modf GMQ.NpQ.astypeInt floors
  rw [List.map_map, List.map_map]
  apply List.map_congr_left
  intro x hx
  simp only [Function.comp]
  rw [trunc_intCast, trunc_nonneg (h x hx)]
  have : 0 ≤ x.floor := by rw [Aux.floor_eq]; exact Int.floor_nonneg.2 (h x hx)
  exact (Int.toNat_of_nonneg this).symm

theorem zsum_ofNat (l : List Nat) : GMQ.NpZ.sum (l.map Int.ofNat) = (sumN l : Int) := by
  unfold GMQ.NpZ.sum sumN
  have : ∀ (a : Nat), (l.map Int.ofNat).foldl (· + ·) (a : Int) = ((l.foldl (· + ·) a : Nat) : Int) := by
    induction l with
    | nil => intro a; rfl
    | cons x xs ih =>
      intro a
      rw [List.map_cons, List.foldl_cons, List.foldl_cons]
      have : (a : Int) + Int.ofNat x = ((a + x : Nat) : Int) := by simp
      rw [this, ih]
  exact this 0

theorem incrAt_ofNat (fl : List Nat) (pick : List Nat) :
    GMQ.NpZ.incrAt (fl.map Int.ofNat) pick
      = (fl.zipIdx.map (fun (f, i) => if pick.contains i then f + 1 else f)).map Int.ofNat := by
  unfold GMQ.NpZ.incrAt
  rw [List.zipIdx_map, List.map_map, List.map_map]
  apply List.map_congr_left
  rintro ⟨f, i⟩ _
  simp only [Function.comp, Prod.map, id]
  by_cases hc : pick.contains i <;> simp [hc]

theorem repeat_gen (cc : List Nat) (s : Nat) :
    (List.zip (List.range' s cc.length) (cc.map Int.ofNat)).flatMap (fun (v, k) => List.replicate k.toNat v)
      = (cc.zipIdx s).flatMap (fun (k, i) => List.replicate k i) := by
  induction cc generalizing s with
  | nil => rfl
  | cons c cs ih =>
    rw [List.length_cons, List.range'_succ, List.map_cons, List.zip_cons_cons, List.flatMap_cons, List.zipIdx_cons,
      List.flatMap_cons, ih (s + 1)]
    simp

/-! ### the rounding branch -/
section round
variable {G : Type} (cr cnr : G → Nat → Nat → List Rat → List Nat × G) (sh : G → List Nat → List Nat × G)

/-- the indices that receive the extra unit in a run of the generated `synthetic_col` -/
def pickOf (counts : List Rat) (total : Nat) (g : G) : List Nat :=
  if 0 < extra counts total then
    (cnr g counts.length (extra counts total) ((fracs (scaled counts total)).map (fun v => v / sumQ (fracs (scaled counts total))))).1
  else []

/-- the generator state after the (possible) draw of the extras -/
def stateAfterPick (counts : List Rat) (total : Nat) (g : G) : G :=
  if 0 < extra counts total then
    (cnr g counts.length (extra counts total) ((fracs (scaled counts total)).map (fun v => v / sumQ (fracs (scaled counts total))))).2
  else g

theorem extra_int {counts : List Rat} (total : Nat) (h : CountsOK counts) :
    (total : Int) - GMQ.NpZ.sum ((floors (scaled counts total)).map Int.ofNat) = (extra counts total : Int) := by
  rw [zsum_ofNat]
  unfold extra
  have := Aux.floors_le_total total h
  rw [Aux.sumN_eq_sum]
  omega

theorem incrAt_nil (l : List Int) : GMQ.NpZ.incrAt l [] = l := by
  unfold GMQ.NpZ.incrAt
  simp

/-- `np.repeat(np.arange(n), integ)` after `integ[pick] += 1` is the model's column -/
theorem repeat_incr_gen (counts : List Rat) (total : Nat) (pick : List Nat) :
    GMQ.NpZ.repeat (List.range (scaled counts total).length)
        (GMQ.NpZ.incrAt ((floors (scaled counts total)).map Int.ofNat) pick)
      = column counts total pick := by
  unfold GMQ.NpZ.repeat column colCounts
  rw [incrAt_ofNat, List.range_eq_range']
  have := repeat_gen ((floors (scaled counts total)).zipIdx.map (fun (f, i) => if pick.contains i then f + 1 else f)) 0
  simp only [List.length_map, List.length_zipIdx, Aux.length_floors] at this
  exact this

/-- **the generated rounding branch, in closed form**: the shuffle of the model's column for the drawn `pick` -/
theorem syntheticCol_round_eq (method : String) (hm : method ≠ "sample") (counts : List Rat) (total : Nat) (g : G)
    (h : CountsOK counts) :
    GMQ.syntheticCol cr cnr sh method counts total g
      = sh (stateAfterPick cnr counts total g) (column counts total (pickOf cnr counts total g)) := by
  have hm' : (method == "sample") = false := by simpa using hm
  have hnn := Aux.scaled_nn total h
  unfold GMQ.syntheticCol
  simp only [hm', Bool.false_eq_true, if_false]
  simp only [scaled_gen]
  simp only [frac_gen _ hnn, integ_gen _ hnn]
  simp only [extra_int total h, npsum_eq]
  by_cases hx : 0 < extra counts total
  · have hx' : ((extra counts total : Int) > 0) := by exact_mod_cast hx
    simp only [hx', decide_true, if_true, Int.toNat_natCast, pickOf, stateAfterPick, hx]
    rw [repeat_incr_gen, Aux.length_scaled]
  · have hx' : ¬ ((extra counts total : Int) > 0) := by
      intro hh; apply hx; exact_mod_cast hh
    simp only [hx', decide_false, Bool.false_eq_true, if_false, pickOf, stateAfterPick, hx]
    rw [← incrAt_nil ((floors (scaled counts total)).map Int.ofNat), repeat_incr_gen]

theorem posCount_fracs {counts : List Rat} (total : Nat) (h : CountsOK counts) (hx : 0 < extra counts total) :
    extra counts total ≤ posCount counts.length
      ((fracs (scaled counts total)).map (fun v => v / sumQ (fracs (scaled counts total)))) := by
  have hs : 0 < sumQ (fracs (scaled counts total)) := by
    rw [← extra_eq_sum_fracs counts total h]; exact_mod_cast hx
  have h1 := extra_le_posfrac counts total h
  unfold posCount
  rw [List.take_of_length_le (by simp), List.filter_map, List.length_map]
  refine le_trans h1 (le_of_eq ?_)
  congr 1
  apply List.filter_congr
  intro x _
  simp only [Function.comp, decide_eq_decide]
  exact (div_pos_iff_of_pos_right hs).symm

/-- **the drawn `pick` is an admissible outcome of the model** -/
theorem pickOf_ok (hr : RngOK cr cnr sh) (counts : List Rat) (total : Nat) (g : G) (h : CountsOK counts) :
    pickOK counts total (pickOf cnr counts total g) = true := by
  unfold pickOf
  by_cases hx : 0 < extra counts total
  · rw [if_pos hx]
    have hs : 0 < sumQ (fracs (scaled counts total)) := by
      rw [← extra_eq_sum_fracs counts total h]; exact_mod_cast hx
    obtain ⟨h1, h2, h3⟩ := hr.noreplace g counts.length (extra counts total) _ (posCount_fracs total h hx)
    set pick := (cnr g counts.length (extra counts total)
      ((fracs (scaled counts total)).map (fun v => v / sumQ (fracs (scaled counts total))))).1 with hp
    unfold pickOK
    simp only [Bool.and_eq_true, beq_iff_eq, List.all_eq_true, decide_eq_true_eq, List.mem_range, Aux.length_fracs, Aux.length_scaled]
    refine ⟨⟨h1, fun i hi => ?_⟩, fun i _ => ?_⟩
    · obtain ⟨hlt, hpos⟩ := h3 i hi
      refine ⟨hlt, ?_⟩
      have hlt' : i < (fracs (scaled counts total)).length := by simpa using hlt
      rw [List.getD_eq_getElem?_getD, List.getElem?_map, List.getElem?_eq_getElem hlt'] at hpos
      simp only [Option.map_some, Option.getD_some] at hpos
      rw [List.getD_eq_getElem?_getD, List.getElem?_eq_getElem hlt', Option.getD_some]
      exact (div_pos_iff_of_pos_right hs).mp hpos
    · have : (pick.filter (· == i)).length = pick.count i := by
        rw [List.count_eq_length_filter]
      rw [this]
      exact List.nodup_iff_count_le_one.mp h2 i
  · rw [if_neg hx]
    have : extra counts total = 0 := by omega
    unfold pickOK
    simp [this]

/-- **the generated rounding branch returns a permutation of the model's column for an admissible outcome** -/
theorem syntheticCol_round (hr : RngOK cr cnr sh) (method : String) (hm : method ≠ "sample") (counts : List Rat) (total : Nat) (g : G)
    (h : CountsOK counts) :
    ∃ pick, pickOK counts total pick = true ∧
      (GMQ.syntheticCol cr cnr sh method counts total g).1.Perm (column counts total pick) :=
  ⟨pickOf cnr counts total g, pickOf_ok cr cnr sh hr counts total g h, by
    rw [syntheticCol_round_eq cr cnr sh method hm counts total g h]; exact hr.shuffle _ _⟩

/-- the histogram of a permutation of the model's column is the model's `colCounts` -/
theorem hist_of_perm (counts : List Rat) (total : Nat) (pick : List Nat) (r : List Nat) (hp : r.Perm (column counts total pick)) :
    hist counts.length r = colCounts counts total pick := by
  unfold hist
  apply List.ext_getElem
  · simp
  · intro i h1 h2
    have hi : i < counts.length := by simpa using h1
    rw [List.getElem_map, List.getElem_range, hp.count_eq, column_count counts total pick i hi,
      List.getD_eq_getElem?_getD, List.getElem?_eq_getElem h2, Option.getD_some]

end round

/-! ### the sampling branch -/

/-- positive mass and nonnegative entries: some normalised probability is positive -/
theorem posCount_probas {counts : List Rat} (h : CountsOK counts) :
    0 < posCount counts.length (counts.map (fun v => v / sumQ counts)) := by
  unfold posCount
  rw [List.take_of_length_le (by simp), List.filter_map, List.length_map, List.length_pos_iff]
  intro he
  have hall : ∀ c ∈ counts, c = 0 := by
    intro c hc
    have hn : ¬ (0 < c / sumQ counts) := by
      intro hp
      have : c ∈ counts.filter ((fun x => decide (0 < x)) ∘ fun v => v / sumQ counts) :=
        List.mem_filter.2 ⟨hc, by simpa using hp⟩
      rw [he] at this
      cases this
    have h1 : ¬ (0 < c) := fun hc' => hn (div_pos hc' h.pos)
    exact le_antisymm (not_lt.1 h1) (h.nonneg c hc)
  have : sumQ counts = 0 := by
    rw [Aux.sumQ_eq_sum]
    exact List.sum_eq_zero hall
  exact absurd h.pos (by rw [this]; exact lt_irrefl _)

theorem syntheticCol_sample {G : Type} (cr cnr : G → Nat → Nat → List Rat → List Nat × G) (sh : G → List Nat → List Nat × G)
    (counts : List Rat) (total : Nat) (g : G) :
    GMQ.syntheticCol cr cnr sh "sample" counts total g
      = cr g counts.length total (counts.map (fun v => v / sumQ counts)) := by
  unfold GMQ.syntheticCol
  simp [npsum_eq]

end PGM.GMQGen
