import PGM.Proofs.SynthTableChain
import Mathlib.Algebra.Order.AbsoluteValue.Basic
import Mathlib.Tactic.Positivity
import Mathlib.Tactic.FieldSimp
/-!
# Synthetic records, the whole table: the rounding error on model cliques (C11, part 2)

`|N_k(g, v) − target k g v| ≤ errBound k`, a bound that depends on the attribute sizes and on the
depth of the chain only — not on the number of rows.
-/
namespace PGM.Synth.Table
open PGM.Synth

/-! ### consequences of `specsWF` -/

theorem specsWF_mem (ncols : Nat) (done : List Nat) (specs : List ColSpec)
    (hwf : specsWF ncols done specs = true) (hdone : ∀ j ∈ done, j < ncols) :
    ∀ sp ∈ specs, sp.col ∉ sp.proj ∧ sp.proj.Nodup ∧
      ∀ a ∈ sp.proj, a ∈ done ∨ ∃ sp' ∈ specs, sp'.col = a := by
  induction specs generalizing done with
  | nil => intro sp hsp; cases hsp
  | cons sp0 sps ih =>
    rw [specsWF_cons] at hwf
    obtain ⟨hlt, hnd, hproj, hcnt, hrest⟩ := hwf
    intro sp hsp
    rcases List.mem_cons.1 hsp with rfl | hsp
    · refine ⟨fun h => hnd (hproj _ h), ?_, fun a ha => Or.inl (hproj a ha)⟩
      rw [List.nodup_iff_count_le_one]
      intro a
      by_cases ha : a ∈ sp.proj
      · exact hcnt a (hdone a (hproj a ha))
      · rw [List.count_eq_zero_of_not_mem ha]; omega
    · have hdone' : ∀ j ∈ done ++ [sp0.col], j < ncols := by
        intro j hj
        rcases List.mem_append.1 hj with hj | hj
        · exact hdone j hj
        · rw [List.mem_singleton.1 hj]; exact hlt
      obtain ⟨h1, h2, h3⟩ := ih (done ++ [sp0.col]) hrest hdone' sp hsp
      refine ⟨h1, h2, fun a ha => ?_⟩
      rcases h3 a ha with h | ⟨sp', hsp', e⟩
      · rcases List.mem_append.1 h with h | h
        · exact Or.inl h
        · exact Or.inr ⟨sp0, List.mem_cons_self, (List.mem_singleton.1 h).symm⟩
      · exact Or.inr ⟨sp', List.mem_cons_of_mem _ hsp', e⟩

theorem pos_nodup (ncols : Nat) (specs : List ColSpec) (hwf : specsWF ncols [] specs = true)
    (sp : ColSpec) (hsp : sp ∈ specs) : sp.pos.Nodup := by
  obtain ⟨h1, h2, _⟩ := specsWF_mem ncols [] specs hwf (fun j hj => by cases hj) sp hsp
  unfold ColSpec.pos
  rw [List.nodup_append]
  refine ⟨h2, List.nodup_singleton _, ?_⟩
  intro a ha b hb
  rw [List.mem_singleton.1 hb]
  exact fun e => h1 (e ▸ ha)

theorem pos_generated (ncols : Nat) (specs : List ColSpec) (hwf : specsWF ncols [] specs = true)
    (sp : ColSpec) (hsp : sp ∈ specs) : ∀ a ∈ sp.pos, ∃ sp' ∈ specs, sp'.col = a := by
  obtain ⟨_, _, h3⟩ := specsWF_mem ncols [] specs hwf (fun j hj => by cases hj) sp hsp
  intro a ha
  unfold ColSpec.pos at ha
  rcases List.mem_append.1 ha with ha | ha
  · rcases h3 a ha with h | h
    · cases h
    · exact h
  · exact ⟨sp, hsp, (List.mem_singleton.1 ha).symm⟩

theorem attrSize_spec (specs : List ColSpec) (a : Nat) (h : ∃ sp' ∈ specs, sp'.col = a) :
    ∃ s ∈ specs, s.col = a ∧ attrSize specs a = s.size := by
  unfold attrSize
  cases hf : specs.find? (fun sp => sp.col == a) with
  | none =>
    obtain ⟨sp', hsp', e⟩ := h
    have := List.find?_eq_none.1 hf sp' hsp'
    simp [e] at this
  | some s =>
    refine ⟨s, List.mem_of_find?_eq_some hf, ?_, rfl⟩
    have := List.find?_some hf
    simpa using this

/-- every final row lies in a cell of every step -/
theorem attrSize_dom (ncols total : Nat) (specs : List ColSpec) (outs : List (List (List Nat)))
    (hwf : specsWF ncols [] specs = true)
    (hok : outsOK ncols total specs outs (List.replicate total (List.replicate ncols 0)) = true)
    (sp : ColSpec) (hsp : sp ∈ specs) :
    ∀ r ∈ synthTable ncols total specs outs, ∀ a ∈ sp.pos, r.getD a 0 < attrSize specs a := by
  intro r hr a ha
  obtain ⟨s, hs, hcol, hsize⟩ := attrSize_spec specs a (pos_generated ncols specs hwf sp hsp a ha)
  rw [hsize, ← hcol]
  exact synthTable_in_domain ncols total specs outs hwf hok r hr s hs

/-! ### `specAt`, `chainWF` -/

theorem specAt_mem (specs : List ColSpec) (k : Nat) (hk : k < specs.length) : specAt specs k ∈ specs := by
  unfold specAt
  rw [List.getD_eq_getElem?_getD, List.getElem?_eq_getElem hk, Option.getD_some]
  exact List.getElem_mem hk

theorem chainWF_step (specs : List ColSpec) (parent : Nat → Nat) (h : chainWF specs parent = true)
    (k : Nat) (hk : k < specs.length) (hroot : (specAt specs k).proj ≠ []) :
    parent k < k ∧ ∀ a ∈ (specAt specs k).proj, a ∈ (specAt specs (parent k)).pos := by
  unfold chainWF at h
  rw [List.all_eq_true] at h
  have := h k (List.mem_range.2 hk)
  simp only [Bool.or_eq_true, Bool.and_eq_true, decide_eq_true_eq, List.all_eq_true,
    List.contains_iff_mem, List.isEmpty_iff] at this
  rcases this with h0 | h1
  · exact absurd h0 hroot
  · exact h1

/-! ### unfolding `target`, `errBound` -/

theorem target_root (specs : List ColSpec) (parent : Nat → Nat) (total k : Nat) (g : List Nat) (v : Nat)
    (h : (specAt specs k).proj = []) :
    target specs parent total k g v = (total : Rat) * condProb (specAt specs k) g v := by
  rw [target, if_pos h]

theorem target_step (specs : List ColSpec) (parent : Nat → Nat) (total k : Nat) (g : List Nat) (v : Nat)
    (h : (specAt specs k).proj ≠ []) (hlt : parent k < k) :
    target specs parent total k g v =
      ((fiber specs (specAt specs (parent k)) (specAt specs k) g).map
        (fun c => target specs parent total (parent k) c.dropLast (c.getLastD 0))).sum
      * condProb (specAt specs k) g v := by
  rw [target, if_neg h, dif_pos hlt]

theorem errBound_root (specs : List ColSpec) (parent : Nat → Nat) (k : Nat)
    (h : (specAt specs k).proj = []) : errBound specs parent k = 1 := by
  rw [errBound, if_pos h]

theorem errBound_step (specs : List ColSpec) (parent : Nat → Nat) (k : Nat)
    (h : (specAt specs k).proj ≠ []) (hlt : parent k < k) :
    errBound specs parent k =
      1 + fiberBound specs (specAt specs (parent k)) (specAt specs k) * errBound specs parent (parent k) := by
  rw [errBound, if_neg h, dif_pos hlt]

/-! ### arithmetic -/

theorem scaled_condProb (sp : ColSpec) (g : List Nat) (n v : Nat) :
    (scaled (sp.cond g) n).getD v 0 = (n : Rat) * condProb sp g v := by
  rw [Aux.scaled_getD, condProb]; ring

theorem condProb_nonneg (sp : ColSpec) (g : List Nat) (v : Nat) (hnn : ∀ c ∈ sp.cond g, 0 ≤ c) :
    0 ≤ condProb sp g v := by
  unfold condProb
  apply div_nonneg
  · by_cases hv : v < (sp.cond g).length
    · rw [List.getD_eq_getElem?_getD, List.getElem?_eq_getElem hv, Option.getD_some]
      exact hnn _ (List.getElem_mem hv)
    · rw [List.getD_eq_getElem?_getD, List.getElem?_eq_none (Nat.le_of_not_lt hv), Option.getD_none]
  · rw [Aux.sumQ_eq_sum]; exact List.sum_nonneg hnn

theorem condProb_le_one (sp : ColSpec) (g : List Nat) (v : Nat) (hnn : ∀ c ∈ sp.cond g, 0 ≤ c) :
    condProb sp g v ≤ 1 := by
  unfold condProb
  have hs : 0 ≤ sumQ (sp.cond g) := by rw [Aux.sumQ_eq_sum]; exact List.sum_nonneg hnn
  apply div_le_one_of_le₀ _ hs
  by_cases hv : v < (sp.cond g).length
  · rw [List.getD_eq_getElem?_getD, List.getElem?_eq_getElem hv, Option.getD_some, Aux.sumQ_eq_sum]
    exact List.single_le_sum hnn _ (List.getElem_mem hv)
  · rw [List.getD_eq_getElem?_getD, List.getElem?_eq_none (Nat.le_of_not_lt hv), Option.getD_none]
    exact hs

theorem abs_sum_sub_le {α : Type} (l : List α) (a b : α → Rat) (B : Rat)
    (h : ∀ c ∈ l, |a c - b c| ≤ B) :
    |(l.map a).sum - (l.map b).sum| ≤ (l.length : Rat) * B := by
  induction l with
  | nil => simp
  | cons c l ih =>
    have h1 := h c List.mem_cons_self
    have h2 := ih (fun c hc => h c (List.mem_cons_of_mem _ hc))
    simp only [List.map_cons, List.sum_cons, List.length_cons, Nat.cast_add, Nat.cast_one]
    have : a c + (l.map a).sum - (b c + (l.map b).sum) = (a c - b c) + ((l.map a).sum - (l.map b).sum) := by
      ring
    rw [this]
    refine (abs_add_le _ _).trans ?_
    linarith

theorem cast_sum_map {α : Type} (l : List α) (f : α → Nat) :
    (((l.map f).sum : Nat) : Rat) = (l.map (fun c => (f c : Rat))).sum := by
  induction l with
  | nil => simp
  | cons c l ih => simp [ih]

theorem cellCount_nil (rows : List Row) : cellCount [] [] rows = rows.length := by
  unfold cellCount
  rw [List.filter_eq_self.2]
  intro r _
  simp [key]

theorem split_last (c : List Nat) (n : Nat) (h : c.length = n + 1) :
    c = c.dropLast ++ [c.getLastD 0] ∧ c.dropLast.length = n := by
  rcases List.eq_nil_or_concat c with rfl | ⟨l, x, rfl⟩
  · simp at h
  · simp at h
    simp [h]

/-! ### the theorem -/

/-- **the rounding error on a model clique does not grow with the number of rows** -/
theorem clique_error (ncols total : Nat) (specs : List ColSpec) (outs : List (List (List Nat)))
    (parent : Nat → Nat) (hwf : specsWF ncols [] specs = true)
    (hok : outsOK ncols total specs outs (List.replicate total (List.replicate ncols 0)) = true)
    (hch : chainWF specs parent = true) (hnn : ∀ sp ∈ specs, ∀ g, ∀ c ∈ sp.cond g, (0 : Rat) ≤ c) :
    ∀ k, k < specs.length → ∀ (g : List Nat) (v : Nat), g.length = (specAt specs k).proj.length →
      |((cellCount ((specAt specs k).proj ++ [(specAt specs k).col]) (g ++ [v])
            (synthTable ncols total specs outs) : Nat) : Rat)
        - target specs parent total k g v| ≤ (errBound specs parent k : Rat) := by
  intro k
  induction k using Nat.strong_induction_on with
  | _ k ih =>
    intro hk g v hg
    have hsp := specAt_mem specs k hk
    have hone := synthTable_cell_error ncols total specs outs hwf hok _ hsp g (hnn _ hsp g) v
    rw [scaled_condProb] at hone
    have hp0 := condProb_nonneg (specAt specs k) g v (hnn _ hsp g)
    have hp1 := condProb_le_one (specAt specs k) g v (hnn _ hsp g)
    by_cases hroot : (specAt specs k).proj = []
    · rw [target_root _ _ _ _ _ _ hroot, errBound_root _ _ _ hroot]
      have hg' : g = [] := by
        rw [hroot] at hg; exact List.length_eq_zero_iff.1 hg
      rw [hroot, hg', cellCount_nil, synthTable_length] at hone
      rw [hg', hroot, Nat.cast_one]
      exact hone.le
    · obtain ⟨hlt, hsub⟩ := chainWF_step specs parent hch k hk hroot
      have hj : parent k < specs.length := Nat.lt_trans hlt hk
      have hsj := specAt_mem specs (parent k) hj
      rw [target_step _ _ _ _ _ _ hroot hlt, errBound_step _ _ _ hroot hlt]
      -- the rows of the group, partitioned by the parent's cells
      have hpart := cellCount_partition (attrSize specs) (specAt specs (parent k)).pos
        (specAt specs k).proj g (synthTable ncols total specs outs) hsub
        (attrSize_dom ncols total specs outs hwf hok _ hsj)
      have hfib : ∀ c ∈ fiber specs (specAt specs (parent k)) (specAt specs k) g,
          |((cellCount (specAt specs (parent k)).pos c (synthTable ncols total specs outs) : Nat) : Rat)
            - target specs parent total (parent k) c.dropLast (c.getLastD 0)|
            ≤ (errBound specs parent (parent k) : Rat) := by
        intro c hc
        have hc' := (List.mem_filter.1 hc).1
        have hlen := length_of_mem_tuplesOver _ _ _ hc'
        have hl : c.length = (specAt specs (parent k)).proj.length + 1 := by
          rw [hlen]; simp [ColSpec.pos]
        obtain ⟨hsplit, hdl⟩ := split_last c _ hl
        have := ih (parent k) hlt hj c.dropLast (c.getLastD 0) hdl
        rw [← hsplit] at this
        exact this
      have hsum := abs_sum_sub_le _ (fun c => ((cellCount (specAt specs (parent k)).pos c
          (synthTable ncols total specs outs) : Nat) : Rat))
        (fun c => target specs parent total (parent k) c.dropLast (c.getLastD 0)) _ hfib
      have hcount : (fiber specs (specAt specs (parent k)) (specAt specs k) g).length
          ≤ fiberBound specs (specAt specs (parent k)) (specAt specs k) :=
        fiber_length_le (attrSize specs) _ _ g (pos_nodup ncols specs hwf _ hsj)
      have hpartQ : ((cellCount (specAt specs k).proj g (synthTable ncols total specs outs) : Nat) : Rat)
          = ((fiber specs (specAt specs (parent k)) (specAt specs k) g).map
              (fun c => ((cellCount (specAt specs (parent k)).pos c
                (synthTable ncols total specs outs) : Nat) : Rat))).sum := by
        rw [hpart, cast_sum_map]; rfl
      rw [← hpartQ] at hsum
      have hB0 : (0 : Rat) ≤ (errBound specs parent (parent k) : Rat) := Nat.cast_nonneg _
      have hcountQ : ((fiber specs (specAt specs (parent k)) (specAt specs k) g).length : Rat)
          ≤ (fiberBound specs (specAt specs (parent k)) (specAt specs k) : Rat) := by
        exact_mod_cast hcount
      push_cast
      generalize ((cellCount ((specAt specs k).proj ++ [(specAt specs k).col]) (g ++ [v])
        (synthTable ncols total specs outs) : Nat) : Rat) = N at *
      generalize ((cellCount (specAt specs k).proj g (synthTable ncols total specs outs) : Nat) : Rat)
        = n at *
      generalize ((fiber specs (specAt specs (parent k)) (specAt specs k) g).map
        (fun c => target specs parent total (parent k) c.dropLast (c.getLastD 0))).sum = T at *
      generalize condProb (specAt specs k) g v = p at *
      generalize ((fiber specs (specAt specs (parent k)) (specAt specs k) g).length : Rat) = L at *
      generalize (fiberBound specs (specAt specs (parent k)) (specAt specs k) : Rat) = M at *
      generalize (errBound specs parent (parent k) : Rat) = B at *
      have e : N - T * p = (N - n * p) + p * (n - T) := by ring
      rw [e]
      refine (abs_add_le _ _).trans ?_
      rw [abs_mul, abs_of_nonneg hp0]
      have h1 : p * |n - T| ≤ 1 * (L * B) := by
        apply mul_le_mul hp1 hsum (abs_nonneg _) (by norm_num)
      have h2 : L * B ≤ M * B := mul_le_mul_of_nonneg_right hcountQ hB0
      linarith [hone.le]

end PGM.Synth.Table
