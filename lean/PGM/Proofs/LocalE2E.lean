import PGM.Model.Local
import PGM.Model.LocalPy
/-!
# Invariants along `mirror_descent_auto` (helpers for `Properties/C18E.lean`)

`Local.mda` runs over an abstract oracle.  To say something about the tables it returns one has to know in which
state the oracle was when it produced them: `mda_inv` carries three predicates through every attempt, restart,
late step-halving and feasibility call —

* `P θ`   on the potentials handed to the oracle,
* `Q μ`   on the tables the oracle returns,
* `I st`  on the oracle object (persisted messages, damping, total, …),

and concludes that the returned tables are the output of an oracle call **in a state satisfying `I`** on the
returned potentials, which satisfy `P` (`C18.mda_ok` only says "in some state").
-/
namespace PGM.LocalE2E
open PGM PGM.Local
variable {α Θ M G σ : Type}

/-- what the three predicates have to be stable under -/
structure Keeps (O : Ops α Θ M G σ) (P : Θ → Prop) (Q : M → Prop) (I : σ → Prop) : Prop where
  bp : ∀ st θ, I st → P θ → Q (O.bp st θ).1 ∧ I (O.bp st θ).2
  upd : ∀ θ a mu, P θ → Q mu → P (O.upd θ a (O.loss mu).2)
  bump : ∀ st, I st → I (applyBump O st)

/-- the loop state is good: potentials, object, and the iterate is an oracle output in a good state -/
def Good (O : Ops α Θ M G σ) (P : Θ → Prop) (I : σ → Prop) (s : LoopSt α Θ M σ) : Prop :=
  P s.theta ∧ I s.st ∧ ∃ st0, I st0 ∧ s.mu = (O.bp st0 s.theta).1

theorem loop_inv (O : Ops α Θ M G σ) (P : Θ → Prop) (Q : M → Prop) (I : σ → Prop) (hk : Keeps O P Q I) :
    ∀ (n t : Nat) (s : LoopSt α Θ M σ) (log : List (IterRec α)) (s' : LoopSt α Θ M σ),
      Good O P I s → (loop O n t s log).1 = .finished s' → Good O P I s' := by
  intro n
  induction n with
  | zero =>
    intro t s log s' hg h
    simp only [loop] at h
    cases h
    exact hg
  | succ n ih =>
    intro t s log s' hg h
    obtain ⟨hP, hI, st0, hI0, hmu⟩ := hg
    have hQ : Q s.mu := hmu ▸ (hk.bp st0 s.theta hI0 hP).1
    have hP' := hk.upd s.theta s.alpha s.mu hP hQ
    have hb := hk.bp s.st _ hI hP'
    unfold loop at h
    generalize hl : O.loss s.mu = ld at h hP' hb
    obtain ⟨l, dL⟩ := ld
    simp only at h hP' hb
    by_cases hw : isWorse O l s.prev = true
    · simp only [hw, if_true] at h
      by_cases ht : t ≤ 50
      · simp only [ht, if_true] at h
        cases h
      · simp only [ht, if_false] at h
        exact ih _ _ _ _ ⟨hP', hk.bump _ hb.2, s.st, hI, rfl⟩ h
    · have hw' : isWorse O l s.prev = false := by simpa using hw
      simp only [hw', Bool.false_eq_true, if_false] at h
      exact ih _ _ _ _ ⟨hP', hb.2, s.st, hI, rfl⟩ h

theorem post_inv (O : Ops α Θ M G σ) (P : Θ → Prop) (Q : M → Prop) (I : σ → Prop) (hk : Keeps O P Q I)
    (theta : Θ) (hP : P theta) :
    ∀ (n : Nat) (mu : M) (st : σ) (k : Nat), I st → (∃ st0, I st0 ∧ mu = (O.bp st0 theta).1) →
      I (post O theta n mu st k).2.1 ∧ ∃ st0, I st0 ∧ (post O theta n mu st k).1 = (O.bp st0 theta).1 := by
  intro n
  induction n with
  | zero => intro mu st k hI hmu; exact ⟨hI, hmu⟩
  | succ n ih =>
    intro mu st k hI hmu
    unfold post
    by_cases hf : O.feasible mu = true
    · simp only [hf, if_true]
      exact ⟨hI, hmu⟩
    · simp only [hf, Bool.false_eq_true, if_false]
      exact ih _ _ _ (hk.bp st theta hI hP).2 ⟨st, hI, rfl⟩

/-- **the invariant of a successful call**: started on potentials satisfying `P` and an object satisfying `I`, the call
returns potentials satisfying `P`, an object satisfying `I`, and tables that are the output of an oracle call on the
returned potentials made in a state satisfying `I` (hence satisfy `Q`) -/
theorem mda_inv (O : Ops α Θ M G σ) (P : Θ → Prop) (Q : M → Prop) (I : σ → Prop) (hk : Keeps O P Q I)
    (theta0 : Θ) (st0 : σ) (hP : P theta0) (hI : I st0) (iters : Nat) :
    ∀ (fuel k : Nat) (alpha : α) (r : Result α Θ M σ), mda O theta0 st0 iters fuel k alpha = .ok r →
      P r.theta ∧ I r.st ∧ Q r.mu ∧ ∃ st, I st ∧ r.mu = (O.bp st r.theta).1 := by
  intro fuel
  induction fuel with
  | zero => intro k alpha r h; simp [mda] at h
  | succ fuel ih =>
    intro k alpha r h
    unfold mda at h
    have hatt : attempt O theta0 st0 alpha iters = loop O iters 0
      { theta := theta0, mu := (O.bp st0 theta0).1, st := (O.bp st0 theta0).2, alpha := alpha, prev := none, l := none } [] := rfl
    have hg0 : Good O P I ({ theta := theta0, mu := (O.bp st0 theta0).1, st := (O.bp st0 theta0).2, alpha := alpha, prev := none, l := none } : LoopSt α Θ M σ) :=
      ⟨hP, (hk.bp st0 theta0 hI hP).2, st0, hI, rfl⟩
    generalize ha : attempt O theta0 st0 alpha iters = a at h
    obtain ⟨out, log⟩ := a
    cases out with
    | restart t => exact ih _ _ r h
    | finished s =>
      have hg : Good O P I s := loop_inv O P Q I hk iters 0 _ [] s hg0 (by rw [← hatt, ha])
      simp only at h
      cases hl : s.l with
      | none => rw [hl] at h; simp at h
      | some l =>
        rw [hl] at h
        simp only at h
        obtain ⟨hPs, hIs, hmu⟩ := hg
        have hp := post_inv O P Q I hk s.theta hPs 1000 s.mu s.st 0 hIs hmu
        generalize hpost : post O s.theta 1000 s.mu s.st 0 = pp at h hp
        obtain ⟨mu, st, p⟩ := pp
        simp only [Outcome.ok.injEq] at h
        subst h
        obtain ⟨h1, st1, h2, h3⟩ := hp
        refine ⟨hPs, h1, ?_, st1, h2, h3⟩
        show Q mu
        have : mu = (O.bp st1 s.theta).1 := h3
        rw [this]
        exact (hk.bp st1 s.theta h2 hPs).1

/-- an attempt with one iteration cannot restart: there is no previous loss to exceed -/
theorem attempt_one_finished (O : Ops α Θ M G σ) (theta0 : Θ) (st0 : σ) (alpha : α) :
    ∃ s, (attempt O theta0 st0 alpha 1).1 = .finished s := by
  unfold attempt
  simp only
  unfold loop
  simp only [isWorse, Bool.false_eq_true, if_false]
  unfold loop
  exact ⟨_, rfl⟩

end PGM.LocalE2E
