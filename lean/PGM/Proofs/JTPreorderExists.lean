import PGM.Proofs.JTPreorder
/-!
# every tree has a preorder

The breadth-first listing `reach t t.nodes |t.nodes| [first node]` — the very search `isTree` runs to
check connectedness — is accepted by `isPreorder`: it never repeats a node, every node it appends has
a neighbour among the nodes already listed, and (because `isTree` checked it) it finds every node.
-/
namespace PGM.JT

/-- the invariant of the search -/
structure SearchInv (t : Tree) (allowed s : List Clique) : Prop where
  nodup : s.Nodup
  sub : ∀ x ∈ s, x ∈ allowed
  parents : HasParents t s

theorem searchInv_step (t : Tree) (allowed : List Clique) (hal : allowed.Nodup) (s : List Clique)
    (h : SearchInv t allowed s) : SearchInv t allowed (step t allowed s) := by
  have hF : ∀ b ∈ allowed.filter (fun b => !s.contains b && s.any (fun a => t.adj a b)),
      b ∈ allowed ∧ b ∉ s ∧ ∃ x ∈ s, t.adj x b = true := by
    intro b hb
    simp only [List.mem_filter, Bool.and_eq_true, Bool.not_eq_true', List.any_eq_true] at hb
    refine ⟨hb.1, ?_, hb.2.2⟩
    have := hb.2.1
    intro hbs
    rw [← List.contains_iff_mem] at hbs
    rw [hbs] at this
    exact absurd this (by simp)
  refine ⟨?_, ?_, ?_⟩
  · unfold step
    rw [List.nodup_append]
    refine ⟨h.nodup, hal.filter _, ?_⟩
    intro a ha b hb hab
    subst hab
    exact (hF a hb).2.1 ha
  · intro x hx
    unfold step at hx
    rcases List.mem_append.mp hx with hx | hx
    · exact h.sub x hx
    · exact (hF x hx).1
  · intro i hi h0
    unfold step at hi ⊢
    by_cases his : i < s.length
    · obtain ⟨j, hj, hadj⟩ := h.parents i his h0
      refine ⟨j, hj, ?_⟩
      rw [List.getD_append _ _ _ _ his, List.getD_append _ _ _ _ (Nat.lt_trans hj his)]
      exact hadj
    · have hle : s.length ≤ i := Nat.le_of_not_lt his
      rw [List.length_append] at hi
      have hmemF : (s ++ allowed.filter (fun b => !s.contains b && s.any (fun a => t.adj a b))).getD i []
          ∈ allowed.filter (fun b => !s.contains b && s.any (fun a => t.adj a b)) := by
        rw [List.getD_append_right _ _ _ _ hle]
        exact getD_mem (by omega)
      obtain ⟨x, hx, hadj⟩ := (hF _ hmemF).2.2
      obtain ⟨j, hj, hjx⟩ := List.getElem_of_mem hx
      refine ⟨j, by omega, ?_⟩
      rw [List.getD_append _ _ _ _ hj, List.getD_eq_getElem _ _ hj, hjx]
      exact hadj

theorem searchInv_reach (t : Tree) (allowed : List Clique) (hal : allowed.Nodup) (k : Nat) :
    ∀ s, SearchInv t allowed s → SearchInv t allowed (reach t allowed k s) := by
  induction k with
  | zero => intro s h; exact h
  | succ k ih =>
    intro s h
    rw [reach_succ]
    exact ih _ (searchInv_step t allowed hal s h)

/-- **every tree has a preorder**: the search order from the first node -/
theorem preorder_exists (t : Tree) (ht : isTree t = true) : ∃ l, isPreorder t l = true := by
  have f := treeFacts t ht
  have hconn : connectedWithin t t.nodes = true := by
    simp only [isTree, Bool.and_eq_true] at ht
    exact ht.2
  obtain ⟨a, rest, hnodes⟩ := List.exists_cons_of_ne_nil f.nodes_ne
  have ha : a ∈ t.nodes := by rw [hnodes]; simp
  have hinv := searchInv_reach t t.nodes f.nodes_nodup t.nodes.length [a]
    ⟨List.nodup_singleton a, fun x hx => by rw [List.mem_singleton.mp hx]; exact ha,
     fun i hi h0 => by simp only [List.length_singleton] at hi; omega⟩
  have hall : ∀ n ∈ t.nodes, n ∈ reach t t.nodes t.nodes.length [a] := by
    rw [hnodes] at hconn ⊢
    simp only [connectedWithin, List.all_eq_true, List.contains_iff_mem] at hconn
    exact hconn
  refine ⟨reach t t.nodes t.nodes.length [a], ?_⟩
  rw [isPreorder_iff]
  refine ⟨hinv.nodup, ?_, hall, hinv.parents⟩
  exact ((List.subperm_of_subset f.nodes_nodup hall).antisymm
    (List.subperm_of_subset hinv.nodup hinv.sub)).length_eq.symm

end PGM.JT
