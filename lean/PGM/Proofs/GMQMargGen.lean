import PGM.Proofs.GMQStepsGen
import PGM.Proofs.SynthTableChain
import PGM.Proofs.SynthAux
import PGM.Proofs.SumOver
import PGM.Proofs.Dataset
/-!
# (B) the tables `self.project` hands to the generated `synthetic_data` are marginals of ONE joint

`ProjFamily d project M S`: on every duplicate-free tuple `as` of domain attributes `project as` is a table of the domain's sizes whose
cell at `σ` is `M as σ`, and `M` is a consistent family of mass `S` (summing `M as` over `as \ bs` gives `M bs`).  This is what C02
proves of the generated `project` (`Properties/C11E.lean`: `projFamily_gen`).  From it: `margConsistent` of the generated steps, for any
parent function that satisfies `chainWF` (`margConsistent_genSpecs`).
-/
namespace PGM.GMQGen
open PGM PGM.Synth PGM.Sem
set_option linter.unusedVariables false

/-- what `synthetic_data` needs of `self.project` -/
structure ProjFamily (d : Dom) (project : List Attr → Factor Rat) (M : List Attr → (Attr → Nat) → Rat) (S : Rat) : Prop where
  shape : ∀ as, as.Nodup → (∀ a ∈ as, a ∈ d.attrs) → (project as).vals.shape = as.map d.cfg
  get : ∀ as, as.Nodup → (∀ a ∈ as, a ∈ d.attrs) → ∀ σ, d.Valid σ → (project as).vals.get (as.map σ) = M as σ
  cons : ∀ as bs σ, as.Nodup → bs.Nodup → (∀ a ∈ as, a ∈ d.attrs) → (∀ b ∈ bs, b ∈ as) → d.Valid σ →
    sumOver d (as.filter (fun a => !bs.contains a)) σ (M as) = M bs σ
  mass : ∀ a ∈ d.attrs, sumOver d [a] (fun _ => 0) (M [a]) = S

/-! ### list facts -/

theorem sum_filter_map {α : Type} (l : List α) (p : α → Bool) (f : α → Rat) :
    ((l.filter p).map f).sum = (l.map (fun x => if p x then f x else 0)).sum := by
  induction l with
  | nil => rfl
  | cons x l ih =>
    by_cases h : p x
    · simp [h, ih]
    · simp [h, ih]

theorem sum_map_ite_single {α : Type} [DecidableEq α] (l : List α) (hnd : l.Nodup) (g : α) (hg : g ∈ l) (f : α → Rat) :
    (l.map (fun v => if v = g then f v else 0)).sum = f g := by
  induction l with
  | nil => cases hg
  | cons x l ih =>
    rw [List.nodup_cons] at hnd
    rw [List.map_cons, List.sum_cons]
    by_cases hx : x = g
    · subst hx
      have : (l.map (fun v => if v = x then f v else 0)).sum = 0 := by
        apply List.sum_eq_zero
        intro y hy
        obtain ⟨v, hv, rfl⟩ := List.mem_map.1 hy
        have : v ≠ x := fun e => hnd.1 (e ▸ hv)
        simp [this]
      simp [this]
    · have hg' : g ∈ l := by
        rcases List.mem_cons.1 hg with e | h
        · exact absurd e.symm hx
        · exact h
      simp [hx, ih hnd.2 hg']

theorem idxOf_map_of_inj {α β : Type} [DecidableEq α] [DecidableEq β] (f : α → β) (b : α) :
    ∀ (A : List α), (∀ a ∈ A, f a = f b → a = b) → (A.map f).idxOf (f b) = A.idxOf b
  | [], _ => rfl
  | a :: A, h => by
    have ih := idxOf_map_of_inj f b A (fun a' ha' => h a' (List.mem_cons_of_mem _ ha'))
    by_cases hab : a = b
    · subst hab; simp
    · have : f a ≠ f b := fun e => hab (h a (by simp) e)
      simp [this, hab, ih]

theorem inRange_snoc (s g : List Nat) (n v : Nat) : InRange (s ++ [n]) (g ++ [v]) ↔ InRange s g ∧ v < n := by
  induction s generalizing g with
  | nil =>
    cases g with
    | nil => simp [InRange]
    | cons x g => cases g <;> simp [InRange]
  | cons m s ih =>
    cases g with
    | nil => cases s <;> simp [InRange]
    | cons x g => simp [InRange, ih, and_assoc]

theorem cells_snoc_split (s : List Nat) (n : Nat) (c : List Nat) (hc : c ∈ cells (s ++ [n])) :
    ∃ c' v, c = c' ++ [v] ∧ c' ∈ cells s ∧ v < n := by
  rw [mem_cells_iff] at hc
  have hl : c.length = s.length + 1 := by
    have := hc.length_eq
    simpa using this
  have hne : c ≠ [] := by intro e; rw [e] at hl; simp at hl
  refine ⟨c.dropLast, c.getLast hne, (List.dropLast_append_getLast hne).symm, ?_, ?_⟩
  · rw [mem_cells_iff]
    rw [← List.dropLast_append_getLast hne] at hc
    exact ((inRange_snoc s _ n _).1 hc).1
  · rw [← List.dropLast_append_getLast hne] at hc
    exact ((inRange_snoc s _ n _).1 hc).2

/-! ### `Dom.override` on `proj ++ [col]` -/

theorem override_snoc (col : Attr) (v : Nat) : ∀ (proj : List Attr) (g : List Nat) (σ : Attr → Nat),
    (proj ++ [col]).Nodup → g.length = proj.length →
    Dom.override σ (proj ++ [col]) (g ++ [v]) = Dom.override (Dom.override σ proj g) [col] [v]
  | [], g, σ, _, hl => by
    have : g = [] := List.length_eq_zero_iff.1 hl
    subst this
    simp [override_nil]
  | z :: zs, [], σ, _, hl => by simp at hl
  | z :: zs, i :: r, σ, hnd, hl => by
    have hnd' : (z :: (zs ++ [col])).Nodup := by simpa using hnd
    have hz : z ∉ zs ++ [col] := (List.nodup_cons.1 hnd').1
    have hz' : z ∉ zs := fun h => hz (List.mem_append_left _ h)
    rw [List.cons_append, List.cons_append, override_cons σ z (zs ++ [col]) i (r ++ [v]) hz,
      override_snoc col v zs r _ (List.nodup_cons.1 hnd').2 (by simpa using hl),
      override_cons σ z zs i r hz']

/-! ### reading the tables of a family -/

section family
variable {d : Dom} {project : List Attr → Factor Rat} {M : List Attr → (Attr → Nat) → Rat} {S : Rat}

theorem valid_zero (d : Dom) (hpos : ∀ p ∈ d, 0 < p.2) : d.Valid (fun _ => 0) := fun p hp => hpos p hp

/-- the cell `c` of `project A` is `M A` at the assignment `A ↦ c` -/
theorem ProjFamily.get_cell (hfam : ProjFamily d project M S) (hd : d.WF) (hpos : ∀ p ∈ d, 0 < p.2)
    (A : List Attr) (hA : A.Nodup) (hsub : ∀ a ∈ A, a ∈ d.attrs) (c : List Nat) (hc : c ∈ cells (A.map d.cfg)) :
    (project A).vals.get c = M A (Dom.override (fun _ => 0) A c) := by
  have hv := valid_override d hd _ A c (valid_zero d hpos) hc
  have h := hfam.get A hA hsub _ hv
  have hl : c.length = A.length := by
    have := (mem_cells_inRange _ _ hc).length_eq
    simpa using this
  rwa [map_override_self _ A c hA hl] at h

/-- `marg[g].sum()`: the slice of `project (proj ++ [col])` at `g`, summed over the new attribute -/
theorem ProjFamily.row_sum (hfam : ProjFamily d project M S) (hd : d.WF) (hpos : ∀ p ∈ d, 0 < p.2)
    (proj : List Attr) (col : Attr) (hA : (proj ++ [col]).Nodup) (hsub : ∀ a ∈ proj ++ [col], a ∈ d.attrs)
    (g : List Nat) (hg : g ∈ cells (proj.map d.cfg)) :
    sumQ (GMQ.NpQ.row (project (proj ++ [col])).vals g)
      = sumOver d [col] (Dom.override (fun _ => 0) proj g) (M (proj ++ [col])) := by
  have hgl : g.length = proj.length := by
    have := (mem_cells_inRange _ _ hg).length_eq
    simpa using this
  unfold GMQ.NpQ.row
  rw [Synth.Aux.sumQ_eq_sum, hfam.shape _ hA hsub, sumOver_single]
  have hlast : ((proj ++ [col]).map d.cfg).getLastD 0 = d.cfg col := by simp
  rw [hlast]
  congr 1
  apply List.map_congr_left
  intro v hv
  rw [List.mem_range] at hv
  have hc : g ++ [v] ∈ cells ((proj ++ [col]).map d.cfg) := by
    rw [List.map_append, List.map_singleton, mem_cells_iff, inRange_snoc]
    exact ⟨mem_cells_inRange _ _ hg, hv⟩
  rw [hfam.get_cell hd hpos _ hA hsub _ hc, override_snoc col v proj g _ hA hgl]

theorem filter_snoc_self (proj : List Attr) (col : Attr) (h : col ∉ proj) :
    (proj ++ [col]).filter (fun a => !proj.contains a) = [col] := by
  rw [List.filter_append]
  have h1 : proj.filter (fun a => !proj.contains a) = [] := by
    rw [List.filter_eq_nil_iff]
    intro a ha
    simp [ha]
  rw [h1]
  simp [h]

theorem ProjFamily.row_sum_marg (hfam : ProjFamily d project M S) (hd : d.WF) (hpos : ∀ p ∈ d, 0 < p.2)
    (proj : List Attr) (col : Attr) (hA : (proj ++ [col]).Nodup) (hsub : ∀ a ∈ proj ++ [col], a ∈ d.attrs)
    (g : List Nat) (hg : g ∈ cells (proj.map d.cfg)) :
    sumQ (GMQ.NpQ.row (project (proj ++ [col])).vals g) = M proj (Dom.override (fun _ => 0) proj g) := by
  rw [hfam.row_sum hd hpos proj col hA hsub g hg]
  have hcol : col ∉ proj := by
    intro h
    exact (List.nodup_append.1 hA).2.2 col h col (by simp) rfl
  have := hfam.cons (proj ++ [col]) proj (Dom.override (fun _ => 0) proj g) hA (List.nodup_append.1 hA).1 hsub
    (fun b hb => List.mem_append_left _ hb) (valid_override d hd _ proj g (valid_zero d hpos) hg)
  rwa [filter_snoc_self proj col hcol] at this

/-- `marg[c[:-1]][c[-1]]` is the cell `c` -/
theorem row_getD_last (a : NdArr Rat) (s : List Nat) (n : Nat) (hs : a.shape = s ++ [n]) (c : List Nat) (hc : c ∈ cells (s ++ [n])) :
    (GMQ.NpQ.row a c.dropLast).getD (c.getLastD 0) 0 = a.get c := by
  obtain ⟨c', v, rfl, _, hv⟩ := cells_snoc_split s n c hc
  unfold GMQ.NpQ.row
  rw [hs]
  simp only [List.dropLast_concat, List.getLastD_eq_getLast?]
  simp [List.getD_eq_getElem?_getD, hv]

/-- a cell of a step's clique, read at the positions of a subset of its attributes -/
theorem restrict_posOf (cols : List Attr) (A B : List Attr) (hAc : ∀ a ∈ A, a ∈ cols) (hBA : ∀ b ∈ B, b ∈ A)
    (σ : Attr → Nat) (c : List Nat) :
    restrict (posOf cols A) (posOf cols B) c = B.map (Dom.override σ A c) := by
  unfold restrict posOf
  rw [List.map_map]
  apply List.map_congr_left
  intro b hb
  simp only [Function.comp]
  rw [idxOf_map_of_inj (fun a => cols.idxOf a) b A (fun a ha e => (List.idxOf_inj (hAc a ha)).1 e),
    override_of_mem _ _ _ _ (hBA b hb)]

theorem sumOver_ite_const (d : Dom) (as : List Attr) (σ : Attr → Nat) (p : Prop) [Decidable p] (f : (Attr → Nat) → Rat) :
    sumOver d as σ (fun τ => if p then f τ else 0) = if p then sumOver d as σ f else 0 := by
  by_cases h : p
  · simp [h]
  · simp only [h, if_false]; exact sumOver_zero d as σ

/-- the parent's table, summed over the parent's cells that project onto the key `g` of `B ⊆ A` -/
theorem ProjFamily.fiber_sum (hfam : ProjFamily d project M S) (hd : d.WF) (hpos : ∀ p ∈ d, 0 < p.2)
    (A : List Attr) (hA : A.Nodup) (hsub : ∀ a ∈ A, a ∈ d.attrs) (B : List Attr) (hB : B.Nodup) (hBA : ∀ b ∈ B, b ∈ A)
    (g : List Nat) (hg : g ∈ cells (B.map d.cfg)) :
    (((cells (A.map d.cfg)).filter (fun c => restrict (posOf d.attrs A) (posOf d.attrs B) c == g)).map
        (fun c => (project A).vals.get c)).sum = M B (Dom.override (fun _ => 0) B g) := by
  have hσ0 := valid_zero d hpos
  have hgl : g.length = B.length := by
    have := (mem_cells_inRange _ _ hg).length_eq
    simpa using this
  rw [sum_filter_map]
  have e1 : ((cells (A.map d.cfg)).map (fun c =>
        if (restrict (posOf d.attrs A) (posOf d.attrs B) c == g) = true then (project A).vals.get c else 0)).sum
      = sumOver d A (fun _ => 0) (fun τ => if B.map τ = g then M A τ else 0) := by
    unfold sumOver
    congr 1
    apply List.map_congr_left
    intro c hc
    rw [restrict_posOf d.attrs A B hsub hBA (fun _ => 0) c, hfam.get_cell hd hpos A hA hsub c hc]
    simp only [beq_iff_eq]
  rw [e1, ← sumOver_split d A (fun a => B.contains a) _ _ hA]
  have e2 : sumOver d (A.filter (fun a => B.contains a)) (fun _ => 0)
        (fun τ1 => sumOver d (A.filter (fun a => !B.contains a)) τ1 (fun τ => if B.map τ = g then M A τ else 0))
      = sumOver d (A.filter (fun a => B.contains a)) (fun _ => 0) (fun τ1 => if B.map τ1 = g then M B τ1 else 0) := by
    apply sumOver_congr_valid d hd _ _ _ _ hσ0
    intro τ1 hτ1
    have e3 : sumOver d (A.filter (fun a => !B.contains a)) τ1 (fun τ => if B.map τ = g then M A τ else 0)
        = sumOver d (A.filter (fun a => !B.contains a)) τ1 (fun τ => if B.map τ1 = g then M A τ else 0) := by
      apply sumOver_congr
      intro v _
      have : B.map (Dom.override τ1 (A.filter (fun a => !B.contains a)) v) = B.map τ1 := by
        apply List.map_congr_left
        intro b hb
        apply override_of_not_mem
        intro hm
        have := (List.mem_filter.1 hm).2
        simp [hb] at this
      rw [this]
    rw [e3, sumOver_ite_const, hfam.cons A B τ1 hA hB hsub hBA hτ1]
  rw [e2]
  have hperm : (A.filter (fun a => B.contains a)).Perm B := by
    rw [List.perm_ext_iff_of_nodup (hA.filter _) hB]
    intro a
    rw [List.mem_filter]
    constructor
    · rintro ⟨_, h⟩; simpa using h
    · intro h; exact ⟨hBA a h, by simpa using h⟩
  rw [sumOver_perm d _ _ _ _ hperm (hA.filter _)]
  unfold sumOver
  have e4 : (cells (B.map d.cfg)).map (fun v => if B.map (Dom.override (fun _ => 0) B v) = g
        then M B (Dom.override (fun _ => 0) B v) else 0)
      = (cells (B.map d.cfg)).map (fun v => if v = g then M B (Dom.override (fun _ => 0) B v) else 0) := by
    apply List.map_congr_left
    intro v hv
    have hl : v.length = B.length := by
      have := (mem_cells_inRange _ _ hv).length_eq
      simpa using this
    rw [map_override_self _ B v hB hl]
  rw [e4]
  exact sum_map_ite_single _ (Dataset.nodup_cells _) g hg _

end family

/-! ### the generated steps -/

theorem tuplesOver_posOf (sz : Nat → Nat) (cols : List Attr) (d : Dom) (X : List Attr)
    (h : ∀ a ∈ X, sz (cols.idxOf a) = d.cfg a) : tuplesOver sz (posOf cols X) = cells (X.map d.cfg) := by
  induction X with
  | nil => rfl
  | cons a X ih =>
    have ih' := ih (fun b hb => h b (List.mem_cons_of_mem _ hb))
    unfold posOf at ih' ⊢
    simp only [List.map_cons, tuplesOver, cells]
    rw [h a (by simp), ih']

/-- the attributes `proj ++ [col]` of the `k`-th step: duplicate-free, inside the domain -/
theorem stepA_ok (set_order : List Attr → List Attr) (hso : ∀ s, (set_order s).Perm s) (cliques : List JT.Clique) (d : Dom)
    (elim : List Attr) (hnd : elim.Nodup) (hsub : ∀ a ∈ elim, a ∈ d.attrs) (k : Nat) (hk : k < elim.length) :
    (stepProj set_order cliques elim.reverse k ++ [elim.reverse.getD k ""]).Nodup ∧
    (∀ a ∈ stepProj set_order cliques elim.reverse k ++ [elim.reverse.getD k ""], a ∈ d.attrs) ∧
    elim.reverse.getD k "" ∈ elim := by
  set o := elim.reverse with ho
  have hond : o.Nodup := List.nodup_reverse.2 hnd
  have hklen : k < o.length := by simpa [ho] using hk
  have hok : o.getD k "" = o[k] := by
    rw [List.getD_eq_getElem?_getD, List.getElem?_eq_getElem hklen, Option.getD_some]
  have hmem : o[k] ∈ elim := List.mem_reverse.1 (List.getElem_mem hklen)
  have hPsub := stepProj_sub set_order hso cliques o k
  refine ⟨?_, ?_, hok ▸ hmem⟩
  · rw [List.nodup_append]
    refine ⟨stepProj_nodup set_order hso cliques o hond k, List.nodup_singleton _, ?_⟩
    intro a ha b hb e
    rw [List.mem_singleton.1 hb, hok] at e
    obtain ⟨i, hi, hie⟩ := List.getElem_of_mem (hPsub a ha)
    rw [List.getElem_take] at hie
    rw [List.length_take] at hi
    have : i = k := (List.Nodup.getElem_inj_iff hond).1 (hie.trans e)
    omega
  · intro a ha
    rcases List.mem_append.1 ha with h | h
    · exact hsub a (List.mem_reverse.1 (List.mem_of_mem_take (hPsub a h)))
    · rw [List.mem_singleton.1 h, hok]; exact hsub _ hmem

section main
variable {d : Dom} {project : List Attr → Factor Rat} {M : List Attr → (Attr → Nat) → Rat} {S : Rat}

/-- the size a generated step declares for its attribute is the domain's -/
theorem attrSize_genSpecs (hfam : ProjFamily d project M S) (hd : d.WF) (set_order : List Attr → List Attr)
    (hso : ∀ s, (set_order s).Perm s) (cliques : List JT.Clique) (elim : List Attr) (hnd : elim.Nodup) (hne : elim ≠ [])
    (hsub : ∀ a ∈ elim, a ∈ d.attrs) (a : Attr) (ha : a ∈ elim) :
    attrSize (genSpecs project set_order d cliques elim) (d.attrs.idxOf a) = d.cfg a := by
  set specs := genSpecs project set_order d cliques elim with hspecs
  have hlen : specs.length = elim.length := genSpecs_length project set_order d cliques elim hne
  set o := elim.reverse with ho
  have hao : a ∈ o := List.mem_reverse.2 ha
  have hi : o.idxOf a < elim.length := by
    have := List.idxOf_lt_length_iff.2 hao
    simpa [ho] using this
  have hoi : o.getD (o.idxOf a) "" = a := by
    have h2 : o.idxOf a < o.length := List.idxOf_lt_length_iff.2 hao
    rw [List.getD_eq_getElem?_getD, List.getElem?_eq_getElem h2, Option.getD_some]
    exact List.getElem_idxOf h2
  have hex : ∃ sp' ∈ specs, sp'.col = d.attrs.idxOf a := by
    refine ⟨specAt specs (o.idxOf a), Table.specAt_mem specs _ (by omega), ?_⟩
    rw [specAt_genSpecs project set_order d cliques elim hnd _ hi]
    show d.attrs.idxOf _ = _
    rw [hoi]
  obtain ⟨s, hs, hcol, hsize⟩ := Table.attrSize_spec specs _ hex
  obtain ⟨i, hilt, hie⟩ := List.getElem_of_mem hs
  have hi' : i < elim.length := by omega
  have hsi : s = specAt specs i := by
    unfold specAt
    rw [List.getD_eq_getElem?_getD, List.getElem?_eq_getElem hilt, Option.getD_some, hie]
  rw [specAt_genSpecs project set_order d cliques elim hnd i hi'] at hsi
  obtain ⟨hA, hAsub, hmem⟩ := stepA_ok set_order hso cliques d elim hnd hsub i hi'
  have hcol' : d.attrs.idxOf (o.getD i "") = d.attrs.idxOf a := by rw [← hcol, hsi]; rfl
  have hia : o.getD i "" = a := (List.idxOf_inj (hsub _ hmem)).1 hcol'
  rw [hsize, hsi]
  show (project _).vals.shape.getLastD 0 = _
  rw [hfam.shape _ hA hAsub, ← hia]
  simp [ho]

/-- **(B)**: the generated steps read ONE consistent family of marginals, of mass `S` -/
theorem margConsistent_genSpecs (hfam : ProjFamily d project M S) (hd : d.WF) (hpos : ∀ p ∈ d, 0 < p.2)
    (set_order : List Attr → List Attr) (hso : ∀ s, (set_order s).Perm s) (cliques : List JT.Clique) (elim : List Attr)
    (hnd : elim.Nodup) (hne : elim ≠ []) (hsub : ∀ a ∈ elim, a ∈ d.attrs) (parent : Nat → Nat)
    (hch : chainWF (genSpecs project set_order d cliques elim) parent = true) :
    margConsistent (genSpecs project set_order d cliques elim) parent S = true := by
  set specs := genSpecs project set_order d cliques elim with hspecs
  have hlen : specs.length = elim.length := genSpecs_length project set_order d cliques elim hne
  set o := elim.reverse with ho
  have hsz : ∀ a ∈ elim, attrSize specs (d.attrs.idxOf a) = d.cfg a :=
    attrSize_genSpecs hfam hd set_order hso cliques elim hnd hne hsub
  unfold margConsistent
  rw [List.all_eq_true]
  intro k hk
  rw [List.mem_range] at hk
  have hk' : k < elim.length := by omega
  obtain ⟨hAk, hAksub, _⟩ := stepA_ok set_order hso cliques d elim hnd hsub k hk'
  have ek := specAt_genSpecs project set_order d cliques elim hnd k hk'
  by_cases hP : stepProj set_order cliques o k = []
  · have hproj : (specAt specs k).proj = [] := by rw [ek]; simp [specOf, posOf, ← ho, hP]
    rw [if_pos hproj, beq_iff_eq, ek]
    show sumQ (GMQ.NpQ.row (project (stepProj set_order cliques o k ++ [o.getD k ""])).vals []) = S
    rw [← ho, hP] at hAk hAksub
    rw [hP, hfam.row_sum hd hpos [] _ hAk hAksub [] (by simp [cells]), override_nil]
    exact hfam.mass _ (hAksub _ (by simp))
  · have hproj : (specAt specs k).proj ≠ [] := by
      rw [ek]
      intro e
      apply hP
      have : posOf d.attrs (stepProj set_order cliques o k) = [] := e
      unfold posOf at this
      exact List.map_eq_nil_iff.1 this
    rw [if_neg hproj]
    obtain ⟨hjk, hsubpos⟩ := Table.chainWF_step specs parent hch k hk hproj
    have hj' : parent k < elim.length := by omega
    obtain ⟨hAj, hAjsub, _⟩ := stepA_ok set_order hso cliques d elim hnd hsub (parent k) hj'
    have ej := specAt_genSpecs project set_order d cliques elim hnd (parent k) hj'
    unfold mu
    rw [ej, ek] at hsubpos ⊢
    rw [← ho] at hAk hAksub hAj hAjsub hsubpos ⊢
    set Pk := stepProj set_order cliques o k with hPk
    set Pj := stepProj set_order cliques o (parent k) with hPj
    set ck := o.getD k "" with hck
    set cj := o.getD (parent k) "" with hcj
    have hposj : (specOf project d.attrs cj Pj).pos = posOf d.attrs (Pj ++ [cj]) := by
      simp [ColSpec.pos, specOf, posOf]
    have hPkelim : ∀ a ∈ Pk, a ∈ elim := fun a ha =>
      List.mem_reverse.1 (List.mem_of_mem_take (stepProj_sub set_order hso cliques o k a ha))
    have hAjelim : ∀ a ∈ Pj ++ [cj], a ∈ elim := by
      intro a ha
      rcases List.mem_append.1 ha with h | h
      · exact List.mem_reverse.1 (List.mem_of_mem_take (stepProj_sub set_order hso cliques o (parent k) a h))
      · rw [List.mem_singleton.1 h]
        exact (stepA_ok set_order hso cliques d elim hnd hsub (parent k) hj').2.2
    have hBA : ∀ b ∈ Pk, b ∈ Pj ++ [cj] := by
      intro b hb
      have h1 := hsubpos _ (List.mem_map.2 ⟨b, hb, rfl⟩)
      rw [hposj] at h1
      obtain ⟨a, ha, e⟩ := List.mem_map.1 h1
      rwa [← (List.idxOf_inj (hAjsub a ha)).1 e]
    rw [List.all_eq_true]
    intro g hg
    have hg' : g ∈ cells (Pk.map d.cfg) := by
      have : (specOf project d.attrs ck Pk).proj = posOf d.attrs Pk := rfl
      rw [this, tuplesOver_posOf _ _ d Pk (fun a ha => hsz a (hPkelim a ha))] at hg
      exact hg
    rw [beq_iff_eq]
    show sumQ (GMQ.NpQ.row (project (Pk ++ [ck])).vals g) = _
    rw [hfam.row_sum_marg hd hpos Pk ck hAk hAksub g hg']
    unfold fiber
    rw [hposj, tuplesOver_posOf _ _ d (Pj ++ [cj]) (fun a ha => hsz a (hAjelim a ha))]
    have hshape : (project (Pj ++ [cj])).vals.shape = Pj.map d.cfg ++ [d.cfg cj] := by
      rw [hfam.shape _ hAj hAjsub]; simp
    have emap : ((cells ((Pj ++ [cj]).map d.cfg)).filter
          (fun c => restrict (posOf d.attrs (Pj ++ [cj])) (specOf project d.attrs ck Pk).proj c == g)).map
          (fun c => ((specOf project d.attrs cj Pj).cond c.dropLast).getD (c.getLastD 0) 0)
        = ((cells ((Pj ++ [cj]).map d.cfg)).filter
          (fun c => restrict (posOf d.attrs (Pj ++ [cj])) (posOf d.attrs Pk) c == g)).map
          (fun c => (project (Pj ++ [cj])).vals.get c) := by
      apply List.map_congr_left
      intro c hc
      have hc' := (List.mem_filter.1 hc).1
      rw [List.map_append, List.map_singleton] at hc'
      exact row_getD_last _ _ _ hshape c hc'
    rw [emap]
    exact (hfam.fiber_sum hd hpos (Pj ++ [cj]) hAj hAjsub Pk (List.nodup_append.1 hAk).1 hBA g hg').symm

end main

end PGM.GMQGen
