import PGM.Generated.GraphicalModelQG
import PGM.Proofs.GMGen
import PGM.Proofs.VECorrect
import PGM.Proofs.QueryCorrect
/-!
# helper lemmas for `Properties/C02G.lean`: `project` with an arbitrary elimination order, and with cached marginals

The source picks the elimination order with `greedy_order` (unspecified: set iteration, ties of `min`); the hand model
`GM.GMproject` eliminates in domain order.  `projectOrd` is the model with the order as a parameter; it is correct for every
duplicate-free listing of the attributes to eliminate (`projectOrd_correct`, the proof of `Sem.project_correct` with the order
generalised), and it is `GMproject` for the model's order (`projectOrd_invert`, by `rfl`).
-/
namespace PGM.GMQGen
open PGM PGM.JT PGM.GM PGM.Sem
set_option linter.unusedVariables false
set_option linter.unusedSectionVars false

section generic
variable {α : Type} [Scalar α]

/-- `GM.GMproject` with the elimination order as a parameter -/
def projectOrd (pots : CliqueVec α) (total : α) (attrs elim : List Attr) : Factor α :=
  (veLogspace (pots.map Prod.snd) elim total).projectSum attrs

theorem projectOrd_invert (d : Dom) (pots : CliqueVec α) (total : α) (attrs : List Attr) :
    projectOrd pots total attrs (d.invert attrs) = GMproject d pots total attrs := rfl

end generic

variable {K : Type} [Field K] [LinearOrder K] [IsStrictOrderedRing K]

/-- an admissible result of `greedy_order(domain, cliques, elim)`: a duplicate-free listing of `elim = domain.invert(attrs)` -/
def ElimOK (d : Dom) (attrs elim : List Attr) : Prop :=
  elim.Nodup ∧ ∀ a, a ∈ elim ↔ (a ∈ d.attrs ∧ a ∉ attrs)

theorem elimOK_invert (d : Dom) (hd : d.WF) (attrs : List Attr) : ElimOK d attrs (d.invert attrs) :=
  ⟨invert_nodup d hd attrs, fun a => mem_invert d attrs a⟩

theorem elimOK_of_perm (d : Dom) (hd : d.WF) (attrs elim : List Attr) (h : elim.Perm (d.invert attrs)) : ElimOK d attrs elim :=
  ⟨h.nodup_iff.mpr (invert_nodup d hd attrs), fun a => h.mem_iff.trans (mem_invert d attrs a)⟩

theorem preVE_of_elimOK (d : Dom) (pots : CliqueVec (LogOf K)) (attrs elim : List Attr) (he : ElimOK d attrs elim)
    (hne : pots ≠ []) (hcover : ∀ a ∈ d.attrs, ∃ p ∈ pots, a ∈ p.2.dom.attrs) :
    preVE (pots.map Prod.snd) elim = true := by
  rw [preVE_iff]
  refine ⟨fun z hz => ?_, fun h => hne (List.map_eq_nil_iff.mp h)⟩
  obtain ⟨p, hp, hap⟩ := hcover z ((he.2 z).mp hz).1
  exact ⟨p.2, List.mem_map_of_mem hp, hap⟩

/-- **`project` without cached marginals, any elimination order**: `total · marginal / Z` in the requested order -/
theorem projectOrd_correct (d : Dom) (pots : CliqueVec (LogOf K)) (total : LogOf K) (attrs elim : List Attr)
    (σ : Attr → Nat) (hd : d.WF) (hfs : FactorsOK d (pots.map Prod.snd))
    (hne : pots ≠ []) (hcover : ∀ a ∈ d.attrs, ∃ p ∈ pots, a ∈ p.2.dom.attrs)
    (hnd : attrs.Nodup) (hsub : ∀ a ∈ attrs, a ∈ d.attrs) (he : ElimOK d attrs elim) (hσ : d.Valid σ)
    (hZ : partition d pots ≠ 0) :
    (projectOrd pots total attrs elim).dom.attrs = attrs ∧
    ((projectOrd pots total attrs elim).sem σ).v = total.v * marginal d pots attrs σ / partition d pots := by
  have hcover' : ∀ a ∈ d.attrs, ∃ f ∈ pots.map Prod.snd, a ∈ f.dom.attrs := by
    intro a ha
    obtain ⟨p, hp, hap⟩ := hcover a ha
    exact ⟨p.2, List.mem_map_of_mem hp, hap⟩
  have hpre := preVE_of_elimOK d pots attrs elim he hne hcover
  obtain ⟨hR, hRattrs, hRsem⟩ := veLogspace_spec d (pots.map Prod.snd) elim total hd hfs
    hpre he.1 (fun a ha => ((he.2 a).mp ha).1) hcover'
  have hmem : ∀ a, a ∈ (veLogspace (pots.map Prod.snd) elim total).dom.attrs ↔ a ∈ attrs := by
    intro a
    rw [hRattrs a, he.2 a]
    constructor
    · rintro ⟨h1, h2⟩
      by_contra h
      exact h1 ⟨h2, h⟩
    · intro h
      exact ⟨fun h' => h'.2 h, hsub a h⟩
  have hinv : (veLogspace (pots.map Prod.snd) elim total).dom.invert attrs = [] := by
    unfold Dom.invert
    rw [List.filter_eq_nil_iff]
    intro a ha
    simpa using (hmem a).mp ha
  refine ⟨Factor.project_attrs _ _ _, ?_⟩
  show ((Factor.project Scalar.sum (veLogspace (pots.map Prod.snd) elim total) attrs).sem σ).v = _
  rw [Factor.sem_project Scalar.sum _ attrs σ hR.1 hnd (fun a ha => (hmem a).mpr ha) (hR.valid hd hσ),
    hinv]
  simp only [List.map_nil, cells, List.map_cons, override_nil]
  rw [log_sum_singleton_v, hRsem σ hσ]
  simp only [prod_snd_eq_joint]
  -- the sum over `elim` is the marginal (a sum over `d.invert attrs`, a permutation of `elim`)
  have hperm : elim.Perm (d.invert attrs) := by
    rw [List.perm_ext_iff_of_nodup he.1 (invert_nodup d hd attrs)]
    intro a
    rw [he.2 a, mem_invert]
  have : sumOver d elim σ (joint pots) = marginal d pots attrs σ :=
    sumOver_perm d _ _ σ _ hperm he.1
  rw [this]
  rfl

/-! ### the cached branch: a calibrated clique marginal projected onto the requested attributes -/

theorem projectCached_correct {d : Dom} {cliques : List Clique} {t : Tree} {order : List (Clique × Clique)}
    {pots : CliqueVec (LogOf K)} (hok : ModelOK d cliques t order pots) {marg : CliqueVec (PlainOf K)} {s : K}
    (hkeys : marg.map Prod.fst = cliques)
    (hwf : ∀ p ∈ marg, p.2.WF ∧ p.2.dom.attrs.Perm p.1 ∧ p.2.dom.Agrees d)
    (hcal : ∀ c ∈ cliques, ∀ σ, d.Valid σ → ((marg.get c).sem σ).v = s * marginal d pots c σ)
    (c : Clique) (hc : c ∈ cliques) (attrs : List Attr) (hnd : attrs.Nodup) (hsub : JT.subset attrs c = true)
    (σ : Attr → Nat) (hσ : d.Valid σ) :
    ((marg.get c).projectSum attrs).dom.attrs = attrs ∧
    (((marg.get c).projectSum attrs).sem σ).v = s * marginal d pots attrs σ := by
  have hg := marg_good hok hkeys hwf hcal c hc
  have hattrs := (marg_ok hok hkeys hwf c hc).2
  rw [subset_iff] at hsub
  obtain ⟨hpg, hpa⟩ := good_project hok hkeys hwf _ hg attrs hnd (fun a ha => (hattrs a).mpr (hsub a ha))
  refine ⟨hpa, ?_⟩
  have := hpg.2 σ hσ
  rw [hpa] at this
  exact this

end PGM.GMQGen
