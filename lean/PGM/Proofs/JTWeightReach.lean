import PGM.Model.JTree
import Mathlib.Combinatorics.SimpleGraph.Connectivity.Connected
import Mathlib.Combinatorics.SimpleGraph.Paths
import Mathlib.Data.Set.Card
/-! the fuel-bounded search `connectedWithin` decides connectivity of the induced graph -/
namespace PGM.JT
open SimpleGraph

theorem Tree.adj_comm (t : Tree) (a b : Clique) : t.adj a b = t.adj b a := by
  simp [Tree.adj, Bool.or_comm]

/-- the undirected simple graph on cliques given by the (non-loop) edges of `t` -/
def treeGraph (t : Tree) : SimpleGraph Clique where
  Adj a b := a ≠ b ∧ t.adj a b = true
  symm := ⟨fun a b h => ⟨h.1.symm, by rw [Tree.adj_comm]; exact h.2⟩⟩
  loopless := ⟨fun a h => h.1 rfl⟩

/-- the graph induced on the members of a list -/
abbrev Gind (t : Tree) (l : List Clique) : SimpleGraph ↥{n : Clique | n ∈ l} :=
  (treeGraph t).induce {n : Clique | n ∈ l}

theorem Gind_adj (t : Tree) (l : List Clique) (u w : ↥{n : Clique | n ∈ l}) :
    (Gind t l).Adj u w ↔ u.1 ≠ w.1 ∧ t.adj u.1 w.1 = true := Iff.rfl

theorem card_setOf_list (l : List Clique) (h : l.Nodup) :
    Nat.card ↥{n : Clique | n ∈ l} = l.length := by
  have : {n : Clique | n ∈ l} = ↑l.toFinset := by ext; simp
  rw [Nat.card_coe_set_eq, this, Set.ncard_coe_finset, List.toFinset_card_of_nodup h]

instance (l : List Clique) : Finite ↥{n : Clique | n ∈ l} := by
  have : {n : Clique | n ∈ l} = ↑l.toFinset := by ext; simp
  rw [this]; exact Finite.of_fintype _

/-- one round of expansion -/
def step (t : Tree) (allowed s : List Clique) : List Clique :=
  s ++ (allowed.filter (fun b => !s.contains b && s.any (fun a => t.adj a b)))

theorem reach_succ (t : Tree) (l : List Clique) (k : Nat) (s : List Clique) :
    reach t l (k + 1) s = reach t l k (step t l s) := rfl

theorem subset_reach (t : Tree) (l : List Clique) (k : Nat) :
    ∀ (s : List Clique) (x : Clique), x ∈ s → x ∈ reach t l k s := by
  induction k with
  | zero => intro s x hx; exact hx
  | succ k ih =>
    intro s x hx
    rw [reach_succ]
    exact ih _ _ (by simp [step, hx])

theorem walk_reach (t : Tree) (l : List Clique) {u v : ↥{n : Clique | n ∈ l}}
    (p : (Gind t l).Walk u v) :
    ∀ (s : List Clique) (k : Nat), u.1 ∈ s → p.length ≤ k → v.1 ∈ reach t l k s := by
  induction p with
  | nil => intro s k hu _; exact subset_reach t l k s _ hu
  | @cons u w v h p ih =>
    intro s k hu hk
    cases k with
    | zero => simp at hk
    | succ k =>
      rw [reach_succ]
      apply ih
      · by_cases hw : w.1 ∈ s
        · simp [step, hw]
        · have hadj := (Gind_adj t l u w).mp h
          have hwl : w.1 ∈ l := w.2
          simp only [step, List.mem_append, List.mem_filter, Bool.and_eq_true,
            Bool.not_eq_true', List.any_eq_true]
          right
          refine ⟨hwl, ?_, u.1, hu, hadj.2⟩
          simpa using hw
      · simpa using hk

/-- completeness of the search -/
theorem reach_complete (t : Tree) (l : List Clique) (hl : l.Nodup) (a : Clique) (ha : a ∈ l)
    (hc : (Gind t l).Connected) (b : Clique) (hb : b ∈ l) :
    b ∈ reach t l l.length [a] := by
  have hr : (Gind t l).Reachable ⟨a, ha⟩ ⟨b, hb⟩ := hc.preconnected _ _
  obtain ⟨p, hp⟩ := hr.exists_isPath
  have := Fintype.ofFinite ↥{n : Clique | n ∈ l}
  have hlen := hp.length_lt
  rw [← Nat.card_eq_fintype_card, card_setOf_list l hl] at hlen
  exact walk_reach t l p [a] l.length (by simp) (Nat.le_of_lt hlen)

/-- soundness of the search: everything found is reachable from the seed -/
theorem reach_soundW (t : Tree) (l : List Clique) (a : Clique) (ha : a ∈ l) (k : Nat) :
    ∀ (s : List Clique),
      (∀ x ∈ s, ∃ hx : x ∈ l, (Gind t l).Reachable ⟨a, ha⟩ ⟨x, hx⟩) →
      ∀ x ∈ reach t l k s, ∃ hx : x ∈ l, (Gind t l).Reachable ⟨a, ha⟩ ⟨x, hx⟩ := by
  induction k with
  | zero => intro s hs x hx; exact hs x hx
  | succ k ih =>
    intro s hs x hx
    rw [reach_succ] at hx
    refine ih (step t l s) ?_ x hx
    intro y hy
    simp only [step, List.mem_append, List.mem_filter, Bool.and_eq_true,
      Bool.not_eq_true', List.any_eq_true] at hy
    rcases hy with hy | ⟨hyl, hys, z, hz, hadj⟩
    · exact hs y hy
    · obtain ⟨hzl, hzr⟩ := hs z hz
      refine ⟨hyl, hzr.trans ?_⟩
      have hne : z ≠ y := by
        rintro rfl
        simp [hz] at hys
      exact Adj.reachable ((Gind_adj t l ⟨z, hzl⟩ ⟨y, hyl⟩).mpr ⟨hne, hadj⟩)

theorem connectedWithin_iff (t : Tree) (l : List Clique) (hl : l.Nodup) (hne : l ≠ []) :
    connectedWithin t l = true ↔ (Gind t l).Connected := by
  cases l with
  | nil => exact absurd rfl hne
  | cons a l' =>
    have ha : a ∈ a :: l' := by simp
    simp only [connectedWithin]
    rw [List.all_eq_true]
    constructor
    · intro h
      rw [connected_iff_exists_forall_reachable]
      refine ⟨⟨a, ha⟩, fun w => ?_⟩
      have hw := h w.1 w.2
      rw [List.contains_iff_mem] at hw
      obtain ⟨_, hr⟩ := reach_soundW t (a :: l') a ha _ [a]
        (by intro x hx; simp at hx; subst hx; exact ⟨ha, Reachable.refl _⟩) w.1 hw
      exact hr
    · intro hc b hb
      rw [List.contains_iff_mem]
      exact reach_complete t (a :: l') hl a ha hc b hb

end PGM.JT
