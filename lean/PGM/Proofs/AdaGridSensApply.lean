import PGM.Proofs.AdaGridSens
/-!
# Adaptive Grid: what one record does to the released statistic `Q @ mu`

Changing cell `j` of `mu` by `d` changes `apply M mu` by `d ·` (column `j` of `M`), so the squared
L2 change is `d² · colSq M j`; for add/remove-one adjacency (`d = ±1`) it is `colSq M j`.
No shape hypothesis on the rows of `M` is needed (`zip` truncates, `getD` pads with `0`).
-/
namespace PGM.AdaGridSens
open PGM PGM.AdaGrid

/-- column `j` of `M` -/
def col (M : Mat ℝ) (j : ℕ) : List ℝ := M.map (fun row => row.getD j 0)

theorem colSq_eq_col (M : Mat ℝ) (j : ℕ) : colSq M j = ((col M j).map (· ^ 2)).sum := by
  rw [colSq_eq]; unfold col; rw [List.map_map]; rfl

/-- the real reading of one entry of `apply` -/
def dot (row mu : List ℝ) : ℝ := ((List.zip row mu).map (fun p => p.1 * p.2)).sum

theorem apply_eq (M : Mat ℝ) (mu : List ℝ) : AdaGrid.apply M mu = M.map (fun row => dot row mu) := by
  unfold AdaGrid.apply
  apply List.map_congr_left
  intro row _
  rw [rsum_eq]
  rfl

theorem dot_set (row mu : List ℝ) (j : ℕ) (v : ℝ) (hj : j < mu.length) :
    dot row (mu.set j v) = dot row mu + row.getD j 0 * (v - mu.getD j 0) := by
  unfold dot
  induction row generalizing mu j with
  | nil => simp
  | cons a r ih =>
    cases mu with
    | nil => simp at hj
    | cons m ms =>
      cases j with
      | zero => simp; ring
      | succ j =>
        have hj' : j < ms.length := by simpa using hj
        have := ih ms j hj'
        simp only [List.set_cons_succ, List.zip_cons_cons, List.map_cons, List.sum_cons,
          List.getD_cons_succ] at this ⊢
        rw [this]; ring

/-- changing cell `j` of `mu` to `v` moves `Q @ mu` along column `j` of `Q` -/
theorem apply_set (M : Mat ℝ) (mu : List ℝ) (j : ℕ) (v : ℝ) (hj : j < mu.length) :
    AdaGrid.apply M (mu.set j v)
      = List.zipWith (· + ·) (AdaGrid.apply M mu) ((col M j).map (fun x => x * (v - mu.getD j 0))) := by
  rw [apply_eq, apply_eq]
  unfold col
  induction M with
  | nil => rfl
  | cons r M ih =>
    simp only [List.map_cons, List.zipWith_cons_cons]
    rw [dot_set _ _ _ _ hj, ih]

/-- squared L2 distance between two answer vectors -/
def sqDist (a b : List ℝ) : ℝ := (List.zipWith (fun x y => (x - y) ^ 2) a b).sum

theorem sqDist_apply_set (M : Mat ℝ) (mu : List ℝ) (j : ℕ) (v : ℝ) (hj : j < mu.length) :
    sqDist (AdaGrid.apply M (mu.set j v)) (AdaGrid.apply M mu) = (v - mu.getD j 0) ^ 2 * colSq M j := by
  rw [apply_eq, apply_eq, colSq_eq]
  unfold sqDist
  induction M with
  | nil => simp
  | cons r M ih =>
    simp only [List.map_cons, List.zipWith_cons_cons, List.sum_cons]
    rw [ih, dot_set _ _ _ _ hj]
    ring

/-- **5a.** adding one record to cell `j` changes `Q @ mu` by exactly column `j` of `Q` -/
theorem apply_add_unit (M : Mat ℝ) (mu : List ℝ) (j : ℕ) (hj : j < mu.length) :
    AdaGrid.apply M (mu.set j (mu.getD j 0 + 1))
      = List.zipWith (· + ·) (AdaGrid.apply M mu) (col M j) := by
  rw [apply_set _ _ _ _ hj]
  congr 1
  conv_rhs => rw [← List.map_id (col M j)]
  apply List.map_congr_left
  intro x _
  simp

/-- **5b.** the squared L2 change of the released statistic is the squared column norm -/
theorem sqDist_apply_add_unit (M : Mat ℝ) (mu : List ℝ) (j : ℕ) (hj : j < mu.length) :
    sqDist (AdaGrid.apply M (mu.set j (mu.getD j 0 + 1))) (AdaGrid.apply M mu) = colSq M j := by
  rw [sqDist_apply_set _ _ _ _ hj]
  ring

/-- removing one record from cell `j`: the same squared change -/
theorem sqDist_apply_sub_unit (M : Mat ℝ) (mu : List ℝ) (j : ℕ) (hj : j < mu.length) :
    sqDist (AdaGrid.apply M (mu.set j (mu.getD j 0 - 1))) (AdaGrid.apply M mu) = colSq M j := by
  rw [sqDist_apply_set _ _ _ _ hj]
  ring

/-- **5c.** zCDP cost of the Gaussian release: `Δ²/(2σ²) ≤ 1/(2σ²)` when `Δ² = colSq M j ≤ 1` -/
theorem release_cost_le (M : Mat ℝ) (j : ℕ) (sigma : ℝ) (hσ : 0 < sigma) (h : colSq M j ≤ 1) :
    colSq M j / (2 * sigma ^ 2) ≤ 1 / (2 * sigma ^ 2) := by
  have : 0 < 2 * sigma ^ 2 := by positivity
  exact div_le_div_of_nonneg_right h this.le

end PGM.AdaGridSens
