import PGM.Proofs.SumOver
/-!
# Factor-level lemmas shared by the sum-product proofs

Everything is generic in the scalar `α` and read through a valuation `val : α → K` into a field:
exp-space code uses `op = Scalar.mul`, `r = Scalar.sum` on `PlainOf K`; log-space code uses
`op = Scalar.add`, `r = Scalar.lse` on `LogOf K`; in both cases `val = (·.v)`, `val (op x y) =
val x * val y` and `val (r l) = (l.map val).sum`.

* `FactorOK d f`       — `f` is well-formed and lives inside the domain `d`
* `sem_congr`          — `sem` only reads the factor's own attributes
* `sem_binop_ok`, `FactorOK.binop`, `binop_mem_attrs`; `foldl_binop_*` for products of lists
* `FactorOK.reduce`, `val_sem_reduce` (reduction = `sumOver` of the removed attributes)
* `val_reduceAll`      — full reduction = `sumOver` of all the factor's attributes
* `sem_mapVals`, `mapVals_WF` — cell-wise maps (`exp`, `addScalar`, `subScalar`, …)
-/
namespace PGM.Sem
open PGM
set_option linter.unusedSectionVars false
set_option linter.unusedVariables false

variable {α : Type} [Scalar α] {K : Type} [Field K]

/-- a factor usable with the domain `d` -/
def FactorOK (d : Dom) (f : Factor α) : Prop :=
  f.WF ∧ f.dom.Agrees d ∧ ∀ a ∈ f.dom.attrs, a ∈ d.attrs

/-- `sem` only reads the factor's own attributes -/
theorem sem_congr (f : Factor α) (σ τ : Attr → Nat) (h : ∀ a ∈ f.dom.attrs, σ a = τ a) :
    f.sem σ = f.sem τ := by
  unfold Factor.sem
  rw [List.map_congr_left h]

theorem sem_override_of_disjoint (f : Factor α) (σ : Attr → Nat) (as : List Attr) (v : List Nat)
    (h : ∀ a ∈ as, a ∉ f.dom.attrs) : f.sem (Dom.override σ as v) = f.sem σ :=
  sem_congr f _ _ (fun a ha => override_of_not_mem σ as v a (fun hm => h a hm ha))

theorem dependsOn_sem (val : α → K) (f : Factor α) : DependsOn (fun τ => val (f.sem τ)) f.dom.attrs :=
  fun σ τ h => congrArg val (sem_congr f σ τ h)

theorem dependsOn_prod (val : α → K) (fs : List (Factor α)) (S : List Attr)
    (h : ∀ f ∈ fs, ∀ a ∈ f.dom.attrs, a ∈ S) :
    DependsOn (fun τ => (fs.map (fun f => val (f.sem τ))).prod) S := by
  intro σ τ hστ
  show (fs.map (fun f => val (f.sem σ))).prod = (fs.map (fun f => val (f.sem τ))).prod
  congr 1
  apply List.map_congr_left
  intro f hf
  exact congrArg val (sem_congr f σ τ (fun a ha => hστ a (h f hf a ha)))

namespace FactorOK
variable {d : Dom} {f g : Factor α}

theorem valid (h : FactorOK d f) (hd : d.WF) {σ : Attr → Nat} (hσ : d.Valid σ) : f.dom.Valid σ :=
  Dom.valid_of_agrees f.dom d h.1.1 hd ((Dom.contains_iff d f.dom).mpr h.2.2) h.2.1 σ hσ

theorem cfg_eq (h : FactorOK d f) {a : Attr} (ha : a ∈ f.dom.attrs) : d.cfg a = f.dom.cfg a :=
  (Dom.agrees_iff f.dom d h.1.1).mp h.2.1 a ha

theorem compatible (hf : FactorOK d f) (hg : FactorOK d g) : f.dom.Compatible g.dom := by
  intro a n m h1 h2
  have e1 := hf.2.1 _ h1
  have e2 := hg.2.1 _ h2
  simp only at e1 e2
  omega

end FactorOK

theorem agrees_project (g d : Dom) (hg : g.WF) (ha : g.Agrees d) (as : List Attr)
    (hsub : ∀ a ∈ as, a ∈ g.attrs) : (g.project as).Agrees d := by
  intro p hp
  simp only [Dom.project, List.mem_map] at hp
  obtain ⟨a, ha', rfl⟩ := hp
  exact (Dom.agrees_iff g d hg).mp ha a (hsub a ha')

/-! ### binary operations -/

theorem binop_mem_attrs (op : α → α → α) (f g : Factor α) (a : Attr) :
    a ∈ (Factor.binop op f g).dom.attrs ↔ a ∈ f.dom.attrs ∨ a ∈ g.dom.attrs := by
  rw [Factor.binop_dom, Dom.attrs_merge, List.mem_append, List.mem_filter]
  by_cases h : a ∈ f.dom.attrs <;> simp [h]

theorem FactorOK.binop {d : Dom} {f g : Factor α} (op : α → α → α)
    (hf : FactorOK d f) (hg : FactorOK d g) : FactorOK d (Factor.binop op f g) := by
  refine ⟨Factor.binop_WF op f g hf.1 hg.1 (hf.compatible hg), ?_, ?_⟩
  · rw [Factor.binop_dom]
    intro p hp
    unfold Dom.merge at hp
    rcases List.mem_append.mp hp with h | h
    · exact hf.2.1 p h
    · exact agrees_project g.dom d hg.1.1 hg.2.1 _
        (fun a ha => (List.mem_filter.mp ha).1) p h
  · intro a ha
    rcases (binop_mem_attrs op f g a).mp ha with h | h
    · exact hf.2.2 a h
    · exact hg.2.2 a h

theorem sem_binop_ok {d : Dom} {f g : Factor α} (op : α → α → α) (hd : d.WF)
    (hf : FactorOK d f) (hg : FactorOK d g) {σ : Attr → Nat} (hσ : d.Valid σ) :
    (Factor.binop op f g).sem σ = op (f.sem σ) (g.sem σ) :=
  Factor.sem_binop op f g σ hf.1 hg.1 (hf.compatible hg)
    (by
      have := (FactorOK.binop op hf hg).valid hd hσ
      rwa [Factor.binop_dom] at this)

theorem foldl_binop_ok {d : Dom} (op : α → α → α) (ps : List (Factor α)) (p : Factor α)
    (hp : FactorOK d p) (hps : ∀ f ∈ ps, FactorOK d f) :
    FactorOK d (ps.foldl (Factor.binop op) p) := by
  induction ps generalizing p with
  | nil => exact hp
  | cons q qs ih =>
    exact ih _ (FactorOK.binop op hp (hps q (by simp))) (fun f hf => hps f (by simp [hf]))

theorem foldl_binop_mem_attrs (op : α → α → α) (ps : List (Factor α)) (p : Factor α) (a : Attr) :
    a ∈ (ps.foldl (Factor.binop op) p).dom.attrs ↔ ∃ f ∈ p :: ps, a ∈ f.dom.attrs := by
  induction ps generalizing p with
  | nil => simp
  | cons q qs ih =>
    rw [List.foldl_cons, ih]
    simp only [List.mem_cons, exists_eq_or_imp, binop_mem_attrs]
    tauto

/-- the value of a folded product is the product of the values -/
theorem val_sem_foldl_binop {d : Dom} (op : α → α → α) (val : α → K)
    (hop : ∀ x y, val (op x y) = val x * val y) (hd : d.WF)
    (ps : List (Factor α)) (p : Factor α)
    (hp : FactorOK d p) (hps : ∀ f ∈ ps, FactorOK d f) {σ : Attr → Nat} (hσ : d.Valid σ) :
    val ((ps.foldl (Factor.binop op) p).sem σ) = ((p :: ps).map (fun f => val (f.sem σ))).prod := by
  induction ps generalizing p with
  | nil => simp
  | cons q qs ih =>
    have hq := hps q (by simp)
    rw [List.foldl_cons, ih _ (FactorOK.binop op hp hq) (fun f hf => hps f (by simp [hf]))]
    simp only [List.map_cons, List.prod_cons]
    rw [sem_binop_ok op hd hp hq hσ, hop, mul_assoc]

/-- a product over a list is the product over the two halves of a split (commutativity) -/
theorem prod_map_filter_split {ι : Type} (l : List ι) (p : ι → Bool) (g : ι → K) :
    ((l.filter (fun x => !p x)).map g).prod * ((l.filter p).map g).prod = (l.map g).prod := by
  induction l with
  | nil => simp
  | cons x xs ih =>
    by_cases hx : p x = true
    · simp only [List.filter_cons, hx, Bool.not_true, Bool.false_eq_true, if_false, if_true,
        List.map_cons, List.prod_cons]
      rw [← ih]; exact mul_left_comm _ _ _
    · have hx' : p x = false := by simpa using hx
      simp only [List.filter_cons, hx', Bool.not_false, Bool.false_eq_true, if_false, if_true,
        List.map_cons, List.prod_cons]
      rw [← ih]; exact mul_assoc _ _ _

/-! ### reductions -/

theorem FactorOK.reduce {d : Dom} {f : Factor α} (r : List α → α) (as : List Attr)
    (hf : FactorOK d f) : FactorOK d (Factor.reduce r f as) := by
  refine ⟨Factor.reduce_WF r f as hf.1, ?_, ?_⟩
  · rw [Factor.reduce_dom]
    exact agrees_project f.dom d hf.1.1 hf.2.1 _ (fun a ha => (List.mem_filter.mp ha).1)
  · intro a ha
    rw [Factor.reduce_attrs] at ha
    exact hf.2.2 a (List.mem_filter.mp ha).1

theorem reduce_mem_attrs (r : List α → α) (f : Factor α) (as : List Attr) (a : Attr) :
    a ∈ (Factor.reduce r f as).dom.attrs ↔ a ∈ f.dom.attrs ∧ a ∉ as := by
  rw [Factor.reduce_attrs]
  simp [Dom.invert]

/-- a reduction is the `sumOver` of the removed attributes (listed in the factor's order) -/
theorem val_sem_reduce {d : Dom} {f : Factor α} (r : List α → α) (val : α → K)
    (hr : ∀ l, val (r l) = (l.map val).sum) (hd : d.WF) (hf : FactorOK d f) (as : List Attr)
    {σ : Attr → Nat} (hσ : d.Valid σ) :
    val ((Factor.reduce r f as).sem σ) = sumOver d (f.dom.removed as) σ (fun τ => val (f.sem τ)) := by
  rw [Factor.sem_reduce r f as σ hf.1 (hf.valid hd hσ), hr, List.map_map]
  unfold sumOver
  have : (f.dom.removed as).map f.dom.cfg = (f.dom.removed as).map d.cfg := by
    apply List.map_congr_left
    intro a ha
    exact (hf.cfg_eq (List.mem_filter.mp ha).1).symm
  rw [this]
  rfl

theorem filter_contains_single (l : List Attr) (z : Attr) (hl : l.Nodup) (hz : z ∈ l) :
    l.filter (fun a => [z].contains a) = [z] := by
  induction l with
  | nil => simp at hz
  | cons x xs ih =>
    obtain ⟨hx, hxs⟩ := List.nodup_cons.mp hl
    rw [List.filter_cons]
    by_cases hxz : x = z
    · subst hxz
      have h1 : [x].contains x = true := by simp
      have : xs.filter (fun a => [x].contains a) = [] := by
        rw [List.filter_eq_nil_iff]
        intro a ha
        have : a ≠ x := fun h => hx (h ▸ ha)
        simpa using this
      rw [if_pos h1, this]
    · have hz' : z ∈ xs := by
        rcases List.mem_cons.mp hz with h | h
        · exact absurd h.symm hxz
        · exact h
      have h1 : ¬ ([z].contains x = true) := by simpa using hxz
      rw [if_neg h1]
      exact ih hxs hz'

theorem removed_single (f : Factor α) (z : Attr) (hf : f.WF) (hz : z ∈ f.dom.attrs) :
    f.dom.removed [z] = [z] :=
  filter_contains_single _ z hf.1 hz

/-- `removed` only reorders a duplicate-free sub-list of the factor's attributes -/
theorem removed_perm (f : Factor α) (as : List Attr) (hf : f.WF) (has : as.Nodup)
    (hsub : ∀ a ∈ as, a ∈ f.dom.attrs) : (f.dom.removed as).Perm as := by
  unfold Dom.removed
  rw [List.perm_ext_iff_of_nodup (List.Nodup.sublist List.filter_sublist hf.1) has]
  intro a
  simp only [List.mem_filter, List.contains_iff_mem]
  exact ⟨fun h => h.2, fun h => ⟨hsub a h, h⟩⟩

/-- reduction over a duplicate-free sub-list of the factor's attributes, in any order -/
theorem val_sem_reduce_sub {d : Dom} {f : Factor α} (r : List α → α) (val : α → K)
    (hr : ∀ l, val (r l) = (l.map val).sum) (hd : d.WF) (hf : FactorOK d f) (as : List Attr)
    (has : as.Nodup) (hsub : ∀ a ∈ as, a ∈ f.dom.attrs) {σ : Attr → Nat} (hσ : d.Valid σ) :
    val ((Factor.reduce r f as).sem σ) = sumOver d as σ (fun τ => val (f.sem τ)) := by
  rw [val_sem_reduce r val hr hd hf as hσ]
  exact sumOver_perm d _ _ σ _ (removed_perm f as hf.1 has hsub)
    (List.Nodup.sublist List.filter_sublist hf.1.1)

/-! ### full reductions -/

theorem range_mul (n m : Nat) :
    List.range (n * m) = (List.range n).flatMap (fun i => (List.range m).map (fun k => i * m + k)) := by
  induction n with
  | zero => simp
  | succ k ih =>
    rw [Nat.succ_mul, List.range_add, ih, List.range_succ, List.flatMap_append]
    simp

theorem map_ravel_cells (s : List Nat) : (cells s).map (ravel s) = List.range (size s) := by
  induction s with
  | nil => simp [cells, ravel, size]
  | cons n ns ih =>
    simp only [cells, size, List.map_flatMap, List.map_map]
    rw [range_mul]
    congr 1
    funext i
    rw [← ih, List.map_map]
    rfl

/-- the flat data of a well-formed array is `get` over the row-major cell enumeration -/
theorem data_toList_eq (a : NdArr α) (hw : a.WF) : a.data.toList = (cells a.shape).map a.get := by
  have : (cells a.shape).map a.get
      = ((cells a.shape).map (ravel a.shape)).map (fun k => a.data.getD k default) := by
    rw [List.map_map]; rfl
  rw [this, map_ravel_cells, ← hw]
  apply List.ext_getElem
  · simp
  · intro i h1 h2
    have hi : i < a.data.size := by simpa using h1
    simp [Array.getD_eq_getD_getElem?, hi]

/-- a full reduction is the `sumOver` of all the factor's attributes -/
theorem val_reduceAll {d : Dom} {f : Factor α} (r : List α → α) (val : α → K)
    (hr : ∀ l, val (r l) = (l.map val).sum) (hf : FactorOK d f) (σ : Attr → Nat) :
    val (f.vals.reduceAll r) = sumOver d f.dom.attrs σ (fun τ => val (f.sem τ)) := by
  unfold NdArr.reduceAll sumOver
  rw [hr, data_toList_eq _ hf.1.2.2, List.map_map, hf.1.2.1, Dom.shape_eq_map_cfg _ hf.1.1]
  have : f.dom.attrs.map f.dom.cfg = f.dom.attrs.map d.cfg :=
    List.map_congr_left (fun a ha => (hf.cfg_eq ha).symm)
  rw [this]
  congr 1
  apply List.map_congr_left
  intro v hv
  have hl : v.length = f.dom.attrs.length := by
    have := (mem_cells_inRange _ _ hv).length_eq
    simpa using this
  simp only [Function.comp, Factor.sem]
  rw [map_override_self σ f.dom.attrs v hf.1.1 hl]

/-! ### cell-wise maps -/

theorem mapVals_WF (g : α → α) (f : Factor α) (hf : f.WF) :
    (Factor.mk' f.dom (f.vals.map g)).WF := by
  refine ⟨hf.1, rfl, ?_⟩
  have := NdArr.map_WF g f.vals hf.2.2
  unfold NdArr.WF at this
  show (f.vals.map g).data.size = size f.dom.shape
  rw [this]
  show size f.vals.shape = size f.dom.shape
  rw [hf.2.1]

theorem sem_mapVals (g : α → α) (f : Factor α) (σ : Attr → Nat) (hf : f.WF) (hσ : f.dom.Valid σ) :
    (Factor.mk' f.dom (f.vals.map g)).sem σ = g (f.sem σ) := by
  show ((f.vals.map g).reshape f.dom.shape).get (f.dom.attrs.map σ) = _
  rw [Factor.get_reshape_of_shape_eq _ _ (by show f.vals.shape = _; exact hf.2.1)]
  apply NdArr.get_map _ _ _ hf.2.2
  rw [hf.2.1]
  exact Factor.inRange_of_valid _ hf.1 σ hσ

theorem FactorOK.mapVals {d : Dom} {f : Factor α} (g : α → α) (hf : FactorOK d f) :
    FactorOK d (Factor.mk' f.dom (f.vals.map g)) :=
  ⟨mapVals_WF g f hf.1, hf.2.1, hf.2.2⟩

end PGM.Sem
