import PGM.Proofs.BPSum
/-!
# Factor-level lemmas for belief propagation at the scalar `LogOf K`

Readings of the log-space scalar operations, `logsumexp` over named attributes and over everything
as `nsum`, well-formedness of `iop` / `sub`, and `CliqueVec` get/set.
-/
namespace PGM.Sem.BP
open PGM PGM.JT
set_option linter.unusedSectionVars false
set_option linter.unusedVariables false
set_option linter.unusedSimpArgs false

variable {K : Type} [Field K] [LinearOrder K] [IsStrictOrderedRing K]

/-! ### scalar readings -/

theorem log_add_v (x y : LogOf K) : (Scalar.add x y).v = x.v * y.v := rfl

/-- exp-space reading of `negInfAware` -/
def nia (y : K) : K := if y = 0 then 1 else y⁻¹

theorem negInfAware_v (y : LogOf K) : (Factor.negInfAware y).v = nia y.v := by
  unfold Factor.negInfAware nia
  by_cases h : y.v = 0
  · have : Scalar.isNegInf y = true := by show decide (y.v = 0) = true; simp [h]
    rw [if_pos this, if_pos h]; rfl
  · have : Scalar.isNegInf y = false := by show decide (y.v = 0) = false; simp [h]
    rw [this, if_neg h]; rfl

theorem mul_nia (y : K) : y * nia y = if y = 0 then 0 else 1 := by
  unfold nia
  by_cases h : y = 0
  · simp [h]
  · simp [h]

theorem lse_v (l : List (LogOf K)) : (Scalar.lse l).v = (l.map (fun x => x.v)).sum := by
  show List.foldl (· + ·) 0 (l.map (fun x => x.v)) = _
  rw [List.sum_eq_foldl]

/-! ### index lemmas -/

theorem range_mul (n m : Nat) :
    (List.range n).flatMap (fun i => (List.range m).map (fun r => i * m + r)) = List.range (n * m) := by
  induction n with
  | zero => simp
  | succ k ih =>
    rw [List.range_succ, List.flatMap_append, ih, Nat.succ_mul, List.range_add]
    simp

theorem cells_map_ravel (s : List Nat) : (cells s).map (ravel s) = List.range (size s) := by
  induction s with
  | nil => simp [cells, ravel, size]
  | cons n ns ih =>
    simp only [cells, size, List.map_flatMap, List.map_map]
    rw [← range_mul]
    congr 1
    funext i
    rw [← ih, List.map_map]
    apply List.map_congr_left
    intro r _
    simp [ravel]

theorem data_toList {α : Type} [Inhabited α] (a : NdArr α) (ha : a.WF) :
    a.data.toList = (cells a.shape).map a.get := by
  have h1 : (cells a.shape).map a.get
      = ((cells a.shape).map (ravel a.shape)).map (fun q => a.data.getD q default) := by
    rw [List.map_map]; rfl
  rw [h1, cells_map_ravel]
  unfold NdArr.WF at ha
  apply List.ext_getElem
  · simp [ha]
  · intro i h1 h2
    simp at h1
    simp [Array.getD_eq_getD_getElem?, h1]

theorem map_override_self (σ : Attr → Nat) (as : List Attr) (v : List Nat) (hnd : as.Nodup)
    (hl : v.length = as.length) : as.map (Dom.override σ as v) = v := by
  apply List.ext_getElem
  · simp [hl]
  · intro p h1 h2
    have hp : p < as.length := by simpa using h1
    simp only [List.getElem_map, Dom.override]
    have hc : as.contains as[p] = true := by simp
    rw [if_pos hc, hnd.idxOf_getElem p hp]
    simp [List.getD_eq_getElem?_getD, List.getElem?_eq_getElem h2]

/-! ### `reduce` with validity on the kept attributes only -/

theorem sem_reduce' {α : Type} [Scalar α] (r : List α → α) (f : Factor α) (as : List Attr)
    (σ : Attr → Nat) (hf : f.WF) (hσ : ∀ a ∈ f.dom.attrs, a ∉ as → σ a < f.dom.cfg a) :
    (Factor.reduce r f as).sem σ
      = r ((cells ((f.dom.removed as).map f.dom.cfg)).map
            (fun v => f.sem (Dom.override σ (f.dom.removed as) v))) := by
  obtain ⟨hfd, hfs, hfw⟩ := hf
  have hs : f.vals.shape = f.dom.attrs.map f.dom.cfg := by rw [hfs, Dom.shape_eq_map_cfg _ hfd]
  unfold Factor.sem
  rw [Factor.reduce_attrs, Factor.reduce_vals,
    Factor.reduceAxes_eq r f.vals f.dom.attrs f.dom.cfg hfd hs as]
  rw [Factor.get_reshape_of_shape_eq _ _ (NdArr.ofFn_shape _ _)]
  unfold Dom.removed Dom.invert
  rw [NdArr.get_ofFn _ _ _ (NdArr.inRange_map _ _ _
    (fun a ha => hσ a (List.mem_filter.mp ha).1 (by
      have := (List.mem_filter.mp ha).2
      simpa using this)))]
  congr 1
  apply List.map_congr_left
  intro v _
  congr 1
  rw [Factor.assemble_eq f.dom.attrs hfd (fun a => as.contains a) σ v]
  apply List.map_congr_left
  intro a ha
  unfold Dom.override
  have h1 : (f.dom.attrs.filter (fun a => as.contains a)).contains a = as.contains a := by
    rw [Bool.eq_iff_iff, List.contains_iff_mem]
    simp [ha]
  rw [h1]

theorem removed_nodup (D : Dom) (hD : D.WF) (as : List Attr) : (D.removed as).Nodup :=
  List.Nodup.filter _ hD

theorem mem_removed (D : Dom) (as : List Attr) (a : Attr) :
    a ∈ D.removed as ↔ a ∈ D.attrs ∧ a ∈ as := by
  simp [Dom.removed]

/-- `logsumexp` over named attributes is an `nsum` of the exp-space values -/
theorem logsumexp_nsum (d : Dom) (f : Factor (LogOf K)) (as : List Attr) (τ : Attr → Nat)
    (T : (Attr → Nat) → K) (hf : f.WF) (hag : f.dom.Agrees d)
    (hτ : ∀ a ∈ f.dom.attrs, a ∉ as → τ a < f.dom.cfg a)
    (hT : ∀ τ', f.dom.Valid τ' → (f.sem τ').v = T τ') :
    ((f.logsumexp as).sem τ).v = nsum d (f.dom.removed as) τ T := by
  have hagi := (Dom.agrees_iff f.dom d hf.1).mp hag
  unfold Factor.logsumexp
  rw [sem_reduce' _ f as τ hf hτ, lse_v, List.map_map]
  have hcfg : (f.dom.removed as).map f.dom.cfg = (f.dom.removed as).map d.cfg := by
    apply List.map_congr_left
    intro a ha
    exact (hagi a ((mem_removed _ _ _).mp ha).1).symm
  rw [hcfg]
  have : ((cells ((f.dom.removed as).map d.cfg)).map
        ((fun x : LogOf K => x.v) ∘ fun v => f.sem (Dom.override τ (f.dom.removed as) v))).sum
      = sumOver d (f.dom.removed as) τ (fun τ' => (f.sem τ').v) := rfl
  rw [this, sumOver_eq_nsum d _ (removed_nodup _ hf.1 _)]
  apply nsum_congr_fun
  intro τ' h1 h2
  apply hT
  rw [Dom.valid_iff _ hf.1]
  intro a ha
  by_cases har : a ∈ f.dom.removed as
  · rw [← hagi a ha]; exact h2 a har
  · rw [h1 a har]
    apply hτ a ha
    intro haas
    exact har ((mem_removed _ _ _).mpr ⟨ha, haas⟩)

/-- `logsumexp()` over everything is the `nsum` over all the factor's attributes -/
theorem logsumexpAll_v (d : Dom) (f : Factor (LogOf K)) (σ : Attr → Nat) (hf : f.WF)
    (hag : f.dom.Agrees d) :
    (f.logsumexpAll).v = nsum d f.dom.attrs σ (fun τ => (f.sem τ).v) := by
  have hagi := (Dom.agrees_iff f.dom d hf.1).mp hag
  unfold Factor.logsumexpAll NdArr.reduceAll
  rw [lse_v, data_toList _ hf.2.2, List.map_map, hf.2.1, Dom.shape_eq_map_cfg _ hf.1]
  have hcfg : f.dom.attrs.map f.dom.cfg = f.dom.attrs.map d.cfg :=
    List.map_congr_left (fun a ha => (hagi a ha).symm)
  rw [hcfg, ← sumOver_eq_nsum d _ hf.1]
  unfold sumOver
  congr 1
  apply List.map_congr_left
  intro v hv
  have hl : v.length = f.dom.attrs.length := by
    have := (mem_cells_inRange _ _ hv).length_eq
    simpa using this
  simp only [Function.comp, Factor.sem]
  rw [map_override_self σ _ v hf.1 hl]

/-! ### well-formedness of `iop` and `sub` -/

theorem iop_WF {α : Type} [Scalar α] (op : α → α → α) (f g : Factor α) (hf : f.WF) (hg : g.WF)
    (hc : f.dom.contains g.dom = true) (ha : g.dom.Agrees f.dom) : (Factor.iop op f g).WF := by
  have h2 := Factor.expand_WF g _ hg hf.1 hc ha
  refine ⟨hf.1, hf.2.1, ?_⟩
  exact NdArr.zipWith_WF op _ _ hf.2.2 h2.2.2 (by rw [hf.2.1]; rfl)

theorem negmap_WF {α : Type} [Scalar α] (g : Factor α) (hg : g.WF) :
    (Factor.mk' g.dom (g.vals.map Factor.negInfAware)).WF := by
  refine ⟨hg.1, rfl, ?_⟩
  have := NdArr.map_WF Factor.negInfAware g.vals hg.2.2
  unfold NdArr.WF at this
  show (g.vals.map Factor.negInfAware).data.size = size g.dom.shape
  rw [this]
  show size g.vals.shape = size g.dom.shape
  rw [hg.2.1]

theorem sub_WF {α : Type} [Scalar α] (f g : Factor α) (hf : f.WF) (hg : g.WF)
    (hcompat : f.dom.Compatible g.dom) : (f.sub g).WF :=
  Factor.binop_WF _ f _ hf (negmap_WF g hg) hcompat

theorem sub_dom {α : Type} [Scalar α] (f g : Factor α) (hc : f.dom.contains g.dom = true) :
    (f.sub g).dom = f.dom :=
  Dom.merge_eq_self_of_contains f.dom g.dom hc

theorem sub_sem_v (f g : Factor (LogOf K)) (σ : Attr → Nat) (hf : f.WF) (hg : g.WF)
    (hcompat : f.dom.Compatible g.dom) (hσ : (f.dom.merge g.dom).Valid σ) :
    ((f.sub g).sem σ).v = (f.sem σ).v * nia (g.sem σ).v := by
  rw [Factor.sem_sub f g σ hf hg hcompat hσ, log_add_v, negInfAware_v]

/-! ### `CliqueVec` as a dictionary -/

theorem any_key_iff {α : Type} (cv : CliqueVec α) (c : Clique) :
    cv.any (fun p => p.1 == c) = true ↔ c ∈ cv.map Prod.fst := by
  induction cv with
  | nil => simp
  | cons p ps ih =>
    simp only [List.any_cons, Bool.or_eq_true, ih, List.map_cons, List.mem_cons, beq_iff_eq]
    constructor
    · rintro (h | h)
      · exact Or.inl h.symm
      · exact Or.inr h
    · rintro (h | h)
      · exact Or.inl h.symm
      · exact Or.inr h

theorem lookup_replace {α : Type} (cv : CliqueVec α) (c c' : Clique) (f : Factor α) :
    (cv.map (fun p => if p.1 == c then (c, f) else p)).lookup c'
      = if c' = c then (cv.lookup c).map (fun _ => f) else cv.lookup c' := by
  induction cv with
  | nil => simp
  | cons p ps ih =>
    obtain ⟨k, v⟩ := p
    rw [List.map_cons]
    by_cases hk : k = c
    · subst hk
      have h1 : (if ((k, v) : Clique × Factor α).1 == k then (k, f) else (k, v)) = (k, f) := by simp
      rw [h1]
      simp only [List.lookup_cons]
      rw [ih]
      by_cases hc : c' = k
      · subst hc; simp
      · have : (c' == k) = false := by simpa using hc
        simp [this, hc]
    · have hk' : (k == c) = false := by simpa using hk
      have h1 : (if ((k, v) : Clique × Factor α).1 == c then (c, f) else (k, v)) = (k, v) := by
        simp [hk]
      rw [h1]
      simp only [List.lookup_cons]
      rw [ih]
      have hck' : (c == k) = false := by simpa using (fun e : c = k => hk e.symm)
      by_cases hck : c' = k
      · subst hck; simp [hk]
      · have : (c' == k) = false := by simpa using hck
        simp [this, hck']

theorem keys_replace {α : Type} (cv : CliqueVec α) (c : Clique) (f : Factor α) :
    (cv.map (fun p => if p.1 == c then (c, f) else p)).map Prod.fst = cv.map Prod.fst := by
  rw [List.map_map]
  apply List.map_congr_left
  intro p _
  by_cases h : p.1 = c
  · simp [h]
  · simp [h]

theorem lookup_isSome_of_mem {α : Type} (cv : CliqueVec α) (c : Clique) (h : c ∈ cv.map Prod.fst) :
    ∃ f, cv.lookup c = some f ∧ (c, f) ∈ cv := by
  induction cv with
  | nil => simp at h
  | cons p ps ih =>
    obtain ⟨k, v⟩ := p
    simp only [List.lookup_cons]
    by_cases hk : c = k
    · subst hk; exact ⟨v, by simp, by simp⟩
    · have : (c == k) = false := by simpa using hk
      rw [this]
      simp only [List.map_cons, List.mem_cons] at h
      rcases h with h | h
      · exact absurd h hk
      · obtain ⟨f, h1, h2⟩ := ih h
        exact ⟨f, h1, by simp [h2]⟩

variable {α : Type} [Scalar α]

theorem keys_set (cv : CliqueVec α) (c : Clique) (f : Factor α) (h : c ∈ cv.map Prod.fst) :
    (cv.set c f).map Prod.fst = cv.map Prod.fst := by
  unfold CliqueVec.set
  rw [if_pos ((any_key_iff cv c).mpr h)]
  exact keys_replace cv c f

theorem get_set_self (cv : CliqueVec α) (c : Clique) (f : Factor α) (h : c ∈ cv.map Prod.fst) :
    (cv.set c f).get c = f := by
  unfold CliqueVec.set CliqueVec.get
  rw [if_pos ((any_key_iff cv c).mpr h), lookup_replace]
  obtain ⟨g, hg, _⟩ := lookup_isSome_of_mem cv c h
  simp [hg]

theorem get_set_ne (cv : CliqueVec α) (c c' : Clique) (f : Factor α) (h : c ∈ cv.map Prod.fst)
    (hne : c' ≠ c) : (cv.set c f).get c' = cv.get c' := by
  unfold CliqueVec.set CliqueVec.get
  rw [if_pos ((any_key_iff cv c).mpr h), lookup_replace, if_neg hne]

end PGM.Sem.BP
