import PGM.Proofs.SynthTable
/-!
# Synthetic records, the whole table: the cells of a model clique (C11, part 1, item 4)

For every step `sp` (column `col` generated conditionally on `proj`) the number of final rows in the
cell `(g, v)` of `proj ++ [col]` is the number of `v`s in the outcome handed to group `g`; the
verified column checker then bounds its distance to the scaled conditional by one, and keeps
zero-probability cells empty.
-/
namespace PGM.Synth.Table
open PGM.Synth

/-! ### the group keys a step saw are the group keys of the final table -/

theorem specsWF_drop (ncols : Nat) (k : Nat) (done : List Nat) (specs : List ColSpec)
    (h : specsWF ncols done specs = true) :
    specsWF ncols (done ++ (specs.take k).map (·.col)) (specs.drop k) = true := by
  induction k generalizing done specs with
  | zero => simpa using h
  | succ k ih =>
    cases specs with
    | nil => simp [specsWF]
    | cons sp sps =>
      rw [specsWF_cons] at h
      have := ih (done ++ [sp.col]) sps h.2.2.2.2
      simpa [List.append_assoc] using this

theorem run_take_drop (k : Nat) (specs : List ColSpec) (outs : List (List (List Nat))) (rows : List Row) :
    run specs outs rows = run (specs.drop k) (outs.drop k) (run (specs.take k) (outs.take k) rows) := by
  unfold run
  rw [← List.foldl_append]
  unfold List.zip
  rw [← List.take_zipWith, ← List.drop_zipWith, List.take_append_drop]

/-- the table step `k` sees -/
theorem synthTable_prefix (ncols total : Nat) (specs : List ColSpec) (outs : List (List (List Nat)))
    (k : Nat) :
    synthTable ncols total specs outs
      = run (specs.drop k) (outs.drop k) (synthTable ncols total (specs.take k) (outs.take k)) := by
  rw [synthTable_eq_run, synthTable_eq_run, ← run_take_drop]

theorem synthTable_groupKeys_stable (ncols total : Nat) (specs : List ColSpec)
    (outs : List (List (List Nat))) (hwf : specsWF ncols [] specs = true) (k : Nat) (sp : ColSpec)
    (hk : specs[k]? = some sp) :
    groupKeys sp.proj (synthTable ncols total (specs.take k) (outs.take k))
      = groupKeys sp.proj (synthTable ncols total specs outs) := by
  have hd := specsWF_drop ncols k [] specs hwf
  rw [List.nil_append] at hd
  have hlt : k < specs.length := by
    rcases Nat.lt_or_ge k specs.length with h | h
    · exact h
    · rw [List.getElem?_eq_none h] at hk; cases hk
  have hdrop : specs.drop k = sp :: specs.drop (k + 1) := by
    rw [List.drop_eq_getElem_cons hlt]
    rw [List.getElem?_eq_getElem hlt] at hk
    rw [Option.some.inj hk]
  have hproj : ∀ j ∈ sp.proj, j ∈ (specs.take k).map (·.col) := by
    rw [hdrop, specsWF_cons] at hd
    exact hd.2.2.1
  rw [synthTable_prefix ncols total specs outs k]
  apply groupKeys_congr
  exact (agree_run ncols _ _ hd (outs.drop k) _).map_key sp.proj hproj

/-! ### cells -/

theorem cellCount_pos_of_mem (pos g : List Nat) (rows : List Row) (h : g ∈ rows.map (key pos)) :
    0 < cellCount pos g rows := by
  rw [cellCount_eq_count]; exact List.count_pos_iff.2 h

theorem cellCount_zero_of_not_mem (pos g : List Nat) (rows : List Row) (h : g ∉ rows.map (key pos)) :
    cellCount pos g rows = 0 := by
  rw [cellCount_eq_count]; exact List.count_eq_zero_of_not_mem h

theorem cellCount_snoc_le (c : Nat) (proj g : List Nat) (v : Nat) (rows : List Row) :
    cellCount (proj ++ [c]) (g ++ [v]) rows ≤ cellCount proj g rows := by
  rw [cellCount_snoc, ← groupCol_length c]
  exact List.count_le_length

theorem StepOK.exists_out {sp : ColSpec} {o : List (List Nat)} {final : List Row}
    (h : StepOK sp o final) (g : List Nat) (hg : g ∈ final.map (key sp.proj)) :
    ∃ og, (g, og) ∈ List.zip (groupKeys sp.proj final) o :=
  exists_out_of_mem _ o h.1 g ((mem_groupKeys _ _ _).2 hg)

/-- cell counts of a model clique are the outcome's value counts; outside the attribute's domain
they vanish -/
theorem StepOK.cell_out_of_domain {sp : ColSpec} {o : List (List Nat)} {final : List Row}
    (h : StepOK sp o final) (g : List Nat) (v : Nat) (hv : sp.size ≤ v) :
    cellCount (sp.proj ++ [sp.col]) (g ++ [v]) final = 0 := by
  rw [cellCount_snoc]
  apply List.count_eq_zero_of_not_mem
  intro hm
  unfold groupCol at hm
  obtain ⟨r, hr, rfl⟩ := List.mem_map.1 hm
  have := h.in_domain r (List.mem_filter.1 hr).1
  omega

/-- **zero cells of the conditional stay empty** -/
theorem StepOK.support {sp : ColSpec} {o : List (List Nat)} {final : List Row}
    (h : StepOK sp o final) (g : List Nat) (v : Nat) (hz : (sp.cond g).getD v 0 = 0) :
    cellCount (sp.proj ++ [sp.col]) (g ++ [v]) final = 0 := by
  by_cases hg : g ∈ final.map (key sp.proj)
  · by_cases hv : v < sp.size
    · obtain ⟨og, hm⟩ := h.exists_out g hg
      obtain ⟨_, _, h3, h4⟩ := h.2 g og hm
      rw [(h.cell g og hm v).1]
      rw [Aux.colOK_unpack] at h4
      have := (h4.2.2 v (h3 ▸ hv)).2
      rw [hist_getD _ _ _ hv] at this
      rcases this with h0 | h0
      · exfalso; apply h0; rw [Aux.scaled_getD, hz]; simp
      · exact h0
    · exact h.cell_out_of_domain g v (Nat.le_of_not_lt hv)
  · have := cellCount_snoc_le sp.col sp.proj g v final
    rw [cellCount_zero_of_not_mem _ _ _ hg] at this
    exact Nat.le_zero.1 this

/-- **rounding error below one in every cell of the clique**, relative to the group's actual size -/
theorem StepOK.cell_error {sp : ColSpec} {o : List (List Nat)} {final : List Row}
    (h : StepOK sp o final) (g : List Nat) (hnn : ∀ c ∈ sp.cond g, 0 ≤ c) (v : Nat) :
    |((cellCount (sp.proj ++ [sp.col]) (g ++ [v]) final : Nat) : Rat)
      - (scaled (sp.cond g) (cellCount sp.proj g final)).getD v 0| < 1 := by
  by_cases hg : g ∈ final.map (key sp.proj)
  · obtain ⟨og, hm⟩ := h.exists_out g hg
    obtain ⟨_, _, h3, h4⟩ := h.2 g og hm
    obtain ⟨hc1, hc2⟩ := h.cell g og hm v
    by_cases hv : v < sp.size
    · have hpos : 0 < og.length := hc2 ▸ cellCount_pos_of_mem _ _ _ hg
      have hco := countsOK_of_colOK _ _ _ hpos hnn h4
      have := (colOK_sound (sp.cond g) og.length (hist sp.size og) hco h4).2 v (h3 ▸ hv)
      rw [hist_getD _ _ _ hv] at this
      rw [hc1, ← hc2]
      exact this.1
    · have hv' : sp.size ≤ v := Nat.le_of_not_lt hv
      rw [h.cell_out_of_domain g v hv', Aux.scaled_getD,
        List.getD_eq_getElem?_getD, List.getElem?_eq_none (h3 ▸ hv')]
      simp
  · have h1 := cellCount_snoc_le sp.col sp.proj g v final
    have h0 := cellCount_zero_of_not_mem _ _ _ hg
    rw [h0] at h1
    rw [Nat.le_zero.1 h1, h0, Aux.scaled_getD]
    simp

/-! ### on `synthTable` -/

theorem synthTable_group_hist (ncols total : Nat) (specs : List ColSpec) (outs : List (List (List Nat)))
    (hwf : specsWF ncols [] specs = true)
    (hok : outsOK ncols total specs outs (List.replicate total (List.replicate ncols 0)) = true)
    (sp : ColSpec) (o : List (List Nat)) (hso : (sp, o) ∈ List.zip specs outs) :
    o.length = (groupKeys sp.proj (synthTable ncols total specs outs)).length ∧
    ∀ g og, (g, og) ∈ List.zip (groupKeys sp.proj (synthTable ncols total specs outs)) o →
      og.length = cellCount sp.proj g (synthTable ncols total specs outs) ∧
      colOK (sp.cond g) og.length (hist sp.size og) = true ∧
      ∀ v, cellCount (sp.proj ++ [sp.col]) (g ++ [v]) (synthTable ncols total specs outs) = og.count v := by
  have h := synthTable_stepOK ncols total specs outs hwf hok sp o hso
  refine ⟨h.1, fun g og hm => ⟨(h.cell g og hm 0).2, (h.2 g og hm).2.2.2, fun v => (h.cell g og hm v).1⟩⟩

theorem synthTable_group_covered (ncols total : Nat) (specs : List ColSpec) (outs : List (List (List Nat)))
    (hwf : specsWF ncols [] specs = true)
    (hok : outsOK ncols total specs outs (List.replicate total (List.replicate ncols 0)) = true)
    (sp : ColSpec) (o : List (List Nat)) (hso : (sp, o) ∈ List.zip specs outs) (g : List Nat)
    (hg : g ∈ (synthTable ncols total specs outs).map (key sp.proj)) :
    ∃ og, (g, og) ∈ List.zip (groupKeys sp.proj (synthTable ncols total specs outs)) o :=
  (synthTable_stepOK ncols total specs outs hwf hok sp o hso).exists_out g hg

theorem synthTable_cell_error (ncols total : Nat) (specs : List ColSpec) (outs : List (List (List Nat)))
    (hwf : specsWF ncols [] specs = true)
    (hok : outsOK ncols total specs outs (List.replicate total (List.replicate ncols 0)) = true)
    (sp : ColSpec) (hsp : sp ∈ specs) (g : List Nat) (hnn : ∀ c ∈ sp.cond g, 0 ≤ c) (v : Nat) :
    |((cellCount (sp.proj ++ [sp.col]) (g ++ [v]) (synthTable ncols total specs outs) : Nat) : Rat)
      - (scaled (sp.cond g) (cellCount sp.proj g (synthTable ncols total specs outs))).getD v 0| < 1 := by
  obtain ⟨o, hm⟩ := exists_out_of_mem specs outs (outsOK_length _ _ _ _ _ hok) sp hsp
  exact (synthTable_stepOK ncols total specs outs hwf hok sp o hm).cell_error g hnn v

theorem synthTable_support (ncols total : Nat) (specs : List ColSpec) (outs : List (List (List Nat)))
    (hwf : specsWF ncols [] specs = true)
    (hok : outsOK ncols total specs outs (List.replicate total (List.replicate ncols 0)) = true)
    (sp : ColSpec) (hsp : sp ∈ specs) (g : List Nat) (v : Nat) (hz : (sp.cond g).getD v 0 = 0) :
    cellCount (sp.proj ++ [sp.col]) (g ++ [v]) (synthTable ncols total specs outs) = 0 := by
  obtain ⟨o, hm⟩ := exists_out_of_mem specs outs (outsOK_length _ _ _ _ _ hok) sp hsp
  exact (synthTable_stepOK ncols total specs outs hwf hok sp o hm).support g v hz

end PGM.Synth.Table
