import PGM.Model.JTree
/-!
# Perfect elimination orders, cliques, families of maximal cliques (definitions only)
-/
namespace PGM.JT

/-- `order` is a perfect elimination order of `g`: the later neighbours of every node are pairwise
adjacent (the conclusion of `triangulate_peo`) -/
def IsPEO (g : Graph) (order : List Attr) : Prop :=
  order.Nodup ∧ (∀ a, a ∈ g.nodes ↔ a ∈ order) ∧
  ∀ (pre post : List Attr) (v : Attr), order = pre ++ v :: post →
    ∀ x ∈ post, ∀ y ∈ post, x ≠ y → g.adj v x = true → g.adj v y = true → g.adj x y = true

def IsClique (g : Graph) (c : Clique) : Prop :=
  c.Nodup ∧ (∀ a ∈ c, a ∈ g.nodes) ∧ ∀ a ∈ c, ∀ b ∈ c, a ≠ b → g.adj a b = true

/-- `nodes` lists every maximal clique of `g` exactly once (as a set) — the contract of
`networkx.find_cliques` -/
structure IsMaxCliqueFamily (g : Graph) (nodes : List Clique) : Prop where
  clique : ∀ n ∈ nodes, IsClique g n ∧ n ≠ []
  maximal : ∀ n ∈ nodes, ∀ v ∈ g.nodes, v ∉ n → ∃ a ∈ n, g.adj v a = false
  complete : ∀ c, IsClique g c → ∃ n ∈ nodes, ∀ a ∈ c, a ∈ n
  distinct : nodes.Pairwise (fun a b => sameSet a b = false)

end PGM.JT
