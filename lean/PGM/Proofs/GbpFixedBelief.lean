import PGM.Proofs.GbpFixedSem
import PGM.Proofs.ConvexSem
/-!
# At a fixed point of generalised propagation the beliefs are locally consistent

`belVal r σ = θ_r(σ) + Σ_{k ∈ B[r]} m[k](σ)` is the log-belief of region `r`.

* `belief_marginal` — for an edge `(p,r)` whose child carries the zero potential:
  `Σ_{x_{p∖r}} exp(belVal p) = exp(belVal r + c)`.  This is the derivation of the parent-to-child update read
  backwards: by the balance `B[p] + D + {(p,r)} = B[r] + N`, `belVal p = (θ_p + Σ_N m) + (Σ_{B[r]} m − Σ_D m − m[p,r])`,
  the bracket only depends on `x_r`, and the fixed-point equation evaluates `log Σ exp(θ_p + Σ_N m)`.
* `table_ok` / `tables_consistent` — the normalised tables `T·exp(belVal r)/Z_r` of parent and child agree after
  summing out `p ∖ r`.
-/
namespace PGM.GbpFixed
open PGM PGM.JT PGM.RG PGM.Convex PGM.Sem
set_option linter.unusedSectionVars false
set_option linter.unusedVariables false

/-- the log-belief of region `r` under the message state `m` -/
noncomputable def belVal (g : RG.Graph) (pot : Region → Factor ℝ) (m : Msgs ℝ) (r : Region) (σ : Attr → Nat) : ℝ :=
  (pot r).sem σ + sumMsgs m (look g.B r) σ

/-- the belief table `pot[r] + sum(messages of B[r])` -/
noncomputable def beliefOf (g : RG.Graph) (pot : Region → Factor ℝ) (m : Msgs ℝ) (r : Region) : Factor ℝ :=
  addSum (pot r) (pySum ((look g.B r).map m.get))

section
variable {dom : Dom} {g : RG.Graph} {pot : Region → Factor ℝ} {m : Msgs ℝ}

theorem sumMsgs_perm (m : Msgs ℝ) {L L' : List Edge} (hp : L.Perm L') (σ : Attr → Nat) :
    sumMsgs m L σ = sumMsgs m L' σ := by
  unfold sumMsgs
  exact (hp.map _).sum_eq

theorem sumMsgs_append (m : Msgs ℝ) (L L' : List Edge) (σ : Attr → Nat) :
    sumMsgs m (L ++ L') σ = sumMsgs m L σ + sumMsgs m L' σ := by
  unfold sumMsgs
  rw [List.map_append, List.sum_append]

/-- a sum of tables inside `r` does not see attributes outside `r` -/
theorem sumMsgs_override (m : Msgs ℝ) (L : List Edge) (r : Region) (hL : ∀ k ∈ L, Sub dom r (m.get k))
    (σ : Attr → Nat) (as : List Attr) (v : List Nat) (has : ∀ a ∈ as, a ∉ r) :
    sumMsgs m L (Dom.override σ as v) = sumMsgs m L σ := by
  unfold sumMsgs
  apply congrArg
  apply List.map_congr_left
  intro k hk
  apply sem_override_of_disjoint
  intro a ha hmem
  exact has a ha ((hL k hk).2 a hmem)

theorem beliefOf_ok (h : Hyp dom g pot m) {r : Region} (hr : r ∈ g.regions) :
    On dom r (beliefOf g pot m r) ∧ ∀ σ, dom.Valid σ → (beliefOf g pot m r).sem σ = belVal g pot m r σ := by
  have hd := h.gok.dom_wf
  have hB : ∀ f ∈ (look g.B r).map m.get, Sub dom r f := by
    intro f hf
    obtain ⟨k, hk, rfl⟩ := List.mem_map.mp hf
    exact h.B_msg_sub hr hk
  obtain ⟨a1, a2⟩ := pySum_ok hd _ hB
  obtain ⟨b1, b2⟩ := addSum_ok hd (h.gok.region_ok r hr) (pot r) _ (h.gok.pot_ok r hr) a1
  refine ⟨b1, ?_⟩
  intro σ hσ
  show (addSum _ _).sem σ = _
  rw [b2 σ hσ, a2 σ hσ]
  unfold belVal sumMsgs
  rw [List.map_map]
  rfl

theorem cfg_ne_zero_of_pos (dom : Dom) (hd : dom.WF) (hsz : ∀ p ∈ dom, 0 < p.2) (a : Attr) (ha : a ∈ dom.attrs) :
    dom.cfg a ≠ 0 := by
  have hv : dom.Valid (fun _ => 0) := valid_zero dom hsz
  have := (Dom.valid_iff dom hd _).mp hv a ha
  omega

/-- **marginalising the parent's belief gives the child's belief** (up to a constant factor) -/
theorem belief_marginal (h : Hyp dom g pot m) (hfix : SemFixed dom g pot m) {e : Edge} (he : e ∈ g.messageOrder)
    (hzero : ∀ σ, dom.Valid σ → (pot e.2).sem σ = 0) :
    ∃ c : ℝ, ∀ σ, dom.Valid σ →
      sumOver dom (e.1.filter (fun a => !e.2.contains a)) σ (fun τ => Real.exp (belVal g pot m e.1 τ))
        = Real.exp (belVal g pot m e.2 σ + c) := by
  have hd := h.gok.dom_wf
  have hp := (h.order_sound e he).1
  have hr := (h.child_mem he).1
  obtain ⟨c, hc⟩ := edge_equation h hfix he
  refine ⟨c, ?_⟩
  intro σ hσ
  have has : ∀ a ∈ e.1.filter (fun a => !e.2.contains a), a ∉ e.2 := by
    intro a ha
    have := (List.mem_filter.mp ha).2
    simpa using this
  -- the part of the parent's belief that only depends on `x_r`
  have hsplit : ∀ τ, belVal g pot m e.1 τ
      = numVal g pot m e τ + (sumMsgs m (look g.B e.2) τ - sumMsgs m (look g.D e) τ - (m.get e).sem τ) := by
    intro τ
    have hb := sumMsgs_perm m (h.balance e he) τ
    rw [sumMsgs_append, sumMsgs_append, sumMsgs_append] at hb
    have h1 : sumMsgs m [e] τ = (m.get e).sem τ := by simp [sumMsgs]
    rw [h1] at hb
    unfold belVal numVal
    linarith
  have hconst : ∀ v, (sumMsgs m (look g.B e.2) (Dom.override σ (e.1.filter (fun a => !e.2.contains a)) v)
        - sumMsgs m (look g.D e) (Dom.override σ (e.1.filter (fun a => !e.2.contains a)) v)
        - (m.get e).sem (Dom.override σ (e.1.filter (fun a => !e.2.contains a)) v))
      = sumMsgs m (look g.B e.2) σ - sumMsgs m (look g.D e) σ - (m.get e).sem σ := by
    intro v
    rw [sumMsgs_override m (look g.B e.2) e.2 (fun k hk => h.B_msg_sub hr hk) σ _ v has,
      sumMsgs_override m (look g.D e) e.2 (fun k hk => h.B_msg_sub hr (h.D_sub e he k hk)) σ _ v has,
      sem_override_of_disjoint (m.get e) σ _ v (fun a ha hmem => has a ha ((h.msg_sub he).2 a hmem))]
  have hS : sumOver dom (e.1.filter (fun a => !e.2.contains a)) σ (fun τ => Real.exp (belVal g pot m e.1 τ))
      = Real.exp (sumMsgs m (look g.B e.2) σ - sumMsgs m (look g.D e) σ - (m.get e).sem σ)
        * sumOver dom (e.1.filter (fun a => !e.2.contains a)) σ (fun τ => Real.exp (numVal g pot m e τ)) := by
    rw [← sumOver_mul_left]
    apply sumOver_congr
    intro v _
    show Real.exp (belVal g pot m e.1 _) = _ * Real.exp (numVal g pot m e _)
    rw [hsplit, hconst v, Real.exp_add, mul_comm]
  have hpos : 0 < sumOver dom (e.1.filter (fun a => !e.2.contains a)) σ (fun τ => Real.exp (numVal g pot m e τ)) := by
    apply LbpTree.sumOver_pos
    · intro a ha
      exact cfg_ne_zero_of_pos dom hd h.pos a ((h.gok.region_ok e.1 hp).2 a (List.mem_filter.mp ha).1)
    · intro τ; exact Real.exp_pos _
  have hlog := hc σ hσ
  have hE : sumOver dom (e.1.filter (fun a => !e.2.contains a)) σ (fun τ => Real.exp (numVal g pot m e τ))
      = Real.exp ((m.get e).sem σ + sumMsgs m (look g.D e) σ + c) := by
    rw [← Real.exp_log hpos]
    congr 1
    linarith
  rw [hS, hE, ← Real.exp_add]
  congr 1
  unfold belVal
  rw [hzero σ hσ]
  ring

/-! ### the normalised tables -/

/-- the table that `generalized_belief_propagation` returns for region `r` from the message state `m` -/
noncomputable def tableOf (g : RG.Graph) (pot : Region → Factor ℝ) (T : ℝ) (m : Msgs ℝ) (r : Region) : Factor ℝ :=
  normalise T (beliefOf g pot m r)

/-- the normaliser of region `r` -/
noncomputable def Zr (dom : Dom) (g : RG.Graph) (pot : Region → Factor ℝ) (m : Msgs ℝ) (r : Region) : ℝ :=
  S dom r (fun τ => Real.exp (belVal g pot m r τ))

theorem Zr_pos (h : Hyp dom g pot m) {r : Region} (hr : r ∈ g.regions) : 0 < Zr dom g pot m r :=
  S_exp_pos _ (cells_ne_nil h.gok.dom_wf h.pos (h.gok.region_ok r hr))

theorem table_ok (h : Hyp dom g pot m) {T : ℝ} (hT : 0 < T) {r : Region} (hr : r ∈ g.regions) :
    On dom r (tableOf g pot T m r) ∧ ∀ σ, dom.Valid σ →
      (tableOf g pot T m r).sem σ = T * Real.exp (belVal g pot m r σ) / Zr dom g pot m r := by
  have hd := h.gok.dom_wf
  obtain ⟨b1, b2⟩ := beliefOf_ok h hr
  have hZ : S dom r (fun τ => Real.exp ((beliefOf g pot m r).sem τ)) = Zr dom g pot m r := by
    unfold Zr
    apply S_congr dom hd h.pos
    intro τ hτ
    rw [b2 τ hτ]
  obtain ⟨n1, n2⟩ := normalise_on hd h.pos (h.gok.region_ok r hr) b1 hT (by rw [hZ]; exact Zr_pos h hr)
  refine ⟨n1, ?_⟩
  intro σ hσ
  show (normalise T _).sem σ = _
  rw [n2 σ hσ, hZ, b2 σ hσ]

/-- the normalisers of parent and child differ by the same constant factor -/
theorem Zr_edge (h : Hyp dom g pot m) {e : Edge} (he : e ∈ g.messageOrder) (c : ℝ)
    (hc : ∀ σ, dom.Valid σ →
      sumOver dom (e.1.filter (fun a => !e.2.contains a)) σ (fun τ => Real.exp (belVal g pot m e.1 τ))
        = Real.exp (belVal g pot m e.2 σ + c)) :
    Zr dom g pot m e.1 = Real.exp c * Zr dom g pot m e.2 := by
  have hd := h.gok.dom_wf
  have hp := (h.order_sound e he).1
  obtain ⟨hr, hsub⟩ := h.child_mem he
  have hrp := h.gok.region_ok e.1 hp
  have hrc := h.gok.region_ok e.2 hr
  unfold Zr S
  rw [← sumOver_split dom e.1 (fun a => e.2.contains a) (fun _ => 0) _ hrp.1]
  have hperm : (e.1.filter (fun a => e.2.contains a)).Perm e.2 := by
    rw [List.perm_ext_iff_of_nodup (hrp.1.sublist List.filter_sublist) hrc.1]
    intro a
    simp only [List.mem_filter, List.contains_iff_mem]
    exact ⟨fun h => h.2, fun h => ⟨hsub a h, h⟩⟩
  rw [sumOver_perm dom _ e.2 _ _ hperm (hrp.1.sublist List.filter_sublist), ← sumOver_mul_left]
  apply sumOver_congr_valid dom hd e.2 _ _ _ (valid_zero dom h.pos)
  intro τ hτ
  rw [hc τ hτ, Real.exp_add, mul_comm]

/-- **local consistency of the returned tables along an edge**, cell-wise -/
theorem tables_consistent (h : Hyp dom g pot m) (hfix : SemFixed dom g pot m) {T : ℝ} (hT : 0 < T)
    {e : Edge} (he : e ∈ g.messageOrder) (hzero : ∀ σ, dom.Valid σ → (pot e.2).sem σ = 0)
    {σ : Attr → Nat} (hσ : dom.Valid σ) :
    (tableOf g pot T m e.2).sem σ
      = sumOver dom (e.1.filter (fun a => !e.2.contains a)) σ (tableOf g pot T m e.1).sem := by
  have hd := h.gok.dom_wf
  have hp := (h.order_sound e he).1
  have hr := (h.child_mem he).1
  obtain ⟨c, hc⟩ := belief_marginal h hfix he hzero
  have hZ := Zr_edge h he c hc
  have hZr := Zr_pos h hr
  have e1 : sumOver dom (e.1.filter (fun a => !e.2.contains a)) σ (tableOf g pot T m e.1).sem
      = sumOver dom (e.1.filter (fun a => !e.2.contains a)) σ
          (fun τ => T * Real.exp (belVal g pot m e.1 τ) / Zr dom g pot m e.1) :=
    sumOver_congr_valid dom hd _ σ _ _ hσ (fun τ hτ => (table_ok h hT hp).2 τ hτ)
  rw [e1, sumOver_div, sumOver_mul_left, hc σ hσ, (table_ok h hT hr).2 σ hσ, hZ, Real.exp_add]
  have hec : Real.exp c ≠ 0 := (Real.exp_pos c).ne'
  field_simp

end
end PGM.GbpFixed
