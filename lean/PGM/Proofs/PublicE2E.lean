import PGM.Proofs.PublicGen
import PGM.Proofs.CliqueVecSem
import PGM.Proofs.Dataset
/-!
# Helpers for C19E, part 1 (any scalar): what `loss_and_grad` of `PublicInference.estimate` computes, structurally

* `tabulate est cliques` (= `CliqueVector.from_data`) stores under every listed clique the table `tabF est cl`
  whose vector is `Dataset.datavector (est.project cl)`;
* the loss component of `marginalLossWith` is the running sum of the residual losses at those tables;
* the gradient component stores under every key the chain of in-place additions of the per-measurement gradient
  tables `gradF`, read cell by cell (`Factor.sem`);
* the gather loop hands record `i` the sum, over the keys, of the stored table's entry at the record's cell.
-/
set_option linter.unusedVariables false
set_option linter.unusedSectionVars false
namespace PGM.Public
open PGM PGM.JT
variable {α : Type} [Scalar α]

/-! ### `CliqueVec` as a Python dict -/

theorem cv_lookup_none (cv : CliqueVec α) (c : Clique) (h : c ∉ cv.map Prod.fst) : cv.lookup c = none := by
  induction cv with
  | nil => rfl
  | cons p ps ih =>
    obtain ⟨k, v⟩ := p
    simp only [List.map_cons, List.mem_cons, not_or] at h
    have : (c == k) = false := by simpa using h.1
    simp only [List.lookup_cons, this]
    exact ih h.2

/-- `d[c] = f; d[c']` -/
theorem cv_get_set (cv : CliqueVec α) (c c' : Clique) (f : Factor α) :
    (cv.set c f).get c' = if c' = c then f else cv.get c' := by
  by_cases h : c ∈ cv.map Prod.fst
  · by_cases e : c' = c
    · subst e; rw [if_pos rfl]; exact Sem.BP.get_set_self cv _ f h
    · rw [if_neg e]; exact Sem.BP.get_set_ne cv c c' f h e
  · have hany : cv.any (fun p => p.1 == c) = false := by
      rw [Bool.eq_false_iff]; intro hh; exact h ((Sem.BP.any_key_iff cv c).mp hh)
    unfold CliqueVec.set CliqueVec.get
    rw [hany]
    simp only [Bool.false_eq_true, if_false, List.lookup_append]
    by_cases e : c' = c
    · subst e
      rw [cv_lookup_none cv _ h]
      simp
    · have : (c' == c) = false := by simpa using e
      simp [List.lookup_cons, this, e]

theorem cv_keys_set (cv : CliqueVec α) (c : Clique) (f : Factor α) :
    (cv.set c f).map Prod.fst = if c ∈ cv.map Prod.fst then cv.map Prod.fst else cv.map Prod.fst ++ [c] := by
  by_cases h : c ∈ cv.map Prod.fst
  · rw [if_pos h]; exact Sem.BP.keys_set cv c f h
  · have hany : cv.any (fun p => p.1 == c) = false := by
      rw [Bool.eq_false_iff]; intro hh; exact h ((Sem.BP.any_key_iff cv c).mp hh)
    rw [if_neg h]
    unfold CliqueVec.set
    rw [hany]
    simp

/-- `for cl in cliques: ans[cl] = F(cl)` read back -/
theorem foldl_set_get (F : Clique → Factor α) (cliques : List Clique) (init : CliqueVec α) (c : Clique) :
    (cliques.foldl (fun (ans : CliqueVec α) cl => ans.set cl (F cl)) init).get c
      = if c ∈ cliques then F c else init.get c := by
  induction cliques generalizing init with
  | nil => simp
  | cons x xs ih =>
    rw [List.foldl_cons, ih, cv_get_set]
    by_cases h : c ∈ xs
    · simp [h]
    · by_cases e : c = x
      · subst e; simp
      · simp [h, e]

theorem foldl_set_keys (F : Clique → Factor α) (cliques : List Clique) (init : CliqueVec α) :
    ((init.map Prod.fst).Nodup →
      ((cliques.foldl (fun (ans : CliqueVec α) cl => ans.set cl (F cl)) init).map Prod.fst).Nodup) ∧
    ∀ c, c ∈ (cliques.foldl (fun (ans : CliqueVec α) cl => ans.set cl (F cl)) init).map Prod.fst
      ↔ c ∈ init.map Prod.fst ∨ c ∈ cliques := by
  induction cliques generalizing init with
  | nil => simp
  | cons x xs ih =>
    rw [List.foldl_cons]
    obtain ⟨h1, h2⟩ := ih (init.set x (F x))
    have hk := cv_keys_set init x (F x)
    constructor
    · intro hnd
      apply h1
      rw [hk]
      by_cases hx : x ∈ init.map Prod.fst
      · rw [if_pos hx]; exact hnd
      · rw [if_neg hx]
        exact List.nodup_append.mpr ⟨hnd, by simp, by
          intro a ha b hb
          simp only [List.mem_singleton] at hb
          subst hb
          intro e; subst e; exact hx ha⟩
    · intro c
      rw [h2 c, hk]
      by_cases hx : x ∈ init.map Prod.fst
      · rw [if_pos hx]
        constructor
        · rintro (h | h)
          · exact Or.inl h
          · exact Or.inr (List.mem_cons_of_mem _ h)
        · rintro (h | h)
          · exact Or.inl h
          · rcases List.mem_cons.mp h with e | e
            · subst e; exact Or.inl hx
            · exact Or.inr e
      · rw [if_neg hx]
        simp only [List.mem_append, List.mem_cons, List.mem_singleton]
        tauto

/-! ### `CliqueVector.from_data` -/

/-- the table `from_data` stores for a clique: `Factor(mu.domain, mu.datavector())`, `mu = est.project(cl)` -/
def tabF (est : Dataset α) (cl : Clique) : Factor α :=
  Factor.mk' (est.project cl).dom ⟨[(est.project cl).datavector.length], (est.project cl).datavector.toArray⟩

theorem tabulate_get (est : Dataset α) (cliques : List Clique) (c : Clique) (h : c ∈ cliques) :
    (tabulate est cliques).get c = tabF est c := by
  have := foldl_set_get (tabF est) cliques [] c
  rw [if_pos h] at this
  exact this

theorem tabulate_keys (est : Dataset α) (cliques : List Clique) :
    ((tabulate est cliques).map Prod.fst).Nodup ∧
    ∀ c, c ∈ (tabulate est cliques).map Prod.fst ↔ c ∈ cliques := by
  obtain ⟨h1, h2⟩ := foldl_set_keys (tabF est) cliques []
  exact ⟨h1 (by simp), fun c => (h2 c).trans (by simp)⟩

/-- the vector of the stored table is the contingency vector of the projected dataset -/
theorem tabF_datavector (est : Dataset α) (cl : Clique) :
    (tabF est cl).datavector = (est.project cl).datavector := by
  simp [tabF, Factor.datavector, Factor.mk', NdArr.reshape]

theorem tabF_dom (est : Dataset α) (cl : Clique) : (tabF est cl).dom = est.dom.project cl := rfl

theorem tabF_WF (est : Dataset α) (cl : Clique) (hcl : cl.Nodup) : (tabF est cl).WF := by
  refine ⟨?_, rfl, ?_⟩
  · show (est.dom.project cl).attrs.Nodup
    rw [Dom.attrs_project]; exact hcl
  · show ((est.project cl).datavector.toArray).size = size (est.project cl).dom.shape
    rw [List.size_toArray, Dataset.datavector_length]; rfl

/-! ### `_marginal_loss`: the loss -/

theorem marginalLossWith_loss (lossOf : List α → α) (dirOf : List α → List α) (ms : List (Loss.Meas α))
    (marg : CliqueVec α) :
    (marginalLossWith lossOf dirOf ms marg).1
      = ms.foldl (fun a m => Scalar.add a (lossOf (residual m (marg.get m.proj)))) Scalar.zero :=
  foldl_sim Prod.fst _ _ (fun s m => rfl) ms _

/-! ### `_marginal_loss`: the gradient tables -/

/-- the gradient table of one measurement: `Factor(mu.domain, c * Q.T @ dir(diff))` -/
def gradVec (dirOf : List α → List α) (m : Loss.Meas α) (mu : Factor α) : List α :=
  (Loss.matTVec m.Q mu.datavector.length (dirOf (residual m mu))).map (fun v => Scalar.mul (Scalar.div Scalar.one m.noise) v)

def gradF (dirOf : List α → List α) (marg : CliqueVec α) (m : Loss.Meas α) : Factor α :=
  Factor.mk' (marg.get m.proj).dom
    ⟨[(gradVec dirOf m (marg.get m.proj)).length], (gradVec dirOf m (marg.get m.proj)).toArray⟩

theorem gradVec_length (dirOf : List α → List α) (m : Loss.Meas α) (mu : Factor α) :
    (gradVec dirOf m mu).length = mu.datavector.length := by
  simp [gradVec, Loss.matTVec]

theorem gradF_WF (dirOf : List α → List α) (marg : CliqueVec α) (m : Loss.Meas α) (h : (marg.get m.proj).WF) :
    (gradF dirOf marg m).WF := by
  refine ⟨h.1, rfl, ?_⟩
  show ((gradVec dirOf m (marg.get m.proj)).toArray).size = size (marg.get m.proj).dom.shape
  rw [List.size_toArray, gradVec_length, ← h.2.1]
  have := h.2.2
  unfold NdArr.WF at this
  rw [← this]
  simp [Factor.datavector]

theorem measStep_snd (lossOf : List α → α) (dirOf : List α → List α) (marg : CliqueVec α)
    (acc : α × CliqueVec α) (m : Loss.Meas α) :
    (measStep lossOf dirOf marg acc m).2
      = acc.2.set m.proj ((acc.2.get m.proj).iadd (gradF dirOf marg m)) := rfl

/-- the state of the gradient dictionary during the loop: the keys of `marginals`, every table well formed and over
the domain of the corresponding marginal -/
def GInv (marg : CliqueVec α) (g : CliqueVec α) : Prop :=
  g.map Prod.fst = marg.map Prod.fst ∧
  ∀ cl ∈ marg.map Prod.fst, (g.get cl).WF ∧ (g.get cl).dom = (marg.get cl).dom

/-- one measurement keeps the invariant; the facts needed to read the in-place addition -/
theorem ginv_step (dirOf : List α → List α) (marg : CliqueVec α)
    (hW : ∀ cl ∈ marg.map Prod.fst, (marg.get cl).WF) (m : Loss.Meas α) (hm : m.proj ∈ marg.map Prod.fst)
    (g : CliqueVec α) (hg : GInv marg g) :
    GInv marg (g.set m.proj ((g.get m.proj).iadd (gradF dirOf marg m))) ∧
    (∀ σ : Attr → Nat, (marg.get m.proj).dom.Valid σ →
      ((g.get m.proj).iadd (gradF dirOf marg m)).sem σ
        = Scalar.add ((g.get m.proj).sem σ) ((gradF dirOf marg m).sem σ)) := by
  obtain ⟨hgk, hgw⟩ := hg
  have hGF := gradF_WF dirOf marg m (hW _ hm)
  have hGd : (gradF dirOf marg m).dom = (marg.get m.proj).dom := rfl
  obtain ⟨hgmw, hgmd⟩ := hgw _ hm
  have hc : (g.get m.proj).dom.contains (gradF dirOf marg m).dom = true := by
    rw [hGd, hgmd]; exact (Dom.contains_iff _ _).mpr (fun _ h => h)
  have hag : (gradF dirOf marg m).dom.Agrees (g.get m.proj).dom := by
    rw [hGd, hgmd]; exact fun p hp => Dom.cfg_of_mem _ (hW _ hm).1 p hp
  have hiw : ((g.get m.proj).iadd (gradF dirOf marg m)).WF := Sem.BP.iop_WF _ _ _ hgmw hGF hc hag
  refine ⟨⟨?_, ?_⟩, ?_⟩
  · rw [Sem.BP.keys_set _ _ _ (by rw [hgk]; exact hm), hgk]
  · intro c hc'
    rw [cv_get_set]
    by_cases e : c = m.proj
    · rw [if_pos e, e]; exact ⟨hiw, hgmd⟩
    · rw [if_neg e]; exact hgw c hc'
  · intro σ hσ
    exact Factor.sem_iop Scalar.add (g.get m.proj) (gradF dirOf marg m) σ hgmw hGF hc hag (by rw [hgmd]; exact hσ)

theorem ginv_fold (lossOf : List α → α) (dirOf : List α → List α) (marg : CliqueVec α)
    (hW : ∀ cl ∈ marg.map Prod.fst, (marg.get cl).WF) (ms : List (Loss.Meas α))
    (hK : ∀ m ∈ ms, m.proj ∈ marg.map Prod.fst) (a : α) (g : CliqueVec α) (hg : GInv marg g) :
    GInv marg (ms.foldl (measStep lossOf dirOf marg) (a, g)).2 := by
  induction ms generalizing a g with
  | nil => exact hg
  | cons m ms ih =>
    rw [List.foldl_cons]
    exact ih (fun m' h' => hK m' (List.mem_cons_of_mem _ h')) _ _
      (ginv_step dirOf marg hW m (hK m (by simp)) g hg).1

theorem grad_fold (lossOf : List α → α) (dirOf : List α → List α) (marg : CliqueVec α)
    (hW : ∀ cl ∈ marg.map Prod.fst, (marg.get cl).WF) (cl : Clique) (hcl : cl ∈ marg.map Prod.fst)
    (σ : Attr → Nat) (hσ : (marg.get cl).dom.Valid σ) (ms : List (Loss.Meas α))
    (hK : ∀ m ∈ ms, m.proj ∈ marg.map Prod.fst) (a : α) (g : CliqueVec α) (hg : GInv marg g) :
    ((ms.foldl (measStep lossOf dirOf marg) (a, g)).2.get cl).sem σ
      = List.foldl Scalar.add ((g.get cl).sem σ)
          ((ms.filter (fun m => m.proj == cl)).map (fun m => (gradF dirOf marg m).sem σ)) := by
  induction ms generalizing a g with
  | nil => rfl
  | cons m ms ih =>
    have hm : m.proj ∈ marg.map Prod.fst := hK m (by simp)
    obtain ⟨hg', hsem⟩ := ginv_step dirOf marg hW m hm g hg
    rw [List.foldl_cons]
    have hstep : measStep lossOf dirOf marg (a, g) m
        = ((measStep lossOf dirOf marg (a, g) m).1, g.set m.proj ((g.get m.proj).iadd (gradF dirOf marg m))) := rfl
    rw [hstep, ih (fun m' h' => hK m' (List.mem_cons_of_mem _ h')) _ _ hg', cv_get_set]
    by_cases e : cl = m.proj
    · have hb : (m.proj == cl) = true := by simp [e]
      have hf : (m :: ms).filter (fun m => m.proj == cl) = m :: ms.filter (fun m => m.proj == cl) := by
        simp [List.filter_cons, hb]
      rw [if_pos e, hf, List.map_cons, List.foldl_cons]
      congr 1
      rw [e]; exact hsem σ (by rw [← e]; exact hσ)
    · have hb : ¬ ((m.proj == cl) = true) := by
        simp only [beq_iff_eq]; exact fun h => e h.symm
      have hf : (m :: ms).filter (fun m => m.proj == cl) = ms.filter (fun m => m.proj == cl) := by
        simp [List.filter_cons, hb]
      rw [if_neg e, hf]

/-- the dictionary `_marginal_loss` starts from: a zero table per key of `marginals` -/
theorem ginv_init (marg : CliqueVec α) (hW : ∀ cl ∈ marg.map Prod.fst, (marg.get cl).WF) :
    GInv marg ((marg.map Prod.fst).map (fun cl => (cl, (Factor.zeros (marg.get cl).dom : Factor α)))) ∧
    ∀ cl ∈ marg.map Prod.fst,
      CliqueVec.get ((marg.map Prod.fst).map (fun cl => (cl, (Factor.zeros (marg.get cl).dom : Factor α)))) cl
        = Factor.zeros (marg.get cl).dom := by
  have hmap : (marg.map Prod.fst).map (fun cl => (cl, (Factor.zeros (marg.get cl).dom : Factor α)))
      = marg.map (fun p => (p.1, (fun c _ => (Factor.zeros (marg.get c).dom : Factor α)) p.1 p.2)) := by
    rw [List.map_map]; rfl
  have hget : ∀ cl ∈ marg.map Prod.fst,
      CliqueVec.get ((marg.map Prod.fst).map (fun cl => (cl, (Factor.zeros (marg.get cl).dom : Factor α)))) cl
        = Factor.zeros (marg.get cl).dom := by
    intro cl hcl
    rw [hmap]
    exact CVSem.get_map_of_mem marg (fun c _ => (Factor.zeros (marg.get c).dom : Factor α)) cl hcl
  refine ⟨⟨?_, ?_⟩, hget⟩
  · rw [hmap]; exact CVSem.keys_map marg (fun c _ => (Factor.zeros (marg.get c).dom : Factor α))
  · intro cl hcl
    rw [hget cl hcl]
    exact ⟨CVSem.const_WF _ (hW cl hcl).1 _, rfl⟩

/-- **the gradient tables of `_marginal_loss`, cell by cell**: under the key `cl` the returned dictionary holds, at
every cell, zero plus the entries of the gradient tables of the measurements on `cl`, added in list order; its keys
are those of `marginals` -/
theorem marginalLossWith_grad (lossOf : List α → α) (dirOf : List α → List α) (marg : CliqueVec α)
    (hW : ∀ cl ∈ marg.map Prod.fst, (marg.get cl).WF) (ms : List (Loss.Meas α))
    (hK : ∀ m ∈ ms, m.proj ∈ marg.map Prod.fst) :
    (marginalLossWith lossOf dirOf ms marg).2.map Prod.fst = marg.map Prod.fst ∧
    ∀ cl ∈ marg.map Prod.fst,
      ((marginalLossWith lossOf dirOf ms marg).2.get cl).dom = (marg.get cl).dom ∧
      ∀ σ : Attr → Nat, (marg.get cl).dom.Valid σ →
      (((marginalLossWith lossOf dirOf ms marg).2.get cl).sem σ
        = List.foldl Scalar.add Scalar.zero
            ((ms.filter (fun m => m.proj == cl)).map (fun m => (gradF dirOf marg m).sem σ))) := by
  obtain ⟨hi, hz⟩ := ginv_init marg hW
  have hfin := ginv_fold lossOf dirOf marg hW ms hK Scalar.zero _ hi
  refine ⟨hfin.1, ?_⟩
  intro cl hcl
  refine ⟨(hfin.2 cl hcl).2, ?_⟩
  intro σ hσ
  have h2 := grad_fold lossOf dirOf marg hW cl hcl σ hσ ms hK Scalar.zero _ hi
  unfold marginalLossWith
  rw [h2, hz cl hcl]
  congr 1
  apply CVSem.sem_const
  exact Factor.inRange_of_valid _ (hW cl hcl).1 σ hσ

/-! ### the gather loop -/

/-- `dweights += v_b` over a list of vectors of the right length, entry by entry -/
theorem foldl_zipWith_getD {β : Type} (g : β → List α) (n : Nat) (l : List β) (dw : List α)
    (h0 : dw.length = n) (hg : ∀ b, (g b).length = n) (i : Nat) (hi : i < n) :
    (l.foldl (fun dw b => List.zipWith Scalar.add dw (g b)) dw).getD i Scalar.zero
      = l.foldl (fun a b => Scalar.add a ((g b).getD i Scalar.zero)) (dw.getD i Scalar.zero) := by
  induction l generalizing dw with
  | nil => rfl
  | cons b l ih =>
    simp only [List.foldl_cons]
    rw [ih _ (by simp [List.length_zipWith, h0, hg b])]
    congr 1
    have h1 : i < dw.length := by omega
    have h2 : i < (g b).length := by rw [hg b]; exact hi
    simp [List.getD_eq_getElem?_getD, List.getElem?_eq_getElem, h1, h2, List.getElem?_zipWith]

theorem gather_getD (a : NdArr α) (idx : List (List Int)) (i : Nat) (hi : i < idx.length) :
    (gather a idx).getD i Scalar.zero = a.get ((idx.getD i []).map Int.toNat) := by
  simp [gather, List.getD_eq_getElem?_getD, List.getElem?_eq_getElem, hi]

end PGM.Public
