import PGM.Model.RegionGraph
/-!
# Dictionaries built by `foldl set` (the `marginals[cl] = …` loops of the approximate oracles)

`CliqueVec.set` / `GM.dictSet` have Python-dict semantics; a dictionary filled by a loop
`for r in l: d[r] = F r` starting from `{}` has keys `dedup l`, and `d[c] = F c` for every `c ∈ l`.
-/
namespace PGM.Oracle
open PGM PGM.JT
set_option linter.unusedSectionVars false

section dict
variable {κ β : Type} [BEq κ] [LawfulBEq κ]

theorem foldl_fixed {γ δ : Type} (f : γ → δ → γ) (l : List δ) (a : γ) (h : ∀ x ∈ l, ∀ a, f a x = a) :
    l.foldl f a = a := by
  induction l generalizing a with
  | nil => rfl
  | cons x xs ih =>
    rw [List.foldl_cons, h x (by simp)]
    exact ih a (fun y hy => h y (by simp [hy]))

theorem lookup_map_other (d : List (κ × β)) (c k : κ) (v : β) (hk : (k == c) = false) :
    (d.map (fun p => if p.1 == c then (c, v) else p)).lookup k = d.lookup k := by
  induction d with
  | nil => rfl
  | cons a d ih =>
    obtain ⟨a, w⟩ := a
    simp only [List.map_cons]
    by_cases hac : (a == c) = true
    · have : a = c := eq_of_beq hac
      subst this
      simp only [beq_self_eq_true, if_true, List.lookup_cons, hk, ih]
    · simp only [hac, Bool.false_eq_true, if_false, List.lookup_cons, ih]

theorem lookup_eq_none_of_any_false (d : List (κ × β)) (c : κ)
    (h : d.any (fun p => p.1 == c) = false) : d.lookup c = none := by
  induction d with
  | nil => rfl
  | cons a d ih =>
    obtain ⟨a, w⟩ := a
    simp only [List.any_cons, Bool.or_eq_false_iff] at h
    have hca : (c == a) = false := by
      rw [Bool.eq_false_iff] at h ⊢
      intro hh; exact h.1 (by rw [eq_of_beq hh]; exact beq_self_eq_true _)
    simp only [List.lookup_cons, hca, ih h.2]

theorem lookup_map_self (d : List (κ × β)) (c : κ) (v : β)
    (h : d.any (fun p => p.1 == c) = true) :
    (d.map (fun p => if p.1 == c then (c, v) else p)).lookup c = some v := by
  induction d with
  | nil => simp at h
  | cons a d ih =>
    obtain ⟨a, w⟩ := a
    simp only [List.map_cons]
    by_cases hac : (a == c) = true
    · simp only [hac, if_true, List.lookup_cons, beq_self_eq_true]
    · have hca : (c == a) = false := by
        rw [Bool.eq_false_iff]
        intro hh; exact hac (by rw [eq_of_beq hh]; exact beq_self_eq_true _)
      simp only [List.any_cons, hac, Bool.false_or] at h
      simp only [hac, Bool.false_eq_true, if_false, List.lookup_cons, hca, ih h]

/-- `d[c] = v; d[k]` -/
theorem lookup_dictSet (d : List (κ × β)) (c k : κ) (v : β) :
    (GM.dictSet d c v).lookup k = if k == c then some v else d.lookup k := by
  unfold GM.dictSet
  by_cases hk : (k == c) = true
  · have : k = c := eq_of_beq hk
    subst this
    simp only [beq_self_eq_true, if_true]
    by_cases h : d.any (fun p => p.1 == k) = true
    · rw [if_pos h]; exact lookup_map_self d k v h
    · rw [if_neg h]
      have h' : d.any (fun p => p.1 == k) = false := Bool.eq_false_iff.mpr h
      rw [List.lookup_append, lookup_eq_none_of_any_false d k h']
      simp
  · have hk' : (k == c) = false := by simpa using hk
    rw [if_neg hk]
    by_cases h : d.any (fun p => p.1 == c) = true
    · rw [if_pos h]; exact lookup_map_other d c k v hk'
    · rw [if_neg h, List.lookup_append]
      simp [List.lookup_cons, hk']

theorem keys_dictSet (d : List (κ × β)) (c : κ) (v : β) :
    (GM.dictSet d c v).map Prod.fst =
      if (d.map Prod.fst).contains c then d.map Prod.fst else d.map Prod.fst ++ [c] := by
  unfold GM.dictSet
  have hany : d.any (fun p => p.1 == c) = (d.map Prod.fst).contains c := by
    induction d with
    | nil => rfl
    | cons a d ih =>
      simp only [List.any_cons, List.map_cons, List.contains_cons, ih]
      congr 1
      exact Bool.eq_iff_iff.mpr ⟨fun h => by rw [eq_of_beq h]; exact beq_self_eq_true _,
        fun h => by rw [eq_of_beq h]; exact beq_self_eq_true _⟩
  rw [hany]
  split
  · rw [List.map_map]
    apply List.map_congr_left
    intro p _
    simp only [Function.comp]
    split
    · rename_i h; exact (eq_of_beq h).symm
    · rfl
  · simp

omit [LawfulBEq κ] in
theorem mem_dictSet (d : List (κ × β)) (c : κ) (v : β) (p : κ × β) (hp : p ∈ GM.dictSet d c v) :
    p ∈ d ∨ p = (c, v) := by
  unfold GM.dictSet at hp
  split at hp
  · obtain ⟨q, hq, rfl⟩ := List.mem_map.mp hp
    split
    · right; rfl
    · left; exact hq
  · rcases List.mem_append.mp hp with h | h
    · left; exact h
    · right; simpa using h

/-- the loop `for r in l: d[r] = F r` -/
def fill (F : κ → β) (l : List κ) (d : List (κ × β)) : List (κ × β) :=
  l.foldl (fun acc r => GM.dictSet acc r (F r)) d

theorem mem_fill (F : κ → β) (l : List κ) (d : List (κ × β)) (p : κ × β) (hp : p ∈ fill F l d) :
    p ∈ d ∨ (p.1 ∈ l ∧ p.2 = F p.1) := by
  induction l generalizing d with
  | nil => left; exact hp
  | cons x xs ih =>
    rcases ih (GM.dictSet d x (F x)) hp with h | h
    · rcases mem_dictSet d x (F x) p h with h | h
      · left; exact h
      · right; subst h; exact ⟨by simp, rfl⟩
    · right; exact ⟨by simp [h.1], h.2⟩

theorem lookup_fill (F : κ → β) (l : List κ) (d : List (κ × β)) (c : κ) :
    (fill F l d).lookup c = if c ∈ l then some (F c) else d.lookup c := by
  induction l generalizing d with
  | nil => simp [fill]
  | cons x xs ih =>
    show (fill F xs (GM.dictSet d x (F x))).lookup c = _
    rw [ih, lookup_dictSet]
    by_cases h1 : c ∈ xs
    · simp [h1]
    · by_cases h2 : c = x
      · subst h2; simp
      · have : (c == x) = false := by simpa using h2
        simp [h1, h2]

theorem keys_fill (F : κ → β) (l : List κ) (d : List (κ × β)) :
    (fill F l d).map Prod.fst =
      l.foldl (fun acc x => if acc.contains x then acc else acc ++ [x]) (d.map Prod.fst) := by
  induction l generalizing d with
  | nil => rfl
  | cons x xs ih =>
    show (fill F xs (GM.dictSet d x (F x))).map Prod.fst = _
    rw [ih, keys_dictSet, List.foldl_cons]

theorem keys_fill_nil (F : κ → β) (l : List κ) :
    (fill F l []).map Prod.fst = RG.dedup l := keys_fill F l []

end dict

/-! ### `RG.dedup` -/

theorem dedup_aux_nodup {β : Type} [BEq β] [LawfulBEq β] (l acc : List β) (h : (acc ++ l).Nodup) :
    l.foldl (fun acc x => if acc.contains x then acc else acc ++ [x]) acc = acc ++ l := by
  induction l generalizing acc with
  | nil => simp
  | cons x xs ih =>
    have hx : acc.contains x = false := by
      rw [Bool.eq_false_iff]
      intro hc
      have hm : x ∈ acc := List.contains_iff_mem.mp hc
      rw [List.nodup_append] at h
      exact h.2.2 x hm x (by simp) rfl
    rw [List.foldl_cons, hx]
    simp only [Bool.false_eq_true, if_false]
    rw [ih (acc ++ [x]) (by simpa using h)]
    simp

theorem dedup_of_nodup {β : Type} [BEq β] [LawfulBEq β] (l : List β) (h : l.Nodup) : RG.dedup l = l := by
  have := dedup_aux_nodup l [] (by simpa using h)
  simpa [RG.dedup] using this

theorem dedup_nil {β : Type} [BEq β] : RG.dedup ([] : List β) = [] := rfl

/-! ### clique vectors -/

variable {α : Type} [Scalar α]

theorem set_eq_dictSet (cv : CliqueVec α) (c : Clique) (f : Factor α) :
    cv.set c f = GM.dictSet cv c f := rfl

/-- the marginals dictionary as a `fill` -/
theorem foldl_set_eq_fill (F : Clique → Factor α) (l : List Clique) (d : CliqueVec α) :
    l.foldl (fun (acc : CliqueVec α) r => acc.set r (F r)) d = fill F l d := rfl

theorem get_fill (F : Clique → Factor α) (l : List Clique) (c : Clique) (hc : c ∈ l) :
    CliqueVec.get (fill F l ([] : CliqueVec α)) c = F c := by
  unfold CliqueVec.get
  rw [lookup_fill, if_pos hc]

end PGM.Oracle
