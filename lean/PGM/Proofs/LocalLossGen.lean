import PGM.Generated.LocalG
import PGM.Proofs.LossBasic
/-!
# `_marginal_loss` and the grouping loop of `local_inference.py` are the model of `PGM/Model/Loss.lean`

The two pieces of code are, in `local_inference.py`, what they are in `inference.py`; the lemmas below are those of
`PGM/Proofs/InfGen.lean` (C04G), stated for the definitions regenerated from `local_inference.py`
(`PGM/Generated/LocalG.lean`), so that C18G does not depend on `inference.py`.
-/
set_option linter.unusedVariables false
set_option linter.unusedSectionVars false
namespace PGM.LocalLossGen
open PGM PGM.JT PGM.Loss

/-! ## loops -/

theorem range'_succ_map (s n : Nat) : List.range' (s + 1) n = (List.range' s n).map (fun k => k + 1) := by
  induction n generalizing s with
  | zero => rfl
  | succ n ih => simp only [List.range'_succ, List.map_cons, ih]

/-- `for t in range(1, n+1)` is `for k in range(n)` with `t = k+1` -/
theorem foldl_range'_one {σ : Type} (g : σ → Nat → σ) (a : σ) (n : Nat) :
    List.foldl g a (List.range' 1 ((n + 1) - 1)) = List.foldl (fun s k => g s (k + 1)) a (List.range n) := by
  rw [Nat.add_sub_cancel, List.range_eq_range', range'_succ_map, List.foldl_map]

/-- two loop bodies that agree on the elements of the list give the same fold -/
theorem foldl_congr_mem {σ β : Type} (f g : σ → β → σ) (a : σ) (l : List β)
    (h : ∀ s, ∀ x ∈ l, f s x = g s x) : List.foldl f a l = List.foldl g a l := by
  induction l generalizing a with
  | nil => rfl
  | cons x l ih =>
    simp only [List.foldl_cons]
    rw [h a x (List.mem_cons_self ..)]
    exact ih _ (fun s y hy => h s y (List.mem_cons_of_mem _ hy))

/-- a loop whose only `break` sits behind a test `P`: nothing happens before the first element satisfying `P`,
the body `F` runs once there, and nothing afterwards -/
theorem foldl_done_find {σ κ : Type} (P : κ → Bool) (F : σ → κ → σ) (s : σ) (l : List κ) :
    List.foldl (fun (st : σ × Bool) c => if st.2 = true then st else if P c = true then (F st.1 c, true) else (st.1, false))
        (s, false) l
      = match l.find? P with
        | some c => (F s c, true)
        | none => (s, false) := by
  induction l with
  | nil => rfl
  | cons c l ih =>
    simp only [List.foldl_cons, List.find?_cons]
    cases hP : P c with
    | true =>
      simp only [Bool.false_eq_true, if_false, if_true]
      clear ih
      induction l with
      | nil => rfl
      | cons c' l ih' => simpa only [List.foldl_cons, if_true] using ih'
    | false => simpa only [Bool.false_eq_true, if_false] using ih

/-! ## dictionaries as association lists -/

section dict
variable {β : Type}

theorem lookup_map_replace (d : List (Clique × β)) (k k' : Clique) (v : β) :
    List.lookup k' (d.map (fun p => if p.1 == k then (k, v) else p))
      = if k' == k then (if d.any (fun p => p.1 == k) then some v else none) else List.lookup k' d := by
  induction d with
  | nil => simp
  | cons p d ih =>
    obtain ⟨a, b⟩ := p
    simp only [List.map_cons, List.any_cons]
    by_cases hak : a = k
    · subst hak
      simp only [beq_self_eq_true, if_true, Bool.true_or, List.lookup_cons]
      by_cases hk : k' = a
      · subst hk; simp
      · have : (k' == a) = false := by simpa using hk
        simp only [this, ih, Bool.false_eq_true, if_false]
    · have hne : (a == k) = false := by simpa using hak
      simp only [hne, Bool.false_eq_true, if_false, Bool.false_or, List.lookup_cons, ih]
      by_cases hk : k' = k
      · subst hk
        have : (k' == a) = false := by simpa using fun h => hak h.symm
        simp [this]
      · have : (k' == k) = false := by simpa using hk
        simp [this]

theorem lookup_of_any_false (d : List (Clique × β)) (k : Clique) (h : d.any (fun p => p.1 == k) = false) :
    List.lookup k d = none := by
  induction d with
  | nil => rfl
  | cons p d ih =>
    obtain ⟨a, b⟩ := p
    simp only [List.any_cons, Bool.or_eq_false_iff] at h
    have : (k == a) = false := by
      have := h.1; simp only [beq_eq_false_iff_ne, ne_eq] at this ⊢; exact fun e => this e.symm
    simp only [List.lookup_cons, this, ih h.2]

/-- reading a dictionary after one store -/
theorem dgetD_dset (d : List (Clique × β)) (k k' : Clique) (v z : β) :
    LocalG.dgetD (LocalG.dset d k v) k' z = if k' == k then v else LocalG.dgetD d k' z := by
  unfold LocalG.dgetD LocalG.dset
  by_cases hany : d.any (fun p => p.1 == k) = true
  · simp only [hany, if_true, lookup_map_replace]
    by_cases hk : (k' == k) = true <;> simp [hk]
  · have hany' : d.any (fun p => p.1 == k) = false := Bool.eq_false_iff.mpr hany
    simp only [hany', Bool.false_eq_true, if_false, List.lookup_append]
    by_cases hk : k' = k
    · subst hk
      simp [lookup_of_any_false d k' hany']
    · have : (k' == k) = false := by simpa using hk
      simp only [List.lookup_cons, this, List.lookup_nil, Option.or_none, Bool.false_eq_true, if_false]

end dict

variable {α : Type} [Scalar α]

/-! ## the grouping loop of `_setup` -/

/-- the grouping loop, one measurement: the first clique (by size) containing `proj` gets the measurement -/
theorem group_step (d : Dom) (cliques : List Clique) (G : List (Clique × List (Meas α))) (m : Meas α) :
    (List.foldl (fun (st : List (Clique × List (Meas α)) × Bool) (cl : Clique) =>
        if st.2 = true then st else
          if JT.subset m.proj cl = true then (LocalG.dset st.1 cl (LocalG.dgetD st.1 cl [] ++ [m]), true) else (st.1, false))
      (G, false) (Dom.sortBy (fun x => Dom.sizeOf d x) cliques)).1
    = match groupOf d cliques m.proj with
      | some c => LocalG.dset G c (LocalG.dgetD G c [] ++ [m])
      | none => G := by
  rw [foldl_done_find (fun cl => JT.subset m.proj cl) (fun G cl => LocalG.dset G cl (LocalG.dgetD G cl [] ++ [m]))]
  unfold groupOf
  cases (Dom.sortBy (fun x => Dom.sizeOf d x) cliques).find? (fun cl => JT.subset m.proj cl) <;> rfl

theorem setupGroups_fold (d : Dom) (cliques : List Clique) (meas : List (Meas α))
    (G : List (Clique × List (Meas α))) (cl : Clique) :
    LocalG.dgetD (List.foldl (fun G (m : Meas α) =>
        match groupOf d cliques m.proj with
        | some c => LocalG.dset G c (LocalG.dgetD G c [] ++ [m])
        | none => G) G meas) cl []
      = LocalG.dgetD G cl [] ++ meas.filter (fun m => groupOf d cliques m.proj == some cl) := by
  induction meas generalizing G with
  | nil => simp
  | cons m meas ih =>
    simp only [List.foldl_cons, ih, List.filter_cons]
    cases hg : groupOf d cliques m.proj with
    | none => simp
    | some c =>
      simp only [dgetD_dset]
      by_cases hc : cl = c
      · subst hc; simp
      · have h1 : (cl == c) = false := by simpa using hc
        have h2 : (some c == some cl) = false := by simpa using fun h => hc h.symm
        simp [h1, h2]

theorem setupGroups_eq (d : Dom) (cliques : List Clique) (meas : List (Meas α)) (cl : Clique) :
    LocalG.dgetD (LocalG.setupGroups d cliques meas) cl []
      = meas.filter (fun m => groupOf d cliques m.proj == some cl) := by
  unfold LocalG.setupGroups
  simp only [group_step]
  have := setupGroups_fold d cliques meas [] cl
  simpa [LocalG.dgetD] using this

/-- one measurement: it is filed under the clique `groupOf` names, or nowhere -/
theorem setupGroups_single (d : Dom) (cliques : List Clique) (m : Meas α) :
    LocalG.setupGroups d cliques [m]
      = match groupOf d cliques m.proj with
        | some c => [(c, [m])]
        | none => [] := by
  unfold LocalG.setupGroups
  simp only [List.foldl_cons, List.foldl_nil, group_step]
  cases groupOf d cliques m.proj <;> rfl

/-! ## domains of projected tables -/

theorem lookup_map_self (L : List Attr) (g : Attr → Nat) (a : Attr) :
    List.lookup a (L.map (fun a => (a, g a))) = if a ∈ L then some (g a) else none := by
  induction L with
  | nil => simp
  | cons b L ih =>
    simp only [List.map_cons, List.lookup_cons, List.mem_cons]
    by_cases hab : a = b
    · subst hab; simp
    · have : (a == b) = false := by simpa using hab
      simp only [this, ih, hab, false_or]

theorem cfg_project (d : Dom) (L : List Attr) (a : Attr) :
    (d.project L).cfg a = if a ∈ L then d.cfg a else 0 := by
  unfold Dom.project Dom.cfg
  rw [lookup_map_self L (fun a => (List.lookup a d).getD 0) a]
  split <;> rfl

theorem cfg_of_not_mem (d : Dom) (a : Attr) (h : a ∉ d.attrs) : d.cfg a = 0 := by
  unfold Dom.cfg
  have : List.lookup a d = none := by
    rw [List.lookup_eq_none_iff]
    intro p hp
    simp only [bne_iff_ne, ne_eq]
    intro hpa
    exact h (List.mem_map.mpr ⟨p, hp, hpa.symm⟩)
  simp [this]

theorem attrs_project (d : Dom) (L : List Attr) : (d.project L).attrs = L := by
  simp [Dom.project, Dom.attrs, List.map_map, Function.comp_def]

/-- `mu.project(proj).domain` is `mu.domain.project(proj)`, whatever `proj` is -/
theorem projectSum_dom (f : Factor α) (as : List Attr) : (f.projectSum as).dom = f.dom.project as := by
  show (f.dom.marginalize (f.dom.marginalize as).attrs).project as = f.dom.project as
  unfold Dom.project
  apply List.map_congr_left
  intro a ha
  congr 1
  unfold Dom.marginalize
  rw [cfg_project, attrs_project]
  by_cases hd : a ∈ f.dom.attrs
  · have : a ∈ f.dom.invert (f.dom.invert as) := by
      simp only [Dom.invert, List.mem_filter, hd, true_and, Bool.not_eq_true', List.contains_eq_mem,
        decide_eq_false_iff_not, not_not]
      exact ha
    simp [this]
  · have : a ∉ f.dom.invert (f.dom.invert as) := by
      simp only [Dom.invert, List.mem_filter, hd, false_and, not_false_eq_true]
    simp [this, cfg_of_not_mem _ _ hd]

/-- projecting the domain of a clique table onto a sub-list of the clique -/
theorem project_project (d : Dom) (cl as : List Attr) (h : JT.subset as cl = true) :
    (d.project cl).project as = d.project as := by
  unfold Dom.project
  apply List.map_congr_left
  intro a ha
  congr 1
  have hm : a ∈ cl := (LossAux.subset_iff as cl).mp h a ha
  have := cfg_project d cl a
  simp only [hm, if_true] at this
  exact this

/-! ## `_marginal_loss`: updates of `gradient[cl]` by key against the model's local accumulator -/

theorem cv_set_eq_dset (G : CliqueVec α) (k : Clique) (f : Factor α) : CliqueVec.set G k f = LocalG.dset G k f := rfl

theorem cv_get_eq_dgetD (G : CliqueVec α) (k : Clique) : CliqueVec.get G k = LocalG.dgetD G k (Factor.zeros []) := by
  unfold CliqueVec.get LocalG.dgetD
  cases List.lookup k G <;> rfl

theorem any_key_false (G : List (Clique × β)) (k : Clique) (h : k ∉ G.map Prod.fst) :
    G.any (fun p => p.1 == k) = false := by
  rw [List.any_eq_false]
  intro p hp hpk
  exact h (List.mem_map.mpr ⟨p, hp, by simpa using hpk⟩)

/-- `d[k] = v` for a new key appends -/
theorem dset_new {β : Type} (G : List (Clique × β)) (k : Clique) (v : β) (h : k ∉ G.map Prod.fst) :
    LocalG.dset G k v = G ++ [(k, v)] := by
  unfold LocalG.dset
  simp only [any_key_false G k h, Bool.false_eq_true, if_false]

/-- `d[k] = v'` when `k` is the last key and occurs nowhere else -/
theorem dset_last {β : Type} (G : List (Clique × β)) (k : Clique) (v v' : β) (h : k ∉ G.map Prod.fst) :
    LocalG.dset (G ++ [(k, v)]) k v' = G ++ [(k, v')] := by
  unfold LocalG.dset
  have hany : (G ++ [(k, v)]).any (fun p => p.1 == k) = true := by simp
  simp only [hany, if_true, List.map_append, List.map_cons, List.map_nil, beq_self_eq_true]
  congr 1
  conv_rhs => rw [← List.map_id G]
  apply List.map_congr_left
  intro p hp
  have : (p.1 == k) = false := by
    have := any_key_false G k h
    rw [List.any_eq_false] at this
    simpa using this p hp
  simp only [this, Bool.false_eq_true, if_false, id]

theorem dgetD_last {β : Type} (G : List (Clique × β)) (k : Clique) (v z : β) (h : k ∉ G.map Prod.fst) :
    LocalG.dgetD (G ++ [(k, v)]) k z = v := by
  unfold LocalG.dgetD
  rw [List.lookup_append, lookup_of_any_false G k (any_key_false G k h)]
  simp

/-- the inner loop: updating `gradient[cl]` in the dictionary is accumulating one factor on the side -/
theorem inner_fold (t t' : Meas α → α) (h h' : Meas α → Factor α) (cl : Clique) (l : List (Meas α))
    (hl : ∀ m ∈ l, t' m = t m ∧ h' m = h m)
    (G : CliqueVec α) (hcl : cl ∉ G.map Prod.fst) (s : α) (g : Factor α) :
    List.foldl (fun (st : α × CliqueVec α) m =>
        (Scalar.add st.1 (t' m), CliqueVec.set st.2 cl (Factor.iadd (CliqueVec.get st.2 cl) (h' m)))) (s, G ++ [(cl, g)]) l
      = ((List.foldl (fun (lg : α × Factor α) m => (Scalar.add lg.1 (t m), Factor.iadd lg.2 (h m))) (s, g) l).1,
         G ++ [(cl, (List.foldl (fun (lg : α × Factor α) m => (Scalar.add lg.1 (t m), Factor.iadd lg.2 (h m))) (s, g) l).2)]) := by
  induction l generalizing s g with
  | nil => rfl
  | cons m l ih =>
    have hm := hl m (List.mem_cons_self ..)
    simp only [List.foldl_cons, cv_set_eq_dset, cv_get_eq_dgetD, dgetD_last G cl g _ hcl, dset_last G cl g _ hcl, hm.1, hm.2]
    have := ih (fun x hx => hl x (List.mem_cons_of_mem _ hx)) (Scalar.add s (t m)) (Factor.iadd g (h m))
    simpa only [cv_set_eq_dset, cv_get_eq_dgetD] using this

/-- the model's fold of `_marginal_loss`, for an arbitrary per-measurement loss term `t` and gradient factor `h` -/
def modelFold (mine : Clique → List (Meas α)) (t : Meas α → Factor α → α) (h : Meas α → Factor α → Factor α)
    (mu : CliqueVec α) (init : α × CliqueVec α) : α × CliqueVec α :=
  mu.foldl (fun acc e =>
    let r := (mine e.1).foldl (fun (lg : α × Factor α) m => (Scalar.add lg.1 (t m e.2), lg.2.iadd (h m e.2)))
      (acc.1, Factor.zeros e.2.dom)
    (r.1, acc.2 ++ [(e.1, r.2)])) init

/-- the source's loops: by key -/
def genFold (groups : Clique → List (Meas α)) (t : Meas α → Factor α → α) (h : Meas α → Factor α → Factor α)
    (marginals : CliqueVec α) (keys : List Clique) (init : α × CliqueVec α) : α × CliqueVec α :=
  keys.foldl (fun st cl =>
    let r := (groups cl).foldl (fun (st : α × CliqueVec α) m =>
        (Scalar.add st.1 (t m (CliqueVec.get marginals cl)),
         CliqueVec.set st.2 cl (Factor.iadd (CliqueVec.get st.2 cl) (h m (CliqueVec.get marginals cl)))))
      (st.1, CliqueVec.set st.2 cl (Factor.zeros (CliqueVec.get marginals cl).dom))
    (r.1, r.2)) init

theorem genFold_eq (groups : Clique → List (Meas α)) (t t' : Meas α → Factor α → α)
    (h h' : Meas α → Factor α → Factor α) (marginals es : CliqueVec α)
    (hget : ∀ e ∈ es, CliqueVec.get marginals e.1 = e.2)
    (hth : ∀ e ∈ es, ∀ m ∈ groups e.1, t' m e.2 = t m e.2 ∧ h' m e.2 = h m e.2)
    (hnd : (es.map Prod.fst).Nodup) (s : α) (G : CliqueVec α) (hG : ∀ e ∈ es, e.1 ∉ G.map Prod.fst) :
    genFold groups t' h' marginals (es.map Prod.fst) (s, G) = modelFold groups t h es (s, G) := by
  induction es generalizing s G with
  | nil => rfl
  | cons e es ih =>
    obtain ⟨cl, f⟩ := e
    have hcl : cl ∉ G.map Prod.fst := hG (cl, f) (List.mem_cons_self ..)
    have hf : CliqueVec.get marginals cl = f := hget (cl, f) (List.mem_cons_self ..)
    simp only [List.map_cons, List.nodup_cons] at hnd
    unfold genFold modelFold
    simp only [List.map_cons, List.foldl_cons, hf, cv_set_eq_dset, dset_new G cl _ hcl]
    have hin := inner_fold (fun m => t m f) (fun m => t' m f) (fun m => h m f) (fun m => h' m f) cl (groups cl)
      (fun m hm => hth (cl, f) (List.mem_cons_self ..) m hm) G hcl s (Factor.zeros f.dom)
    simp only [cv_set_eq_dset] at hin
    rw [hin]
    have := ih (fun e he => hget e (List.mem_cons_of_mem _ he)) (fun e he => hth e (List.mem_cons_of_mem _ he)) hnd.2
      (List.foldl (fun (lg : α × Factor α) m => (Scalar.add lg.1 (t m f), Factor.iadd lg.2 (h m f))) (s, Factor.zeros f.dom) (groups cl)).1
      (G ++ [(cl, (List.foldl (fun (lg : α × Factor α) m => (Scalar.add lg.1 (t m f), Factor.iadd lg.2 (h m f))) (s, Factor.zeros f.dom) (groups cl)).2)])
      (by
        intro e he
        simp only [List.map_append, List.map_cons, List.map_nil, List.mem_append, List.mem_singleton, not_or]
        refine ⟨hG e (List.mem_cons_of_mem _ he), ?_⟩
        intro hc
        exact hnd.1 (List.mem_map.mpr ⟨e, he, hc⟩))
    unfold genFold modelFold at this
    simpa only [cv_set_eq_dset] using this

/-- dictionary lookups of a duplicate-free association list return the stored entries -/
theorem get_of_mem (mu : CliqueVec α) (hnd : (mu.map Prod.fst).Nodup) : ∀ e ∈ mu, CliqueVec.get mu e.1 = e.2 := by
  induction mu with
  | nil => intro e he; cases he
  | cons p mu ih =>
    obtain ⟨k, f⟩ := p
    simp only [List.map_cons, List.nodup_cons] at hnd
    intro e he
    rcases List.mem_cons.mp he with rfl | he
    · simp [CliqueVec.get]
    · have hne : (e.1 == k) = false := by
        simp only [beq_eq_false_iff_ne, ne_eq]
        intro hek
        exact hnd.1 (List.mem_map.mpr ⟨e, he, hek⟩)
      have := ih hnd.2 e he
      simp only [CliqueVec.get, List.lookup_cons, hne] at this ⊢
      exact this

theorem residual_eq (m : Meas α) (f : Factor α) :
    List.map (fun v => Scalar.mul (Scalar.div Scalar.one m.noise) v)
        (List.zipWith Scalar.sub (matVec m.Q (Factor.datavector (Factor.projectSum f m.proj))) m.y)
      = Loss.residual m f := by
  unfold Loss.residual
  rw [List.map_zipWith]

theorem gradFactor_eq (d : Dom) (cl : Clique) (m : Meas α) (f : Factor α) (v : List α)
    (hdom : f.dom = d.project cl) (hsub : JT.subset m.proj cl = true) :
    Factor.mk' (Factor.dom (Factor.projectSum f m.proj))
        (NdArr.mk [List.length (List.map (fun x => Scalar.mul (Scalar.div Scalar.one m.noise) x) (matTVec m.Q (Dom.sizeOf d m.proj) v))]
          (List.toArray (List.map (fun x => Scalar.mul (Scalar.div Scalar.one m.noise) x) (matTVec m.Q (Dom.sizeOf d m.proj) v))))
      = Factor.mk' (f.dom.project m.proj) ⟨(f.dom.project m.proj).shape,
          ((matTVec m.Q (f.dom.project m.proj).size v).map (fun x => Scalar.mul (Scalar.div Scalar.one m.noise) x)).toArray⟩ := by
  rw [projectSum_dom, hdom, project_project d cl m.proj hsub]
  rfl

/-- `_marginal_loss`, metric L2 -/
theorem gen_marginalLossL2 (d : Dom) (cliques : List Clique) (meas : List (Meas α)) (mu : CliqueVec α)
    (hnd : (mu.map Prod.fst).Nodup) (hdom : ∀ p ∈ mu, p.2.dom = d.project p.1) :
    LocalG.marginalLossL2 d cliques meas mu = Loss.marginalLoss d cliques meas mu := by
  have h1 : LocalG.marginalLossL2 d cliques meas mu
      = genFold (fun cl => LocalG.dgetD (LocalG.setupGroups d cliques meas) cl [])
          (fun m f => Scalar.mul (Scalar.div Scalar.one (Scalar.add Scalar.one Scalar.one))
            (dot (List.map (fun v => Scalar.mul (Scalar.div Scalar.one m.noise) v)
                  (List.zipWith Scalar.sub (matVec m.Q (Factor.datavector (Factor.projectSum f m.proj))) m.y))
                 (List.map (fun v => Scalar.mul (Scalar.div Scalar.one m.noise) v)
                  (List.zipWith Scalar.sub (matVec m.Q (Factor.datavector (Factor.projectSum f m.proj))) m.y))))
          (fun m f =>
            Factor.mk' (Factor.dom (Factor.projectSum f m.proj))
              (NdArr.mk [List.length (List.map (fun x => Scalar.mul (Scalar.div Scalar.one m.noise) x) (matTVec m.Q (Dom.sizeOf d m.proj)
                  (List.map (fun v => Scalar.mul (Scalar.div Scalar.one m.noise) v)
                  (List.zipWith Scalar.sub (matVec m.Q (Factor.datavector (Factor.projectSum f m.proj))) m.y))))]
                (List.toArray (List.map (fun x => Scalar.mul (Scalar.div Scalar.one m.noise) x) (matTVec m.Q (Dom.sizeOf d m.proj)
                  (List.map (fun v => Scalar.mul (Scalar.div Scalar.one m.noise) v)
                  (List.zipWith Scalar.sub (matVec m.Q (Factor.datavector (Factor.projectSum f m.proj))) m.y)))))))
          mu (mu.map Prod.fst) (Scalar.zero, []) := rfl
  rw [h1]
  simp only [setupGroups_eq]
  rw [genFold_eq (t := fun m f => Scalar.mul (Scalar.div Scalar.one (Scalar.add Scalar.one Scalar.one)) (dot (Loss.residual m f) (Loss.residual m f)))
      (h := fun m f => Factor.mk' (f.dom.project m.proj) ⟨(f.dom.project m.proj).shape,
          ((matTVec m.Q (f.dom.project m.proj).size (Loss.residual m f)).map (fun x => Scalar.mul (Scalar.div Scalar.one m.noise) x)).toArray⟩)
      (hget := get_of_mem mu hnd) (hnd := hnd) (hG := by intro e _; simp)]
  · rfl
  · intro e he m hm
    have hg : groupOf d cliques m.proj = some e.1 := by simpa using (List.mem_filter.mp hm).2
    have hsub := (LossAux.groupOf_some_mem d cliques m.proj e.1 hg).2
    refine ⟨?_, ?_⟩
    · simp only [residual_eq]
    · simp only [residual_eq]
      exact gradFactor_eq d e.1 m e.2 _ (hdom e he) hsub

/-- `_marginal_loss`, metric L1 -/
theorem gen_marginalLossL1 (d : Dom) (cliques : List Clique) (meas : List (Meas α)) (mu : CliqueVec α)
    (hnd : (mu.map Prod.fst).Nodup) (hdom : ∀ p ∈ mu, p.2.dom = d.project p.1) :
    LocalG.marginalLossL1 d cliques meas mu = Loss.marginalLossL1 d cliques meas mu := by
  have h1 : LocalG.marginalLossL1 d cliques meas mu
      = genFold (fun cl => LocalG.dgetD (LocalG.setupGroups d cliques meas) cl [])
          (fun m f => Scalar.sum (List.map absS (List.map (fun v => Scalar.mul (Scalar.div Scalar.one m.noise) v)
                  (List.zipWith Scalar.sub (matVec m.Q (Factor.datavector (Factor.projectSum f m.proj))) m.y))))
          (fun m f =>
            Factor.mk' (Factor.dom (Factor.projectSum f m.proj))
              (NdArr.mk [List.length (List.map (fun x => Scalar.mul (Scalar.div Scalar.one m.noise) x) (matTVec m.Q (Dom.sizeOf d m.proj)
                  (List.map signS (List.map (fun v => Scalar.mul (Scalar.div Scalar.one m.noise) v)
                  (List.zipWith Scalar.sub (matVec m.Q (Factor.datavector (Factor.projectSum f m.proj))) m.y)))))]
                (List.toArray (List.map (fun x => Scalar.mul (Scalar.div Scalar.one m.noise) x) (matTVec m.Q (Dom.sizeOf d m.proj)
                  (List.map signS (List.map (fun v => Scalar.mul (Scalar.div Scalar.one m.noise) v)
                  (List.zipWith Scalar.sub (matVec m.Q (Factor.datavector (Factor.projectSum f m.proj))) m.y))))))))
          mu (mu.map Prod.fst) (Scalar.zero, []) := rfl
  rw [h1]
  simp only [setupGroups_eq]
  rw [genFold_eq (t := fun m f => Scalar.sum ((Loss.residual m f).map absS))
      (h := fun m f => Factor.mk' (f.dom.project m.proj) ⟨(f.dom.project m.proj).shape,
          ((matTVec m.Q (f.dom.project m.proj).size ((Loss.residual m f).map signS)).map (fun x => Scalar.mul (Scalar.div Scalar.one m.noise) x)).toArray⟩)
      (hget := get_of_mem mu hnd) (hnd := hnd) (hG := by intro e _; simp)]
  · rfl
  · intro e he m hm
    have hg : groupOf d cliques m.proj = some e.1 := by simpa using (List.mem_filter.mp hm).2
    have hsub := (LossAux.groupOf_some_mem d cliques m.proj e.1 hg).2
    refine ⟨?_, ?_⟩
    · simp only [residual_eq]
    · simp only [residual_eq]
      exact gradFactor_eq d e.1 m e.2 _ (hdom e he) hsub


end PGM.LocalLossGen
