import PGM.Proofs.QueryCond
import PGM.Proofs.QueryTree
import PGM.Proofs.Dataset
/-! the two folds of `calculate_many_marginals` -/
namespace PGM.GM
open PGM PGM.JT
set_option linter.unusedVariables false
set_option linter.unusedSectionVars false

/-! ### `dictSet` -/
section dict
variable {κ β : Type} [BEq κ] [LawfulBEq κ]

theorem mem_dictSet (l : List (κ × β)) (k : κ) (v : β) (e : κ × β) (h : e ∈ dictSet l k v) :
    e ∈ l ∨ e = (k, v) := by
  unfold dictSet at h
  split at h
  · obtain ⟨p, hp, rfl⟩ := List.mem_map.mp h
    split
    · exact Or.inr rfl
    · exact Or.inl hp
  · rcases List.mem_append.mp h with h | h
    · exact Or.inl h
    · exact Or.inr (List.mem_singleton.mp h)

theorem hasKey_dictSet_self (l : List (κ × β)) (k : κ) (v : β) : ∃ e ∈ dictSet l k v, e.1 = k := by
  unfold dictSet
  split
  · rename_i h
    rw [List.any_eq_true] at h
    obtain ⟨p, hp, hk⟩ := h
    refine ⟨(k, v), List.mem_map.mpr ⟨p, hp, ?_⟩, rfl⟩
    rw [if_pos hk]
  · exact ⟨(k, v), by simp, rfl⟩

theorem hasKey_dictSet_of (l : List (κ × β)) (k k' : κ) (v : β) (h : ∃ e ∈ l, e.1 = k') :
    ∃ e ∈ dictSet l k v, e.1 = k' := by
  obtain ⟨e, he, rfl⟩ := h
  unfold dictSet
  split
  · by_cases hk : (e.1 == k) = true
    · exact ⟨(k, v), List.mem_map.mpr ⟨e, he, by rw [if_pos hk]⟩, (by simpa using hk : e.1 = k).symm⟩
    · exact ⟨e, List.mem_map.mpr ⟨e, he, by rw [if_neg hk]⟩, rfl⟩
  · exact ⟨e, List.mem_append_left _ he, rfl⟩

theorem lookup_of_hasKey (l : List (κ × β)) (k : κ) (h : ∃ e ∈ l, e.1 = k) :
    ∃ v, l.lookup k = some v ∧ (k, v) ∈ l := by
  induction l with
  | nil => obtain ⟨e, he, _⟩ := h; simp at he
  | cons p ps ih =>
    obtain ⟨k0, v0⟩ := p
    rw [List.lookup_cons]
    by_cases hk : k = k0
    · subst hk
      exact ⟨v0, by simp, by simp⟩
    · have : (k == k0) = false := by simpa using hk
      rw [this]
      obtain ⟨e, he, hek⟩ := h
      have he' : e ∈ ps := by
        rcases List.mem_cons.mp he with h' | h'
        · subst h'; exact absurd hek.symm hk
        · exact h'
      obtain ⟨v, hv1, hv2⟩ := ih ⟨e, he', hek⟩
      exact ⟨v, hv1, List.mem_cons_of_mem _ hv2⟩

end dict

/-! ### `combos2` -/
theorem mem_combos2 {β : Type} (l : List β) (a b : β) (h : (a, b) ∈ combos2 l) :
    a ∈ l ∧ b ∈ l ∧ (l.Nodup → a ≠ b) := by
  induction l with
  | nil => simp [combos2] at h
  | cons x xs ih =>
    simp only [combos2, List.mem_append, List.mem_map] at h
    rcases h with ⟨y, hy, heq⟩ | h
    · obtain ⟨rfl, rfl⟩ := Prod.mk.inj heq
      refine ⟨by simp, by simp [hy], fun hnd hab => ?_⟩
      exact (List.nodup_cons.mp hnd).1 (hab ▸ hy)
    · obtain ⟨h1, h2, h3⟩ := ih h
      exact ⟨by simp [h1], by simp [h2], fun hnd => h3 (List.nodup_cons.mp hnd).2⟩

theorem combos2_complete {β : Type} (l : List β) (a b : β) (ha : a ∈ l) (hb : b ∈ l) (hab : a ≠ b) :
    (a, b) ∈ combos2 l ∨ (b, a) ∈ combos2 l := by
  induction l with
  | nil => simp at ha
  | cons x xs ih =>
    simp only [combos2, List.mem_append, List.mem_map]
    rcases List.mem_cons.mp ha with rfl | ha'
    · rcases List.mem_cons.mp hb with rfl | hb'
      · exact absurd rfl hab
      · exact Or.inl (Or.inl ⟨b, hb', rfl⟩)
    · rcases List.mem_cons.mp hb with rfl | hb'
      · exact Or.inr (Or.inl ⟨a, ha', rfl⟩)
      · rcases ih ha' hb' with h | h
        · exact Or.inl (Or.inr h)
        · exact Or.inr (Or.inr h)

/-! ### generic fold facts -/
theorem foldl_prefix_inv {β γ : Type} (l : List β) (f : γ → β → γ) (init : γ)
    (I : List β → γ → Prop) (h0 : I [] init)
    (hstep : ∀ pre x post acc, l = pre ++ x :: post → I pre acc → I (pre ++ [x]) (f acc x)) :
    I l (l.foldl f init) := by
  have key : ∀ (rest pre : List β) (acc : γ), l = pre ++ rest → I pre acc → I l (rest.foldl f acc) := by
    intro rest
    induction rest with
    | nil => intro pre acc hl hI; rw [List.append_nil] at hl; rw [hl]; exact hI
    | cons x xs ih =>
      intro pre acc hl hI
      rw [List.foldl_cons]
      exact ih (pre ++ [x]) (f acc x) (by rw [hl]; simp) (hstep pre x xs acc hl hI)
  exact key l [] init rfl h0

theorem sorted_prefix {β : Type} (key : β → Nat) (pre post : List β) (x q : β)
    (hs : (pre ++ x :: post).Pairwise (fun a b => key a ≤ key b)) (hq : q ∈ pre ++ x :: post)
    (hlt : key q < key x) : q ∈ pre := by
  rcases List.mem_append.mp hq with h | h
  · exact h
  · exfalso
    have h2 := (List.pairwise_append.mp hs).2.1
    rcases List.mem_cons.mp h with rfl | h'
    · omega
    · have := (List.pairwise_cons.mp h2).1 q h'
      omega

/-! ### the model, with its local definitions named -/
section defs
variable {α : Type} [Scalar α]

def mmTbl (cliques : List Clique) (t : Tree) (c : Clique) : List Entry :=
  ((cliques.map (fun c => (c, bfs t c))).lookup c).getD []

def mmCond (marg : CliqueVec α) (cj ci : Clique) : Factor α :=
  (marg.get cj).divF ((marg.get cj).projectSum (JT.inter cj ci))

def mmNew (cliques : List Clique) (t : Tree) (marg : CliqueVec α)
    (res : List ((Clique × Clique) × Factor α)) (ci cj : Clique) : Factor α :=
  if predOf (mmTbl cliques t ci) cj == ci then (marg.get ci).mul (mmCond marg cj (predOf (mmTbl cliques t ci) cj))
  else (((res.lookup (ci, predOf (mmTbl cliques t ci) cj)).getD (Factor.zeros [])).mul
      (mmCond marg cj (predOf (mmTbl cliques t ci) cj))).sum
    ((predOf (mmTbl cliques t ci) cj).filter (fun a => !ci.contains a && !cj.contains a))

def mmStep (cliques : List Clique) (t : Tree) (marg : CliqueVec α)
    (res : List ((Clique × Clique) × Factor α)) (p : Clique × Clique) :
    List ((Clique × Clique) × Factor α) :=
  dictSet (dictSet res (p.1, p.2) (mmNew cliques t marg res p.1 p.2)) (p.2, p.1)
    (mmNew cliques t marg res p.1 p.2)

def mmResults (cliques : List Clique) (t : Tree) (marg : CliqueVec α) :
    List ((Clique × Clique) × Factor α) :=
  (Dom.sortBy (fun (p : Clique × Clique) => distOf (mmTbl cliques t p.1) p.2) (combos2 cliques)).foldl
    (mmStep cliques t marg) []

def mmResults2 (dom : Dom) (cliques : List Clique) (t : Tree) (marg : CliqueVec α) :
    List (List Attr × Factor α) :=
  (mmResults cliques t marg).foldl (fun (d : List (List Attr × Factor α)) (e : (Clique × Clique) × Factor α) =>
    dictSet d (dom.canonical (e.1.1 ++ e.1.2)) e.2) []

theorem manyMarginals_eq (dom : Dom) (cliques : List Clique) (t : Tree) (marg : CliqueVec α)
    (fallback : List Attr → Factor α) (projections : List (List Attr)) :
    manyMarginals dom cliques t marg fallback projections =
      projections.map (fun proj =>
        match (mmResults2 dom cliques t marg).find? (fun e => JT.subset proj e.1) with
        | some e => (proj, e.2.projectSum proj)
        | none => (proj, fallback proj)) := rfl

theorem mmTbl_eq (cliques : List Clique) (t : Tree) (c : Clique) (hc : c ∈ cliques) :
    mmTbl cliques t c = bfs t c := by
  unfold mmTbl
  induction cliques with
  | nil => simp at hc
  | cons x xs ih =>
    rw [List.map_cons, List.lookup_cons]
    by_cases hx : c = x
    · subst hx; simp
    · have : (c == x) = false := by simpa using hx
      rw [this]
      exact ih (by simpa [hx] using hc)

end defs

end PGM.GM
