import PGM.Proofs.Semantics
import Mathlib.Algebra.BigOperators.Ring.List
/-!
# The algebra of `sumOver`

`sumOver d as σ f` sums `f` over every setting of the attributes `as` (sizes taken from `d`), the
other attributes being fixed by `σ`.  This file proves the list-level facts that every
sum-product argument needs (variable elimination, belief propagation):

* `override_*`        — pointwise behaviour of `Dom.override`
* `sumOver_nil`, `sumOver_single`, `sumOver_cons`, `sumOver_append` — structure
* `sumOver_congr`, `sumOver_congr_valid`  — extensionality on the cells actually visited
* `sumOver_mul_left`, `sumOver_mul_right`, `sumOver_div`, `sumOver_add`, `sumOver_zero`,
  `sumOver_sum`  — linearity
* `sumOver_factor_left/right` — pulling out a factor that does not depend on the summed attributes
* `sumOver_comm`, `sumOver_swap`, `sumOver_perm` — order irrelevance for duplicate-free lists
* `sumOver_base_congr` — the base assignment only matters outside the summed attributes
* `valid_override`    — overriding with an enumerated cell keeps an assignment valid

Nothing here mentions factors; everything is over an arbitrary field `K`.
-/
namespace PGM.Sem
open PGM

variable {K : Type} [Field K]
set_option linter.unusedSectionVars false

/-! ### `Dom.override` -/

theorem override_nil (σ : Attr → Nat) (v : List Nat) : Dom.override σ [] v = σ := by
  funext a; simp [Dom.override]

theorem override_of_not_mem (σ : Attr → Nat) (as : List Attr) (v : List Nat) (a : Attr)
    (h : a ∉ as) : Dom.override σ as v a = σ a := by
  simp [Dom.override, h]

theorem override_of_mem (σ : Attr → Nat) (as : List Attr) (v : List Nat) (a : Attr)
    (h : a ∈ as) : Dom.override σ as v a = v.getD (as.idxOf a) 0 := by
  simp [Dom.override, h]

/-- overriding `z :: zs` is overriding `z`, then `zs` -/
theorem override_cons (σ : Attr → Nat) (z : Attr) (zs : List Attr) (i : Nat) (r : List Nat)
    (hz : z ∉ zs) :
    Dom.override σ (z :: zs) (i :: r) = Dom.override (Dom.override σ [z] [i]) zs r := by
  funext a
  by_cases ha : a ∈ zs
  · have hne : a ≠ z := fun h => hz (h ▸ ha)
    have hne' : (z == a) = false := by simpa using fun h : z = a => hne h.symm
    rw [override_of_mem _ _ _ _ (List.mem_cons_of_mem _ ha), override_of_mem _ _ _ _ ha]
    simp [List.idxOf_cons, hne']
  · rw [override_of_not_mem _ zs _ _ ha]
    by_cases haz : a = z
    · subst haz
      rw [override_of_mem _ _ _ _ (by simp), override_of_mem _ _ _ _ (by simp)]
      simp
    · rw [override_of_not_mem _ _ _ _ (by simp [haz, ha]), override_of_not_mem _ _ _ _ (by simp [haz])]

/-- overrides of different attributes commute -/
theorem override_single_comm (σ : Attr → Nat) (x y : Attr) (i j : Nat) (hxy : x ≠ y) :
    Dom.override (Dom.override σ [x] [i]) [y] [j] = Dom.override (Dom.override σ [y] [j]) [x] [i] := by
  funext a
  by_cases hax : a = x
  · subst hax
    rw [override_of_not_mem _ [y] _ _ (by simp [hxy]), override_of_mem _ [a] _ _ (by simp),
      override_of_mem _ [a] _ _ (by simp)]
  · by_cases hay : a = y
    · subst hay
      rw [override_of_mem _ [a] _ _ (by simp), override_of_not_mem _ [x] _ _ (by simp [hax]),
        override_of_mem _ [a] _ _ (by simp)]
    · rw [override_of_not_mem _ [y] _ _ (by simp [hay]), override_of_not_mem _ [x] _ _ (by simp [hax]),
        override_of_not_mem _ [x] _ _ (by simp [hax]), override_of_not_mem _ [y] _ _ (by simp [hay])]

/-- the overridden values do not depend on the base assignment inside `as` -/
theorem override_base_congr (σ τ : Attr → Nat) (as : List Attr) (v : List Nat)
    (h : ∀ a, a ∉ as → σ a = τ a) : Dom.override σ as v = Dom.override τ as v := by
  funext a
  by_cases ha : a ∈ as
  · rw [override_of_mem _ _ _ _ ha, override_of_mem _ _ _ _ ha]
  · rw [override_of_not_mem _ _ _ _ ha, override_of_not_mem _ _ _ _ ha, h a ha]

/-- reading the overridden attributes back gives the cell -/
theorem map_override_self (σ : Attr → Nat) (as : List Attr) (v : List Nat) (has : as.Nodup)
    (hl : v.length = as.length) : as.map (Dom.override σ as v) = v := by
  apply List.ext_getElem
  · simp [hl]
  · intro i h1 h2
    have hi : i < as.length := by simpa using h1
    rw [List.getElem_map, override_of_mem _ _ _ _ (List.getElem_mem hi), has.idxOf_getElem i hi,
      List.getD_eq_getElem?_getD, List.getElem?_eq_getElem h2]
    rfl

/-- overriding with an enumerated cell keeps an assignment valid -/
theorem valid_override (d : Dom) (hd : d.WF) (σ : Attr → Nat) (as : List Attr) (v : List Nat)
    (hσ : d.Valid σ) (hv : v ∈ cells (as.map d.cfg)) : d.Valid (Dom.override σ as v) := by
  rw [Dom.valid_iff d hd] at hσ ⊢
  intro a ha
  by_cases hm : a ∈ as
  · rw [override_of_mem _ _ _ _ hm]
    have hr := (NdArr.inRange_iff _ _).mp (mem_cells_inRange _ _ hv)
    have hlt : as.idxOf a < (as.map d.cfg).length := by
      simpa using List.idxOf_lt_length_iff.mpr hm
    have := hr.2 _ hlt
    rwa [getD_map_idxOf as d.cfg 0 a hm] at this
  · rw [override_of_not_mem _ _ _ _ hm]
    exact hσ a ha

/-! ### list sums -/

theorem sum_flatMap {ι κ : Type} (l : List ι) (g : ι → List κ) (f : κ → K) :
    ((l.flatMap g).map f).sum = (l.map (fun i => ((g i).map f).sum)).sum := by
  induction l with
  | nil => simp
  | cons x xs ih => simp [List.flatMap_cons, List.sum_append, ih]

/-- exchanging two finite sums -/
theorem sum_map_comm {ι κ : Type} (l₁ : List ι) (l₂ : List κ) (g : ι → κ → K) :
    (l₁.map (fun i => (l₂.map (fun j => g i j)).sum)).sum
      = (l₂.map (fun j => (l₁.map (fun i => g i j)).sum)).sum := by
  induction l₁ with
  | nil => simp
  | cons x xs ih =>
    simp only [List.map_cons, List.sum_cons, ih]
    rw [← List.sum_map_add]

/-! ### structure of `sumOver` -/

theorem sumOver_nil (d : Dom) (σ : Attr → Nat) (f : (Attr → Nat) → K) :
    sumOver d [] σ f = f σ := by
  simp [sumOver, cells, override_nil]

theorem cells_single (n : Nat) : cells [n] = (List.range n).map (fun i => [i]) := by
  simp only [cells, List.map_cons, List.map_nil]
  induction n with
  | zero => simp
  | succ k ih => simp [List.range_succ, List.flatMap_append, ih]

theorem sumOver_single (d : Dom) (z : Attr) (σ : Attr → Nat) (f : (Attr → Nat) → K) :
    sumOver d [z] σ f = ((List.range (d.cfg z)).map (fun i => f (Dom.override σ [z] [i]))).sum := by
  simp only [sumOver, List.map_cons, List.map_nil, cells_single, List.map_map]
  rfl

/-- summing over `z :: zs` = summing over `z` the sums over `zs` -/
theorem sumOver_cons (d : Dom) (z : Attr) (zs : List Attr) (σ : Attr → Nat) (f : (Attr → Nat) → K)
    (hz : z ∉ zs) :
    sumOver d (z :: zs) σ f = sumOver d [z] σ (fun τ => sumOver d zs τ f) := by
  rw [sumOver_single]
  simp only [sumOver, List.map_cons, cells]
  rw [sum_flatMap]
  congr 1
  apply List.map_congr_left
  intro i _
  rw [List.map_map]
  congr 1
  apply List.map_congr_left
  intro r _
  simp only [Function.comp]
  rw [override_cons σ z zs i r hz]

/-- extensionality on the cells actually visited -/
theorem sumOver_congr (d : Dom) (as : List Attr) (σ : Attr → Nat) (f g : (Attr → Nat) → K)
    (h : ∀ v ∈ cells (as.map d.cfg), f (Dom.override σ as v) = g (Dom.override σ as v)) :
    sumOver d as σ f = sumOver d as σ g := by
  unfold sumOver
  congr 1
  exact List.map_congr_left h

/-- extensionality on valid assignments -/
theorem sumOver_congr_valid (d : Dom) (hd : d.WF) (as : List Attr) (σ : Attr → Nat)
    (f g : (Attr → Nat) → K) (hσ : d.Valid σ) (h : ∀ τ, d.Valid τ → f τ = g τ) :
    sumOver d as σ f = sumOver d as σ g :=
  sumOver_congr d as σ f g (fun v hv => h _ (valid_override d hd σ as v hσ hv))

/-- the base assignment only matters outside the summed attributes -/
theorem sumOver_base_congr (d : Dom) (as : List Attr) (σ τ : Attr → Nat) (f : (Attr → Nat) → K)
    (h : ∀ a, a ∉ as → σ a = τ a) : sumOver d as σ f = sumOver d as τ f := by
  unfold sumOver
  congr 1
  apply List.map_congr_left
  intro v _
  rw [override_base_congr σ τ as v h]

/-! ### linearity -/

theorem sumOver_mul_left (d : Dom) (as : List Attr) (σ : Attr → Nat) (c : K) (f : (Attr → Nat) → K) :
    sumOver d as σ (fun τ => c * f τ) = c * sumOver d as σ f := by
  unfold sumOver
  rw [← List.sum_map_mul_left]

theorem sumOver_mul_right (d : Dom) (as : List Attr) (σ : Attr → Nat) (c : K) (f : (Attr → Nat) → K) :
    sumOver d as σ (fun τ => f τ * c) = sumOver d as σ f * c := by
  unfold sumOver
  rw [← List.sum_map_mul_right]

theorem sumOver_div (d : Dom) (as : List Attr) (σ : Attr → Nat) (c : K) (f : (Attr → Nat) → K) :
    sumOver d as σ (fun τ => f τ / c) = sumOver d as σ f / c := by
  simp only [div_eq_mul_inv]
  exact sumOver_mul_right d as σ c⁻¹ f

theorem sumOver_add (d : Dom) (as : List Attr) (σ : Attr → Nat) (f g : (Attr → Nat) → K) :
    sumOver d as σ (fun τ => f τ + g τ) = sumOver d as σ f + sumOver d as σ g := by
  unfold sumOver
  rw [← List.sum_map_add]

theorem sumOver_zero (d : Dom) (as : List Attr) (σ : Attr → Nat) :
    sumOver d as σ (fun _ => (0 : K)) = 0 := by
  simp [sumOver]

/-- a finite sum commutes with `sumOver` -/
theorem sumOver_sum {ι : Type} (d : Dom) (as : List Attr) (σ : Attr → Nat) (l : List ι)
    (g : ι → (Attr → Nat) → K) :
    sumOver d as σ (fun τ => (l.map (fun i => g i τ)).sum) = (l.map (fun i => sumOver d as σ (g i))).sum := by
  unfold sumOver
  exact sum_map_comm _ _ _

/-- a factor that is constant on the visited cells comes out of the sum -/
theorem sumOver_factor_left (d : Dom) (as : List Attr) (σ : Attr → Nat) (f g : (Attr → Nat) → K)
    (h : ∀ v ∈ cells (as.map d.cfg), f (Dom.override σ as v) = f σ) :
    sumOver d as σ (fun τ => f τ * g τ) = f σ * sumOver d as σ g := by
  rw [← sumOver_mul_left]
  apply sumOver_congr
  intro v hv
  simp only [h v hv]

theorem sumOver_factor_right (d : Dom) (as : List Attr) (σ : Attr → Nat) (f g : (Attr → Nat) → K)
    (h : ∀ v ∈ cells (as.map d.cfg), g (Dom.override σ as v) = g σ) :
    sumOver d as σ (fun τ => f τ * g τ) = sumOver d as σ f * g σ := by
  rw [← sumOver_mul_right]
  apply sumOver_congr
  intro v hv
  simp only [h v hv]

/-- `f` depends only on the attributes in `S` -/
def DependsOn (f : (Attr → Nat) → K) (S : List Attr) : Prop :=
  ∀ σ τ : Attr → Nat, (∀ a ∈ S, σ a = τ a) → f σ = f τ

theorem DependsOn.override {f : (Attr → Nat) → K} {S : List Attr} (hf : DependsOn f S)
    (σ : Attr → Nat) (as : List Attr) (v : List Nat) (hdis : ∀ a ∈ as, a ∉ S) :
    f (Dom.override σ as v) = f σ :=
  hf _ _ (fun a ha => override_of_not_mem σ as v a (fun h => hdis a h ha))

theorem DependsOn.mono {f : (Attr → Nat) → K} {S T : List Attr} (hf : DependsOn f S)
    (h : ∀ a ∈ S, a ∈ T) : DependsOn f T :=
  fun σ τ hστ => hf σ τ (fun a ha => hστ a (h a ha))

/-- summing out `as` leaves a function that no longer depends on `as` -/
theorem DependsOn.sumOver {f : (Attr → Nat) → K} {S : List Attr} (hf : DependsOn f S)
    (d : Dom) (as : List Attr) :
    DependsOn (fun τ => sumOver d as τ f) (S.filter (fun a => !as.contains a)) := by
  intro σ τ h
  show Sem.sumOver d as σ f = Sem.sumOver d as τ f
  unfold Sem.sumOver
  congr 1
  apply List.map_congr_left
  intro v _
  apply hf
  intro a ha
  by_cases hm : a ∈ as
  · rw [override_of_mem _ _ _ _ hm, override_of_mem _ _ _ _ hm]
  · rw [override_of_not_mem _ _ _ _ hm, override_of_not_mem _ _ _ _ hm]
    exact h a (List.mem_filter.mpr ⟨ha, by simpa using hm⟩)

/-- if `f` depends only on `S`, the base assignment matters only on `S \ as` -/
theorem sumOver_base_congr_of_dependsOn (d : Dom) (as S : List Attr) (σ τ : Attr → Nat)
    (f : (Attr → Nat) → K) (hf : DependsOn f S) (h : ∀ a ∈ S, a ∉ as → σ a = τ a) :
    sumOver d as σ f = sumOver d as τ f :=
  hf.sumOver d as σ τ (fun a ha => by
    obtain ⟨h1, h2⟩ := List.mem_filter.mp ha
    exact h a h1 (by simpa using h2))

/-! ### order irrelevance -/

/-- sums over two different attributes commute -/
theorem sumOver_comm (d : Dom) (x y : Attr) (σ : Attr → Nat) (f : (Attr → Nat) → K) (hxy : x ≠ y) :
    sumOver d [x] σ (fun τ => sumOver d [y] τ f) = sumOver d [y] σ (fun τ => sumOver d [x] τ f) := by
  simp only [sumOver_single]
  rw [sum_map_comm]
  congr 1
  apply List.map_congr_left
  intro j _
  congr 1
  apply List.map_congr_left
  intro i _
  rw [override_single_comm σ x y i j hxy]

theorem sumOver_append (d : Dom) (as bs : List Attr) (σ : Attr → Nat) (f : (Attr → Nat) → K)
    (has : as.Nodup) (hdis : ∀ a ∈ as, a ∉ bs) :
    sumOver d (as ++ bs) σ f = sumOver d as σ (fun τ => sumOver d bs τ f) := by
  induction as generalizing σ with
  | nil => rw [sumOver_nil]; rfl
  | cons a as ih =>
    have hna : a ∉ as := (List.nodup_cons.mp has).1
    have hnb : a ∉ bs := hdis a (by simp)
    rw [List.cons_append, sumOver_cons d a (as ++ bs) σ f (by simp [hna, hnb]),
      sumOver_cons d a as σ _ hna]
    congr 1
    funext τ
    exact ih τ (List.nodup_cons.mp has).2 (fun b hb => hdis b (by simp [hb]))

/-- **the order in which attributes are listed does not matter** -/
theorem sumOver_perm (d : Dom) (as bs : List Attr) (σ : Attr → Nat) (f : (Attr → Nat) → K)
    (hp : as.Perm bs) (has : as.Nodup) : sumOver d as σ f = sumOver d bs σ f := by
  induction hp generalizing σ with
  | nil => rfl
  | @cons x l₁ l₂ h ih =>
    have hx : x ∉ l₁ := (List.nodup_cons.mp has).1
    rw [sumOver_cons d x l₁ σ f hx, sumOver_cons d x l₂ σ f (fun hm => hx (h.mem_iff.mpr hm))]
    congr 1
    funext τ
    exact ih τ (List.nodup_cons.mp has).2
  | swap x y l =>
    have h1 := List.nodup_cons.mp has
    have h2 := List.nodup_cons.mp h1.2
    have hyx : y ≠ x := fun h => h1.1 (by simp [h])
    rw [sumOver_cons d y (x :: l) σ f h1.1, sumOver_cons d x (y :: l) σ f
      (by simp [Ne.symm hyx, h2.1])]
    have e1 : (fun τ => sumOver d (x :: l) τ f) = fun τ => sumOver d [x] τ (fun ρ => sumOver d l ρ f) := by
      funext τ; exact sumOver_cons d x l τ f h2.1
    have e2 : (fun τ => sumOver d (y :: l) τ f) = fun τ => sumOver d [y] τ (fun ρ => sumOver d l ρ f) := by
      funext τ; exact sumOver_cons d y l τ f (fun hm => h1.1 (by simp [hm]))
    rw [e1, e2]
    exact sumOver_comm d y x σ _ hyx
  | trans h₁ h₂ ih₁ ih₂ =>
    rw [ih₁ σ has, ih₂ σ (h₁.nodup has)]

/-- nested sums over disjoint duplicate-free lists commute -/
theorem sumOver_swap (d : Dom) (as bs : List Attr) (σ : Attr → Nat) (f : (Attr → Nat) → K)
    (has : as.Nodup) (hbs : bs.Nodup) (hdis : ∀ a ∈ as, a ∉ bs) :
    sumOver d as σ (fun τ => sumOver d bs τ f) = sumOver d bs σ (fun τ => sumOver d as τ f) := by
  rw [← sumOver_append d as bs σ f has hdis,
    ← sumOver_append d bs as σ f hbs (fun b hb ha => hdis b ha hb)]
  apply sumOver_perm d _ _ σ f List.perm_append_comm
  rw [List.nodup_append]
  exact ⟨has, hbs, fun a ha b hb hab => hdis a ha (hab ▸ hb)⟩

/-- the two-level sum over a split of a duplicate-free list is the sum over the list -/
theorem sumOver_split (d : Dom) (as : List Attr) (p : Attr → Bool) (σ : Attr → Nat)
    (f : (Attr → Nat) → K) (has : as.Nodup) :
    sumOver d (as.filter p) σ (fun τ => sumOver d (as.filter (fun a => !p a)) τ f)
      = sumOver d as σ f := by
  rw [← sumOver_append d _ _ σ f (has.sublist List.filter_sublist)
    (fun a ha hb => by
      have h1 := (List.mem_filter.mp ha).2
      have h2 := (List.mem_filter.mp hb).2
      simp [h1] at h2)]
  apply sumOver_perm
  · exact List.filter_append_perm p as
  · rw [List.nodup_append]
    refine ⟨has.sublist List.filter_sublist, has.sublist List.filter_sublist, ?_⟩
    intro a ha b hb hab
    subst hab
    have h1 := (List.mem_filter.mp ha).2
    have h2 := (List.mem_filter.mp hb).2
    simp [h1] at h2

end PGM.Sem
