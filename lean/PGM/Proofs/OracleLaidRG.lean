import PGM.Proofs.OracleLaid
import PGM.Proofs.GbpFixedExact
import PGM.Proofs.GbpFixedShape
import PGM.Proofs.ConvexSem
/-!
# The domain invariant of the two region-graph oracles (helpers for `Properties/C18H.lean`)

Assembled from the layout theory of the fixed-point / duality proofs: `GbpFixed.Hyp` is an invariant of `gbpSweep`
(`Hyp.iterate`) and makes every belief a table on its region (`beliefOf_ok`); `Convex.Shape` + `Convex.MsgsDown` are an invariant
of `hpsSweep` (`shape_preserved`) and make `θ̃_r` a table on `r` (`thetaTilde_on`).

GBP messages: the new message of an edge `(ru, rd)` is `logsumexp` of a table on `ru` over `ru ∖ rd`, so its attributes are those
of `rd` IN `ru`'s ORDER: a table INSIDE `rd` (`Convex.Sub`), not in general on `dom.project rd`.  That is the invariant
(`MsgsLaidGBP`); adding such a table to a belief on a super-region keeps the belief's domain.  HPS messages are on
`dom.project c` for the child `c` of their edge, in both directions (`MsgsLaidHPS`).
-/
namespace PGM.OracleLaid
open PGM PGM.JT PGM.RG PGM.Oracle PGM.LocalE2E PGM.GbpFixed
open PGM.Convex (RegOK Sub GraphOK BuiltOK)

/-- what the layout theorems need from a region graph (all of it holds for `RG.buildOn`, `graphLaid_buildOn`) -/
structure GraphLaid (dom : Dom) (g : RG.Graph) : Prop where
  dom_wf : dom.WF
  pos : ∀ p ∈ dom, 0 < p.2
  reg_nodup : g.regions.Nodup
  cl_nodup : g.cliques.Nodup
  reg_cl : ∀ r, r ∈ g.regions ↔ r ∈ g.cliques
  region_ok : ∀ r ∈ g.regions, RegOK dom r
  built : BuiltOK g

theorem potOf_get (dom : Dom) (g : RG.Graph) (θ : CliqueVec ℝ) (r : Region) (hr : r ∈ g.cliques) :
    potOf dom g θ r = θ.get r := by
  unfold potOf
  rw [if_pos (List.contains_iff_mem.mpr hr)]

theorem GraphLaid.gok {dom : Dom} {g : RG.Graph} (hg : GraphLaid dom g) (pots : CliqueVec ℝ)
    (hp : Laid dom g.cliques pots) : GraphOK dom g (potOf dom g pots) :=
  ⟨hg.dom_wf, hg.region_ok,
   fun r hr => by rw [potOf_get dom g pots r ((hg.reg_cl r).mp hr)]; exact hp.get r ((hg.reg_cl r).mp hr),
   hg.built.children_sub, hg.built.parents_dual⟩

/-! ### generalised belief propagation -/

/-- the persisted messages of a non-convex `RegionGraph`: the message of every edge of the message order is a well-formed table
inside the child region of the edge, with the domain's extents -/
def MsgsLaidGBP (dom : Dom) (g : RG.Graph) (m : Msgs ℝ) : Prop := ∀ e ∈ g.messageOrder, Sub dom e.2 (m.get e)

/-- **GBP, the domain invariant** -/
theorem gbp_laid (dom : Dom) (g : RG.Graph) (hg : GraphLaid dom g) (hs : GbpFixed.Shape g) (pots : CliqueVec ℝ) (T : ℝ)
    (iters : Nat) (msgs : Msgs ℝ) (hp : Laid dom g.cliques pots) (hm : MsgsLaidGBP dom g msgs) :
    Laid dom g.cliques (RG.gbp dom g pots T iters msgs).1 ∧ MsgsLaidGBP dom g (RG.gbp dom g pots T iters msgs).2 := by
  have hyp : Hyp dom g (potOf dom g pots) msgs := ⟨hg.gok pots hp, hg.pos, hs, hm⟩
  have hit := hyp.iterate iters
  refine ⟨⟨Oracle.gbp_keys dom g pots T iters msgs hg.cl_nodup, ?_⟩, hit.msgs_sub⟩
  intro p hpm
  rw [Oracle.gbp_eq_fill] at hpm
  rcases mem_fill _ _ _ p hpm with h | h
  · simp at h
  · rw [h.2]
    have hb : Oracle.gbpBelief dom g pots iters msgs p.1
        = beliefOf g (potOf dom g pots) (iterate (gbpSweep g (potOf dom g pots)) iters msgs) p.1 := by
      unfold Oracle.gbpBelief beliefOf
      rw [potOf_get dom g pots p.1 h.1]
    obtain ⟨b1, b2⟩ := (beliefOf_ok hit ((hg.reg_cl p.1).mpr h.1)).1
    obtain ⟨n1, n2⟩ := normalise_on T _ b1
    rw [hb]
    exact ⟨n1, n2.trans b2⟩

/-- the initial messages have the layout -/
theorem initMessages_laidGBP (dom : Dom) (g : RG.Graph) (hg : GraphLaid dom g) :
    MsgsLaidGBP dom g (initMessages dom g.messageOrder) := by
  intro e he
  obtain ⟨e', he', hk, hget⟩ := Convex.initMessages_get dom g.messageOrder e ⟨e, he, Or.inl rfl⟩
  rw [hget]
  obtain ⟨h1, h2⟩ := hg.built.order_sound e' he'
  obtain ⟨h3, h4⟩ := hg.built.children_sub e'.1 h1 e'.2 h2
  have hon := (Convex.zeros_on (hg.region_ok e'.2 h3)).sub (hg.region_ok e'.2 h3)
  apply hon.mono
  rcases hk with hk | hk
  · rw [hk]; exact fun a ha => ha
  · rw [hk]; exact h4

/-! ### the convex oracle -/

/-- the persisted messages of a convex `RegionGraph`: on every edge `(p, c)` both `messages[c, p]` and `messages[p, c]` are
well-formed tables on `dom.project c` -/
def MsgsLaidHPS (dom : Dom) (g : RG.Graph) (m : Msgs ℝ) : Prop :=
  ∀ p ∈ g.regions, ∀ c ∈ look g.children p, Convex.On dom c (m.get (c, p)) ∧ Convex.On dom c (m.get (p, c))

theorem GraphLaid.shape {dom : Dom} {g : RG.Graph} (hg : GraphLaid dom g) (pots : CliqueVec ℝ)
    (hp : Laid dom g.cliques pots) (m : Msgs ℝ) (hm : MsgsLaidHPS dom g m) :
    Convex.Shape dom g (potOf dom g pots) m ∧ Convex.MsgsDown dom g m :=
  ⟨⟨⟨hg.dom_wf, hg.pos, hg.reg_nodup, hg.region_ok, (hg.gok pots hp).pot_ok, hg.built.children_sub,
      hg.built.parents_dual, hg.built.children_nodup, fun p hp' c hc => (hm p hp' c hc).1⟩, hg.built.parents_nodup⟩,
   ⟨fun p hp' c hc => (hm p hp' c hc).2⟩⟩

theorem msgsLaidHPS_of_shape {dom : Dom} {g : RG.Graph} {pot : Region → Factor ℝ} {m : Msgs ℝ}
    (h1 : Convex.Shape dom g pot m) (h2 : Convex.MsgsDown dom g m) : MsgsLaidHPS dom g m :=
  fun p hp c hc => ⟨h1.msg_ok p hp c hc, h2.down_ok p hp c hc⟩

/-- **HPS, the domain invariant** (`iters > 0`; the marginals are keyed by `g.regions`) -/
theorem hps_laid (dom : Dom) (g : RG.Graph) (hg : GraphLaid dom g) (c0 : Region → ℝ) (pots : CliqueVec ℝ) (T rho conv : ℝ)
    (iters : Nat) (hi : 0 < iters) (msgs : Msgs ℝ) (hp : Laid dom g.cliques pots) (hm : MsgsLaidHPS dom g msgs) :
    Laid dom g.regions (RG.hps dom g c0 pots T iters rho conv msgs).1 ∧
      MsgsLaidHPS dom g (RG.hps dom g c0 pots T iters rho conv msgs).2.1 := by
  obtain ⟨k, e1, e2⟩ := Convex.hpsLoop_spec g (potOf dom g pots) c0 T rho conv iters hi 0 msgs []
  obtain ⟨s1, s2⟩ := hg.shape pots hp msgs hm
  obtain ⟨t1, t2⟩ := Convex.shape_preserved_iterate s1 s2 c0 T rho k
  obtain ⟨u1, u2⟩ := Convex.shape_preserved t1 t2 c0 T rho
  refine ⟨⟨Oracle.hps_keys dom g c0 pots T iters rho conv msgs hi hg.reg_nodup, ?_⟩, ?_⟩
  · intro p hpm
    have e1' : (RG.hps dom g c0 pots T iters rho conv msgs).1 = _ := e1
    rw [e1', hpsSweep_snd_eq] at hpm
    rcases mem_fill _ _ _ p hpm with h | h
    · simp at h
    · rw [h.2]
      have hth := (Convex.thetaTilde_on u1.toShape₀ h.1).1
      have hb : Convex.On dom p.1 (hpsBelief g (potOf dom g pots) c0
          (hpsSweep g (potOf dom g pots) c0 T rho
            (iterate (fun m => (hpsSweep g (potOf dom g pots) c0 T rho m).1) k msgs)).1 p.1) :=
        Convex.mapVals_on _ hth
      obtain ⟨n1, n2⟩ := normalise_on T _ hb.1
      exact ⟨n1, n2.trans hb.2⟩
  · have e2' : (RG.hps dom g c0 pots T iters rho conv msgs).2.1 = _ := e2
    rw [e2']
    exact msgsLaidHPS_of_shape u1 u2

theorem initMessages_laidHPS (dom : Dom) (g : RG.Graph) (hg : GraphLaid dom g) (pot : Region → Factor ℝ)
    (hpot : ∀ r ∈ g.regions, Convex.On dom r (pot r)) :
    MsgsLaidHPS dom g (initMessages dom g.messageOrder) := by
  have hgok : GraphOK dom g pot := ⟨hg.dom_wf, hg.region_ok, hpot, hg.built.children_sub, hg.built.parents_dual⟩
  obtain ⟨h1, h2⟩ := Convex.initMessages_shape hgok hg.built.order_sound hg.built.order_complete hg.built.antisymm
  exact fun p hp c hc => ⟨h1 p hp c hc, h2.down_ok p hp c hc⟩

end PGM.OracleLaid
