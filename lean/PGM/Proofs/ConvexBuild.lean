import PGM.Proofs.ConvexFactor
import Mathlib.Data.List.Nodup
/-!
# The graph-level hypotheses of `Shape` hold for every graph produced by `RG.build`

`BuiltOK g` collects the purely combinatorial fields of `Shape` (children are sub-regions, parents
and children are dual, no repeated child or parent) and the facts about `messageOrder` that
`initMessages_shape` needs.  `build_ok` proves them — together with duplicate-freeness of the region
list and well-formedness of every region — for `RG.build cliques convex minimal`, for both values
of `convex` and of `minimal`, from the only assumption that every input clique is a duplicate-free
list of attributes of the domain.
-/
namespace PGM.Convex
open PGM PGM.JT PGM.RG
set_option linter.unusedSectionVars false
set_option linter.unusedVariables false

/-! ## list helpers -/

section dedup
variable {β : Type} [BEq β] [LawfulBEq β]

theorem mem_dedupStep (acc : List β) (x y : β) :
    y ∈ (if acc.contains x then acc else acc ++ [x]) ↔ y ∈ acc ∨ y = x := by
  by_cases h : acc.contains x = true
  · rw [if_pos h]
    constructor
    · exact Or.inl
    · rintro (h' | rfl)
      · exact h'
      · exact List.contains_iff_mem.mp h
  · rw [if_neg h]
    simp

theorem nodup_dedupStep (acc : List β) (x : β) (h : acc.Nodup) :
    (if acc.contains x then acc else acc ++ [x]).Nodup := by
  by_cases hc : acc.contains x = true
  · rw [if_pos hc]; exact h
  · rw [if_neg hc]
    have hx : x ∉ acc := fun hm => hc (List.contains_iff_mem.mpr hm)
    rw [List.nodup_append]
    refine ⟨h, by simp, ?_⟩
    intro a ha b hb hab
    have : b = x := by simpa using hb
    subst this
    subst hab
    exact hx ha

theorem foldl_dedup_mem (l acc : List β) (y : β) :
    y ∈ l.foldl (fun acc x => if acc.contains x then acc else acc ++ [x]) acc ↔ y ∈ acc ∨ y ∈ l := by
  induction l generalizing acc with
  | nil => simp
  | cons x xs ih =>
    rw [List.foldl_cons, ih, mem_dedupStep]
    simp only [List.mem_cons]
    tauto

theorem foldl_dedup_nodup (l acc : List β) (h : acc.Nodup) :
    (l.foldl (fun acc x => if acc.contains x then acc else acc ++ [x]) acc).Nodup := by
  induction l generalizing acc with
  | nil => exact h
  | cons x xs ih =>
    rw [List.foldl_cons]
    exact ih _ (nodup_dedupStep acc x h)

theorem mem_dedup (l : List β) (y : β) : y ∈ RG.dedup l ↔ y ∈ l := by
  unfold RG.dedup
  rw [foldl_dedup_mem]
  simp

theorem nodup_dedup (l : List β) : (RG.dedup l).Nodup := by
  unfold RG.dedup
  exact foldl_dedup_nodup l [] List.nodup_nil

end dedup

theorem mem_insertBy {β : Type} (key : β → Nat) (x y : β) (l : List β) :
    y ∈ Dom.insertBy key x l ↔ y = x ∨ y ∈ l := by
  induction l with
  | nil => simp [Dom.insertBy]
  | cons z zs ih =>
    unfold Dom.insertBy
    split
    · simp
    · simp only [List.mem_cons, ih]
      tauto

theorem mem_sortBy {β : Type} (key : β → Nat) (l : List β) (y : β) : y ∈ Dom.sortBy key l ↔ y ∈ l := by
  unfold Dom.sortBy
  have key' : ∀ (l acc : List β), y ∈ l.foldl (fun acc x => Dom.insertBy key x acc) acc ↔ y ∈ acc ∨ y ∈ l := by
    intro l
    induction l with
    | nil => intro acc; simp
    | cons x xs ih =>
      intro acc
      rw [List.foldl_cons, ih, mem_insertBy]
      simp only [List.mem_cons]
      tauto
  rw [key']
  simp

theorem look_map_self {β : Type} (l : List Region) (F : Region → List β) (r : Region) (hr : r ∈ l) :
    look (l.map (fun r => (r, F r))) r = F r := by
  unfold look
  induction l with
  | nil => simp at hr
  | cons x xs ih =>
    simp only [List.map_cons, List.lookup_cons]
    by_cases hx : r = x
    · subst hx; simp
    · have : (r == x) = false := by simpa using hx
      rw [this]
      rcases List.mem_cons.mp hr with h | h
      · exact absurd h hx
      · exact ih h

theorem subset_iff (a b : Clique) : JT.subset a b = true ↔ ∀ x ∈ a, x ∈ b := by
  simp [JT.subset, List.all_eq_true]

theorem mem_combos2 {β : Type} (l : List β) (p : β × β) (h : p ∈ GM.combos2 l) : p.1 ∈ l ∧ p.2 ∈ l := by
  induction l with
  | nil => simp [GM.combos2] at h
  | cons x xs ih =>
    simp only [GM.combos2, List.mem_append, List.mem_map] at h
    rcases h with ⟨y, hy, rfl⟩ | h
    · exact ⟨by simp, by simp [hy]⟩
    · obtain ⟨h1, h2⟩ := ih h
      exact ⟨List.mem_cons_of_mem _ h1, List.mem_cons_of_mem _ h2⟩

/-! ## graphs given by an edge list -/

/-- a duplicate-free list of edges between regions, each from a region to a strict sub-region -/
structure EdgesOK (regions : List Region) (edges : List Edge) : Prop where
  nodup : edges.Nodup
  src : ∀ e ∈ edges, e.1 ∈ regions
  dst : ∀ e ∈ edges, e.2 ∈ regions
  sub : ∀ e ∈ edges, ∀ a ∈ e.2, a ∈ e.1
  strict : ∀ e ∈ edges, ¬ ∀ a ∈ e.1, a ∈ e.2

/-- the combinatorial fields of `Shape`, and the facts about the message order -/
structure BuiltOK (g : RG.Graph) : Prop where
  children_sub : ∀ r ∈ g.regions, ∀ c ∈ look g.children r, c ∈ g.regions ∧ ∀ a ∈ c, a ∈ r
  parents_dual : ∀ r ∈ g.regions, ∀ p, p ∈ look g.parents r ↔ (p ∈ g.regions ∧ r ∈ look g.children p)
  children_nodup : ∀ r ∈ g.regions, (look g.children r).Nodup
  parents_nodup : ∀ r ∈ g.regions, (look g.parents r).Nodup
  order_sound : ∀ e ∈ g.messageOrder, e.1 ∈ g.regions ∧ e.2 ∈ look g.children e.1
  order_complete : ∀ p ∈ g.regions, ∀ c ∈ look g.children p, (p, c) ∈ g.messageOrder
  antisymm : ∀ p ∈ g.regions, ∀ c ∈ look g.children p, p ∉ look g.children c

theorem mem_childrenOf (regions : List Region) (edges : List Edge) (r c : Region) (hr : r ∈ regions) :
    c ∈ look (childrenOf regions edges) r ↔ (r, c) ∈ edges := by
  unfold childrenOf
  rw [look_map_self regions _ r hr]
  simp only [List.mem_map, List.mem_filter, beq_iff_eq]
  constructor
  · rintro ⟨e, ⟨he, h1⟩, h2⟩
    have : e = (r, c) := Prod.ext h1 h2
    rw [← this]; exact he
  · intro h
    exact ⟨(r, c), ⟨h, rfl⟩, rfl⟩

theorem mem_parentsOf (regions : List Region) (edges : List Edge) (r p : Region) (hr : r ∈ regions) :
    p ∈ look (parentsOf regions edges) r ↔ (p, r) ∈ edges := by
  unfold parentsOf
  rw [look_map_self regions _ r hr]
  simp only [List.mem_map, List.mem_filter, beq_iff_eq]
  constructor
  · rintro ⟨e, ⟨he, h1⟩, h2⟩
    have : e = (p, r) := Prod.ext h2 h1
    rw [← this]; exact he
  · intro h
    exact ⟨(p, r), ⟨h, rfl⟩, rfl⟩

theorem childrenOf_nodup (regions : List Region) (edges : List Edge) (r : Region) (hr : r ∈ regions)
    (hnd : edges.Nodup) : (look (childrenOf regions edges) r).Nodup := by
  unfold childrenOf
  rw [look_map_self regions _ r hr]
  apply nodup_map_of_inj_on _ _ (hnd.sublist List.filter_sublist)
  intro x hx y hy hxy
  have h1 : x.1 = r := by simpa using (List.mem_filter.mp hx).2
  have h2 : y.1 = r := by simpa using (List.mem_filter.mp hy).2
  exact Prod.ext (h1.trans h2.symm) hxy

theorem parentsOf_nodup (regions : List Region) (edges : List Edge) (r : Region) (hr : r ∈ regions)
    (hnd : edges.Nodup) : (look (parentsOf regions edges) r).Nodup := by
  unfold parentsOf
  rw [look_map_self regions _ r hr]
  apply nodup_map_of_inj_on _ _ (hnd.sublist List.filter_sublist)
  intro x hx y hy hxy
  have h1 : x.2 = r := by simpa using (List.mem_filter.mp hx).2
  have h2 : y.2 = r := by simpa using (List.mem_filter.mp hy).2
  exact Prod.ext hxy (h1.trans h2.symm)

theorem builtOK_of_edges (g : RG.Graph) (edges : List Edge) (hE : EdgesOK g.regions edges)
    (hc : g.children = childrenOf g.regions edges) (hp : g.parents = parentsOf g.regions edges)
    (ho : g.messageOrder = (sortByLen g.regions).flatMap
      (fun ru => (look g.children ru).map (fun rd => (ru, rd)))) : BuiltOK g := by
  have mc : ∀ r ∈ g.regions, ∀ c, c ∈ look g.children r ↔ (r, c) ∈ edges := by
    intro r hr c; rw [hc]; exact mem_childrenOf _ _ r c hr
  have mp : ∀ r ∈ g.regions, ∀ p, p ∈ look g.parents r ↔ (p, r) ∈ edges := by
    intro r hr p; rw [hp]; exact mem_parentsOf _ _ r p hr
  refine ⟨?_, ?_, ?_, ?_, ?_, ?_, ?_⟩
  · intro r hr c hcm
    have he := (mc r hr c).mp hcm
    exact ⟨hE.dst _ he, hE.sub _ he⟩
  · intro r hr p
    rw [mp r hr p]
    constructor
    · intro he
      have hpR := hE.src _ he
      exact ⟨hpR, (mc p hpR r).mpr he⟩
    · rintro ⟨hpR, hrc⟩
      exact (mc p hpR r).mp hrc
  · intro r hr; rw [hc]; exact childrenOf_nodup _ _ r hr hE.nodup
  · intro r hr; rw [hp]; exact parentsOf_nodup _ _ r hr hE.nodup
  · intro e he
    rw [ho] at he
    obtain ⟨ru, hru, hmem⟩ := List.mem_flatMap.mp he
    obtain ⟨rd, hrd, rfl⟩ := List.mem_map.mp hmem
    exact ⟨(mem_sortBy _ _ _).mp hru, hrd⟩
  · intro p hpR c hcm
    rw [ho]
    exact List.mem_flatMap.mpr ⟨p, (mem_sortBy _ _ _).mpr hpR, List.mem_map.mpr ⟨c, hcm, rfl⟩⟩
  · intro p hpR c hcm hpc
    have h1 := (mc p hpR c).mp hcm
    have hcR := hE.dst _ h1
    have h2 := (mc c hcR p).mp hpc
    exact hE.strict _ h1 (hE.sub _ h2)

/-! ## the cover edges -/

theorem mem_coverEdges (regions : List Region) (e : Edge) :
    e ∈ coverEdges regions ↔ e.1 ∈ regions ∧ e.2 ∈ regions ∧
      (ssubset e.2 e.1 && !regions.any (fun r3 => ssubset e.2 r3 && ssubset r3 e.1)) = true := by
  unfold coverEdges
  simp only [List.mem_flatMap, List.mem_filterMap]
  constructor
  · rintro ⟨r1, h1, r2, h2, h⟩
    split at h
    · rename_i hc
      have := Option.some.inj h
      subst this
      exact ⟨h1, h2, hc⟩
    · exact absurd h (by simp)
  · rintro ⟨h1, h2, hc⟩
    refine ⟨e.1, h1, e.2, h2, ?_⟩
    rw [if_pos hc]

theorem coverEdges_fst (regions : List Region) (P : Region → Region → Bool) (r1 : Region) (x : Edge)
    (h : x ∈ regions.filterMap (fun r2 => if P r1 r2 then some (r1, r2) else none)) : x.1 = r1 := by
  obtain ⟨r2, _, h2⟩ := List.mem_filterMap.mp h
  split at h2
  · have := Option.some.inj h2
    rw [← this]
  · exact absurd h2 (by simp)

theorem coverEdges_nodup (regions : List Region) (hnd : regions.Nodup) : (coverEdges regions).Nodup := by
  unfold coverEdges
  refine List.nodup_flatMap.2 ⟨?_, ?_⟩
  · intro r1 _
    refine List.Nodup.filterMap ?_ hnd
    intro a a' b hb hb'
    split at hb
    · split at hb'
      · have e1 := Option.some.inj (Option.mem_def.mp hb)
        have e2 := Option.some.inj (Option.mem_def.mp hb')
        rw [← e2] at e1
        exact (Prod.mk.inj e1).2
      · exact absurd (Option.mem_def.mp hb') (by simp)
    · exact absurd (Option.mem_def.mp hb) (by simp)
  · refine hnd.imp ?_
    intro a b hne x h1 h2
    have e1 := coverEdges_fst regions
      (fun r1 r2 => ssubset r2 r1 && !regions.any (fun r3 => ssubset r2 r3 && ssubset r3 r1)) a x h1
    have e2 := coverEdges_fst regions
      (fun r1 r2 => ssubset r2 r1 && !regions.any (fun r3 => ssubset r2 r3 && ssubset r3 r1)) b x h2
    exact hne (e1.symm.trans e2)

theorem coverEdges_ok (regions : List Region) (hnd : regions.Nodup) :
    EdgesOK regions (coverEdges regions) := by
  refine ⟨coverEdges_nodup regions hnd, ?_, ?_, ?_, ?_⟩
  · intro e he; exact ((mem_coverEdges regions e).mp he).1
  · intro e he; exact ((mem_coverEdges regions e).mp he).2.1
  · intro e he
    have h := ((mem_coverEdges regions e).mp he).2.2
    simp only [ssubset, Bool.and_eq_true] at h
    exact (subset_iff _ _).mp h.1.1
  · intro e he
    have h := ((mem_coverEdges regions e).mp he).2.2
    simp only [ssubset, Bool.and_eq_true, Bool.not_eq_true'] at h
    intro hall
    have := (subset_iff _ _).mpr hall
    rw [h.1.2] at this
    exact absurd this (by simp)

/-! ## the pruned (`minimal`) edges are cover edges -/

theorem mem_edgesOf (regions : List Region) (raw : List Edge) (e : Edge) :
    e ∈ edgesOf regions raw ↔ e.1 ∈ regions ∧ e ∈ raw := by
  unfold edgesOf
  simp only [List.mem_flatMap, mem_dedup, List.mem_filter, beq_iff_eq]
  constructor
  · rintro ⟨u, hu, he, h1⟩
    exact ⟨h1 ▸ hu, he⟩
  · rintro ⟨h1, h2⟩
    exact ⟨e.1, h1, h2, rfl⟩

theorem edgesOf_nodup (regions : List Region) (raw : List Edge) (hnd : regions.Nodup) :
    (edgesOf regions raw).Nodup := by
  unfold edgesOf
  refine List.nodup_flatMap.2 ⟨fun u _ => nodup_dedup _, ?_⟩
  refine hnd.imp ?_
  intro a b hne x h1 h2
  have e1 : x.1 = a := by simpa using (List.mem_filter.mp ((mem_dedup _ _).mp h1)).2
  have e2 : x.1 = b := by simpa using (List.mem_filter.mp ((mem_dedup _ _).mp h2)).2
  exact hne (e1.symm.trans e2)

theorem edgesOf_ok (regions : List Region) (raw : List Edge) (hnd : regions.Nodup)
    (hraw : ∀ e ∈ raw, e ∈ coverEdges regions) : EdgesOK regions (edgesOf regions raw) := by
  have hc := coverEdges_ok regions hnd
  have hin : ∀ e ∈ edgesOf regions raw, e ∈ coverEdges regions :=
    fun e he => hraw e ((mem_edgesOf regions raw e).mp he).2
  exact ⟨edgesOf_nodup regions raw hnd, fun e he => hc.src e (hin e he), fun e he => hc.dst e (hin e he),
    fun e he => hc.sub e (hin e he), fun e he => hc.strict e (hin e he)⟩

/-! ### the disjoint-set forest only ever stores the parents it was given -/

/-- every key and every pointer of the forest is one of `ps` -/
def DSInv (ps : List Region) (ds : DS) : Prop := ∀ kv ∈ ds.data, kv.1 ∈ ps ∧ kv.2 ∈ ps

theorem lookup_some_mem {κ β : Type} [BEq κ] [LawfulBEq κ] (l : List (κ × β)) (k : κ) (v : β)
    (h : l.lookup k = some v) : (k, v) ∈ l := by
  induction l with
  | nil => simp at h
  | cons p l ih =>
    obtain ⟨a, b⟩ := p
    simp only [List.lookup_cons] at h
    by_cases hk : k = a
    · subst hk
      simp only [beq_self_eq_true] at h
      have := Option.some.inj h
      subst this
      exact List.mem_cons_self
    · have e : (k == a) = false := by simpa using hk
      rw [e] at h
      exact List.mem_cons_of_mem _ (ih h)

theorem DS.get_mem (ps : List Region) (ds : DS) (hinv : DSInv ps ds) (x : Region) (hx : x ∈ ps) :
    ds.get x ∈ ps := by
  unfold DS.get
  cases h : ds.data.lookup x with
  | none => exact hx
  | some v => exact (hinv _ (lookup_some_mem _ _ _ h)).2

theorem DS.go_mem (ps : List Region) (ds : DS) (hinv : DSInv ps ds) (fuel : Nat) (x : Region)
    (hx : x ∈ ps) : DS.find.go ds fuel x ∈ ps := by
  induction fuel generalizing x with
  | zero => unfold DS.find.go; exact hx
  | succ n ih =>
    unfold DS.find.go
    simp only
    split
    · exact hx
    · exact ih _ (DS.get_mem ps ds hinv x hx)

theorem DS.find_mem (ps : List Region) (ds : DS) (hinv : DSInv ps ds) (x : Region) (hx : x ∈ ps) :
    ds.find x ∈ ps := DS.go_mem ps ds hinv _ x hx

theorem DS.touch_inv (ps : List Region) (ds : DS) (hinv : DSInv ps ds) (x : Region) (hx : x ∈ ps) :
    DSInv ps (ds.touch x) := by
  unfold DS.touch
  split
  · exact hinv
  · intro kv hkv
    rcases List.mem_append.mp hkv with h | h
    · exact hinv kv h
    · have : kv = (x, x) := by simpa using h
      subst this
      exact ⟨hx, hx⟩

theorem DS.union_inv (ps : List Region) (ds : DS) (hinv : DSInv ps ds) (x y : Region) (hx : x ∈ ps)
    (hy : y ∈ ps) : DSInv ps (ds.union x y) := by
  have h2 := DS.touch_inv ps _ (DS.touch_inv ps ds hinv x hx) y hy
  unfold DS.union
  simp only
  split
  · intro kv hkv
    obtain ⟨p, hp, rfl⟩ := List.mem_map.mp hkv
    split
    · exact ⟨DS.find_mem ps _ h2 x hx, DS.find_mem ps _ h2 y hy⟩
    · exact h2 p hp
  · exact h2

theorem foldl_inv_mem {α γ : Type} (P : γ → Prop) (l : List α) (f : γ → α → γ) (init : γ) (h0 : P init)
    (hstep : ∀ m, ∀ a ∈ l, P m → P (f m a)) : P (l.foldl f init) := by
  induction l generalizing init with
  | nil => exact h0
  | cons a l ih =>
    rw [List.foldl_cons]
    exact ih _ (hstep init a List.mem_cons_self h0) (fun m b hb => hstep m b (List.mem_cons_of_mem _ hb))

theorem mem_minEdges (regions : List Region) (parents0 ancestors : List (Region × List Region)) (e : Edge)
    (he : e ∈ minEdges regions parents0 ancestors) : e.2 ∈ regions ∧ e.1 ∈ look parents0 e.2 := by
  unfold minEdges at he
  obtain ⟨r, hr, hmem⟩ := List.mem_flatMap.mp he
  simp only at hmem
  obtain ⟨u, hu, rfl⟩ := List.mem_map.mp hmem
  refine ⟨hr, ?_⟩
  rw [mem_dedup] at hu
  obtain ⟨x, hx, rfl⟩ := List.mem_map.mp hu
  apply DS.find_mem (look parents0 r) _ _ x hx
  apply foldl_inv_mem (DSInv (look parents0 r))
  · apply foldl_inv_mem (DSInv (look parents0 r))
    · intro kv hkv
      exact absurd hkv (by simp)
    · intro m a ha hm
      exact DS.touch_inv _ m hm a ha
  · intro m uv huv hm
    obtain ⟨h1, h2⟩ := mem_combos2 _ uv huv
    split
    · exact DS.union_inv _ m hm _ _ h1 h2
    · exact hm

/-! ## `buildOn` -/

theorem buildOn_ok (regions : List Region) (convex minimal : Bool) (hnd : regions.Nodup) :
    BuiltOK (buildOn regions convex minimal) := by
  cases minimal with
  | false =>
    exact builtOK_of_edges (buildOn regions convex false) (coverEdges regions)
      (coverEdges_ok regions hnd) rfl rfl rfl
  | true =>
    refine builtOK_of_edges (buildOn regions convex true)
      (edgesOf regions (minEdges regions (parentsOf regions (coverEdges regions))
        (closureOf regions (parentsOf regions (coverEdges regions)))))
      (edgesOf_ok regions _ hnd ?_) rfl rfl rfl
    intro e he
    obtain ⟨h1, h2⟩ := mem_minEdges _ _ _ e he
    exact (mem_parentsOf regions (coverEdges regions) e.2 e.1 h1).mp h2

/-! ## the closure of the clique set -/

theorem insertStr_perm (x : String) (l : List String) (hx : x ∉ l) : (insertStr x l).Perm (x :: l) := by
  induction l with
  | nil => exact List.Perm.refl _
  | cons y ys ih =>
    unfold insertStr
    split
    · exact List.Perm.refl _
    · split
      · rename_i _ hxy
        have : x = y := by simpa using hxy
        exact absurd (this ▸ List.mem_cons_self) hx
      · have hx' : x ∉ ys := fun h => hx (List.mem_cons_of_mem _ h)
        exact ((ih hx').cons y).trans (List.Perm.swap x y ys)

theorem foldl_insertStr_perm (l acc : List String) (h : (acc ++ l).Nodup) :
    (l.foldl (fun acc x => insertStr x acc) acc).Perm (acc ++ l) := by
  induction l generalizing acc with
  | nil => simp
  | cons x xs ih =>
    rw [List.foldl_cons]
    have hx : x ∉ acc := by
      intro hm
      rw [List.nodup_append] at h
      exact h.2.2 x hm x List.mem_cons_self rfl
    have hp := insertStr_perm x acc hx
    have hp2 : (insertStr x acc ++ xs).Perm (acc ++ x :: xs) :=
      (hp.append_right xs).trans (by simpa using (List.perm_middle (l₁ := acc) (a := x) (l₂ := xs)).symm)
    exact (ih _ (hp2.symm.nodup h)).trans hp2

theorem sortedInter_perm (r1 r2 : Region) (h1 : r1.Nodup) : (sortedInter r1 r2).Perm (JT.inter r1 r2) := by
  unfold sortedInter
  have hn : (JT.inter r1 r2).Nodup := h1.sublist List.filter_sublist
  have := foldl_insertStr_perm (JT.inter r1 r2) [] (by simpa using hn)
  simpa using this

theorem sortedInter_regOK (dom : Dom) (r1 r2 : Region) (h1 : RegOK dom r1) :
    RegOK dom (sortedInter r1 r2) := by
  have hp := sortedInter_perm r1 r2 h1.1
  refine ⟨hp.symm.nodup (h1.1.sublist List.filter_sublist), ?_⟩
  intro a ha
  have : a ∈ JT.inter r1 r2 := hp.mem_iff.mp ha
  exact h1.2 a (List.mem_filter.mp this).1

/-- a duplicate-free list of well-formed regions -/
def RegsOK (dom : Dom) (rs : List Region) : Prop := rs.Nodup ∧ ∀ r ∈ rs, RegOK dom r

theorem closeStep_ok (dom : Dom) (rs : List Region) (h : RegsOK dom rs) : RegsOK dom (closeStep rs) := by
  unfold closeStep
  apply foldl_inv_mem (RegsOK dom)
  · exact h
  · intro acc p hp hacc
    simp only
    split
    · rename_i hc
      simp only [Bool.and_eq_true, Bool.not_eq_true', decide_eq_true_eq] at hc
      have hz : sortedInter p.1 p.2 ∉ acc := fun hm => by
        have := List.contains_iff_mem.mpr hm
        rw [hc.2] at this
        exact absurd this (by simp)
      refine ⟨?_, ?_⟩
      · rw [List.nodup_append]
        refine ⟨hacc.1, by simp, ?_⟩
        intro a ha b hb hab
        have : b = sortedInter p.1 p.2 := by simpa using hb
        subst this
        subst hab
        exact hz ha
      · intro r hr
        rcases List.mem_append.mp hr with h' | h'
        · exact hacc.2 r h'
        · have : r = sortedInter p.1 p.2 := by simpa using h'
          subst this
          exact sortedInter_regOK dom _ _ (h.2 _ (mem_combos2 rs p hp).1)
    · exact hacc

theorem closeLoop_ok (dom : Dom) (fuel : Nat) (rs : List Region) (h : RegsOK dom rs) :
    RegsOK dom (closeLoop fuel rs) := by
  induction fuel generalizing rs with
  | zero => exact h
  | succ n ih =>
    unfold closeLoop
    simp only
    split
    · exact ih _ (closeStep_ok dom rs h)
    · exact closeStep_ok dom rs h

theorem closure_ok (dom : Dom) (cliques : List Region) (h : ∀ c ∈ cliques, RegOK dom c) :
    RegsOK dom (RG.closure cliques) := by
  unfold RG.closure
  exact closeLoop_ok dom _ _ ⟨nodup_dedup _, fun r hr => h r ((mem_dedup _ _).mp hr)⟩

theorem initCliques_sub (cliques : List Region) (convex : Bool) :
    ∀ c ∈ initCliques cliques convex, c ∈ cliques := by
  intro c hc
  unfold initCliques at hc
  split at hc
  · exact hc
  · exact (List.mem_filter.mp hc).1

/-- **every graph produced by `RG.build` satisfies the graph-level hypotheses of `Shape`** -/
theorem build_ok (dom : Dom) (cliques : List Region) (convex minimal : Bool)
    (hcl : ∀ c ∈ cliques, RegOK dom c) :
    (RG.build cliques convex minimal).regions.Nodup ∧
    (∀ r ∈ (RG.build cliques convex minimal).regions, RegOK dom r) ∧
    BuiltOK (RG.build cliques convex minimal) := by
  have h := closure_ok dom (initCliques cliques convex)
    (fun c hc => hcl c (initCliques_sub cliques convex c hc))
  exact ⟨h.1, h.2, buildOn_ok _ convex minimal h.1⟩

end PGM.Convex
