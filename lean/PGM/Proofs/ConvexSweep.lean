import PGM.Proofs.ConvexFactor
/-!
# One sweep of `hazan_peng_shashua`, structurally

* `hpsSweep_snd` / `hpsSweep_fst`: the two components of `hpsSweep` as named pieces;
* `beliefsOf_eq_map`: on a duplicate-free region list the belief dictionary is a `map`;
* `sweep_keyOn`: a sweep keeps every message (both directions) a well-formed table laid out on the
  child region of its edge.
-/
namespace PGM.Convex
open PGM PGM.JT PGM.RG PGM.Sem
open PGM.GM (dictSet)
set_option linter.unusedSectionVars false
set_option linter.unusedVariables false

/-! ## the pieces of `hpsSweep` -/

noncomputable def beliefsOf (g : RG.Graph) (pot : Region → Factor ℝ) (c0 : Region → ℝ) (T : ℝ) (m : Msgs ℝ) :
    CliqueVec ℝ :=
  g.regions.foldl (fun (mu : CliqueVec ℝ) r =>
    mu.set r (normalise T ((thetaTilde g pot m r).divScalar (c0 r)))) []

noncomputable def downMsg (g : RG.Graph) (pot : Region → Factor ℝ) (c0 : Region → ℝ) (msgs : Msgs ℝ)
    (p r : Region) : Factor ℝ :=
  let s1 := pySum (((look g.children p).filter (fun c => c != r)).map (fun c => msgs.get (c, p)))
  let s2 := pySum ((look g.parents p).map (fun p1 => msgs.get (p, p1)))
  let m := (subSum (addSum (pot p) s1) s2).divScalar (c0 p)
  let m := Factor.mulScalar (c0 p) (m.logsumexp (diff p r))
  m.subScalar m.logsumexpAll

noncomputable def upMsg (g : RG.Graph) (pot : Region → Factor ℝ) (c0 : Region → ℝ) (msgs : Msgs ℝ)
    (p r : Region) : Factor ℝ :=
  let s1 := pySum ((look g.children r).map (fun c => msgs.get (c, r)))
  let s2 := pySum ((look g.parents r).map (fun p1 => msgs.get (p1, r)))
  let m := (Factor.mulScalar (ccOf g c0 p r) (addSum (addSum (pot r) s1) s2)).sub (msgs.get (p, r))
  m.subScalar m.logsumexpAll

noncomputable def damp (rho : ℝ) (a b : Factor ℝ) : Factor ℝ :=
  (Factor.mulScalar rho a).add (Factor.mulScalar (Scalar.sub Scalar.one rho) b)

noncomputable def downDict (g : RG.Graph) (pot : Region → Factor ℝ) (c0 : Region → ℝ) (msgs : Msgs ℝ) :
    Msgs ℝ :=
  g.regions.foldl (fun (new : Msgs ℝ) r =>
    (look g.parents r).foldl (fun (new : Msgs ℝ) p =>
      dictSet new (p, r) (downMsg g pot c0 msgs p r)) new) []

noncomputable def newDict (g : RG.Graph) (pot : Region → Factor ℝ) (c0 : Region → ℝ) (msgs : Msgs ℝ) :
    Msgs ℝ :=
  g.regions.foldl (fun (new : Msgs ℝ) r =>
    (look g.parents r).foldl (fun (new : Msgs ℝ) p =>
      dictSet new (r, p) (upMsg g pot c0 msgs p r)) new) (downDict g pot c0 msgs)

noncomputable def dampStep (rho : ℝ) (new : Msgs ℝ) (msgs : Msgs ℝ) (p r : Region) : Msgs ℝ :=
  let msgs : Msgs ℝ := dictSet msgs (p, r) (damp rho (msgs.get (p, r)) (Msgs.get new (p, r)))
  dictSet msgs (r, p) (damp rho (msgs.get (r, p)) (Msgs.get new (r, p)))

noncomputable def sweepMsgs (g : RG.Graph) (pot : Region → Factor ℝ) (c0 : Region → ℝ) (rho : ℝ)
    (msgs : Msgs ℝ) : Msgs ℝ :=
  g.regions.foldl (fun (acc : Msgs ℝ) p =>
    (look g.children p).foldl (fun (acc : Msgs ℝ) r =>
      dampStep rho (newDict g pot c0 msgs) acc p r) acc) msgs

theorem hpsSweep_fst (g : RG.Graph) (pot : Region → Factor ℝ) (c0 : Region → ℝ) (T rho : ℝ) (msgs : Msgs ℝ) :
    (hpsSweep g pot c0 T rho msgs).1 = sweepMsgs g pot c0 rho msgs := rfl

theorem hpsSweep_snd (g : RG.Graph) (pot : Region → Factor ℝ) (c0 : Region → ℝ) (T rho : ℝ) (msgs : Msgs ℝ) :
    (hpsSweep g pot c0 T rho msgs).2 = beliefsOf g pot c0 T (hpsSweep g pot c0 T rho msgs).1 := rfl

/-! ## the belief dictionary -/

theorem any_key_false (cv : CliqueVec ℝ) (r : Region) (h : r ∉ cv.map Prod.fst) :
    cv.any (fun p => p.1 == r) = false := by
  rw [Bool.eq_false_iff]
  intro h'
  obtain ⟨p, hp, hpr⟩ := List.any_eq_true.mp h'
  apply h
  have : p.1 = r := by simpa using hpr
  rw [← this]
  exact List.mem_map_of_mem hp

theorem foldl_set_nodup (l : List Region) (F : Region → Factor ℝ) (acc : CliqueVec ℝ) (hnd : l.Nodup)
    (hdis : ∀ r ∈ l, r ∉ acc.map Prod.fst) :
    l.foldl (fun (mu : CliqueVec ℝ) r => mu.set r (F r)) acc = acc ++ l.map (fun r => (r, F r)) := by
  induction l generalizing acc with
  | nil => simp
  | cons x xs ih =>
    obtain ⟨hx, hxs⟩ := List.nodup_cons.mp hnd
    rw [List.foldl_cons]
    have h1 : acc.set x (F x) = acc ++ [(x, F x)] := by
      unfold CliqueVec.set
      rw [any_key_false acc x (hdis x List.mem_cons_self)]
      simp
    rw [h1, ih _ hxs]
    · simp
    · intro r hr
      simp only [List.map_append, List.map_cons, List.map_nil, List.mem_append, List.mem_singleton, not_or]
      exact ⟨hdis r (List.mem_cons_of_mem _ hr), fun h => hx (h ▸ hr)⟩

theorem beliefsOf_eq_map (g : RG.Graph) (pot : Region → Factor ℝ) (c0 : Region → ℝ) (T : ℝ) (m : Msgs ℝ)
    (hnd : g.regions.Nodup) :
    beliefsOf g pot c0 T m
      = g.regions.map (fun r => (r, normalise T ((thetaTilde g pot m r).divScalar (c0 r)))) := by
  unfold beliefsOf
  rw [foldl_set_nodup g.regions _ [] hnd (by simp)]
  simp

theorem normalise_data (T : ℝ) (b : Factor ℝ) :
    (normalise T b).vals.data = b.vals.data.map (fun v =>
      Real.exp (v + (Real.log T + -Real.log ((b.vals.data.toList.map Real.exp).sum)))) := by
  show (b.vals.data.map _).map _ = _
  rw [Array.map_map]
  rfl

theorem divScalar_one_data (x : Factor ℝ) : (x.divScalar 1).vals.data = x.vals.data := by
  show x.vals.data.map (fun v => Scalar.nanToNum (Scalar.div v (1 : ℝ))) = _
  have : (fun v : ℝ => Scalar.nanToNum (Scalar.div v (1 : ℝ))) = id := by
    funext v
    show v / 1 = v
    simp
  rw [this, Array.map_id]

theorem normalise_divScalar_one (T : ℝ) (x : Factor ℝ) :
    (normalise T (x.divScalar 1)).datavector = (normalise T x).datavector := by
  unfold Factor.datavector
  rw [normalise_data, normalise_data, divScalar_one_data]

/-! ## dictionaries -/

theorem lookup_none_of_any_false {κ β : Type} [BEq κ] [LawfulBEq κ] (d : List (κ × β)) (k : κ)
    (h : d.any (fun p => p.1 == k) = false) : d.lookup k = none := by
  induction d with
  | nil => rfl
  | cons p d ih =>
    obtain ⟨a, b⟩ := p
    simp only [List.any_cons, Bool.or_eq_false_iff] at h
    have : (k == a) = false := by
      have := h.1
      simp only [beq_eq_false_iff_ne, ne_eq] at this ⊢
      exact fun e => this e.symm
    simp only [List.lookup_cons, this]
    exact ih h.2

theorem lookup_map_set {κ β : Type} [BEq κ] [LawfulBEq κ] (d : List (κ × β)) (k k' : κ) (v : β) :
    (d.map (fun p => if p.1 == k then (k, v) else p)).lookup k'
      = if k' == k then (if d.any (fun p => p.1 == k) then some v else none) else d.lookup k' := by
  induction d with
  | nil => simp
  | cons p d ih =>
    obtain ⟨a, b⟩ := p
    simp only [List.map_cons, List.any_cons]
    by_cases hak : a = k
    · subst hak
      by_cases hk : k' = a
      · subst hk; simp
      · have e2 : (k' == a) = false := by simpa using hk
        simp [List.lookup_cons, e2, ih]
    · have e1 : (a == k) = false := by simpa using hak
      by_cases hk' : k' = a
      · subst hk'; simp [e1]
      · have e2 : (k' == a) = false := by simpa using hk'
        simp only [List.lookup_cons, e1, e2, Bool.false_or, Bool.false_eq_true, if_false]
        exact ih

theorem lookup_dictSet {κ β : Type} [BEq κ] [LawfulBEq κ] (d : List (κ × β)) (k k' : κ) (v : β) :
    (dictSet d k v).lookup k' = if k' == k then some v else d.lookup k' := by
  unfold dictSet
  by_cases h : d.any (fun p => p.1 == k) = true
  · rw [if_pos h, lookup_map_set, h]
    simp
  · have h' : d.any (fun p => p.1 == k) = false := by simpa only [Bool.not_eq_true] using h
    rw [if_neg h, List.lookup_append]
    by_cases hk : k' = k
    · subst hk
      rw [lookup_none_of_any_false d k' h']
      simp
    · have e2 : (k' == k) = false := by simpa using hk
      simp [List.lookup_cons, e2]

theorem get_dictSet (m : Msgs ℝ) (k k' : Edge) (v : Factor ℝ) :
    Msgs.get (dictSet m k v) k' = if k' = k then v else m.get k' := by
  unfold Msgs.get
  rw [lookup_dictSet]
  by_cases h : k' = k
  · subst h; simp
  · have : (k' == k) = false := by simpa using h
    simp [this, h]

/-- a key-indexed property of all entries survives a write that satisfies it -/
theorem get_dictSet_inv (P : Edge → Factor ℝ → Prop) (m : Msgs ℝ) (k : Edge) (v : Factor ℝ)
    (hm : ∀ e, P e (m.get e)) (hv : P k v) : ∀ e, P e (Msgs.get (dictSet m k v) e) := by
  intro e
  rw [get_dictSet]
  by_cases h : e = k
  · rw [if_pos h, h]; exact hv
  · rw [if_neg h]; exact hm e

/-- invariants of a doubly nested fold -/
theorem foldl2_inv {α β γ : Type} (P : γ → Prop) (outer : List α) (inner : α → List β)
    (step : γ → α → β → γ) (init : γ) (h0 : P init)
    (hstep : ∀ m a b, a ∈ outer → b ∈ inner a → P m → P (step m a b)) :
    P (outer.foldl (fun m a => (inner a).foldl (fun m b => step m a b) m) init) := by
  have hin : ∀ (a : α) (l : List β) (m : γ), a ∈ outer → (∀ b ∈ l, b ∈ inner a) → P m →
      P (l.foldl (fun m b => step m a b) m) := by
    intro a l
    induction l with
    | nil => intro m _ _ hm; exact hm
    | cons b l ih =>
      intro m ha hl hm
      rw [List.foldl_cons]
      exact ih _ ha (fun b' hb' => hl b' (List.mem_cons_of_mem _ hb'))
        (hstep m a b ha (hl b List.mem_cons_self) hm)
  have hout : ∀ (l : List α) (m : γ), (∀ a ∈ l, a ∈ outer) → P m →
      P (l.foldl (fun m a => (inner a).foldl (fun m b => step m a b) m) m) := by
    intro l
    induction l with
    | nil => intro m _ hm; exact hm
    | cons a l ih =>
      intro m hl hm
      rw [List.foldl_cons]
      exact ih _ (fun a' ha' => hl a' (List.mem_cons_of_mem _ ha'))
        (hin a (inner a) m (hl a List.mem_cons_self) (fun b hb => hb) hm)
  exact hout outer init (fun a ha => ha) h0

/-! ## shapes of the messages -/

/-- the graph-level part of `Shape` that the sweep needs -/
structure GraphOK (dom : Dom) (g : RG.Graph) (pot : Region → Factor ℝ) : Prop where
  dom_wf : dom.WF
  region_ok : ∀ r ∈ g.regions, RegOK dom r
  pot_ok : ∀ r ∈ g.regions, On dom r (pot r)
  children_sub : ∀ r ∈ g.regions, ∀ c ∈ look g.children r, c ∈ g.regions ∧ ∀ a ∈ c, a ∈ r
  parents_dual : ∀ r ∈ g.regions, ∀ p, p ∈ look g.parents r ↔ (p ∈ g.regions ∧ r ∈ look g.children p)

/-- every edge that `k` names (in either direction) sees `f` as a table inside its child region -/
def KeySub (dom : Dom) (g : RG.Graph) (k : Edge) (f : Factor ℝ) : Prop :=
  ∀ p ∈ g.regions, ∀ c ∈ look g.children p, (k = (p, c) ∨ k = (c, p)) → Sub dom c f

/-- every edge that `k` names (in either direction) sees `f` as a table exactly on its child region -/
def KeyOn (dom : Dom) (g : RG.Graph) (k : Edge) (f : Factor ℝ) : Prop :=
  ∀ p ∈ g.regions, ∀ c ∈ look g.children p, (k = (p, c) ∨ k = (c, p)) → On dom c f

theorem mem_dedup_of_mem {β : Type} [BEq β] [LawfulBEq β] (l : List β) (x : β) (h : x ∈ l) :
    x ∈ RG.dedup l := by
  unfold RG.dedup
  have key : ∀ (l acc : List β), x ∈ acc ∨ x ∈ l →
      x ∈ l.foldl (fun acc x => if acc.contains x then acc else acc ++ [x]) acc := by
    intro l
    induction l with
    | nil => intro acc h; simpa using h
    | cons y ys ih =>
      intro acc h
      rw [List.foldl_cons]
      apply ih
      rcases h with h | h
      · left
        split
        · exact h
        · exact List.mem_append_left _ h
      · rcases List.mem_cons.mp h with rfl | h
        · left
          split
          · rename_i hc; exact List.contains_iff_mem.mp hc
          · simp
        · right; exact h
  exact key l [] (Or.inr h)

section sweep
variable {dom : Dom} {g : RG.Graph} {pot : Region → Factor ℝ}

theorem mulScalar_sub {r : Region} (c : ℝ) {f : Factor ℝ} (h : Sub dom r f) :
    Sub dom r (Factor.mulScalar c f) := mapVals_sub _ h
theorem mulScalar_on {r : Region} (c : ℝ) {f : Factor ℝ} (h : On dom r f) :
    On dom r (Factor.mulScalar c f) := mapVals_on _ h
theorem subScalar_sub {r : Region} (c : ℝ) {f : Factor ℝ} (h : Sub dom r f) :
    Sub dom r (f.subScalar c) := mapVals_sub _ h
theorem subScalar_on {r : Region} (c : ℝ) {f : Factor ℝ} (h : On dom r f) :
    On dom r (f.subScalar c) := mapVals_on _ h
theorem divScalar_on {r : Region} (c : ℝ) {f : Factor ℝ} (h : On dom r f) :
    On dom r (f.divScalar c) := mapVals_on _ h

/-- the damped combination keeps the layout of the old message -/
theorem damp_on {r : Region} (hr : RegOK dom r) (rho : ℝ) {a b : Factor ℝ} (ha : On dom r a)
    (hb : Sub dom r b) : On dom r (damp rho a b) :=
  binop_on _ hr (mulScalar_on _ ha) (mulScalar_sub _ hb)

/-- the messages into and out of `r` that `θ̃_r` reads are tables inside `r` -/
theorem theta_hyps (hg : GraphOK dom g pot) {msgs : Msgs ℝ} (hm : ∀ k, KeySub dom g k (msgs.get k))
    {r : Region} (hr : r ∈ g.regions) :
    (∀ c ∈ look g.children r, Sub dom r (msgs.get (c, r))) ∧
    (∀ p ∈ look g.parents r, Sub dom r (msgs.get (r, p))) ∧
    (∀ p ∈ look g.parents r, Sub dom r (msgs.get (p, r))) := by
  refine ⟨?_, ?_, ?_⟩
  · intro c hc
    exact (hm (c, r) r hr c hc (Or.inr rfl)).mono (hg.children_sub r hr c hc).2
  · intro p hp
    obtain ⟨hpR, hrc⟩ := (hg.parents_dual r hr p).mp hp
    exact hm (r, p) p hpR r hrc (Or.inr rfl)
  · intro p hp
    obtain ⟨hpR, hrc⟩ := (hg.parents_dual r hr p).mp hp
    exact hm (p, r) p hpR r hrc (Or.inl rfl)

theorem downMsg_sub (hg : GraphOK dom g pot) (c0 : Region → ℝ) {msgs : Msgs ℝ}
    (hm : ∀ k, KeySub dom g k (msgs.get k)) {p r : Region} (hp : p ∈ g.regions) :
    Sub dom p (downMsg g pot c0 msgs p r) ∧ ∀ a ∈ (downMsg g pot c0 msgs p r).dom.attrs, a ∈ r := by
  obtain ⟨h1, h2, _⟩ := theta_hyps hg hm hp
  have hx := (theta_ok hg.dom_wf (hg.region_ok p hp) (pot p)
    (((look g.children p).filter (fun c => c != r)).map (fun c => msgs.get (c, p)))
    ((look g.parents p).map (fun p1 => msgs.get (p, p1))) (hg.pot_ok p hp)
    (by
      intro f hf
      obtain ⟨c, hc, rfl⟩ := List.mem_map.mp hf
      exact h1 c (List.mem_filter.mp hc).1)
    (by
      intro f hf
      obtain ⟨p1, hp1, rfl⟩ := List.mem_map.mp hf
      exact h2 p1 hp1)).1
  have hy := divScalar_on (c0 p) hx
  have hz : FactorOK dom (Factor.reduce Scalar.lse
      ((subSum (addSum (pot p) (pySum (((look g.children p).filter (fun c => c != r)).map
        (fun c => msgs.get (c, p))))) (pySum ((look g.parents p).map (fun p1 => msgs.get (p, p1))))).divScalar
        (c0 p)) (diff p r)) := FactorOK.reduce _ _ (hy.factorOK (hg.region_ok p hp))
  have hattr : ∀ a ∈ (Factor.reduce Scalar.lse
      ((subSum (addSum (pot p) (pySum (((look g.children p).filter (fun c => c != r)).map
        (fun c => msgs.get (c, p))))) (pySum ((look g.parents p).map (fun p1 => msgs.get (p, p1))))).divScalar
        (c0 p)) (diff p r)).dom.attrs, a ∈ p ∧ a ∈ r := by
    intro a ha
    obtain ⟨ha1, ha2⟩ := (reduce_mem_attrs _ _ _ a).mp ha
    rw [hy.attrs] at ha1
    refine ⟨ha1, ?_⟩
    by_contra har
    apply ha2
    unfold diff
    apply mem_dedup_of_mem
    exact List.mem_filter.mpr ⟨ha1, by simpa using har⟩
  have hw : Sub dom p (Factor.reduce Scalar.lse _ (diff p r)) := ⟨hz, fun a ha => (hattr a ha).1⟩
  refine ⟨subScalar_sub _ (mulScalar_sub _ hw), ?_⟩
  intro a ha
  exact (hattr a ha).2

theorem upMsg_on (hg : GraphOK dom g pot) (c0 : Region → ℝ) {msgs : Msgs ℝ}
    (hm : ∀ k, KeySub dom g k (msgs.get k)) {p r : Region} (hr : r ∈ g.regions)
    (hp : p ∈ look g.parents r) : On dom r (upMsg g pot c0 msgs p r) := by
  obtain ⟨h1, _, h3⟩ := theta_hyps hg hm hr
  have hrk := hg.region_ok r hr
  have ha := (addSum_ok hg.dom_wf hrk (pot r) _ (hg.pot_ok r hr)
    (pySum_ok hg.dom_wf ((look g.children r).map (fun c => msgs.get (c, r))) (by
      intro f hf
      obtain ⟨c, hc, rfl⟩ := List.mem_map.mp hf
      exact h1 c hc)).1).1
  have hb := (addSum_ok hg.dom_wf hrk _ _ ha
    (pySum_ok hg.dom_wf ((look g.parents r).map (fun p1 => msgs.get (p1, r))) (by
      intro f hf
      obtain ⟨p1, hp1, rfl⟩ := List.mem_map.mp hf
      exact h3 p1 hp1)).1).1
  have hc := mulScalar_on (ccOf g c0 p r) hb
  have hd : Sub dom r (Factor.mk' (msgs.get (p, r)).dom ((msgs.get (p, r)).vals.map Factor.negInfAware)) :=
    mapVals_sub _ (h3 p hp)
  exact subScalar_on _ (binop_on Scalar.add hrk hc hd)

/-- every entry of the dictionary of new messages is a table inside the child region of its edge -/
theorem newDict_keySub (hg : GraphOK dom g pot) (c0 : Region → ℝ) {msgs : Msgs ℝ}
    (hm : ∀ k, KeySub dom g k (msgs.get k)) : ∀ k, KeySub dom g k ((newDict g pot c0 msgs).get k) := by
  have hdown : ∀ k, KeySub dom g k ((downDict g pot c0 msgs).get k) := by
    unfold downDict
    apply foldl2_inv (fun m : Msgs ℝ => ∀ k, KeySub dom g k (m.get k))
    · intro k p' _ c' _ _
      exact zeros_nil_sub dom c'
    · intro m r p hr hp hm'
      apply get_dictSet_inv (KeySub dom g) m _ _ hm'
      obtain ⟨hpR, hrc⟩ := (hg.parents_dual r hr p).mp hp
      obtain ⟨hs1, hs2⟩ := downMsg_sub hg c0 hm (r := r) hpR
      intro p' hp' c' hc' hk
      rcases hk with hk | hk
      · obtain ⟨rfl, rfl⟩ := Prod.mk.inj hk
        exact ⟨hs1.1, hs2⟩
      · obtain ⟨rfl, rfl⟩ := Prod.mk.inj hk
        exact hs1
  unfold newDict
  apply foldl2_inv (fun m : Msgs ℝ => ∀ k, KeySub dom g k (m.get k))
  · exact hdown
  · intro m r p hr hp hm'
    apply get_dictSet_inv (KeySub dom g) m _ _ hm'
    obtain ⟨hpR, hrc⟩ := (hg.parents_dual r hr p).mp hp
    have hon := upMsg_on hg c0 hm hr hp
    intro p' hp' c' hc' hk
    rcases hk with hk | hk
    · obtain ⟨rfl, rfl⟩ := Prod.mk.inj hk
      exact (hon.sub (hg.region_ok _ hr)).mono (hg.children_sub _ hpR _ hrc).2
    · obtain ⟨rfl, rfl⟩ := Prod.mk.inj hk
      exact hon.sub (hg.region_ok _ hr)

theorem KeyOn.keySub (hg : GraphOK dom g pot) {k : Edge} {f : Factor ℝ} (h : KeyOn dom g k f) :
    KeySub dom g k f := by
  intro p hp c hc hk
  exact (h p hp c hc hk).sub (hg.region_ok c (hg.children_sub p hp c hc).1)

/-- **a sweep preserves the layout of every message, in both directions** -/
theorem sweep_keyOn (hg : GraphOK dom g pot) (c0 : Region → ℝ) (rho : ℝ) {msgs : Msgs ℝ}
    (hm : ∀ k, KeyOn dom g k (msgs.get k)) :
    ∀ k, KeyOn dom g k ((sweepMsgs g pot c0 rho msgs).get k) := by
  have hnew := newDict_keySub hg c0 (fun k => (hm k).keySub hg)
  have hwrite : ∀ (m : Msgs ℝ) (k : Edge), (∀ e, KeyOn dom g e (m.get e)) →
      ∀ e, KeyOn dom g e (Msgs.get (dictSet m k
        (damp rho (m.get k) (Msgs.get (newDict g pot c0 msgs) k))) e) := by
    intro m k hm'
    apply get_dictSet_inv (KeyOn dom g) m _ _ hm'
    intro p hp c hc hk
    exact damp_on (hg.region_ok c (hg.children_sub p hp c hc).1) rho (hm' k p hp c hc hk)
      (hnew k p hp c hc hk)
  unfold sweepMsgs
  apply foldl2_inv (fun m : Msgs ℝ => ∀ k, KeyOn dom g k (m.get k))
  · exact hm
  · intro m p r _ _ hm'
    unfold dampStep
    exact hwrite _ _ (hwrite m _ hm')

end sweep

end PGM.Convex
