import PGM.Model.JTree
import PGM.Proofs.JTWeightEdges
/-!
# Weight characterisation of junction trees

For a tree over a family of cliques, `weight = Σ_edges |separator|` counts, attribute by attribute,
the tree edges both of whose end points contain the attribute.  Those edges form a forest on the
nodes containing the attribute, so there are at most `n_a − 1` of them, with equality exactly when
those nodes are connected among themselves (running intersection).  Consequently **every**
maximum-weight spanning tree is a junction tree as soon as *some* spanning tree is one — whatever
tie-breaking `networkx.minimum_spanning_tree` uses.
-/
namespace PGM.JT

/-- hypotheses shared by the three theorems: duplicate-free attribute universe covering the nodes,
duplicate-free nodes, `t` accepted by `isTree` -/
structure TreeHyp (attrs : List Attr) (t : Tree) : Prop where
  attrs_nodup : attrs.Nodup
  node_nodup : ∀ n ∈ t.nodes, n.Nodup
  node_sub : ∀ n ∈ t.nodes, ∀ a ∈ n, a ∈ attrs
  is_tree : isTree t = true

/-- per attribute: the tree edges inside `S_a` number at most `|S_a| − 1`, with equality iff `S_a`
is connected -/
theorem edgeCount_bound (t : Tree) (f : TreeFacts t) (a : Attr) :
    edgeCount t a ≤ (t.nodes.filter (fun n => n.contains a)).length - 1 ∧
    (edgeCount t a = (t.nodes.filter (fun n => n.contains a)).length - 1 ↔
      connectedWithin t (t.nodes.filter (fun n => n.contains a)) = true) := by
  have hec : edgeCount t a = (inside (t.nodes.filter (fun n => n.contains a)) t.edges).length := by
    unfold edgeCount inside
    congr 1
    apply List.filter_congr
    intro e he
    have := f.ends e he
    simp [this.1, this.2.1]
  rw [hec]
  by_cases hne : t.nodes.filter (fun n => n.contains a) = []
  · rw [hne]
    simp [inside, connectedWithin]
  · have := inside_bound t f _ (f.nodes_nodup.filter _) hne
      (fun n hn => (List.mem_filter.mp hn).1)
    have hpos : 0 < (t.nodes.filter (fun n => n.contains a)).length :=
      List.length_pos_iff.mpr hne
    refine ⟨by omega, ?_⟩
    rw [← this.2]
    omega

theorem weight_eq_sum (attrs : List Attr) (t : Tree) (h : TreeHyp attrs t) (f : TreeFacts t) :
    weight t = (attrs.map (edgeCount t)).sum :=
  weight_eq_sum_edgeCount attrs t h.attrs_nodup (fun e he =>
    ⟨h.node_nodup _ (f.ends e he).1, h.node_sub _ (f.ends e he).1⟩)

theorem weight_le_bound (attrs : List Attr) (t : Tree) (h : TreeHyp attrs t) :
    weight t ≤ weightBound attrs t.nodes := by
  have f := treeFacts t h.is_tree
  rw [weight_eq_sum attrs t h f]
  exact sum_le_sum_of_le attrs _ _ (fun a _ => (edgeCount_bound t f a).1)

theorem weight_eq_iff_rip (attrs : List Attr) (t : Tree) (h : TreeHyp attrs t) :
    weight t = weightBound attrs t.nodes ↔ rip attrs t = true := by
  have f := treeFacts t h.is_tree
  rw [weight_eq_sum attrs t h f]
  unfold weightBound rip
  rw [sum_eq_sum_iff_of_le attrs _ _ (fun a _ => (edgeCount_bound t f a).1), List.all_eq_true]
  exact forall₂_congr (fun a _ => (edgeCount_bound t f a).2)

/-- if some spanning tree `t'` over the same nodes has the running-intersection property, then
every spanning tree of at least its weight has it too -/
theorem max_weight_tree_is_jt_partial (attrs : List Attr) (t t' : Tree)
    (h : TreeHyp attrs t) (h' : TreeHyp attrs t') (hn : t'.nodes = t.nodes)
    (hrip : rip attrs t' = true) (hw : weight t' ≤ weight t) :
    rip attrs t = true := by
  rw [← weight_eq_iff_rip attrs t h]
  have h1 := (weight_eq_iff_rip attrs t' h').mpr hrip
  have h2 := weight_le_bound attrs t h
  rw [hn] at h1
  omega

end PGM.JT
