import PGM.Model.RegionGraph
import PGM.Proofs.OracleFold
/-!
# The region graph of a pairwise disjoint family has no edges

For pairwise disjoint, non-empty, duplicate-free cliques: `initCliques` keeps everything, `closure`
adds nothing, `coverEdges = []`, hence children / parents / descendants / `B` / `messageOrder` are
all empty (`Flat`).
-/
namespace PGM.Oracle
open PGM PGM.JT PGM.RG
set_option linter.unusedSectionVars false

/-- the cliques share no attribute -/
def Disjoint (cliques : List Clique) : Prop :=
  cliques.Pairwise (fun a b => ∀ x ∈ a, x ∉ b)

/-- no region is a strict subset of another -/
def NoSub (rs : List Region) : Prop := ∀ a ∈ rs, ∀ b ∈ rs, ssubset a b = false

theorem ssubset_self (a : Region) : ssubset a a = false := by
  unfold ssubset; cases subset a a <;> rfl

theorem subset_false_of_disjoint (a b : Region) (ha : a ≠ []) (h : ∀ x ∈ a, x ∉ b) : subset a b = false := by
  cases a with
  | nil => exact absurd rfl ha
  | cons x xs =>
    have hx : b.contains x = false := by
      rw [Bool.eq_false_iff]; intro hc
      exact h x (by simp) (List.contains_iff_mem.mp hc)
    unfold subset
    simp only [List.all_cons, hx, Bool.false_and]

theorem disjoint_forall (cliques : List Clique) (hd : Disjoint cliques) :
    ∀ a ∈ cliques, ∀ b ∈ cliques, a = b ∨ ∀ x ∈ a, x ∉ b := by
  unfold Disjoint at hd
  induction cliques with
  | nil => intro a ha; simp at ha
  | cons c cs ih =>
    rw [List.pairwise_cons] at hd
    intro a ha b hb
    rcases List.mem_cons.mp ha with rfl | ha' <;> rcases List.mem_cons.mp hb with rfl | hb'
    · exact Or.inl rfl
    · exact Or.inr (hd.1 b hb')
    · exact Or.inr (fun x hx hxa => hd.1 a ha' x hxa hx)
    · exact ih hd.2 a ha' b hb'

theorem noSub_of_disjoint (cliques : List Clique) (hd : Disjoint cliques) (hne : ∀ c ∈ cliques, c ≠ []) :
    NoSub cliques := by
  intro a ha b hb
  rcases disjoint_forall cliques hd a ha b hb with h | h
  · subst h; exact ssubset_self a
  · unfold ssubset
    rw [subset_false_of_disjoint a b (hne a ha) h]; rfl

theorem initCliques_of_noSub (cliques : List Clique) (convex : Bool) (h : NoSub cliques) :
    initCliques cliques convex = cliques := by
  unfold initCliques
  cases convex
  · simp only [Bool.false_eq_true, if_false]
    apply List.filter_eq_self.mpr
    intro a ha
    have : cliques.any (fun s => ssubset a s) = false := by
      rw [List.any_eq_false]
      intro b hb
      rw [h a ha b hb]; exact Bool.false_ne_true
    rw [this]; rfl
  · rfl

/-! ### `closure` -/

theorem combos2_pairwise {β : Type} (R : β → β → Prop) (l : List β) (h : l.Pairwise R) :
    ∀ p ∈ GM.combos2 l, R p.1 p.2 := by
  induction l with
  | nil => intro p hp; simp [GM.combos2] at hp
  | cons x xs ih =>
    intro p hp
    rw [List.pairwise_cons] at h
    simp only [GM.combos2, List.mem_append, List.mem_map] at hp
    rcases hp with ⟨y, hy, rfl⟩ | hp
    · exact h.1 y hy
    · exact ih h.2 p hp

theorem sortedInter_of_disjoint (a b : Region) (h : ∀ x ∈ a, x ∉ b) : sortedInter a b = [] := by
  have : inter a b = [] := by
    unfold inter
    apply List.filter_eq_nil_iff.mpr
    intro x hx hc
    exact h x hx (List.contains_iff_mem.mp hc)
  unfold sortedInter
  rw [this]; rfl

theorem closeStep_of_disjoint (rs : List Region) (hd : Disjoint rs) : closeStep rs = rs := by
  unfold closeStep
  apply foldl_fixed
  intro p hp acc
  have := combos2_pairwise _ rs hd p hp
  simp only [sortedInter_of_disjoint p.1 p.2 this]
  rfl

theorem closeLoop_of_disjoint (rs : List Region) (hd : Disjoint rs) (n : Nat) : closeLoop n rs = rs := by
  cases n with
  | zero => rfl
  | succ n =>
    simp only [closeLoop, closeStep_of_disjoint rs hd]
    simp

theorem closure_of_disjoint (rs : List Region) (hd : Disjoint rs) (hnd : rs.Nodup) : closure rs = rs := by
  unfold closure
  simp only [dedup_of_nodup rs hnd]
  exact closeLoop_of_disjoint rs hd _

theorem closure_initCliques (cliques : List Clique) (convex : Bool) (hd : Disjoint cliques)
    (hnd : cliques.Nodup) (hne : ∀ c ∈ cliques, c ≠ []) :
    closure (initCliques cliques convex) = cliques := by
  rw [initCliques_of_noSub cliques convex (noSub_of_disjoint cliques hd hne)]
  exact closure_of_disjoint cliques hd hnd

/-! ### a graph without edges -/

theorem coverEdges_of_noSub (rs : List Region) (h : NoSub rs) : coverEdges rs = [] := by
  unfold coverEdges
  apply List.flatMap_eq_nil_iff.mpr
  intro r1 h1
  apply List.filterMap_eq_nil_iff.mpr
  intro r2 h2
  rw [h r2 h2 r1 h1]; rfl

theorem look_eq_nil {κ β : Type} [BEq κ] (d : List (κ × List β)) (k : κ) (h : ∀ p ∈ d, p.2 = []) :
    look d k = [] := by
  unfold look
  induction d with
  | nil => rfl
  | cons a d ih =>
    obtain ⟨a, w⟩ := a
    have hw : w = [] := h (a, w) (by simp)
    subst hw
    simp only [List.lookup_cons]
    cases k == a
    · exact ih (fun p hp => h p (by simp [hp]))
    · rfl

theorem look_childrenOf_nil (rs : List Region) (r : Region) : look (childrenOf rs []) r = [] := by
  apply look_eq_nil
  intro p hp
  simp only [childrenOf, List.mem_map] at hp
  obtain ⟨_, _, rfl⟩ := hp
  rfl

theorem look_parentsOf_nil (rs : List Region) (r : Region) : look (parentsOf rs []) r = [] := by
  apply look_eq_nil
  intro p hp
  simp only [parentsOf, List.mem_map] at hp
  obtain ⟨_, _, rfl⟩ := hp
  rfl

theorem reach_go_nil (nbrs : List (Region × List Region)) (n : Nat) : RG.reach.go nbrs n [] = [] := by
  cases n with
  | zero => rfl
  | succ n => rfl

theorem reach_nil (rs : List Region) (nbrs : List (Region × List Region)) (r : Region)
    (h : ∀ x, look nbrs x = []) : RG.reach rs nbrs r = [] := by
  unfold RG.reach
  simp only [h r, dedup_nil, reach_go_nil]
  simp

theorem look_closureOf_nil (rs : List Region) (nbrs : List (Region × List Region)) (r : Region)
    (h : ∀ x, look nbrs x = []) : look (closureOf rs nbrs) r = [] := by
  apply look_eq_nil
  intro p hp
  simp only [closureOf, List.mem_map] at hp
  obtain ⟨x, _, rfl⟩ := hp
  exact reach_nil rs nbrs x h

theorem minEdges_nil (rs : List Region) (parents0 ancestors : List (Region × List Region))
    (h : ∀ x, look parents0 x = []) : minEdges rs parents0 ancestors = [] := by
  unfold minEdges
  apply List.flatMap_eq_nil_iff.mpr
  intro r _
  simp only [h r]
  rfl

theorem edgesOf_nil (rs : List Region) : edgesOf rs [] = [] := by
  unfold edgesOf
  apply List.flatMap_eq_nil_iff.mpr
  intro r _
  rfl

/-- the structure the message-passing code sees on a graph without edges -/
structure Flat (g : RG.Graph) : Prop where
  order : g.messageOrder = []
  children : ∀ r, look g.children r = []
  parents : ∀ r, look g.parents r = []
  B : ∀ r, look g.B r = []

theorem buildOn_edges_nil (rs : List Region) (minimal : Bool) (hE : coverEdges rs = []) :
    (if minimal then edgesOf rs (minEdges rs (parentsOf rs (coverEdges rs))
        (closureOf rs (parentsOf rs (coverEdges rs)))) else coverEdges rs) = [] := by
  cases minimal
  · simpa using hE
  · simp only [if_true]
    rw [hE, minEdges_nil rs _ _ (look_parentsOf_nil rs), edgesOf_nil]

theorem buildOn_cliques (rs : List Region) (convex minimal : Bool) :
    (buildOn rs convex minimal).cliques = sortByLen rs := rfl

theorem buildOn_regions (rs : List Region) (convex minimal : Bool) :
    (buildOn rs convex minimal).regions = rs := rfl

theorem buildOn_flat (rs : List Region) (convex minimal : Bool) (hE : coverEdges rs = []) :
    Flat (buildOn rs convex minimal) := by
  have hedges := buildOn_edges_nil rs minimal hE
  have hch : ∀ r, look (buildOn rs convex minimal).children r = [] := by
    intro r
    show look (childrenOf rs _) r = []
    rw [hedges]; exact look_childrenOf_nil rs r
  have hpa : ∀ r, look (buildOn rs convex minimal).parents r = [] := by
    intro r
    show look (parentsOf rs _) r = []
    rw [hedges]; exact look_parentsOf_nil rs r
  have hde : ∀ r, look (buildOn rs convex minimal).descendants r = [] := by
    intro r
    show look (closureOf rs (childrenOf rs (coverEdges rs))) r = []
    rw [hE]
    exact look_closureOf_nil rs _ r (look_childrenOf_nil rs)
  refine ⟨?_, hch, hpa, ?_⟩
  · show (sortByLen rs).flatMap (fun ru => (look (buildOn rs convex minimal).children ru).map (fun rd => (ru, rd))) = []
    apply List.flatMap_eq_nil_iff.mpr
    intro r _
    rw [hch r]; rfl
  · intro r
    cases convex
    · apply look_eq_nil
      intro p hp
      have hp' : p ∈ rs.map (fun r => (r, if minimal
          then beliefSetMin (buildOn rs false minimal).parents (buildOn rs false minimal).descendants r
          else beliefSetSat (buildOn rs false minimal).parents (buildOn rs false minimal).descendants r)) := hp
      obtain ⟨x, _, rfl⟩ := List.mem_map.mp hp'
      cases minimal
      · simp only [Bool.false_eq_true, if_false, beliefSetSat, hpa x, hde x]
        rfl
      · simp only [if_true, beliefSetMin, hpa x, hde x]
        rfl
    · rfl

/-! ### `sortByLen` is a permutation -/

theorem insertBy_perm {β : Type} (key : β → Nat) (x : β) (l : List β) :
    (Dom.insertBy key x l).Perm (x :: l) := by
  induction l with
  | nil => simp [Dom.insertBy]
  | cons y ys ih =>
    simp only [Dom.insertBy]
    split
    · exact List.Perm.refl _
    · exact (List.Perm.cons y ih).trans (List.Perm.swap x y ys)

theorem foldl_insertBy_perm {β : Type} (key : β → Nat) (l acc : List β) :
    (l.foldl (fun acc x => Dom.insertBy key x acc) acc).Perm (l ++ acc) := by
  induction l generalizing acc with
  | nil => simp
  | cons x xs ih =>
    simp only [List.foldl_cons]
    refine (ih _).trans ?_
    refine (List.Perm.append_left xs (insertBy_perm key x acc)).trans ?_
    simp only [List.cons_append]
    exact List.perm_middle

theorem sortByLen_perm (l : List Region) : (sortByLen l).Perm l := by
  have := foldl_insertBy_perm (fun r : Region => r.length) l []
  simpa [sortByLen, Dom.sortBy] using this

theorem mem_sortByLen (l : List Region) (c : Region) : c ∈ sortByLen l ↔ c ∈ l :=
  (sortByLen_perm l).mem_iff

theorem sortByLen_nodup (l : List Region) (h : l.Nodup) : (sortByLen l).Nodup :=
  (sortByLen_perm l).nodup_iff.mpr h

/-- the graph of a disjoint family -/
theorem build_disjoint (cliques : List Clique) (convex minimal : Bool) (hd : Disjoint cliques)
    (hnd : cliques.Nodup) (hne : ∀ c ∈ cliques, c ≠ []) :
    build cliques convex minimal = buildOn cliques convex minimal ∧ Flat (build cliques convex minimal) := by
  have h1 : build cliques convex minimal = buildOn cliques convex minimal := by
    unfold build
    rw [closure_initCliques cliques convex hd hnd hne]
  refine ⟨h1, ?_⟩
  rw [h1]
  exact buildOn_flat cliques convex minimal (coverEdges_of_noSub cliques (noSub_of_disjoint cliques hd hne))

end PGM.Oracle
