import PGM.Model.RegionGraph
import PGM.Proofs.RealScalar
import Mathlib.Algebra.BigOperators.Group.List.Basic
import Mathlib.Algebra.Order.BigOperators.Group.List
import Mathlib.Algebra.BigOperators.Ring.List
/-!
# `RG.normalise` over the reals: `total · softmax(belief)`

Only the flat data of the belief matters: `normalise T b` has the domain of `b` and the data
`exp (bᵢ + (log T − log Σ exp b))`.
-/
namespace PGM.Oracle
open PGM

/-- a table of mass `T`: strictly positive entries summing to `T` -/
def ValidTable (T : ℝ) (f : Factor ℝ) : Prop :=
  (∀ v ∈ f.datavector, 0 < v) ∧ f.datavector.sum = T

/-- `Σ exp bᵢ` over the flat data -/
noncomputable def expSum (b : Factor ℝ) : ℝ := (b.vals.data.toList.map Real.exp).sum

theorem normalise_dom (T : ℝ) (b : Factor ℝ) : (RG.normalise T b).dom = b.dom := rfl

theorem normalise_shape (T : ℝ) (b : Factor ℝ) : (RG.normalise T b).vals.shape = b.dom.shape := rfl

/-- the flat data of `normalise T b` (definitional unfolding) -/
theorem normalise_data (T : ℝ) (b : Factor ℝ) :
    (RG.normalise T b).vals.data =
      (b.vals.data.map (fun v => v + (Real.log T + -Real.log (expSum b)))).map Real.exp := rfl

theorem normalise_size (T : ℝ) (b : Factor ℝ) :
    (RG.normalise T b).vals.data.size = b.vals.data.size := by
  rw [normalise_data]; simp

theorem normalise_datavector (T : ℝ) (b : Factor ℝ) :
    (RG.normalise T b).datavector =
      b.datavector.map (fun v => Real.exp (v + (Real.log T + -Real.log (expSum b)))) := by
  unfold Factor.datavector
  rw [normalise_data]
  simp [Function.comp_def]

/-- the data of `normalise T b` depends on `b` only through its flat data -/
theorem normalise_datavector_congr (T : ℝ) (b b' : Factor ℝ) (h : b.datavector = b'.datavector) :
    (RG.normalise T b).datavector = (RG.normalise T b').datavector := by
  rw [normalise_datavector, normalise_datavector, h]
  have : expSum b = expSum b' := by
    unfold expSum; unfold Factor.datavector at h; rw [h]
  rw [this]

theorem expSum_pos (b : Factor ℝ) (hne : b.vals.data.size ≠ 0) : 0 < expSum b := by
  unfold expSum
  apply List.sum_pos
  · intro x hx
    obtain ⟨y, _, rfl⟩ := List.mem_map.mp hx
    exact Real.exp_pos y
  · intro h
    apply hne
    have := congrArg List.length h
    simpa using this

/-- one cell: `exp (v + (log T − log S)) = T · exp v / S` -/
theorem cell_eq (T S v : ℝ) (hT : 0 < T) (hS : 0 < S) :
    Real.exp (v + (Real.log T + -Real.log S)) = T * Real.exp v / S := by
  rw [Real.exp_add, Real.exp_add, Real.exp_neg, Real.exp_log hT, Real.exp_log hS]
  field_simp

theorem list_sum_map_mul_div (l : List ℝ) (T S : ℝ) :
    (l.map (fun v => T * Real.exp v / S)).sum = T * (l.map Real.exp).sum / S := by
  induction l with
  | nil => simp
  | cons x xs ih =>
    simp only [List.map_cons, List.sum_cons, ih]
    ring

theorem normalise_valid' (T : ℝ) (b : Factor ℝ) (hT : 0 < T) (hne : b.vals.data.size ≠ 0) :
    ValidTable T (RG.normalise T b) := by
  have hS := expSum_pos b hne
  constructor
  · intro v hv
    rw [normalise_datavector] at hv
    obtain ⟨y, _, rfl⟩ := List.mem_map.mp hv
    exact Real.exp_pos _
  · rw [normalise_datavector]
    have : (fun v => Real.exp (v + (Real.log T + -Real.log (expSum b))))
        = (fun v => T * Real.exp v / expSum b) := by
      funext v; exact cell_eq T _ v hT hS
    rw [this, list_sum_map_mul_div]
    have : (b.datavector.map Real.exp).sum = expSum b := rfl
    rw [this]
    field_simp

end PGM.Oracle
