import PGM.Proofs.JTreeGen3
/-!
# Helper lemmas for `Properties/C12G.lean` (4): `_greedy_order(stochastic=True)` and the integer mode

`np.random.choice(probas.size, p=probas)` is the parameter `choice n p outcome`; its contract
(`ChoiceContract`): called with the model distribution `JT.probas costs` over `len(costs)` outcomes, it
returns the outcome it was given — any index is possible because every probability is positive
(`probas_pos`), and numpy accepts the vector because it sums to one (`probas_sum`).
-/
namespace PGM.JT

/-- the contract of `np.random.choice` used by the equality theorems -/
def ChoiceContract (choice : Nat → List Rat → Nat → Nat) : Prop :=
  ∀ (costs : List Rat) (i : Nat), choice (probas costs).length (probas costs) i = i

/-- the body of the `for k in range(len(domain))` loop, variant `stochastic=True`, as generated -/
def genStochStep (tos : List Attr → List Attr) (choice : Nat → List Rat → Nat → Nat) (d : Dom)
    (s_ : List Nat × List Attr × List Clique × List Attr × Nat) :
    List Nat × List Attr × List Clique × List Attr × Nat :=
  let rng := s_.1
  let order := s_.2.1
  let cliques := s_.2.2.1
  let unmarked := s_.2.2.2.1
  let total_cost := s_.2.2.2.2
  let cost : List (Attr × Nat) := []
  let cost := unmarked.foldl (fun cost a =>
      let neighbors := (cliques.filter (fun cl => (cl.contains a)))
      let variables_ := (tos (setUnionAll [] (neighbors.map (fun x => toSet x))))
      let newdom := (Dom.project d variables_)
      let cost := (dictSet cost a (Dom.size newdom))
      cost) cost
  let choices := unmarked
  let costs := ((choices.map (fun a => (dictGet cost a))).map (fun (n : Nat) => (n : Rat)))
  let probas := ((costs.map (fun x => (ratMax costs) - x)).map (fun x => x + (1 : Rat)))
  let probas := (probas.map (fun x => x / (ratSum probas)))
  let i := (choice probas.length probas (rng.headD 0))
  let rng := rng.tail
  let a := (choices.getD i default)
  let order := (order ++ [a])
  let unmarked := (listRemove unmarked a)
  let neighbors := (cliques.filter (fun cl => (cl.contains a)))
  let variables_ := (tos (setDiff (setUnionAll [] (neighbors.map (fun x => toSet x))) [a]))
  let cliques := (setDiff cliques (toSet neighbors))
  let cliques := (setAdd cliques variables_)
  let total_cost := (total_cost + (dictGet cost a))
  (rng, order, cliques, unmarked, total_cost)

theorem gen_greedy_order_stochastic_unfold (tos : List Attr → List Attr)
    (choice : Nat → List Rat → Nat → Nat) (d : Dom) (cliques : List Clique) (rng : List Nat) :
    JTG.greedy_order_stochastic tos choice d cliques rng =
      (((genStochStep tos choice d)^[d.attrs.length] (rng, [], toSet cliques, d.attrs, 0)).2.1,
        ((genStochStep tos choice d)^[d.attrs.length] (rng, [], toSet cliques, d.attrs, 0)).2.2.2.2) := by
  have h : JTG.greedy_order_stochastic tos choice d cliques rng =
      (((List.range d.attrs.length).foldl (fun s _ => genStochStep tos choice d s)
          (rng, [], toSet cliques, d.attrs, 0)).2.1,
        ((List.range d.attrs.length).foldl (fun s _ => genStochStep tos choice d s)
          (rng, [], toSet cliques, d.attrs, 0)).2.2.2.2) := rfl
  rw [h, List.foldl_const, List.length_range]

/-- the state after the pick `j` -/
def stochPost (tos : List Attr → List Attr) (picks : List Nat) (o : List Attr) (cs : List Clique)
    (u : List Attr) (tot : Nat) (cost : List (Attr × Nat)) (j : Nat) :
    List Nat × List Attr × List Clique × List Attr × Nat :=
  (picks, o ++ [u.getD j default], genCleanup tos cs (u.getD j default), listRemove u (u.getD j default),
    tot + dictGet cost (u.getD j default))

theorem genStochStep_spec (tos : List Attr → List Attr) (htos : ∀ l, (tos l).Perm l)
    (choice : Nat → List Rat → Nat → Nat) (hch : ChoiceContract choice) (d : Dom)
    (i : Nat) (picks : List Nat) (o : List Attr) (cs cs' : List Clique) (u : List Attr) (tot : Nat)
    (a : Attr) (ha : u[i]? = some a) (hu : u.Nodup) (h : CEq cs cs') :
    ∃ cs1, genStochStep tos choice d (i :: picks, o, cs, u, tot) =
        (picks, o ++ [a], cs1, u.filter (· != a), tot + elimCost d cs' a) ∧
      CEq cs1 (elimStep cs' a) := by
  have hcost := costDict (fun a => Dom.size (Dom.project d (tos (genSup cs a)))) u hu
  have hmem : a ∈ u := List.mem_of_getElem? ha
  have hget : u.getD i default = a := by
    rw [List.getD_eq_getElem?_getD, ha]; rfl
  refine ⟨genCleanup tos cs a, ?_, cleanup_CEq tos htos h a⟩
  have hstep : genStochStep tos choice d (i :: picks, o, cs, u, tot) =
      stochPost tos picks o cs u tot
        (u.foldl (fun cost a => dictSet cost a (Dom.size (Dom.project d (tos (genSup cs a))))) [])
        (choice
          (probas ((u.map (fun a => dictGet (u.foldl (fun cost a => dictSet cost a
            (Dom.size (Dom.project d (tos (genSup cs a))))) []) a)).map (fun (n : Nat) => (n : Rat)))).length
          (probas ((u.map (fun a => dictGet (u.foldl (fun cost a => dictSet cost a
            (Dom.size (Dom.project d (tos (genSup cs a))))) []) a)).map (fun (n : Nat) => (n : Rat))))
          i) := rfl
  rw [hstep, hch]
  unfold stochPost
  rw [hget, hcost.2 a hmem, cost_eq tos htos d h a, erase_eq_filter_bne hu]

/-- **`_greedy_order(stochastic=True)` computes `greedyOrderPicks` of the hand model** -/
theorem genStoch_iter (tos : List Attr → List Attr) (htos : ∀ l, (tos l).Perm l)
    (choice : Nat → List Rat → Nat → Nat) (hch : ChoiceContract choice) (d : Dom) (n : Nat) :
    ∀ (picks : List Nat) (o : List Attr) (cs cs' : List Clique) (u : List Attr) (tot : Nat),
    u.Nodup → u.length = n → picks.length = n → picksInRange n picks = true → CEq cs cs' →
    ((genStochStep tos choice d)^[n] (picks, o, cs, u, tot)).2.1 = o ++ (greedyOrderPicks d cs' u picks).1 ∧
    ((genStochStep tos choice d)^[n] (picks, o, cs, u, tot)).2.2.2.2 =
      tot + (greedyOrderPicks d cs' u picks).2 := by
  induction n with
  | zero =>
    intro picks o cs cs' u tot _ hlen _ _ _
    have : u = [] := List.length_eq_zero_iff.1 hlen
    subst this
    simp [greedyOrderPicks_nil]
  | succ n ih =>
    intro picks o cs cs' u tot hu hlen hpl hrange h
    match u, hu, hlen, picks, hpl, hrange with
    | x :: us, hu, hlen, i :: ps, hpl, hrange =>
      simp only [picksInRange, Bool.and_eq_true, decide_eq_true_eq, Nat.add_sub_cancel] at hrange
      have hi : i < (x :: us).length := by rw [hlen]; exact hrange.1
      have ha : (x :: us)[i]? = some ((x :: us)[i]) := List.getElem?_eq_getElem hi
      have hmem : (x :: us)[i] ∈ x :: us := List.getElem_mem hi
      obtain ⟨cs1, hstep, hceq⟩ :=
        genStochStep_spec tos htos choice hch d i ps o cs cs' (x :: us) tot _ ha hu h
      rw [Function.iterate_succ_apply, hstep, greedyOrderPicks_cons d cs' x us i ps _ ha]
      have hlen' : ((x :: us).filter (· != (x :: us)[i])).length = n := by
        rw [length_filter_ne hu hmem, hlen]; rfl
      obtain ⟨h1, h2⟩ := ih ps _ cs1 _ _ _ (hu.filter _) hlen' (by simpa using hpl) hrange.2 hceq
      rw [h1, h2]
      constructor
      · simp
      · simp only; omega

/-! ## integer mode -/

theorem map_range_getD {β γ : Type} (l : List β) (dflt : β) (f : β → γ) :
    (List.range l.length).map (fun k => f (l.getD k dflt)) = l.map f := by
  apply List.ext_getElem
  · simp
  · intro k h1 h2
    simp only [List.getElem_map, List.getElem_range]
    have hk : k < l.length := by simpa using h2
    rw [List.getD_eq_getElem?_getD, List.getElem?_eq_getElem hk]
    rfl

end PGM.JT
