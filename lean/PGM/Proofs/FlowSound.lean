import PGM.Model.Flow
import PGM.Proofs.FlowEnv
/-!
# Semantics of `Mech.Prog` and soundness of the flow check (non-interference up to the primitives)

Two executions of an accepted program on different private inputs (`H`-labelled variables may
differ arbitrarily) that observe the same primitive outcomes (the oracle is a function of the
primitive's sequence number only: "made to observe identical released values and identical
selections") perform the same sequence of primitives with the same public parameters, return the
same value and agree on every `L` variable — for every interpretation of the opaque functions.
Termination-insensitive: stated for runs that finish within the fuel.
-/
namespace PGM.Flow

variable {Val : Type}

/-- interpretation of the opaque parts: literals, deterministic functions, iteration, truthiness -/
structure Interp (Val : Type) where
  lit : String → Val
  call : String → List Val → Val
  elems : Val → List Val
  truthy : Val → Bool

/-- what an observer of the primitives sees: kind and public parameters -/
inductive Event (Val : Type) where
  | rel (scale : Val)
  | sel (params : List Val)

structure State (Val : Type) where
  env : String → Val
  k : Nat                      -- sequence number of the next primitive
  trace : List (Event Val)
  ret : Option Val             -- set by `ret`; once set, nothing else executes

def State.setVar (s : State Val) (x : String) (v : Val) : State Val :=
  { s with env := fun y => if y = x then v else s.env y }

mutual
def evalE (I : Interp Val) (env : String → Val) : Expr → Val
  | .var x => env x
  | .lit c => I.lit c
  | .call f args => I.call f (evalEs I env args)
def evalEs (I : Interp Val) (env : String → Val) : List Expr → List Val
  | [] => []
  | e :: es => evalE I env e :: evalEs I env es
end

/-- fuel-bounded big-step execution; `none` = out of fuel.  `oracle k` is the outcome of the `k`-th
primitive (the released value, resp. the selected candidate). -/
def exec (I : Interp Val) (oracle : Nat → Val) : Nat → Stmt → State Val → Option (State Val)
  | 0, _, _ => none
  | fuel + 1, stmt, s =>
    if s.ret.isSome then some s else
    match stmt with
    | .skip => some s
    | .assign x e => some (s.setVar x (evalE I s.env e))
    | .release x _ scale =>
      some { (s.setVar x (oracle s.k)) with k := s.k + 1, trace := s.trace ++ [Event.rel (evalE I s.env scale)] }
    | .select x _ params =>
      some { (s.setVar x (oracle s.k)) with k := s.k + 1, trace := s.trace ++ [Event.sel (evalEs I s.env params)] }
    | .seq a b => (exec I oracle fuel a s).bind (fun s' => exec I oracle fuel b s')
    | .ite c a b => if I.truthy (evalE I s.env c) then exec I oracle fuel a s else exec I oracle fuel b s
    | .forIn x e body =>
      (I.elems (evalE I s.env e)).foldl (fun acc v => acc.bind (fun s' =>
        if s'.ret.isSome then some s' else exec I oracle fuel body (s'.setVar x v))) (some s)
    | .while c body =>
      if I.truthy (evalE I s.env c) then
        (exec I oracle fuel body s).bind (fun s' => exec I oracle fuel (.while c body) s')
      else some s
    | .ret e => some { s with ret := some (evalE I s.env e) }

/-- two states agree on what is public under `Γ`: same primitive counter, same trace of primitive
events, same return value, and — as long as the program has not returned — the same value of every
`L` variable.  (Once `ret` is set nothing executes any more, so the variables are dead; the checker
keeps updating its environment on the skipped code — e.g. a skipped `release x` makes `x` `L` — and
agreement on the variables cannot be maintained, nor is it needed, after a return.) -/
def LowEq (Γ : Env) (s₁ s₂ : State Val) : Prop :=
  (s₁.ret = none → ∀ x, Γ.get x = .L → s₁.env x = s₂.env x) ∧
    s₁.k = s₂.k ∧ s₁.trace = s₂.trace ∧ s₁.ret = s₂.ret

/-! ## expressions -/

mutual
theorem evalE_low (I : Interp Val) (Γ : Env) (e₁ e₂ : String → Val)
    (h : ∀ x, Γ.get x = .L → e₁ x = e₂ x) :
    ∀ e : Expr, labE Γ e = .L → evalE I e₁ e = evalE I e₂ e
  | .var x, hl => by
    simp only [labE] at hl
    simp only [evalE]
    exact h x hl
  | .lit c, _ => by simp only [evalE]
  | .call f args, hl => by
    simp only [labE] at hl
    simp only [evalE]
    rw [evalEs_low I Γ e₁ e₂ h args hl]
theorem evalEs_low (I : Interp Val) (Γ : Env) (e₁ e₂ : String → Val)
    (h : ∀ x, Γ.get x = .L → e₁ x = e₂ x) :
    ∀ es : List Expr, labEs Γ es = .L → evalEs I e₁ es = evalEs I e₂ es
  | [], _ => by simp only [evalEs]
  | e :: es, hl => by
    simp only [labEs] at hl
    have := Label.join_eq_L.mp hl
    simp only [evalEs]
    rw [evalE_low I Γ e₁ e₂ h e this.1, evalEs_low I Γ e₁ e₂ h es this.2]
end

/-! ## low-equivalence -/

theorem LowEq.weaken {Γ Δ : Env} {s t : State Val} (h : LowEq Γ s t)
    (hΔ : ∀ x, Δ.get x = .L → Γ.get x = .L) : LowEq Δ s t :=
  ⟨fun hr x hx => h.1 hr x (hΔ x hx), h.2⟩

theorem LowEq.of_ret {Γ Δ : Env} {s t : State Val} (h : LowEq Γ s t) (hr : s.ret.isSome = true) :
    LowEq Δ s t :=
  ⟨fun hn => by simp [hn] at hr, h.2⟩

theorem LowEq.ret_eq {Γ : Env} {s t : State Val} (h : LowEq Γ s t) : s.ret = t.ret := h.2.2.2

theorem LowEq.evalE {Γ : Env} {s t : State Val} (I : Interp Val) (h : LowEq Γ s t)
    (hr : s.ret = none) {e : Expr} (he : labE Γ e = .L) : evalE I s.env e = evalE I t.env e :=
  evalE_low I Γ s.env t.env (h.1 hr) e he

theorem LowEq.evalEs {Γ : Env} {s t : State Val} (I : Interp Val) (h : LowEq Γ s t)
    (hr : s.ret = none) {es : List Expr} (he : labEs Γ es = .L) :
    evalEs I s.env es = evalEs I t.env es :=
  evalEs_low I Γ s.env t.env (h.1 hr) es he

/-- assigning to `x` values that agree whenever `l = L` -/
theorem LowEq.setVar {Γ : Env} {s t : State Val} (h : LowEq Γ s t) (x : String) (l : Label)
    (v w : Val) (hvw : l = .L → v = w) : LowEq (Γ.set x l) (s.setVar x v) (t.setVar x w) := by
  refine ⟨fun hr y hy => ?_, h.2⟩
  rw [Env.get_set] at hy
  simp only [State.setVar]
  by_cases hyx : y = x
  · simp only [hyx, if_true] at hy ⊢
    exact hvw hy
  · simp only [hyx, if_false] at hy ⊢
    exact h.1 hr y hy

/-! ## unfolding `exec` -/

section
variable (I : Interp Val) (oracle : Nat → Val)

theorem exec_of_ret {f : Nat} {p : Stmt} {s t : State Val}
    (h : exec I oracle f p s = some t) (hr : s.ret.isSome = true) : t = s := by
  cases f with
  | zero => simp [exec] at h
  | succ f => simp only [exec, hr, if_true] at h; exact (Option.some.inj h).symm

theorem exec_succ {f : Nat} {p : Stmt} {s : State Val} (hr : s.ret = none) :
    exec I oracle (f + 1) p s =
      match p with
      | .skip => some s
      | .assign x e => some (s.setVar x (evalE I s.env e))
      | .release x _ scale =>
        some { (s.setVar x (oracle s.k)) with
          k := s.k + 1, trace := s.trace ++ [Event.rel (evalE I s.env scale)] }
      | .select x _ params =>
        some { (s.setVar x (oracle s.k)) with
          k := s.k + 1, trace := s.trace ++ [Event.sel (evalEs I s.env params)] }
      | .seq a b => (exec I oracle f a s).bind (fun s' => exec I oracle f b s')
      | .ite c a b =>
        if I.truthy (evalE I s.env c) then exec I oracle f a s else exec I oracle f b s
      | .forIn x e body =>
        (I.elems (evalE I s.env e)).foldl (fun acc v => acc.bind (fun s' =>
          if s'.ret.isSome then some s' else exec I oracle f body (s'.setVar x v))) (some s)
      | .while c body =>
        if I.truthy (evalE I s.env c) then
          (exec I oracle f body s).bind (fun s' => exec I oracle f (.while c body) s')
        else some s
      | .ret e => some { s with ret := some (evalE I s.env e) } := by
  simp only [exec, hr, Option.isSome_none, Bool.false_eq_true, if_false]

/-- the statement proved by induction on the program -/
def Sound (cf : Nat) (p : Stmt) : Prop :=
  ∀ (Γ Γ' : Env), flow cf Γ p = some Γ' → ∀ (f₁ f₂ : Nat) (s₁ s₂ t₁ t₂ : State Val),
    LowEq Γ s₁ s₂ → exec I oracle f₁ p s₁ = some t₁ → exec I oracle f₂ p s₂ = some t₂ →
    LowEq Γ' t₁ t₂

/-- it suffices to consider runs that start with `ret` unset and with positive fuel -/
theorem Sound.intro {cf : Nat} {p : Stmt}
    (h : ∀ (Γ Γ' : Env), flow cf Γ p = some Γ' → ∀ (f₁ f₂ : Nat) (s₁ s₂ t₁ t₂ : State Val),
      LowEq Γ s₁ s₂ → s₁.ret = none → s₂.ret = none →
      exec I oracle (f₁ + 1) p s₁ = some t₁ → exec I oracle (f₂ + 1) p s₂ = some t₂ →
      LowEq Γ' t₁ t₂) : Sound I oracle cf p := by
  intro Γ Γ' hflow f₁ f₂ s₁ s₂ t₁ t₂ hlow h₁ h₂
  by_cases hr : s₁.ret.isSome = true
  · have hr₂ : s₂.ret.isSome = true := hlow.ret_eq ▸ hr
    rw [exec_of_ret I oracle h₁ hr, exec_of_ret I oracle h₂ hr₂]
    exact hlow.of_ret hr
  · have hr₁ : s₁.ret = none := by simpa using hr
    have hr₂ : s₂.ret = none := hlow.ret_eq ▸ hr₁
    cases f₁ with
    | zero => simp [exec] at h₁
    | succ f₁ =>
      cases f₂ with
      | zero => simp [exec] at h₂
      | succ f₂ => exact h Γ Γ' hflow f₁ f₂ s₁ s₂ t₁ t₂ hlow hr₁ hr₂ h₁ h₂

/-! ## loops -/

theorem foldl_bind_none {α β : Type} (g : α → β → Option α) (vs : List β) :
    vs.foldl (fun acc v => acc.bind (fun a => g a v)) none = none := by
  induction vs with
  | nil => rfl
  | cons v vs ih => simpa using ih

theorem forIn_sound {cf : Nat} {x : String} {body : Stmt} (hbody : Sound I oracle cf body)
    {Γ Γ' : Env} (hstep : flow cf (Γ.set x .L) body = some Γ')
    (hfix : ∀ y, Γ.get y = .L → Γ'.get y = .L) (f₁ f₂ : Nat) :
    ∀ (vs : List Val) (a₁ a₂ t₁ t₂ : State Val), LowEq Γ a₁ a₂ →
      vs.foldl (fun acc v => acc.bind (fun s' =>
        if s'.ret.isSome then some s' else exec I oracle f₁ body (s'.setVar x v))) (some a₁)
        = some t₁ →
      vs.foldl (fun acc v => acc.bind (fun s' =>
        if s'.ret.isSome then some s' else exec I oracle f₂ body (s'.setVar x v))) (some a₂)
        = some t₂ →
      LowEq Γ t₁ t₂
  | [], a₁, a₂, t₁, t₂, hlow, h₁, h₂ => by
    simp only [List.foldl_nil, Option.some.injEq] at h₁ h₂
    subst h₁; subst h₂; exact hlow
  | v :: vs, a₁, a₂, t₁, t₂, hlow, h₁, h₂ => by
    simp only [List.foldl_cons, Option.bind_some] at h₁ h₂
    by_cases hr : a₁.ret.isSome = true
    · have hr₂ : a₂.ret.isSome = true := hlow.ret_eq ▸ hr
      simp only [hr, hr₂, if_true] at h₁ h₂
      exact forIn_sound hbody hstep hfix f₁ f₂ vs a₁ a₂ t₁ t₂ hlow h₁ h₂
    · have hr₁ : a₁.ret = none := by simpa using hr
      have hr₂ : a₂.ret = none := hlow.ret_eq ▸ hr₁
      simp only [hr₁, hr₂, Option.isSome_none, Bool.false_eq_true, if_false] at h₁ h₂
      cases e₁ : exec I oracle f₁ body (a₁.setVar x v) with
      | none => rw [e₁, foldl_bind_none] at h₁; cases h₁
      | some b₁ =>
        cases e₂ : exec I oracle f₂ body (a₂.setVar x v) with
        | none => rw [e₂, foldl_bind_none] at h₂; cases h₂
        | some b₂ =>
          rw [e₁] at h₁; rw [e₂] at h₂
          have hb : LowEq Γ' b₁ b₂ :=
            hbody _ _ hstep f₁ f₂ _ _ b₁ b₂ (hlow.setVar x .L v v (fun _ => rfl)) e₁ e₂
          exact forIn_sound hbody hstep hfix f₁ f₂ vs b₁ b₂ t₁ t₂ (hb.weaken hfix) h₁ h₂

theorem while_sound {cf : Nat} {c : Expr} {body : Stmt} (hbody : Sound I oracle cf body)
    {Γ Γ' : Env} (hguard : labE Γ c = .L) (hstep : flow cf Γ body = some Γ')
    (hfix : ∀ y, Γ.get y = .L → Γ'.get y = .L) :
    ∀ (f₁ f₂ : Nat) (s₁ s₂ t₁ t₂ : State Val), LowEq Γ s₁ s₂ →
      exec I oracle f₁ (.while c body) s₁ = some t₁ →
      exec I oracle f₂ (.while c body) s₂ = some t₂ → LowEq Γ t₁ t₂
  | 0, _, _, _, _, _, _, h₁, _ => by simp [exec] at h₁
  | _ + 1, 0, _, _, _, _, _, _, h₂ => by simp [exec] at h₂
  | f₁ + 1, f₂ + 1, s₁, s₂, t₁, t₂, hlow, h₁, h₂ => by
    by_cases hr : s₁.ret.isSome = true
    · have hr₂ : s₂.ret.isSome = true := hlow.ret_eq ▸ hr
      rw [exec_of_ret I oracle h₁ hr, exec_of_ret I oracle h₂ hr₂]
      exact hlow
    · have hr₁ : s₁.ret = none := by simpa using hr
      have hr₂ : s₂.ret = none := hlow.ret_eq ▸ hr₁
      rw [exec_succ I oracle hr₁] at h₁
      rw [exec_succ I oracle hr₂] at h₂
      simp only [] at h₁ h₂
      rw [← hlow.evalE I hr₁ hguard] at h₂
      by_cases hc : I.truthy (evalE I s₁.env c) = true
      · simp only [hc, if_true] at h₁ h₂
        cases e₁ : exec I oracle f₁ body s₁ with
        | none => rw [e₁] at h₁; cases h₁
        | some b₁ =>
          cases e₂ : exec I oracle f₂ body s₂ with
          | none => rw [e₂] at h₂; cases h₂
          | some b₂ =>
            rw [e₁, Option.bind_some] at h₁; rw [e₂, Option.bind_some] at h₂
            have hb : LowEq Γ' b₁ b₂ := hbody _ _ hstep f₁ f₂ _ _ b₁ b₂ hlow e₁ e₂
            exact while_sound hbody hguard hstep hfix f₁ f₂ b₁ b₂ t₁ t₂ (hb.weaken hfix) h₁ h₂
      · simp only [hc, Bool.false_eq_true, if_false, Option.some.injEq] at h₁ h₂
        subst h₁; subst h₂; exact hlow

/-! ## the main induction -/

theorem sound_all (cf : Nat) (p : Stmt) : Sound I oracle cf p := by
  induction p with
  | skip =>
    refine Sound.intro I oracle fun Γ Γ' hflow f₁ f₂ s₁ s₂ t₁ t₂ hlow hr₁ hr₂ h₁ h₂ => ?_
    rw [exec_succ I oracle hr₁] at h₁; rw [exec_succ I oracle hr₂] at h₂
    simp only [flow, Option.some.injEq] at hflow h₁ h₂
    subst hflow; subst h₁; subst h₂; exact hlow
  | assign x e =>
    refine Sound.intro I oracle fun Γ Γ' hflow f₁ f₂ s₁ s₂ t₁ t₂ hlow hr₁ hr₂ h₁ h₂ => ?_
    rw [exec_succ I oracle hr₁] at h₁; rw [exec_succ I oracle hr₂] at h₂
    simp only [flow, Option.some.injEq] at hflow h₁ h₂
    subst hflow; subst h₁; subst h₂
    exact hlow.setVar x _ _ _ (fun hl => hlow.evalE I hr₁ hl)
  | release x operand scale =>
    refine Sound.intro I oracle fun Γ Γ' hflow f₁ f₂ s₁ s₂ t₁ t₂ hlow hr₁ hr₂ h₁ h₂ => ?_
    rw [exec_succ I oracle hr₁] at h₁; rw [exec_succ I oracle hr₂] at h₂
    simp only [flow] at hflow
    split at hflow
    next hl =>
      simp only [Option.some.injEq] at hflow h₁ h₂
      subst hflow; subst h₁; subst h₂
      have hk : s₁.k = s₂.k := hlow.2.1
      have hs := hlow.setVar x .L (oracle s₁.k) (oracle s₂.k) (fun _ => by rw [hk])
      refine ⟨hs.1, ?_, ?_, hs.2.2.2⟩
      · show s₁.k + 1 = s₂.k + 1
        rw [hk]
      · show s₁.trace ++ _ = s₂.trace ++ _
        rw [hlow.2.2.1, hlow.evalE I hr₁ hl]
    next => cases hflow
  | select x scores params =>
    refine Sound.intro I oracle fun Γ Γ' hflow f₁ f₂ s₁ s₂ t₁ t₂ hlow hr₁ hr₂ h₁ h₂ => ?_
    rw [exec_succ I oracle hr₁] at h₁; rw [exec_succ I oracle hr₂] at h₂
    simp only [flow] at hflow
    split at hflow
    next hl =>
      simp only [Option.some.injEq] at hflow h₁ h₂
      subst hflow; subst h₁; subst h₂
      have hk : s₁.k = s₂.k := hlow.2.1
      have hs := hlow.setVar x .L (oracle s₁.k) (oracle s₂.k) (fun _ => by rw [hk])
      refine ⟨hs.1, ?_, ?_, hs.2.2.2⟩
      · show s₁.k + 1 = s₂.k + 1
        rw [hk]
      · show s₁.trace ++ _ = s₂.trace ++ _
        rw [hlow.2.2.1, hlow.evalEs I hr₁ hl]
    next => cases hflow
  | seq a b iha ihb =>
    refine Sound.intro I oracle fun Γ Γ' hflow f₁ f₂ s₁ s₂ t₁ t₂ hlow hr₁ hr₂ h₁ h₂ => ?_
    rw [exec_succ I oracle hr₁] at h₁; rw [exec_succ I oracle hr₂] at h₂
    simp only [flow] at hflow h₁ h₂
    cases ea : flow cf Γ a with
    | none => rw [ea] at hflow; cases hflow
    | some Γ₁ =>
      rw [ea, Option.bind_some] at hflow
      cases e₁ : exec I oracle f₁ a s₁ with
      | none => rw [e₁] at h₁; cases h₁
      | some b₁ =>
        cases e₂ : exec I oracle f₂ a s₂ with
        | none => rw [e₂] at h₂; cases h₂
        | some b₂ =>
          rw [e₁, Option.bind_some] at h₁; rw [e₂, Option.bind_some] at h₂
          exact ihb _ _ hflow f₁ f₂ b₁ b₂ t₁ t₂ (iha _ _ ea f₁ f₂ s₁ s₂ b₁ b₂ hlow e₁ e₂) h₁ h₂
  | ite c a b iha ihb =>
    refine Sound.intro I oracle fun Γ Γ' hflow f₁ f₂ s₁ s₂ t₁ t₂ hlow hr₁ hr₂ h₁ h₂ => ?_
    rw [exec_succ I oracle hr₁] at h₁; rw [exec_succ I oracle hr₂] at h₂
    simp only [flow] at hflow h₁ h₂
    split at hflow
    next hl =>
      rw [← hlow.evalE I hr₁ hl] at h₂
      split at hflow
      next Γ₁ Γ₂ ea eb =>
        cases hflow
        by_cases hc : I.truthy (evalE I s₁.env c) = true
        · simp only [hc, if_true] at h₁ h₂
          exact (iha _ _ ea f₁ f₂ s₁ s₂ t₁ t₂ hlow h₁ h₂).weaken
            (fun y hy => (Env.get_join_L hy).1)
        · simp only [hc, Bool.false_eq_true, if_false] at h₁ h₂
          exact (ihb _ _ eb f₁ f₂ s₁ s₂ t₁ t₂ hlow h₁ h₂).weaken
            (fun y hy => (Env.get_join_L hy).2)
      next => cases hflow
    next => cases hflow
  | forIn x e body ih =>
    refine Sound.intro I oracle fun Γ₀ Γ hflow f₁ f₂ s₁ s₂ t₁ t₂ hlow hr₁ hr₂ h₁ h₂ => ?_
    rw [exec_succ I oracle hr₁] at h₁; rw [exec_succ I oracle hr₂] at h₂
    simp only [flow] at hflow h₁ h₂
    obtain ⟨hguard, hup, Γ', hstep, hfix⟩ := fixLoop_spec _ _ _ hflow
    have hlow' : LowEq Γ s₁ s₂ := hlow.weaken hup
    rw [← hlow'.evalE I hr₁ hguard] at h₂
    exact forIn_sound I oracle ih hstep hfix f₁ f₂ _ s₁ s₂ t₁ t₂ hlow' h₁ h₂
  | «while» c body ih =>
    intro Γ₀ Γ hflow f₁ f₂ s₁ s₂ t₁ t₂ hlow h₁ h₂
    simp only [flow] at hflow
    obtain ⟨hguard, hup, Γ', hstep, hfix⟩ := fixLoop_spec _ _ _ hflow
    exact while_sound I oracle ih hguard hstep hfix f₁ f₂ s₁ s₂ t₁ t₂ (hlow.weaken hup) h₁ h₂
  | ret e =>
    refine Sound.intro I oracle fun Γ Γ' hflow f₁ f₂ s₁ s₂ t₁ t₂ hlow hr₁ hr₂ h₁ h₂ => ?_
    rw [exec_succ I oracle hr₁] at h₁; rw [exec_succ I oracle hr₂] at h₂
    simp only [flow] at hflow
    split at hflow
    next hl =>
      simp only [Option.some.injEq] at hflow h₁ h₂
      subst hflow; subst h₁; subst h₂
      refine ⟨fun h => (by cases h), hlow.2.1, hlow.2.2.1, ?_⟩
      show some _ = some _
      rw [hlow.evalE I hr₁ hl]
    next => cases hflow

end

/-! ## why `LowEq` guards the variable clause by `ret = none`

With the unguarded clause (`∀ x, Γ.get x = .L → s₁.env x = s₂.env x` also after a return) the
soundness statement is false: in `return 0; x := release(d, 1)` the release is never executed, so `x`
keeps its (secret, possibly different) initial value, but the checker — which goes on through the
dead code — labels `x` as `L` in its output environment. -/

/-- the unguarded relation -/
def LowEqStrong (Γ : Env) (s₁ s₂ : State Val) : Prop :=
  (∀ x, Γ.get x = .L → s₁.env x = s₂.env x) ∧ s₁.k = s₂.k ∧ s₁.trace = s₂.trace ∧ s₁.ret = s₂.ret

/-- `flow_sound` with `LowEqStrong` in place of `LowEq` fails (already from initial states with `ret`
unset, empty trace, and *every* variable secret) -/
theorem flow_sound_strong_false :
    ¬ (∀ (I : Interp Bool) (oracle : Nat → Bool) (cf : Nat) (Γ Γ' : Env) (p : Stmt),
        flow cf Γ p = some Γ' → ∀ (fuel₁ fuel₂ : Nat) (s₁ s₂ t₁ t₂ : State Bool),
        LowEqStrong Γ s₁ s₂ → exec I oracle fuel₁ p s₁ = some t₁ →
        exec I oracle fuel₂ p s₂ = some t₂ → LowEqStrong Γ' t₁ t₂) := by
  intro h
  let I : Interp Bool := ⟨fun _ => true, fun _ _ => true, fun _ => [], fun b => b⟩
  let p : Stmt := .seq (.ret (.lit "0")) (.release "x" (.var "d") (.lit "1"))
  let s₁ : State Bool := ⟨fun _ => true, 0, [], none⟩
  let s₂ : State Bool := ⟨fun _ => false, 0, [], none⟩
  have hflow : flow 0 [] p = some [("x", Label.L)] := by
    simp [p, flow, labE, Env.set]
  have hlow : LowEqStrong [] s₁ s₂ :=
    ⟨fun x hx => by simp [Env.get] at hx, rfl, rfl, rfl⟩
  have h₁ : exec I (fun _ => true) 2 p s₁ = some { s₁ with ret := some true } := by
    simp [p, s₁, I, exec, evalE]
  have h₂ : exec I (fun _ => true) 2 p s₂ = some { s₂ with ret := some true } := by
    simp [p, s₂, I, exec, evalE]
  have := (h I (fun _ => true) 0 [] _ p hflow 2 2 s₁ s₂ _ _ hlow h₁ h₂).1 "x"
    (by simp [Env.get])
  simp [s₁, s₂] at this

/-- **soundness of the flow check**: accepted programs are non-interfering up to the primitives -/
theorem flow_sound (I : Interp Val) (oracle : Nat → Val) (cf : Nat) (Γ Γ' : Env) (p : Stmt)
    (hflow : flow cf Γ p = some Γ') (fuel₁ fuel₂ : Nat) (s₁ s₂ t₁ t₂ : State Val)
    (hlow : LowEq Γ s₁ s₂)
    (h₁ : exec I oracle fuel₁ p s₁ = some t₁) (h₂ : exec I oracle fuel₂ p s₂ = some t₂) :
    LowEq Γ' t₁ t₂ :=
  sound_all I oracle cf p Γ Γ' hflow fuel₁ fuel₂ s₁ s₂ t₁ t₂ hlow h₁ h₂

/-- corollary in the property's words: same sequence of releases / selections with the same noise
scales and parameters, and the same returned value -/
theorem flow_sound_observable (I : Interp Val) (oracle : Nat → Val) (cf : Nat) (Γ : Env) (p : Stmt)
    (hok : flowOK cf Γ p = true) (fuel₁ fuel₂ : Nat) (env₁ env₂ : String → Val)
    (hpub : ∀ x, Γ.get x = .L → env₁ x = env₂ x) (t₁ t₂ : State Val)
    (h₁ : exec I oracle fuel₁ p ⟨env₁, 0, [], none⟩ = some t₁)
    (h₂ : exec I oracle fuel₂ p ⟨env₂, 0, [], none⟩ = some t₂) :
    t₁.trace = t₂.trace ∧ t₁.ret = t₂.ret := by
  unfold flowOK at hok
  obtain ⟨Γ', hflow⟩ := Option.isSome_iff_exists.mp hok
  have h := flow_sound I oracle cf Γ Γ' p hflow fuel₁ fuel₂ ⟨env₁, 0, [], none⟩ ⟨env₂, 0, [], none⟩
    t₁ t₂ ⟨fun _ => hpub, rfl, rfl, rfl⟩ h₁ h₂
  exact ⟨h.2.2.1, h.2.2.2⟩

end PGM.Flow

