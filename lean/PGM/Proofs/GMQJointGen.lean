import PGM.Proofs.BPBounded
import PGM.Proofs.GMQSynthTable
/-!
# From the support of clique marginals to the support of the ONE joint

`joint pots τ = Π_p ψ_p(τ)` (`Proofs/Semantics.lean`), potentials nonnegative.

* `joint_pos_iff` — `0 < joint τ` iff every potential is positive at `τ`;
* `exists_ne_zero_of_sumOver_ne_zero` — a nonzero sum has a nonzero term;
* `pot_pos_of_marginal_ne_zero` — if the (unnormalised) marginal onto `A` is nonzero at `σ`, every potential whose attributes lie inside
  `A` is positive at `σ` (some completion of `σ|A` has positive joint, and the potential only reads `A`);
* `rowAssign` — a record of the frame read as an assignment of the attributes; `key_posOf`: its key at the positions of `A` is
  `A.map (rowAssign …)`;
* `pot_pos_of_clique_support` — a table all of whose records lie in the domain and none of whose records lies in an `A`-cell of
  marginal zero: every potential inside `A` is positive at every record;
* `joint_pos_of_covered` — if every potential lies inside some such `A`, every record has positive joint.

No junction-tree property is used in this direction: it is the statement "clique marginal > 0 at `x_C` for every visited clique `C`"
(what the column loop guarantees, by the chain / consistency argument of `Proofs/GMQSampleGen.lean`, `GMQSynthRound.lean`) that needs
it.
-/
namespace PGM.GMQJoint
open PGM PGM.Sem PGM.Synth PGM.GMQGen

variable {K : Type} [Field K] [LinearOrder K] [IsStrictOrderedRing K]
set_option linter.unusedSectionVars false
set_option linter.unusedVariables false

/-- **the joint is positive exactly where every potential is** -/
theorem joint_pos_iff (pots : CliqueVec (LogOf K)) (hnn : ∀ p ∈ pots, ∀ x ∈ p.2.vals.data.toList, 0 ≤ x.v) (τ : Attr → Nat) :
    0 < joint pots τ ↔ ∀ p ∈ pots, 0 < (p.2.sem τ).v := by
  unfold joint
  constructor
  · intro h p hp
    have hne : (p.2.sem τ).v ≠ 0 := by
      intro h0
      have : (0 : K) ∈ pots.map (fun p => (p.2.sem τ).v) := List.mem_map.2 ⟨p, hp, h0⟩
      rw [List.prod_eq_zero this] at h
      exact lt_irrefl _ h
    exact lt_of_le_of_ne (Bd.sem_nonneg p.2 (hnn p hp) τ) (Ne.symm hne)
  · intro h
    apply List.prod_pos
    intro a ha
    obtain ⟨p, hp, rfl⟩ := List.mem_map.1 ha
    exact h p hp

theorem joint_eq_zero_iff (pots : CliqueVec (LogOf K)) (hnn : ∀ p ∈ pots, ∀ x ∈ p.2.vals.data.toList, 0 ≤ x.v) (τ : Attr → Nat) :
    joint pots τ = 0 ↔ ∃ p ∈ pots, (p.2.sem τ).v = 0 := by
  constructor
  · intro h
    by_contra hno
    have : 0 < joint pots τ := (joint_pos_iff pots hnn τ).2 (fun p hp =>
      lt_of_le_of_ne (Bd.sem_nonneg p.2 (hnn p hp) τ) (fun e => hno ⟨p, hp, e.symm⟩))
    rw [h] at this
    exact lt_irrefl _ this
  · rintro ⟨p, hp, h0⟩
    unfold joint
    exact List.prod_eq_zero (List.mem_map.2 ⟨p, hp, h0⟩)

theorem exists_ne_zero_of_sumOver_ne_zero (d : Dom) (as : List Attr) (σ : Attr → Nat) (f : (Attr → Nat) → K)
    (h : sumOver d as σ f ≠ 0) : ∃ v ∈ cells (as.map d.cfg), f (Dom.override σ as v) ≠ 0 := by
  by_contra hno
  apply h
  unfold sumOver
  apply List.sum_eq_zero
  intro x hx
  obtain ⟨v, hv, rfl⟩ := List.mem_map.1 hx
  by_contra hx0
  exact hno ⟨v, hv, hx0⟩

/-- **a nonzero marginal onto `A` makes every potential inside `A` positive there** -/
theorem pot_pos_of_marginal_ne_zero (d : Dom) (pots : CliqueVec (LogOf K))
    (hnn : ∀ p ∈ pots, ∀ x ∈ p.2.vals.data.toList, 0 ≤ x.v) (A : List Attr) (σ : Attr → Nat)
    (h : marginal d pots A σ ≠ 0) (p : JT.Clique × Factor (LogOf K)) (hp : p ∈ pots) (hpA : ∀ a ∈ p.2.dom.attrs, a ∈ A) :
    0 < (p.2.sem σ).v := by
  obtain ⟨v, _, hv⟩ := exists_ne_zero_of_sumOver_ne_zero d (d.invert A) σ (joint pots) h
  have hpos : 0 < joint pots (Dom.override σ (d.invert A) v) := lt_of_le_of_ne (Bd.joint_nonneg pots hnn _) (Ne.symm hv)
  have := (joint_pos_iff pots hnn _).1 hpos p hp
  rwa [sem_override_of_disjoint p.2 σ (d.invert A) v (fun a ha haP => by
    have hA := hpA a haP
    simp [Dom.invert, hA] at ha)] at this

/-- a record of the frame (columns `cols`) read as an assignment of the attributes -/
def rowAssign (cols : List Attr) (r : Row) : Attr → Nat := fun a => r.getD (cols.idxOf a) 0

theorem key_posOf (cols A : List Attr) (r : Row) : Synth.key (posOf cols A) r = A.map (rowAssign cols r) := by
  simp [Synth.key, posOf, rowAssign, List.map_map, Function.comp_def]

theorem override_map_of_mem (σ τ : Attr → Nat) (A : List Attr) (a : Attr) (h : a ∈ A) :
    Dom.override σ A (A.map τ) a = τ a := by
  rw [override_of_mem _ _ _ _ h]
  have hi : A.idxOf a < A.length := List.idxOf_lt_length_iff.2 h
  rw [List.getD_eq_getElem?_getD, List.getElem?_map, List.getElem?_eq_getElem hi]
  simp [List.getElem_idxOf]

/-- one more record in the cell it lies in -/
theorem cellCount_pos_of_mem (pos : List Nat) (rows : List Row) (r : Row) (hr : r ∈ rows) :
    0 < cellCount pos (Synth.key pos r) rows := by
  unfold cellCount
  apply List.length_pos_of_mem (a := r)
  exact List.mem_filter.2 ⟨hr, by simp⟩

/-- **support on one visited clique ⇒ every potential inside it is positive at every record** -/
theorem pot_pos_of_clique_support (d : Dom) (pots : CliqueVec (LogOf K))
    (hnn : ∀ p ∈ pots, ∀ x ∈ p.2.vals.data.toList, 0 ≤ x.v) (cols : List Attr) (rows : List Row) (A : List Attr)
    (hdom : ∀ r ∈ rows, ∀ a ∈ A, r.getD (cols.idxOf a) 0 < d.cfg a)
    (hsupp : ∀ c ∈ cells (A.map d.cfg), marginal d pots A (Dom.override (fun _ => 0) A c) = 0 →
      cellCount (posOf cols A) c rows = 0)
    (p : JT.Clique × Factor (LogOf K)) (hp : p ∈ pots) (hpA : ∀ a ∈ p.2.dom.attrs, a ∈ A)
    (r : Row) (hr : r ∈ rows) : 0 < (p.2.sem (rowAssign cols r)).v := by
  have hc : A.map (rowAssign cols r) ∈ cells (A.map d.cfg) := by
    rw [mem_cells_iff]
    exact NdArr.inRange_map A d.cfg (rowAssign cols r) (fun a ha => hdom r hr a ha)
  have hne : marginal d pots A (Dom.override (fun _ => 0) A (A.map (rowAssign cols r))) ≠ 0 := by
    intro h0
    have h1 := hsupp _ hc h0
    have h2 := cellCount_pos_of_mem (posOf cols A) rows r hr
    rw [key_posOf] at h2
    omega
  have := pot_pos_of_marginal_ne_zero d pots hnn A _ hne p hp hpA
  rwa [sem_congr p.2 _ (rowAssign cols r) (fun a ha => override_map_of_mem _ _ A a (hpA a ha))] at this

/-- **every record has positive joint** when every potential lies inside an attribute set on which the table has the support property -/
theorem joint_pos_of_covered (d : Dom) (pots : CliqueVec (LogOf K))
    (hnn : ∀ p ∈ pots, ∀ x ∈ p.2.vals.data.toList, 0 ≤ x.v) (cols : List Attr) (rows : List Row)
    (hcov : ∀ p ∈ pots, ∃ A : List Attr, (∀ a ∈ p.2.dom.attrs, a ∈ A) ∧
      (∀ r ∈ rows, ∀ a ∈ A, r.getD (cols.idxOf a) 0 < d.cfg a) ∧
      (∀ c ∈ cells (A.map d.cfg), marginal d pots A (Dom.override (fun _ => 0) A c) = 0 → cellCount (posOf cols A) c rows = 0))
    (r : Row) (hr : r ∈ rows) : 0 < joint pots (rowAssign cols r) := by
  rw [joint_pos_iff pots hnn]
  intro p hp
  obtain ⟨A, hpA, hdom, hsupp⟩ := hcov p hp
  exact pot_pos_of_clique_support d pots hnn cols rows A hdom hsupp p hp hpA r hr

/-- the record, as the cell of the full table (all columns, in column order), determines the assignment on the columns -/
theorem rowAssign_of_key_eq (cols : List Attr) (r : Row) (x : Attr → Nat) (h : Synth.key (posOf cols cols) r = cols.map x)
    (a : Attr) (ha : a ∈ cols) : rowAssign cols r a = x a := by
  rw [key_posOf] at h
  exact List.map_inj_left.1 h a ha

/-- **no record in a cell of the JOINT of probability zero**: contrapositive form, as a count over the full table -/
theorem cellCount_zero_of_joint_zero (pots : CliqueVec (LogOf K)) (cols : List Attr) (rows : List Row)
    (hpc : ∀ p ∈ pots, ∀ a ∈ p.2.dom.attrs, a ∈ cols)
    (hpos : ∀ r ∈ rows, 0 < joint pots (rowAssign cols r)) (x : Attr → Nat) (hx : joint pots x = 0) :
    cellCount (posOf cols cols) (cols.map x) rows = 0 := by
  unfold cellCount
  rw [List.length_eq_zero_iff, List.filter_eq_nil_iff]
  intro r hr hk
  have hk' : Synth.key (posOf cols cols) r = cols.map x := by simpa using hk
  have := hpos r hr
  have e : joint pots (rowAssign cols r) = joint pots x := by
    unfold joint
    congr 1
    apply List.map_congr_left
    intro p hp
    rw [sem_congr p.2 _ x (fun a ha => rowAssign_of_key_eq cols r x hk' a (hpc p hp a ha))]
  rw [e, hx] at this
  exact lt_irrefl _ this

end PGM.GMQJoint
