import PGM.Generated.LocalG
import PGM.Proofs.LocalSem
/-!
# the regenerated `local_inference.py` is the hand model (proofs for `Properties/C18G.lean`)
-/
namespace PGM.LocalGen
open PGM PGM.Local PGM.JT
variable {α : Type} [Scalar α] {Msg σ κ : Type}

/-- `alpha *= 0.5` and `alpha/2` agree (exact on floats, on fields of characteristic ≠ 2) -/
def HalfLaw (α : Type) [Scalar α] : Prop :=
  ∀ a : α, Scalar.mul a (Scalar.div Scalar.one (Scalar.add Scalar.one Scalar.one)) = Scalar.div a (Scalar.add Scalar.one Scalar.one)

/-- forget what the callback did -/
def dropWorld {β : Type} : Py (β × κ) → Py β
  | .ok v => .ok v.1
  | .unbound => .unbound
  | .recursion => .recursion
  | .attrError => .attrError

abbrev cvT (α : Type) := CliqueVec α

/-- `(l, theta, mu, model, world)` without the world -/
def dropWorld4 : Py (α × CliqueVec α × CliqueVec α × σ × κ) → Py (α × CliqueVec α × CliqueVec α × σ)
  | .ok v => .ok (v.1, v.2.1, v.2.2.1, v.2.2.2.1)
  | .unbound => .unbound
  | .recursion => .recursion
  | .attrError => .attrError

/-- `(l, model, world)` without the world -/
def dropWorld2 : Py (α × σ × κ) → Py (α × σ)
  | .ok v => .ok (v.1, v.2.1)
  | .unbound => .unbound
  | .recursion => .recursion
  | .attrError => .attrError

theorem gtInf_eq (obj : Obj α Msg σ) (loss : CliqueVec α → α × CliqueVec α) (l : α) (p : Option α) :
    LocalG.gtInf l p = isWorse (pyOps obj loss) l p := by
  cases p <;> rfl

section loop1
variable (obj : Obj α Msg σ) (loss : CliqueVec α → α × CliqueVec α) (cb : Option (CliqueVec α → κ → κ))
  (iters : Nat) (theta0 : CliqueVec α) (msgs0 : Msg)

/-- a pending recursive call freezes the state -/
theorem loop1_done (l : List Nat)
    (st : σ × CliqueVec α × CliqueVec α × Option α × κ × Option α × α × (Option (α × Nat)))
    (h : st.2.2.2.2.2.2.2.isSome = true) :
    List.foldl (LocalG.mirrorDescentAuto_loop1 obj loss cb iters theta0 msgs0) st l = st := by
  induction l with
  | nil => rfl
  | cons t l ih =>
    rw [List.foldl_cons]
    have : LocalG.mirrorDescentAuto_loop1 obj loss cb iters theta0 msgs0 st t = st := by
      unfold LocalG.mirrorDescentAuto_loop1
      simp only [h, if_true]
    rw [this, ih]

theorem loop1_step (hH : HalfLaw α) (s : LoopSt α (CliqueVec α) (CliqueVec α) σ) (w : κ) (t : Nat) (l : α) (dL : CliqueVec α)
    (hl' : loss s.mu = (l, dL)) :
    LocalG.mirrorDescentAuto_loop1 obj loss cb iters theta0 msgs0
    (s.st, s.theta, s.mu, s.prev, w, s.l, s.alpha, none) t
    = if isWorse (pyOps obj loss) l s.prev then
        if t ≤ 50 then
          (obj.setMsg (obj.setPot (obj.bp s.st (CliqueVec.subV s.theta (CliqueVec.smul s.alpha dL))).2 theta0) msgs0,
            CliqueVec.subV s.theta (CliqueVec.smul s.alpha dL),
            (obj.bp s.st (CliqueVec.subV s.theta (CliqueVec.smul s.alpha dL))).1, s.prev,
            callCb cb s.mu w, some l, s.alpha,
            some (Scalar.div s.alpha (Scalar.add Scalar.one Scalar.one), iters))
        else
          (raiseDamping obj (obj.bp s.st (CliqueVec.subV s.theta (CliqueVec.smul s.alpha dL))).2,
            CliqueVec.subV s.theta (CliqueVec.smul s.alpha dL),
            (obj.bp s.st (CliqueVec.subV s.theta (CliqueVec.smul s.alpha dL))).1, some l,
            callCb cb s.mu w, some l,
            Scalar.div s.alpha (Scalar.add Scalar.one Scalar.one), none)
      else
        (( obj.bp s.st (CliqueVec.subV s.theta (CliqueVec.smul s.alpha dL))).2,
          CliqueVec.subV s.theta (CliqueVec.smul s.alpha dL),
          (obj.bp s.st (CliqueVec.subV s.theta (CliqueVec.smul s.alpha dL))).1, some l,
          callCb cb s.mu w, some l, s.alpha, none) := by
  unfold LocalG.mirrorDescentAuto_loop1
  have hcb : (if cb.isSome = true then LocalG.cbApply cb s.mu w else w) = callCb cb s.mu w := by cases cb <;> rfl
  simp only [Option.isSome_none, Bool.false_eq_true, if_false, hl', gtInf_eq obj loss, decide_eq_true_eq, hH s.alpha, hcb]
  rfl


/-- the world the callback leaves behind during the loop is `loopWorld` -/
theorem loop1_world (hH : HalfLaw α) (n : Nat) :
    ∀ (t : Nat) (s : LoopSt α (CliqueVec α) (CliqueVec α) σ) (w : κ),
    (List.foldl (LocalG.mirrorDescentAuto_loop1 obj loss cb iters theta0 msgs0)
      (s.st, s.theta, s.mu, s.prev, w, s.l, s.alpha, none) (List.range' t n)).2.2.2.2.1
      = loopWorld (pyOps obj loss) cb n t s w := by
  induction n with
  | zero => intro t s w; rfl
  | succ n ih =>
    intro t s w
    rw [List.range'_succ, List.foldl_cons]
    unfold loopWorld
    generalize hl : (pyOps obj loss).loss s.mu = ld
    obtain ⟨l, dL⟩ := ld
    have hl' : loss s.mu = (l, dL) := hl
    simp only
    rw [loop1_step obj loss cb iters theta0 msgs0 hH s w t l dL hl']
    by_cases hw : isWorse (pyOps obj loss) l s.prev = true
    · simp only [hw, if_true]
      by_cases ht : t ≤ 50
      · simp only [ht, if_true]
        rw [loop1_done obj loss cb iters theta0 msgs0 _ _ rfl]
      · simp only [ht, if_false]
        exact ih (t + 1) { theta := _, mu := _, st := _, alpha := _, prev := _, l := _ } _
    · simp only [hw, Bool.false_eq_true, if_false]
      exact ih (t + 1) { theta := _, mu := _, st := _, alpha := _, prev := _, l := _ } _

/-- the `for t in range(iters)` loop of the source is `Local.loop` on `pyOps` -/
theorem loop1_eq (hF : obj.Frame) (hH : HalfLaw α) (a0 : α) (st0 : σ) (n : Nat) :
    ∀ (t : Nat) (s : LoopSt α (CliqueVec α) (CliqueVec α) σ) (log : List (IterRec α)) (w : κ),
    (t ≤ 50 → s.alpha = a0 ∧ obj.setMsg (obj.setPot s.st theta0) msgs0 = st0) →
    match (loop (pyOps obj loss) n t s log).1 with
    | .restart _ =>
      (List.foldl (LocalG.mirrorDescentAuto_loop1 obj loss cb iters theta0 msgs0)
        (s.st, s.theta, s.mu, s.prev, w, s.l, s.alpha, none) (List.range' t n)).1 = st0 ∧
      (List.foldl (LocalG.mirrorDescentAuto_loop1 obj loss cb iters theta0 msgs0)
        (s.st, s.theta, s.mu, s.prev, w, s.l, s.alpha, none) (List.range' t n)).2.2.2.2.2.2.2
          = some (Scalar.div a0 (Scalar.add Scalar.one Scalar.one), iters)
    | .finished s' =>
      ∃ w', List.foldl (LocalG.mirrorDescentAuto_loop1 obj loss cb iters theta0 msgs0)
        (s.st, s.theta, s.mu, s.prev, w, s.l, s.alpha, none) (List.range' t n)
          = (s'.st, s'.theta, s'.mu, s'.prev, w', s'.l, s'.alpha, none) := by
  induction n with
  | zero =>
    intro t s log w _
    simp only [loop, List.range'_zero, List.foldl_nil]
    exact ⟨w, rfl⟩
  | succ n ih =>
    intro t s log w hinv
    rw [List.range'_succ, List.foldl_cons]
    unfold loop
    generalize hl : (pyOps obj loss).loss s.mu = ld
    obtain ⟨l, dL⟩ := ld
    have hl' : loss s.mu = (l, dL) := hl
    simp only
    have hstep := loop1_step obj loss cb iters theta0 msgs0 hH s w t l dL hl'
    rw [hstep]
    by_cases hw : isWorse (pyOps obj loss) l s.prev = true
    · simp only [hw, if_true]
      by_cases ht : t ≤ 50
      · simp only [ht, if_true]
        obtain ⟨ha, hr⟩ := hinv ht
        rw [loop1_done obj loss cb iters theta0 msgs0 _ _ rfl]
        refine ⟨?_, by rw [ha]⟩
        show obj.setMsg (obj.setPot (obj.bp s.st _).2 theta0) msgs0 = st0
        rw [hF.restore_bp, hr]
      · simp only [ht, if_false]
        exact ih (t + 1) _ _ _ (fun h => absurd (by omega : t ≤ 50) ht)
    · simp only [hw, Bool.false_eq_true, if_false]
      refine ih (t + 1) _ _ _ (fun h => ?_)
      obtain ⟨ha, hr⟩ := hinv (by omega)
      refine ⟨ha, ?_⟩
      show obj.setMsg (obj.setPot (obj.bp s.st _).2 theta0) msgs0 = st0
      rw [hF.restore_bp, hr]

end loop1

section loop2
variable (obj : Obj α Msg σ) (loss : CliqueVec α → α × CliqueVec α) (cb : Option (CliqueVec α → κ → κ)) (theta : CliqueVec α)

theorem loop2_done (l : List Nat) (st : σ × CliqueVec α × κ × Bool) (h : st.2.2.2 = true) :
    List.foldl (LocalG.mirrorDescentAuto_loop2 obj loss cb theta) st l = st := by
  induction l with
  | nil => rfl
  | cons t l ih =>
    rw [List.foldl_cons]
    have : LocalG.mirrorDescentAuto_loop2 obj loss cb theta st t = st := by
      unfold LocalG.mirrorDescentAuto_loop2
      simp only [h, if_true]
    rw [this, ih]

/-- the feasibility phase of the source is `Local.post` on `pyOps` -/
theorem loop2_eq (l : List Nat) : ∀ (mu : CliqueVec α) (st : σ) (w : κ) (k : Nat),
    (List.foldl (LocalG.mirrorDescentAuto_loop2 obj loss cb theta) (st, mu, w, false) l).1
        = (post (pyOps obj loss) theta l.length mu st k).2.1 ∧
    (List.foldl (LocalG.mirrorDescentAuto_loop2 obj loss cb theta) (st, mu, w, false) l).2.1
        = (post (pyOps obj loss) theta l.length mu st k).1 := by
  induction l with
  | nil => intro mu st w k; exact ⟨rfl, rfl⟩
  | cons t l ih =>
    intro mu st w k
    rw [List.foldl_cons, List.length_cons]
    unfold post
    have hfe : (pyOps obj loss).feasible mu = LocalG.gtG Scalar.one (obj.pf mu) := rfl
    by_cases hf : LocalG.gtG Scalar.one (obj.pf mu) = true
    · have hstep : LocalG.mirrorDescentAuto_loop2 obj loss cb theta (st, mu, w, false) t = (st, mu, w, true) := by
        unfold LocalG.mirrorDescentAuto_loop2
        simp only [Bool.false_eq_true, if_false, hf, if_true]
      rw [hstep, loop2_done obj loss cb theta l _ rfl]
      simp only [hfe, hf, if_true]
      exact ⟨trivial, trivial⟩
    · have hstep : LocalG.mirrorDescentAuto_loop2 obj loss cb theta (st, mu, w, false) t
          = ((obj.bp st theta).2, (obj.bp st theta).1,
              (if cb.isSome then LocalG.cbApply cb (obj.bp st theta).1 w else w), false) := by
        unfold LocalG.mirrorDescentAuto_loop2
        simp only [Bool.false_eq_true, if_false, hf]
        split <;> rfl
      rw [hstep]
      simp only [hfe, hf, Bool.false_eq_true, if_false]
      exact ih _ _ _ _

theorem loop2_world (l : List Nat) : ∀ (mu : CliqueVec α) (st : σ) (w : κ),
    (List.foldl (LocalG.mirrorDescentAuto_loop2 obj loss cb theta) (st, mu, w, false) l).2.2.1
        = postWorld (pyOps obj loss) cb theta l.length mu st w := by
  induction l with
  | nil => intro mu st w; rfl
  | cons t l ih =>
    intro mu st w
    rw [List.foldl_cons, List.length_cons]
    unfold postWorld
    have hfe : (pyOps obj loss).feasible mu = LocalG.gtG Scalar.one (obj.pf mu) := rfl
    by_cases hf : LocalG.gtG Scalar.one (obj.pf mu) = true
    · have hstep : LocalG.mirrorDescentAuto_loop2 obj loss cb theta (st, mu, w, false) t = (st, mu, w, true) := by
        unfold LocalG.mirrorDescentAuto_loop2
        simp only [Bool.false_eq_true, if_false, hf, if_true]
      rw [hstep, loop2_done obj loss cb theta l _ rfl]
      simp only [hfe, hf, if_true]
    · have hstep : LocalG.mirrorDescentAuto_loop2 obj loss cb theta (st, mu, w, false) t
          = ((obj.bp st theta).2, (obj.bp st theta).1, callCb cb (obj.bp st theta).1 w, false) := by
        unfold LocalG.mirrorDescentAuto_loop2
        simp only [Bool.false_eq_true, if_false, hf]
        cases cb <;> rfl
      rw [hstep]
      simp only [hfe, hf, Bool.false_eq_true, if_false]
      exact ih _ _ _

theorem loop2_world_range (n : Nat) (mu : CliqueVec α) (st : σ) (w : κ) :
    (List.foldl (LocalG.mirrorDescentAuto_loop2 obj loss cb theta) (st, mu, w, false) (List.range n)).2.2.1
        = postWorld (pyOps obj loss) cb theta n mu st w := by
  have h := loop2_world obj loss cb theta (List.range n) mu st w
  rwa [List.length_range] at h

theorem loop2_range (n : Nat) (mu : CliqueVec α) (st : σ) (w : κ) (k : Nat) :
    (List.foldl (LocalG.mirrorDescentAuto_loop2 obj loss cb theta) (st, mu, w, false) (List.range n)).1
        = (post (pyOps obj loss) theta n mu st k).2.1 ∧
    (List.foldl (LocalG.mirrorDescentAuto_loop2 obj loss cb theta) (st, mu, w, false) (List.range n)).2.1
        = (post (pyOps obj loss) theta n mu st k).1 := by
  have h := loop2_eq obj loss cb theta (List.range n) mu st w k
  rwa [List.length_range] at h

end loop2

/-- **`mirror_descent_auto` of the source is `Local.mda` on `pyOps`**, for every restart count `k` -/
theorem gen_mda (obj : Obj α Msg σ) (hF : obj.Frame) (hH : HalfLaw α) (loss : CliqueVec α → α × CliqueVec α)
    (cb : Option (CliqueVec α → κ → κ)) (iters : Nat) (model : σ) (fuel : Nat) :
    ∀ (w : κ) (alpha : α) (k : Nat),
    dropWorld4 (LocalG.mirrorDescentAuto obj loss cb fuel model w alpha iters)
      = (mda (pyOps obj loss) (obj.getPot model) model iters fuel k alpha).toPy := by
  induction fuel with
  | zero => intro w alpha k; rfl
  | succ fuel ih =>
    intro w alpha k
    unfold LocalG.mirrorDescentAuto mda attempt
    simp only
    have hinv : (0 ≤ 50 → alpha = alpha ∧
        obj.setMsg (obj.setPot (obj.bp model (obj.getPot model)).2 (obj.getPot model)) (obj.getMsg model) = model) :=
      fun _ => ⟨rfl, by rw [hF.restore_bp, hF.restore_id]⟩
    have key := loop1_eq obj loss cb iters (obj.getPot model) (obj.getMsg model) hF hH alpha model iters 0
      { theta := obj.getPot model, mu := (obj.bp model (obj.getPot model)).1, st := (obj.bp model (obj.getPot model)).2,
        alpha := alpha, prev := none, l := none } [] w hinv
    rw [← List.range_eq_range'] at key
    have hbp : (pyOps obj loss).bp = obj.bp := rfl
    simp only [hbp]
    generalize hlp : loop (pyOps obj loss) iters 0
      { theta := obj.getPot model, mu := (obj.bp model (obj.getPot model)).1, st := (obj.bp model (obj.getPot model)).2,
        alpha := alpha, prev := none, l := none } [] = lp at key
    obtain ⟨out, lg⟩ := lp
    cases out with
    | restart t =>
      simp only at key
      obtain ⟨h1, h2⟩ := key
      simp only [h2, h1]
      exact ih _ _ (k + 1)
    | finished s' =>
      simp only at key
      obtain ⟨w', hk⟩ := key
      simp only [hk]
      cases hsl : s'.l with
      | none => rfl
      | some l =>
        simp only
        obtain ⟨hp1, hp2⟩ := loop2_range obj loss cb s'.theta 1000 s'.mu s'.st w' 0
        rw [hp1, hp2]
        rfl

/-- one activation of `mirror_descent_auto`, results and world -/
theorem mda_step (obj : Obj α Msg σ) (hF : obj.Frame) (hH : HalfLaw α) (loss : CliqueVec α → α × CliqueVec α)
    (cb : Option (CliqueVec α → κ → κ)) (iters : Nat) (model : σ) (fuel : Nat) (w : κ) (alpha : α) :
    LocalG.mirrorDescentAuto obj loss cb (fuel + 1) model w alpha iters =
      match (attempt (pyOps obj loss) (obj.getPot model) model alpha iters).1 with
      | .restart _ =>
        LocalG.mirrorDescentAuto obj loss cb fuel model
          (loopWorld (pyOps obj loss) cb iters 0
            { theta := obj.getPot model, mu := (obj.bp model (obj.getPot model)).1, st := (obj.bp model (obj.getPot model)).2,
              alpha := alpha, prev := none, l := none } w)
          (Scalar.div alpha (Scalar.add Scalar.one Scalar.one)) iters
      | .finished s =>
        match s.l with
        | none => .unbound
        | some l =>
          .ok (l, s.theta, (post (pyOps obj loss) s.theta 1000 s.mu s.st 0).1, (post (pyOps obj loss) s.theta 1000 s.mu s.st 0).2.1,
            postWorld (pyOps obj loss) cb s.theta 1000 s.mu s.st
              (loopWorld (pyOps obj loss) cb iters 0
                { theta := obj.getPot model, mu := (obj.bp model (obj.getPot model)).1, st := (obj.bp model (obj.getPot model)).2,
                  alpha := alpha, prev := none, l := none } w)) := by
  conv => lhs; unfold LocalG.mirrorDescentAuto
  unfold attempt
  simp only
  have hinv : (0 ≤ 50 → alpha = alpha ∧
      obj.setMsg (obj.setPot (obj.bp model (obj.getPot model)).2 (obj.getPot model)) (obj.getMsg model) = model) :=
    fun _ => ⟨rfl, by rw [hF.restore_bp, hF.restore_id]⟩
  have key := loop1_eq obj loss cb iters (obj.getPot model) (obj.getMsg model) hF hH alpha model iters 0
    { theta := obj.getPot model, mu := (obj.bp model (obj.getPot model)).1, st := (obj.bp model (obj.getPot model)).2,
      alpha := alpha, prev := none, l := none } [] w hinv
  have kw := loop1_world obj loss cb iters (obj.getPot model) (obj.getMsg model) hH iters 0
    { theta := obj.getPot model, mu := (obj.bp model (obj.getPot model)).1, st := (obj.bp model (obj.getPot model)).2,
      alpha := alpha, prev := none, l := none } w
  rw [← List.range_eq_range'] at key kw
  have hbp : (pyOps obj loss).bp = obj.bp := rfl
  simp only [hbp]
  simp only at kw
  rw [← kw]
  generalize hlp : loop (pyOps obj loss) iters 0
    { theta := obj.getPot model, mu := (obj.bp model (obj.getPot model)).1, st := (obj.bp model (obj.getPot model)).2,
      alpha := alpha, prev := none, l := none } [] = lp at key
  obtain ⟨out, lg⟩ := lp
  cases out with
  | restart t =>
    simp only at key
    obtain ⟨h1, h2⟩ := key
    simp only [h2, h1]
  | finished s' =>
    simp only at key
    obtain ⟨w', hk⟩ := key
    simp only [hk]
    cases hsl : s'.l with
    | none => rfl
    | some l =>
      simp only
      obtain ⟨hp1, hp2⟩ := loop2_range obj loss cb s'.theta 1000 s'.mu s'.st w' 0
      rw [hp1, hp2, loop2_world_range obj loss cb s'.theta 1000 s'.mu s'.st w']

/-- **what the callback has seen** when `mirror_descent_auto` returns is `mdaWorld`: the iterate at the head of every
loop iteration of every attempt, then the output of every extra oracle call -/
theorem gen_mda_world (obj : Obj α Msg σ) (hF : obj.Frame) (hH : HalfLaw α) (loss : CliqueVec α → α × CliqueVec α)
    (cb : Option (CliqueVec α → κ → κ)) (iters : Nat) (model : σ) (fuel : Nat) :
    ∀ (w : κ) (alpha : α) (v : α × CliqueVec α × CliqueVec α × σ × κ),
    LocalG.mirrorDescentAuto obj loss cb fuel model w alpha iters = .ok v →
    v.2.2.2.2 = mdaWorld (pyOps obj loss) cb (obj.getPot model) model iters fuel alpha w := by
  induction fuel with
  | zero => intro w alpha v h; cases h
  | succ fuel ih =>
    intro w alpha v
    rw [mda_step obj hF hH loss cb iters model fuel w alpha]
    unfold mdaWorld
    simp only
    cases (attempt (pyOps obj loss) (obj.getPot model) model alpha iters).1 with
    | restart t => exact ih _ _ v
    | finished s =>
      simp only
      cases s.l with
      | none => intro h; cases h
      | some l =>
        intro h
        rw [← Py.ok.inj h]
        rfl

/-- `mirror_descent` of the source is `Local.mirrorDescent` -/
theorem gen_mirrorDescent (obj : Obj α Msg σ) (hF : obj.Frame) (hH : HalfLaw α) (loss : CliqueVec α → α × CliqueVec α)
    (cb : Option (CliqueVec α → κ → κ)) (fuel : Nat) (model : σ) (w : κ) (alpha : α) (iters : Nat) :
    dropWorld2 (LocalG.mirrorDescent obj loss fuel model w alpha iters cb)
      = Local.mirrorDescent obj loss fuel model alpha iters := by
  have h := gen_mda obj hF hH loss cb iters model fuel w alpha 0
  unfold LocalG.mirrorDescent Local.mirrorDescent mdaPy
  rw [← h]
  cases LocalG.mirrorDescentAuto obj loss cb fuel model w alpha iters <;> rfl

/-- the callback plumbing of `estimate`: `mirror_descent` is called with `options['callback']` -/
theorem gen_estimate_plumbing (obj : Obj α Msg σ) (loss : CliqueVec α → α × CliqueVec α)
    (cb : Option (CliqueVec α → κ → κ)) (fuel : Nat) (model : σ) (w : κ) (oia : Option α) (iters : Nat) (log : Bool)
    (logger : CliqueVec α → κ → κ) :
    LocalG.estimate obj loss fuel model w oia iters cb log logger
      = match LocalG.mirrorDescent obj loss fuel model w (oia.getD defaultAlpha) iters (estimateCallback cb log logger) with
        | .ok r => .ok (r.2.1, r.2.2)
        | .unbound => .unbound
        | .recursion => .recursion
        | .attrError => .attrError := by
  have hcb : (if (cb.isNone && log) = true then some logger else cb) = estimateCallback cb log logger := by
    cases cb <;> cases log <;> rfl
  unfold LocalG.estimate
  simp only [hcb]
  rfl

/-- `estimate` of the source is `Local.estimate` -/
theorem gen_estimate (obj : Obj α Msg σ) (hF : obj.Frame) (hH : HalfLaw α) (loss : CliqueVec α → α × CliqueVec α)
    (cb : Option (CliqueVec α → κ → κ)) (fuel : Nat) (model : σ) (w : κ) (oia : Option α) (iters : Nat) (log : Bool)
    (logger : CliqueVec α → κ → κ) :
    dropWorld (LocalG.estimate obj loss fuel model w oia iters cb log logger)
      = Local.estimate obj loss fuel model oia iters := by
  rw [gen_estimate_plumbing]
  have h := gen_mirrorDescent obj hF hH loss (estimateCallback cb log logger) fuel model w (oia.getD defaultAlpha) iters
  unfold Local.estimate
  rw [← h]
  cases LocalG.mirrorDescent obj loss fuel model w (oia.getD defaultAlpha) iters (estimateCallback cb log logger) <;> rfl

/-! ## `_setup` -/

theorem gen_setupCliques (meas : List (Loss.Meas α)) (zeros : CliqueVec α) :
    LocalG.setupCliques meas zeros = Local.setupCliques meas zeros := rfl

theorem gen_setupModel (mk : Ctor α σ) (obj : Obj α Msg σ) (d : Dom) (sel : Sel σ) (cliques : List Clique) (total : α)
    (inner : Nat) :
    LocalG.setupModel mk obj d sel cliques total inner = Local.setupModel mk obj d sel cliques total inner := by
  cases sel with
  | name s => rfl
  | object o => rfl

theorem gen_setupPotentials (obj : Obj α Msg σ) (hL : obj.PotLens) (d : Dom) (zeros : CliqueVec α) (warm : Bool)
    (prev : Option σ) (sel : Sel σ) (model : σ) :
    LocalG.setupPotentials obj d zeros warm prev sel model = .ok (Local.setupPotentials obj d zeros warm prev sel model) := by
  cases sel <;> cases warm <;> cases prev <;>
    simp [LocalG.setupPotentials, Local.setupPotentials, LocalG.selIsStr, hL.get_set, hL.set_set]

end PGM.LocalGen
