import PGM.Proofs.QueryCond
import PGM.Proofs.QueryKron
import PGM.Proofs.BPCorrect
import PGM.Proofs.CoherentTree
/-! factor-level helpers for `CoherentSem` -/
namespace PGM.Coherent
open PGM PGM.JT PGM.GM PGM.Sem
set_option linter.unusedSectionVars false
set_option linter.unusedVariables false

section generic
variable {α β : Type} [Scalar α] [Scalar β]

/-- reading a key of a key-preserving map -/
theorem get_map_of_mem (w : CliqueVec α) (g : Clique → Factor α → Factor β) (c : Clique)
    (hc : c ∈ w.map Prod.fst) :
    CliqueVec.get (w.map (fun p => (p.1, g p.1 p.2))) c = g c (w.get c) := by
  induction w with
  | nil => simp at hc
  | cons p ps ih =>
    obtain ⟨k, f⟩ := p
    unfold CliqueVec.get
    simp only [List.map_cons, List.lookup_cons]
    by_cases hk : c = k
    · subst hk; simp
    · have hb : (c == k) = false := by simpa using hk
      rw [hb]
      have hc' : c ∈ ps.map Prod.fst := by
        simp only [List.map_cons, List.mem_cons] at hc
        exact hc.resolve_left hk
      exact ih hc'

theorem keys_map (w : CliqueVec α) (g : Clique → Factor α → Factor β) :
    (w.map (fun p => (p.1, g p.1 p.2))).map Prod.fst = w.map Prod.fst := by
  rw [List.map_map]; rfl

/-- a well-formed table over `d.project c` is usable with `d` -/
theorem factorOK_of_dom (d : Dom) (f : Factor α) (c : Clique) (hf : f.WF) (hdom : f.dom = d.project c)
    (hsub : ∀ a ∈ c, a ∈ d.attrs) : FactorOK d f ∧ f.dom.attrs = c := by
  have hattrs : f.dom.attrs = c := by rw [hdom, Dom.attrs_project]
  refine ⟨⟨hf, ?_, ?_⟩, hattrs⟩
  · intro p hp
    rw [hdom] at hp
    simp only [Dom.project, List.mem_map] at hp
    obtain ⟨a, _, rfl⟩ := hp
    rfl
  · intro a ha
    rw [hattrs] at ha
    exact hsub a ha

theorem binop_same_dom (op : α → α → α) (f g : Factor α) (hf : f.WF) (hg : g.WF) (hd : g.dom = f.dom) :
    (Factor.binop op f g).WF ∧ (Factor.binop op f g).dom = f.dom := by
  have hc : f.dom.contains g.dom = true := (Dom.contains_iff _ _).mpr (by rw [hd]; exact fun _ h => h)
  refine ⟨Factor.binop_WF op f g hf hg ?_, ?_⟩
  · rw [hd]
    exact Dom.compatible_of_agrees _ _ hf.1 (fun p hp => Dom.cfg_of_mem f.dom hf.1 p hp)
  · rw [Factor.binop_dom]
    exact Dom.merge_eq_self_of_contains _ _ hc

theorem mem_union (x y : Clique) (a : Attr) : a ∈ JT.union x y ↔ a ∈ x ∨ a ∈ y := by
  simp only [JT.union, List.mem_append, List.mem_filter, Bool.not_eq_eq_eq_not, Bool.not_true,
    List.contains_eq_mem, decide_eq_false_iff_not]
  tauto

end generic

variable {K : Type} [Field K] [LinearOrder K] [IsStrictOrderedRing K]

theorem negInfAware_v (y : LogOf K) : (Factor.negInfAware y).v = inv' y.v := by
  unfold Factor.negInfAware inv'
  by_cases h : y.v = 0
  · have : Scalar.isNegInf y = true := decide_eq_true h
    rw [if_pos this, if_pos h]; rfl
  · have : Scalar.isNegInf y = false := decide_eq_false h
    rw [this, if_neg (by simp), if_neg h]; rfl

theorem iaddScalar_exp_WF (b : Factor (LogOf K)) (shift : LogOf K) (hb : b.WF) :
    ((b.iaddScalar shift).exp).WF := by
  apply mapVals_WF Scalar.exp (b.iaddScalar shift)
  exact ⟨hb.1, hb.2.1, NdArr.map_WF _ _ hb.2.2⟩

theorem joint_append (a b : CliqueVec (LogOf K)) (τ : Attr → Nat) :
    joint (a ++ b) τ = joint a τ * joint b τ := by
  unfold joint
  rw [List.map_append, List.prod_append]

theorem joint_single (c : Clique) (f : Factor (LogOf K)) (τ : Attr → Nat) :
    joint [(c, f)] τ = (f.sem τ).v := by
  simp [joint]

end PGM.Coherent
