import PGM.Model.Solvers
import PGM.Proofs.RealScalar
import PGM.Proofs.MDDescent
/-!
# Mirror descent with the Armijo line search never accepts a step that increases the loss

`Solvers.mirrorDescent` is re-read as named pieces (`trialStep`, `lineSearch`, `outerStep`,
`mdState`), definitionally the same folds as in the model (`mirrorDescent_eq`, by `rfl`), and a
ghost run `mdGhost` carries, next to the model's state, the flag "some line search ran out of its
25 trials" (every trial rejected, the 25th taken regardless).

Over `ℝ`, for any loss and any oracle whose marginals are monotone along the step
(`MonotoneOracle`): the returned loss is at most the initial loss, or a line search was forced.
-/
namespace PGM.MD
open PGM PGM.Solvers PGM.CliqueVec

section generic
variable {α : Type} [Scalar α]

/-- outer state `(theta, mu, ans, alpha)` -/
abbrev St (α : Type) := CliqueVec α × CliqueVec α × (α × CliqueVec α) × α
/-- line-search state `(theta, mu, ans, alpha, done)` -/
abbrev Tr (α : Type) := CliqueVec α × CliqueVec α × (α × CliqueVec α) × α × Bool

def two : α := Scalar.add Scalar.one Scalar.one
def half : α := Scalar.div Scalar.one (two : α)

/-- one trial of the line search: the body of the model's inner fold -/
def trialStep (bp : CliqueVec α → CliqueVec α) (lossgrad : CliqueVec α → α × CliqueVec α)
    (omega nu : CliqueVec α) (currLoss : α) (dL : CliqueVec α) (tr : Tr α) : Tr α :=
  let (_, _, _, al, done) := tr
  if done then tr else
    let th' := subV omega (smul al dL)
    let m' := bp th'
    let a' := lossgrad m'
    if ge (Scalar.sub currLoss a'.1) (Scalar.mul (Scalar.mul half al) (dotV dL (subV nu m')))
    then (th', m', a', al, true)
    else (th', m', a', Scalar.mul al half, false)

/-- the 25 trials started from the outer state `st` (step doubled first) -/
def lineSearch (bp : CliqueVec α → CliqueVec α) (lossgrad : CliqueVec α → α × CliqueVec α)
    (st : St α) : Tr α :=
  let (theta, mu, ans, alpha) := st
  (List.range 25).foldl (fun tr _ => trialStep bp lossgrad theta mu ans.1 ans.2 tr)
    (theta, mu, ans, Scalar.mul two alpha, false)

/-- one outer iteration -/
def outerStep (bp : CliqueVec α → CliqueVec α) (lossgrad : CliqueVec α → α × CliqueVec α)
    (st : St α) : St α :=
  let trial := lineSearch bp lossgrad st
  (trial.1, trial.2.1, trial.2.2.1, trial.2.2.2.1)

/-- "the line search started at `st` was forced": all 25 trials were rejected -/
def forcedAt (bp : CliqueVec α → CliqueVec α) (lossgrad : CliqueVec α → α × CliqueVec α)
    (st : St α) : Bool := !(lineSearch bp lossgrad st).2.2.2.2

def mdInit (bp : CliqueVec α → CliqueVec α) (lossgrad : CliqueVec α → α × CliqueVec α)
    (theta0 : CliqueVec α) (alpha0 : α) : St α :=
  (theta0, bp theta0, lossgrad (bp theta0), alpha0)

/-- the model's outer fold -/
def mdState (bp : CliqueVec α → CliqueVec α) (lossgrad : CliqueVec α → α × CliqueVec α)
    (iters : Nat) (theta0 : CliqueVec α) (alpha0 : α) : St α :=
  (List.range iters).foldl (fun st _ => outerStep bp lossgrad st) (mdInit bp lossgrad theta0 alpha0)

/-- the ghost run: the model's outer fold, with the flag "some line search so far was forced" -/
def mdGhost (bp : CliqueVec α → CliqueVec α) (lossgrad : CliqueVec α → α × CliqueVec α)
    (iters : Nat) (theta0 : CliqueVec α) (alpha0 : α) : St α × Bool :=
  (List.range iters).foldl
    (fun gs _ => (outerStep bp lossgrad gs.1, gs.2 || forcedAt bp lossgrad gs.1))
    (mdInit bp lossgrad theta0 alpha0, false)

/-- "some line search of the run was forced" -/
def mdForced (bp : CliqueVec α → CliqueVec α) (lossgrad : CliqueVec α → α × CliqueVec α)
    (iters : Nat) (theta0 : CliqueVec α) (alpha0 : α) : Bool :=
  (mdGhost bp lossgrad iters theta0 alpha0).2

/-- the named pieces are the model's folds, definitionally -/
theorem mirrorDescent_eq (bp : CliqueVec α → CliqueVec α) (lossgrad : CliqueVec α → α × CliqueVec α)
    (iters : Nat) (theta0 : CliqueVec α) (alpha0 : α) :
    mirrorDescent bp lossgrad iters theta0 alpha0
      = if isZero (lossgrad (bp theta0)).1 then ⟨theta0, none, some (lossgrad (bp theta0)).1⟩
        else ⟨(mdState bp lossgrad iters theta0 alpha0).1,
              some (mdState bp lossgrad iters theta0 alpha0).2.1,
              some (mdState bp lossgrad iters theta0 alpha0).2.2.1.1⟩ := by
  have hinner : ∀ (omega nu : CliqueVec α) (currLoss : α) (dL : CliqueVec α),
      (fun (tr : Tr α) (_ : Nat) =>
        let (th, m, a, al, done) := tr
        if done then tr else
          let th' := subV omega (smul al dL)
          let m' := bp th'
          let a' := lossgrad m'
          if ge (Scalar.sub currLoss a'.1)
              (Scalar.mul (Scalar.mul (Scalar.div Scalar.one (Scalar.add Scalar.one Scalar.one)) al)
                (dotV dL (subV nu m')))
          then (th', m', a', al, true)
          else (th', m', a', Scalar.mul al (Scalar.div Scalar.one (Scalar.add Scalar.one Scalar.one)), false))
      = (fun tr _ => trialStep bp lossgrad omega nu currLoss dL tr) := by
    intro omega nu currLoss dL
    funext tr _
    obtain ⟨th, m, a, al, done⟩ := tr
    rfl
  have houter : (fun (st : St α) (_ : Nat) =>
        let (theta, mu, ans, alpha) := st
        let trial := (List.range 25).foldl (fun tr _ => trialStep bp lossgrad theta mu ans.1 ans.2 tr)
          (theta, mu, ans, Scalar.mul (Scalar.add Scalar.one Scalar.one) alpha, false)
        (trial.1, trial.2.1, trial.2.2.1, trial.2.2.2.1))
      = (fun st _ => outerStep bp lossgrad st) := by
    funext st _
    obtain ⟨theta, mu, ans, alpha⟩ := st
    rfl
  unfold mirrorDescent mdState mdInit
  simp only [hinner, houter]

theorem ghost_fold_fst {σ ι : Type} (f : σ → σ) (b : σ → Bool) (l : List ι) (s : σ) (c : Bool) :
    (l.foldl (fun (gs : σ × Bool) _ => (f gs.1, gs.2 || b gs.1)) (s, c)).1
      = l.foldl (fun st _ => f st) s := by
  induction l generalizing s c with
  | nil => rfl
  | cons x xs ih => exact ih _ _

/-- the ghost run projects onto the model's run -/
theorem mdGhost_fst (bp : CliqueVec α → CliqueVec α) (lossgrad : CliqueVec α → α × CliqueVec α)
    (iters : Nat) (theta0 : CliqueVec α) (alpha0 : α) :
    (mdGhost bp lossgrad iters theta0 alpha0).1 = mdState bp lossgrad iters theta0 alpha0 :=
  ghost_fold_fst _ _ _ _ _

/-- the flag is exactly "the line search of some iteration `k < iters` ended with every trial
rejected" -/
theorem ghost_fold_snd {σ ι : Type} (f : σ → σ) (b : σ → Bool) (l : List ι) (s : σ) (c : Bool) :
    (l.foldl (fun (gs : σ × Bool) _ => (f gs.1, gs.2 || b gs.1)) (s, c)).2 = true ↔
      c = true ∨ ∃ k < l.length, b ((l.take k).foldl (fun st _ => f st) s) = true := by
  induction l generalizing s c with
  | nil => simp
  | cons x xs ih =>
    rw [List.foldl_cons, ih]
    constructor
    · rintro (h | ⟨k, hk, hb⟩)
      · rcases Bool.or_eq_true _ _ |>.mp h with h | h
        · exact Or.inl h
        · exact Or.inr ⟨0, by simp, by simpa using h⟩
      · exact Or.inr ⟨k + 1, by simpa using hk, by simpa using hb⟩
    · rintro (h | ⟨k, hk, hb⟩)
      · exact Or.inl (by simp [h])
      · cases k with
        | zero => exact Or.inl (by simp at hb; simp [hb])
        | succ k => exact Or.inr ⟨k, by simpa using hk, by simpa using hb⟩

theorem mdForced_iff (bp : CliqueVec α → CliqueVec α) (lossgrad : CliqueVec α → α × CliqueVec α)
    (iters : Nat) (theta0 : CliqueVec α) (alpha0 : α) :
    mdForced bp lossgrad iters theta0 alpha0 = true ↔
      ∃ k < iters, forcedAt bp lossgrad (mdState bp lossgrad k theta0 alpha0) = true := by
  unfold mdForced mdGhost
  rw [ghost_fold_snd]
  simp only [Bool.false_eq_true, false_or, List.length_range]
  constructor
  · rintro ⟨k, hk, hb⟩
    refine ⟨k, hk, ?_⟩
    unfold mdState
    rw [List.take_range, Nat.min_eq_left hk.le] at hb
    exact hb
  · rintro ⟨k, hk, hb⟩
    refine ⟨k, hk, ?_⟩
    unfold mdState at hb
    rw [List.take_range, Nat.min_eq_left hk.le]
    exact hb

end generic

/-! ### over the reals -/

/-- the conclusion of `md_accepted_step_descends`, as a hypothesis on the oracle, relative to a
class `G` of admissible parameter vectors (e.g. "tables laid out on the model's cliques") -/
def MonotoneOn (G : CliqueVec ℝ → Prop) (bp : CliqueVec ℝ → CliqueVec ℝ) : Prop :=
  ∀ (ω g : CliqueVec ℝ) (α : ℝ), G ω → G g → 0 ≤ α →
    0 ≤ dotV g (subV (bp ω) (bp (subV ω (smul α g))))

/-- the unrestricted form -/
def MonotoneOracle (bp : CliqueVec ℝ → CliqueVec ℝ) : Prop :=
  ∀ (ω g : CliqueVec ℝ) (α : ℝ), 0 ≤ α → 0 ≤ dotV g (subV (bp ω) (bp (subV ω (smul α g))))

/-- the signed form, for step sizes in a class `A`: `0 ≤ α · ⟨g, bp ω − bp (ω − α g)⟩`
(what the acceptance test actually uses; an exact oracle has it for *every* real `α`) -/
def StepMonotone (G : CliqueVec ℝ → Prop) (A : ℝ → Prop) (bp : CliqueVec ℝ → CliqueVec ℝ) : Prop :=
  ∀ (ω g : CliqueVec ℝ) (α : ℝ), G ω → G g → A α →
    0 ≤ α * dotV g (subV (bp ω) (bp (subV ω (smul α g))))

/-- the class of step sizes is closed under the doubling and the halving of the line search -/
def StepClosed (A : ℝ → Prop) : Prop := ∀ α, A α → A (2 * α) ∧ A (α * 0.5)

/-- the admissible vectors are closed under the step `ω − α g` and contain every gradient the
objective returns at the oracle's marginals -/
def ClosedUnder (G : CliqueVec ℝ → Prop) (bp : CliqueVec ℝ → CliqueVec ℝ)
    (lossgrad : CliqueVec ℝ → ℝ × CliqueVec ℝ) : Prop :=
  (∀ (ω g : CliqueVec ℝ) (α : ℝ), G ω → G g → G (subV ω (smul α g))) ∧
  (∀ θ, G θ → G (lossgrad (bp θ)).2)

theorem MonotoneOn.step {G : CliqueVec ℝ → Prop} {bp : CliqueVec ℝ → CliqueVec ℝ}
    (h : MonotoneOn G bp) : StepMonotone G (fun α => 0 ≤ α) bp :=
  fun ω g α hω hg hα => mul_nonneg hα (h ω g α hω hg hα)

theorem MonotoneOracle.on {bp : CliqueVec ℝ → CliqueVec ℝ} (h : MonotoneOracle bp) :
    MonotoneOn (fun _ => True) bp := fun ω g α _ _ hα => h ω g α hα

theorem stepClosed_nonneg : StepClosed (fun α => 0 ≤ α) := by
  intro α hα
  dsimp only at hα ⊢
  constructor <;> positivity

theorem stepClosed_true : StepClosed (fun _ => True) := fun _ _ => ⟨trivial, trivial⟩

theorem closedUnder_true (bp : CliqueVec ℝ → CliqueVec ℝ) (lossgrad : CliqueVec ℝ → ℝ × CliqueVec ℝ) :
    ClosedUnder (fun _ => True) bp lossgrad := ⟨fun _ _ _ _ _ => trivial, fun _ _ => trivial⟩

theorem ge_iff (x y : ℝ) : Solvers.ge x y = true ↔ y ≤ x := by
  unfold Solvers.ge Scalar.sub
  show (!decide ((0:ℝ) < y + -x)) = true ↔ y ≤ x
  simp only [Bool.not_eq_eq_eq_not, Bool.not_true, decide_eq_false_iff_not, not_lt]
  constructor <;> intro h <;> linarith

theorem half_eq : (half : ℝ) = 0.5 := by
  show (1:ℝ) / (1 + 1) = 0.5
  norm_num

theorem two_eq : (two : ℝ) = 2 := by
  show (1:ℝ) + 1 = 2
  norm_num

/-- the model's acceptance test, read over `ℝ` -/
theorem accept_iff (currLoss new al d : ℝ) :
    Solvers.ge (Scalar.sub currLoss new) (Scalar.mul (Scalar.mul (half : ℝ) al) d) = true
      ↔ currLoss - new ≥ 0.5 * al * d := by
  rw [ge_iff, half_eq]
  show 0.5 * al * d ≤ currLoss + -new ↔ _
  rw [ge_iff_le, sub_eq_add_neg]

variable (G : CliqueVec ℝ → Prop) (A : ℝ → Prop)
variable (bp : CliqueVec ℝ → CliqueVec ℝ) (lossgrad : CliqueVec ℝ → ℝ × CliqueVec ℝ)

/-- invariant of the line search: admissible step, marginals of the trial point, admissible
parameters and gradient, and an accepted trial does not exceed the current loss -/
def TrialInv (currLoss : ℝ) (tr : Tr ℝ) : Prop :=
  A tr.2.2.2.1 ∧ tr.2.1 = bp tr.1 ∧ G tr.1 ∧ G tr.2.2.1.2 ∧
    (tr.2.2.2.2 = true → tr.2.2.1.1 ≤ currLoss)

theorem trialStep_inv (hm : StepMonotone G A bp) (hA : StepClosed A) (hc : ClosedUnder G bp lossgrad)
    (omega dL : CliqueVec ℝ) (hω : G omega) (hg : G dL) (currLoss : ℝ) (tr : Tr ℝ)
    (h : TrialInv G A bp currLoss tr) :
    TrialInv G A bp currLoss (trialStep bp lossgrad omega (bp omega) currLoss dL tr) := by
  obtain ⟨th, m, a, al, done⟩ := tr
  obtain ⟨hal, hmu, hG1, hG2, hdone⟩ := h
  dsimp only at hal hmu hG1 hG2 hdone
  unfold trialStep
  dsimp only
  cases done with
  | true => exact ⟨hal, hmu, hG1, hG2, hdone⟩
  | false =>
    simp only [Bool.false_eq_true, if_false]
    have hG' : G (subV omega (smul al dL)) := hc.1 omega dL al hω hg
    split
    · rename_i hacc
      refine ⟨hal, rfl, hG', hc.2 _ hG', fun _ => ?_⟩
      dsimp only
      rw [accept_iff] at hacc
      exact armijo_accept_no_increase' currLoss _ al _ (hm omega dL al hω hg hal) hacc
    · refine ⟨?_, rfl, hG', hc.2 _ hG', fun h => by simp at h⟩
      show A (al * (half : ℝ))
      rw [half_eq]
      exact (hA al hal).2

theorem foldl_inv' {σ ι : Type} (P : σ → Prop) (f : σ → ι → σ) (l : List ι) (s : σ)
    (h0 : P s) (hstep : ∀ s x, P s → P (f s x)) : P (l.foldl f s) := by
  induction l generalizing s with
  | nil => exact h0
  | cons x xs ih => exact ih _ (hstep s x h0)

/-- invariant of the outer loop: admissible step, `mu = bp theta`, admissible parameters and
gradient -/
def StInv (st : St ℝ) : Prop := A st.2.2.2 ∧ st.2.1 = bp st.1 ∧ G st.1 ∧ G st.2.2.1.2

theorem lineSearch_inv (hm : StepMonotone G A bp) (hA : StepClosed A)
    (hc : ClosedUnder G bp lossgrad) (st : St ℝ)
    (h : StInv G A bp st) : TrialInv G A bp st.2.2.1.1 (lineSearch bp lossgrad st) := by
  obtain ⟨theta, mu, ans, alpha⟩ := st
  obtain ⟨hal, hmu, hG1, hG2⟩ := h
  dsimp only at hal hmu hG1 hG2
  subst hmu
  unfold lineSearch
  dsimp only
  apply foldl_inv' (TrialInv G A bp ans.1)
  · refine ⟨?_, rfl, hG1, hG2, fun h => by simp at h⟩
    show A ((two : ℝ) * alpha)
    rw [two_eq]
    exact (hA alpha hal).1
  · intro tr _ htr
    exact trialStep_inv G A bp lossgrad hm hA hc theta ans.2 hG1 hG2 ans.1 tr htr

theorem outerStep_inv (hm : StepMonotone G A bp) (hA : StepClosed A)
    (hc : ClosedUnder G bp lossgrad) (st : St ℝ)
    (h : StInv G A bp st) : StInv G A bp (outerStep bp lossgrad st) := by
  have := lineSearch_inv G A bp lossgrad hm hA hc st h
  exact ⟨this.1, this.2.1, this.2.2.1, this.2.2.2.1⟩

/-- **one iteration**: unless its line search was forced, the loss after the iteration is at most
the loss before it -/
theorem outerStep_descends (hm : StepMonotone G A bp) (hA : StepClosed A)
    (hc : ClosedUnder G bp lossgrad) (st : St ℝ) (h : StInv G A bp st) :
    (outerStep bp lossgrad st).2.2.1.1 ≤ st.2.2.1.1 ∨ forcedAt bp lossgrad st = true := by
  have := (lineSearch_inv G A bp lossgrad hm hA hc st h).2.2.2.2
  unfold forcedAt
  cases hd : (lineSearch bp lossgrad st).2.2.2.2 with
  | true => exact Or.inl (this hd)
  | false => exact Or.inr rfl

theorem mdInit_inv (hc : ClosedUnder G bp lossgrad) (theta0 : CliqueVec ℝ) (h0 : G theta0)
    (alpha0 : ℝ) (hα : A alpha0) :
    StInv G A bp (mdInit bp lossgrad theta0 alpha0) := ⟨hα, rfl, h0, hc.2 _ h0⟩

theorem mdState_succ (iters : Nat) (theta0 : CliqueVec ℝ) (alpha0 : ℝ) :
    mdState bp lossgrad (iters + 1) theta0 alpha0
      = outerStep bp lossgrad (mdState bp lossgrad iters theta0 alpha0) := by
  unfold mdState
  rw [List.range_succ, List.foldl_append]
  rfl

theorem mdState_inv (hm : StepMonotone G A bp) (hA : StepClosed A) (hc : ClosedUnder G bp lossgrad)
    (iters : Nat) (theta0 : CliqueVec ℝ) (h0 : G theta0) (alpha0 : ℝ) (hα : A alpha0) :
    StInv G A bp (mdState bp lossgrad iters theta0 alpha0) := by
  induction iters with
  | zero => exact mdInit_inv G A bp lossgrad hc theta0 h0 alpha0 hα
  | succ n ih => rw [mdState_succ]; exact outerStep_inv G A bp lossgrad hm hA hc _ ih

/-- the losses along the run: each iteration whose line search was not forced does not increase the
loss -/
theorem mdState_step_descends (hm : StepMonotone G A bp) (hA : StepClosed A)
    (hc : ClosedUnder G bp lossgrad) (k : Nat)
    (theta0 : CliqueVec ℝ) (h0 : G theta0) (alpha0 : ℝ) (hα : A alpha0) :
    (mdState bp lossgrad (k + 1) theta0 alpha0).2.2.1.1 ≤ (mdState bp lossgrad k theta0 alpha0).2.2.1.1
      ∨ forcedAt bp lossgrad (mdState bp lossgrad k theta0 alpha0) = true := by
  rw [mdState_succ]
  exact outerStep_descends G A bp lossgrad hm hA hc _
    (mdState_inv G A bp lossgrad hm hA hc k theta0 h0 alpha0 hα)

theorem mdState_descends (hm : StepMonotone G A bp) (hA : StepClosed A)
    (hc : ClosedUnder G bp lossgrad) (iters : Nat)
    (theta0 : CliqueVec ℝ) (h0 : G theta0) (alpha0 : ℝ) (hα : A alpha0) :
    (mdState bp lossgrad iters theta0 alpha0).2.2.1.1 ≤ (lossgrad (bp theta0)).1
      ∨ mdForced bp lossgrad iters theta0 alpha0 = true := by
  induction iters with
  | zero => exact Or.inl (le_refl _)
  | succ n ih =>
    rw [mdForced_iff]
    rcases ih with h | h
    · rcases mdState_step_descends G A bp lossgrad hm hA hc n theta0 h0 alpha0 hα with h2 | h2
      · exact Or.inl (le_trans h2 h)
      · exact Or.inr ⟨n, Nat.lt_succ_self n, h2⟩
    · rw [mdForced_iff] at h
      obtain ⟨k, hk, hb⟩ := h
      exact Or.inr ⟨k, Nat.lt_succ_of_lt hk, hb⟩

/-- **mirror descent with line search**, relative to a class `G` of admissible vectors and a class
`A` of step sizes: the returned loss is at most the initial loss, or some line search was forced -/
theorem md_no_forced_descent_on (hm : StepMonotone G A bp) (hA : StepClosed A)
    (hc : ClosedUnder G bp lossgrad) (iters : Nat)
    (theta0 : CliqueVec ℝ) (h0 : G theta0) (alpha0 : ℝ) (hα : A alpha0) :
    ∃ L, (mirrorDescent bp lossgrad iters theta0 alpha0).loss = some L ∧
      (L ≤ (lossgrad (bp theta0)).1 ∨ mdForced bp lossgrad iters theta0 alpha0 = true) := by
  rw [mirrorDescent_eq]
  split
  · exact ⟨_, rfl, Or.inl (le_refl _)⟩
  · exact ⟨_, rfl, mdState_descends G A bp lossgrad hm hA hc iters theta0 h0 alpha0 hα⟩

/-- the unrestricted form: any loss, any oracle monotone along every step -/
theorem md_no_forced_descent_aux (hm : MonotoneOracle bp) (iters : Nat) (theta0 : CliqueVec ℝ)
    (alpha0 : ℝ) (hα : 0 ≤ alpha0) :
    ∃ L, (mirrorDescent bp lossgrad iters theta0 alpha0).loss = some L ∧
      (L ≤ (lossgrad (bp theta0)).1 ∨ mdForced bp lossgrad iters theta0 alpha0 = true) :=
  md_no_forced_descent_on (fun _ => True) (fun α => 0 ≤ α) bp lossgrad hm.on.step stepClosed_nonneg
    (closedUnder_true bp lossgrad) iters theta0 trivial alpha0 hα

/-- with no iterations the returned loss is the initial one (any scalar) -/
theorem md_zero_iters_aux {α : Type} [Scalar α] (bp : CliqueVec α → CliqueVec α)
    (lossgrad : CliqueVec α → α × CliqueVec α) (theta0 : CliqueVec α) (alpha0 : α) :
    (mirrorDescent bp lossgrad 0 theta0 alpha0).loss = some (lossgrad (bp theta0)).1 := by
  rw [mirrorDescent_eq]
  split <;> rfl

end PGM.MD
