import PGM.Proofs.VECorrect
import Mathlib.Algebra.Order.BigOperators.Group.List
import Mathlib.Algebra.Order.BigOperators.GroupWithZero.List
import Mathlib.Tactic.Ring
/-! conditional independence across a separating edge, at the level of `sumOver` and `marginal` -/
namespace PGM.Sem
open PGM PGM.JT PGM.GM
set_option linter.unusedVariables false
set_option linter.unusedSectionVars false

section abstract
variable {K : Type} [Field K]

/-- a sum of a product of two functions living on (almost) disjoint attribute sets splits -/
theorem sumOver_split_prod (d : Dom) (U AL AR : List Attr) (hU : U.Nodup) (σ : Attr → Nat)
    (f g : (Attr → Nat) → K) (hf : DependsOn f AL) (hg : DependsOn g AR)
    (hdis : ∀ a ∈ U, a ∈ AL → a ∉ AR) :
    sumOver d U σ (fun τ => f τ * g τ)
      = sumOver d (U.filter (fun a => AL.contains a)) σ f
        * sumOver d (U.filter (fun a => !AL.contains a)) σ g := by
  rw [← sumOver_split d U (fun a => AL.contains a) σ _ hU]
  have inner : (fun τ => sumOver d (U.filter (fun a => !AL.contains a)) τ (fun ρ => f ρ * g ρ))
      = fun τ => f τ * sumOver d (U.filter (fun a => !AL.contains a)) τ g := by
    funext τ
    apply sumOver_factor_left
    intro v _
    apply hf.override
    intro a ha
    simpa using (List.mem_filter.mp ha).2
  rw [inner]
  apply sumOver_factor_right d _ σ f (fun τ => sumOver d (U.filter (fun a => !AL.contains a)) τ g)
  intro v _
  apply (hg.sumOver d _).override
  intro a ha hm
  obtain ⟨h1, h2⟩ := List.mem_filter.mp ha
  exact hdis a h1 (by simpa using h2) (List.mem_filter.mp hm).1

theorem filter_invert_congr (d : Dom) (X Y : List Attr) (p : Attr → Bool)
    (h : ∀ a ∈ d.attrs, p a = true → (a ∈ X ↔ a ∈ Y)) :
    (d.invert X).filter p = (d.invert Y).filter p := by
  unfold Dom.invert
  rw [List.filter_filter, List.filter_filter]
  apply List.filter_congr
  intro a ha
  by_cases hp : p a = true
  · have := h a ha hp
    simp only [hp, Bool.true_and]
    by_cases hx : a ∈ X
    · simp [hx, this.mp hx]
    · have hy : a ∉ Y := fun hy => hx (this.mpr hy)
      simp [hx, hy]
  · simp [hp]

/-- **conditional independence**, abstractly: `f` lives on `AL`, `g` on `AR`, the two sets meet
inside `S ⊆ A ∩ B`, `A ⊆ AL` and `B ∩ AL ⊆ S` -/
theorem ci_abstract (d : Dom) (hd : d.WF) (f g : (Attr → Nat) → K) (AL AR A B S : List Attr)
    (hf : DependsOn f AL) (hg : DependsOn g AR)
    (hA : ∀ a ∈ A, a ∈ AL) (hSA : ∀ a ∈ S, a ∈ A) (hSB : ∀ a ∈ S, a ∈ B)
    (hB : ∀ a ∈ B, a ∈ AL → a ∈ S) (hLR : ∀ a, a ∈ AL → a ∈ AR → a ∈ S) (σ : Attr → Nat) :
    sumOver d (d.invert (A ++ B)) σ (fun τ => f τ * g τ) * sumOver d (d.invert S) σ (fun τ => f τ * g τ)
      = sumOver d (d.invert A) σ (fun τ => f τ * g τ) * sumOver d (d.invert B) σ (fun τ => f τ * g τ) := by
  have hsplit : ∀ X : List Attr, (∀ a ∈ S, a ∈ X) →
      sumOver d (d.invert X) σ (fun τ => f τ * g τ)
        = sumOver d ((d.invert X).filter (fun a => AL.contains a)) σ f
          * sumOver d ((d.invert X).filter (fun a => !AL.contains a)) σ g := by
    intro X hX
    apply sumOver_split_prod d _ AL AR (invert_nodup d hd X) σ f g hf hg
    intro a ha hl hr
    exact ((mem_invert d X a).mp ha).2 (hX a (hLR a hl hr))
  rw [hsplit (A ++ B) (fun a ha => List.mem_append_left _ (hSA a ha)), hsplit S (fun a ha => ha),
    hsplit A hSA, hsplit B hSB]
  have e1 : (d.invert (A ++ B)).filter (fun a => AL.contains a) = (d.invert A).filter (fun a => AL.contains a) := by
    apply filter_invert_congr
    intro a _ hp
    have hp' : a ∈ AL := by simpa using hp
    rw [List.mem_append]
    exact ⟨fun h => h.elim id (fun hb => hSA a (hB a hb hp')), Or.inl⟩
  have e2 : (d.invert (A ++ B)).filter (fun a => !AL.contains a) = (d.invert B).filter (fun a => !AL.contains a) := by
    apply filter_invert_congr
    intro a _ hp
    have hp' : a ∉ AL := by simpa using hp
    rw [List.mem_append]
    exact ⟨fun h => h.elim (fun ha => absurd (hA a ha) hp') id, Or.inr⟩
  have e3 : (d.invert B).filter (fun a => AL.contains a) = (d.invert S).filter (fun a => AL.contains a) := by
    apply filter_invert_congr
    intro a _ hp
    have hp' : a ∈ AL := by simpa using hp
    exact ⟨fun hb => hB a hb hp', hSB a⟩
  have e4 : (d.invert A).filter (fun a => !AL.contains a) = (d.invert S).filter (fun a => !AL.contains a) := by
    apply filter_invert_congr
    intro a _ hp
    have hp' : a ∉ AL := by simpa using hp
    exact ⟨fun ha => absurd (hA a ha) hp', fun hs => absurd (hA a (hSA a hs)) hp'⟩
  rw [e1, e2, e3, e4]
  ring

end abstract

variable {K : Type} [Field K] [LinearOrder K] [IsStrictOrderedRing K]

/-- `marginal` only depends on the set of attributes -/
theorem marginal_congr_set (d : Dom) (pots : CliqueVec (LogOf K)) (X Y : List Attr)
    (h : ∀ a, a ∈ X ↔ a ∈ Y) (σ : Attr → Nat) : marginal d pots X σ = marginal d pots Y σ := by
  unfold marginal
  have : d.invert X = d.invert Y := by
    unfold Dom.invert
    apply List.filter_congr
    intro a _
    by_cases hx : a ∈ X
    · simp [hx, (h a).mp hx]
    · have hy : a ∉ Y := fun hy => hx ((h a).mpr hy)
      simp [hx, hy]
  rw [this]

theorem override_map_self (σ : Attr → Nat) (U : List Attr) : Dom.override σ U (U.map σ) = σ := by
  funext a
  by_cases ha : a ∈ U
  · rw [override_of_mem _ _ _ _ ha, getD_map_idxOf U σ 0 a ha]
  · rw [override_of_not_mem _ _ _ _ ha]

section model
variable {d : Dom} {cliques : List Clique} {t : Tree} {order : List (Clique × Clique)}
  {pots : CliqueVec (LogOf K)} (hok : ModelOK d cliques t order pots)
include hok

theorem pot_sem_nonneg (p : Clique × Factor (LogOf K)) (hp : p ∈ pots) (τ : Attr → Nat) :
    0 ≤ (p.2.sem τ).v := by
  unfold Factor.sem NdArr.get
  rw [Array.getD_eq_getD_getElem?]
  cases h : p.2.vals.data[ravel p.2.vals.shape (List.map τ p.2.dom.attrs)]? with
  | none => show (0 : K) ≤ 1; exact zero_le_one
  | some x =>
    have hx : x ∈ p.2.vals.data.toList := by
      rw [Array.mem_toList_iff]
      exact Array.mem_of_getElem? h
    exact hok.nonneg p hp x hx

theorem joint_nonneg (τ : Attr → Nat) : 0 ≤ joint pots τ := by
  unfold joint
  apply List.prod_nonneg
  intro a ha
  obtain ⟨p, hp, rfl⟩ := List.mem_map.mp ha
  exact pot_sem_nonneg hok p hp τ

theorem marginal_nonneg (X : List Attr) (σ : Attr → Nat) : 0 ≤ marginal d pots X σ := by
  unfold marginal sumOver
  apply List.sum_nonneg
  intro a ha
  obtain ⟨v, _, rfl⟩ := List.mem_map.mp ha
  exact joint_nonneg hok _

/-- a marginal vanishes wherever a coarser marginal does -/
theorem marginal_zero_of_sub (as bs : List Attr) (has : as.Nodup) (hbs : bs.Nodup)
    (hsub : ∀ a ∈ as, a ∈ d.attrs) (hbsub : ∀ b ∈ bs, b ∈ as) (σ : Attr → Nat) (hσ : d.Valid σ)
    (h0 : marginal d pots bs σ = 0) : marginal d pots as σ = 0 := by
  have hd := hok.dom_wf
  have hc := marginal_consistent d pots as bs σ hd has hbs hsub hbsub hσ
  rw [h0] at hc
  unfold sumOver at hc
  have hmem : marginal d pots as σ ∈ (cells ((as.filter (fun a => !bs.contains a)).map d.cfg)).map
      (fun v => marginal d pots as (Dom.override σ (as.filter (fun a => !bs.contains a)) v)) := by
    refine List.mem_map.mpr ⟨(as.filter (fun a => !bs.contains a)).map σ, ?_, ?_⟩
    · rw [mem_cells_iff]
      apply NdArr.inRange_map
      intro a ha
      exact (Dom.valid_iff d hd σ).mp hσ a (hsub a (List.mem_filter.mp ha).1)
    · rw [override_map_self]
  exact List.all_zero_of_le_zero_le_of_sum_eq_zero
    (fun x hx => by
      obtain ⟨v, _, rfl⟩ := List.mem_map.mp hx
      exact marginal_nonneg hok _ _) hc hmem

/-- **conditional independence across a separating cut of the cliques**: `r` splits the cliques into
two sides whose attribute sets meet only inside `S` -/
theorem model_ci (r : Clique → Bool) (S A B : List Attr)
    (hsep : ∀ a ∈ d.attrs, ∀ n ∈ cliques, ∀ m ∈ cliques, a ∈ n → a ∈ m → r n = true → r m = false → a ∈ S)
    (hA : ∀ a ∈ A, ∃ n ∈ cliques, r n = false ∧ a ∈ n)
    (hB : ∀ a ∈ B, ∃ n ∈ cliques, r n = true ∧ a ∈ n)
    (hSA : ∀ a ∈ S, a ∈ A) (hSB : ∀ a ∈ S, a ∈ B) (σ : Attr → Nat) :
    marginal d pots (A ++ B) σ * marginal d pots S σ = marginal d pots A σ * marginal d pots B σ := by
  have hd := hok.dom_wf
  have hkey : ∀ q ∈ pots, q.1 ∈ cliques := by
    intro q hq
    rw [← hok.keys]
    exact List.mem_map_of_mem hq
  have hattr : ∀ q ∈ pots, ∀ a ∈ q.2.dom.attrs, a ∈ q.1 ∧ a ∈ d.attrs := by
    intro q hq a ha
    have h1 : a ∈ q.1 := (hok.pot_ok q hq).2.1.mem_iff.mp ha
    exact ⟨h1, (hok.clique_ok q.1 (hkey q hq)).2 a h1⟩
  let AL := d.attrs.filter (fun a => cliques.any (fun n => !r n && n.contains a))
  let AR := d.attrs.filter (fun a => cliques.any (fun n => r n && n.contains a))
  have hAL : ∀ a, a ∈ AL ↔ a ∈ d.attrs ∧ ∃ n ∈ cliques, r n = false ∧ a ∈ n := by
    intro a; simp [AL, List.mem_filter]
  have hAR : ∀ a, a ∈ AR ↔ a ∈ d.attrs ∧ ∃ n ∈ cliques, r n = true ∧ a ∈ n := by
    intro a; simp [AR, List.mem_filter]
  let FL : (Attr → Nat) → K := fun τ =>
    ((pots.filter (fun q => !r q.1)).map (fun q => (q.2.sem τ).v)).prod
  let FR : (Attr → Nat) → K := fun τ =>
    ((pots.filter (fun q => r q.1)).map (fun q => (q.2.sem τ).v)).prod
  have hFL : DependsOn FL AL := by
    intro σ τ h
    show (List.map _ _).prod = (List.map _ _).prod
    congr 1
    apply List.map_congr_left
    intro q hq
    obtain ⟨hq1, hq2⟩ := List.mem_filter.mp hq
    congr 1
    apply sem_congr
    intro a ha
    obtain ⟨h1, h2⟩ := hattr q hq1 a ha
    exact h a ((hAL a).mpr ⟨h2, q.1, hkey q hq1, by simpa using hq2, h1⟩)
  have hFR : DependsOn FR AR := by
    intro σ τ h
    show (List.map _ _).prod = (List.map _ _).prod
    congr 1
    apply List.map_congr_left
    intro q hq
    obtain ⟨hq1, hq2⟩ := List.mem_filter.mp hq
    congr 1
    apply sem_congr
    intro a ha
    obtain ⟨h1, h2⟩ := hattr q hq1 a ha
    exact h a ((hAR a).mpr ⟨h2, q.1, hkey q hq1, hq2, h1⟩)
  have hjoint : joint pots = fun τ => FL τ * FR τ := by
    funext τ
    exact (prod_map_filter_split pots (fun q => r q.1) (fun q => (q.2.sem τ).v)).symm
  have hAd : ∀ a ∈ A, a ∈ d.attrs := by
    intro a ha
    obtain ⟨n, hn, _, han⟩ := hA a ha
    exact (hok.clique_ok n hn).2 a han
  unfold marginal
  rw [hjoint]
  apply ci_abstract d hd FL FR AL AR A B S hFL hFR
  · intro a ha
    exact (hAL a).mpr ⟨hAd a ha, hA a ha⟩
  · exact hSA
  · exact hSB
  · intro a hb hl
    obtain ⟨n, hn, hrn, han⟩ := hB a hb
    obtain ⟨had, m, hm, hrm, ham⟩ := (hAL a).mp hl
    exact hsep a had n hn m hm han ham hrn hrm
  · intro a hl hr
    obtain ⟨had, m, hm, hrm, ham⟩ := (hAL a).mp hl
    obtain ⟨_, n, hn, hrn, han⟩ := (hAR a).mp hr
    exact hsep a had n hn m hm han ham hrn hrm

end model

end PGM.Sem
