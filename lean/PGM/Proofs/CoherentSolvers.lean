import PGM.Model.Solvers
/-! bookkeeping of the three solver state machines (helpers for `CoherentSem`) -/
namespace PGM.Coherent
open PGM PGM.Solvers

theorem foldl_inv {σ ι : Type} (P : σ → Prop) (f : σ → ι → σ) (l : List ι) (s : σ)
    (h0 : P s) (hstep : ∀ s x, P s → P (f s x)) : P (l.foldl f s) := by
  induction l generalizing s with
  | nil => exact h0
  | cons x xs ih => exact ih _ (hstep s x h0)

variable {α : Type} [Scalar α]

theorem md_exit_pair_aux (bp : CliqueVec α → CliqueVec α) (lossgrad : CliqueVec α → α × CliqueVec α)
    (iters : Nat) (theta0 : CliqueVec α) (alpha0 : α) :
    (mirrorDescent bp lossgrad iters theta0 alpha0).marginals = none ∨
    (mirrorDescent bp lossgrad iters theta0 alpha0).marginals
      = some (bp (mirrorDescent bp lossgrad iters theta0 alpha0).potentials) := by
  unfold mirrorDescent
  dsimp only
  split
  · exact Or.inl rfl
  · right
    dsimp only
    congr 1
    apply foldl_inv (fun st : CliqueVec α × CliqueVec α × (α × CliqueVec α) × α => st.2.1 = bp st.1)
    · rfl
    · intro st _ hst
      obtain ⟨theta, mu, ans, alpha⟩ := st
      dsimp only at hst ⊢
      apply foldl_inv (fun tr : CliqueVec α × CliqueVec α × (α × CliqueVec α) × α × Bool => tr.2.1 = bp tr.1)
      · exact hst
      · intro tr _ htr
        obtain ⟨th, m, a, al, done⟩ := tr
        dsimp only at htr ⊢
        cases done with
        | true => simpa using htr
        | false =>
          simp only [Bool.false_eq_true, if_false]
          split <;> rfl

end PGM.Coherent

namespace PGM.Coherent
open PGM PGM.Solvers
variable {α : Type} [Scalar α]

theorem rda_exit_aux (bp : CliqueVec α → CliqueVec α) (grad mleF : CliqueVec α → CliqueVec α) (d : Dom)
    (cliques : List JT.Clique) (zeros : CliqueVec α) (iters : Nat) (theta0 : CliqueVec α) (L total : α) :
    (dualAveraging bp grad mleF d cliques zeros iters theta0 L total).marginals = none ∨
    ∃ w, (dualAveraging bp grad mleF d cliques zeros iters theta0 L total).marginals = some w ∧
      (dualAveraging bp grad mleF d cliques zeros iters theta0 L total).potentials = mleF w := by
  unfold dualAveraging
  dsimp only
  split
  · exact Or.inl rfl
  · exact Or.inr ⟨_, rfl, rfl⟩

theorem ig_exit_aux (bp : CliqueVec α → CliqueVec α) (grad mleF : CliqueVec α → CliqueVec α)
    (iters : Nat) (theta0 : CliqueVec α) (L total : α) :
    ∃ w, (interiorGradient bp grad mleF iters theta0 L total).marginals = some w ∧
      (interiorGradient bp grad mleF iters theta0 L total).potentials = mleF w :=
  ⟨_, rfl, rfl⟩
end PGM.Coherent
