import PGM.Model.NdArr
import PGM.Proofs.Domain
/-! basic `get` lemmas for the numpy contracts -/
namespace PGM.NdArr
variable {α : Type} [Inhabited α]
set_option linter.unusedSectionVars false

theorem ofFn_WF (s : List Nat) (f : List Nat → α) : (ofFn s f).WF := by
  simp [WF, ofFn, length_cells]

@[simp] theorem ofFn_shape (s : List Nat) (f : List Nat → α) : (ofFn s f).shape = s := rfl

theorem get_ofFn (s : List Nat) (f : List Nat → α) (idx : List Nat) (h : InRange s idx) :
    (ofFn s f).get idx = f idx := by
  have h1 := cells_getElem_ravel s idx h
  simp [get, ofFn, Array.getD_eq_getD_getElem?, List.getElem?_map, h1]

theorem get_reshape (a : NdArr α) (s : List Nat) (idx : List Nat) :
    (a.reshape s).get idx = a.data.getD (ravel s idx) default := rfl

theorem get_map {β : Type} [Inhabited β] (f : α → β) (a : NdArr α) (idx : List Nat)
    (hw : a.WF) (h : InRange a.shape idx) : (a.map f).get idx = f (a.get idx) := by
  have hlt := ravel_lt a.shape idx h
  unfold WF at hw
  simp [get, map, Array.getD_eq_getD_getElem?, hw, hlt]

theorem get_zipWith {β γ : Type} [Inhabited β] [Inhabited γ] (f : α → β → γ) (a : NdArr α) (b : NdArr β)
    (idx : List Nat) (ha : a.WF) (hb : b.WF) (hs : a.shape = b.shape) (h : InRange a.shape idx) :
    (zipWith f a b).get idx = f (a.get idx) (b.get idx) := by
  have hlt := ravel_lt a.shape idx h
  unfold WF at ha hb
  have hlt' : ravel a.shape idx < b.data.size := by rw [hb, ← hs]; exact hlt
  have hlt'' : ravel a.shape idx < a.data.size := by rw [ha]; exact hlt
  have hz : ravel a.shape idx < (Array.zipWith f a.data b.data).size := by
    simp [Array.size_zipWith]; omega
  simp only [get, zipWith, Array.getD_eq_getD_getElem?, ← hs]
  rw [Array.getElem?_eq_getElem hz, Array.getElem?_eq_getElem hlt', Array.getElem?_eq_getElem hlt'']
  simp

theorem zipWith_WF {β γ : Type} (f : α → β → γ) (a : NdArr α) (b : NdArr β)
    (ha : a.WF) (hb : b.WF) (hs : a.shape = b.shape) : (zipWith f a b).WF := by
  unfold WF at *
  simp [zipWith, ha, hb, hs]

theorem map_WF {β : Type} (f : α → β) (a : NdArr α) (ha : a.WF) : (a.map f).WF := by
  unfold WF at *; simp [map, ha]


/-! ### index-level lemmas -/

theorem inRange_iff (s idx : List Nat) :
    InRange s idx ↔ idx.length = s.length ∧ ∀ i, i < s.length → idx.getD i 0 < s.getD i 0 := by
  induction s generalizing idx with
  | nil => cases idx <;> simp [InRange]
  | cons n ns ih =>
    cases idx with
    | nil => simp [InRange]
    | cons i is =>
      simp only [InRange, ih, List.length_cons]
      constructor
      · rintro ⟨h0, hl, hr⟩
        refine ⟨by omega, ?_⟩
        intro j hj
        cases j with
        | zero => simpa using h0
        | succ j => simpa using hr j (by omega)
      · rintro ⟨hl, hr⟩
        refine ⟨by simpa using hr 0 (by omega), by omega, ?_⟩
        intro j hj
        simpa using hr (j+1) (by omega)

theorem inRange_map {β : Type} (l : List β) (c σ : β → Nat) (h : ∀ a ∈ l, σ a < c a) :
    InRange (l.map c) (l.map σ) := by
  induction l with
  | nil => trivial
  | cons x xs ih =>
    exact ⟨h x (by simp), ih (fun a ha => h a (by simp [ha]))⟩

theorem size_replicate_one (d : Nat) : size (List.replicate d 1) = 1 := by
  induction d with
  | zero => rfl
  | succ d ih => simp [List.replicate_succ, size, ih]

theorem size_append_ones (s : List Nat) (d : Nat) : size (s ++ List.replicate d 1) = size s := by
  induction s with
  | nil => simpa [size] using size_replicate_one d
  | cons n ns ih => simp [size, ih]

theorem ravel_replicate_zero (s : List Nat) (d : Nat) : ravel s (List.replicate d 0) = 0 := by
  induction s generalizing d with
  | nil => rfl
  | cons n ns ih =>
    cases d with
    | zero => rfl
    | succ d => simp [List.replicate_succ, ravel, ih]

theorem ravel_append_zeros (s i : List Nat) (d : Nat) (h : i.length = s.length) :
    ravel (s ++ List.replicate d 1) (i ++ List.replicate d 0) = ravel s i := by
  induction s generalizing i with
  | nil =>
    cases i with
    | nil => simpa [ravel] using ravel_replicate_zero (List.replicate d 1) d
    | cons => simp at h
  | cons n ns ih =>
    cases i with
    | nil => simp at h
    | cons j js =>
      simp only [List.cons_append, ravel, size_append_ones]
      rw [ih js (by simpa using h)]


/-! ### `moveaxisPerm n (range k) ax` -/

theorem moveaxisPerm_length (n : Nat) (src dst : List Nat) : (moveaxisPerm n src dst).length = n := by
  simp [moveaxisPerm]

theorem moveaxisPerm_getD (n : Nat) (src dst : List Nat) (p : Nat) (hp : p < n) :
    (moveaxisPerm n src dst).getD p 0 =
      if dst.contains p then src.getD (dst.idxOf p) 0
      else ((List.range n).filter (fun j => !src.contains j)).getD
        (((List.range p).filter (fun q => !dst.contains q)).length) 0 := by
  simp [moveaxisPerm, List.getD_eq_getElem?_getD, List.getElem?_map, List.getElem?_range hp]

theorem getD_range (k i : Nat) (h : i < k) : (List.range k).getD i 0 = i := by
  simp [List.getD_eq_getElem?_getD, List.getElem?_range h]

section perm
variable (n : Nat) (ax : List Nat) (hnd : ax.Nodup) (hlt : ∀ x ∈ ax, x < n)
include hnd hlt

theorem ax_length_le : ax.length ≤ n := by
  have := length_filter_not_mem_range n ax hnd hlt
  omega

theorem moveaxisPerm_mem (p : Nat) (hp : p ∈ ax) :
    (moveaxisPerm n (List.range ax.length) ax).getD p 0 = ax.idxOf p := by
  rw [moveaxisPerm_getD n _ _ p (hlt p hp)]
  have : ax.contains p = true := by simpa using hp
  rw [if_pos this]
  exact getD_range _ _ (List.idxOf_lt_length_iff.mpr hp)

theorem moveaxisPerm_not_mem (p : Nat) (hpn : p < n) (hp : p ∉ ax) :
    ax.length ≤ (moveaxisPerm n (List.range ax.length) ax).getD p 0 ∧
      (moveaxisPerm n (List.range ax.length) ax).getD p 0 < n := by
  rw [moveaxisPerm_getD n _ _ p hpn]
  have hc : ax.contains p = false := by simpa using hp
  rw [hc]
  simp only [Bool.false_eq_true, if_false]
  have hk := ax_length_le n ax hnd hlt
  have h1 := length_filter_not_mem_range n ax hnd hlt
  have h2 := length_filter_not_mem_range n (List.range ax.length) List.nodup_range
    (by intro x hx; simp at hx; omega)
  have h3 := length_filter_range_lt n p (fun q => !ax.contains q) hpn (by simpa using hp)
  simp only [List.length_range] at h2
  have h4 : ((List.range p).filter (fun q => !ax.contains q)).length <
      ((List.range n).filter (fun j => !(List.range ax.length).contains j)).length := by omega
  rw [List.getD_eq_getElem?_getD, List.getElem?_eq_getElem h4]
  obtain ⟨hm1, hm2⟩ := List.mem_filter.mp (List.getElem_mem h4)
  simp only [Option.getD_some]
  generalize ((List.range n).filter (fun j => !(List.range ax.length).contains j))[((List.range p).filter (fun q => !ax.contains q)).length] = x at hm1 hm2 ⊢
  simp at hm1 hm2
  exact ⟨hm2, hm1⟩

theorem moveaxisPerm_idxOf_lt (j : Nat) (hj : j < ax.length) :
    (moveaxisPerm n (List.range ax.length) ax).idxOf j = ax[j] := by
  have hmem : ax[j] ∈ ax := List.getElem_mem hj
  have hn : ax[j] < n := hlt _ hmem
  have hval := moveaxisPerm_mem n ax hnd hlt ax[j] hmem
  rw [hnd.idxOf_getElem j hj] at hval
  have hlen := moveaxisPerm_length n (List.range ax.length) ax
  -- `j` occurs in the permutation
  have hjin : j ∈ moveaxisPerm n (List.range ax.length) ax := by
    rw [List.mem_iff_getElem]
    refine ⟨ax[j], by omega, ?_⟩
    rw [List.getD_eq_getElem?_getD, List.getElem?_eq_getElem (by omega)] at hval
    simpa using hval
  have hq := List.idxOf_lt_length_iff.mpr hjin
  have hget := List.getElem_idxOf hq
  generalize hqdef : (moveaxisPerm n (List.range ax.length) ax).idxOf j = q at *
  rw [hlen] at hq
  have hgetD : (moveaxisPerm n (List.range ax.length) ax).getD q 0 = j := by
    rw [List.getD_eq_getElem?_getD, List.getElem?_eq_getElem (by omega)]
    simpa using hget
  by_cases hqa : q ∈ ax
  · rw [moveaxisPerm_mem n ax hnd hlt q hqa] at hgetD
    have h5 := List.getElem_idxOf (List.idxOf_lt_length_iff.mpr hqa)
    simp only [hgetD] at h5
    exact h5.symm
  · have := (moveaxisPerm_not_mem n ax hnd hlt q hq hqa).1
    omega

theorem moveaxisPerm_idxOf_ge (j : Nat) (hj : ax.length ≤ j) :
    n ≤ (moveaxisPerm n (List.range ax.length) ax).idxOf j ∨
      (moveaxisPerm n (List.range ax.length) ax).idxOf j ∉ ax := by
  have hlen := moveaxisPerm_length n (List.range ax.length) ax
  by_cases hjin : j ∈ moveaxisPerm n (List.range ax.length) ax
  · right
    have hq := List.idxOf_lt_length_iff.mpr hjin
    have hget := List.getElem_idxOf hq
    generalize hqdef : (moveaxisPerm n (List.range ax.length) ax).idxOf j = q at *
    have hgetD : (moveaxisPerm n (List.range ax.length) ax).getD q 0 = j := by
      rw [List.getD_eq_getElem?_getD, List.getElem?_eq_getElem hq]
      simpa using hget
    intro hqa
    rw [moveaxisPerm_mem n ax hnd hlt q hqa] at hgetD
    have := List.idxOf_lt_length_iff.mpr hqa
    omega
  · left
    rw [List.idxOf_eq_length hjin, hlen]
    exact Nat.le_refl _

end perm

/-! ### `moveaxis (range k) ax` on an array whose trailing axes have extent 1 -/

theorem moveaxis_shape (a : NdArr α) (src dst : List Nat) :
    (a.moveaxis src dst).shape = (moveaxisPerm a.shape.length src dst).map (fun p => a.shape.getD p 0) := rfl

theorem moveaxis_shape_getD (a : NdArr α) (src dst : List Nat) (p : Nat) (hp : p < a.shape.length) :
    (a.moveaxis src dst).shape.getD p 0
      = a.shape.getD ((moveaxisPerm a.shape.length src dst).getD p 0) 0 := by
  have hl := moveaxisPerm_length a.shape.length src dst
  rw [moveaxis_shape]
  simp only [List.getD_eq_getElem?_getD, List.getElem?_map]
  rw [List.getElem?_eq_getElem (by omega)]
  simp

section ones
variable (a : NdArr α) (s : List Nat) (d : Nat) (ax : List Nat)
  (hs : a.shape = s ++ List.replicate d 1) (hnd : ax.Nodup) (hlt : ∀ x ∈ ax, x < s.length + d)
  (hk : ax.length = s.length)
include hs hnd hlt hk

theorem moveaxis_ones_shape_length :
    (a.moveaxis (List.range ax.length) ax).shape.length = s.length + d := by
  rw [moveaxis_shape]; simp [moveaxisPerm_length, hs]

theorem moveaxis_ones_shape_mem (p : Nat) (hp : p ∈ ax) :
    (a.moveaxis (List.range ax.length) ax).shape.getD p 0 = s.getD (ax.idxOf p) 0 := by
  have hn : a.shape.length = s.length + d := by simp [hs]
  rw [moveaxis_shape_getD a _ _ p (by rw [hn]; exact hlt p hp), hn,
    moveaxisPerm_mem _ ax hnd hlt p hp, hs]
  have := List.idxOf_lt_length_iff.mpr hp
  simp only [List.getD_eq_getElem?_getD]
  rw [List.getElem?_append_left (by omega)]

theorem moveaxis_ones_shape_not_mem (p : Nat) (hpn : p < s.length + d) (hp : p ∉ ax) :
    (a.moveaxis (List.range ax.length) ax).shape.getD p 0 = 1 := by
  have hn : a.shape.length = s.length + d := by simp [hs]
  rw [moveaxis_shape_getD a _ _ p (by rw [hn]; exact hpn), hn, hs]
  obtain ⟨h1, h2⟩ := moveaxisPerm_not_mem _ ax hnd hlt p hpn hp
  generalize (moveaxisPerm (s.length + d) (List.range ax.length) ax).getD p 0 = q at h1 h2
  simp only [List.getD_eq_getElem?_getD]
  rw [List.getElem?_append_right (by omega)]
  rw [List.getElem?_replicate]
  rw [if_pos (by omega)]
  rfl

theorem get_moveaxis_ones (idx : List Nat)
    (hr : InRange (a.moveaxis (List.range ax.length) ax).shape idx)
    (h0 : ∀ p, p < s.length + d → p ∉ ax → idx.getD p 0 = 0) :
    (a.moveaxis (List.range ax.length) ax).get idx
      = a.data.getD (ravel s (ax.map (fun p => idx.getD p 0))) default := by
  have hn : a.shape.length = s.length + d := by simp [hs]
  have hidx : idx.length = s.length + d := by
    rw [hr.length_eq]; exact moveaxis_ones_shape_length a s d ax hs hnd hlt hk
  have key : (List.range a.shape.length).map
      (fun j => idx.getD ((moveaxisPerm a.shape.length (List.range ax.length) ax).idxOf j) 0)
      = ax.map (fun p => idx.getD p 0) ++ List.replicate d 0 := by
    rw [hn]
    apply List.ext_getElem
    · simp [hk]
    · intro i h1 h2
      simp only [List.getElem_map, List.getElem_range]
      by_cases hi : i < ax.length
      · rw [List.getElem_append_left (by simpa using hi)]
        rw [moveaxisPerm_idxOf_lt _ ax hnd hlt i hi]
        simp
      · rw [List.getElem_append_right (by simpa using hi)]
        simp only [List.getElem_replicate]
        rcases moveaxisPerm_idxOf_ge (s.length + d) ax hnd hlt i (by omega) with h | h
        · rw [List.getD_eq_getElem?_getD, List.getElem?_eq_none (by omega)]; rfl
        · by_cases hq : (moveaxisPerm (s.length + d) (List.range ax.length) ax).idxOf i < s.length + d
          · exact h0 _ hq h
          · rw [List.getD_eq_getElem?_getD, List.getElem?_eq_none (by omega)]; rfl
  have hget : (a.moveaxis (List.range ax.length) ax).get idx
      = a.get ((List.range a.shape.length).map
          (fun j => idx.getD ((moveaxisPerm a.shape.length (List.range ax.length) ax).idxOf j) 0)) :=
    get_ofFn _ _ _ hr
  rw [hget, key]
  simp only [get]
  rw [hs, ravel_append_zeros _ _ _ (by simp [hk])]

end ones

end PGM.NdArr
