import PGM.Model.NdArr
/-! basic `get` lemmas for the numpy contracts -/
namespace PGM.NdArr
variable {α : Type} [Inhabited α]
set_option linter.unusedSectionVars false

theorem ofFn_WF (s : List Nat) (f : List Nat → α) : (ofFn s f).WF := by
  simp [WF, ofFn, length_cells]

@[simp] theorem ofFn_shape (s : List Nat) (f : List Nat → α) : (ofFn s f).shape = s := rfl

theorem get_ofFn (s : List Nat) (f : List Nat → α) (idx : List Nat) (h : InRange s idx) :
    (ofFn s f).get idx = f idx := by
  have h1 := cells_getElem_ravel s idx h
  simp [get, ofFn, Array.getD_eq_getD_getElem?, List.getElem?_map, h1]

theorem get_reshape (a : NdArr α) (s : List Nat) (idx : List Nat) :
    (a.reshape s).get idx = a.data.getD (ravel s idx) default := rfl

theorem get_map {β : Type} [Inhabited β] (f : α → β) (a : NdArr α) (idx : List Nat)
    (hw : a.WF) (h : InRange a.shape idx) : (a.map f).get idx = f (a.get idx) := by
  have hlt := ravel_lt a.shape idx h
  unfold WF at hw
  simp [get, map, Array.getD_eq_getD_getElem?, hw, hlt]

theorem get_zipWith {β γ : Type} [Inhabited β] [Inhabited γ] (f : α → β → γ) (a : NdArr α) (b : NdArr β)
    (idx : List Nat) (ha : a.WF) (hb : b.WF) (hs : a.shape = b.shape) (h : InRange a.shape idx) :
    (zipWith f a b).get idx = f (a.get idx) (b.get idx) := by
  have hlt := ravel_lt a.shape idx h
  unfold WF at ha hb
  have hlt' : ravel a.shape idx < b.data.size := by rw [hb, ← hs]; exact hlt
  have hlt'' : ravel a.shape idx < a.data.size := by rw [ha]; exact hlt
  have hz : ravel a.shape idx < (Array.zipWith f a.data b.data).size := by
    simp [Array.size_zipWith]; omega
  simp only [get, zipWith, Array.getD_eq_getD_getElem?, ← hs]
  rw [Array.getElem?_eq_getElem hz, Array.getElem?_eq_getElem hlt', Array.getElem?_eq_getElem hlt'']
  simp

theorem zipWith_WF {β γ : Type} (f : α → β → γ) (a : NdArr α) (b : NdArr β)
    (ha : a.WF) (hb : b.WF) (hs : a.shape = b.shape) : (zipWith f a b).WF := by
  unfold WF at *
  simp [zipWith, ha, hb, hs]

theorem map_WF {β : Type} (f : α → β) (a : NdArr α) (ha : a.WF) : (a.map f).WF := by
  unfold WF at *; simp [map, ha]

end PGM.NdArr
