import PGM.Proofs.LbpTreeInduct
import PGM.Proofs.OracleSem
/-!
# Loopy belief propagation is exact on tree-structured factor graphs

`FG.lbp` transcribes `loopy_belief_propagation` of `src/mbi/factor_graph.py` (non-convex variant).
Over the reals (`realScalar`), if the bipartite graph attributes ↔ cliques has no cycle and enough
sweeps are run, the table returned for every clique `c` is the exact marginal

  `T · Σ_{x outside c} exp(Σ_k θ_k(x_k)) / Σ_x exp(Σ_k θ_k(x_k))`.

## Statement (`lbp_exact_on_forest`)

* `GraphOK dom cliques pots`: `dom` has distinct attributes, `cliques` are distinct, each clique is a
  duplicate-free tuple of attributes of `dom`, each potential is a well-formed table over
  `dom.project cl` — what `FactorGraph.__init__`/`CliqueVector` provide.
* `PosDom dom`: no attribute of size 0 (otherwise every table is empty and `Σ_x … = 0`).
* `Forest cliques h`: the acyclicity hypothesis, as a ranking `h` of the directed edges
  clique → attribute: whenever the message `g → u` enters the computation of the message `cl → v`
  (`u ∈ cl`, `u ≠ v`, `u ∈ g`, `g ≠ cl`) it has a smaller rank.  A ranking exists iff the bipartite graph
  is a forest (on a cycle `cl₁ − v₁ − cl₂ − … − cl_k − v_k − cl₁` the rank would decrease strictly all
  the way round; on a forest take the height of the subtree behind the edge).
  `not_forest_of_cycle` / `forest_of_elim` prove both directions; the latter builds a ranking below
  `2·#cliques` from an elimination order (each clique shares at most one attribute with the union of
  the later ones), whence `lbp_exact_of_elim` (`iters ≥ 2·#cliques`).
* `iters > h cl v` for every edge `cl → v` towards a *shared* attribute: the number of sweeps is at
  least the height of the deepest subtree hanging off a shared attribute, plus one.  (Within a sweep the
  variable-to-factor messages are recomputed from the *new* factor-to-variable messages, so a chain
  of two cliques needs one sweep, a disjoint family none.)

## Why these hypotheses (counterexamples)

* `cliques.Nodup`: with `cliques = [c, c]` phase 2 computes
  `mu_n[v][c] = 2·mu_f[c][v] − mu_f[c][v] = mu_f[c][v]`: the clique's own message is fed back to it
  (`sum_facOf_sub` needs `Nodup`), and the belief `θ_c + Σ_u mu_f[c][u]` is not the marginal.
* a clique with a repeated attribute, e.g. `("a","a")`: `dom.project` has two axes named `a`, `Factor.expand`
  and `logsumexp` are not the pointwise operations any more (`Factor.WF` fails).
* attributes outside `dom`: phase 2 iterates over `dom.attrs` only, `mu_n[v][cl]` stays at its initial
  value for ever and its table has `cfg v = 0` cells.
* `Factor.sub`'s rule `where(other == -inf, 0, -other)` never fires over `ℝ`
  (`negInfAware_real`); in floating point a potential with `-inf` entries makes `a − a ≠ 0`.
-/
namespace PGM.LbpTree
open PGM PGM.JT PGM.RG PGM.Oracle
set_option linter.unusedSectionVars false
set_option linter.unusedVariables false

/-! ### the specification -/

/-- `Σ_k θ_k(x_k)` -/
noncomputable def logJoint (cliques : List Clique) (pots : CliqueVec ℝ) (τ : Attr → Nat) : ℝ :=
  (cliques.map (fun k => (pots.get k).sem τ)).sum

/-- `Σ_{x outside c} exp(Σ_k θ_k(x_k))` at the cell of `c` named by `σ` -/
noncomputable def marginalR (dom : Dom) (cliques : List Clique) (pots : CliqueVec ℝ) (c : Clique)
    (σ : Attr → Nat) : ℝ :=
  Sem.sumOver dom (dom.invert c) σ (fun τ => Real.exp (logJoint cliques pots τ))

/-- `Σ_x exp(Σ_k θ_k(x_k))` -/
noncomputable def partitionR (dom : Dom) (cliques : List Clique) (pots : CliqueVec ℝ) : ℝ :=
  Sem.sumOver dom dom.attrs (fun _ => 0) (fun τ => Real.exp (logJoint cliques pots τ))

/-! ### positivity of sums of exponentials -/

theorem sumOver_pos (d : Dom) (as : List Attr) (σ : Attr → Nat) (F : (Attr → Nat) → ℝ)
    (hpos : ∀ a ∈ as, d.cfg a ≠ 0) (hF : ∀ τ, 0 < F τ) : 0 < Sem.sumOver d as σ F := by
  unfold Sem.sumOver
  apply List.sum_pos
  · intro x hx
    obtain ⟨v, _, rfl⟩ := List.mem_map.mp hx
    exact hF _
  · intro h
    have h1 := congrArg List.length h
    simp only [List.length_map, length_cells, List.length_nil] at h1
    refine size_ne_zero_of_pos _ ?_ h1
    intro n hn
    obtain ⟨a, ha, rfl⟩ := List.mem_map.mp hn
    exact hpos a ha

/-! ### the potentials as functions -/

theorem sem_dependsOn (dom : Dom) (cl : Clique) (p : Factor ℝ) (hd : p.dom = dom.project cl) :
    Sem.DependsOn (fun σ => p.sem σ) cl := by
  intro σ τ h
  show p.vals.get (p.dom.attrs.map σ) = p.vals.get (p.dom.attrs.map τ)
  rw [hd, Dom.attrs_project]
  congr 1
  exact List.map_congr_left h

theorem lists_of_graphOK {dom : Dom} {cliques : List Clique} {pots : CliqueVec ℝ}
    (hG : GraphOK dom cliques pots) : Lists cliques dom.attrs :=
  ⟨hG.domWF, hG.nodup, hG.tuple, hG.attrs⟩

/-! ### the update equation holds at a stabilised message -/

theorem lsePre_dependsOn (dom : Dom) (pots : CliqueVec ℝ) (cl : Clique) (hn : cl.Nodup) (v : Attr) (hv : v ∈ cl)
    (hpd : (pots.get cl).dom = dom.project cl) (nu : Attr → Nat → ℝ) :
    Sem.DependsOn (lsePre dom pots cl v nu) [v] := by
  have hF : Sem.DependsOn (fun τ => Real.exp ((pots.get cl).sem τ +
      ((cl.filter (fun var => var != v)).map (fun u => nu u (τ u))).sum)) cl := by
    intro σ τ h
    show Real.exp _ = Real.exp _
    have h1 := sem_dependsOn dom cl _ hpd σ τ h
    have := dependsOn_field_sum (cl.filter (fun var => var != v)) nu cl
      (fun u hu => (List.mem_filter.mp hu).1) σ τ h
    simp only at this h1
    rw [this, h1]
  have := hF.sumOver dom (cl.filter (fun var => var != v))
  rw [invert_complement cl hn v hv] at this
  intro σ τ h
  unfold lsePre
  have h2 := this σ τ h
  simp only at h2
  rw [h2]

theorem msgEq_of_stable (dom : Dom) (cliques : List Clique) (pots : CliqueVec ℝ)
    (hG : GraphOK dom cliques pots) (hpos : PosDom dom) (n : Nat) (cl : Clique) (hcl : cl ∈ cliques)
    (v : Attr) (hv : v ∈ cl)
    (hst : ∀ x, x < dom.cfg v →
      Fsem (st dom cliques pots (n + 1)) cl v x = Fsem (st dom cliques pots n) cl v x) :
    MsgEq dom cliques (fun k σ => (pots.get k).sem σ) (fun _ _ => 0) (Fsem (st dom cliques pots n)) cl v := by
  have hn := hG.tuple cl hcl
  have hsub := hG.attrs cl hcl
  have hpd := (hG.potWF cl hcl).2
  have hok := st_ok dom cliques pots hG n
  have hGdep : Sem.DependsOn (fun τ => Real.exp
      (lsePre dom pots cl v (fun u => Nsem (st dom cliques pots n) u cl) τ)) [v] := by
    intro σ τ h
    show Real.exp _ = Real.exp _
    rw [lsePre_dependsOn dom pots cl hn v hv hpd _ σ τ h]
  refine ⟨Real.log (Sem.sumOver dom [v] (fun _ => 0) (fun τ => Real.exp
    (lsePre dom pots cl v (fun u => Nsem (st dom cliques pots n) u cl) τ))), fun σ hσ => ?_⟩
  have hval := (Dom.valid_iff dom hG.domWF σ).mp hσ
  have e1 := (sweep_ok dom cliques pots hG _ hok).2 cl hcl v hv σ hσ
  rw [← st_succ, hst _ (hval v (hsub v hv))] at e1
  rw [e1]
  unfold normMsg
  rw [sumOver_const_of_dependsOn dom [v] [v] _ hGdep (fun a h => h) σ (fun _ => 0), sub_add_cancel]
  -- `exp (G σ)` is the sum
  unfold lsePre
  rw [Real.exp_log (sumOver_pos dom _ σ _ (fun a ha =>
    hpos.cfg_ne_zero a (hsub a (List.mem_filter.mp ha).1)) (fun τ => Real.exp_pos _))]
  apply Sem.sumOver_congr_valid dom hG.domWF _ σ _ _ hσ
  intro τ hτ
  have hvalτ := (Dom.valid_iff dom hG.domWF τ).mp hτ
  congr 3
  apply List.map_congr_left
  intro u hu
  have hu1 := (List.mem_filter.mp hu).1
  unfold nmsg
  show (0 : ℝ) + nOf cliques (Fsem (st dom cliques pots n)) u cl (τ u) = Nsem (st dom cliques pots n) u cl (τ u)
  rw [(hok cl hcl u hu1).2.2 _ (hvalτ u (hsub u hu1)), zero_add]

/-! ### `normalise` pointwise -/

theorem normalise_sem (T : ℝ) (b : Factor ℝ) (hb : b.WF) (σ : Attr → Nat) (hσ : b.dom.Valid σ) :
    (RG.normalise T b).sem σ = Real.exp (b.sem σ + (Real.log T + -Real.log (expSum b))) := by
  have hr := Factor.inRange_of_valid _ hb.1 σ hσ
  show (((b.vals.map (fun v => v + (Real.log T + -Real.log (expSum b)))).map Real.exp).reshape b.dom.shape).get
    (b.dom.attrs.map σ) = _
  rw [Factor.get_reshape_of_shape_eq _ _ (by show b.vals.shape = _; exact hb.2.1)]
  rw [NdArr.get_map _ _ _ (NdArr.map_WF _ _ hb.2.2) (by
    show InRange b.vals.shape _
    rw [hb.2.1]; exact hr)]
  rw [NdArr.get_map _ _ _ hb.2.2 (by rw [hb.2.1]; exact hr)]
  rfl

theorem normalise_WF (T : ℝ) (b : Factor ℝ) (hb : b.WF) : (RG.normalise T b).WF := by
  refine ⟨hb.1, rfl, ?_⟩
  show (RG.normalise T b).vals.data.size = size (RG.normalise T b).vals.shape
  rw [normalise_size, normalise_shape]
  have := hb.2.2
  unfold NdArr.WF at this
  rw [this, hb.2.1]

/-- `Σ exp` over the cells of a table over `dom.project c` as a `sumOver` -/
theorem expSum_eq (dom : Dom) (c : Clique) (hn : c.Nodup) (b : Factor ℝ) (hb : b.WF) (hd : b.dom = dom.project c)
    (σ : Attr → Nat) : expSum b = Sem.sumOver dom c σ (fun τ => Real.exp (b.sem τ)) := by
  unfold expSum Sem.sumOver
  have h1 : b.vals.data.toList = (cells b.dom.shape).map (fun idx => b.vals.get idx) :=
    LossAux.datavector_eq b hb
  rw [h1, hd, Dom.shape_project, List.map_map]
  congr 1
  apply List.map_congr_left
  intro w hw
  simp only [Function.comp]
  congr 1
  unfold Factor.sem
  rw [hd, Dom.attrs_project, Sem.map_override_self σ c w hn (by
    have := (mem_cells_inRange _ _ hw).length_eq
    simpa using this)]

/-! ### the theorem -/

theorem logW_zero (cliques : List Clique) (A : List Attr) (pots : CliqueVec ℝ) (τ : Attr → Nat) :
    logW cliques A (fun k σ => (pots.get k).sem σ) (fun _ _ => 0) τ = logJoint cliques pots τ := by
  unfold logW logJoint
  simp

/-- the real-number content of the theorem: `normalise T b` at `σ` is `T · marginal / Z` -/
theorem exact_of_claim (dom : Dom) (cliques : List Clique) (pots : CliqueVec ℝ)
    (hG : GraphOK dom cliques pots) (hpos : PosDom dom) (T : ℝ) (hT : 0 < T) (c : Clique) (hc : c ∈ cliques)
    (b : Factor ℝ) (hb : b.WF) (hbd : b.dom = dom.project c)
    (hcl : ∃ K : ℝ, ∀ σ, dom.Valid σ → marginalR dom cliques pots c σ = K * Real.exp (b.sem σ))
    (σ : Attr → Nat) (hσ : dom.Valid σ) :
    (RG.normalise T b).sem σ = T * marginalR dom cliques pots c σ / partitionR dom cliques pots := by
  obtain ⟨K, hK⟩ := hcl
  have hn := hG.tuple c hc
  have hsub := hG.attrs c hc
  have hσc : b.dom.Valid σ := by rw [hbd]; exact valid_project dom hG.domWF c hn hsub σ hσ
  have hposattr : ∀ a ∈ dom.attrs, dom.cfg a ≠ 0 := fun a ha => hpos.cfg_ne_zero a ha
  -- `K` is positive
  have hMpos : 0 < marginalR dom cliques pots c σ :=
    sumOver_pos dom _ σ _ (fun a ha => hposattr a (List.mem_filter.mp ha).1) (fun τ => Real.exp_pos _)
  have hKpos : 0 < K := by
    have := hK σ hσ
    rw [this] at hMpos
    exact (mul_pos_iff_of_pos_right (Real.exp_pos _)).mp hMpos
  -- the partition function
  have hJdep : Sem.DependsOn (fun τ => Real.exp (logJoint cliques pots τ)) dom.attrs := by
    intro σ τ h
    show Real.exp _ = Real.exp _
    unfold logJoint
    have := dependsOn_theta_sum cliques (fun k σ => (pots.get k).sem σ) dom.attrs
      (fun k hk => (sem_dependsOn dom k _ (hG.potWF k hk).2).mono (hG.attrs k hk)) σ τ h
    simp only at this
    rw [this]
  have hZ : partitionR dom cliques pots = K * expSum b := by
    unfold partitionR
    rw [sumOver_const_of_dependsOn dom dom.attrs dom.attrs _ hJdep (fun a h => h) (fun _ => 0) σ]
    rw [← Sem.sumOver_split dom dom.attrs (fun a => c.contains a) σ _ hG.domWF]
    have hperm : (dom.attrs.filter (fun a => c.contains a)).Perm c := by
      rw [List.perm_ext_iff_of_nodup (hG.domWF.sublist List.filter_sublist) hn]
      intro a
      simp only [List.mem_filter, List.contains_iff_mem]
      exact ⟨fun h => h.2, fun h => ⟨hsub a h, h⟩⟩
    rw [Sem.sumOver_congr_valid dom hG.domWF _ σ
      (fun τ => Sem.sumOver dom (dom.attrs.filter (fun a => !c.contains a)) τ
        (fun τ => Real.exp (logJoint cliques pots τ)))
      (fun τ => K * Real.exp (b.sem τ)) hσ (fun τ hτ => hK τ hτ),
      Sem.sumOver_mul_left, Sem.sumOver_perm dom _ _ σ _ hperm (hG.domWF.sublist List.filter_sublist),
      ← expSum_eq dom c hn b hb hbd σ]
  have hSpos : 0 < expSum b := by
    rw [expSum_eq dom c hn b hb hbd σ]
    exact sumOver_pos dom c σ _ (fun a ha => hposattr a (hsub a ha)) (fun τ => Real.exp_pos _)
  rw [normalise_sem T b hb σ hσc, cell_eq T (expSum b) _ hT hSpos, hZ, hK σ hσ]
  field_simp

/-- **Loopy belief propagation is exact on forests.**  For every clique `c` the returned table is a
well-formed table over `dom.project c` whose entry at every cell is
`T · Σ_{x outside c} exp(Σ_k θ_k) / Σ_x exp(Σ_k θ_k)`. -/
theorem lbp_exact_on_forest (dom : Dom) (cliques : List Clique) (pots : CliqueVec ℝ) (T : ℝ) (iters : Nat)
    (h : Clique → Attr → Nat)
    (hG : GraphOK dom cliques pots) (hpos : PosDom dom) (hF : Forest cliques h)
    (hiters : ∀ cl ∈ cliques, ∀ v ∈ cl, Shared cliques cl v → h cl v < iters)
    (hT : 0 < T) (c : Clique) (hc : c ∈ cliques) :
    let table := (FG.lbp dom cliques pots T iters (FG.initMessages dom cliques)).1.get c
    table.WF ∧ table.dom = dom.project c ∧
    ∀ σ, dom.Valid σ → table.sem σ = T * marginalR dom cliques pots c σ / partitionR dom cliques pots := by
  intro table
  have htab : table = RG.normalise T (lbpBelief dom cliques pots iters (FG.initMessages dom cliques) c) :=
    lbp_get dom cliques pots T iters _ c hc
  have hok := st_ok dom cliques pots hG iters
  obtain ⟨hbw, hbd, hbs⟩ := belief_sem dom cliques pots hG (st dom cliques pots iters) c hc
    (fun u hu => (hok c hc u hu).1)
  have hbel : lbpBelief dom cliques pots iters (FG.initMessages dom cliques) c
      = addSum (pots.get c) (pySum (c.map (fun n => FG.getN (st dom cliques pots iters) n c))) := rfl
  rw [htab, hbel]
  set b := addSum (pots.get c) (pySum (c.map (fun n => FG.getN (st dom cliques pots iters) n c))) with hbdef
  refine ⟨normalise_WF T b hbw, hbd, ?_⟩
  -- the abstract theorem
  have hclaim := marginal_of_consistent dom hG.domWF (fun k σ => (pots.get k).sem σ)
    (Fsem (st dom cliques pots iters)) h (fun cl v => h cl v < iters) cliques.length cliques dom.attrs
    (fun _ _ => 0) c rfl (lists_of_graphOK hG)
    (fun k hk => sem_dependsOn dom k _ (hG.potWF k hk).2) hF hiters
    (fun cl hcl v hv hlt => msgEq_of_stable dom cliques pots hG hpos iters cl hcl v hv
      (fun x hx => stable dom cliques pots hG hpos h hF (h cl v) cl hcl v hv rfl iters hlt x hx))
    hc
  obtain ⟨K, hK⟩ := hclaim
  intro σ hσ
  apply exact_of_claim dom cliques pots hG hpos T hT c hc b hbw hbd ⟨K, ?_⟩ σ hσ
  intro τ hτ
  have := hK τ hτ
  simp only [logW_zero] at this
  unfold marginalR Dom.invert
  rw [this]
  congr 2
  -- the abstract belief is the belief table
  rw [hbs τ (valid_project dom hG.domWF c (hG.tuple c hc) (hG.attrs c hc) τ hτ)]
  unfold bel
  congr 2
  apply List.map_congr_left
  intro u hu
  unfold nmsg
  show (0 : ℝ) + nOf cliques (Fsem (st dom cliques pots iters)) u c (τ u) = Nsem (st dom cliques pots iters) u c (τ u)
  rw [(hok c hc u hu).2.2 _ ((Dom.valid_iff dom hG.domWF τ).mp hτ u (hG.attrs c hc u hu)), zero_add]


/-- the same statement cell by cell: the entry of the returned table at the multi-index `cell` -/
theorem lbp_exact_cells (dom : Dom) (cliques : List Clique) (pots : CliqueVec ℝ) (T : ℝ) (iters : Nat)
    (h : Clique → Attr → Nat)
    (hG : GraphOK dom cliques pots) (hpos : PosDom dom) (hF : Forest cliques h)
    (hiters : ∀ cl ∈ cliques, ∀ v ∈ cl, Shared cliques cl v → h cl v < iters)
    (hT : 0 < T) (c : Clique) (hc : c ∈ cliques) (cell : List Nat) (hcell : cell ∈ cells (c.map dom.cfg)) :
    ((FG.lbp dom cliques pots T iters (FG.initMessages dom cliques)).1.get c).vals.get cell
      = T * marginalR dom cliques pots c (Dom.assign c cell) / partitionR dom cliques pots := by
  obtain ⟨hw, hd, hs⟩ := lbp_exact_on_forest dom cliques pots T iters h hG hpos hF hiters hT c hc
  set table := (FG.lbp dom cliques pots T iters (FG.initMessages dom cliques)).1.get c with htab
  have hcell' : cell ∈ cells table.dom.shape := by rw [hd, Dom.shape_project]; exact hcell
  have hsem := LossAux.sem_assign table hw cell hcell'
  rw [hd, Dom.attrs_project] at hsem
  rw [← hsem]
  apply hs
  -- `Dom.assign c cell` is valid for `dom`: inside `c` by the range of the cell, `0` elsewhere
  rw [Dom.valid_iff dom hG.domWF]
  intro a ha
  by_cases hac : a ∈ c
  · have hv := LossAux.valid_assign table.dom hw.1 cell hcell'
    rw [hd, Dom.valid_iff _ (project_WF dom c (hG.tuple c hc)), Dom.attrs_project] at hv
    have := hv a hac
    rwa [Dom.cfg_project dom c a hac] at this
  · unfold Dom.assign
    have : c.contains a = false := by
      rw [Bool.eq_false_iff]; exact fun h => hac (List.contains_iff_mem.mp h)
    rw [this]
    exact Nat.pos_of_ne_zero (hpos.cfg_ne_zero a ha)

/-! ## `Forest` is acyclicity of the bipartite graph

`not_forest_of_cycle`: a closed non-backtracking walk `cl₀ − v₀ − cl₁ − v₁ − … − cl_k = cl₀` rules out
every ranking.  `forest_of_elim`: an elimination order (each clique shares at most one attribute with
the union of the later ones — the graph is built by attaching stars by at most one edge) yields a
ranking below `2 · #cliques`. -/

theorem not_forest_of_cycle (cliques : List Clique) (cl : Nat → Clique) (v : Nat → Attr) (k : Nat)
    (hper : cl k = cl 0 ∧ v k = v 0) (hk : 0 < k) (hmem : ∀ i, cl i ∈ cliques) (h1 : ∀ i, v i ∈ cl i)
    (h2 : ∀ i, v i ∈ cl (i + 1)) (h3 : ∀ i, cl i ≠ cl (i + 1)) (h4 : ∀ i, v i ≠ v (i + 1))
    (h : Clique → Attr → Nat) : ¬ Forest cliques h := by
  intro hF
  have step : ∀ i, h (cl i) (v i) < h (cl (i + 1)) (v (i + 1)) := fun i =>
    hF (cl (i + 1)) (hmem _) (v (i + 1)) (h1 _) (v i) (h2 i) (h4 i) (cl i) (hmem i) (h3 i) (h1 i)
  have mono : ∀ i, h (cl 0) (v 0) + i ≤ h (cl i) (v i) := by
    intro i
    induction i with
    | zero => simp
    | succ i ih => have := step i; omega
  have := mono k
  rw [hper.1, hper.2] at this
  omega

/-- two cliques with two common attributes: no ranking -/
theorem not_forest_of_two_shared (cliques : List Clique) (c1 c2 : Clique) (a b : Attr)
    (h1 : c1 ∈ cliques) (h2 : c2 ∈ cliques) (hne : c1 ≠ c2) (hab : a ≠ b)
    (ha1 : a ∈ c1) (ha2 : a ∈ c2) (hb1 : b ∈ c1) (hb2 : b ∈ c2) (h : Clique → Attr → Nat) :
    ¬ Forest cliques h := by
  intro hF
  have e1 := hF c1 h1 a ha1 b hb1 hab.symm c2 h2 hne.symm hb2
  have e2 := hF c2 h2 b hb2 a ha2 hab c1 h1 hne ha1
  omega

/-- each clique shares at most one attribute with the union of the later ones -/
def ElimOrder : List Clique → Prop
  | [] => True
  | c :: rest => (∀ u ∈ c, ∀ w ∈ c, (∃ g ∈ rest, u ∈ g) → (∃ g ∈ rest, w ∈ g) → u = w) ∧ ElimOrder rest

theorem forest_of_elim : ∀ cliques : List Clique, cliques.Nodup → ElimOrder cliques →
    ∃ h : Clique → Attr → Nat, Forest cliques h ∧ ∀ cl ∈ cliques, ∀ v, h cl v < 2 * cliques.length
  | [], _, _ => ⟨fun _ _ => 0, fun cl hcl => by simp at hcl, fun cl hcl => by simp at hcl⟩
  | c :: rest, hnd, hel => by
    rw [List.nodup_cons] at hnd
    obtain ⟨h, hF, hb⟩ := forest_of_elim rest hnd.2 hel.2
    classical
    refine ⟨fun cl v => if cl = c then (if ∃ g ∈ rest, v ∈ g then 0 else 2 * rest.length + 1) else h cl v + 1,
      ?_, ?_⟩
    · intro cl hcl v hv u hu huv g hg hgc hug
      simp only
      by_cases hclc : cl = c
      · subst hclc
        have hg' : g ∈ rest := by
          rcases List.mem_cons.mp hg with h0 | h0
          · exact absurd h0 hgc
          · exact h0
        have hgne : g ≠ cl := hgc
        have hush : ∃ g ∈ rest, u ∈ g := ⟨g, hg', hug⟩
        have hvsh : ¬ ∃ g ∈ rest, v ∈ g := fun hv' => huv (hel.1 u hu v hv hush hv')
        rw [if_neg hgne, if_pos rfl, if_neg hvsh]
        have := hb g hg' u
        omega
      · have hcl' : cl ∈ rest := by
          rcases List.mem_cons.mp hcl with h0 | h0
          · exact absurd h0 hclc
          · exact h0
        rw [if_neg hclc]
        by_cases hgc' : g = c
        · subst hgc'
          rw [if_pos rfl, if_pos ⟨cl, hcl', hu⟩]
          omega
        · have hg' : g ∈ rest := by
            rcases List.mem_cons.mp hg with h0 | h0
            · exact absurd h0 hgc'
            · exact h0
          rw [if_neg hgc']
          have := hF cl hcl' v hv u hu huv g hg' hgc hug
          omega
    · intro cl hcl v
      simp only [List.length_cons]
      split
      · split <;> omega
      · rename_i hne
        have hcl' : cl ∈ rest := by
          rcases List.mem_cons.mp hcl with h0 | h0
          · exact absurd h0 hne
          · exact h0
        have := hb cl hcl' v; omega

/-- **exactness from an elimination order**, with `2·#cliques` sweeps -/
theorem lbp_exact_of_elim (dom : Dom) (cliques : List Clique) (pots : CliqueVec ℝ) (T : ℝ) (iters : Nat)
    (hG : GraphOK dom cliques pots) (hpos : PosDom dom) (hel : ElimOrder cliques)
    (hiters : 2 * cliques.length ≤ iters) (hT : 0 < T) (c : Clique) (hc : c ∈ cliques) :
    let table := (FG.lbp dom cliques pots T iters (FG.initMessages dom cliques)).1.get c
    table.WF ∧ table.dom = dom.project c ∧
    ∀ σ, dom.Valid σ → table.sem σ = T * marginalR dom cliques pots c σ / partitionR dom cliques pots := by
  obtain ⟨h, hF, hb⟩ := forest_of_elim cliques hG.nodup hel
  exact lbp_exact_on_forest dom cliques pots T iters h hG hpos hF
    (fun cl hcl v _ _ => lt_of_lt_of_le (hb cl hcl v) hiters) hT c hc

/-! ## Stage 2 and 3: chains and stars -/

/-- **star around an attribute** (in particular the chain of two cliques sharing exactly `v`): any two
distinct cliques have at most the attribute `v` in common.  One sweep suffices. -/
theorem lbp_exact_attr_star (dom : Dom) (cliques : List Clique) (pots : CliqueVec ℝ) (T : ℝ) (iters : Nat)
    (v : Attr) (hG : GraphOK dom cliques pots) (hpos : PosDom dom)
    (hstar : ∀ cl ∈ cliques, ∀ g ∈ cliques, g ≠ cl → ∀ u, u ∈ cl → u ∈ g → u = v)
    (hiters : 1 ≤ iters) (hT : 0 < T) (c : Clique) (hc : c ∈ cliques) :
    let table := (FG.lbp dom cliques pots T iters (FG.initMessages dom cliques)).1.get c
    table.WF ∧ table.dom = dom.project c ∧
    ∀ σ, dom.Valid σ → table.sem σ = T * marginalR dom cliques pots c σ / partitionR dom cliques pots := by
  apply lbp_exact_on_forest dom cliques pots T iters (fun _ u => if u = v then 0 else 1) hG hpos ?_ ?_ hT c hc
  · intro cl hcl w hw u hu huw g hg hgc hug
    have huv : u = v := hstar cl hcl g hg hgc u hu hug
    have hwv : w ≠ v := fun h => huw (huv.trans h.symm)
    simp [huv, hwv]
  · intro cl hcl w hw hsh
    obtain ⟨g, hg, hgc, hwg⟩ := hsh
    have : w = v := hstar cl hcl g hg hgc w hw hwg
    simp only [this, if_true]
    omega

/-- **the two-clique chain**: `[c1, c2]` share exactly the attribute `v`.  One sweep suffices (the
variable-to-factor messages of a sweep are computed from the factor-to-variable messages of the same
sweep); with `iters = 0` the tables are the normalised potentials, which is wrong in general. -/
theorem lbp_exact_two_chain (dom : Dom) (c1 c2 : Clique) (pots : CliqueVec ℝ) (T : ℝ) (iters : Nat)
    (v : Attr) (hG : GraphOK dom [c1, c2] pots) (hpos : PosDom dom)
    (hshare : ∀ u, u ∈ c1 → u ∈ c2 → u = v)
    (hiters : 1 ≤ iters) (hT : 0 < T) (c : Clique) (hc : c ∈ [c1, c2]) :
    let table := (FG.lbp dom [c1, c2] pots T iters (FG.initMessages dom [c1, c2])).1.get c
    table.WF ∧ table.dom = dom.project c ∧
    ∀ σ, dom.Valid σ → table.sem σ = T * marginalR dom [c1, c2] pots c σ / partitionR dom [c1, c2] pots := by
  apply lbp_exact_attr_star dom [c1, c2] pots T iters v hG hpos ?_ hiters hT c hc
  intro cl hcl g hg hgc u hu hug
  simp only [List.mem_cons, List.not_mem_nil, or_false] at hcl hg
  rcases hcl with rfl | rfl <;> rcases hg with rfl | rfl
  · exact absurd rfl hgc
  · exact hshare u hu hug
  · exact hshare u hug hu
  · exact absurd rfl hgc

/-- **star around a clique**: every clique other than the centre `c0` meets `c0` in at most one
attribute, and two such cliques only meet inside `c0`.  Two sweeps suffice. -/
theorem lbp_exact_clique_star (dom : Dom) (cliques : List Clique) (pots : CliqueVec ℝ) (T : ℝ) (iters : Nat)
    (c0 : Clique) (hG : GraphOK dom cliques pots) (hpos : PosDom dom)
    (hpend : ∀ p ∈ cliques, p ≠ c0 → ∀ u w, u ∈ p → u ∈ c0 → w ∈ p → w ∈ c0 → u = w)
    (hpair : ∀ p ∈ cliques, p ≠ c0 → ∀ q ∈ cliques, q ≠ c0 → q ≠ p → ∀ u, u ∈ p → u ∈ q → u ∈ c0)
    (hiters : 2 ≤ iters) (hT : 0 < T) (c : Clique) (hc : c ∈ cliques) :
    let table := (FG.lbp dom cliques pots T iters (FG.initMessages dom cliques)).1.get c
    table.WF ∧ table.dom = dom.project c ∧
    ∀ σ, dom.Valid σ → table.sem σ = T * marginalR dom cliques pots c σ / partitionR dom cliques pots := by
  classical
  apply lbp_exact_on_forest dom cliques pots T iters
    (fun cl u => if cl = c0 then 1 else if u ∈ c0 then 0 else 2) hG hpos ?_ ?_ hT c hc
  · intro cl hcl w hw u hu huw g hg hgc hug
    simp only
    by_cases hcl0 : cl = c0
    · subst hcl0
      rw [if_neg hgc, if_pos rfl, if_pos hu]
      omega
    · rw [if_neg hcl0]
      -- `u ∈ c0` in both remaining cases, hence `w ∉ c0`
      have huc0 : u ∈ c0 := by
        by_cases hg0 : g = c0
        · rw [← hg0]; exact hug
        · exact hpair cl hcl hcl0 g hg hg0 hgc u hu hug
      have hwc0 : w ∉ c0 := fun hw0 => huw (hpend cl hcl hcl0 u w hu huc0 hw hw0)
      rw [if_neg hwc0]
      by_cases hg0 : g = c0
      · rw [if_pos hg0]; omega
      · rw [if_neg hg0, if_pos huc0]; omega
  · intro cl hcl w hw hsh
    by_cases hcl0 : cl = c0
    · rw [if_pos hcl0]; omega
    · rw [if_neg hcl0]
      obtain ⟨g, hg, hgc, hwg⟩ := hsh
      have hwc0 : w ∈ c0 := by
        by_cases hg0 : g = c0
        · rw [← hg0]; exact hwg
        · exact hpair cl hcl hcl0 g hg hg0 hgc w hw hwg
      rw [if_pos hwc0]; omega

end PGM.LbpTree
