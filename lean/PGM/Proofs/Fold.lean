/-! generic loop-invariant lemma for the `Nat.fold` that `py2lean` emits for `for _ in range(n)` -/
namespace PGM

theorem fold_inv {σ : Type} (P : σ → Prop) (f : σ → σ) (n : Nat) (s0 : σ)
    (h0 : P s0) (hs : ∀ s, P s → P (f s)) :
    P (Nat.fold n (fun _ _ st => f st) s0) := by
  induction n with
  | zero => simpa using h0
  | succ k ih => rw [Nat.fold_succ]; exact hs _ ih

/-- invariant indexed by the iteration number -/
theorem fold_inv_idx {σ : Type} (P : Nat → σ → Prop) (f : σ → σ) (n : Nat) (s0 : σ)
    (h0 : P 0 s0) (hs : ∀ k s, P k s → P (k+1) (f s)) :
    P n (Nat.fold n (fun _ _ st => f st) s0) := by
  induction n with
  | zero => simpa using h0
  | succ k ih => rw [Nat.fold_succ]; exact hs _ _ ih

end PGM
