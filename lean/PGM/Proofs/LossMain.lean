import PGM.Proofs.LossMeas
/-!
# Helpers for C04 (7): clique vectors, re-association of the double sum, and the first three theorems
in their auxiliary form
-/
set_option linter.unusedSectionVars false
set_option linter.unusedVariables false
namespace PGM.LossAux
open PGM PGM.JT PGM.Loss PGM.Factor
variable {K : Type} [Field K] [LinearOrder K] [IsStrictOrderedRing K]

/-! ### association lists with duplicate-free keys -/

theorem get_of_mem (l : CliqueVec (PlainOf K)) (hn : (l.map Prod.fst).Nodup)
    (p : Clique × Factor (PlainOf K)) (hp : p ∈ l) : l.get p.1 = p.2 := by
  unfold CliqueVec.get
  induction l with
  | nil => simp at hp
  | cons q l ih =>
    obtain ⟨k, v⟩ := q
    simp only [List.map_cons, List.nodup_cons] at hn
    rcases List.mem_cons.mp hp with rfl | h
    · simp [List.lookup]
    · have hne : p.1 ≠ k := by
        intro he
        exact hn.1 (he ▸ List.mem_map_of_mem h)
      have hb : (p.1 == k) = false := by simpa using hne
      simp only [List.lookup, hb]
      exact ih hn.2 h

theorem get_mem (l : CliqueVec (PlainOf K)) (c : Clique) (hc : c ∈ l.map Prod.fst) :
    (c, l.get c) ∈ l := by
  unfold CliqueVec.get
  induction l with
  | nil => simp at hc
  | cons q l ih =>
    obtain ⟨k, v⟩ := q
    by_cases hk : c = k
    · subst hk; simp [List.lookup]
    · have hb : (c == k) = false := by simpa using hk
      have hc' : c ∈ l.map Prod.fst := by
        simp only [List.map_cons, List.mem_cons] at hc
        rcases hc with h | h
        · exact absurd h hk
        · exact h
      simp only [List.lookup, hb]
      exact List.mem_cons_of_mem _ (ih hc')

/-- a table of a well-formed clique vector -/
theorem VecOK.get_ok {d : Dom} {cliques : List Clique} {h : CliqueVec (PlainOf K)}
    (hh : VecOK d cliques h) (c : Clique) (hc : c ∈ cliques) :
    (h.get c).WF ∧ (h.get c).dom = d.project c :=
  hh.tables (c, h.get c) (get_mem h c (by rw [hh.keys]; exact hc))

theorem VecOK.keys_nodup {d : Dom} {cliques : List Clique} {h : CliqueVec (PlainOf K)}
    (hh : VecOK d cliques h) : (h.map Prod.fst).Nodup := by rw [hh.keys]; exact hh.cliques_nodup

/-! ### each measurement belongs to exactly one key -/

theorem sum_by_group (keys : List Clique) (hkeys : keys.Nodup) (meas : List (Meas (PlainOf K)))
    (grp : Meas (PlainOf K) → Option Clique) (hgrp : ∀ m ∈ meas, ∃ c ∈ keys, grp m = some c)
    (F : Meas (PlainOf K) → Clique → K) :
    (keys.map (fun k => ((meas.filter (fun m => grp m == some k)).map (fun m => F m k)).sum)).sum
      = (meas.map (fun m => F m ((grp m).getD []))).sum := by
  have e1 : keys.map (fun k => ((meas.filter (fun m => grp m == some k)).map (fun m => F m k)).sum)
      = keys.map (fun k => (meas.map (fun m => if grp m == some k then F m k else 0)).sum) := by
    apply List.map_congr_left
    intro k _
    exact list_sum_filter meas _ _
  rw [e1, list_sum_comm]
  apply congrArg
  apply List.map_congr_left
  intro m hm
  obtain ⟨c, hc, hg⟩ := hgrp m hm
  rw [hg]
  have e2 : keys.map (fun k => if (some c == some k) = true then F m k else 0)
      = keys.map (fun k => if k = c then F m k else 0) := by
    apply List.map_congr_left
    intro k _
    by_cases hk : k = c
    · subst hk; simp
    · have : ¬ (c = k) := fun h => hk h.symm
      simp [hk, this]
  rw [e2, list_sum_indicator keys hkeys c hc]
  rfl

/-- what a measurement's group provides -/
theorem group_ok (d : Dom) (cliques : List Clique) (meas : List (Meas (PlainOf K)))
    (hcov : ∀ m ∈ meas, ∃ c ∈ cliques, JT.subset m.proj c = true) :
    ∀ m ∈ meas, ∃ c ∈ cliques, groupOf d cliques m.proj = some c := by
  intro m hm
  obtain ⟨c, hc⟩ := groupOf_exists d cliques m.proj (hcov m hm)
  exact ⟨c, (groupOf_some_mem d cliques m.proj c hc).1, hc⟩

theorem mem_mineOf (d : Dom) (cliques : List Clique) (meas : List (Meas (PlainOf K))) (cl : Clique)
    (m : Meas (PlainOf K)) (hm : m ∈ mineOf d cliques meas cl) :
    m ∈ meas ∧ ∀ a ∈ m.proj, a ∈ cl := by
  unfold mineOf at hm
  rw [List.mem_filter] at hm
  refine ⟨hm.1, ?_⟩
  have hg : groupOf d cliques m.proj = some cl := by simpa using hm.2
  exact (subset_iff m.proj cl).mp (groupOf_some_mem d cliques m.proj cl hg).2

/-- the measurement-side facts at a clique table -/
theorem meas_at (d : Dom) (hd : d.WF) (cl : Clique) (hcl : cl.Nodup ∧ ∀ a ∈ cl, a ∈ d.attrs)
    (f : Factor (PlainOf K)) (hfd : f.dom = d.project cl) (m : Meas (PlainOf K)) (hm : MeasOK d m)
    (hsub : ∀ a ∈ m.proj, a ∈ cl) :
    (∀ a ∈ m.proj, a ∈ f.dom.attrs) ∧ f.dom.project m.proj = d.project m.proj := by
  constructor
  · rw [hfd, Dom.attrs_project]; exact hsub
  · rw [hfd]; exact Dom.project_project d cl m.proj hd hcl.1 hsub hcl.2

/-! ### the loss as a sum over keys -/

theorem loss_by_keys (d : Dom) (cliques : List Clique) (meas : List (Meas (PlainOf K)))
    (mu : CliqueVec (PlainOf K)) (hn : (mu.map Prod.fst).Nodup) :
    (marginalLoss d cliques meas mu).1.v
      = ((mu.map Prod.fst).map (fun k =>
          ((mineOf d cliques meas k).map (fun m => lossM m (mu.get k))).sum)).sum := by
  rw [marginalLoss_eq, List.map_map]
  show (mu.map _).sum = _
  apply congrArg
  apply List.map_congr_left
  intro e he
  simp only [Function.comp, get_of_mem mu hn e he, lossS_v]

theorem loss_each_once (d : Dom) (cliques : List Clique) (meas : List (Meas (PlainOf K)))
    (mu : CliqueVec (PlainOf K)) (hmu : VecOK d cliques mu) (hm : ∀ m ∈ meas, MeasOK d m)
    (hcov : ∀ m ∈ meas, ∃ c ∈ cliques, JT.subset m.proj c = true) :
    (marginalLoss d cliques meas mu).1.v
      = (meas.map (fun m => lossM m (mu.get ((groupOf d cliques m.proj).getD [])))).sum := by
  rw [loss_by_keys d cliques meas mu hmu.keys_nodup, hmu.keys]
  exact sum_by_group cliques hmu.cliques_nodup meas (fun m => groupOf d cliques m.proj)
    (group_ok d cliques meas hcov) (fun m k => lossM m (mu.get k))

/-! ### the sum `mu + h` -/

theorem cvAdd_keys (mu h : CliqueVec (PlainOf K)) : (cvAdd mu h).map Prod.fst = mu.map Prod.fst := by
  unfold cvAdd
  rw [List.map_map]
  rfl

theorem cvAdd_get (mu h : CliqueVec (PlainOf K)) (hn : (mu.map Prod.fst).Nodup) (k : Clique)
    (hk : k ∈ mu.map Prod.fst) : (cvAdd mu h).get k = (mu.get k).add (h.get k) := by
  have hmem := get_mem mu k hk
  have : (k, (mu.get k).add (h.get k)) ∈ cvAdd mu h := by
    unfold cvAdd
    exact List.mem_map.mpr ⟨(k, mu.get k), hmem, rfl⟩
  exact get_of_mem (cvAdd mu h) (by rw [cvAdd_keys]; exact hn) _ this

theorem loss_expansion (d : Dom) (cliques : List Clique) (meas : List (Meas (PlainOf K)))
    (mu h : CliqueVec (PlainOf K)) (hmu : VecOK d cliques mu) (hh : VecOK d cliques h)
    (hm : ∀ m ∈ meas, MeasOK d m) (hcov : ∀ m ∈ meas, ∃ c ∈ cliques, JT.subset m.proj c = true) :
    (marginalLoss d cliques meas (cvAdd mu h)).1.v
      = (marginalLoss d cliques meas mu).1.v + cvDot (marginalLoss d cliques meas mu).2 h
        + (meas.map (fun m => quadM m (h.get ((groupOf d cliques m.proj).getD [])))).sum := by
  have hn := hmu.keys_nodup
  rw [loss_by_keys d cliques meas (cvAdd mu h) (by rw [cvAdd_keys]; exact hn), cvAdd_keys,
    loss_by_keys d cliques meas mu hn]
  rw [← sum_by_group cliques hmu.cliques_nodup meas (fun m => groupOf d cliques m.proj)
    (group_ok d cliques meas hcov) (fun m k => quadM m (h.get k))]
  have hdot : cvDot (marginalLoss d cliques meas mu).2 h
      = ((mu.map Prod.fst).map (fun k =>
          ((mineOf d cliques meas k).map (fun m => vdot (vals (gradF m (mu.get k))) (xOf m (h.get k)))).sum)).sum := by
    rw [marginalLoss_eq]
    unfold cvDot
    rw [List.map_map, List.map_map]
    apply congrArg
    apply List.map_congr_left
    intro e he
    have hk : e.1 ∈ cliques := by rw [← hmu.keys]; exact List.mem_map_of_mem he
    obtain ⟨hfW, hfd⟩ := hmu.tables e he
    obtain ⟨hhW, hhd⟩ := hh.get_ok e.1 hk
    simp only [Function.comp, get_of_mem mu hn e he]
    apply gradAcc_pair _ e.2 (h.get e.1) hfW hhW (by rw [hhd, hfd])
    intro m hmm
    obtain ⟨hmem, hsub⟩ := mem_mineOf d cliques meas e.1 m hmm
    exact ⟨(hm m hmem).proj_nodup,
      (meas_at d hmu.dom_wf e.1 (hmu.clique_ok e.1 hk) e.2 hfd m (hm m hmem) hsub).1⟩
  rw [hdot, hmu.keys]
  show _ = _ + _ + (cliques.map (fun k =>
    ((mineOf d cliques meas k).map (fun m => quadM m (h.get k))).sum)).sum
  rw [← list_sum_map_add, ← list_sum_map_add]
  apply congrArg
  apply List.map_congr_left
  intro k hk
  rw [← list_sum_map_add, ← list_sum_map_add]
  apply congrArg
  apply List.map_congr_left
  intro m hmm
  obtain ⟨hmem, hsub⟩ := mem_mineOf d cliques meas k m hmm
  obtain ⟨hfW, hfd⟩ := hmu.get_ok k hk
  obtain ⟨hhW, hhd⟩ := hh.get_ok k hk
  have hmo := hm m hmem
  obtain ⟨hs1, hs2⟩ := meas_at d hmu.dom_wf k (hmu.clique_ok k hk) (mu.get k) hfd m hmo hsub
  rw [cvAdd_get mu h hn k (by rw [hmu.keys]; exact hk)]
  exact lossM_add m (mu.get k) (h.get k) hfW hhW (by rw [hhd, hfd]) hmo.proj_nodup hs1
    (by rw [hs2]; exact hmo.rows) hmo.ylen

end PGM.LossAux
