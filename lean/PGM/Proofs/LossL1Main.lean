import PGM.Proofs.LossL1Fold
/-!
# Helpers for C04B (3): one measurement at one clique for the L1 metric, the loss and the gradient
pairing as sums over keys, and the theorems of C04B in their auxiliary form
-/
set_option linter.unusedSectionVars false
set_option linter.unusedVariables false
namespace PGM.LossAux
open PGM PGM.JT PGM.Loss PGM.Factor
variable {K : Type} [Field K] [LinearOrder K] [IsStrictOrderedRing K]

/-! ### mirror of the specification-side definitions of `LossL1Sem` -/

/-- the residual `c (Q x_m − y)` of a measurement at a clique marginal, over `K` -/
def residV (m : Meas (PlainOf K)) (f : Factor (PlainOf K)) : List K :=
  List.zipWith (fun q y => (m.noise.v)⁻¹ * (q - y.v)) (qx m (xOf m f)) m.y
/-- absolute-error loss of one measurement -/
def lossM1 (m : Meas (PlainOf K)) (f : Factor (PlainOf K)) : K := ((residV m f).map (fun r => |r|)).sum
/-- the change `c Q π h` of the residual along a direction -/
def stepV (m : Meas (PlainOf K)) (h : Factor (PlainOf K)) : List K :=
  (qx m (xOf m h)).map (fun q => (m.noise.v)⁻¹ * q)

theorem residV_eq (m : Meas (PlainOf K)) (f : Factor (PlainOf K)) :
    residV m f = residL (m.noise.v)⁻¹ m.Q m.y (xOf m f) := rfl
theorem stepV_eq (m : Meas (PlainOf K)) (h : Factor (PlainOf K)) :
    stepV m h = cqx (m.noise.v)⁻¹ m.Q (xOf m h) := rfl
theorem lossM1_eq (m : Meas (PlainOf K)) (f : Factor (PlainOf K)) :
    lossM1 m f = abssum (residV m f) := rfl

theorem residual_v' (m : Meas (PlainOf K)) (f : Factor (PlainOf K)) :
    (residual m f).map (·.v) = residV m f := residual_v m f

/-- the model's per-measurement L1 loss is `lossM1` -/
theorem lossS1_v (m : Meas (PlainOf K)) (f : Factor (PlainOf K)) : (lossS1 m f).v = lossM1 m f := by
  unfold lossS1
  rw [sum_v, map_absS_v, residual_v']
  rfl

theorem lossM1_nonneg (m : Meas (PlainOf K)) (f : Factor (PlainOf K)) : 0 ≤ lossM1 m f :=
  abssum_nonneg _

theorem residV_length (m : Meas (PlainOf K)) (f : Factor (PlainOf K)) (hy : m.y.length = m.Q.length) :
    (residV m f).length = m.Q.length := by
  simp [residV, qx, hy]

theorem stepV_length (m : Meas (PlainOf K)) (h : Factor (PlainOf K)) : (stepV m h).length = m.Q.length := by
  simp [stepV, qx]

theorem abssum_add_ge (r t : List K) (h : r.length = t.length) :
    abssum r + vdot (r.map sgn) t ≤ abssum (List.zipWith (· + ·) r t) := by
  induction r generalizing t with
  | nil => simp [abssum, vdot]
  | cons a r ih =>
    cases t with
    | nil => simp at h
    | cons b t =>
      have ih' := ih t (by simpa using h)
      simp only [abssum, List.zipWith_cons_cons, List.map_cons, List.sum_cons, vdot_cons] at ih' ⊢
      have hs := abs_subgrad a (a + b)
      have e : a + b - a = b := by ring
      rw [e] at hs
      linarith

section PerMeas
variable (m : Meas (PlainOf K)) (f hc : Factor (PlainOf K)) (hf : f.WF) (hh : hc.WF)
  (hd : hc.dom = f.dom) (hP : m.proj.Nodup) (hsub : ∀ a ∈ m.proj, a ∈ f.dom.attrs)
  (hrows : ∀ row ∈ m.Q, row.length = (f.dom.project m.proj).size) (hy : m.y.length = m.Q.length)
include hf hh hd hP hsub hrows hy

/-- pairing of the measurement's L1 gradient with any table on the clique:
`⟨c Qᵀ sign r, π h⟩ = ⟨sign r, c Q π h⟩` -/
theorem gradF1_pair :
    vdot (vals (gradF1 m f)) (xOf m hc) = vdot ((residV m f).map sgn) (stepV m hc) := by
  have hlen : (xOf m hc).length = (f.dom.project m.proj).size := by
    unfold xOf
    rw [xOf_length hc hh m.proj hP (by rw [hd]; exact hsub), hd]
    simp [Dom.size]
  rw [vals_gradF1, vdot_range _ _ _ hlen,
    transpose_adjoint _ m.Q ((residual m f).map signS) _ (xOf m hc) hlen hrows, map_signS_v,
    residual_v', stepV_eq, cqx, vdot_map_mul_right]
  simp only [one_mul]

/-- the residual at `f + h` -/
theorem residV_add : residV m (f.add hc) = List.zipWith (· + ·) (residV m f) (stepV m hc) := by
  have hx : xOf m (f.add hc) = List.zipWith (· + ·) (xOf m f) (xOf m hc) :=
    xOf_add f hc hf hh hd m.proj hP hsub
  have hlen : (xOf m f).length = (xOf m hc).length := by
    unfold xOf
    rw [xOf_length f hf m.proj hP hsub, xOf_length hc hh m.proj hP (by rw [hd]; exact hsub), hd]
  rw [residV_eq, residV_eq, stepV_eq, hx, residL_add _ _ _ _ _ hlen]

/-- two-point subgradient inequality of one measurement -/
theorem lossM1_two_point :
    lossM1 m f + vdot (vals (gradF1 m f)) (xOf m hc)
      ≤ lossM1 m hc + vdot (vals (gradF1 m f)) (xOf m f) := by
  rw [gradF1_pair m f hc hf hh hd hP hsub hrows hy, gradF1_pair m f f hf hf rfl hP hsub hrows hy,
    lossM1_eq, lossM1_eq, residV_eq, residV_eq, stepV_eq, stepV_eq]
  have := abssum_subgrad (m.noise.v)⁻¹ m.Q m.y (xOf m f) (xOf m hc)
  linarith

/-- subgradient inequality of one measurement along a direction -/
theorem lossM1_add_ge :
    lossM1 m f + vdot (vals (gradF1 m f)) (xOf m hc) ≤ lossM1 m (f.add hc) := by
  rw [gradF1_pair m f hc hf hh hd hP hsub hrows hy, lossM1_eq, lossM1_eq,
    residV_add m f hc hf hh hd hP hsub hrows hy]
  exact abssum_add_ge _ _ (by rw [residV_length m f hy, stepV_length])

/-- exact expansion of one measurement's L1 loss while no residual changes sign -/
theorem lossM1_add_eq (hsmall : List.Forall₂ (fun t r => |t| < |r|) (stepV m hc) (residV m f)) :
    lossM1 m (f.add hc) = lossM1 m f + vdot (vals (gradF1 m f)) (xOf m hc) := by
  rw [gradF1_pair m f hc hf hh hd hP hsub hrows hy, lossM1_eq, lossM1_eq,
    residV_add m f hc hf hh hd hP hsub hrows hy]
  exact abssum_add_small _ _ hsmall

end PerMeas

/-! ### the loss and the gradient pairing as sums over keys -/

theorem loss1_by_keys (d : Dom) (cliques : List Clique) (meas : List (Meas (PlainOf K)))
    (mu : CliqueVec (PlainOf K)) (hn : (mu.map Prod.fst).Nodup) :
    (marginalLossL1 d cliques meas mu).1.v
      = ((mu.map Prod.fst).map (fun k =>
          ((mineOf d cliques meas k).map (fun m => lossM1 m (mu.get k))).sum)).sum := by
  rw [marginalLossL1_eq, List.map_map]
  show (mu.map _).sum = _
  apply congrArg
  apply List.map_congr_left
  intro e he
  simp only [Function.comp, get_of_mem mu hn e he, lossS1_v]

/-- the facts every measurement of a clique's group provides at the clique's table -/
theorem mine_ok (d : Dom) (cliques : List Clique) (meas : List (Meas (PlainOf K)))
    (hd : d.WF) (hm : ∀ m ∈ meas, MeasOK d m) (k : Clique) (hk : k.Nodup ∧ ∀ a ∈ k, a ∈ d.attrs)
    (f : Factor (PlainOf K)) (hfd : f.dom = d.project k) (m : Meas (PlainOf K))
    (hmm : m ∈ mineOf d cliques meas k) :
    MeasOK d m ∧ (∀ a ∈ m.proj, a ∈ f.dom.attrs) ∧
      (∀ row ∈ m.Q, row.length = (f.dom.project m.proj).size) := by
  obtain ⟨hmem, hsub⟩ := mem_mineOf d cliques meas k m hmm
  have hmo := hm m hmem
  obtain ⟨hs1, hs2⟩ := meas_at d hd k hk f hfd m hmo hsub
  exact ⟨hmo, hs1, by rw [hs2]; exact hmo.rows⟩

theorem grad1_by_keys (d : Dom) (cliques : List Clique) (meas : List (Meas (PlainOf K)))
    (mu h : CliqueVec (PlainOf K)) (hmu : VecOK d cliques mu) (hh : VecOK d cliques h)
    (hm : ∀ m ∈ meas, MeasOK d m) :
    cvDot (marginalLossL1 d cliques meas mu).2 h
      = (cliques.map (fun k =>
          ((mineOf d cliques meas k).map
            (fun m => vdot (vals (gradF1 m (mu.get k))) (xOf m (h.get k)))).sum)).sum := by
  have hn := hmu.keys_nodup
  have hkeys : ∀ G : Clique → K, (cliques.map G).sum = ((mu.map Prod.fst).map G).sum := by
    intro G; rw [hmu.keys]
  rw [marginalLossL1_eq, hkeys]
  unfold cvDot
  rw [List.map_map, List.map_map]
  apply congrArg
  apply List.map_congr_left
  intro e he
  have hk : e.1 ∈ cliques := by rw [← hmu.keys]; exact List.mem_map_of_mem he
  obtain ⟨hfW, hfd⟩ := hmu.tables e he
  obtain ⟨hhW, hhd⟩ := hh.get_ok e.1 hk
  simp only [Function.comp, get_of_mem mu hn e he]
  apply gradAccG_pair gradF1 _ e.2 (h.get e.1) hfW hhW (by rw [hhd, hfd])
  · intro m hmm
    obtain ⟨hmo, _, _⟩ := mine_ok d cliques meas hmu.dom_wf hm e.1 (hmu.clique_ok e.1 hk) e.2 hfd m hmm
    exact ⟨gradF1_WF m e.2 hmo.proj_nodup, gradF1_dom m e.2⟩
  · intro m hmm
    obtain ⟨hmo, hs1, _⟩ := mine_ok d cliques meas hmu.dom_wf hm e.1 (hmu.clique_ok e.1 hk) e.2 hfd m hmm
    exact ⟨hmo.proj_nodup, hs1⟩

/-! ### the theorems -/

theorem lossL1_each_once (d : Dom) (cliques : List Clique) (meas : List (Meas (PlainOf K)))
    (mu : CliqueVec (PlainOf K)) (hmu : VecOK d cliques mu) (hm : ∀ m ∈ meas, MeasOK d m)
    (hcov : ∀ m ∈ meas, ∃ c ∈ cliques, JT.subset m.proj c = true) :
    (marginalLossL1 d cliques meas mu).1.v
      = (meas.map (fun m => lossM1 m (mu.get ((groupOf d cliques m.proj).getD [])))).sum := by
  rw [loss1_by_keys d cliques meas mu hmu.keys_nodup, hmu.keys]
  exact sum_by_group cliques hmu.cliques_nodup meas (fun m => groupOf d cliques m.proj)
    (group_ok d cliques meas hcov) (fun m k => lossM1 m (mu.get k))

theorem list_sum_map_nonneg {ι : Type} (l : List ι) (f : ι → K) (h : ∀ i ∈ l, 0 ≤ f i) :
    0 ≤ (l.map f).sum := by
  have := list_sum_le l (fun _ => (0 : K)) f h
  rwa [list_sum_map_zero] at this

/-- the L1 loss is nonnegative — no hypothesis at all -/
theorem lossL1_nonneg (d : Dom) (cliques : List Clique) (meas : List (Meas (PlainOf K)))
    (mu : CliqueVec (PlainOf K)) : 0 ≤ (marginalLossL1 d cliques meas mu).1.v := by
  rw [marginalLossL1_eq]
  apply list_sum_map_nonneg
  intro e _
  apply list_sum_map_nonneg
  intro m _
  rw [lossS1_v]
  exact lossM1_nonneg m e.2

theorem lossL1_subgradient (d : Dom) (cliques : List Clique) (meas : List (Meas (PlainOf K)))
    (mu mu' : CliqueVec (PlainOf K)) (hmu : VecOK d cliques mu) (hmu' : VecOK d cliques mu')
    (hm : ∀ m ∈ meas, MeasOK d m) :
    (marginalLossL1 d cliques meas mu).1.v
        + (cvDot (marginalLossL1 d cliques meas mu).2 mu' - cvDot (marginalLossL1 d cliques meas mu).2 mu)
      ≤ (marginalLossL1 d cliques meas mu').1.v := by
  have key : (marginalLossL1 d cliques meas mu).1.v + cvDot (marginalLossL1 d cliques meas mu).2 mu'
      ≤ (marginalLossL1 d cliques meas mu').1.v + cvDot (marginalLossL1 d cliques meas mu).2 mu := by
    rw [loss1_by_keys d cliques meas mu hmu.keys_nodup, loss1_by_keys d cliques meas mu' hmu'.keys_nodup,
      grad1_by_keys d cliques meas mu mu' hmu hmu' hm, grad1_by_keys d cliques meas mu mu hmu hmu hm,
      hmu.keys, hmu'.keys, ← list_sum_map_add, ← list_sum_map_add]
    apply list_sum_le
    intro k hk
    rw [← list_sum_map_add, ← list_sum_map_add]
    apply list_sum_le
    intro m hmm
    obtain ⟨hfW, hfd⟩ := hmu.get_ok k hk
    obtain ⟨hhW, hhd⟩ := hmu'.get_ok k hk
    obtain ⟨hmo, hs1, hrows⟩ :=
      mine_ok d cliques meas hmu.dom_wf hm k (hmu.clique_ok k hk) (mu.get k) hfd m hmm
    exact lossM1_two_point m (mu.get k) (mu'.get k) hfW hhW (by rw [hhd, hfd]) hmo.proj_nodup hs1
      hrows hmo.ylen
  linarith

theorem lossL1_subgradient_add (d : Dom) (cliques : List Clique) (meas : List (Meas (PlainOf K)))
    (mu h : CliqueVec (PlainOf K)) (hmu : VecOK d cliques mu) (hh : VecOK d cliques h)
    (hm : ∀ m ∈ meas, MeasOK d m) :
    (marginalLossL1 d cliques meas mu).1.v + cvDot (marginalLossL1 d cliques meas mu).2 h
      ≤ (marginalLossL1 d cliques meas (cvAdd mu h)).1.v := by
  have hn := hmu.keys_nodup
  rw [loss1_by_keys d cliques meas (cvAdd mu h) (by rw [cvAdd_keys]; exact hn), cvAdd_keys,
    loss1_by_keys d cliques meas mu hn, grad1_by_keys d cliques meas mu h hmu hh hm, hmu.keys,
    ← list_sum_map_add]
  apply list_sum_le
  intro k hk
  rw [← list_sum_map_add]
  apply list_sum_le
  intro m hmm
  obtain ⟨hfW, hfd⟩ := hmu.get_ok k hk
  obtain ⟨hhW, hhd⟩ := hh.get_ok k hk
  obtain ⟨hmo, hs1, hrows⟩ :=
    mine_ok d cliques meas hmu.dom_wf hm k (hmu.clique_ok k hk) (mu.get k) hfd m hmm
  rw [cvAdd_get mu h hn k (by rw [hmu.keys]; exact hk)]
  exact lossM1_add_ge m (mu.get k) (h.get k) hfW hhW (by rw [hhd, hfd]) hmo.proj_nodup hs1
    hrows hmo.ylen

theorem lossL1_differentiable_case (d : Dom) (cliques : List Clique) (meas : List (Meas (PlainOf K)))
    (mu h : CliqueVec (PlainOf K)) (hmu : VecOK d cliques mu) (hh : VecOK d cliques h)
    (hm : ∀ m ∈ meas, MeasOK d m)
    (hsmall : ∀ m ∈ meas, List.Forall₂ (fun t r => |t| < |r|)
      (stepV m (h.get ((groupOf d cliques m.proj).getD [])))
      (residV m (mu.get ((groupOf d cliques m.proj).getD [])))) :
    (marginalLossL1 d cliques meas (cvAdd mu h)).1.v
      = (marginalLossL1 d cliques meas mu).1.v + cvDot (marginalLossL1 d cliques meas mu).2 h := by
  have hn := hmu.keys_nodup
  rw [loss1_by_keys d cliques meas (cvAdd mu h) (by rw [cvAdd_keys]; exact hn), cvAdd_keys,
    loss1_by_keys d cliques meas mu hn, grad1_by_keys d cliques meas mu h hmu hh hm, hmu.keys,
    ← list_sum_map_add]
  apply congrArg
  apply List.map_congr_left
  intro k hk
  rw [← list_sum_map_add]
  apply congrArg
  apply List.map_congr_left
  intro m hmm
  obtain ⟨hfW, hfd⟩ := hmu.get_ok k hk
  obtain ⟨hhW, hhd⟩ := hh.get_ok k hk
  obtain ⟨hmo, hs1, hrows⟩ :=
    mine_ok d cliques meas hmu.dom_wf hm k (hmu.clique_ok k hk) (mu.get k) hfd m hmm
  have hmem : m ∈ meas := (mem_mineOf d cliques meas k m hmm).1
  have hg : groupOf d cliques m.proj = some k := by
    have := (List.mem_filter.mp hmm).2
    simpa using this
  have hs := hsmall m hmem
  rw [hg] at hs
  rw [cvAdd_get mu h hn k (by rw [hmu.keys]; exact hk)]
  exact lossM1_add_eq m (mu.get k) (h.get k) hfW hhW (by rw [hhd, hfd]) hmo.proj_nodup hs1
    hrows hmo.ylen hs

end PGM.LossAux
