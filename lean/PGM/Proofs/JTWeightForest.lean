import Mathlib.Combinatorics.SimpleGraph.Acyclic
import Mathlib.Data.Set.Card
/-! forest edge bound: a finite forest on a non-empty vertex type has at most `|V| − 1` edges,
with equality iff it is connected -/
namespace PGM.JT
open SimpleGraph

theorem forest_card_le {V : Type*} [Finite V] [Nonempty V] (H : SimpleGraph V)
    (h : H.IsAcyclic) : Nat.card H.edgeSet + 1 ≤ Nat.card V := by
  obtain ⟨F, hHF, -, hF⟩ := (connected_top (V := V)).exists_isTree_le_of_le_of_isAcyclic le_top h
  have hc := (isTree_iff_connected_and_card.mp hF).2
  have hsub : H.edgeSet ⊆ F.edgeSet := edgeSet_mono hHF
  have : Nat.card H.edgeSet ≤ Nat.card F.edgeSet := by
    simp only [Nat.card_coe_set_eq]
    exact Set.ncard_le_ncard hsub (Set.toFinite _)
  omega

theorem forest_card_eq_iff {V : Type*} [Finite V] [Nonempty V] (H : SimpleGraph V)
    (h : H.IsAcyclic) : Nat.card H.edgeSet + 1 = Nat.card V ↔ H.Connected := by
  constructor
  · intro heq
    obtain ⟨F, hHF, -, hF⟩ := (connected_top (V := V)).exists_isTree_le_of_le_of_isAcyclic le_top h
    have hc := (isTree_iff_connected_and_card.mp hF).2
    have hsub : H.edgeSet ⊆ F.edgeSet := edgeSet_mono hHF
    have hle : F.edgeSet.ncard ≤ H.edgeSet.ncard := by
      simp only [Nat.card_coe_set_eq] at heq hc
      omega
    have : H.edgeSet = F.edgeSet := Set.eq_of_subset_of_ncard_le hsub hle (Set.toFinite _)
    have : H = F := edgeSet_inj.mp this
    rw [this]; exact hF.connected
  · intro hc
    exact (isTree_iff_connected_and_card.mp ⟨hc, h⟩).2

end PGM.JT
