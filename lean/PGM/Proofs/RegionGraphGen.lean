import PGM.Generated.RegionGraphG
import PGM.Model.RegionGraph
import PGM.Proofs.ConvexSweep
import PGM.Proofs.GMGen
/-!
# Helper lemmas for `PGM/Properties/C17G.lean`

The generated reading of `src/mbi/region_graph.py` (`PGM/Generated/RegionGraphG.lean`) follows the source statement by
statement.  Where it differs in shape from the hand model `PGM/Model/RegionGraph.lean` the bridge is here:

* `sum(...)` of Factors is a `PyVal` (the int `0` or a Factor) in the generated code and a `PySum` in the model (`emb`);
* three successive stores `new[p,r] = …` under one key are one store (`dictSet_dictSet`, `msgGet_dictSet_self`);
* `pot` and `cc` are Python dictionaries filled by loops in the generated code, functions in the model
  (`lookup_foldl_dictSet`): they agree on the keys the loops insert, which are the only ones read on a graph whose parent lists
  stay inside the region list;
* `primal_feasibility` accumulates `(ans, count)` where the model lists the errors (`fold_pair`).

This file uses the FIXED prelude of the generated file only.
-/
namespace PGM.RGGen
open PGM PGM.JT PGM.RG
open PGM.GM (dictSet)
set_option linter.unusedSectionVars false

variable {α : Type} [Scalar α]

/-! ## the prelude of the generated file against the model's helpers -/

theorem look_eq {κ β : Type} [BEq κ] (d : List (κ × List β)) (k : κ) : RGG.look d k = RG.look d k := rfl

theorem setDiff_eq (a b : Region) : RGG.setDiff a b = RG.diff a b := rfl

theorem msgGet_eq (m : Msgs α) (k : Edge) : RGG.msgGet m k = Msgs.get m k := by
  unfold RGG.msgGet Msgs.get
  cases List.lookup k m <;> rfl

/-- the model's `PySum` inside the generated `PyVal`: the empty sum is the int `0` -/
def emb : PySum α → RGG.PyVal α
  | .zero => .num Scalar.zero
  | .fac g => .fac g

theorem pySum_emb (l : List (Factor α)) : RGG.pySum l = emb (RG.pySum l) := by
  unfold RGG.pySum RG.pySum
  have h : ∀ (l : List (Factor α)) (acc : PySum α),
      l.foldl (fun acc f => RGG.PyVal.add acc (.fac f)) (emb acc)
        = emb (l.foldl (fun acc f => match acc with
            | .zero => .fac (f.addScalar Scalar.zero)
            | .fac g => .fac (g.add f)) acc) := by
    intro l
    induction l with
    | nil => intro acc; rfl
    | cons f fs ih =>
      intro acc
      rw [List.foldl_cons, List.foldl_cons, ← ih]
      cases acc <;> rfl
  exact h l .zero

theorem facAdd_emb (x : Factor α) (s : PySum α) : RGG.facAdd x (emb s) = addSum x s := by
  cases s <;> rfl

theorem facSub_emb (x : Factor α) (s : PySum α) : RGG.facSub x (emb s) = subSum x s := by
  cases s <;> rfl

theorem facAdd_pySum (x : Factor α) (l : List (Factor α)) : RGG.facAdd x (RGG.pySum l) = addSum x (RG.pySum l) := by
  rw [pySum_emb, facAdd_emb]

theorem facSub_pySum (x : Factor α) (l : List (Factor α)) : RGG.facSub x (RGG.pySum l) = subSum x (RG.pySum l) := by
  rw [pySum_emb, facSub_emb]

/-! ## Python dictionaries -/

theorem get_dictSet_self (m : Msgs α) (k : Edge) (v : Factor α) : Msgs.get (dictSet m k v) k = v := by
  unfold Msgs.get
  rw [PGM.Convex.lookup_dictSet]
  simp

theorem any_dictSet {κ β : Type} [BEq κ] [LawfulBEq κ] (d : List (κ × β)) (k : κ) (v : β) :
    (dictSet d k v).any (fun p => p.1 == k) = true := by
  unfold dictSet
  by_cases h : d.any (fun p => p.1 == k) = true
  · rw [if_pos h]
    rw [List.any_eq_true] at h ⊢
    obtain ⟨p, hp, hk⟩ := h
    refine ⟨(k, v), ?_, by simp⟩
    rw [List.mem_map]
    exact ⟨p, hp, by rw [if_pos hk]⟩
  · rw [if_neg h]
    simp

theorem dictSet_of_any {κ β : Type} [BEq κ] (e : List (κ × β)) (k : κ) (w : β) (h : e.any (fun p => p.1 == k) = true) :
    dictSet e k w = e.map (fun p => if p.1 == k then (k, w) else p) := by
  unfold dictSet
  rw [if_pos h]

/-- two stores under one key are the last one -/
theorem dictSet_dictSet {κ β : Type} [BEq κ] [LawfulBEq κ] (d : List (κ × β)) (k : κ) (v w : β) :
    dictSet (dictSet d k v) k w = dictSet d k w := by
  rw [dictSet_of_any (dictSet d k v) k w (any_dictSet d k v)]
  unfold dictSet
  by_cases h : d.any (fun p => p.1 == k) = true
  · rw [if_pos h, if_pos h, List.map_map]
    apply List.map_congr_left
    intro p _
    by_cases hk : (p.1 == k) = true
    · simp [hk]
    · simp [hk]
  · rw [if_neg h, if_neg h, List.map_append]
    have : d.map (fun p => if p.1 == k then (k, w) else p) = d := by
      conv => rhs; rw [← List.map_id d]
      apply List.map_congr_left
      intro p hp
      have : ¬ (p.1 == k) = true := fun hk => h (List.any_eq_true.mpr ⟨p, hp, hk⟩)
      simp [this]
    rw [this]
    simp

/-- a dictionary filled by `d[k] = f k` over a list of keys holds `f k` under every key of the list -/
theorem lookup_foldl_dictSet {κ β : Type} [BEq κ] [LawfulBEq κ] (f : κ → β) (ks : List κ) (d : List (κ × β)) (k : κ)
    (h : k ∈ ks ∨ d.lookup k = some (f k)) :
    (ks.foldl (fun d k => dictSet d k (f k)) d).lookup k = some (f k) := by
  induction ks generalizing d with
  | nil =>
    rcases h with h | h
    · cases h
    · exact h
  | cons x xs ih =>
    rw [List.foldl_cons]
    apply ih
    by_cases hx : k = x
    · right
      rw [PGM.Convex.lookup_dictSet, hx]
      simp
    · rcases h with h | h
      · left
        rcases List.mem_cons.mp h with h | h
        · exact absurd h hx
        · exact h
      · right
        rw [PGM.Convex.lookup_dictSet]
        have : (k == x) = false := by simpa using hx
        rw [this]
        exact h

/-- the doubly nested loop `for r in outer: for p in inner(r): d[key r p] = f (key r p)` -/
theorem lookup_foldl2_dictSet {κ β γ δ : Type} [BEq κ] [LawfulBEq κ] (f : κ → β) (outer : List γ) (inner : γ → List δ)
    (key : γ → δ → κ) (r : γ) (p : δ) (hr : r ∈ outer) (hp : p ∈ inner r) :
    (outer.foldl (fun d r => (inner r).foldl (fun d p => dictSet d (key r p) (f (key r p))) d) ([] : List (κ × β))).lookup (key r p)
      = some (f (key r p)) := by
  have e : outer.foldl (fun d r => (inner r).foldl (fun d p => dictSet d (key r p) (f (key r p))) d) ([] : List (κ × β))
      = ((outer.flatMap (fun r => (inner r).map (key r))).foldl (fun d k => dictSet d k (f k)) []) := by
    rw [List.foldl_flatMap]
    congr 1
    funext d r
    rw [List.foldl_map]
  rw [e]
  apply lookup_foldl_dictSet
  left
  rw [List.mem_flatMap]
  exact ⟨r, hr, List.mem_map.mpr ⟨p, hp, rfl⟩⟩

/-! ## `primal_feasibility`: the accumulator `(ans, count)` against the list of errors -/

theorem fold_pair {β : Type} (f : β → α) (l : List β) (a : α) (c : Nat) :
    l.foldl (fun (st : α × Nat) x => (Scalar.add st.1 (f x), st.2 + 1)) (a, c) = ((l.map f).foldl Scalar.add a, c + l.length) := by
  induction l generalizing a c with
  | nil => rfl
  | cons x xs ih =>
    rw [List.foldl_cons, ih, List.map_cons, List.foldl_cons, List.length_cons]
    congr 1
    omega

theorem fold_pair2 {β γ : Type} (inner : β → List γ) (f : β → γ → α) (l : List β) (a : α) (c : Nat) :
    l.foldl (fun (st : α × Nat) r => (inner r).foldl (fun (st : α × Nat) s => (Scalar.add st.1 (f r s), st.2 + 1)) st) (a, c)
      = ((l.flatMap (fun r => (inner r).map (f r))).foldl Scalar.add a, c + (l.flatMap (fun r => (inner r).map (f r))).length) := by
  induction l generalizing a c with
  | nil => rfl
  | cons x xs ih =>
    rw [List.foldl_cons, fold_pair, ih, List.flatMap_cons, List.foldl_append, List.length_append, List.length_map]
    congr 1
    omega

theorem norm1_flatSub (x y : List α) : RGG.norm1 (RGG.flatSub x y) = norm1Diff x y := by
  unfold RGG.norm1 RGG.flatSub norm1Diff
  rw [List.map_zipWith]


/-! ## the pieces of one sweep of `hazan_peng_shashua`, with `pot` and `cc` as parameters -/

def downMsg (g : RG.Graph) (pot : Region → Factor α) (c0 : Region → α) (msgs : Msgs α) (p r : Region) : Factor α :=
  let s1 := RG.pySum (((RG.look g.children p).filter (fun c => c != r)).map (fun c => msgs.get (c, p)))
  let s2 := RG.pySum ((RG.look g.parents p).map (fun p1 => msgs.get (p, p1)))
  let m := (subSum (addSum (pot p) s1) s2).divScalar (c0 p)
  let m := Factor.mulScalar (c0 p) (m.logsumexp (RG.diff p r))
  m.subScalar m.logsumexpAll

def upMsg (g : RG.Graph) (pot : Region → Factor α) (ccf : Region → Region → α) (msgs : Msgs α) (p r : Region) : Factor α :=
  let s1 := RG.pySum ((RG.look g.children r).map (fun c => msgs.get (c, r)))
  let s2 := RG.pySum ((RG.look g.parents r).map (fun p1 => msgs.get (p1, r)))
  let m := (Factor.mulScalar (ccf p r) (addSum (addSum (pot r) s1) s2)).sub (msgs.get (p, r))
  m.subScalar m.logsumexpAll

def downDict (g : RG.Graph) (pot : Region → Factor α) (c0 : Region → α) (msgs : Msgs α) : Msgs α :=
  g.regions.foldl (fun (new : Msgs α) r =>
    (RG.look g.parents r).foldl (fun (new : Msgs α) p => dictSet new (p, r) (downMsg g pot c0 msgs p r)) new) []

def upDict (g : RG.Graph) (pot : Region → Factor α) (ccf : Region → Region → α) (msgs down : Msgs α) : Msgs α :=
  g.regions.foldl (fun (new : Msgs α) r =>
    (RG.look g.parents r).foldl (fun (new : Msgs α) p => dictSet new (r, p) (upMsg g pot ccf msgs p r)) new) down

def dampDict (g : RG.Graph) (rho : α) (msgs new : Msgs α) : Msgs α :=
  g.regions.foldl (fun (msgs : Msgs α) p =>
    (RG.look g.children p).foldl (fun (msgs : Msgs α) r =>
      let msgs : Msgs α := dictSet msgs (p, r) ((Factor.mulScalar rho (msgs.get (p, r))).add (Factor.mulScalar (Scalar.sub Scalar.one rho) (Msgs.get new (p, r))))
      dictSet msgs (r, p) ((Factor.mulScalar rho (msgs.get (r, p))).add (Factor.mulScalar (Scalar.sub Scalar.one rho) (Msgs.get new (r, p))))) msgs) msgs

def muDict (g : RG.Graph) (pot : Region → Factor α) (c0 : Region → α) (total : α) (msgs : Msgs α) : CliqueVec α :=
  g.regions.foldl (fun (mu : CliqueVec α) r =>
    let s1 := RG.pySum ((RG.look g.children r).map (fun c => msgs.get (c, r)))
    let s2 := RG.pySum ((RG.look g.parents r).map (fun p => msgs.get (r, p)))
    let belief := (subSum (addSum (pot r) s1) s2).divScalar (c0 r)
    mu.set r (normalise total belief)) []

/-- the normal form of one sweep, `cc` a parameter -/
def sweepNF (g : RG.Graph) (pot : Region → Factor α) (c0 : Region → α) (ccf : Region → Region → α) (total rho : α) (msgs : Msgs α) :
    Msgs α × CliqueVec α :=
  let m := dampDict g rho msgs (upDict g pot ccf msgs (downDict g pot c0 msgs))
  (m, muDict g pot c0 total m)

theorem hpsSweep_eq_NF (g : RG.Graph) (pot : Region → Factor α) (c0 : Region → α) (total rho : α) (msgs : Msgs α) :
    RG.hpsSweep g pot c0 total rho msgs = sweepNF g pot c0 (ccOf g c0) total rho msgs := rfl

theorem foldl2_congr {β γ δ : Type} (outer : List β) (inner : β → List γ) (f f' : δ → β → γ → δ) (init : δ)
    (h : ∀ r ∈ outer, ∀ p ∈ inner r, ∀ d, f d r p = f' d r p) :
    outer.foldl (fun d r => (inner r).foldl (fun d p => f d r p) d) init
      = outer.foldl (fun d r => (inner r).foldl (fun d p => f' d r p) d) init := by
  apply List.foldl_ext
  intro d r hr
  apply List.foldl_ext
  intro d p hp
  exact h r hr p hp d

/-- the sweep reads `pot` on the regions and their parents only, `cc` on the edges only -/
theorem sweepNF_congr (g : RG.Graph) (pot pot' : Region → Factor α) (c0 : Region → α) (ccf ccf' : Region → Region → α)
    (total rho : α) (msgs : Msgs α)
    (hr : ∀ r ∈ g.regions, pot r = pot' r)
    (hp : ∀ r ∈ g.regions, ∀ p ∈ RG.look g.parents r, pot p = pot' p)
    (hc : ∀ r ∈ g.regions, ∀ p ∈ RG.look g.parents r, ccf p r = ccf' p r) :
    sweepNF g pot c0 ccf total rho msgs = sweepNF g pot' c0 ccf' total rho msgs := by
  have e1 : downDict g pot c0 msgs = downDict g pot' c0 msgs := by
    unfold downDict
    apply foldl2_congr g.regions (fun r => RG.look g.parents r)
    intro r hr' p hp' d
    unfold downMsg
    rw [hp r hr' p hp']
  have e2 : ∀ down, upDict g pot ccf msgs down = upDict g pot' ccf' msgs down := by
    intro down
    unfold upDict
    apply foldl2_congr g.regions (fun r => RG.look g.parents r)
    intro r hr' p hp' d
    unfold upMsg
    rw [hr r hr', hc r hr' p hp']
  have e3 : ∀ m, muDict g pot c0 total m = muDict g pot' c0 total m := by
    intro m
    unfold muDict
    apply List.foldl_ext
    intro d r hr'
    rw [hr r hr']
  show (dampDict g rho msgs (upDict g pot ccf msgs (downDict g pot c0 msgs)), muDict g pot c0 total _) =
    (dampDict g rho msgs (upDict g pot' ccf' msgs (downDict g pot' c0 msgs)), muDict g pot' c0 total _)
  rw [e1, e2, e3]


/-! ## one sweep of `generalized_belief_propagation` with the edge `(ru, rd)` spelled out -/

def gbpNew (g : RG.Graph) (pot : Region → Factor α) (msgs new : Msgs α) (ru rd : Region) : Msgs α :=
  let num := pot ru
  let num := addSum num (RG.pySum ((RG.look g.N (ru, rd)).map msgs.get))
  let denom := RG.pySum ((RG.look g.D (ru, rd)).map (Msgs.get new))
  let m := subSum (num.logsumexp (RG.diff ru rd)) denom
  let m := m.subScalar m.logsumexpAll
  dictSet new (ru, rd) m

def gbpDamp (msgs new : Msgs α) (ru rd : Region) : Msgs α :=
  dictSet msgs (ru, rd) ((Factor.mulScalar half (msgs.get (ru, rd))).add (Factor.mulScalar half (Msgs.get new (ru, rd))))

def gbpSweepNF (g : RG.Graph) (pot : Region → Factor α) (msgs : Msgs α) : Msgs α :=
  g.messageOrder.foldl (fun (m : Msgs α) e =>
    gbpDamp m (g.messageOrder.foldl (fun (new : Msgs α) e => gbpNew g pot msgs new e.1 e.2) []) e.1 e.2) msgs

theorem gbpSweep_eq_NF (g : RG.Graph) (pot : Region → Factor α) (msgs : Msgs α) :
    RG.gbpSweep g pot msgs = gbpSweepNF g pot msgs := by
  unfold RG.gbpSweep gbpSweepNF
  have h1 : (g.messageOrder.foldl (fun (new : Msgs α) (e : Edge) =>
      let (ru, rd) := e
      let num := pot ru
      let num := addSum num (RG.pySum (((g.N.lookup e).getD []).map msgs.get))
      let denom := RG.pySum (((g.D.lookup e).getD []).map (Msgs.get new))
      let m := subSum (num.logsumexp (RG.diff ru rd)) denom
      let m := m.subScalar m.logsumexpAll
      dictSet new e m) [])
      = g.messageOrder.foldl (fun (new : Msgs α) e => gbpNew g pot msgs new e.1 e.2) [] := by
    apply List.foldl_ext
    intro new e _
    obtain ⟨ru, rd⟩ := e
    rfl
  show g.messageOrder.foldl _ msgs = _
  rw [h1]
  rfl

/-- the sweep reads `pot` at the sources of the message order only -/
theorem gbpSweepNF_congr (g : RG.Graph) (pot pot' : Region → Factor α) (msgs : Msgs α)
    (h : ∀ e ∈ g.messageOrder, pot e.1 = pot' e.1) : gbpSweepNF g pot msgs = gbpSweepNF g pot' msgs := by
  have h1 : g.messageOrder.foldl (fun (new : Msgs α) e => gbpNew g pot msgs new e.1 e.2) []
      = g.messageOrder.foldl (fun (new : Msgs α) e => gbpNew g pot' msgs new e.1 e.2) [] := by
    apply List.foldl_ext
    intro new e he
    unfold gbpNew
    rw [h e he]
  unfold gbpSweepNF
  rw [h1]


/-- the code after the loop of `generalized_belief_propagation`: the beliefs of the model cliques, and the messages -/
def gbpExit (g : RG.Graph) (potentials : CliqueVec α) (total : α) (msgs : Msgs α) : CliqueVec α × Msgs α :=
  (g.cliques.foldl (fun (acc : CliqueVec α) r =>
    let belief := addSum (potentials.get r) (RG.pySum ((RG.look g.B r).map msgs.get))
    acc.set r (normalise total belief)) [], msgs)

theorem gbp_eq_exit (dom : Dom) (g : RG.Graph) (potentials : CliqueVec α) (total : α) (iters : Nat) (msgs : Msgs α) :
    RG.gbp dom g potentials total iters msgs
      = gbpExit g potentials total (iterate (gbpSweep g (potOf dom g potentials)) iters msgs) := rfl


/-! ## `__init__` / the last block of `build_graph` -/

theorem foldl_append_if {β : Type} (p : β → Bool) (l a : List β) :
    l.foldl (fun acc x => if p x then acc ++ [x] else acc) a = a ++ l.filter p := by
  induction l generalizing a with
  | nil => simp
  | cons x xs ih =>
    rw [List.foldl_cons, ih, List.filter_cons]
    by_cases h : p x = true
    · simp [h]
    · simp [h]

/-- the two keys an edge contributes to `self.messages` -/
def edgeKeys (e : Edge) : List Edge := [(e.1, e.2), (e.2, e.1)]

/-- `self.message_order.append((ru,rd)); self.messages[ru,rd] = zeros; self.messages[rd,ru] = zeros` -/
def initStep (dom : Dom) (st : Msgs α × List Edge) (e : Edge) : Msgs α × List Edge :=
  (dictSet (dictSet st.1 (e.1, e.2) (Factor.zeros (dom.project e.2))) (e.2, e.1) (Factor.zeros (dom.project e.2)), st.2 ++ [e])

/-- on fresh, pairwise different keys the dictionary stores append -/
theorem foldl_initStep (dom : Dom) (es : List Edge) (m : Msgs α) (mo : List Edge)
    (h : (m.map Prod.fst ++ es.flatMap edgeKeys).Nodup) :
    es.foldl (initStep dom) (m, mo)
      = (m ++ es.flatMap (fun e => [((e.1, e.2), Factor.zeros (dom.project e.2)), ((e.2, e.1), Factor.zeros (dom.project e.2))]), mo ++ es) := by
  induction es generalizing m mo with
  | nil => simp
  | cons e es ih =>
    rw [List.foldl_cons]
    rw [List.flatMap_cons, ← List.append_assoc] at h
    have hk := (List.nodup_append.mp h).1
    have hk' : (m.map Prod.fst ++ [(e.1, e.2), (e.2, e.1)]).Nodup := hk
    have h1 : (e.1, e.2) ∉ m.map Prod.fst := by
      intro hm
      have := (List.nodup_append.mp hk').2.2 _ hm (e.1, e.2) (by simp)
      exact this rfl
    have e1 : dictSet m (e.1, e.2) (Factor.zeros (α := α) (dom.project e.2)) = m ++ [((e.1, e.2), Factor.zeros (dom.project e.2))] :=
      PGM.GMGen.dictSet_fresh m _ _ h1
    have h2 : (e.2, e.1) ∉ (m ++ [((e.1, e.2), Factor.zeros (α := α) (dom.project e.2))]).map Prod.fst := by
      rw [List.map_append, List.map_cons, List.map_nil]
      intro hm
      have hk2 : ((m.map Prod.fst ++ [(e.1, e.2)]) ++ [(e.2, e.1)]).Nodup := by
        rw [List.append_assoc]
        exact hk'
      have := (List.nodup_append.mp hk2).2.2 _ hm (e.2, e.1) (by simp)
      exact this rfl
    have e2 := PGM.GMGen.dictSet_fresh (m ++ [((e.1, e.2), Factor.zeros (α := α) (dom.project e.2))]) (e.2, e.1) (Factor.zeros (dom.project e.2)) h2
    show es.foldl (initStep dom) (dictSet (dictSet m (e.1, e.2) (Factor.zeros (dom.project e.2))) (e.2, e.1) (Factor.zeros (dom.project e.2)), mo ++ [e]) = _
    rw [e1, e2, ih]
    · simp
    · have : (m ++ [((e.1, e.2), Factor.zeros (α := α) (dom.project e.2))] ++ [((e.2, e.1), Factor.zeros (dom.project e.2))]).map Prod.fst
          = m.map Prod.fst ++ edgeKeys e := by simp [edgeKeys]
      rw [this]
      exact h

end PGM.RGGen
