import PGM.Proofs.ZerosSem
import PGM.Proofs.CoherentFactor
/-!
# Zero cells along a parameter trajectory (helpers for `Properties/C10E.lean`)

`ZerosIn d cliques zs θ`: `θ` is laid out on the model's cliques and its joint vanishes on every assignment that extends a
declared cell.  It holds after `_setup` (`Zeros.zeros_installed`), is preserved by `θ ↦ θ − c·g` for any vector `g` laid out
on the model's cliques (`zerosIn_update`: `C10.update_preserves_zeros` clique by clique) and is re-established by
`combine b zeros` (`zerosIn_combine`).
-/
namespace PGM.E2EZeros
open PGM PGM.JT PGM.Sem PGM.Zeros PGM.Coherent
variable {K : Type} [Field K] [LinearOrder K] [IsStrictOrderedRing K]

/-- `θ` is laid out on the model's cliques and its product vanishes wherever a declared cell is hit -/
def ZerosIn (d : Dom) (cliques : List Clique) (zs : List ZeroSpec) (θ : CliqueVec (LogOf K)) : Prop :=
  VecOK d cliques θ ∧ ∀ τ, d.Valid τ → (∃ z ∈ zs, Hits z τ) → joint θ τ = 0

theorem smul_vecOK (d : Dom) (cliques : List Clique) (c : LogOf K) (b : CliqueVec (LogOf K)) (hb : VecOK d cliques b) :
    VecOK d cliques (CliqueVec.smul c b) := by
  refine ⟨?_, ?_⟩
  · rw [← hb.1]; exact keys_map b (fun _ f => f.mulScalar c)
  · intro p hp
    obtain ⟨q, hq, rfl⟩ := List.mem_map.mp hp
    exact ⟨mapVals_WF _ _ (hb.2 q hq).1, (hb.2 q hq).2⟩

theorem get_vecOK (d : Dom) (cliques : List Clique) (hcn : cliques.Nodup) (b : CliqueVec (LogOf K)) (hb : VecOK d cliques b)
    (c : Clique) (hc : c ∈ cliques) : (b.get c).WF ∧ (b.get c).dom = d.project c := by
  obtain ⟨f, hf, hmem⟩ := BP.lookup_isSome_of_mem b c (by rw [hb.1]; exact hc)
  rw [BP.get_of_lookup b c f hf]
  exact hb.2 (c, f) hmem

/-- the update `θ + h` (in particular `θ − α·dL`): layout kept, every clique table multiplied cell by cell -/
theorem addV_vecOK (d : Dom) (cliques : List Clique) (hcn : cliques.Nodup) (θ h : CliqueVec (LogOf K))
    (hθ : VecOK d cliques θ) (hh : VecOK d cliques h) : VecOK d cliques (CliqueVec.addV θ h) := by
  refine ⟨?_, ?_⟩
  · rw [← hθ.1]; exact keys_map θ (fun k f => f.add (h.get k))
  · intro p hp
    obtain ⟨q, hq, rfl⟩ := List.mem_map.mp hp
    have hq1 : q.1 ∈ cliques := by rw [← hθ.1]; exact List.mem_map_of_mem hq
    obtain ⟨h1, h2⟩ := hθ.2 q hq
    obtain ⟨h3, h4⟩ := get_vecOK d cliques hcn h hh q.1 hq1
    obtain ⟨h5, h6⟩ := binop_same_dom Scalar.add q.2 (h.get q.1) h1 h3 (h4.trans h2.symm)
    exact ⟨h5, h6.trans h2⟩

theorem zerosIn_addV (d : Dom) (cliques : List Clique) (zs : List ZeroSpec) (hd : d.WF)
    (hcl : ∀ c ∈ cliques, c.Nodup ∧ ∀ a ∈ c, a ∈ d.attrs) (hcn : cliques.Nodup) (θ h : CliqueVec (LogOf K))
    (hθ : ZerosIn d cliques zs θ) (hh : VecOK d cliques h) : ZerosIn d cliques zs (CliqueVec.addV θ h) := by
  refine ⟨addV_vecOK d cliques hcn θ h hθ.1 hh, fun τ hτ hit => ?_⟩
  have h0 := hθ.2 τ hτ hit
  unfold joint at h0 ⊢
  obtain ⟨x, hx, hx0⟩ := List.prod_eq_zero_iff.mp h0 |> fun hm => (⟨0, hm, rfl⟩ : ∃ x ∈ _, x = (0 : K))
  obtain ⟨p, hp, hp0⟩ := List.mem_map.mp hx
  apply List.prod_eq_zero
  rw [List.mem_map]
  refine ⟨(p.1, p.2.add (h.get p.1)), List.mem_map_of_mem (f := fun p => (p.1, p.2.add (h.get p.1))) hp, ?_⟩
  have hp1 : p.1 ∈ cliques := by rw [← hθ.1.1]; exact List.mem_map_of_mem hp
  obtain ⟨h1, h2⟩ := hθ.1.2 p hp
  obtain ⟨h3, h4⟩ := get_vecOK d cliques hcn h hh p.1 hp1
  obtain ⟨ok1, _⟩ := factorOK_of_dom d p.2 p.1 h1 h2 (hcl p.1 hp1).2
  obtain ⟨ok2, _⟩ := factorOK_of_dom d (h.get p.1) p.1 h3 h4 (hcl p.1 hp1).2
  show ((Factor.binop Scalar.add p.2 (h.get p.1)).sem τ).v = 0
  rw [sem_binop_ok Scalar.add hd ok1 ok2 hτ, BP.log_add_v, hp0, hx0, zero_mul]

/-- **`θ − c·g` keeps the zeros**, for every scalar `c` and every vector `g` laid out on the model's cliques -/
theorem zerosIn_update (d : Dom) (cliques : List Clique) (zs : List ZeroSpec) (hd : d.WF)
    (hcl : ∀ c ∈ cliques, c.Nodup ∧ ∀ a ∈ c, a ∈ d.attrs) (hcn : cliques.Nodup) (θ g : CliqueVec (LogOf K)) (c : LogOf K)
    (hθ : ZerosIn d cliques zs θ) (hg : VecOK d cliques g) :
    ZerosIn d cliques zs (CliqueVec.subV θ (CliqueVec.smul c g)) :=
  zerosIn_addV d cliques zs hd hcl hcn θ _ hθ (smul_vecOK d cliques _ _ (smul_vecOK d cliques c g hg))

/-- **`combine b zeros` has the zeros**, for every `b` laid out on the model's cliques (RDA's rebuilt parameters) -/
theorem zerosIn_combine (d : Dom) (cliques : List Clique) (zs : List ZeroSpec) (hd : d.WF)
    (hcl : ∀ c ∈ cliques, c.Nodup ∧ ∀ a ∈ c, a ∈ d.attrs) (hcn : cliques.Nodup)
    (hz : ∀ z ∈ zs, z.zc.Nodup ∧ (∀ a ∈ z.zc, a ∈ d.attrs) ∧ ∃ c ∈ cliques, JT.subset z.zc c = true)
    (hsizes : ∀ p ∈ d, 0 < p.2) (b : CliqueVec (LogOf K)) (hb : VecOK d cliques b) :
    ZerosIn d cliques zs (CliqueVec.combine b (zeroVec d zs)) := by
  refine ⟨?_, fun τ hτ hit => combine_reinstalls_zeros d cliques b zs τ hd hcl hcn hb.1 hb.2 hz hτ hit⟩
  rw [combine_eq]
  exact (foldl_step_spec d cliques zs b (fun _ => 0) hd hcl hcn hb hz (fun p hp => hsizes p hp)).1

/-- alias of `Zeros.zero_in_all_answers` (= `C10.zero_in_all_answers`), which since audit 2 asks the vanishing of the
joint on VALID assignments only (what `ZerosIn` provides) -/
theorem zero_in_all_answers_valid (d : Dom) (pots : CliqueVec (LogOf K)) (z : ZeroSpec) (as : List Attr)
    (σ : Attr → Nat) (hd : d.WF) (hzc : ∀ a ∈ z.zc, a ∈ as)
    (hzero : ∀ τ, d.Valid τ → Hits z τ → joint pots τ = 0) (hσv : d.Valid σ) (hσ : Hits z σ) :
    marginal d pots as σ = 0 :=
  Zeros.zero_in_all_answers d pots z as σ hd hzc hzero hσv hσ

end PGM.E2EZeros
