import PGM.Proofs.LossSem
import PGM.Proofs.LossL1Main
/-!
# The L1 estimation objective: each measurement once, nonnegativity, the returned gradient is a
subgradient everywhere and the derivative wherever no residual vanishes
(statements for C04B; `K` any linearly ordered field, plain arithmetic `PlainOf K`)
-/
set_option linter.unusedSectionVars false
namespace PGM.Loss
open PGM PGM.JT
variable {K : Type} [Field K] [LinearOrder K] [IsStrictOrderedRing K]

/-- the residual `diff = c (Q x_m − y)` of one measurement at a clique marginal `f`, `c = 1/noise`,
`x_m = f.project(proj).datavector()` -/
def residV (m : Meas (PlainOf K)) (f : Factor (PlainOf K)) : List K :=
  List.zipWith (fun q y => (m.noise.v)⁻¹ * (q - y.v)) (qx m (xOf m f)) m.y

/-- absolute-error loss of one measurement at a clique marginal: `Σ_rows |c (Q x_m − y)|` -/
def lossM1 (m : Meas (PlainOf K)) (f : Factor (PlainOf K)) : K := ((residV m f).map (fun r => |r|)).sum

/-- the change of the residual along a direction `h` of the clique marginal: `c Q h_m` -/
def stepV (m : Meas (PlainOf K)) (h : Factor (PlainOf K)) : List K :=
  (qx m (xOf m h)).map (fun q => (m.noise.v)⁻¹ * q)

/-- `residV` is the value of the model's `residual` -/
theorem residual_eq (m : Meas (PlainOf K)) (f : Factor (PlainOf K)) :
    (residual m f).map (·.v) = residV m f := LossAux.residual_v' m f

theorem absS_eq_abs (x : PlainOf K) : (absS x).v = |x.v| := LossAux.absS_v x

theorem signS_eq_sign (x : PlainOf K) :
    (signS x).v = ((SignType.sign x.v : SignType) : K) ∧
    (signS x).v * x.v = |x.v| ∧ |(signS x).v| ≤ 1 := by
  rw [LossAux.signS_v]
  exact ⟨LossAux.sgn_eq_sign _, LossAux.sgn_mul_self _, LossAux.abs_sgn_le _⟩

theorem lossL1_each_once (d : Dom) (cliques : List Clique) (meas : List (Meas (PlainOf K)))
    (mu : CliqueVec (PlainOf K)) (hmu : VecOK d cliques mu) (hm : ∀ m ∈ meas, MeasOK d m)
    (hcov : ∀ m ∈ meas, ∃ c ∈ cliques, JT.subset m.proj c = true) :
    (marginalLossL1 d cliques meas mu).1.v
      = (meas.map (fun m => lossM1 m (mu.get ((groupOf d cliques m.proj).getD [])))).sum := by
  exact LossAux.lossL1_each_once d cliques meas mu hmu.aux (fun m h => (hm m h).aux) hcov

theorem lossL1_nonneg (d : Dom) (cliques : List Clique) (meas : List (Meas (PlainOf K)))
    (mu : CliqueVec (PlainOf K)) : 0 ≤ (marginalLossL1 d cliques meas mu).1.v :=
  LossAux.lossL1_nonneg d cliques meas mu

theorem lossL1_subgradient (d : Dom) (cliques : List Clique) (meas : List (Meas (PlainOf K)))
    (mu mu' : CliqueVec (PlainOf K)) (hmu : VecOK d cliques mu) (hmu' : VecOK d cliques mu')
    (hm : ∀ m ∈ meas, MeasOK d m) :
    (marginalLossL1 d cliques meas mu).1.v
        + (cvDot (marginalLossL1 d cliques meas mu).2 mu' - cvDot (marginalLossL1 d cliques meas mu).2 mu)
      ≤ (marginalLossL1 d cliques meas mu').1.v := by
  exact LossAux.lossL1_subgradient d cliques meas mu mu' hmu.aux hmu'.aux (fun m h => (hm m h).aux)

theorem lossL1_subgradient_add (d : Dom) (cliques : List Clique) (meas : List (Meas (PlainOf K)))
    (mu h : CliqueVec (PlainOf K)) (hmu : VecOK d cliques mu) (hh : VecOK d cliques h)
    (hm : ∀ m ∈ meas, MeasOK d m) :
    (marginalLossL1 d cliques meas mu).1.v + cvDot (marginalLossL1 d cliques meas mu).2 h
      ≤ (marginalLossL1 d cliques meas (cvAdd mu h)).1.v := by
  exact LossAux.lossL1_subgradient_add d cliques meas mu h hmu.aux hh.aux (fun m h => (hm m h).aux)

theorem lossL1_differentiable_case (d : Dom) (cliques : List Clique) (meas : List (Meas (PlainOf K)))
    (mu h : CliqueVec (PlainOf K)) (hmu : VecOK d cliques mu) (hh : VecOK d cliques h)
    (hm : ∀ m ∈ meas, MeasOK d m)
    (hsmall : ∀ m ∈ meas, List.Forall₂ (fun t r => |t| < |r|)
      (stepV m (h.get ((groupOf d cliques m.proj).getD [])))
      (residV m (mu.get ((groupOf d cliques m.proj).getD [])))) :
    (marginalLossL1 d cliques meas (cvAdd mu h)).1.v
      = (marginalLossL1 d cliques meas mu).1.v + cvDot (marginalLossL1 d cliques meas mu).2 h := by
  exact LossAux.lossL1_differentiable_case d cliques meas mu h hmu.aux hh.aux (fun m h => (hm m h).aux)
    hsmall

end PGM.Loss
