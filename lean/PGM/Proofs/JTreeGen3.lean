import PGM.Proofs.JTreeGen
import PGM.Proofs.JTExistsFam
import PGM.Proofs.JTScheduleDet
import Mathlib.Algebra.BigOperators.Group.List.Basic
import Mathlib.Logic.Function.Iterate
/-!
# Helper lemmas for `Properties/C12G.lean` (3): `_greedy_order`

Python keeps `cliques` as a *set of tuples* whose members come out of `tuple(set(..))` in an
unspecified order (`tos`), and `set.add` compares tuples; the hand model keeps a list and compares
attribute sets (`sameSet`).  The two states are related by `CEq` (same family of attribute sets); the
costs, hence the chosen attributes, the order and the accumulated cost, are the same.
-/
namespace PGM.JT

/-! ## super-cliques -/

theorem mem_union {a b : Clique} {x : Attr} : x ∈ union a b ↔ x ∈ a ∨ x ∈ b := by
  simp only [union, List.mem_append, List.mem_filter, Bool.not_eq_true', List.contains_eq_mem,
    decide_eq_false_iff_not]
  by_cases h : x ∈ a <;> simp [h]

theorem nodup_union {a b : Clique} (ha : a.Nodup) (hb : b.Nodup) : (union a b).Nodup := by
  unfold union
  refine List.nodup_append.2 ⟨ha, hb.filter _, ?_⟩
  intro x hx y hy
  simp only [List.mem_filter, Bool.not_eq_true', List.contains_eq_mem, decide_eq_false_iff_not] at hy
  exact fun e => hy.2 (e ▸ hx)

theorem mem_foldl_union (nb : List Clique) : ∀ (s0 : Clique) (x : Attr),
    x ∈ nb.foldl union s0 ↔ x ∈ s0 ∨ ∃ c ∈ nb, x ∈ c := by
  induction nb with
  | nil => intro s0 x; simp
  | cons c nb ih =>
    intro s0 x
    simp only [List.foldl_cons, ih, mem_union, List.mem_cons, exists_eq_or_imp, or_assoc]

theorem nodup_foldl_union (nb : List Clique) : ∀ (s0 : Clique), s0.Nodup → (∀ c ∈ nb, c.Nodup) →
    (nb.foldl union s0).Nodup := by
  induction nb with
  | nil => intro s0 h _; exact h
  | cons c nb ih =>
    intro s0 h hc
    exact ih _ (nodup_union h (hc c (by simp))) (fun c' hc' => hc c' (by simp [hc']))

theorem mem_setUnionAll {α : Type} [BEq α] [LawfulBEq α] (sets : List (List α)) :
    ∀ (s0 : List α) (x : α), x ∈ setUnionAll s0 sets ↔ x ∈ s0 ∨ ∃ s ∈ sets, x ∈ s := by
  unfold setUnionAll
  induction sets with
  | nil => intro s0 x; simp
  | cons s sets ih =>
    intro s0 x
    simp only [List.foldl_cons, ih, mem_setUnion, List.mem_cons, exists_eq_or_imp, or_assoc]

theorem nodup_setUnionAll {α : Type} [BEq α] [LawfulBEq α] (sets : List (List α)) :
    ∀ (s0 : List α), s0.Nodup → (setUnionAll s0 sets).Nodup := by
  unfold setUnionAll
  induction sets with
  | nil => intro s0 h; exact h
  | cons s sets ih => intro s0 h; exact ih _ (nodup_setUnion h)

/-- the merged super-clique of `a`, as generated -/
def genSup (cs : List Clique) (a : Attr) : List Attr :=
  setUnionAll [] ((cs.filter (fun cl => cl.contains a)).map (fun x => toSet x))

/-- … and in the hand model -/
def modSup (cs : List Clique) (a : Attr) : List Attr :=
  (cs.filter (fun cl => cl.contains a)).foldl union []

theorem mem_genSup {cs : List Clique} {a x : Attr} : x ∈ genSup cs a ↔ ∃ c ∈ cs, a ∈ c ∧ x ∈ c := by
  unfold genSup
  rw [mem_setUnionAll]
  simp only [List.not_mem_nil, false_or, List.mem_map, List.mem_filter, List.contains_iff_mem]
  constructor
  · rintro ⟨s, ⟨c, ⟨hc, ha⟩, rfl⟩, hx⟩
    exact ⟨c, hc, ha, mem_toSet.1 hx⟩
  · rintro ⟨c, hc, ha, hx⟩
    exact ⟨toSet c, ⟨c, ⟨hc, ha⟩, rfl⟩, mem_toSet.2 hx⟩

theorem mem_modSup {cs : List Clique} {a x : Attr} : x ∈ modSup cs a ↔ ∃ c ∈ cs, a ∈ c ∧ x ∈ c := by
  unfold modSup
  rw [mem_foldl_union]
  simp only [List.not_mem_nil, false_or, List.mem_filter, List.contains_iff_mem]
  constructor
  · rintro ⟨c, ⟨hc, ha⟩, hx⟩; exact ⟨c, hc, ha, hx⟩
  · rintro ⟨c, hc, ha, hx⟩; exact ⟨c, ⟨hc, ha⟩, hx⟩

theorem nodup_genSup (cs : List Clique) (a : Attr) : (genSup cs a).Nodup :=
  nodup_setUnionAll _ _ List.nodup_nil

/-- the two clique collections list the same attribute sets, all duplicate-free -/
structure CEq (cs cs' : List Clique) : Prop where
  nd : ∀ c ∈ cs, c.Nodup
  nd' : ∀ c ∈ cs', c.Nodup
  fwd : ∀ c ∈ cs, ∃ c' ∈ cs', ∀ x, x ∈ c ↔ x ∈ c'
  bwd : ∀ c' ∈ cs', ∃ c ∈ cs, ∀ x, x ∈ c ↔ x ∈ c'

theorem CEq.sup {cs cs' : List Clique} (h : CEq cs cs') (a x : Attr) :
    x ∈ genSup cs a ↔ x ∈ modSup cs' a := by
  rw [mem_genSup, mem_modSup]
  constructor
  · rintro ⟨c, hc, ha, hx⟩
    obtain ⟨c', hc', he⟩ := h.fwd c hc
    exact ⟨c', hc', (he a).1 ha, (he x).1 hx⟩
  · rintro ⟨c', hc', ha, hx⟩
    obtain ⟨c, hc, he⟩ := h.bwd c' hc'
    exact ⟨c, hc, (he a).2 ha, (he x).2 hx⟩

theorem nodup_modSup {cs cs' : List Clique} (h : CEq cs cs') (a : Attr) : (modSup cs' a).Nodup :=
  nodup_foldl_union _ _ List.nodup_nil (fun c hc => h.nd' c (List.mem_filter.1 hc).1)

theorem size_eq_prod (s : List Nat) : PGM.size s = s.prod := by
  induction s with
  | nil => rfl
  | cons n ns ih => simp [PGM.size, ih]

theorem sizeOf_perm (d : Dom) {l l' : List Attr} (h : l.Perm l') : d.sizeOf l = d.sizeOf l' := by
  unfold Dom.sizeOf Dom.size Dom.shape Dom.project
  rw [size_eq_prod, size_eq_prod]
  exact ((h.map _).map _).prod_eq

/-- **the cost of eliminating `a` is the same in both states**, whatever order `tuple(set(..))` picks -/
theorem cost_eq (tos : List Attr → List Attr) (htos : ∀ l, (tos l).Perm l) (d : Dom)
    {cs cs' : List Clique} (h : CEq cs cs') (a : Attr) :
    Dom.size (Dom.project d (tos (genSup cs a))) = elimCost d cs' a := by
  show d.sizeOf (tos (genSup cs a)) = d.sizeOf (modSup cs' a)
  apply sizeOf_perm
  refine (htos _).trans ?_
  rw [List.perm_ext_iff_of_nodup (nodup_genSup cs a) (nodup_modSup h a)]
  exact fun x => h.sup a x

/-! ## the clean-up after a pick -/

/-- `cliques -= set(neighbors); cliques.add(variables)`, as generated -/
def genCleanup (tos : List Attr → List Attr) (cs : List Clique) (a : Attr) : List Clique :=
  setAdd (setDiff cs (toSet (cs.filter (fun cl => cl.contains a)))) (tos (setDiff (genSup cs a) [a]))

theorem mem_elimStep {cs' : List Clique} {a : Attr} {c : Clique} (hc : c ∈ elimStep cs' a) :
    (c ∈ cs' ∧ a ∉ c) ∨ c = (modSup cs' a).filter (· != a) := by
  unfold elimStep at hc
  simp only at hc
  split at hc
  · left; simpa using hc
  · rcases List.mem_append.1 hc with h | h
    · left; simpa using h
    · right; simpa [modSup] using h

theorem elimStep_rest {cs' : List Clique} {a : Attr} {c : Clique} (hc : c ∈ cs') (ha : a ∉ c) :
    c ∈ elimStep cs' a := by
  unfold elimStep
  simp only
  split
  · simp [hc, ha]
  · simp [hc, ha]

theorem elimStep_vars (cs' : List Clique) (a : Attr) :
    ∃ c ∈ elimStep cs' a, ∀ x, x ∈ c ↔ x ∈ (modSup cs' a).filter (· != a) := by
  unfold elimStep
  simp only
  split
  · rename_i h
    obtain ⟨c, hc, hs⟩ := List.any_eq_true.1 h
    rw [sameSet_iff] at hs
    exact ⟨c, hc, fun x => ⟨hs.1 x, hs.2 x⟩⟩
  · exact ⟨(modSup cs' a).filter (· != a), by simp [modSup], fun x => Iff.rfl⟩

theorem cleanup_CEq (tos : List Attr → List Attr) (htos : ∀ l, (tos l).Perm l)
    {cs cs' : List Clique} (h : CEq cs cs') (a : Attr) :
    CEq (genCleanup tos cs a) (elimStep cs' a) := by
  have hV : ∀ x, x ∈ tos (setDiff (genSup cs a) [a]) ↔ x ∈ (modSup cs' a).filter (· != a) := by
    intro x
    rw [(htos _).mem_iff, mem_setDiff, h.sup a x]
    simp
  have hmem : ∀ c, c ∈ genCleanup tos cs a ↔ (c ∈ cs ∧ a ∉ c) ∨ c = tos (setDiff (genSup cs a) [a]) := by
    intro c
    unfold genCleanup
    rw [mem_setAdd, mem_setDiff, mem_toSet]
    simp only [List.mem_filter, List.contains_iff_mem, not_and]
    constructor
    · rintro (⟨h1, h2⟩ | h1)
      · exact Or.inl ⟨h1, h2 h1⟩
      · exact Or.inr h1
    · rintro (⟨h1, h2⟩ | h1)
      · exact Or.inl ⟨h1, fun _ => h2⟩
      · exact Or.inr h1
  refine ⟨?_, ?_, ?_, ?_⟩
  · intro c hc
    rcases (hmem c).1 hc with ⟨h1, _⟩ | rfl
    · exact h.nd c h1
    · exact (htos _).nodup_iff.2 ((nodup_genSup cs a).filter _)
  · intro c hc
    rcases mem_elimStep hc with ⟨h1, _⟩ | rfl
    · exact h.nd' c h1
    · exact (nodup_modSup h a).filter _
  · intro c hc
    rcases (hmem c).1 hc with ⟨h1, h2⟩ | rfl
    · obtain ⟨c', hc', he⟩ := h.fwd c h1
      exact ⟨c', elimStep_rest hc' (fun ha => h2 ((he a).2 ha)), he⟩
    · obtain ⟨c', hc', he⟩ := elimStep_vars cs' a
      exact ⟨c', hc', fun x => (hV x).trans (he x).symm⟩
  · intro c' hc'
    rcases mem_elimStep hc' with ⟨h1, h2⟩ | rfl
    · obtain ⟨c, hc, he⟩ := h.bwd c' h1
      exact ⟨c, (hmem c).2 (Or.inl ⟨hc, fun ha => h2 ((he a).1 ha)⟩), he⟩
    · exact ⟨_, (hmem _).2 (Or.inr rfl), hV⟩

/-- the initial states: `set(self.cliques)` against the clique list -/
theorem CEq_init (cliques : List Clique) (hcl : ∀ c ∈ cliques, c.Nodup) : CEq (toSet cliques) cliques :=
  ⟨fun c hc => hcl c (mem_toSet.1 hc), hcl,
    fun c hc => ⟨c, mem_toSet.1 hc, fun _ => Iff.rfl⟩, fun c hc => ⟨c, mem_toSet.2 hc, fun _ => Iff.rfl⟩⟩

/-! ## the `OrderedDict` of costs and `min(cost, key=…)` -/

theorem dictFold_eq (f : Attr → Nat) (u : List Attr) : ∀ (m : List (Attr × Nat)),
    (dictKeys m ++ u).Nodup →
    u.foldl (fun cost a => dictSet cost a (f a)) m = m ++ u.map (fun a => (a, f a)) := by
  induction u with
  | nil => intro m _; simp
  | cons a u ih =>
    intro m h
    have ha : a ∉ dictKeys m := by
      intro ha
      exact (List.nodup_append.1 h).2.2 a ha a (by simp) rfl
    have hset : dictSet m a (f a) = m ++ [(a, f a)] := by
      unfold dictSet
      have : m.any (fun p => p.1 == a) = false := by
        rw [Bool.eq_false_iff]
        intro hany
        obtain ⟨p, hp, hpa⟩ := List.any_eq_true.1 hany
        exact ha (List.mem_map.2 ⟨p, hp, by simpa using hpa⟩)
      simp [this]
    simp only [List.foldl_cons, hset]
    rw [ih]
    · simp
    · have : dictKeys (m ++ [(a, f a)]) ++ u = dictKeys m ++ a :: u := by simp [dictKeys]
      rw [this]; exact h

theorem lookup_map_self (f : Attr → Nat) (u : List Attr) (a : Attr) (ha : a ∈ u) :
    (u.map (fun a => (a, f a))).lookup a = some (f a) := by
  induction u with
  | nil => simp at ha
  | cons b u ih =>
    simp only [List.map_cons, List.lookup_cons]
    by_cases hab : a = b
    · subst hab; simp
    · have : (a == b) = false := by simpa using hab
      rw [this]
      exact ih (by rcases List.mem_cons.1 ha with h | h; exact absurd h hab; exact h)

/-- the cost dictionary of one iteration: its keys are the unmarked attributes, in order; it maps `a`
to `f a` -/
theorem costDict (f : Attr → Nat) (u : List Attr) (hu : u.Nodup) :
    dictKeys (u.foldl (fun cost a => dictSet cost a (f a)) []) = u ∧
      ∀ a ∈ u, dictGet (u.foldl (fun cost a => dictSet cost a (f a)) []) a = f a := by
  rw [dictFold_eq f u [] (by simpa [dictKeys] using hu)]
  constructor
  · simp [dictKeys, Function.comp_def]
  · intro a ha
    simp [dictGet, lookup_map_self f u a ha]

theorem foldl_argmin_congr (f g : Attr → Nat) (us : List Attr) : ∀ (x : Attr),
    (∀ a ∈ x :: us, f a = g a) →
    us.foldl (fun b a => if f a < f b then a else b) x = us.foldl (fun b a => if g a < g b then a else b) x := by
  induction us with
  | nil => intro x _; rfl
  | cons y us ih =>
    intro x h
    simp only [List.foldl_cons]
    rw [h y (by simp), h x (by simp)]
    by_cases hlt : g y < g x
    · simp only [hlt, if_true]
      exact ih y (fun a ha => h a (by rcases List.mem_cons.1 ha with e | e; simp [e]; simp [e]))
    · simp only [hlt, if_false]
      exact ih x (fun a ha => h a (by rcases List.mem_cons.1 ha with e | e; simp [e]; simp [e]))

theorem erase_eq_filter_bne {u : List Attr} (hu : u.Nodup) (a : Attr) :
    listRemove u a = u.filter (· != a) := by
  unfold listRemove
  rw [hu.erase_eq_filter]

/-! ## one iteration, deterministic branch -/

/-- the body of the `for k in range(len(domain))` loop, variant `stochastic=False`, as generated -/
def genDetStep (tos : List Attr → List Attr) (d : Dom)
    (s_ : List Attr × List Clique × List Attr × Nat) : List Attr × List Clique × List Attr × Nat :=
  let order := s_.1
  let cliques := s_.2.1
  let unmarked := s_.2.2.1
  let total_cost := s_.2.2.2
  let cost : List (Attr × Nat) := []
  let cost := unmarked.foldl (fun cost a =>
      let neighbors := (cliques.filter (fun cl => (cl.contains a)))
      let variables_ := (tos (setUnionAll [] (neighbors.map (fun x => toSet x))))
      let newdom := (Dom.project d variables_)
      let cost := (dictSet cost a (Dom.size newdom))
      cost) cost
  let a := (pyMin (dictKeys cost) (fun a => (dictGet cost a)) default)
  let order := (order ++ [a])
  let unmarked := (listRemove unmarked a)
  let neighbors := (cliques.filter (fun cl => (cl.contains a)))
  let variables_ := (tos (setDiff (setUnionAll [] (neighbors.map (fun x => toSet x))) [a]))
  let cliques := (setDiff cliques (toSet neighbors))
  let cliques := (setAdd cliques variables_)
  let total_cost := (total_cost + (dictGet cost a))
  (order, cliques, unmarked, total_cost)

/-- `_greedy_order(stochastic=False)` is the `n`-fold iteration of that body -/
theorem gen_greedy_order_det_unfold (tos : List Attr → List Attr) (d : Dom) (cliques : List Clique) :
    JTG.greedy_order_det tos d cliques =
      (((genDetStep tos d)^[d.attrs.length] ([], toSet cliques, d.attrs, 0)).1,
        ((genDetStep tos d)^[d.attrs.length] ([], toSet cliques, d.attrs, 0)).2.2.2) := by
  have h : JTG.greedy_order_det tos d cliques =
      (((List.range d.attrs.length).foldl (fun s _ => genDetStep tos d s) ([], toSet cliques, d.attrs, 0)).1,
        ((List.range d.attrs.length).foldl (fun s _ => genDetStep tos d s) ([], toSet cliques, d.attrs, 0)).2.2.2) := rfl
  rw [h, List.foldl_const, List.length_range]

theorem genDetStep_spec (tos : List Attr → List Attr) (htos : ∀ l, (tos l).Perm l) (d : Dom)
    (o : List Attr) (cs cs' : List Clique) (x : Attr) (us : List Attr) (tot : Nat)
    (hu : (x :: us).Nodup) (h : CEq cs cs') :
    let best := us.foldl (fun b a => if elimCost d cs' a < elimCost d cs' b then a else b) x
    ∃ cs1, genDetStep tos d (o, cs, x :: us, tot) =
        (o ++ [best], cs1, (x :: us).filter (· != best), tot + elimCost d cs' best) ∧
      CEq cs1 (elimStep cs' best) := by
  intro best
  have hcost := costDict (fun a => Dom.size (Dom.project d (tos (genSup cs a)))) (x :: us) hu
  have hbest_mem : best ∈ x :: us := foldl_pick_mem _ us x
  have hpick : pyMin (dictKeys ((x :: us).foldl (fun cost a => dictSet cost a
      (Dom.size (Dom.project d (tos (genSup cs a))))) []))
      (fun a => dictGet ((x :: us).foldl (fun cost a => dictSet cost a
        (Dom.size (Dom.project d (tos (genSup cs a))))) []) a) default = best := by
    rw [hcost.1]
    show us.foldl _ x = best
    apply foldl_argmin_congr
    intro a ha
    rw [hcost.2 a ha, cost_eq tos htos d h a]
  refine ⟨genCleanup tos cs best, ?_, cleanup_CEq tos htos h best⟩
  have hstep : genDetStep tos d (o, cs, x :: us, tot) =
      (o ++ [pyMin (dictKeys ((x :: us).foldl (fun cost a => dictSet cost a
          (Dom.size (Dom.project d (tos (genSup cs a))))) []))
          (fun a => dictGet ((x :: us).foldl (fun cost a => dictSet cost a
            (Dom.size (Dom.project d (tos (genSup cs a))))) []) a) default],
        genCleanup tos cs (pyMin (dictKeys ((x :: us).foldl (fun cost a => dictSet cost a
          (Dom.size (Dom.project d (tos (genSup cs a))))) []))
          (fun a => dictGet ((x :: us).foldl (fun cost a => dictSet cost a
            (Dom.size (Dom.project d (tos (genSup cs a))))) []) a) default),
        listRemove (x :: us) (pyMin (dictKeys ((x :: us).foldl (fun cost a => dictSet cost a
          (Dom.size (Dom.project d (tos (genSup cs a))))) []))
          (fun a => dictGet ((x :: us).foldl (fun cost a => dictSet cost a
            (Dom.size (Dom.project d (tos (genSup cs a))))) []) a) default),
        tot + dictGet ((x :: us).foldl (fun cost a => dictSet cost a
            (Dom.size (Dom.project d (tos (genSup cs a))))) [])
          (pyMin (dictKeys ((x :: us).foldl (fun cost a => dictSet cost a
          (Dom.size (Dom.project d (tos (genSup cs a))))) []))
          (fun a => dictGet ((x :: us).foldl (fun cost a => dictSet cost a
            (Dom.size (Dom.project d (tos (genSup cs a))))) []) a) default)) := rfl
  rw [hstep, hpick, hcost.2 best hbest_mem, cost_eq tos htos d h best, erase_eq_filter_bne hu]

/-- **`_greedy_order(stochastic=False)` computes the order and the cost of the hand model** -/
theorem genDet_iter (tos : List Attr → List Attr) (htos : ∀ l, (tos l).Perm l) (d : Dom) (n : Nat) :
    ∀ (o : List Attr) (cs cs' : List Clique) (u : List Attr) (tot : Nat),
    u.Nodup → u.length = n → CEq cs cs' →
    ((genDetStep tos d)^[n] (o, cs, u, tot)).1 = o ++ greedyOrder d cs' u n ∧
    ((genDetStep tos d)^[n] (o, cs, u, tot)).2.2.2 = tot + greedyCost d cs' (greedyOrder d cs' u n) := by
  induction n with
  | zero =>
    intro o cs cs' u tot _ hlen _
    have : u = [] := List.length_eq_zero_iff.1 hlen
    subst this
    simp [greedyOrder, greedyCost]
  | succ n ih =>
    intro o cs cs' u tot hu hlen h
    match u, hu, hlen with
    | x :: us, hu, hlen =>
      obtain ⟨cs1, hstep, hceq⟩ := genDetStep_spec tos htos d o cs cs' x us tot hu h
      have hbest := foldl_pick_mem (fun a => elimCost d cs' a) us x
      rw [Function.iterate_succ_apply, hstep, greedyOrder_succ]
      have hlen' : ((x :: us).filter (· != us.foldl (fun b a =>
          if elimCost d cs' a < elimCost d cs' b then a else b) x)).length = n := by
        rw [length_filter_ne hu hbest, hlen]; rfl
      obtain ⟨h1, h2⟩ := ih _ cs1 _ _ _ (hu.filter _) hlen' hceq
      rw [h1, h2]
      constructor
      · simp
      · simp only [greedyCost]; omega

end PGM.JT
